(** C05 -- TOUGH+ listings, FILE level.  Same rendering as FileT2.v ([pset], [file_from], [positions]); what differs
    is the reader: the header block ends at a '=====' line, the next table is found at the next line that starts with
    '_____' (one more line is passed, then comes the header), a second / third table whose header starts ELEM INDEX is
    called element1 / element2, and the primary table has no end marker: it ends at a blank line followed by the
    '_____' line that opens the next table (skipping it without structure stops after its header underline).
    The hypotheses are one decidable check, [tp_check]; the theorems are stated for listings that pass it. *)
From Coq Require Import Ascii String List Bool Arith ZArith NArith Lia.
From PTBase Require Import Exn PyStr PyNum PyVal.
From PTModel Require Import Fortran.
From P Require Import Model Table Reader Cells TableT2 SetT2 FileT2 CodecT2 CheckT2 LoopG FileG.
Import ListNotations.
Open Scope char_scope.

Definition quietP (l : str) : bool := negb (starts_at 0 kw_us l).
Lemma quietP_no l : quietP l = true -> no_kw 0 kw_us l.
Proof. unfold quietP, no_kw. apply negb_true. Qed.
Lemma quietP_all q : forallb quietP q = true -> Forall (no_kw 0 kw_us) q.
Proof. apply forallb_Forall. exact quietP_no. Qed.
Definition skip_kw_TP (name : str) : str := if str_eqb name (s2l "primary") then kw_us else kw_at.
Definition bs_of (t : ptable) : option (list str) :=
  match break_at (starts_at 1 (skip_kw_TP (p_name t))) (p_lines t) with Some (_, _, z) => Some z | None => None end.
Definition gt (t : ptable) : gtab :=
  {| g_name := p_name t; g_lines := p_lines t; g_br := [p_sep t]; g_bs := match bs_of t with Some z => z | None => [] end |}.
Definition gits (its : list (list str * ptable)) : list (list str * gtab) := map (fun it => (fst it, gt (snd it))) its.
Lemma grest_gits its after : grest (gits its) after = rest_lines its after.
Proof. induction its as [|[i t] its IH]; cbn [gits map grest rest_lines fst snd]; [reflexivity|]. unfold gits in IH. rewrite IH. reflexivity. Qed.
Lemma gits_tabs its : map snd (gits its) = map gt (map snd its).
Proof. unfold gits. rewrite !map_map. reflexivity. Qed.

Lemma gskip_TP t : bs_of t <> None -> gskip_ok TPLUS (gt t).
Proof.
  unfold bs_of, gskip_ok. destruct (break_at (starts_at 1 (skip_kw_TP (p_name t))) (p_lines t)) as [[[a k] z]|] eqn:E; [|congruence].
  intros _ ts r Hn. destruct (break_at_spec _ _ _ _ _ E) as [E1 [E2 E3]].
  cbn [gt g_name g_lines g_bs] in *. unfold skip_table_T2. rewrite Hn. cbn [sim_eqb andb]. fold (skip_kw_TP (p_name t)).
  unfold bs_of. rewrite E, E1, <- app_assoc. cbn [app]. rewrite (skipto1_app 1 _ a k (z ++ r)); [reflexivity| |exact E3].
  eapply Forall_impl; [|exact E2]. intros l Hl. exact Hl.
Qed.

(** ** next_table_TOUGHplus *)
Definition gapb (l : list str) : bool := match break_at (starts_at 0 kw_us) l with Some (_, _, [_]) => true | _ => false end.
Lemma nt_TP_step fullpos index l hdr r raw : gapb l = true -> past_next_set fullpos index (hdr :: r) = Ok false ->
  table_type_TP (firstn 3 (split_ws (fstrip hdr))) = Ok (Some raw) ->
  NT TPLUS fullpos index (l ++ hdr :: r) = Ok (Some raw, hdr :: r).
Proof.
  unfold gapb. destruct (break_at (starts_at 0 kw_us) l) as [[[q us] [|x [|? ?]]]|] eqn:E; try discriminate. intros _ Hp Ht.
  destruct (break_at_spec _ _ _ _ _ E) as [E1 [E2 E3]]. subst l. unfold NT, next_table_TP. cbn [sim_eqb].
  rewrite <- app_assoc. cbn [app]. rewrite (skipto1_app 0 kw_us q us _ E2 E3). cbn [skiplines skipn readline fst]. rewrite Hp. cbn [bind]. rewrite Ht. reflexivity.
Qed.
Fixpoint chainb (nelt : nat) (t : ptable) (its : list (list str * ptable)) : bool :=
  match its with
  | [] => forallb quietP (g_br (gt t)) && forallb quietP (g_bs (gt t))
  | (inter, t') :: r =>
      gapb (g_br (gt t) ++ inter) && gapb (g_bs (gt t) ++ inter)
      && match table_type_TP (firstn 3 (split_ws (fstrip (p_hdr t')))) with
         | Ok (Some raw) => match tp_rename TPLUS (Some raw) nelt with
                            | (Some nm, nelt') => str_eqb nm (p_name t') && chainb nelt' t' r
                            | _ => false
                            end
         | _ => false
         end
  end.

Definition set_okbP (x : pset) : bool :=
  lead_okb (ps_lead x)
  && (match split_ws (ps_time x) with _ :: _ :: _ => true | _ => false end)
  && forallb (fun l => negb (starts_at 1 kw_eq l)) (ps_h1 x)
  && starts_at 1 kw_eq (ps_sep x)
  && forallb is_blank (ps_bl x)
  && negb (is_blank (p_hdr (ps_first x))) && extra_okb (ps_x x) (p_hdr (ps_first x))
  && skip_okb (ps_first x)
  && forallb (fun l => negb (is_oda l)) (rest_lines (ps_rest x) (ps_tail x))
  && forallb quietP (ps_lead x)
  && forallb quietP (ps_tail x).
Record set_okP (x : pset) : Prop := {
  sp_lead : exists A oda B tt, ps_lead x = A ++ oda :: B ++ [tt] /\ Forall not_oda A /\ is_oda oda = true /\ Forall not_tt B /\ has_total_time tt = true;
  sp_time : exists tm stp r, split_ws (ps_time x) = tm :: stp :: r;
  sp_h1 : Forall (no_kw 1 kw_eq) (ps_h1 x);
  sp_sep : starts_at 1 kw_eq (ps_sep x) = true;
  sp_bl : Forall (fun l => is_blank l = true) (ps_bl x);
  sp_hdr : is_blank (p_hdr (ps_first x)) = false /\ extra_ok (ps_x x) (p_hdr (ps_first x));
  sp_first_skip : skip_ok (ps_first x);
  sp_no_oda : Forall not_oda (rest_lines (ps_rest x) (ps_tail x));
  sp_lead_q : Forall (no_kw 0 kw_us) (ps_lead x);
  sp_tail_q : Forall (no_kw 0 kw_us) (ps_tail x)
}.
Lemma set_okbP_spec x : set_okbP x = true -> set_okP x.
Proof.
  unfold set_okbP. intro H. repeat (let Hn := fresh "C" in apply andb_prop in H as [H Hn]).
  constructor.
  - apply lead_okb_spec. exact H.
  - destruct (split_ws (ps_time x)) as [|a [|b r]]; try discriminate. exists a, b, r. reflexivity.
  - apply (forallb_Forall _ _ _ (fun y Hy => negb_true _ Hy) C7).
  - exact C6.
  - apply (forallb_Forall _ _ _ (fun y Hy => Hy) C5).
  - split; [apply negb_true; assumption|apply extra_okb_spec; assumption].
  - apply skip_okb_spec. exact C2.
  - apply (forallb_Forall _ _ _ (fun y Hy => negb_true _ Hy) C1).
  - apply quietP_all. exact C0.
  - apply quietP_all. exact C.
Qed.
Lemma read_header_setP x after : set_okP x ->
  read_header_T2 TPLUS (set_body x after) = Ok (set_time x, set_step x, tables_lines x after).
Proof.
  intros [_ [tm [stp [r Ht]]] H1 Hsep Hbl [Hh Hx] _ _ _ _].
  unfold set_body, tables_lines, set_time, set_step, read_header_T2. rewrite (p_lines_cons (ps_first x)). cbn [app readline]. rewrite Ht. cbn [sim_eqb].
  rewrite (skipto1_app 1 kw_eq (ps_h1 x) (ps_sep x) _ H1 Hsep). cbn [snd].
  destruct Hx as [[E H4]|[e [bl2 [E [He [H4 Hb2]]]]]]; rewrite E.
  - cbn [app]. rewrite (skip_to_nonblank_app (ps_bl x) _ _ Hbl Hh). cbn [bind readline]. rewrite H4. reflexivity.
  - cbn [app]. rewrite (skip_to_nonblank_app (ps_bl x) e _ Hbl He). cbn [bind readline]. rewrite H4.
    rewrite (skip_to_nonblank_app bl2 _ _ Hb2 Hh). reflexivity.
Qed.
Lemma setup_pos_specP sets : forall fuel z, Forall set_okP sets -> length sets < fuel -> Forall not_oda z ->
  setup_pos_T2 fuel TPLUS (z ++ file_from sets) = Ok (positions sets).
Proof.
  induction sets as [|x sets IH]; intros fuel z Hok Hf Hz.
  - destruct fuel as [|f]; [cbn in Hf; lia|]. cbn [file_from setup_pos_T2 positions]. rewrite app_nil_r.
    rewrite (scan_past_none is_oda z Hz). reflexivity.
  - destruct fuel as [|f]; [cbn in Hf; lia|]. inversion Hok as [|? ? Hx Hok']; subst.
    pose proof Hx as [[A [oda [B [tt [El [HA [Ho [HB Ht]]]]]]]] _ _ _ _ _ Hskip Hno _ _].
    cbn [file_from setup_pos_T2 positions]. rewrite El. rewrite <- !app_assoc. cbn [app]. rewrite app_assoc.
    rewrite (scan_past_app is_oda (z ++ A) oda _); [|apply Forall_app; split; assumption|exact Ho].
    rewrite <- app_assoc. cbn [app]. rewrite (scan_past_app has_total_time B tt _ HB Ht).
    rewrite (read_header_setP x _ Hx). cbn [bind snd].
    unfold tables_lines at 1. destruct Hskip as [Hsk1 Hsk2]. unfold p_lines. rewrite <- app_assoc. cbn [app].
    rewrite (skipto1_app 1 kw_at _ _ _ Hsk1 Hsk2). cbn [snd].
    rewrite rest_lines_app. rewrite (IH f _ Hok' ltac:(cbn [length] in Hf; lia) Hno). reflexivity.
Qed.
Lemma leads_of_okP sets : Forall set_okP sets -> leads_nonempty sets.
Proof.
  intro H. eapply Forall_impl; [|exact H]. intros x [[A [oda [B [tt [E _]]]]] _ _ _ _ _ _ _ _ _]. rewrite E. destruct A; discriminate.
Qed.

(** after the last table of result set k no table is found *)
Lemma tp_ends sets k x b : Forall set_okP sets -> nth_error sets k = Some x -> Forall (no_kw 0 kw_us) b ->
  exists c', NT TPLUS (positions sets) (Z.of_nat k) (b ++ ps_tail x ++ file_from (skipn (S k) sets)) = Ok (None, c').
Proof.
  intros Hok Hk Hb. assert (Hx : set_okP x) by (rewrite Forall_forall in Hok; apply Hok; eapply nth_error_In; exact Hk).
  unfold NT, next_table_TP. cbn [sim_eqb]. rewrite app_assoc.
  destruct (skipn (S k) sets) as [|y later] eqn:El.
  - cbn [file_from]. rewrite app_nil_r. rewrite skipto1_none; [eexists; reflexivity|]. apply Forall_app. split; [exact Hb|exact (sp_tail_q x Hx)].
  - assert (Ey : nth_error sets (S k) = Some y).
    { clear - El. revert k El. induction sets as [|a sets IH]; intros k El; [destruct k; discriminate|].
      destruct k as [|k]; cbn [skipn] in El.
      - destruct sets; [discriminate|]. cbn in El. inversion El; subst. reflexivity.
      - cbn [nth_error]. apply IH. exact El. }
    assert (Hy : set_okP y) by (rewrite Forall_forall in Hok; apply Hok; eapply nth_error_In; exact Ey).
    cbn [file_from]. rewrite app_assoc. rewrite skipto1_skip.
    2:{ apply Forall_app. split; [apply Forall_app; split; [exact Hb|exact (sp_tail_q x Hx)]|exact (sp_lead_q y Hy)]. }
    destruct (skipto [kw_us] 0 (set_body y (ps_tail y ++ file_from later))) as [[kk|] c1] eqn:Es; [|eexists; reflexivity].
    destruct (skipto_suffix _ _ _ _ _ Es) as [a Ea].
    assert (E2 : skipn (S (S k)) sets = later) by (rewrite (skipn_S_nth sets k y Ey) in El; inversion El; reflexivity).
    assert (Hp : past_next_set (positions sets) (Z.of_nat k) (skiplines 1 c1) = Ok true).
    { apply (past_beyond_gen sets k y (a ++ firstn 1 c1)); [exact Ey|]. rewrite E2, Ea, <- app_assoc. unfold skiplines. rewrite firstn_skipn. reflexivity. }
    rewrite Hp. cbn [bind]. eexists. reflexivity.
Qed.

(** the chain of tables of result set k *)
Lemma chain_from_b sets k x : Forall set_okP sets -> nth_error sets k = Some x ->
  forall its nelt t, chainb nelt t its = true ->
  chain_ok TPLUS (positions sets) (Z.of_nat k) nelt (gt t) (gits its) (ps_tail x ++ file_from (skipn (S k) sets)).
Proof.
  intros Hok Hk. assert (Hkl : k < length sets) by (apply nth_error_Some; congruence).
  induction its as [|[inter t'] its IH]; intros nelt t H; cbn [chainb] in H; cbn [gits map chain_ok fst snd].
  - apply andb_prop in H as [H1 H2]. intros b [Eb|Eb]; subst b; apply (tp_ends sets k x _ Hok Hk); apply quietP_all; assumption.
  - apply andb_prop in H as [H H3]. apply andb_prop in H as [H1 H2].
    destruct (table_type_TP (firstn 3 (split_ws (fstrip (p_hdr t'))))) as [[raw|]|] eqn:Et; try discriminate.
    destruct (tp_rename TPLUS (Some raw) nelt) as [[nm|] nelt'] eqn:Er; try discriminate.
    apply andb_prop in H3 as [H3 H4]. apply str_eqb_eq in H3. subst nm.
    exists raw, nelt'. split; [|split; [exact Er|apply IH; exact H4]].
    intros b Hb. fold (gits its). rewrite grest_gits. cbn [gt g_lines]. rewrite (p_lines_cons t'). cbn [app]. rewrite app_assoc.
    apply nt_TP_step; [destruct Hb; subst b; assumption| |exact Et].
    rewrite rest_lines_app, app_assoc, app_comm_cons.
    apply (past_inside_gen sets k _ (leads_of_okP sets Hok) Hkl).
Qed.
