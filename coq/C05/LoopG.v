(** C05 -- the loops of setup_tables_* / read_tables_* (TOUGH2 family and TOUGH+) over the tables of one result set,
    stated once for every simulator of the family: what is needed of a table and of the lines between two tables is
    given as hypotheses ([gtab], [chain_ok]); FileTP.v / FileMP.v instantiate them.

    A table is its lines, the lines given back to the file after setting it up or reading it (the line that ended it)
    and the lines given back after skipping it without structure.  A table is read into the structure of its name, or
    passed over (it is in skip_tables, or -- not TOUGH+ -- it has no structure because it was absent at the first
    result time). *)
From Coq Require Import Ascii String List Bool Arith ZArith NArith Lia.
From PTBase Require Import Exn PyStr PyNum PyVal.
From PTModel Require Import Fortran.
From P Require Import Model Table Reader TableT2 SetT2.
Import ListNotations.
Open Scope char_scope.

Record gtab := { g_name : str; g_lines : list str; g_br : list str; g_bs : list str }.
Fixpoint grest (its : list (list str * gtab)) (after : cur) : cur :=
  match its with [] => after | (inter, t) :: r => inter ++ g_lines t ++ grest r after end.
Lemma grest_app its a b : grest its (a ++ b) = grest its a ++ b.
Proof. induction its as [|[i t] its IH]; cbn [grest]; [reflexivity|]. rewrite IH, <- !app_assoc. reflexivity. Qed.

Section G.
  Variables (sm : sim) (fullpos : list cur) (index : Z).
  (** a state that navigates like the listing at hand *)
  Definition nav (st : lstate) : Prop := s_sim st = sm /\ s_fullpos st = fullpos /\ s_index st = index.
  Definition NT (c : cur) : res (option str * cur) :=
    if sim_eqb sm TPLUS then next_table_TP fullpos index c else next_table_T2 (S (length c)) fullpos index c.
  Lemma next_table_nav st c : nav st -> next_table st c = NT c.
  Proof. intros [H1 [H2 H3]]. unfold next_table, NT. rewrite H1, H2, H3. reflexivity. Qed.

  Ltac rw_nt := match goal with Hnav : _ /\ _ |- context [next_table ?S ?C] => rewrite (next_table_nav S C Hnav) end.

  (** after table [t] (whatever was given back) the next table is found with its name, or none *)
  Fixpoint chain_ok (nelt : nat) (t : gtab) (its : list (list str * gtab)) (after : cur) : Prop :=
    match its with
    | [] => forall b, b = g_br t \/ b = g_bs t -> exists c', NT (b ++ after) = Ok (None, c')
    | (inter, t') :: its' =>
        exists raw nelt',
          (forall b, b = g_br t \/ b = g_bs t -> NT (b ++ inter ++ g_lines t' ++ grest its' after) = Ok (Some raw, g_lines t' ++ grest its' after))
          /\ tp_rename sm (Some raw) nelt = (Some (g_name t'), nelt') /\ chain_ok nelt' t' its' after
    end.
  Definition gskip_ok (t : gtab) : Prop :=
    forall ts r, tab_get (g_name t) ts = None -> skip_table_T2 sm ts (g_name t) (g_lines t ++ r) = g_bs t ++ r.

  (** *** setting up *)
  Definition gsetup_ok (skip : list str) (title : str) (t : gtab) (T : ltable) : Prop :=
    if in_names (g_name t) skip then gskip_ok t
    else forall r, setup_table_T2 sm title (g_name t) (g_lines t ++ r) = Ok (T, g_br t ++ r).
  Fixpoint gadded (skip : list str) (us : list gtab) (Ts : list ltable) : tabs :=
    match us, Ts with
    | u :: us', T :: Ts' => if in_names (g_name u) skip then gadded skip us' Ts' else (g_name u, T) :: gadded skip us' Ts'
    | _, _ => []
    end.
  Lemma gsetup_loop its : forall fuel st t Ts after nelt,
    nav st -> length its < fuel ->
    Forall2 (gsetup_ok (s_skip st) (s_title st)) (t :: map snd its) Ts ->
    (forall n, in_names n (s_skip st) = true -> tab_get n (s_tables st) = None) ->
    chain_ok nelt t its after ->
    setup_tables_loop fuel st (g_name t) nelt (g_lines t ++ grest its after)
    = Ok (with_tables st (s_tables st ++ gadded (s_skip st) (t :: map snd its) Ts)).
  Proof.
    induction its as [|[inter t'] its IH]; intros fuel st t Ts after nelt Hnav Hf HT Hno Hch.
    - destruct fuel as [|f]; [cbn in Hf; lia|]. destruct Ts as [|T Ts']; [inversion HT|]. apply Forall2_cons_inv in HT as [HT1 HT2]. inversion HT2; subst.
      cbn [setup_tables_loop grest map gadded chain_ok] in *. unfold gsetup_ok in HT1. destruct Hnav as [Hs Hn2]. pose proof (conj Hs Hn2) as Hnav.
      destruct (in_names (g_name t) (s_skip st)) eqn:E.
      + rewrite Hs, (HT1 _ _ (Hno _ E)). cbn [bind]. rw_nt. destruct (Hch _ (or_intror eq_refl)) as [c' Hc]. rewrite Hc. cbn [bind fst].
        unfold tp_rename. rewrite app_nil_r. destruct st; reflexivity.
      + rewrite Hs, (HT1 _). cbn [bind fst snd]. rw_nt. destruct (Hch _ (or_introl eq_refl)) as [c' Hc]. rewrite Hc. cbn [bind fst].
        unfold tp_rename. reflexivity.
    - destruct fuel as [|f]; [cbn in Hf; lia|]. destruct Ts as [|T Ts']; [inversion HT|]. apply Forall2_cons_inv in HT as [HT1 HT2].
      cbn [map snd] in HT2. cbn [setup_tables_loop grest map snd gadded]. cbn [chain_ok] in Hch. destruct Hch as [raw [nelt' [Hb [Hren Hch']]]].
      unfold gsetup_ok in HT1. destruct Hnav as [Hs Hn2]. pose proof (conj Hs Hn2) as Hnav.
      destruct (in_names (g_name t) (s_skip st)) eqn:E.
      + rewrite Hs, (HT1 _ _ (Hno _ E)). cbn [bind]. rw_nt; rewrite (Hb _ (or_intror eq_refl)). cbn [bind fst snd].
        rewrite Hs, Hren. rewrite (IH f st t' Ts' after nelt' Hnav ltac:(cbn [length] in Hf; lia) HT2 Hno Hch'). reflexivity.
      + rewrite Hs, (HT1 _). cbn [bind fst snd]. rw_nt; rewrite (Hb _ (or_introl eq_refl)). cbn [bind fst snd].
        cbn [with_tables s_sim]. rewrite Hs, Hren.
        set (st1 := with_tables st (tab_add (g_name t) T (s_tables st))).
        rewrite (IH f st1 t' Ts' after nelt').
        * unfold st1, tab_add. cbn [with_tables s_tables s_skip]. rewrite <- app_assoc. reflexivity.
        * exact Hnav.
        * cbn [length] in Hf. lia.
        * exact HT2.
        * intros n Hn. unfold st1. cbn [with_tables s_tables]. rewrite tab_get_add_other; [apply Hno; exact Hn|].
          apply (in_names_neq _ _ (s_skip st)); [exact E|exact Hn].
        * exact Hch'.
  Qed.

  (** *** reading *)
  Inductive ract := RSkip | RRead (T T' : ltable).
  Definition gread_ok (skip : list str) (ts : tabs) (u : gtab) (a : ract) : Prop :=
    match a with
    | RSkip => (in_names (g_name u) skip = true \/ sim_eqb sm TPLUS = false) /\ tab_get (g_name u) ts = None /\ gskip_ok u
    | RRead T T' => in_names (g_name u) skip = false /\ tab_get (g_name u) ts = Some T
                    /\ forall r, read_table_T2 T (g_lines u ++ r) = Ok (T', g_br u ++ r)
    end.
  Fixpoint gupdated (us : list gtab) (acts : list ract) (ts : tabs) : tabs :=
    match us, acts with
    | u :: us', a :: r => gupdated us' r (match a with RSkip => ts | RRead _ T' => tab_set (g_name u) T' ts end)
    | _, _ => ts
    end.
  Lemma gread_ok_other skip ts u a m X : str_eqb m (g_name u) = false -> gread_ok skip ts u a -> gread_ok skip (tab_set m X ts) u a.
  Proof. intros Hm H. destruct a; cbn [gread_ok] in *; rewrite (tab_get_set_other _ _ X ts Hm); exact H. Qed.

  Lemma gread_loop its : forall fuel st t acts after nelt,
    nav st -> length its < fuel -> NoDup (map g_name (t :: map snd its)) ->
    Forall2 (gread_ok (s_skip st) (s_tables st)) (t :: map snd its) acts ->
    chain_ok nelt t its after ->
    read_tables_loop fuel st (g_name t) nelt (g_lines t ++ grest its after)
    = Ok (with_tables st (gupdated (t :: map snd its) acts (s_tables st))).
  Proof.
    induction its as [|[inter t'] its IH]; intros fuel st t acts after nelt Hnav Hf Hnd HT Hch.
    - destruct fuel as [|f]; [cbn in Hf; lia|]. destruct acts as [|a acts']; [inversion HT|]. apply Forall2_cons_inv in HT as [HT1 HT2]. inversion HT2; subst.
      cbn [read_tables_loop grest map gupdated chain_ok] in *. destruct Hnav as [Hs Hn2]. pose proof (conj Hs Hn2) as Hnav.
      destruct a as [|T T']; cbn [gread_ok] in HT1.
      + destruct HT1 as [Hor [Hnone Hsk]].
        assert (E : (if in_names (g_name t) (s_skip st) then Ok (st, skip_table_T2 (s_sim st) (s_tables st) (g_name t) (g_lines t ++ after))
                     else match tab_get (g_name t) (s_tables st) with
                          | Some T => do tc <- read_table_T2 T (g_lines t ++ after); Ok (with_tables st (tab_set (g_name t) (fst tc) (s_tables st)), snd tc)
                          | None => if sim_eqb (s_sim st) TPLUS then Raise KeyError else Ok (st, skip_table_T2 (s_sim st) (s_tables st) (g_name t) (g_lines t ++ after))
                          end) = Ok (st, g_bs t ++ after)).
        { rewrite Hnone, Hs, (Hsk _ _ Hnone). destruct (in_names (g_name t) (s_skip st)); [reflexivity|]. destruct Hor as [Hor|Hor]; [discriminate|rewrite Hor; reflexivity]. }
        rewrite E. cbn [bind]. rw_nt. destruct (Hch _ (or_intror eq_refl)) as [c' Hc]. rewrite Hc. cbn [bind fst].
        unfold tp_rename. destruct st; reflexivity.
      + destruct HT1 as [Hin [Hget Hrd]]. rewrite Hin, Hget, (Hrd _). cbn [bind fst snd].
        rw_nt. destruct (Hch _ (or_introl eq_refl)) as [c' Hc]. rewrite Hc. cbn [bind fst]. unfold tp_rename. reflexivity.
    - destruct fuel as [|f]; [cbn in Hf; lia|]. destruct acts as [|a acts']; [inversion HT|]. apply Forall2_cons_inv in HT as [HT1 HT2].
      cbn [map snd] in HT2. cbn [read_tables_loop grest map snd gupdated]. cbn [chain_ok] in Hch. destruct Hch as [raw [nelt' [Hb [Hren Hch']]]].
      destruct Hnav as [Hs Hn2]. pose proof (conj Hs Hn2) as Hnav.
      assert (Hnd' : NoDup (map g_name (t' :: map snd its))) by (cbn [map snd] in Hnd; apply NoDup_cons_iff in Hnd as [_ Hnd]; exact Hnd).
      assert (Hneq : forall u, In u (t' :: map snd its) -> str_eqb (g_name t) (g_name u) = false).
      { intros u Hu. cbn [map snd] in Hnd. apply NoDup_cons_iff in Hnd as [Hni _]. destruct (str_eqb (g_name t) (g_name u)) eqn:E; [|reflexivity].
        apply str_eqb_eq in E. exfalso. apply Hni. rewrite E. exact (in_map g_name (t' :: map snd its) u Hu). }
      destruct a as [|T T']; cbn [gread_ok] in HT1.
      + destruct HT1 as [Hor [Hnone Hsk]].
        assert (E : (if in_names (g_name t) (s_skip st) then Ok (st, skip_table_T2 (s_sim st) (s_tables st) (g_name t) (g_lines t ++ inter ++ g_lines t' ++ grest its after))
                     else match tab_get (g_name t) (s_tables st) with
                          | Some T => do tc <- read_table_T2 T (g_lines t ++ inter ++ g_lines t' ++ grest its after); Ok (with_tables st (tab_set (g_name t) (fst tc) (s_tables st)), snd tc)
                          | None => if sim_eqb (s_sim st) TPLUS then Raise KeyError else Ok (st, skip_table_T2 (s_sim st) (s_tables st) (g_name t) (g_lines t ++ inter ++ g_lines t' ++ grest its after))
                          end) = Ok (st, g_bs t ++ inter ++ g_lines t' ++ grest its after)).
        { rewrite Hnone, Hs, (Hsk _ _ Hnone). destruct (in_names (g_name t) (s_skip st)); [reflexivity|]. destruct Hor as [Hor|Hor]; [discriminate|rewrite Hor; reflexivity]. }
        rewrite E. cbn [bind]. rw_nt; rewrite (Hb _ (or_intror eq_refl)). cbn [bind fst snd]. rewrite Hs, Hren.
        rewrite (IH f st t' acts' after nelt' Hnav ltac:(cbn [length] in Hf; lia) Hnd' HT2 Hch'). reflexivity.
      + destruct HT1 as [Hin [Hget Hrd]]. rewrite Hin, Hget, (Hrd _). cbn [bind fst snd].
        rw_nt; rewrite (Hb _ (or_introl eq_refl)). cbn [bind fst snd]. cbn [with_tables s_sim]. rewrite Hs, Hren.
        set (st1 := with_tables st (tab_set (g_name t) T' (s_tables st))).
        rewrite (IH f st1 t' acts' after nelt').
        * reflexivity.
        * exact Hnav.
        * cbn [length] in Hf. lia.
        * exact Hnd'.
        * unfold st1. cbn [with_tables s_tables s_skip].
          clear - HT2 Hneq. revert HT2 Hneq. generalize (t' :: map snd its) as us. intros us HT2. induction HT2 as [|u a' us acts HU _ IHF]; intro Hneq; constructor.
          -- apply gread_ok_other; [apply Hneq; left; reflexivity|exact HU].
          -- apply IHF. intros v Hv. apply Hneq. right. exact Hv.
        * exact Hch'.
  Qed.
End G.
