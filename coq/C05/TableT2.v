(** C05 -- TABLE level, TOUGH2 family: what [setup_table_TOUGH2], [read_table_TOUGH2] and
    [skip_table_TOUGH2] (Reader.v) do on a printed table.

    A printed table is given generatively as a list of lines:
       header line, fill lines (units, blank), first row,
       then (gap, row) pairs -- a gap is nothing, one blank line, a repeated header with its
       fill lines, or a blank line and a repeated header with its fill lines (page break) --
       and an ending: a separator line, or a blank line and (separator | title | blank).
    The theorems say, for tables with any number of rows and gaps:
       setup: one dictionary entry per printed row (count = number of lines from the first
              row, key = the names at the key columns), skiplines = the gap lengths,
              header_skiplines = 1 + number of fill lines, position left at the ending;
       read:  a table of the same shape (same number of fill lines, rows and gap lengths; the
              gap lines themselves are arbitrary) is read row by row: row i of the data is
              what [read_table_line_TOUGH2] makes of the i-th row line;
       skip:  skipping a table that was not set up moves to the line after its separator. *)
From Coq Require Import Ascii String List Bool Arith ZArith NArith Lia.
From PTBase Require Import Exn PyStr PyNum PyVal.
From PTModel Require Import Fortran.
From P Require Import Model Table Reader.
Import ListNotations.
Open Scope char_scope.

(** ** cursor lemmas *)
Lemma skipn_app_exact {A} (a b : list A) : skipn (length a) (a ++ b) = b.
Proof. rewrite skipn_app, skipn_all, Nat.sub_diag. reflexivity. Qed.
Lemma skipn_app_plus {A} (a b : list A) k : skipn (length a + k) (a ++ b) = skipn k b.
Proof. rewrite skipn_app. rewrite skipn_all2 by lia. replace (length a + k - length a) with k by lia. reflexivity. Qed.

Lemma scan_past_app p xs y r : Forall (fun l => p l = false) xs -> p y = true -> scan_past p (xs ++ y :: r) = Some r.
Proof.
  induction xs as [|x xs IH]; intros H Hy; cbn [app scan_past]; [rewrite Hy; reflexivity|].
  inversion H as [|? ? H1 H2]; subst. rewrite H1. apply IH; assumption.
Qed.
Lemma scan_past_none p xs : Forall (fun l => p l = false) xs -> scan_past p xs = None.
Proof. induction 1 as [|x xs H1 _ IH]; cbn [scan_past]; [reflexivity|]. rewrite H1. exact IH. Qed.
Lemma scan_past_skip p xs r : Forall (fun l => p l = false) xs -> scan_past p (xs ++ r) = scan_past p r.
Proof. induction 1 as [|x xs H1 _ IH]; cbn [app scan_past]; [reflexivity|]. rewrite H1. exact IH. Qed.
Lemma scan_past_suffix p c r : scan_past p c = Some r -> exists a, c = a ++ r /\ 0 < length a.
Proof.
  revert r; induction c as [|x c IH]; intros r H; cbn [scan_past] in H; [discriminate|].
  destruct (p x).
  - inversion H; subst. exists [x]. split; [reflexivity|cbn; lia].
  - destruct (IH _ H) as [a [E L]]. exists (x :: a). split; [cbn; congruence|cbn; lia].
Qed.

Definition no_kw (start : nat) (kw : str) (l : str) : Prop := starts_at start kw l = false.
Lemma skipto1_app start kw xs y r : Forall (no_kw start kw) xs -> starts_at start kw y = true ->
  skipto [kw] start (xs ++ y :: r) = (Some kw, r).
Proof.
  induction xs as [|x xs IH]; intros H Hy; cbn [app skipto List.find].
  - rewrite Hy. reflexivity.
  - inversion H as [|? ? H1 H2]; subst. unfold no_kw in H1. rewrite H1. apply IH; assumption.
Qed.

Lemma skip_to_nonblank_app bs y r : Forall (fun l => is_blank l = true) bs -> is_blank y = false ->
  skip_to_nonblank (bs ++ y :: r) = Ok (y :: r).
Proof.
  induction bs as [|b bs IH]; intros H Hy; cbn [app skip_to_nonblank]; [rewrite Hy; reflexivity|].
  inversion H as [|? ? H1 H2]; subst. rewrite H1. apply IH; assumption.
Qed.

Definition not_results (e : nat) (l : str) : Prop := is_results_line (fstrip l) e = false.
Lemma skip_to_results_app e fill l r : forall n, Forall (not_results e) fill -> is_results_line (fstrip l) e = true ->
  skip_to_results e n (fill ++ l :: r) = Ok (n + length fill, l :: r).
Proof.
  induction fill as [|x fill IH]; intros n H Hl; cbn [app skip_to_results length].
  - rewrite Hl. f_equal. f_equal. lia.
  - inversion H as [|? ? H1 H2]; subst. unfold not_results in H1. rewrite H1. rewrite IH by assumption. f_equal. f_equal. lia.
Qed.

(** ** the rows of a table as the set-up loop sees them *)
Section Setup.
  Variables (cols : list str) (title : str) (expected : nat) (keypos : list Z) (ip0 : Z) (ip1 : option Z).

  Definition next_index (line : str) (index : Z) : Z :=
    match py_int_opt (opt_slice ip0 ip1 line) with Some z => (z - 1)%Z | None => (index + 1)%Z end.
  Definition longer (longest line : str) : str := if (length longest <? length (fstrip line))%nat then line else longest.

  (** a line that continues the table as a row when it directly follows a row *)
  Definition plain_row (l : str) : bool := negb (is_header_line cols l) && negb (is_separator l) && negb (is_blank l).
  (** a blank line inside a table (not taken for a header or a separator) *)
  Definition plain_blank (b : str) : bool := negb (is_header_line cols b) && negb (is_separator b) && is_blank b.
  (** a line that continues the table as a row when it follows a blank line *)
  Definition row_after_blank (l : str) : bool :=
    negb (is_header_line cols l) && negb (is_separator l || str_eqb (fstrip l) title || is_blank l).
  (** a line that ends the table when it follows a blank line *)
  Definition end_after_blank (x : str) : bool :=
    negb (is_header_line cols x) && (is_separator x || str_eqb (fstrip x) title || is_blank x).

  (** the gap [g] between two rows, the second being [l]; [ihs] = internal_header_skiplines so far.
      Some ihs' = the gap is one of the four shapes. *)
  Definition header_gap (ihs : option nat) (fill : list str) (l : str) : option (option nat) :=
    match ihs with
    | None => if forallb (fun x => negb (is_results_line (fstrip x) expected)) fill && is_results_line (fstrip l) expected
              then Some (Some (S (length fill))) else None
    | Some k => if (k =? S (length fill))%nat then Some ihs else None
    end.
  Definition gap_check (ihs : option nat) (g : list str) (l : str) : option (option nat) :=
    match g with
    | [] => if plain_row l then Some ihs else None
    | h :: fill =>
        if is_header_line cols h then header_gap ihs fill l
        else if plain_blank h then
          match fill with
          | [] => if row_after_blank l then Some ihs else None
          | h2 :: fill2 => if is_header_line cols h2 then header_gap ihs fill2 l else None
          end
        else None
    end.
  (** the ending: [sep] or [blank; x] *)
  Definition end_check (e : list str) : bool :=
    match e with
    | [sp] => negb (is_header_line cols sp) && is_separator sp
    | [b; x] => plain_blank b && end_after_blank x
    | _ => false
    end.
  (** lines of the ending that the set-up loop consumes ([seek(pos)] puts the last one back) *)
  Definition end_skip (e : list str) : nat := length e - 1.
  Definition end_rest (e : list str) : list str := skipn (length e - 1) e.

  Lemma after_header_none count fill l r : Forall (not_results expected) fill -> is_results_line (fstrip l) expected = true ->
    after_header expected None count (fill ++ l :: r) = Ok (NextRow l (count + S (length fill)) r (Some (S (length fill)))).
  Proof.
    intros H1 H2. unfold after_header. rewrite (skip_to_results_app expected fill l r 1 H1 H2). cbn [bind fst snd readline].
    replace (1 + length fill) with (S (length fill)) by lia. reflexivity.
  Qed.
  Lemma after_header_some count fill l r :
    after_header expected (Some (S (length fill))) count (fill ++ l :: r) = Ok (NextRow l (count + S (length fill)) r (Some (S (length fill)))).
  Proof. unfold after_header. rewrite skipn_app_exact. reflexivity. Qed.

  Lemma forallb_not_results fill : forallb (fun x => negb (is_results_line (fstrip x) expected)) fill = true -> Forall (not_results expected) fill.
  Proof.
    intro H. apply Forall_forall. intros x Hx. rewrite forallb_forall in H. specialize (H x Hx).
    unfold not_results. destruct (is_results_line (fstrip x) expected); [discriminate|reflexivity].
  Qed.

  Lemma header_gap_step ihs fill l ihs' count r : header_gap ihs fill l = Some ihs' ->
    after_header expected ihs count (fill ++ l :: r) = Ok (NextRow l (count + S (length fill)) r ihs').
  Proof.
    unfold header_gap. destruct ihs as [k|].
    - destruct (k =? S (length fill))%nat eqn:E; [|discriminate]. intro H; inversion H; subst.
      apply Nat.eqb_eq in E. subst k. apply after_header_some.
    - destruct (forallb _ fill && _) eqn:E; [|discriminate]. intro H; inversion H; subst.
      apply andb_prop in E as [E1 E2]. apply after_header_none; [apply forallb_not_results; exact E1|exact E2].
  Qed.

  (** one gap: the loop body moves from the row before the gap to the row after it *)
  Lemma step_gap ihs g l ihs' count r : gap_check ihs g l = Some ihs' ->
    step_after_row cols title expected ihs count (g ++ l :: r) = Ok (NextRow l (count + S (length g)) r ihs').
  Proof.
    unfold gap_check, step_after_row. destruct g as [|h fill].
    - unfold plain_row. destruct (is_header_line cols l) eqn:E1; [discriminate|]. destruct (is_separator l) eqn:E2; [discriminate|].
      destruct (is_blank l) eqn:E3; [discriminate|]. intro H; inversion H; subst. cbn [app readline length negb andb].
      rewrite E1, E2, E3. f_equal. f_equal. lia.
    - cbn [app readline length]. destruct (is_header_line cols h) eqn:E1.
      + intro H. rewrite (header_gap_step _ _ _ _ (S count) r H). f_equal. f_equal. lia.
      + unfold plain_blank. rewrite E1. destruct (is_separator h) eqn:E2; [discriminate|]. destruct (is_blank h) eqn:E3; [|discriminate].
        cbn [negb andb]. destruct fill as [|h2 fill2].
        * unfold row_after_blank. cbn [app readline length]. destruct (is_header_line cols l) eqn:F1; [discriminate|].
          destruct (is_separator l || str_eqb (fstrip l) title || is_blank l) eqn:F2; [discriminate|].
          intro H; inversion H; subst. f_equal. f_equal. lia.
        * cbn [app readline length]. destruct (is_header_line cols h2) eqn:F1; [|discriminate].
          intro H. rewrite (header_gap_step _ _ _ _ (S (S count)) r H). f_equal. f_equal. lia.
  Qed.
  (** the ending: the loop stops, the position is put back to the last line of the ending *)
  Lemma step_end ihs e count r : end_check e = true ->
    step_after_row cols title expected ihs count (e ++ r) = Ok (EndTable (count + S (end_skip e)) (end_rest e ++ r)).
  Proof.
    unfold end_check, step_after_row, end_skip, end_rest. destruct e as [|x [|y [|z e']]]; try discriminate.
    - intro H. apply andb_prop in H as [H1 H2]. cbn [app readline length Nat.sub skipn].
      destruct (is_header_line cols x); [discriminate|]. rewrite H2. f_equal. f_equal. lia.
    - intro H. apply andb_prop in H as [H1 H2]. unfold plain_blank in H1. unfold end_after_blank in H2. cbn [app readline length Nat.sub skipn].
      destruct (is_header_line cols x); [discriminate|]. destruct (is_separator x); [discriminate|]. cbn [negb andb] in H1. rewrite H1.
      destruct (is_header_line cols y); [discriminate|]. cbn [negb andb] in H2. rewrite H2. f_equal. f_equal. lia.
  Qed.

  (** what the loop accumulates, computed directly from the rows: *)
  Fixpoint spec_rows (line : str) (count : nat) (index : Z) (dict : list (Z * (nat * list str))) (longest : str)
           (more : list (list str * str)) : res (list (Z * (nat * list str)) * str) :=
    do keyval <- row_keys keypos line;
    let index' := next_index line index in
    let dict' := rd_insert index' (count, keyval) dict in
    let longest' := longer longest line in
    match more with
    | [] => Ok (dict', longest')
    | (g, l) :: more' => spec_rows l (count + S (length g)) index' dict' longest' more'
    end.
  (** gaps are well formed, threading internal_header_skiplines *)
  Fixpoint gaps_ok (ihs : option nat) (more : list (list str * str)) : bool :=
    match more with
    | [] => true
    | (g, l) :: more' => match gap_check ihs g l with Some ihs' => gaps_ok ihs' more' | None => false end
    end.
  Definition more_lines (more : list (list str * str)) : list str := concat (map (fun gl => fst gl ++ [snd gl]) more).

  Lemma setup_loop_spec more : forall fuel line count index a e r dict longest,
    length more < fuel -> gaps_ok (a_ihs a) more = true -> end_check e = true ->
    spec_rows line count index (a_dict a) (a_longest a) more = Ok (dict, longest) ->
    exists a', setup_loop fuel cols title expected keypos ip0 ip1 line count index a (more_lines more ++ e ++ r) = Ok (a', end_rest e ++ r)
               /\ a_dict a' = dict /\ a_longest a' = longest
               /\ a_skips a' = end_skip e :: rev (map (fun gl => length (fst gl)) more) ++ a_skips a.
  Proof.
    induction more as [|[g l] more IH]; intros fuel line count index a e r dict longest Hf Hg He Hs.
    - destruct fuel as [|f]; [cbn in Hf; lia|]. cbn [spec_rows] in Hs. cbn [setup_loop more_lines map concat app].
      destruct (row_keys keypos line) as [kv|ex]; [|discriminate]. cbn [bind] in *.
      rewrite (step_end _ e count r He). cbn [bind]. inversion Hs; subst.
      eexists. split; [reflexivity|]. cbn [a_dict a_longest a_skips rev map app]. repeat split.
      f_equal. lia.
    - destruct fuel as [|f]; [cbn in Hf; lia|]. cbn [spec_rows] in Hs. cbn [gaps_ok] in Hg.
      destruct (gap_check (a_ihs a) g l) as [ihs'|] eqn:Eg; [|discriminate].
      cbn [setup_loop]. destruct (row_keys keypos line) as [kv|ex]; [|discriminate]. cbn [bind] in *.
      assert (EL : more_lines ((g, l) :: more) ++ e ++ r = g ++ l :: (more_lines more ++ e ++ r)).
      { unfold more_lines. cbn [map concat fst snd]. rewrite <- !app_assoc. reflexivity. }
      rewrite EL, (step_gap _ g l ihs' count _ Eg). cbn [bind].
      set (a1 := {| a_dict := rd_insert _ _ _; a_longest := _; a_skips := _; a_ihs := ihs' |}).
      destruct (IH f l (count + S (length g)) (next_index line index) a1 e r dict longest) as [a' [R1 [R2 [R3 R4]]]].
      + cbn [length] in Hf. lia.
      + exact Hg.
      + exact He.
      + exact Hs.
      + exists a'. split; [exact R1|]. split; [exact R2|]. split; [exact R3|]. rewrite R4. unfold a1. cbn [a_skips map rev fst length].
        rewrite <- app_assoc. cbn [app]. f_equal. f_equal. f_equal. lia.
  Qed.
End Setup.

Arguments next_index ip0 ip1 line index : assert.
Lemma more_lines_length more : length more <= length (more_lines more).
Proof.
  unfold more_lines. induction more as [|[g l] more IH]; [cbn; lia|].
  cbn [map concat fst snd length]. rewrite !app_length. cbn [length]. lia.
Qed.

(** ** setup_table_TOUGH2 on a printed table *)
Definition gap_lengths (more : list (list str * str)) : list nat := map (fun gl => length (fst gl)) more.
Theorem setup_table_spec s title tablename hdr fill row0 more e r nkeys cols expected i0 st keypos lastk dict longest numpos :
  parse_header_T2 s hdr = Ok (nkeys, cols) ->
  expected_floats tablename cols = Ok expected ->
  col0_is_I cols = Ok i0 ->
  Forall (not_results expected) fill -> is_results_line (fstrip row0) expected = true ->
  start_of_values row0 i0 = Ok (Some st) ->
  key_positions (pyslice None (Some st) row0) nkeys = Ok (Some keypos) -> keypos <> [] -> last_z keypos = Ok lastk ->
  gaps_ok cols title expected None more = true -> end_check cols title e = true ->
  spec_rows keypos (lastk + 5)%Z (Some st) row0 0 (-1)%Z [] row0 more = Ok (dict, longest) ->
  parse_table_line longest st i0 = Some numpos ->
  setup_table_T2 s title tablename (hdr :: fill ++ row0 :: more_lines more ++ e ++ r)
  = Ok (new_table cols (map (fun x => snd (snd x)) dict) nkeys keypos numpos (map (fun x => fst (snd x)) dict) (S (length fill))
                  (gap_lengths more ++ [end_skip e]), end_rest e ++ r).
Proof.
  intros Hh He Hi Hfill Hrow Hst Hkp Hne Hlast Hg Hend Hspec Hnum.
  unfold setup_table_T2. cbn [readline]. rewrite Hh. cbn [bind]. rewrite He. cbn [bind].
  rewrite (skip_to_results_app expected fill row0 _ 1 Hfill Hrow). cbn [bind readline]. rewrite Hi. cbn [bind]. rewrite Hst. cbn [bind].
  rewrite Hkp. cbn [bind]. destruct keypos as [|k0 kr]; [congruence|]. rewrite Hlast. cbn [bind].
  set (a0 := {| a_dict := []; a_longest := row0; a_skips := []; a_ihs := None |}).
  destruct (setup_loop_spec cols title expected (k0 :: kr) (lastk + 5)%Z (Some st) more
              (S (length (more_lines more ++ e ++ r))) row0 0 (-1)%Z a0 e r dict longest) as [a' [R1 [R2 [R3 R4]]]].
  - rewrite app_length. pose proof (more_lines_length more). lia.
  - exact Hg.
  - exact Hend.
  - exact Hspec.
  - rewrite R1. cbn [bind]. rewrite R3, Hnum, R2, R4. unfold a0. cbn [a_skips]. rewrite app_nil_r.
    cbn [rev]. rewrite rev_involutive. reflexivity.
Qed.

(** ** the dictionary of rows *)
Section Dict.
  Variables (keypos : list Z) (ip0 : Z) (ip1 : option Z).
  Definition entry := (Z * (nat * list str))%type.
  (** one entry per printed row: (index, (lines from the first row, names)) *)
  Fixpoint entries (line : str) (count : nat) (index : Z) (more : list (list str * str)) : res (list entry) :=
    do kv <- row_keys keypos line;
    let index' := next_index ip0 ip1 line index in
    match more with
    | [] => Ok [(index', (count, kv))]
    | (g, l) :: more' => do rest <- entries l (count + S (length g)) index' more'; Ok ((index', (count, kv)) :: rest)
    end.
  Definition ins_all (es : list entry) (d : list entry) : list entry := fold_left (fun d e => rd_insert (fst e) (snd e) d) es d.
  Lemma spec_rows_entries more : forall line count index d longest d' longest',
    spec_rows keypos ip0 ip1 line count index d longest more = Ok (d', longest') ->
    exists es, entries line count index more = Ok es /\ d' = ins_all es d /\ length es = S (length more).
  Proof.
    induction more as [|[g l] more IH]; intros line count index d longest d' longest' H; cbn [spec_rows entries] in *.
    - destruct (row_keys keypos line) as [kv|]; [|discriminate]. cbn [bind] in *. inversion H; subst.
      eexists. split; [reflexivity|]. split; reflexivity.
    - destruct (row_keys keypos line) as [kv|]; [|discriminate]. cbn [bind] in *.
      destruct (IH _ _ _ _ _ _ _ H) as [es [E1 [E2 E3]]]. rewrite E1. cbn [bind].
      eexists. split; [reflexivity|]. split; [exact E2|cbn [length]; lia].
  Qed.

  (** strictly increasing printed indices: the dictionary is the list of rows in printed order *)
  Definition all_below (d : list entry) (k : Z) : Prop := Forall (fun e => (fst e < k)%Z) d.
  Lemma rd_insert_last {A} k (v : A) m : Forall (fun e => (fst e < k)%Z) m -> rd_insert k v m = m ++ [(k, v)].
  Proof.
    induction 1 as [|[k' v'] m H1 _ IH]; [reflexivity|]. cbn [rd_insert app]. cbn [fst] in H1.
    replace (k <? k')%Z with false by (symmetry; apply Z.ltb_ge; lia).
    replace (k =? k')%Z with false by (symmetry; apply Z.eqb_neq; lia). rewrite IH. reflexivity.
  Qed.
  Fixpoint increasing (lo : Z) (es : list entry) : Prop :=
    match es with [] => True | e :: r => (lo < fst e)%Z /\ increasing (fst e) r end.
  Lemma ins_all_increasing es : forall d lo, all_below d (lo + 1)%Z -> increasing lo es -> ins_all es d = d ++ es.
  Proof.
    induction es as [|[k v] es IH]; intros d lo Hd Hi; cbn [ins_all fold_left]; [rewrite app_nil_r; reflexivity|].
    destruct Hi as [H1 H2]. cbn [fst snd] in *. rewrite rd_insert_last.
    - fold (ins_all es (d ++ [(k, v)])). rewrite (IH _ k); [rewrite <- app_assoc; reflexivity| |exact H2].
      unfold all_below. apply Forall_app. split.
      + eapply Forall_impl; [|exact Hd]. cbn. intros; lia.
      + constructor; [cbn; lia|constructor].
    - eapply Forall_impl; [|exact Hd]. cbn. intros; lia.
  Qed.
End Dict.

(** ** read_table_TOUGH2 on a printed table of the same shape *)
Definition decode_line (T : ltable) (l : str) : list pyval := read_table_line_TOUGH2 l (length (lt_cols T)) (lt_values T).
(** [table[key] = values] for each row line in turn *)
Fixpoint assign_lines (T : ltable) (ls : list str) : res ltable :=
  match ls with
  | [] => Ok T
  | l :: r => do key <- key_from_line l (lt_keypos T);
              do T' <- assign_key T key (decode_line T l);
              assign_lines T' r
  end.
(** the row lines, each followed by its gap lines *)
Definition rows_lines (rl : list (str * list str)) : list str := concat (map (fun x => fst x :: snd x) rl).
Lemma read_rows_spec rl : forall T r,
  read_rows_T2 T (map (fun x => length (snd x)) rl) (rows_lines rl ++ r) = do T' <- assign_lines T (map fst rl); Ok (T', r).
Proof.
  induction rl as [|[l g] rl IH]; intros T r; [reflexivity|].
  unfold rows_lines. cbn [map concat fst snd length read_rows_T2 assign_lines app readline].
  destruct (key_from_line l (lt_keypos T)) as [key|]; [|reflexivity]. cbn [bind]. fold (decode_line T l).
  destruct (assign_key T key (decode_line T l)) as [T'|]; [|reflexivity]. cbn [bind].
  unfold skiplines. rewrite <- app_assoc, skipn_app_exact. apply IH.
Qed.
Theorem read_table_spec T hd rl r : length hd = lt_hskip T -> map (fun x => length (snd x)) rl = lt_skips T ->
  read_table_T2 T (hd ++ rows_lines rl ++ r) = do T' <- assign_lines T (map fst rl); Ok (T', r).
Proof.
  intros H1 H2. unfold read_table_T2, skiplines. rewrite <- H1, skipn_app_exact, <- H2. apply read_rows_spec.
Qed.

(** the cells after the assignments, when the row keys are distinct and the lines come in row order *)
Lemma with_data_idem T d1 d2 : with_data (with_data T d1) d2 = with_data T d2.
Proof. reflexivity. Qed.
Lemma with_data_same T : with_data T (lt_data T) = T.
Proof. destruct T; reflexivity. Qed.
Lemma set_nth_app {A} (a : list A) x b v : set_nth (length a) v (a ++ x :: b) = a ++ v :: b.
Proof. induction a as [|y a IH]; cbn [length app set_nth]; [reflexivity|]. rewrite IH. reflexivity. Qed.
Lemma names_eqb_eq a b : names_eqb a b = true <-> a = b.
Proof. apply strs_eqb_eq. Qed.

Lemma assign_lines_inorder ls : forall T done todo keys,
  Forall2 (fun l k => key_from_line l (lt_keypos T) = Ok k) ls keys ->
  NoDup (lt_rows T) -> (exists pre, lt_rows T = pre ++ keys /\ length pre = length done) ->
  lt_data T = done ++ todo -> length todo = length ls ->
  1 <= length (lt_values T) <= S (length (lt_cols T)) ->
  assign_lines T ls = Ok (with_data T (done ++ map (decode_line T) ls)).
Proof.
  induction ls as [|l ls IH]; intros T done todo keys HK HN [pre [HR HL]] HD HT HV.
  - destruct todo; [|discriminate]. cbn [assign_lines map]. rewrite <- HD, with_data_same. reflexivity.
  - inversion HK as [|? k ? keys' Hk HK']; subst. destruct todo as [|t todo]; [discriminate|].
    cbn [assign_lines]. rewrite Hk. cbn [bind].
    assert (RO : row_of T k = Some (length done)).
    { unfold row_of.
      assert (NK : nth (length pre) (lt_rows T) [] = k) by (rewrite HR, app_nth2, Nat.sub_diag by lia; reflexivity).
      assert (LT : length pre < length (lt_rows T)) by (rewrite HR, app_length; cbn [length]; lia).
      pose proof (last_index_nth names_eqb names_eqb_eq [] (lt_rows T) HN (length pre) 0 LT) as LI.
      rewrite NK in LI. rewrite LI. f_equal. lia. }
    unfold assign_key. rewrite RO. unfold assign_row.
    assert (LV : length (decode_line T l) = length (lt_cols T)).
    { unfold decode_line, read_table_line_TOUGH2. rewrite app_length, map_length, combine_length, repeat_length.
      destruct (lt_values T) as [|v vs]; cbn [tl length] in *; lia. }
    rewrite LV, Nat.eqb_refl. cbn [negb]. rewrite HD.
    replace (length (done ++ t :: todo) <=? length done)%nat with false by (symmetry; apply Nat.leb_gt; rewrite app_length; cbn [length]; lia).
    rewrite set_nth_app. cbn [bind].
    set (T1 := with_data T (done ++ decode_line T l :: todo)).
    rewrite (IH T1 (done ++ [decode_line T l]) todo keys').
    + unfold T1. rewrite with_data_idem. cbn [map]. rewrite <- app_assoc. reflexivity.
    + exact HK'.
    + exact HN.
    + exists (pre ++ [k]). split; [unfold T1; cbn [with_data lt_rows]; rewrite HR, <- app_assoc; reflexivity|rewrite !app_length; cbn [length]; lia].
    + unfold T1. cbn [with_data lt_data]. rewrite <- app_assoc. reflexivity.
    + cbn [length] in HT. lia.
    + exact HV.
Qed.

(** ** skip_table_TOUGH2 on a table that was not set up (it is in skip_tables) *)
Lemma tab_get_none_skip s ts tablename c : tab_get tablename ts = None -> negb (sim_eqb s TPLUS && str_eqb tablename (s2l "primary")) = true ->
  skip_table_T2 s ts tablename c = snd (skipto [kw_at] 1 c).
Proof.
  intros H1 H2. unfold skip_table_T2. rewrite H1. destruct (sim_eqb s TPLUS && str_eqb tablename (s2l "primary")); [discriminate|reflexivity].
Qed.
