(** C05 -- property theorems, FILE level, TOUGH+ (element / element1 / element2 naming, primary table without end marker), and
    the loops of setup_tables / read_tables stated once for the whole TOUGH2 family and TOUGH+ (LoopG.v).  Each is closed by
    [exact] of a lemma of LoopG.v / FileTP.v / CodecTP.v and followed by Print Assumptions. *)
From Coq Require Import Ascii String List Bool Arith ZArith NArith.
From PTBase Require Import Exn PyStr PyNum PyVal.
From PTModel Require Import Fortran.
From P Require Import Model Table Reader Layout Cells TableT2 SetT2 FileT2 CodecT2 CheckT2 LoopG FileG FileTP CodecTP Composed.
Import ListNotations.
Open Scope char_scope.

(** the read loop for every simulator of the family: tables are read into the structure of their name, or passed over
    (in skip_tables; or, not TOUGH+, without structure because absent at the first result time) *)
Theorem read_tables_loop_any_simulator : forall sm fullpos index its fuel st t acts after nelt,
  nav sm fullpos index st -> length its < fuel -> NoDup (map g_name (t :: map snd its)) ->
  Forall2 (gread_ok sm (s_skip st) (s_tables st)) (t :: map snd its) acts ->
  chain_ok sm fullpos index nelt t its after ->
  read_tables_loop fuel st (g_name t) nelt (g_lines t ++ grest its after)
  = Ok (with_tables st (gupdated (t :: map snd its) acts (s_tables st))).
Proof. exact gread_loop. Qed.
Print Assumptions read_tables_loop_any_simulator.

Theorem setup_tables_loop_any_simulator : forall sm fullpos index its fuel st t Ts after nelt,
  nav sm fullpos index st -> length its < fuel ->
  Forall2 (gsetup_ok sm (s_skip st) (s_title st)) (t :: map snd its) Ts ->
  (forall n, in_names n (s_skip st) = true -> tab_get n (s_tables st) = None) ->
  chain_ok sm fullpos index nelt t its after ->
  setup_tables_loop fuel st (g_name t) nelt (g_lines t ++ grest its after)
  = Ok (with_tables st (s_tables st ++ gadded (s_skip st) (t :: map snd its) Ts)).
Proof. exact gsetup_loop. Qed.
Print Assumptions setup_tables_loop_any_simulator.

Theorem toughplus_setup_pos_finds_every_result_set : forall sets fuel z, Forall set_okP sets -> length sets < fuel -> Forall not_oda z ->
  setup_pos_T2 fuel TPLUS (z ++ file_from sets) = Ok (positions sets).
Proof. exact setup_pos_specP. Qed.
Print Assumptions toughplus_setup_pos_finds_every_result_set.

Theorem toughplus_listing_opens : forall title x0 more Ts, tp_ok title x0 more Ts -> forall skip,
  open_listing TPLUS skip (file_from (x0 :: more)) = Ok (state_at TPLUS title x0 more Ts skip 0 x0).
Proof. exact tp_open_spec. Qed.
Print Assumptions toughplus_listing_opens.

Theorem toughplus_listing_codec_law : forall title x0 more Ts, tp_ok title x0 more Ts -> forall skip l k x i,
  nth_error (x0 :: more) k = Some x -> addresses x0 more i k ->
  Forall (fun j => exists kj, kj < length (x0 :: more) /\ addresses x0 more j kj) l ->
  (do st <- open_listing TPLUS skip (file_from (x0 :: more)); moves st (l ++ [i])) = Ok (state_at TPLUS title x0 more Ts skip k x).
Proof. exact tp_listing_codec. Qed.
Print Assumptions toughplus_listing_codec_law.

Theorem toughplus_table_contents : forall title x0 more Ts, tp_ok title x0 more Ts -> forall skip k x j u T,
  nth_error (x0 :: more) k = Some x -> nth_error (set_tables x) j = Some u -> nth_error Ts j = Some T -> in_names (p_name u) skip = false ->
  tab_get (p_name u) (s_tables (state_at TPLUS title x0 more Ts skip k x)) = Some (with_data T (map (decode_line T) (p_rows u))).
Proof. exact tp_table_contents. Qed.
Print Assumptions toughplus_table_contents.

Theorem toughplus_cells_are_printed_numbers : forall title x0 more Ts, tp_ok title x0 more Ts -> forall skip k x j u T r l pre cs t ws s0,
  nth_error (x0 :: more) k = Some x -> nth_error (set_tables x) j = Some u -> nth_error Ts j = Some T -> in_names (p_name u) skip = false ->
  nth_error (p_rows u) r = Some l -> l = pre ++ cbody cs ++ t ->
  lt_values T = Z.of_nat s0 :: map Z.of_nat (ends_w (length pre) ws) ->
  map fst cs = firstn (length cs) ws -> Forall cfits cs -> length pre <= s0 -> s0 <= length pre + first_lead cs ->
  (length cs = length ws \/ blank_str t) ->
  exists T', tab_get (p_name u) (s_tables (state_at TPLUS title x0 more Ts skip k x)) = Some T'
          /\ lt_rows T' = lt_rows T
          /\ nth_error (lt_data T') r = Some (map (fun c => fortran_float (snd c) zero) cs
                                               ++ repeat zero (length ws - length cs) ++ repeat zero (length (lt_cols T) - length ws)).
Proof. exact tp_cells_are_printed_numbers. Qed.
Print Assumptions toughplus_cells_are_printed_numbers.

Theorem toughplus_skip_tables_independent : forall title x0 more Ts, tp_ok title x0 more Ts -> forall skip1 skip2 l1 l2 i1 i2 k x n,
  nth_error (x0 :: more) k = Some x -> addresses x0 more i1 k -> addresses x0 more i2 k ->
  Forall (fun j => exists kj, kj < length (x0 :: more) /\ addresses x0 more j kj) l1 ->
  Forall (fun j => exists kj, kj < length (x0 :: more) /\ addresses x0 more j kj) l2 ->
  in_names n skip1 = false -> in_names n skip2 = false ->
  exists st1 st2, (do st <- open_listing TPLUS skip1 (file_from (x0 :: more)); moves st (l1 ++ [i1])) = Ok st1
               /\ (do st <- open_listing TPLUS skip2 (file_from (x0 :: more)); moves st (l2 ++ [i2])) = Ok st2
               /\ tab_get n (s_tables st1) = tab_get n (s_tables st2).
Proof. exact tp_skip_tables_independent. Qed.
Print Assumptions toughplus_skip_tables_independent.

(** the hypotheses are one decidable check (run on the abstraction of the shipped TOUGH+ listings: all four pass) *)
Theorem toughplus_check_is_sound : forall x0 more title Ts, tp_check (x0 :: more) = Some (title, Ts) -> tp_ok title x0 more Ts.
Proof. exact tp_check_sound. Qed.
Print Assumptions toughplus_check_is_sound.

(** the composed statement (TOUGH2 family): in a listing of the proved class, a table whose layout line (longest row line of
    the first result time) is a rendered row meeting the side condition of inferred_layout_is_true_layout exposes, for every row
    printed in the same fields at every result time and under every skipped subset, fortran_float of each printed cell text *)
Theorem listing_cells_from_inferred_layout : forall s, sim_eqb s TPLUS = false -> sim_eqb s AUT = false -> forall title x0 more Ts,
  file_ok s title x0 more Ts -> forall skip k x j u t0 P r l pre0 fs pre cs tl s0,
  nth_error (x0 :: more) k = Some x -> nth_error (set_tables x) j = Some u -> nth_error Ts j = Some (table_of P t0) ->
  in_names (p_name u) skip = false ->
  tshape s title t0 P -> tp_i0 P = false -> tp_longest P = render_row pre0 fs ->
  no "." pre0 -> fs <> [] -> Forall fits fs -> Forall fclean fs -> seps_ok fs -> tp_start P = Z.of_nat s0 ->
  nth_error (p_rows u) r = Some l -> l = pre ++ cbody cs ++ tl -> length pre = length pre0 ->
  map fst cs = firstn (length cs) (map fw fs) -> Forall cfits cs -> length pre <= s0 -> s0 <= length pre + first_lead cs ->
  (length cs = length fs \/ blank_str tl) ->
  exists T', (do st <- open_listing s skip (file_from (x0 :: more)); set_index st (Z.of_nat k)) = Ok (state_at s title x0 more Ts skip k x)
          /\ tab_get (p_name u) (s_tables (state_at s title x0 more Ts skip k x)) = Some T'
          /\ nth_error (lt_data T') r = Some (map (fun c => fortran_float (snd c) zero) cs
                                               ++ repeat zero (length fs - length cs) ++ repeat zero (length (tp_cols P) - length fs)).
Proof. exact cells_from_inferred_layout. Qed.
Print Assumptions listing_cells_from_inferred_layout.

Theorem toughplus_listing_cells_from_inferred_layout : forall title x0 more Ts,
  tp_ok title x0 more Ts -> forall skip k x j u t0 P r l pre0 fs pre cs tl s0,
  nth_error (x0 :: more) k = Some x -> nth_error (set_tables x) j = Some u -> nth_error Ts j = Some (table_of P t0) ->
  in_names (p_name u) skip = false ->
  tshape TPLUS title t0 P -> tp_i0 P = false -> tp_longest P = render_row pre0 fs ->
  no "." pre0 -> fs <> [] -> Forall fits fs -> Forall fclean fs -> seps_ok fs -> tp_start P = Z.of_nat s0 ->
  nth_error (p_rows u) r = Some l -> l = pre ++ cbody cs ++ tl -> length pre = length pre0 ->
  map fst cs = firstn (length cs) (map fw fs) -> Forall cfits cs -> length pre <= s0 -> s0 <= length pre + first_lead cs ->
  (length cs = length fs \/ blank_str tl) ->
  exists T', tab_get (p_name u) (s_tables (state_at TPLUS title x0 more Ts skip k x)) = Some T'
          /\ nth_error (lt_data T') r = Some (map (fun c => fortran_float (snd c) zero) cs
                                               ++ repeat zero (length fs - length cs) ++ repeat zero (length (tp_cols P) - length fs)).
Proof. exact toughplus_cells_from_inferred_layout. Qed.
Print Assumptions toughplus_listing_cells_from_inferred_layout.
