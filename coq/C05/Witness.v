(** C05 -- closed witnesses: the two listed findings over the faithful model (exact line
    texts of the perturbed shipped files), and concrete states that meet the hypotheses of
    the implication theorems. *)
From Coq Require Import Ascii String List Bool Arith ZArith NArith Lia.
From PTBase Require Import Exn PyStr PyNum PyVal.
From PTModel Require Import Fortran.
From P Require Import Model Layout Cells Tokens Table Start.
Import ListNotations.
Open Scope char_scope.

Definition nl : str := ["010"].

(** tests/listing/TOUGH2/8/OUTFILE, line 565 (first element row, the layout line of the
    first table), with [-.168194E-27] printed as [-.168194-127] (findings/C05-noletter-layout.json) *)
Definition row15 : str :=
  s2l " A1  1     10.597704E+070.275300E+030.208697E+00-.168194-127-.149887E-35-.529036E-34-.950329E-36-.000000E+000.307002E+020.758766E+03" ++ nl.
(** the unperturbed line *)
Definition row15_shipped : str :=
  s2l " A1  1     10.597704E+070.275300E+030.208697E+00-.168194E-27-.149887E-35-.529036E-34-.950329E-36-.000000E+000.307002E+020.758766E+03" ++ nl.

(** on the shipped line the reader finds start 12 and the ten 12-character fields ... *)
Example row15_shipped_parses :
  start_of_values row15_shipped false = Ok (Some 12%Z) /\
  parse_table_line row15_shipped 12 false = Some [12; 24; 36; 48; 60; 72; 84; 96; 108; 120; 133]%Z.
Proof. split; vm_compute; reflexivity. Qed.
(** ... on the perturbed one the same start, and then [parse_table_line] raises *)
Lemma row15_raises : start_of_values row15 false = Ok (Some 12%Z) /\ parse_table_line row15 12 false = None.
Proof. split; vm_compute; reflexivity. Qed.

(** the same shape as a rendered row: all hypotheses of the layout theorem except the side
    condition hold, and the conclusion fails *)
Definition f15a : nfield := {| fw := 12; fhd := s2l "-"; ftl := s2l "168194-127" |}.
Definition f15b : nfield := {| fw := 12; fhd := s2l "-"; ftl := s2l "149887E-35" |}.
Ltac digs := unfold all_digits; cbn [snd fst nsg nip nfr nex s2l list_ascii_of_string]; repeat (first [apply Forall_nil | apply Forall_cons; [reflexivity|]]).
Ltac chars := repeat (first [apply Forall_nil | apply Forall_cons; [discriminate|]]).
Lemma layout_needs_side_condition :
  exists pre fs start, no "." pre /\ fs <> [] /\ Forall fits fs /\ Forall fclean fs /\
    parse_table_line (render_row pre fs) start false = None.
Proof.
  exists (s2l " A1  1     1"), [f15a; f15b], 11%Z.
  split; [unfold no; cbn [s2l list_ascii_of_string]; chars|].
  split; [discriminate|].
  split; [repeat constructor; unfold fits; cbn; lia|].
  split; [|vm_compute; reflexivity].
  repeat constructor; discriminate.
Qed.

(** tests/listing/TOUGH2/10/case10.listing, line 334 (first row of the element table), with the
    temperature [ 25.000000] printed as [-25.000000] (findings/C05-fixedpoint-then-negative.json) *)
Definition rowneg : str :=
  s2l " at  0     1   101300.00  -25.000000    1.000000    0.000000 0.99000E+00 0.16023E-04 0.31660E+04 0.49407-323   1.17627 -12.00000" ++ nl.
Definition rowneg_shipped : str :=
  s2l " at  0     1   101300.00   25.000000    1.000000    0.000000 0.99000E+00 0.16023E-04 0.31660E+04 0.49407-323   1.17627 -12.00000" ++ nl.
Example rowneg_shipped_start : start_of_values rowneg_shipped false = Ok (Some 12%Z).
Proof. vm_compute. reflexivity. Qed.
(** the first printed number occupies columns 15..24; the start returned lies inside it, and the
    first cell decoded under the layout inferred from this very line is not the printed number *)
Lemma rowneg_start_inside_first_number :
  hd [] (fortran_tokens rowneg) = s2l "101300.00" /\ slice 15 24 rowneg = s2l "101300.00" /\
  start_of_values rowneg false = Ok (Some 20%Z) /\
  exists l, parse_table_line rowneg 20 false = Some l /\
            py_eqb (hd zero (read_table_line_TOUGH2 rowneg 10 l)) (fortran_float (s2l "101300.00") zero) = false.
Proof.
  split; [vm_compute; reflexivity|]. split; [vm_compute; reflexivity|]. split; [vm_compute; reflexivity|].
  eexists. split; [vm_compute; reflexivity|]. vm_compute. reflexivity.
Qed.

(** ** concrete states meeting the hypotheses of the implication theorems *)

(** a row with abutting E-format fields followed by blank-separated ones (shape of TOUGH2/8 and TOUGH2/5) *)
Definition ex_fields : list nfield :=
  [ {| fw := 12; fhd := s2l "0"; ftl := s2l "597704E+07" |};
    {| fw := 12; fhd := s2l "-"; ftl := s2l "168194E-27" |};
    {| fw := 7;  fhd := s2l "45"; ftl := s2l "00" |};
    {| fw := 12; fhd := s2l "0"; ftl := s2l "37874-193" |};
    {| fw := 8;  fhd := s2l "0"; ftl := s2l "00" |} ].
Example layout_hypotheses_met :
  no "." (s2l " A1  1     1") /\ ex_fields <> [] /\ Forall fits ex_fields /\ Forall fclean ex_fields /\ seps_ok ex_fields /\
  render_row (s2l " A1  1     1") ex_fields = s2l " A1  1     10.597704E+07-.168194E-27  45.00 0.37874-193    0.00".
Proof.
  split; [unfold no; cbn [s2l list_ascii_of_string]; chars|].
  split; [discriminate|].
  split; [repeat constructor; unfold fits; cbn; lia|].
  split; [repeat constructor; discriminate|].
  split; [|vm_compute; reflexivity].
  cbn [seps_ok ex_fields]. repeat split.
  - right. exists (s2l "597704"), "+", "0", "7". split; [reflexivity|]. unfold no; cbn [s2l list_ascii_of_string]; chars.
  - left. cbn. lia.
  - left. cbn. lia.
  - left. cbn. lia.
Qed.
(** hence, by the theorem (not by evaluation): *)
Example layout_example :
  parse_table_line (s2l " A1  1     10.597704E+07-.168194E-27  45.00 0.37874-193    0.00") 12 false
  = Some [12; 24; 36; 43; 55; 63]%Z.
Proof.
  destruct layout_hypotheses_met as [H1 [H2 [H3 [H4 [H5 H6]]]]]. rewrite <- H6.
  rewrite (layout_theorem _ _ 12%Z H1 H2 H3 H4 H5). reflexivity.
Qed.

Definition ex_cells : list cfield := [ (12, s2l "-.168194-127"); (12, s2l "0.000000E+00"); (7, s2l "-5.25") ].
Example cells_hypotheses_met :
  map fst ex_cells = firstn (length ex_cells) [12; 12; 7; 12; 8] /\ Forall cfits ex_cells /\
  length (s2l " A1  2     2") <= 12 /\ 12 <= length (s2l " A1  2     2") + first_lead ex_cells.
Proof. split; [reflexivity|]. split; [repeat constructor; unfold cfits; cbn; lia|]. cbn. lia. Qed.

Definition ex_nums : list tfield :=
  [ (14, {| nsg := s2l "-"; nip := s2l "0"; nfr := s2l "313275"; nex := s2l "E+05" |});
    (13, {| nsg := []; nip := s2l "1"; nfr := s2l "21552"; nex := s2l "-249" |});
    (10, {| nsg := []; nip := s2l "834"; nfr := s2l "23"; nex := [] |});
    (14, {| nsg := []; nip := []; nfr := s2l "5000"; nex := s2l "D-101" |}) ].
Example tokens_hypotheses_met : no "." (s2l "  CA 90   GS 90      1") /\ Forall tfield_ok ex_nums.
Proof.
  split; [unfold no; cbn [s2l list_ascii_of_string]; chars|].
  unfold ex_nums.
  apply Forall_cons; [|apply Forall_cons; [|apply Forall_cons; [|apply Forall_cons; [|apply Forall_nil]]]].
  - split; [|cbn; lia]. split; [right; exists "-"; split; reflexivity|]. split; [digs|]. split; [digs|].
    split; [apply ex_letter2; reflexivity|intro; cbn; lia].
  - split; [|cbn; lia]. split; [left; reflexivity|]. split; [digs|]. split; [digs|].
    split; [apply ex_bare; reflexivity|intro; cbn; lia].
  - split; [|cbn; lia]. split; [left; reflexivity|]. split; [digs|]. split; [digs|].
    split; [apply ex_none|intro H; exfalso; apply H; reflexivity].
  - split; [|cbn; lia]. split; [left; reflexivity|]. split; [digs|]. split; [digs|].
    split; [apply ex_letter3; reflexivity|intro; cbn; lia].
Qed.
Example tokens_example :
  fortran_tokens (s2l "  CA 90   GS 90      1 -0.313275E+05  1.21552-249    834.23    .5000D-101")
  = [s2l "-0.313275E+05"; s2l "1.21552-249"; s2l "834.23"; s2l ".5000D-101"].
Proof.
  destruct tokens_hypotheses_met as [H1 H2]. exact (tokens_of_row _ _ H1 H2).
Qed.
(** where fields abut the specification still separates the numbers (evaluation) *)
Example tokens_abutting :
  row_tokens false row15 = map s2l ["0.597704E+07"%string; "0.275300E+03"%string; "0.208697E+00"%string; "-.168194-127"%string; "-.149887E-35"%string;
                                    "-.529036E-34"%string; "-.950329E-36"%string; "-.000000E+00"%string; "0.307002E+02"%string; "0.758766E+03"%string].
Proof. vm_compute. reflexivity. Qed.
Example tokens_eco2m :
  row_tokens true (s2l " A1001     1 2 0.221166E+08  45.0000 0.000000E+00") = map s2l ["2"%string; "0.221166E+08"%string; "45.0000"%string; "0.000000E+00"%string].
Proof. vm_compute. reflexivity. Qed.

(** the two start theorems on the shipped first rows they are about *)
Example start_exponential_example : start_of_values_nat row15_shipped = Some 12.
Proof.
  change row15_shipped with (s2l " A1  1     " ++ "1" :: "0" :: "." :: s2l "597704" ++ "E" :: "+" ::
    (s2l "070.275300E+030.208697E+00-.168194E-27-.149887E-35-.529036E-34-.950329E-36-.000000E+000.307002E+020.758766E+03" ++ nl)).
  rewrite start_exponential; [reflexivity| | | | | | |]; try discriminate; try (repeat constructor; discriminate).
Qed.
Example start_fixed_point_example : start_of_values_nat rowneg_shipped = Some 12.
Proof.
  change rowneg_shipped with (s2l " at  0     " ++ "1" :: spaces 3 ++ s2l "101300" ++ "." :: s2l "00   2" ++ "5" ::
    ("." :: s2l "000000    1.000000    0.000000 0.99000E+00 0.16023E-04 0.31660E+04 0.49407-323   1.17627 -12.00000" ++ nl)).
  rewrite start_fixed_point; [reflexivity| | | | | | | | | |]; try discriminate; try lia; try (repeat constructor; discriminate).
  - repeat constructor; intros [M|[M|M]]; discriminate M.
  - right. eexists. reflexivity.
Qed.

(** a connection table: hypotheses of the three addressing theorems *)
Definition ex_table : table nat :=
  {| cols := [s2l "FLOH"; s2l "FLOF"]; rows := [KT [s2l "AA 1"; s2l "AA 2"]; KT [s2l "AA 2"; s2l "AA 3"]];
     data := [[5; 7]; [11; 13]]; allow_rev := true |}.
Example addressing_hypotheses_met :
  NoDup (rows nat ex_table) /\ 1 < length (rows nat ex_table) /\ is_col nat ex_table (nth 1 (rows nat ex_table) (KS [])) = false /\
  col_index nat ex_table (s2l "FLOF") = Some 1 /\
  allow_rev nat ex_table = true /\ is_row nat ex_table (KT [s2l "AA 3"; s2l "AA 2"]) = false /\
  nth 1 (rows nat ex_table) (KS []) = key_rev (KT [s2l "AA 3"; s2l "AA 2"]).
Proof.
  split; [|repeat split; try reflexivity; cbn; lia].
  repeat constructor; cbn; intuition discriminate.
Qed.
