(** C05 -- property theorems, sixth group: addressing by row name when row names repeat, and the result for
    unknown keys.  Each is closed by [exact] of a lemma proved in Table2.v and followed by Print Assumptions.
    The statements are about the model coq/C05/Table.v of [listingtable.__getitem__], which is run against
    the real [listingtable] on generated small tables (repeated row/column names, reversed keys) on every run. *)
From Coq Require Import Ascii String List Bool Arith.
From PTBase Require Import PyStr.
From P Require Import Table Table2.
Import ListNotations.

(** addressing by row name WITHOUT the distinct-names hypothesis: for any name present in the table (and not a
    column name) [table[name]] is the row of index i where i is the LAST row printed under that name *)
Theorem addressing_name_gives_last_row_of_that_name : forall (V : Type) (neg : V -> V) (dflt : V) (T : table V) k,
  is_col V T k = false -> In k (rows V T) ->
  exists i, nth_error (rows V T) i = Some k /\
            (forall m, i < m -> nth_error (rows V T) m <> Some k) /\
            getitem V neg dflt T k = RRow V (row_by_index V dflt T i).
Proof. exact name_gives_last_row_of_that_name. Qed.
Print Assumptions addressing_name_gives_last_row_of_that_name.

(** ... hence the row returned under a name carries that name and, column by column, the cells of a row printed
    under that name (names repeated or not) *)
Theorem addressing_name_gives_a_row_of_that_name : forall (V : Type) (neg : V -> V) (dflt : V) (T : table V) k,
  is_col V T k = false -> In k (rows V T) ->
  exists i r, getitem V neg dflt T k = RRow V r /\ i < length (rows V T) /\ rd_key V r = k /\
              forall c j, col_index V T c = Some j -> rd_get V r c = Some (cell V dflt T i j).
Proof. exact name_gives_a_row_of_that_name. Qed.
Print Assumptions addressing_name_gives_a_row_of_that_name.

(** a key that is neither a column name, nor a row name, nor (tables allowing reversed keys, key longer than 1) the
    reverse of a row name yields None (no column, no row; the real __getitem__ returns None) *)
Theorem addressing_unknown_key_gives_none : forall (V : Type) (neg : V -> V) (dflt : V) (T : table V) k,
  is_col V T k = false -> ~ In k (rows V T) ->
  (allow_rev V T = false \/ key_len k <= 1 \/ ~ In (key_rev k) (rows V T)) ->
  getitem V neg dflt T k = RNone V.
Proof. exact unknown_key_gives_none. Qed.
Print Assumptions addressing_unknown_key_gives_none.
