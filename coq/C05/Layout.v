(** C05 -- the inferred column layout is the true layout.

    A table row is given generatively: a prefix (names, index) followed by fields; a
    field has a width and a cell text [hd ++ "." ++ tl] that is right-justified in it.
    [parse_table_line] applied to such a row returns exactly the field ends, provided each
    number is followed by a blank or carries a letter-E two-character exponent. *)
From Coq Require Import Ascii String List Bool Arith ZArith NArith Lia.
From PTBase Require Import Exn PyStr PyNum PyVal.
From PTModel Require Import Fortran.
From P Require Import Model.
Import ListNotations.
Open Scope char_scope.

(** ** characters absent from a string *)
Definition no (c : ascii) (s : str) : Prop := Forall (fun x => x <> c) s.
Lemma ceqb_neq x c : x <> c -> ceqb x c = false.
Proof. intro H. unfold ceqb. apply Ascii.eqb_neq. exact H. Qed.
Lemma ceqb_refl c : ceqb c c = true.
Proof. unfold ceqb. apply Ascii.eqb_refl. Qed.
Lemma no_app c a b : no c (a ++ b) <-> no c a /\ no c b.
Proof. unfold no. apply Forall_app. Qed.
Lemma no_cons c x a : no c (x :: a) <-> x <> c /\ no c a.
Proof. unfold no. split; [intro H; inversion H; auto|intros [H1 H2]; constructor; auto]. Qed.
Lemma no_nil c : no c [].
Proof. constructor. Qed.
Lemma no_spaces c n : c <> " " -> no c (spaces n).
Proof. intro H. unfold spaces. induction n; cbn [repeat]; [apply no_nil|]. apply no_cons. split; [congruence|exact IHn]. Qed.
Lemma no_firstn c k a : no c a -> no c (firstn k a).
Proof.
  revert k; induction a as [|x a IH]; intros k H; destruct k; cbn [firstn]; try apply no_nil.
  apply no_cons in H as [H1 H2]. apply no_cons. split; [exact H1|apply IH; exact H2].
Qed.

(** ** [find] inside a window of a concatenation *)
Lemma find_c_none c a i : no c a -> find_c c a i = None.
Proof.
  revert i; induction a as [|x a IH]; intros i H; cbn [find_c]; [reflexivity|].
  apply no_cons in H as [H1 H2]. rewrite (ceqb_neq _ _ H1). apply IH. exact H2.
Qed.
Lemma find_c_firstn_hit c a b k i : no c a -> length a < k -> find_c c (firstn k (a ++ c :: b)) i = Some (i + length a).
Proof.
  revert k i; induction a as [|x a IH]; intros k i H L.
  - destruct k; [cbn in L; lia|]. cbn [app firstn find_c length]. rewrite ceqb_refl. f_equal. lia.
  - destruct k; [cbn in L; lia|]. apply no_cons in H as [H1 H2]. cbn [app firstn find_c length].
    rewrite (ceqb_neq _ _ H1). rewrite IH; [f_equal; lia|exact H2|cbn in L; lia].
Qed.
Lemma find_from_window c w r : forall i k, k <= length w -> find_from c (w ++ r) i (i + k) = find_c c (firstn k w) i.
Proof.
  induction w as [|x w IH]; intros i k L.
  - cbn in L. assert (k = 0) by lia. subst k. cbn [app firstn find_c]. destruct r as [|y r]; cbn [find_from]; [reflexivity|].
    replace (i + 0 <=? i)%nat with true by (symmetry; apply Nat.leb_le; lia). reflexivity.
  - destruct k as [|k].
    + cbn [app firstn find_c find_from]. replace (i + 0 <=? i)%nat with true by (symmetry; apply Nat.leb_le; lia). reflexivity.
    + cbn [app firstn find_c find_from]. replace (i + S k <=? i)%nat with false by (symmetry; apply Nat.leb_gt; lia).
      destruct (ceqb x c); [reflexivity|]. replace (i + S k) with (S i + k) by lia. apply IH. cbn in L. lia.
Qed.
Lemma find_window c p w r k : k <= length w ->
  find c (p ++ w ++ r) (length p) (length p + k) = find_c c (firstn k w) (length p).
Proof.
  intro L. unfold find. rewrite skipn_app, skipn_all, Nat.sub_diag. cbn [skipn app]. apply find_from_window. exact L.
Qed.
Lemma find_empty c s start stop : stop <= start -> find c s start stop = None.
Proof.
  intro L. unfold find. destruct (skipn start s) as [|x r]; cbn [find_from]; [reflexivity|].
  replace (stop <=? start)%nat with true by (symmetry; apply Nat.leb_le; lia). reflexivity.
Qed.

(** ** positions of the decimal points *)
Lemma dots_app a b i : dots (a ++ b) i = dots a i ++ dots b (i + length a).
Proof.
  revert i; induction a as [|x a IH]; intro i; cbn [app dots length].
  - rewrite Nat.add_0_r. reflexivity.
  - rewrite IH. replace (S i + length a) with (i + S (length a)) by lia. destruct (ceqb x "."); reflexivity.
Qed.
Lemma dots_none a i : no "." a -> dots a i = [].
Proof.
  revert i; induction a as [|x a IH]; intros i H; cbn [dots]; [reflexivity|].
  apply no_cons in H as [H1 H2]. rewrite (ceqb_neq _ _ H1). apply IH. exact H2.
Qed.

(** ** printed rows *)
Record nfield := { fw : nat; fhd : str; ftl : str }.
Definition ftext (f : nfield) : str := fhd f ++ "." :: ftl f.
Definition flead (f : nfield) : nat := fw f - length (ftext f).
(** the number is right-justified in its field *)
Definition fcell (f : nfield) : str := rjust (fw f) (ftext f).
Definition fits (f : nfield) : Prop := length (ftext f) <= fw f.
(** neither part of the cell text contains a point or a blank *)
Definition fclean (f : nfield) : Prop := (no "." (fhd f) /\ no " " (fhd f)) /\ (no "." (ftl f) /\ no " " (ftl f)).
Fixpoint body (fs : list nfield) : str := match fs with [] => [] | f :: r => fcell f ++ body r end.
Definition render_row (pre : str) (fs : list nfield) : str := pre ++ body fs.
(** the true layout: where each field ends *)
Fixpoint field_ends (e0 : nat) (fs : list nfield) : list nat :=
  match fs with [] => [] | f :: r => (e0 + fw f) :: field_ends (e0 + fw f) r end.

(** the side condition on the layout line *)
Definition letterE2 (tl : str) : Prop := exists fr a b c, tl = fr ++ ["E"; a; b; c] /\ no "E" fr.
(** [g] follows [f]: [f]'s number is followed by a blank (and the blank is not the only
    character before [g]'s point), or [f] carries a letter-E exponent of two characters *)
Definition sep_ok (f g : nfield) : Prop := (1 <= flead g /\ 2 <= flead g + length (fhd g)) \/ letterE2 (ftl f).
Fixpoint seps_ok (fs : list nfield) : Prop :=
  match fs with f :: ((g :: _) as r) => sep_ok f g /\ seps_ok r | _ => True end.

Lemma ftext_length f : length (ftext f) = length (fhd f) + 1 + length (ftl f).
Proof. unfold ftext. rewrite app_length. cbn [length]. lia. Qed.
Lemma fcell_eq f : fcell f = spaces (flead f) ++ fhd f ++ "." :: ftl f.
Proof. reflexivity. Qed.
Lemma fcell_length f : fits f -> length (fcell f) = fw f.
Proof. intro H. unfold fcell. rewrite rjust_length. unfold fits in H. lia. Qed.
Lemma fw_split f : fits f -> fw f = flead f + length (fhd f) + 1 + length (ftl f).
Proof. intro H. unfold fits in H. unfold flead. rewrite ftext_length in *. lia. Qed.

Fixpoint dotposs (e0 : nat) (fs : list nfield) : list nat :=
  match fs with [] => [] | f :: r => (e0 + flead f + length (fhd f)) :: dotposs (e0 + fw f) r end.
Lemma dots_body fs : forall e0, Forall fits fs -> Forall fclean fs -> dots (body fs) e0 = dotposs e0 fs.
Proof.
  induction fs as [|f r IH]; intros e0 Hf Hc; [reflexivity|].
  inversion Hf as [|? ? Hf1 Hf2]; inversion Hc as [|? ? Hc1 Hc2]; subst.
  destruct Hc1 as [[Hd _] [Td _]].
  cbn [body dotposs]. rewrite dots_app, (fcell_length _ Hf1), (IH _ Hf2 Hc2).
  rewrite fcell_eq, !dots_app. rewrite (dots_none (spaces _)) by (apply no_spaces; discriminate).
  rewrite (dots_none (fhd f)) by exact Hd. cbn [dots app]. rewrite ceqb_refl.
  rewrite (dots_none (ftl f)) by exact Td. rewrite spaces_length. reflexivity.
Qed.

Fixpoint inner_ends (e0 : nat) (fs : list nfield) : list nat :=
  match fs with f :: ((_ :: _) as r) => (e0 + fw f) :: inner_ends (e0 + fw f) r | _ => [] end.
Lemma body_length fs : Forall fits fs -> forall e0, field_ends e0 fs = inner_ends e0 fs ++ match fs with [] => [] | _ => [e0 + length (body fs)] end.
Proof.
  induction fs as [|f r IH]; intros Hf e0; [reflexivity|].
  inversion Hf as [|? ? Hf1 Hf2]; subst. cbn [field_ends body]. rewrite app_length, (fcell_length _ Hf1).
  destruct r as [|g r'].
  - cbn [field_ends inner_ends body length app]. f_equal. lia.
  - rewrite (IH Hf2). cbn [inner_ends app]. f_equal. f_equal. f_equal. lia.
Qed.

(** one boundary: the step of [parse_table_line]'s loop between the points of [f] and [g] *)
Lemma ptl_step A f g R : fits f -> fclean f -> fclean g -> fits g -> sep_ok f g ->
  let line := A ++ fcell f ++ fcell g ++ R in
  let pt := length A + flead f + length (fhd f) in
  let nextpt := length A + fw f + flead g + length (fhd g) in
  match find " " line (pt + 1) (nextpt - 1) with
  | Some sp => if (0 <? sp)%nat then Some sp else None
  | None => None
  end = Some (length A + fw f)
  \/ (find " " line (pt + 1) (nextpt - 1) = None /\ find "E" line (pt + 1) (nextpt - 1) = Some (length A + fw f - 4) /\ 4 < length A + fw f).
Proof.
  intros Hf [[_ HdS] [_ TlS]] [[_ GdS] _] Hg Sep line pt nextpt.
  pose proof (fw_split _ Hf) as Wf.
  set (P := A ++ spaces (flead f) ++ fhd f ++ ["."]).
  set (W := ftl f ++ spaces (flead g) ++ fhd g).
  set (R' := "." :: ftl g ++ R).
  assert (EL : line = P ++ W ++ R').
  { unfold line, P, W, R'. rewrite !fcell_eq. repeat rewrite <- app_assoc. cbn [app]. reflexivity. }
  assert (LP : length P = pt + 1).
  { unfold P, pt. rewrite !app_length, spaces_length. cbn [length]. lia. }
  assert (LW : length W = length (ftl f) + flead g + length (fhd g)).
  { unfold W. rewrite !app_length, spaces_length. lia. }
  assert (NP : nextpt = length P + length W) by (unfold nextpt; lia).
  destruct (Nat.eq_dec (length W) 0) as [W0|W0].
  { (* consecutive points: excluded by the side condition *)
    exfalso. destruct Sep as [[S1 S2]|[fr [a [b [c [E _]]]]]]; [lia|].
    rewrite E, app_length in LW. cbn [length] in LW. lia. }
  assert (WIN : forall ch, find ch line (pt + 1) (nextpt - 1) = find_c ch (firstn (length W - 1) W) (length P)).
  { intro ch. rewrite EL, <- LP. replace (nextpt - 1) with (length P + (length W - 1)) by lia. apply find_window. lia. }
  rewrite !WIN.
  destruct (le_lt_dec 1 (flead g)) as [L1|L1]; [destruct (le_lt_dec 2 (flead g + length (fhd g))) as [L2|L2]|].
  - (* a blank follows the number and lies inside the window *)
    left. assert (EW : W = ftl f ++ " " :: (spaces (flead g - 1) ++ fhd g)).
    { unfold W. destruct (flead g) as [|n]; [lia|]. cbn [spaces repeat app Nat.sub]. rewrite Nat.sub_0_r. reflexivity. }
    rewrite EW at 2. rewrite find_c_firstn_hit; [|exact TlS|lia].
    replace (0 <? length P + length (ftl f))%nat with true by (symmetry; apply Nat.ltb_lt; lia). f_equal. lia.
  - (* exactly one blank, directly before g's point *)
    right. destruct Sep as [[S1 S2]|[fr [a [b [c [E NE]]]]]]; [lia|].
    assert (Lg : flead g = 1) by lia. assert (Hg0 : fhd g = []) by (destruct (fhd g); [reflexivity|cbn [length] in L2; lia]).
    assert (EW : W = ftl f ++ [" "]) by (unfold W; rewrite Lg, Hg0; reflexivity).
    assert (FW : firstn (length W - 1) W = ftl f).
    { rewrite EW, app_length. cbn [length]. replace (length (ftl f) + 1 - 1) with (length (ftl f) + 0) by lia.
      rewrite firstn_app_2. cbn [firstn]. apply app_nil_r. }
    rewrite FW. split; [apply find_c_none; exact TlS|]. rewrite E.
    replace (fr ++ ["E"; a; b; c]) with (firstn (S (length fr)) (fr ++ "E" :: [a; b; c]) ++ [a; b; c]).
    2:{ rewrite firstn_app, firstn_all2 by lia. replace (S (length fr) - length fr) with 1 by lia. cbn [firstn]. rewrite <- app_assoc. reflexivity. }
    rewrite E, app_length in Wf. cbn [length] in Wf.
    assert (HF : find_c "E" (firstn (S (length fr)) (fr ++ "E" :: [a; b; c]) ++ [a; b; c]) (length P) = Some (length P + length fr)).
    { rewrite firstn_app, firstn_all2 by lia. replace (S (length fr) - length fr) with 1 by lia. cbn [firstn].
      rewrite <- app_assoc. cbn [app].
      pose proof (find_c_firstn_hit "E" fr [a; b; c] (length fr + 4) (length P) NE ltac:(lia)) as H.
      rewrite firstn_all2 in H by (rewrite app_length; cbn [length]; lia). exact H. }
    rewrite HF. split; [f_equal; lia|lia].
  - (* the fields abut *)
    right. destruct Sep as [[S1 S2]|[fr [a [b [c [E NE]]]]]]; [lia|].
    assert (Lg : flead g = 0) by lia.
    assert (EW : W = ftl f ++ fhd g) by (unfold W; rewrite Lg; reflexivity).
    split.
    + apply find_c_none. apply no_firstn. rewrite EW. apply no_app. split; assumption.
    + rewrite E, app_length in Wf. cbn [length] in Wf.
      rewrite EW, E. rewrite <- app_assoc. cbn [app].
      rewrite find_c_firstn_hit; [split; [f_equal; lia|lia]|exact NE|].
      rewrite app_length. cbn [length]. lia.
Qed.

Lemma ptl_loop_cons line pt nextpt tl :
  ptl_loop line (pt :: nextpt :: tl) =
  match (match (match find " " line (pt + 1) (nextpt - 1) with
                | Some sp => if (0 <? sp)%nat then Some sp else None
                | None => None end) with
         | Some sp => Some sp
         | None => match find "E" line (pt + 1) (nextpt - 1) with
                   | Some ep => if (0 <? ep)%nat then Some (ep + 3 + 1) else None
                   | None => None end
         end), ptl_loop line (nextpt :: tl) with
  | Some v, Some l => Some (v :: l)
  | _, _ => None
  end.
Proof. reflexivity. Qed.

Lemma ptl_loop_body fs : forall A, Forall fits fs -> Forall fclean fs -> seps_ok fs ->
  ptl_loop (A ++ body fs) (dotposs (length A) fs) = Some (inner_ends (length A) fs).
Proof.
  induction fs as [|f r IH]; intros A Hf Hc Hs; [reflexivity|].
  destruct r as [|g r']; [reflexivity|].
  inversion Hf as [|? ? Hf1 Hf2]; inversion Hc as [|? ? Hc1 Hc2]; subst.
  inversion Hf2 as [|? ? Hg1 _]; inversion Hc2 as [|? ? Hgc _]; subst.
  destruct Hs as [Sep Hs'].
  assert (REC : ptl_loop (A ++ body (f :: g :: r')) (dotposs (length A + fw f) (g :: r')) = Some (inner_ends (length A + fw f) (g :: r'))).
  { specialize (IH (A ++ fcell f) Hf2 Hc2 Hs'). rewrite app_length, (fcell_length _ Hf1) in IH.
    cbn [body]. cbn [body] in IH. rewrite <- app_assoc in IH. exact IH. }
  change (dotposs (length A) (f :: g :: r')) with
    ((length A + flead f + length (fhd f)) :: dotposs (length A + fw f) (g :: r')).
  change (inner_ends (length A) (f :: g :: r')) with ((length A + fw f) :: inner_ends (length A + fw f) (g :: r')).
  remember (dotposs (length A + fw f) (g :: r')) as rest eqn:Erest.
  assert (Er : exists tl, rest = (length A + fw f + flead g + length (fhd g)) :: tl) by (subst rest; cbn [dotposs]; eauto).
  destruct Er as [tl Er]. rewrite Er. rewrite Er in REC.
  rewrite ptl_loop_cons, REC.
  pose proof (ptl_step A f g (body r') Hf1 Hc1 Hgc Hg1 Sep) as ST. cbv zeta in ST.
  cbn [body]. destruct ST as [ST|[S1 [S2 S3]]].
  - rewrite ST. reflexivity.
  - rewrite S1, S2. replace (0 <? length A + fw f - 4)%nat with true by (symmetry; apply Nat.ltb_lt; lia).
    replace (length A + fw f - 4 + 3 + 1) with (length A + fw f) by lia. reflexivity.
Qed.

(** ** the theorem *)
Theorem layout_theorem pre fs start :
  no "." pre -> fs <> [] -> Forall fits fs -> Forall fclean fs -> seps_ok fs ->
  parse_table_line (render_row pre fs) start false = Some (start :: map Z.of_nat (field_ends (length pre) fs)).
Proof.
  intros Hp Hne Hf Hc Hs. unfold parse_table_line, render_row.
  rewrite dots_app, (dots_none pre) by exact Hp. cbn [app Nat.add]. rewrite (dots_body fs _ Hf Hc).
  rewrite (ptl_loop_body fs pre Hf Hc Hs). rewrite (body_length fs Hf).
  destruct fs as [|f r]; [congruence|]. rewrite map_app, app_length. cbn [map app]. reflexivity.
Qed.

(** the same with an ECO2M integer column: the position of the first blank after [start+1]
    is inserted after [start] *)
Theorem layout_theorem_I pre fs start sp :
  no "." pre -> fs <> [] -> Forall fits fs -> Forall fclean fs -> seps_ok fs ->
  find " " (render_row pre fs) (norm_idx (length (render_row pre fs)) (start + 1)) (length (render_row pre fs)) = Some sp ->
  parse_table_line (render_row pre fs) start true = Some (start :: Z.of_nat sp :: map Z.of_nat (field_ends (length pre) fs)).
Proof.
  intros Hp Hne Hf Hc Hs Hsp. unfold parse_table_line. rewrite Hsp. unfold render_row.
  rewrite dots_app, (dots_none pre) by exact Hp. cbn [app Nat.add]. rewrite (dots_body fs _ Hf Hc).
  rewrite (ptl_loop_body fs pre Hf Hc Hs). rewrite (body_length fs Hf).
  destruct fs as [|f r]; [congruence|]. rewrite map_app, app_length. cbn [map app]. reflexivity.
Qed.
