(** C05 -- line-level model of the listing-table reader of t2listing.py (hand model, H).

    Faithful transcriptions (Python line numbers of the pinned tree in brackets) of
      [start_of_values]           t2listing.start_of_values          [591-611]
      [parse_table_line]          t2listing.parse_table_line         [680-702]
      [read_table_line_TOUGH2]    t2listing.read_table_line_TOUGH2   [929-933]
      [read_table_line_AUTOUGH2]  t2listing.read_table_line_AUTOUGH2 [924-927]
      [key_from_line]             listingtable.key_from_line + mulgrids.fix_blockname
    and the *specification* [fortran_tokens]: the sequence of Fortran-printed reals in a
    row text (DESIGN.md section 6, C05).  The first two start from the probe-validated
    sketch of DESIGN.md appendix E.12.  Every call the real reader makes to these
    functions on the shipped listings (and on perturbed copies) is replayed through the
    extracted model on every run of the check (Drv.v). *)
From Coq Require Import Ascii String List Bool Arith ZArith NArith Lia.
From PTBase Require Import Exn PyStr PyNum PyVal.
From PTModel Require Import Fortran.
Import ListNotations.
Open Scope char_scope.

(** ** Python primitives used by the two layout functions *)
Definition nth_c (s : str) (i : nat) : ascii := nth i s "000".
(** [s.find(ch, start, stop)] for a one-character needle, [0 <= start], [0 <= stop]; [None] is -1 *)
Fixpoint find_from (c : ascii) (s : str) (i stop : nat) : option nat :=
  match s with
  | [] => None
  | x :: r => if (stop <=? i)%nat then None else if ceqb x c then Some i else find_from c r (S i) stop
  end.
Definition find (c : ascii) (s : str) (start stop : nat) : option nat := find_from c (skipn start s) start stop.
(** all positions of '.'  ([m.start() for m in finditer(escape('.'), line)]) *)
Fixpoint dots (s : str) (i : nat) : list nat :=
  match s with [] => [] | c :: r => if ceqb c "." then i :: dots r (S i) else dots r (S i) end.

(** the two backward scans [while line[pos] <cond> and pos > 0: pos -= 1] *)
Fixpoint back_while (p : ascii -> bool) (s : str) (pos fuel : nat) : nat :=
  match fuel with
  | O => pos
  | S f => if p (nth_c s pos) && (0 <? pos)%nat then back_while p s (pos - 1) f else pos
  end.

(** ** start_of_values(line, columns)

    [Ok (Some z)] : returns z;  [Ok None] : returns None;  [Raise TypeError] : the
    statement [start -= 2] applied to None (columns[0] == 'I'). *)
Definition start_of_values_nat (line : str) : option nat :=
  let n := length line in
  match find "." line 0 n with
  | Some pt =>
      if (2 <=? pt)%nat then
        let nextpt := match find "." line (pt + 1) n with Some q => q | None => n end in
        let s := lower (slice (pt + 1) (nextpt - 1) line) in
        if has_c "e" s || has_c "+" s || has_c "-" s then
          let c := nth_c line (pt - 2) in
          if ceqb c "-" || ceqb c " " then Some (pt - 2) else if is_digit c then Some (pt - 1) else None
        else
          let pos := back_while (fun c => negb (ceqb c " ")) line (pt - 1) n in
          let pos := back_while (fun c => ceqb c " ") line pos n in
          if (0 <? pos)%nat then Some (pos + 1) else None
      else None
  | None => None
  end.
Definition start_of_values (line : str) (col0_is_I : bool) : res (option Z) :=
  match start_of_values_nat line, col0_is_I with
  | Some st, true => Ok (Some (Z.of_nat st - 2)%Z)
  | Some st, false => Ok (Some (Z.of_nat st))
  | None, true => Raise TypeError
  | None, false => Ok None
  end.

(** ** parse_table_line(line, start, columns);  [None] = raises "Unable to parse table line" *)
Fixpoint ptl_loop (line : str) (pts : list nat) : option (list nat) :=
  match pts with
  | pt :: ((nextpt :: _) as rest) =>
      let pstart := pt + 1 in
      let pend := nextpt - 1 in
      let nxt := match find " " line pstart pend with
                 | Some sp => if (0 <? sp)%nat then Some sp else None
                 | None => None
                 end in
      let nxt := match nxt with
                 | Some sp => Some sp
                 | None => match find "E" line pstart pend with
                           | Some ep => if (0 <? ep)%nat then Some (ep + 3 + 1) else None
                           | None => None
                           end
                 end in
      match nxt, ptl_loop line rest with
      | Some v, Some l => Some (v :: l)
      | _, _ => None
      end
  | _ => Some []
  end.
Definition parse_table_line (line : str) (start : Z) (col0_is_I : bool) : option (list Z) :=
  let n := length line in
  let first :=
    if col0_is_I then
      match find " " line (norm_idx n (start + 1)) n with
      | Some sp => [start; Z.of_nat sp]
      | None => [start]
      end
    else [start] in
  match ptl_loop line (dots line 0) with
  | Some l => Some (first ++ map Z.of_nat l ++ [Z.of_nat n])
  | None => None
  end.

(** ** the two row readers *)
Definition zero : pyval := VFloat (Fin false 0 0).
(** [[fortran_float(line[v[i]: v[i+1]]) for i in range(len(v) - 1)] + [0.0] * (num_columns - (len(v) - 1))] *)
Definition read_table_line_TOUGH2 (line : str) (num_columns : nat) (vals : list Z) : list pyval :=
  map (fun ab => fortran_float (pyslice (Some (fst ab)) (Some (snd ab)) line) zero) (combine vals (tl vals))
  ++ repeat zero (Z.to_nat (Z.of_nat num_columns - (Z.of_nat (length vals) - 1))).
(** [[fortran_float(s) for s in line[start:].strip().split()]] *)
Definition read_table_line_AUTOUGH2 (line : str) (start : Z) : list pyval :=
  map (fun s => fortran_float s zero) (split_ws (strip (pyslice (Some start) None line))).

(** ** row keys *)
(** mulgrids.fix_blockname on an arbitrary string ([IndexError] on short names, with
    Python's left-to-right short-circuit evaluation) *)
Definition fix_blockname (name : str) : res str :=
  match nth_error name 2 with
  | None => Raise IndexError
  | Some c2 =>
      if is_digit c2 then
        match nth_error name 4 with
        | None => Raise IndexError
        | Some c4 =>
            if is_digit c4 then
              match nth_error name 3 with
              | Some c3 => if ceqb c3 " " then Ok (slice 0 3 name ++ "0" :: slice 4 5 name) else Ok name
              | None => Raise IndexError
              end
            else Ok name
        end
      else Ok name
  end.
(** listingtable.key_from_line: one name per key position (the caller makes a tuple of them) *)
Definition key_from_line (line : str) (keypos : list Z) : res (list str) :=
  mapM (fun p => fix_blockname (pyslice (Some p) (Some (p + 5)%Z) line)) keypos.

(** ** the specification: the Fortran-printed reals of a row text

    One token per decimal point.  To the right of the point: the fraction digits, then
    an exponent: a letter E/D/e/d, a sign or blank and two digits -- a third digit is
    taken only if it is not itself followed by a digit or a point (in
    [0.101304E+060.100001E+02] the 0 after E+06 opens the next number) -- or a bare sign
    and three digits (not followed by a point).  To the left: a number that carries an
    exponent has at most one digit before its point ([    10.597704E+07] is the index 1
    followed by 0.597704E+07), a number without exponent takes the whole digit run;
    then an optional sign. *)
Definition is_expletter (c : ascii) : bool := ceqb c "E" || ceqb c "e" || ceqb c "D" || ceqb c "d".
Definition is_sign (c : ascii) : bool := ceqb c "+" || ceqb c "-".
Definition dig_at (s : str) (i : nat) : bool := match nth_error s i with Some c => is_digit c | None => false end.
Definition exp_len (a : str) : nat :=
  match a with
  | l :: r =>
      if is_expletter l && (match r with s :: _ => is_sign s || ceqb s " " | [] => false end) && dig_at r 1 && dig_at r 2 then
        if dig_at r 3 && negb (match nth_error r 4 with Some c => is_digit c || ceqb c "." | None => false end) then 5 else 4
      else if is_sign l && dig_at r 0 && dig_at r 1 && dig_at r 2
              && negb (match nth_error r 3 with Some c => ceqb c "." | None => false end) then 4
      else 0
  | [] => 0
  end.
Fixpoint take_digits (s : str) : str :=
  match s with c :: r => if is_digit c then c :: take_digits r else [] | [] => [] end.
(** text of the token to the right of its point, and whether it carries an exponent *)
Definition right_part (r : str) : str * bool :=
  let fr := take_digits r in
  let a := skipn (length fr) r in
  let el := exp_len a in
  (fr ++ firstn el a, negb (el =? 0)%nat).
(** text of the token to the left of its point, from the reversed text before the point *)
Definition left_part (hasexp : bool) (rp : str) : str :=
  let ds := if hasexp then match rp with c :: _ => if is_digit c then [c] else [] | [] => [] end
            else take_digits rp in
  let sg := match skipn (length ds) rp with c :: _ => if is_sign c then [c] else [] | [] => [] end in
  sg ++ rev ds.
Definition token_at (rp r : str) : str :=
  let rt := right_part r in left_part (snd rt) rp ++ "." :: fst rt.
(** [rp] is the text already passed, reversed *)
Fixpoint toks (rp s : str) : list str :=
  match s with
  | [] => []
  | c :: r => if ceqb c "." then token_at rp r :: toks (c :: rp) r else toks (c :: rp) r
  end.
Definition fortran_tokens (s : str) : list str := toks [] s.

(** the text before the first real token (reversed) *)
Fixpoint pre_rev (rp s : str) : str :=
  match s with
  | [] => rp
  | c :: r => if ceqb c "." then skipn (length (left_part (snd (right_part r)) rp)) rp else pre_rev (c :: rp) r
  end.
(** rows of a table whose first column is the integer I (ECO2M) carry one leading integer
    token: the last blank-separated word before the first real *)
Definition row_tokens (col0_is_I : bool) (s : str) : list str :=
  (if col0_is_I then match rev (split_ws (rev (pre_rev [] s))) with w :: _ => [w] | [] => [] end else [])
  ++ fortran_tokens s.
