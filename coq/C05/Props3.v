(** C05 -- property theorems, FILE level, AUTOUGH2 (with or without short output).  Each is closed by [exact] of a lemma
    proved in TableAUT.v / FileAUT.v / CheckAUT.v / Witness3.v and followed by Print Assumptions.  The statements are about
    the executable model coq/C05/Reader.v, which is run against the real t2listing on every shipped listing on every run. *)
From Coq Require Import Ascii String List Bool Arith ZArith NArith.
From PTBase Require Import Exn PyStr PyNum PyVal.
From PTModel Require Import Fortran.
From P Require Import Model Table Reader TableT2 SetT2 FileT2 CodecT2 CheckT2 Witness2 TableAUT FileAUT CheckAUT Witness3.
Import ListNotations.
Open Scope char_scope.

(** the cells of an AUTOUGH2 row are the values of the numbers printed after the start column, however many blanks
    separate them (any number of columns) *)
Theorem autough2_cells_are_printed_numbers : forall pre ws tail, words_ok true ws -> forallb is_space tail = true ->
  read_table_line_AUTOUGH2 (pre ++ words_text ws tail) (Z.of_nat (length pre)) = map (fun w => fortran_float (snd w) zero) ws.
Proof. exact autough2_cells_thm. Qed.
Print Assumptions autough2_cells_are_printed_numbers.

(** setup_table_AUTOUGH2 on a printed table: one row per printed row, keyed by the printed names, position after the table *)
Theorem autough2_setup_table_on_printed_table : forall t nkeys cols st keypos keys r, ashape t nkeys cols st keypos keys ->
  setup_table_AUT (a_name t) (a_body t ++ r) = Ok (table_of_AUT cols nkeys st keypos keys, r).
Proof. exact setup_table_AUT_spec. Qed.
Print Assumptions autough2_setup_table_on_printed_table.

(** read_table_AUTOUGH2 replaces the whole data by the decoded printed rows, whatever the table held before *)
Theorem autough2_read_table_replaces_every_row : forall t T d r, alines_ok t -> lt_values T <> [] ->
  Forall (fun l => length (decode_AUT T l) = length (lt_cols T)) (a_rows t) -> length d = length (a_rows t) ->
  read_table_AUT (a_name t) (with_data T d) (a_body t ++ r) = Ok (with_data T (map (decode_AUT T) (a_rows t)), r).
Proof. exact read_table_AUT_spec. Qed.
Print Assumptions autough2_read_table_replaces_every_row.

(** skip_table_AUTOUGH2 ends at the same line as setting up or reading the table *)
Theorem autough2_skip_table_passes_the_table : forall t r, alines_ok t -> skip_table_AUT (a_name t) (a_body t ++ r) = Ok r.
Proof. exact skip_table_AUT_spec. Qed.
Print Assumptions autough2_skip_table_passes_the_table.

Theorem autough2_setup_pos_finds_every_result_set : forall sets fuel z, Forall aset_ok sets -> length sets < fuel -> Forall noE z ->
  setup_pos_AUT fuel [kwE] (z ++ afile sets) = Ok (apositions sets).
Proof. exact setup_pos_AUT_spec. Qed.
Print Assumptions autough2_setup_pos_finds_every_result_set.

(** ... and with short output: the stretches between the full result sets may hold xSHORT blocks, which are passed over *)
Theorem autough2_setup_pos_passes_short_output : forall ks' sets z N f, Forall aset_ok2 sets -> gaps_okA (kwE :: ks') z sets = Some N -> length sets < f ->
  setup_pos_AUT (N + f) (kwE :: ks') (z ++ afile sets) = Ok (apositions sets).
Proof. exact setup_pos_AUT_gen. Qed.
Print Assumptions autough2_setup_pos_passes_short_output.

Theorem autough2_listing_opens : forall x0 more Ts, afile_ok x0 more Ts -> forall skip,
  open_listing AUT skip (afile (x0 :: more)) = Ok (astate_at x0 more Ts skip 0 x0).
Proof. exact aut_open_spec. Qed.
Print Assumptions autough2_listing_opens.

(** the whole-file codec law for AUTOUGH2: any skipped subset, any sequence of index moves ending at result set k *)
Theorem autough2_listing_codec_law : forall x0 more Ts, afile_ok x0 more Ts -> forall skip l k x i,
  nth_error (x0 :: more) k = Some x -> aaddresses x0 more i k ->
  Forall (fun j => exists kj, kj < length (x0 :: more) /\ aaddresses x0 more j kj) l ->
  (do st <- open_listing AUT skip (afile (x0 :: more)); moves st (l ++ [i])) = Ok (astate_at x0 more Ts skip k x).
Proof. exact aut_listing_codec. Qed.
Print Assumptions autough2_listing_codec_law.

(** table j of result set k: the structure of the first result set, the decoded printed rows of set k, and the printed
    names of those rows are the row keys *)
Theorem autough2_table_contents : forall x0 more Ts, afile_ok x0 more Ts -> forall skip k x j u T,
  nth_error (x0 :: more) k = Some x -> nth_error (aset_tables x) j = Some u -> nth_error Ts j = Some T -> in_names (a_name u) skip = false ->
  tab_get (a_name u) (s_tables (astate_at x0 more Ts skip k x)) = Some (with_data T (map (decode_AUT T) (a_rows u)))
  /\ Forall2 (fun l key => key_from_line l (lt_keypos T) = Ok key) (a_rows u) (lt_rows T).
Proof. exact aut_table_contents. Qed.
Print Assumptions autough2_table_contents.

Theorem autough2_skip_tables_independent : forall x0 more Ts, afile_ok x0 more Ts -> forall skip1 skip2 l1 l2 i1 i2 k x n,
  nth_error (x0 :: more) k = Some x -> aaddresses x0 more i1 k -> aaddresses x0 more i2 k ->
  Forall (fun j => exists kj, kj < length (x0 :: more) /\ aaddresses x0 more j kj) l1 ->
  Forall (fun j => exists kj, kj < length (x0 :: more) /\ aaddresses x0 more j kj) l2 ->
  in_names n skip1 = false -> in_names n skip2 = false ->
  exists st1 st2, (do st <- open_listing AUT skip1 (afile (x0 :: more)); moves st (l1 ++ [i1])) = Ok st1
               /\ (do st <- open_listing AUT skip2 (afile (x0 :: more)); moves st (l2 ++ [i2])) = Ok st2
               /\ tab_get n (s_tables st1) = tab_get n (s_tables st2).
Proof. exact aut_skip_independent. Qed.
Print Assumptions autough2_skip_tables_independent.

Theorem autough2_file_check_is_sound : forall x0 more Ts, afile_check (x0 :: more) = Some Ts -> afile_ok x0 more Ts.
Proof. exact afile_check_sound. Qed.
Print Assumptions autough2_file_check_is_sound.

Theorem autough2_demo_listing_in_class : exists Ts, afile_ok ademo_set0 [ademo_set1] Ts.
Proof. exact ademo_in_class. Qed.
Print Assumptions autough2_demo_listing_in_class.
