(** C05 -- FILE level, TOUGH2 family (TOUGH2, TOUGH2-MP, TOUGH3, TOUGHREACT).

    A listing is a list of result sets.  A result set is
       lead lines (..., an 'OUTPUT DATA AFTER' line, ..., a 'TOTAL TIME' line)        -- before its position
       the line with time and step, lines up to a '@@@@@' line, blank lines            -- read_header
       the first table, then (inter lines, table) for the other tables                  -- SetT2.v
       tail lines.
    [file_from] renders it to lines; [positions] are the file positions the reader must find.
    Theorems (any number of result sets, tables, rows; any subset of skipped tables):
       setup_pos_TOUGH2 finds exactly the positions;
       t2listing(file, skip) opens, and sets up every table that is not skipped;
       set_index(i), for positive and negative i, reads every table that is not skipped into its structure:
       row j of the table holds what read_table_line_TOUGH2 makes of the j-th printed row of that table at
       that result time -- whatever the skipped subset and whatever was read before. *)
From Coq Require Import Ascii String List Bool Arith ZArith NArith Lia.
From PTBase Require Import Exn PyStr PyNum PyVal.
From PTModel Require Import Fortran.
From P Require Import Model Table Reader TableT2 SetT2.
Import ListNotations.
Open Scope char_scope.

Record pset := {
  ps_lead : list str;
  ps_time : str;
  ps_h1 : list str;
  ps_sep : str;
  ps_bl : list str;
  ps_x : list str;                      (* [] or one short line and blank lines *)
  ps_first : ptable;
  ps_rest : list (list str * ptable);
  ps_tail : list str
}.
Definition set_tables (x : pset) : list ptable := ps_first x :: map snd (ps_rest x).
Definition tables_lines (x : pset) (after : cur) : cur := p_lines (ps_first x) ++ rest_lines (ps_rest x) after.
Definition set_body (x : pset) (after : cur) : cur := ps_time x :: ps_h1 x ++ ps_sep x :: ps_bl x ++ ps_x x ++ tables_lines x after.
Fixpoint file_from (sets : list pset) : cur :=
  match sets with [] => [] | x :: r => ps_lead x ++ set_body x (ps_tail x ++ file_from r) end.
Fixpoint positions (sets : list pset) : list cur :=
  match sets with [] => [] | x :: r => set_body x (ps_tail x ++ file_from r) :: positions r end.

Lemma rest_lines_app its a b : rest_lines its (a ++ b) = rest_lines its a ++ b.
Proof. induction its as [|[i t] its IH]; cbn [rest_lines]; [reflexivity|]. rewrite IH, <- !app_assoc. reflexivity. Qed.
Lemma rest_lines_length_ge its after : length its <= length (rest_lines its after).
Proof.
  induction its as [|[i t] its IH]; cbn [rest_lines length]; [lia|]. rewrite !app_length. unfold p_lines. rewrite app_length. cbn [length]. lia.
Qed.
Lemma last_In {A} (l : list A) : forall d, In (last l d) (d :: l).
Proof.
  induction l as [|a l IH]; intro d; [left; reflexivity|]. destruct l as [|b l'].
  - right. left. reflexivity.
  - change (last (a :: b :: l') d) with (last (b :: l') d). destruct (IH d) as [E|E].
    + rewrite last_cons_default in E. right. rewrite (last_cons_default l' b d). destruct (IH a) as [E2|E2]; [left; symmetry; rewrite last_cons_default in E2; exact (eq_sym E2)|right; rewrite last_cons_default in E2; exact E2].
    + right. right. exact E.
Qed.
Lemma rest_lines_length_after its after : length after <= length (rest_lines its after).
Proof. induction its as [|[i t] its IH]; cbn [rest_lines]; [lia|]. rewrite !app_length. lia. Qed.
Lemma set_body_length x after : length after < length (set_body x after).
Proof.
  unfold set_body, tables_lines. cbn [length]. rewrite !app_length. cbn [length]. rewrite !app_length.
  pose proof (rest_lines_length_after (ps_rest x) after). lia.
Qed.
Lemma positions_length sets : length (positions sets) = length sets.
Proof. induction sets; cbn [positions length]; congruence. Qed.
Lemma positions_nth sets : forall k x, nth_error sets k = Some x ->
  nth_error (positions sets) k = Some (set_body x (ps_tail x ++ file_from (skipn (S k) sets))).
Proof.
  induction sets as [|y sets IH]; intros [|k] x H; cbn in H; try discriminate.
  - inversion H; subst. reflexivity.
  - cbn [positions nth_error skipn]. apply IH. exact H.
Qed.

(** ** what the reader needs of the lines around the tables *)
Definition not_oda (l : str) : Prop := is_oda l = false.
Definition not_tt (l : str) : Prop := has_total_time l = false.
Record set_ok (x : pset) : Prop := {
  so_lead : exists A oda B tt, ps_lead x = A ++ oda :: B ++ [tt] /\ Forall not_oda A /\ is_oda oda = true /\ Forall not_tt B /\ has_total_time tt = true;
  so_time : exists tm stp r, split_ws (ps_time x) = tm :: stp :: r;
  so_h1 : Forall (no_kw 1 kw_at) (ps_h1 x);
  so_sep : starts_at 1 kw_at (ps_sep x) = true;
  so_bl : Forall (fun l => is_blank l = true) (ps_bl x);
  so_hdr : is_blank (p_hdr (ps_first x)) = false /\ extra_ok (ps_x x) (p_hdr (ps_first x));
  so_first_skip : skip_ok (ps_first x);
  so_no_oda : Forall not_oda (rest_lines (ps_rest x) (ps_tail x));
  so_lead_kcyc : Forall not_kcyc (ps_lead x);
  so_tail_kcyc : Forall not_kcyc (ps_tail x)
}.
Definition set_time (x : pset) : pyval := match split_ws (ps_time x) with tm :: _ => fortran_float tm zero | [] => VNone end.
Definition set_step (x : pset) : pyval := match split_ws (ps_time x) with _ :: stp :: _ => fortran_int stp (VInt 0) | _ => VNone end.

Section File.
  Variable s : sim.
  Hypothesis Hs : sim_eqb s TPLUS = false.
  Hypothesis Ha : sim_eqb s AUT = false.

  Lemma read_header_set x after : set_ok x ->
    read_header_T2 s (set_body x after) = Ok (set_time x, set_step x, tables_lines x after).
  Proof.
    intros [_ [tm [stp [r Ht]]] H1 Hsep Hbl [Hh H4] _ _ _ _].
    unfold set_body, tables_lines, set_time, set_step. rewrite (p_lines_cons (ps_first x)). cbn [app]. rewrite Ht.
    apply (read_header_spec s _ tm stp r); assumption.
  Qed.

  (** ** setup_pos_TOUGH2 finds the positions *)
  Lemma setup_pos_spec sets : forall fuel z, Forall set_ok sets -> length sets < fuel -> Forall not_oda z ->
    setup_pos_T2 fuel s (z ++ file_from sets) = Ok (positions sets).
  Proof.
    induction sets as [|x sets IH]; intros fuel z Hok Hf Hz.
    - destruct fuel as [|f]; [cbn in Hf; lia|]. cbn [file_from setup_pos_T2 positions]. rewrite app_nil_r.
      rewrite (scan_past_none is_oda z Hz). reflexivity.
    - destruct fuel as [|f]; [cbn in Hf; lia|]. inversion Hok as [|? ? Hx Hok']; subst.
      pose proof Hx as [[A [oda [B [tt [El [HA [Ho [HB Ht]]]]]]]] _ _ _ _ _ Hskip Hno _ _].
      cbn [file_from setup_pos_T2 positions]. rewrite El. rewrite <- !app_assoc. cbn [app]. rewrite app_assoc.
      rewrite (scan_past_app is_oda (z ++ A) oda _); [|apply Forall_app; split; assumption|exact Ho].
      rewrite <- app_assoc. cbn [app]. rewrite (scan_past_app has_total_time B tt _ HB Ht).
      rewrite (read_header_set x _ Hx). cbn [bind snd].
      unfold tables_lines at 1. destruct Hskip as [Hsk1 Hsk2]. unfold p_lines. rewrite <- app_assoc. cbn [app].
      rewrite (skipto1_app 1 kw_at _ _ _ Hsk1 Hsk2). cbn [snd].
      rewrite rest_lines_app. rewrite (IH f _ Hok' ltac:(cbn [length] in Hf; lia) Hno). reflexivity.
  Qed.

  (** ** inside result set k: positions and the next-set test *)
  Lemma file_from_length_lead x r : set_ok x -> length (set_body x (ps_tail x ++ file_from r)) < length (file_from (x :: r)).
  Proof.
    intros [[A [oda [B [tt [El _]]]]] _ _ _ _ _ _ _ _ _]. cbn [file_from]. rewrite app_length, El, !app_length. cbn [length]. rewrite app_length. cbn [length]. lia.
  Qed.
  Lemma past_inside sets k x c : Forall set_ok sets -> nth_error sets k = Some x ->
    past_next_set (positions sets) (Z.of_nat k) (c ++ file_from (skipn (S k) sets)) = Ok false.
  Proof.
    intros Hok Hk. unfold past_next_set. rewrite positions_length.
    destruct ((1 <? Z.of_nat (length sets)) && (Z.of_nat k <? Z.of_nat (length sets) - 1))%Z eqn:E; [|reflexivity].
    apply andb_prop in E as [_ E]. apply Z.ltb_lt in E.
    assert (Hk1 : S k < length sets) by lia.
    destruct (nth_error sets (S k)) as [y|] eqn:Ey; [|apply nth_error_None in Ey; lia].
    unfold pyindex. rewrite positions_length.
    replace (Z.of_nat k + 1 <? 0)%Z with false by (symmetry; apply Z.ltb_ge; lia).
    replace ((Z.of_nat k + 1 <? 0) || (Z.of_nat (length sets) <=? Z.of_nat k + 1))%Z with false
      by (symmetry; apply orb_false_intro; [apply Z.ltb_ge; lia|apply Z.leb_gt; lia]).
    replace (Z.to_nat (Z.of_nat k + 1)) with (S k) by lia.
    rewrite (positions_nth sets (S k) y Ey).
    assert (Esk : skipn (S k) sets = y :: skipn (S (S k)) sets).
    { clear - Ey. revert k Ey. induction sets as [|a sets IH]; intros k Ey; [destruct k; discriminate|].
      destruct k as [|k]; cbn [nth_error] in Ey.
      - destruct sets; [discriminate|]. cbn in Ey. inversion Ey; subst. reflexivity.
      - cbn [skipn]. cbn [skipn] in IH. apply IH. exact Ey. }
    rewrite Esk. f_equal. apply Nat.leb_gt. rewrite app_length.
    assert (Hy : set_ok y). { rewrite Forall_forall in Hok. apply Hok. eapply nth_error_In. exact Ey. }
    pose proof (file_from_length_lead y (skipn (S (S k)) sets) Hy). lia.
  Qed.
  (** after the last table of set k no table is found *)
  Lemma ends_inside sets k x sp : Forall set_ok sets -> nth_error sets k = Some x -> not_kcyc sp ->
    ends_here (positions sets) (Z.of_nat k) sp (ps_tail x ++ file_from (skipn (S k) sets)).
  Proof.
    intros Hok Hk Hsp z Hz.
    assert (Hzk : Forall not_kcyc z) by (destruct Hz; subst; [constructor|constructor; [exact Hsp|constructor]]).
    assert (Hx : set_ok x). { rewrite Forall_forall in Hok. apply Hok. eapply nth_error_In. exact Hk. }
    cbn [next_table_T2]. rewrite app_assoc.
    destruct (skipn (S k) sets) as [|y later] eqn:El.
    - cbn [file_from]. rewrite app_nil_r. rewrite scan_past_none; [eexists; reflexivity|].
      apply Forall_app. split; [exact Hzk|apply (so_tail_kcyc x Hx)].
    - assert (Ey : nth_error sets (S k) = Some y).
      { clear - El. revert k El. induction sets as [|a sets IH]; intros k El; [destruct k; discriminate|].
        destruct k as [|k]; cbn [skipn] in El.
        - destruct sets; [discriminate|]. cbn in El. inversion El; subst. reflexivity.
        - cbn [nth_error]. apply IH. exact El. }
      assert (Hy : set_ok y). { rewrite Forall_forall in Hok. apply Hok. eapply nth_error_In. exact Ey. }
      cbn [file_from]. rewrite app_assoc. rewrite scan_past_skip.
      2:{ apply Forall_app. split; [apply Forall_app; split; [exact Hzk|apply (so_tail_kcyc x Hx)]|apply (so_lead_kcyc y Hy)]. }
      destruct (scan_past is_kcyc (set_body y (ps_tail y ++ file_from later))) as [c1|] eqn:Esc; [|eexists; reflexivity].
      assert (Hp : past_next_set (positions sets) (Z.of_nat k) c1 = Ok true).
      { unfold past_next_set. rewrite positions_length.
        assert (Hk1 : S k < length sets) by (apply nth_error_Some; congruence).
        replace ((1 <? Z.of_nat (length sets)) && (Z.of_nat k <? Z.of_nat (length sets) - 1))%Z with true
          by (symmetry; apply andb_true_intro; split; [apply Z.ltb_lt; lia|apply Z.ltb_lt; lia]).
        unfold pyindex. rewrite positions_length.
        replace (Z.of_nat k + 1 <? 0)%Z with false by (symmetry; apply Z.ltb_ge; lia).
        replace ((Z.of_nat k + 1 <? 0) || (Z.of_nat (length sets) <=? Z.of_nat k + 1))%Z with false
          by (symmetry; apply orb_false_intro; [apply Z.ltb_ge; lia|apply Z.leb_gt; lia]).
        replace (Z.to_nat (Z.of_nat k + 1)) with (S k) by lia.
        rewrite (positions_nth sets (S k) y Ey).
        assert (E2 : skipn (S (S k)) sets = later).
        { clear - El. revert k El. induction sets as [|a sets IH]; intros k El; [destruct k; discriminate|].
          destruct k as [|k]; cbn [skipn] in *.
          - destruct sets; [discriminate|]. inversion El; subst. reflexivity.
          - apply IH. exact El. }
        rewrite E2. f_equal. apply Nat.leb_le.
        destruct (scan_past_suffix _ _ _ Esc) as [a [Ea La]]. rewrite Ea, app_length. lia. }
      rewrite Hp. cbn [bind]. eexists. reflexivity.
  Qed.

  (** the lines between two tables, apart from the next-set test (which the file structure provides) *)
  Record inter_shape (inter : list str) (hdr name : str) : Prop := {
    ish_split : exists blocks nk kc bl, inter = concat blocks ++ nk ++ kc :: bl /\ Forall mblock blocks /\ Forall not_kcyc nk /\ is_kcyc kc = true
                                        /\ Forall (fun l => is_blank l = true) bl;
    ish_hdr : is_blank hdr = false;
    ish_mass : str_eqb (fstrip hdr) mass_flow_title = false;
    ish_type : table_type_T2 (firstn 3 (split_ws (fstrip hdr))) = Ok (Some name)
  }.
  Definition inters_shape (its : list (list str * ptable)) : Prop :=
    Forall (fun it => inter_shape (fst it) (p_hdr (snd it)) (p_name (snd it))) its.
  Lemma inters_from_shape sets k x its tailx : Forall set_ok sets -> nth_error sets k = Some x -> inters_shape its ->
    inters_ok (positions sets) (Z.of_nat k) its (tailx ++ file_from (skipn (S k) sets)).
  Proof.
    intros Hok Hk. induction 1 as [|[inter t] its [Hsp Hh Hm Ht] _ IH]; cbn [inters_ok]; [exact I|].
    cbn [fst snd] in *. split; [|exact IH]. split; [exact Hsp| |exact Hh|exact Hm|exact Ht].
    intro c. rewrite rest_lines_app. rewrite app_assoc. rewrite app_comm_cons. rewrite app_assoc.
    apply (past_inside sets k x _ Hok Hk).
  Qed.
End File.
