(** C05 -- tables whose rows are NOT printed in index order or are printed more than once (TOUGH2-MP), table level.

    setup_table_TOUGH2 files each printed row under its printed index in a dictionary; the rows of the table are the
    dictionary in index order.  [sorted_dict]: the dictionary is strictly sorted by index and, for every index, holds the
    LAST printed row with that index (its line offset and names) -- one row per distinct printed index.
    read_table_TOUGH2 assigns every printed line to the row of its name: the row holds the LAST printed line with that name
    ([read_last_copy]); when every row has a line the result does not depend on what the table held before. *)
From Coq Require Import Ascii String List Bool Arith ZArith NArith Lia Sorted.
From PTBase Require Import Exn PyStr PyNum PyVal.
From PTModel Require Import Fortran.
From P Require Import Model Table Reader TableT2 SetT2.
Import ListNotations.
Open Scope char_scope.

(** ** the dictionary *)
Fixpoint rd_lookup {A} (k : Z) (m : list (Z * A)) : option A :=
  match m with [] => None | (k', v) :: r => if (k =? k')%Z then Some v else rd_lookup k r end.
Fixpoint sortedZ {A} (m : list (Z * A)) : Prop :=
  match m with
  | [] => True
  | (k, _) :: r => Forall (fun e => (k < fst e)%Z) r /\ sortedZ r
  end.
Lemma rd_insert_keys {A} k (v : A) m : forall e, In e (rd_insert k v m) -> e = (k, v) \/ In e m.
Proof.
  induction m as [|[k' v'] r IH]; intros e H; cbn [rd_insert] in H.
  - destruct H as [H|[]]. left. symmetry. exact H.
  - destruct (k <? k')%Z; [destruct H as [H|H]; [left; symmetry; exact H|right; exact H]|].
    destruct (k =? k')%Z; [destruct H as [H|H]; [left; symmetry; exact H|right; right; exact H]|].
    destruct H as [H|H]; [right; left; exact H|]. destruct (IH e H) as [E|E]; [left; exact E|right; right; exact E].
Qed.
Lemma rd_insert_sorted {A} k (v : A) m : sortedZ m -> sortedZ (rd_insert k v m).
Proof.
  induction m as [|[k' v'] r IH]; intro H; cbn [rd_insert]; [cbn; split; [constructor|exact I]|].
  destruct H as [H1 H2]. destruct (k <? k')%Z eqn:E1.
  - apply Z.ltb_lt in E1. cbn [sortedZ]. split; [|split; assumption]. constructor; [cbn; exact E1|].
    eapply Forall_impl; [|exact H1]. cbn. intros; lia.
  - destruct (k =? k')%Z eqn:E2.
    + apply Z.eqb_eq in E2. subst k'. cbn [sortedZ]. split; assumption.
    + apply Z.ltb_ge in E1. apply Z.eqb_neq in E2. cbn [sortedZ]. split; [|apply IH; exact H2].
      apply Forall_forall. intros e He. destruct (rd_insert_keys _ _ _ _ He) as [E|E]; [subst e; cbn; lia|].
      rewrite Forall_forall in H1. apply H1. exact E.
Qed.
Lemma rd_lookup_insert {A} k (v : A) m z : sortedZ m -> rd_lookup z (rd_insert k v m) = if (z =? k)%Z then Some v else rd_lookup z m.
Proof.
  induction m as [|[k' v'] r IH]; intro H; cbn [rd_insert rd_lookup]; [reflexivity|].
  destruct H as [H1 H2]. destruct (k <? k')%Z eqn:E1; [reflexivity|]. destruct (k =? k')%Z eqn:E2.
  - apply Z.eqb_eq in E2. subst k'. cbn [rd_lookup]. destruct (z =? k)%Z; reflexivity.
  - cbn [rd_lookup]. rewrite (IH H2). apply Z.eqb_neq in E2. destruct (z =? k')%Z eqn:E3; [|reflexivity].
    apply Z.eqb_eq in E3. subst z. replace (k' =? k)%Z with false by (symmetry; apply Z.eqb_neq; lia). reflexivity.
Qed.
(** the last entry with index z *)
Fixpoint last_entry (z : Z) (es : list entry) (acc : option (nat * list str)) : option (nat * list str) :=
  match es with [] => acc | e :: r => last_entry z r (if (z =? fst e)%Z then Some (snd e) else acc) end.
Lemma ins_all_sorted es : forall d, sortedZ d -> sortedZ (ins_all es d) /\ forall z, rd_lookup z (ins_all es d) = last_entry z es (rd_lookup z d).
Proof.
  induction es as [|e es IH]; intros d Hd; cbn [ins_all fold_left last_entry]; [split; [exact Hd|reflexivity]|].
  fold (ins_all es (rd_insert (fst e) (snd e) d)).
  destruct (IH _ (rd_insert_sorted (fst e) (snd e) d Hd)) as [I1 I2]. split; [exact I1|]. intro z. rewrite I2, (rd_lookup_insert _ _ _ _ Hd). reflexivity.
Qed.
(** table_rows_keys, sorted-dictionary form: one row per distinct printed index, in index order, each the LAST printed copy *)
Theorem sorted_dict es : sortedZ (ins_all es []) /\ forall z, rd_lookup z (ins_all es []) = last_entry z es None.
Proof. exact (ins_all_sorted es [] I). Qed.

(** ** reading *)
Definition line_row (T : ltable) (l : str) : option nat :=
  match key_from_line l (lt_keypos T) with Ok k => row_of T k | Raise _ => None end.
(** the data after the printed lines have been assigned one after the other *)
Fixpoint upd (T : ltable) (ls : list str) (d : list (list pyval)) : list (list pyval) :=
  match ls with
  | [] => d
  | l :: r => upd T r (match line_row T l with Some i => set_nth i (decode_line T l) d | None => d end)
  end.
Lemma set_nth_length {A} i (v : A) l : length (set_nth i v l) = length l.
Proof. revert i; induction l as [|x l IH]; intros [|i]; cbn [set_nth length]; try reflexivity. rewrite IH. reflexivity. Qed.
Lemma upd_length T ls : forall d, length (upd T ls d) = length d.
Proof. induction ls as [|l ls IH]; intro d; cbn [upd]; [reflexivity|]. rewrite IH. destruct (line_row T l); [apply set_nth_length|reflexivity]. Qed.
Lemma decode_line_with_data T d l : decode_line (with_data T d) l = decode_line T l.
Proof. reflexivity. Qed.
Lemma line_row_with_data T d l : line_row (with_data T d) l = line_row T l.
Proof. reflexivity. Qed.
Lemma upd_with_data T d0 ls : forall d, upd (with_data T d0) ls d = upd T ls d.
Proof. induction ls as [|l ls IH]; intro d; cbn [upd]; [reflexivity|]. rewrite IH. reflexivity. Qed.
Lemma assign_lines_gen ls : forall T, 1 <= length (lt_values T) <= S (length (lt_cols T)) ->
  Forall (fun l => exists i, line_row T l = Some i /\ i < length (lt_data T)) ls ->
  assign_lines T ls = Ok (with_data T (upd T ls (lt_data T))).
Proof.
  induction ls as [|l ls IH]; intros T HV H; cbn [assign_lines upd]; [rewrite with_data_same; reflexivity|].
  inversion H as [|? ? [i [Hi Hlt]] H']; subst. unfold line_row in Hi. destruct (key_from_line l (lt_keypos T)) as [k|] eqn:Ek; [|discriminate].
  cbn [bind]. unfold assign_key. rewrite Hi. unfold assign_row.
  assert (LV : length (decode_line T l) = length (lt_cols T)).
  { unfold decode_line, read_table_line_TOUGH2. rewrite app_length, map_length, combine_length, repeat_length.
    destruct (lt_values T) as [|v vs]; cbn [tl length] in *; lia. }
  rewrite LV, Nat.eqb_refl. cbn [negb]. replace (length (lt_data T) <=? i)%nat with false by (symmetry; apply Nat.leb_gt; exact Hlt). cbn [bind].
  rewrite (IH (with_data T (set_nth i (decode_line T l) (lt_data T)))).
  - rewrite with_data_idem. cbn [with_data lt_data]. rewrite upd_with_data. unfold line_row. rewrite Ek, Hi. reflexivity.
  - exact HV.
  - cbn [with_data lt_data]. rewrite set_nth_length. eapply Forall_impl; [|exact H']. intros x [j [Hj Hjl]]. exists j. split; [exact Hj|exact Hjl].
Qed.
(** the last printed line that is assigned to row j *)
Fixpoint last_line (T : ltable) (j : nat) (ls : list str) : option str :=
  match ls with
  | [] => None
  | l :: r => match last_line T j r with
              | Some x => Some x
              | None => match line_row T l with Some i => if (i =? j)%nat then Some l else None | None => None end
              end
  end.
Lemma nth_set_nth {A} (dflt v : A) l : forall i j, i < length l -> nth j (set_nth i v l) dflt = if (i =? j)%nat then v else nth j l dflt.
Proof.
  induction l as [|x l IH]; intros [|i] [|j] H; cbn [set_nth nth length Nat.eqb] in *; try lia; try reflexivity.
  apply IH. lia.
Qed.
Lemma upd_nth T ls : forall d j, Forall (fun l => forall i, line_row T l = Some i -> i < length d) ls ->
  nth j (upd T ls d) [] = match last_line T j ls with Some l => decode_line T l | None => nth j d [] end.
Proof.
  induction ls as [|l ls IH]; intros d j H; cbn [upd last_line]; [reflexivity|].
  inversion H as [|? ? Hl H']; subst. destruct (line_row T l) as [i|] eqn:Ei.
  - rewrite IH by (eapply Forall_impl; [|exact H']; intros x Hx i0 Hi0; rewrite set_nth_length; apply Hx; exact Hi0).
    destruct (last_line T j ls); [reflexivity|]. rewrite (nth_set_nth [] _ d i j (Hl i eq_refl)). destruct (i =? j)%nat; reflexivity.
  - rewrite IH by exact H'. destruct (last_line T j ls); reflexivity.
Qed.
(** every row has a printed line: the data after reading is the last copies, whatever was there before *)
Definition covered (T : ltable) (ls : list str) : Prop := forall j, j < length (lt_rows T) -> last_line T j ls <> None.
Definition lines_in (T : ltable) (ls : list str) : Prop := Forall (fun l => exists i, line_row T l = Some i /\ i < length (lt_rows T)) ls.
Definition newdata (T : ltable) (ls : list str) : list (list pyval) := upd T ls (repeat [] (length (lt_rows T))).
Lemma upd_indep T ls d1 d2 : lines_in T ls -> covered T ls -> length d1 = length (lt_rows T) -> length d2 = length (lt_rows T) ->
  upd T ls d1 = upd T ls d2.
Proof.
  intros Hin Hcov H1 H2. apply (nth_ext _ _ [] []); [rewrite !upd_length; congruence|].
  intros j Hj. rewrite upd_length in Hj.
  rewrite !upd_nth.
  - specialize (Hcov j ltac:(lia)). destruct (last_line T j ls); [reflexivity|congruence].
  - eapply Forall_impl; [|exact Hin]. intros x [i [Hi Hl]] i0 Hi0. rewrite Hi in Hi0. inversion Hi0; subst. lia.
  - eapply Forall_impl; [|exact Hin]. intros x [i [Hi Hl]] i0 Hi0. rewrite Hi in Hi0. inversion Hi0; subst. lia.
Qed.
Theorem newdata_last_copy T ls j : lines_in T ls -> j < length (lt_rows T) ->
  nth j (newdata T ls) [] = match last_line T j ls with Some l => decode_line T l | None => [] end.
Proof.
  intros Hin Hj. unfold newdata. rewrite upd_nth.
  - destruct (last_line T j ls); [reflexivity|]. apply nth_repeat.
  - eapply Forall_impl; [|exact Hin]. intros x [i [Hi Hl]] i0 Hi0. rewrite Hi in Hi0. inversion Hi0; subst. rewrite repeat_length. exact Hl.
Qed.

(** a table printed like the structure expects, rows in any order and possibly repeated *)
Record tlaterG (T : ltable) (u : ptable) : Prop := {
  tg_hskip : S (length (p_fill u)) = lt_hskip T;
  tg_skips : gap_lengths (p_more u) ++ [length (p_eb u)] = lt_skips T;
  tg_in : lines_in T (p_rows u);
  tg_cov : covered T (p_rows u)
}.
Theorem read_last_copy T u d : 1 <= length (lt_values T) <= S (length (lt_cols T)) -> tlaterG T u -> length d = length (lt_rows T) ->
  read_ok u (with_data T d) (with_data T (newdata T (p_rows u))).
Proof.
  intros Hv [H1 H2 H3 H4] Hd r.
  rewrite (read_table_lines (with_data T d) u H1 H2 r).
  rewrite (assign_lines_gen (p_rows u) (with_data T d)).
  - cbn [bind]. rewrite with_data_idem. cbn [with_data lt_data]. rewrite upd_with_data.
    rewrite (upd_indep T (p_rows u) d (repeat [] (length (lt_rows T))) H3 H4 Hd (repeat_length _ _)). reflexivity.
  - exact Hv.
  - cbn [with_data lt_data]. rewrite Hd. exact H3.
Qed.
