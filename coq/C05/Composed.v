(** C05 -- the line-level layout theorem composed with the file-level theorems: in a listing of a proved class, if the line
    the reader infers a table's layout from (the longest row line of the first result time) is a rendered row that meets the
    side condition of [inferred_layout_is_true_layout], then every row of that table printed in the same fields, at every
    result time and under every skipped subset, reads cell by cell as fortran_float of the printed cell text. *)
From Coq Require Import Ascii String List Bool Arith ZArith NArith Lia.
From PTBase Require Import Exn PyStr PyNum PyVal.
From PTModel Require Import Fortran.
From P Require Import Model Table Reader Layout Cells TableT2 SetT2 FileT2 CodecT2 CheckT2 LoopG FileG FileTP CodecTP.
Import ListNotations.
Open Scope char_scope.

Lemma field_ends_ends_w fs : forall e, field_ends e fs = ends_w e (map fw fs).
Proof. induction fs as [|f fs IH]; intro e; cbn [field_ends ends_w map]; [reflexivity|]. rewrite IH. reflexivity. Qed.
(** the layout stored in the structure is the true layout of the fields of the longest line *)
Lemma layout_values s title t0 P pre0 fs s0 : tshape s title t0 P -> tp_i0 P = false -> tp_longest P = render_row pre0 fs ->
  no "." pre0 -> fs <> [] -> Forall fits fs -> Forall fclean fs -> seps_ok fs -> tp_start P = Z.of_nat s0 ->
  lt_values (table_of P t0) = Z.of_nat s0 :: map Z.of_nat (ends_w (length pre0) (map fw fs)).
Proof.
  intros H Hi Hl Hp Hne Hf Hc Hs Hst. pose proof (ts_numpos _ _ _ _ H) as Hn. rewrite Hi, Hl, Hst in Hn.
  rewrite (layout_theorem pre0 fs (Z.of_nat s0) Hp Hne Hf Hc Hs) in Hn. inversion Hn as [Hn']. unfold table_of, new_table. cbn [lt_values].
  rewrite <- Hn', <- field_ends_ends_w. reflexivity.
Qed.

Theorem cells_from_inferred_layout s (Hs : sim_eqb s TPLUS = false) (Ha : sim_eqb s AUT = false) title x0 more Ts :
  file_ok s title x0 more Ts -> forall skip k x j u t0 P r l pre0 fs pre cs tl s0,
  nth_error (x0 :: more) k = Some x -> nth_error (set_tables x) j = Some u -> nth_error Ts j = Some (table_of P t0) ->
  in_names (p_name u) skip = false ->
  (* the first-time table and the line its layout is inferred from *)
  tshape s title t0 P -> tp_i0 P = false -> tp_longest P = render_row pre0 fs ->
  no "." pre0 -> fs <> [] -> Forall fits fs -> Forall fclean fs -> seps_ok fs -> tp_start P = Z.of_nat s0 ->
  (* a row of result set k printed in the same fields *)
  nth_error (p_rows u) r = Some l -> l = pre ++ cbody cs ++ tl -> length pre = length pre0 ->
  map fst cs = firstn (length cs) (map fw fs) -> Forall cfits cs -> length pre <= s0 -> s0 <= length pre + first_lead cs ->
  (length cs = length fs \/ blank_str tl) ->
  exists T', (do st <- open_listing s skip (file_from (x0 :: more)); set_index st (Z.of_nat k)) = Ok (state_at s title x0 more Ts skip k x)
          /\ tab_get (p_name u) (s_tables (state_at s title x0 more Ts skip k x)) = Some T'
          /\ nth_error (lt_data T') r = Some (map (fun c => fortran_float (snd c) zero) cs
                                               ++ repeat zero (length fs - length cs) ++ repeat zero (length (tp_cols P) - length fs)).
Proof.
  intros OK skip k x j u t0 P r l pre0 fs pre cs tl s0 Hk Hu HT Hn Hsh Hi Hl Hp Hne Hf Hc Hsep Hst Hr El Elen Hw Hcf L1 L2 Ht.
  pose proof (layout_values s title t0 P pre0 fs s0 Hsh Hi Hl Hp Hne Hf Hc Hsep Hst) as Hv. rewrite <- Elen in Hv.
  destruct (cells_are_printed_numbers s title x0 more Ts OK skip k x j u (table_of P t0) r l pre cs tl (map fw fs) s0 Hk Hu HT Hn Hr El Hv Hw Hcf L1 L2)
    as [T' [H1 [H2 H3]]]; [rewrite map_length; exact Ht|].
  exists T'. split; [|split; [exact H1|]].
  - pose proof (listing_codec s Hs Ha title x0 more Ts OK skip [] k x (Z.of_nat k) Hk (or_introl eq_refl) (Forall_nil _)) as Hc2.
    cbn [app moves] in Hc2. destruct (open_listing s skip (file_from (x0 :: more))) as [st0|]; [|discriminate]. cbn [bind] in *.
    destruct (set_index st0 (Z.of_nat k)); [exact Hc2|discriminate].
  - rewrite map_length in H3. exact H3.
Qed.

Theorem toughplus_cells_from_inferred_layout title x0 more Ts :
  tp_ok title x0 more Ts -> forall skip k x j u t0 P r l pre0 fs pre cs tl s0,
  nth_error (x0 :: more) k = Some x -> nth_error (set_tables x) j = Some u -> nth_error Ts j = Some (table_of P t0) ->
  in_names (p_name u) skip = false ->
  tshape TPLUS title t0 P -> tp_i0 P = false -> tp_longest P = render_row pre0 fs ->
  no "." pre0 -> fs <> [] -> Forall fits fs -> Forall fclean fs -> seps_ok fs -> tp_start P = Z.of_nat s0 ->
  nth_error (p_rows u) r = Some l -> l = pre ++ cbody cs ++ tl -> length pre = length pre0 ->
  map fst cs = firstn (length cs) (map fw fs) -> Forall cfits cs -> length pre <= s0 -> s0 <= length pre + first_lead cs ->
  (length cs = length fs \/ blank_str tl) ->
  exists T', tab_get (p_name u) (s_tables (state_at TPLUS title x0 more Ts skip k x)) = Some T'
          /\ nth_error (lt_data T') r = Some (map (fun c => fortran_float (snd c) zero) cs
                                               ++ repeat zero (length fs - length cs) ++ repeat zero (length (tp_cols P) - length fs)).
Proof.
  intros OK skip k x j u t0 P r l pre0 fs pre cs tl s0 Hk Hu HT Hn Hsh Hi Hl Hp Hne Hf Hc Hsep Hst Hr El Elen Hw Hcf L1 L2 Ht.
  pose proof (layout_values TPLUS title t0 P pre0 fs s0 Hsh Hi Hl Hp Hne Hf Hc Hsep Hst) as Hv. rewrite <- Elen in Hv.
  destruct (tp_cells_are_printed_numbers title x0 more Ts OK skip k x j u (table_of P t0) r l pre cs tl (map fw fs) s0 Hk Hu HT Hn Hr El Hv Hw Hcf L1 L2)
    as [T' [H1 [H2 H3]]]; [rewrite map_length; exact Ht|].
  exists T'. split; [exact H1|]. rewrite map_length in H3. exact H3.
Qed.
