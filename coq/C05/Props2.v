(** C05 -- property theorems, FILE level (TOUGH2 family: TOUGH2, TOUGH3, TOUGHREACT; TOUGH2-MP files are
    outside the proved shape).  Each is closed by [exact] of a lemma proved in Cells.v / TableT2.v / SetT2.v /
    FileT2.v / CodecT2.v / CheckT2.v / Witness2.v and followed by Print Assumptions.  All statements are about the
    executable model coq/C05/Reader.v of the whole reader, which is run against the real t2listing on every
    shipped listing (all simulators), every result time and skipped subsets on every run. *)
From Coq Require Import Ascii String List Bool Arith ZArith NArith.
From PTBase Require Import Exn PyStr PyNum PyVal.
From PTModel Require Import Fortran.
From P Require Import Model Table Reader Cells TableT2 SetT2 FileT2 CodecT2 CheckT2 Witness2.
Import ListNotations.
Open Scope char_scope.

(** cells_decode for a printed row followed by a tail (line end, trailing blanks): a row with a cell for every
    field of the layout, or a short row whose tail is white space *)
Theorem cells_decode_with_tail : forall pre cs ws s0 ncols t,
  map fst cs = firstn (length cs) ws -> Forall cfits cs ->
  length pre <= s0 -> s0 <= length pre + first_lead cs -> (length cs = length ws \/ blank_str t) ->
  read_table_line_TOUGH2 (pre ++ cbody cs ++ t) ncols (Z.of_nat s0 :: map Z.of_nat (ends_w (length pre) ws))
  = map (fun c => fortran_float (snd c) zero) cs ++ repeat zero (length ws - length cs) ++ repeat zero (ncols - length ws).
Proof. exact cells_decode_tail_thm. Qed.
Print Assumptions cells_decode_with_tail.

(** setup_table_TOUGH2 on a printed table (header, fill lines, rows separated by gaps -- nothing, a blank line, a
    repeated header with its fill lines, with or without a blank line before it -- and an ending): header_skiplines,
    skiplines = the gap lengths, one dictionary entry per printed row, the layout from the longest line, and the
    file position left at the separator.  Any number of rows and gaps. *)
Theorem setup_table_on_printed_table : forall s title tablename hdr fill row0 more e r nkeys cols expected i0 st keypos lastk dict longest numpos,
  parse_header_T2 s hdr = Ok (nkeys, cols) -> expected_floats tablename cols = Ok expected -> col0_is_I cols = Ok i0 ->
  Forall (not_results expected) fill -> is_results_line (fstrip row0) expected = true ->
  start_of_values row0 i0 = Ok (Some st) ->
  key_positions (pyslice None (Some st) row0) nkeys = Ok (Some keypos) -> keypos <> [] -> last_z keypos = Ok lastk ->
  gaps_ok cols title expected None more = true -> end_check cols title e = true ->
  spec_rows keypos (lastk + 5)%Z (Some st) row0 0 (-1)%Z [] row0 more = Ok (dict, longest) ->
  parse_table_line longest st i0 = Some numpos ->
  setup_table_T2 s title tablename (hdr :: fill ++ row0 :: more_lines more ++ e ++ r)
  = Ok (new_table cols (map (fun x => snd (snd x)) dict) nkeys keypos numpos (map (fun x => fst (snd x)) dict) (S (length fill))
                  (gap_lengths more ++ [end_skip e]), end_rest e ++ r).
Proof. exact setup_table_spec. Qed.
Print Assumptions setup_table_on_printed_table.

(** table_rows_keys: with strictly increasing printed indices the table has one row per printed row, keyed by the names
    printed at the key columns (normalised by fix_blockname), in printed order; row_line counts the lines from the first row *)
Theorem table_rows_keys : forall s title t P, tshape s title t P ->
  Forall2 (fun l k => key_from_line l (tp_keypos P) = Ok k) (p_rows t) (lt_rows (table_of P t))
  /\ lt_rowline (table_of P t) = row_offsets 0 (p_more t)
  /\ length (lt_rows (table_of P t)) = length (p_rows t).
Proof. exact table_rows_keys_thm. Qed.
Print Assumptions table_rows_keys.

(** the structure is what setup_table_TOUGH2 returns on the printed table, whatever follows it in the file *)
Theorem setup_table_gives_structure : forall s title t P, tshape s title t P -> setup_ok s title t (table_of P t).
Proof. exact tshape_setup. Qed.
Print Assumptions setup_table_gives_structure.

(** read_table_TOUGH2 on a table of the same shape (same number of fill lines, rows, gap lengths; same row names):
    the data of the table becomes, row by row, what read_table_line_TOUGH2 makes of the printed rows -- whatever the
    table held before *)
Theorem read_table_replaces_every_row : forall T u d, struct_ok T -> tlater T u -> length d = length (lt_rows T) ->
  read_ok u (with_data T d) (with_data T (map (decode_line T) (p_rows u))).
Proof. exact tlater_read. Qed.
Print Assumptions read_table_replaces_every_row.

(** setup_pos_TOUGH2 finds exactly the positions of the result sets, for any number of result sets *)
Theorem setup_pos_finds_every_result_set : forall s, sim_eqb s TPLUS = false ->
  forall sets fuel z, Forall set_ok sets -> length sets < fuel -> Forall not_oda z ->
  setup_pos_T2 fuel s (z ++ file_from sets) = Ok (positions sets).
Proof. exact setup_pos_spec. Qed.
Print Assumptions setup_pos_finds_every_result_set.

(** t2listing(file, skip_tables) opens a well-formed listing, for every subset of skipped tables *)
Theorem listing_opens : forall s, sim_eqb s TPLUS = false -> sim_eqb s AUT = false ->
  forall title x0 more Ts, file_ok s title x0 more Ts -> forall skip,
  open_listing s skip (file_from (x0 :: more)) = Ok (state_at s title x0 more Ts skip 0 x0).
Proof. exact open_spec. Qed.
Print Assumptions listing_opens.

(** the whole-file codec law: open with any skipped subset, move to any result sets any number of times (positive or
    negative indices), finally to result set k: the state depends on nothing but k and the skipped subset *)
Theorem listing_codec_law : forall s, sim_eqb s TPLUS = false -> sim_eqb s AUT = false ->
  forall title x0 more Ts, file_ok s title x0 more Ts -> forall skip l k x i,
  nth_error (x0 :: more) k = Some x -> addresses x0 more i k ->
  Forall (fun j => exists kj, kj < length (x0 :: more) /\ addresses x0 more j kj) l ->
  (do st <- open_listing s skip (file_from (x0 :: more)); moves st (l ++ [i])) = Ok (state_at s title x0 more Ts skip k x).
Proof. exact listing_codec. Qed.
Print Assumptions listing_codec_law.

(** ... and in that state table j of result set k (when it is not skipped) has the structure set up from the first
    result set and, row by row, the printed rows of result set k *)
Theorem listing_table_contents : forall s title x0 more Ts, file_ok s title x0 more Ts -> forall skip k x j u T,
  nth_error (x0 :: more) k = Some x -> nth_error (set_tables x) j = Some u -> nth_error Ts j = Some T ->
  in_names (p_name u) skip = false ->
  tab_get (p_name u) (s_tables (state_at s title x0 more Ts skip k x)) = Some (with_data T (map (decode_line T) (p_rows u))).
Proof. exact table_contents. Qed.
Print Assumptions listing_table_contents.

(** each cell equals the number printed in that row and column (blank trailing cells read as zero) *)
Theorem listing_cells_are_printed_numbers : forall s title x0 more Ts, file_ok s title x0 more Ts ->
  forall skip k x j u T r l pre cs t ws s0,
  nth_error (x0 :: more) k = Some x -> nth_error (set_tables x) j = Some u -> nth_error Ts j = Some T -> in_names (p_name u) skip = false ->
  nth_error (p_rows u) r = Some l -> l = pre ++ cbody cs ++ t ->
  lt_values T = Z.of_nat s0 :: map Z.of_nat (ends_w (length pre) ws) ->
  map fst cs = firstn (length cs) ws -> Forall cfits cs -> length pre <= s0 -> s0 <= length pre + first_lead cs ->
  (length cs = length ws \/ blank_str t) ->
  exists T', tab_get (p_name u) (s_tables (state_at s title x0 more Ts skip k x)) = Some T'
          /\ lt_rows T' = lt_rows T
          /\ nth_error (lt_data T') r = Some (map (fun c => fortran_float (snd c) zero) cs
                                               ++ repeat zero (length ws - length cs) ++ repeat zero (length (lt_cols T) - length ws)).
Proof. exact cells_are_printed_numbers. Qed.
Print Assumptions listing_cells_are_printed_numbers.

(** skip_tables_independent: two runs with different skipped subsets and different moves that end at the same result
    set expose the same table (rows and cells) for every table skipped in neither *)
Theorem skip_tables_independent : forall s, sim_eqb s TPLUS = false -> sim_eqb s AUT = false ->
  forall title x0 more Ts, file_ok s title x0 more Ts -> forall skip1 skip2 l1 l2 i1 i2 k x n,
  nth_error (x0 :: more) k = Some x -> addresses x0 more i1 k -> addresses x0 more i2 k ->
  Forall (fun j => exists kj, kj < length (x0 :: more) /\ addresses x0 more j kj) l1 ->
  Forall (fun j => exists kj, kj < length (x0 :: more) /\ addresses x0 more j kj) l2 ->
  in_names n skip1 = false -> in_names n skip2 = false ->
  exists st1 st2, (do st <- open_listing s skip1 (file_from (x0 :: more)); moves st (l1 ++ [i1])) = Ok st1
               /\ (do st <- open_listing s skip2 (file_from (x0 :: more)); moves st (l2 ++ [i2])) = Ok st2
               /\ tab_get n (s_tables st1) = tab_get n (s_tables st2).
Proof. exact skip_tables_independent_thm. Qed.
Print Assumptions skip_tables_independent.

(** the hypotheses are decidable: the executable checker is sound (it is run on the abstraction of every shipped listing) *)
Theorem file_check_is_sound : forall s x0 more title Ts, file_check s (x0 :: more) = Some (title, Ts) -> file_ok s title x0 more Ts.
Proof. exact file_check_sound. Qed.
Print Assumptions file_check_is_sound.

(** ... and satisfiable: a two-result-set listing with a page break, a no-letter exponent and abutting fields *)
Theorem demo_listing_in_class : exists title Ts, file_ok T2 title demo_set0 [demo_set1] Ts.
Proof. exact demo_in_class. Qed.
Print Assumptions demo_listing_in_class.
