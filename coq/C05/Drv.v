(** C05 -- extraction of the executable model for the correspondence run.
    One case per line, TAB separated, strings hex-encoded (PTBase.Wire):
      sov <line> <I>                 start_of_values
      ptl <line> <start> <I>         parse_table_line
      rt2 <line> <ncols> <v0,v1,..>  read_table_line_TOUGH2
      ra2 <line> <start>             read_table_line_AUTOUGH2
      kfl <line> <k0,k1,..>          key_from_line
      tok <line> <I>                 row_tokens (the specification; tied to the Python oracle tokenizer)
      adr <cols> <rows> <rev> <key>  listingtable.__getitem__ (Table.v): cols = hex names ','-separated; rows = row keys ','-separated,
                                     each key its hex names joined by '.', a leading 't' marks a tuple; cell (i,j) = 1000*i + j + 1;
                                     key = 'i'<int> | 's'<hex> | 't'<hex.hex..>
      demo -|A|P                     the lines of the demonstration listing of Witness2.v (A: the AUTOUGH2 one of Witness3.v, P: the TOUGH+ one of
                                     Witness4.v), so that the
                                     real reader can be run on the very text the Coq examples are about
      achk - <tags> <line> <line> ...   the same for an AUTOUGH2 listing (afile sets = the lines, CheckAUT.afile_check = Some _)
      fchk <sim> <tags> <line> <line> ...
                                     the listing abstracted into result sets / tables (one role tag per line, assigned by
                                     an independent scan): is it a rendered listing to which the whole-file theorem applies?
                                     (file_from sets = the lines, and CheckT2.file_check = Some _, or CodecTP.tp_check for TOUGH+, or else
                                     the general class CodecG2.g2_check = Some _: rows in any order, extra tables)
      file <sim> <skip,skip> <i,i,..> <line> <line> ...
                                     open_listing (file-level reader, Reader.v) followed by set_index for each i:
                                     table structures, and at each index the index/time/step and every cell *)
From Coq Require Import Ascii String List Bool ZArith NArith.
From PTBase Require Import Exn PyStr PyNum PyVal Wire.
From PTModel Require Import Fortran.
From P Require Import Model Table Reader TableT2 SetT2 FileT2 CodecT2 CheckT2 Witness2 TableAUT FileAUT CheckAUT Witness3 LoopG FileG FileTP CodecTP TableG CodecG2 Witness4.
Import ListNotations.
Open Scope char_scope.

Definition comma : str := [","].
Fixpoint join_with (sep : str) (l : list str) : str :=
  match l with [] => [] | [a] => a | a :: r => a ++ sep ++ join_with sep r end.
Definition zlist (s : str) : list Z := match s with [] => [] | _ => map z_of_str (split_c "," s) end.
Definition flag (s : str) : bool := str_eqb s (s2l "1").
Definition show_vals (l : list pyval) : str := join_with (s2l ";") (map show_pyval l).

(** *** file-level cases: the answer is assembled from small pieces with tail-recursive appends *)
(** the case line is long (a whole listing): split and decode it in linear time.  [split_fast] is PTBase's
    [split_c] with a linear reversal; [unhex_fast] is Wire's [unhex] on well-formed hexadecimal text. *)
Fixpoint split_fast_aux (ch : ascii) (cur : str) (s : str) (acc : list str) : list str :=
  match s with
  | [] => rev_append acc [rev_append cur []]
  | c :: r => if ceqb c ch then split_fast_aux ch [] r (rev_append cur [] :: acc) else split_fast_aux ch (c :: cur) r acc
  end.
Definition split_fast (ch : ascii) (s : str) : list str := split_fast_aux ch [] s [].
Definition hexbits (c : ascii) : bool * bool * bool * bool :=      (* least significant first *)
  match c with
  | "0" => (false, false, false, false) | "1" => (true, false, false, false) | "2" => (false, true, false, false)
  | "3" => (true, true, false, false) | "4" => (false, false, true, false) | "5" => (true, false, true, false)
  | "6" => (false, true, true, false) | "7" => (true, true, true, false) | "8" => (false, false, false, true)
  | "9" => (true, false, false, true) | "a" | "A" => (false, true, false, true) | "b" | "B" => (true, true, false, true)
  | "c" | "C" => (false, false, true, true) | "d" | "D" => (true, false, true, true) | "e" | "E" => (false, true, true, true)
  | "f" | "F" => (true, true, true, true) | _ => (false, false, false, false)
  end.
Fixpoint unhex_fast_aux (s : str) (acc : str) : str :=
  match s with
  | a :: b :: r => let '(a0, a1, a2, a3) := hexbits a in let '(b0, b1, b2, b3) := hexbits b in
                   unhex_fast_aux r (Ascii b0 b1 b2 b3 a0 a1 a2 a3 :: acc)
  | _ => rev_append acc []
  end.
Definition unhex_fast (s : str) : str := unhex_fast_aux s [].
Definition flatten (l : list str) : str := rev_append (fold_left (fun acc s => rev_append s acc) l []) [].
Definition sep_list {A} (sep : A) (l : list A) : list A :=
  match l with [] => [] | a :: r => a :: concat (map (fun x => [sep; x]) r) end.
Definition tabc : str := [tab].
Definition show_zs (l : list Z) : list str := sep_list comma (map show_z l).
Definition show_nats (l : list nat) : list str := sep_list comma (map show_nat l).
Definition show_names (k : list str) : list str := sep_list (s2l ".") (map hex k).
Definition show_table (nt : str * ltable) : list str :=
  let (n, T) := nt in
  [s2l "|T"; tabc; hex n; tabc; show_nat (lt_nkeys T); tabc] ++ sep_list comma (map hex (lt_cols T)) ++ [tabc]
  ++ show_zs (lt_keypos T) ++ [tabc] ++ show_zs (lt_values T) ++ [tabc; show_nat (lt_hskip T); tabc]
  ++ show_nats (lt_skips T) ++ [tabc] ++ show_nats (lt_rowline T) ++ [tabc]
  ++ concat (sep_list [comma] (map show_names (lt_rows T))).
Definition show_data (nt : str * ltable) : list str :=
  let (n, T) := nt in
  [s2l "|D"; tabc; hex n; tabc]
  ++ concat (sep_list [s2l "/"] (map (fun r => sep_list (s2l ";") (map show_pyval r)) (lt_data T))).
Definition show_at (i : Z) (r : res lstate) : list str :=
  match r with
  | Raise e => [s2l "|I"; tabc; show_z i; tabc; s2l "RAISE "; show_exn e]
  | Ok st => [s2l "|I"; tabc; show_z i; tabc; show_z (s_index st); tabc; show_pyval (s_time st); tabc; show_pyval (s_step st)]
             ++ concat (map show_data (s_tables st))
  end.
(** indices are visited in the order given, each from the state the previous one left (as the reader does) *)
Fixpoint visit (st : lstate) (idx : list Z) : list str :=
  match idx with
  | [] => []
  | i :: r => let s' := set_index st i in
              show_at i s' ++ visit (match s' with Ok x => x | Raise _ => st end) r
  end.
Definition parse_sim (s : str) : sim :=
  if str_eqb s (s2l "AUTOUGH2") then AUT else if str_eqb s (s2l "TOUGH2_MP") then T2MP else if str_eqb s (s2l "TOUGH3") then T3
  else if str_eqb s (s2l "TOUGHREACT") then TREACT else if str_eqb s (s2l "TOUGH+") then TPLUS else T2.
Definition run_file (sm skips idx : str) (lines : list str) : str :=
  let file := map unhex_fast lines in
  match open_listing (parse_sim sm) (match skips with [] => [] | _ => map unhex (split_c "," skips) end) file with
  | Raise e => s2l "RAISE " ++ show_exn e
  | Ok st =>
      flatten ([s2l "OK|N"; tabc; show_nat (length file); tabc] ++ show_nats (map (@length str) (s_fullpos st))
               ++ [s2l "|H"; tabc; hex (s_title st)]
               ++ concat (map show_table (s_tables st)) ++ show_at 0 (Ok st) ++ visit st (zlist idx))
  end.

(** *** abstraction of a tagged listing into result sets (unverified parser: its output is checked by
    [file_from sets = lines] and by the verified [file_check])
    tags: l lead, t time line, h header-block line, s set separator, b blank after it, y short line + blanks,
          E/C/P/G header line of the element/connection/primary/generation table, f fill, r row, g gap line,
          e blank before the table separator, z table separator, i line between tables, x tail *)
Definition tl_t := (ascii * str)%type.
Fixpoint span_tag (c : ascii) (l : list tl_t) : list str * list tl_t :=
  match l with
  | (d, x) :: r => if ceqb c d then let (a, b) := span_tag c r in (x :: a, b) else ([], l)
  | [] => ([], [])
  end.
Definition table_name (c : ascii) : option str :=
  if ceqb c "E" then Some (s2l "element") else if ceqb c "C" then Some (s2l "connection")
  else if ceqb c "P" then Some (s2l "primary") else if ceqb c "G" then Some (s2l "generation")
  else if ceqb c "1" then Some (elem_n 1) else if ceqb c "2" then Some (elem_n 2) else if ceqb c "3" then Some (elem_n 3) else None.
Fixpoint parse_more (fuel : nat) (l : list tl_t) : list (list str * str) * list tl_t :=
  match fuel with
  | O => ([], l)
  | S f => let (g, l1) := span_tag "g" l in
           match l1 with
           | ("r", x) :: l2 => let (m, l3) := parse_more f l2 in ((g, x) :: m, l3)
           | _ => ([], l)
           end
  end.
Definition parse_table (l : list tl_t) : option (ptable * list tl_t) :=
  match l with
  | (c, hdr) :: l1 =>
      match table_name c with
      | Some nm =>
          let (fill, l2) := span_tag "f" l1 in
          match l2 with
          | ("r", row0) :: l3 =>
              let (more, l4) := parse_more (length l3) l3 in
              let (eb, l5) := span_tag "e" l4 in
              match l5 with
              | ("z", sp) :: l6 => Some ({| p_name := nm; p_hdr := hdr; p_fill := fill; p_row0 := row0; p_more := more; p_eb := eb; p_sep := sp |}, l6)
              | _ => None
              end
          | _ => None
          end
      | None => None
      end
  | [] => None
  end.
Fixpoint parse_rest (fuel : nat) (l : list tl_t) : list (list str * ptable) * list tl_t :=
  match fuel with
  | O => ([], l)
  | S f => let (inter, l1) := span_tag "i" l in
           match parse_table l1 with
           | Some (t, l2) => let (m, l3) := parse_rest f l2 in ((inter, t) :: m, l3)
           | None => ([], l)
           end
  end.
Definition parse_set (l : list tl_t) : option (pset * list tl_t) :=
  let (lead, l1) := span_tag "l" l in
  match l1 with
  | ("t", tm) :: l2 =>
      let (h1, l3) := span_tag "h" l2 in
      match l3 with
      | ("s", sp) :: l4 =>
          let (bl, l5a) := span_tag "b" l4 in
          let (xs, l5) := span_tag "y" l5a in
          match parse_table l5 with
          | Some (t0, l6) =>
              let (rest, l7) := parse_rest (length l6) l6 in
              let (tail, l8) := span_tag "x" l7 in
              Some ({| ps_lead := lead; ps_time := tm; ps_h1 := h1; ps_sep := sp; ps_bl := bl; ps_x := xs; ps_first := t0; ps_rest := rest; ps_tail := tail |}, l8)
          | None => None
          end
      | _ => None
      end
  | _ => None
  end.
Fixpoint parse_sets (fuel : nat) (l : list tl_t) : option (list pset) :=
  match l with
  | [] => Some []
  | _ => match fuel with
         | O => None
         | S f => match parse_set l with
                  | Some (x, l') => match parse_sets f l' with Some r => Some (x :: r) | None => None end
                  | None => None
                  end
         end
  end.
(** which hypothesis fails (diagnostics only) *)
Fixpoint find_false {A} (p : A -> bool) (l : list A) (i : nat) : option nat :=
  match l with [] => None | x :: r => if p x then find_false p r (S i) else Some i end.
Definition why_set (x : pset) : str :=
  if negb (lead_okb (ps_lead x)) then s2l "lead"
  else if negb (match split_ws (ps_time x) with _ :: _ :: _ => true | _ => false end) then s2l "time-line"
  else if negb (forallb (fun l => negb (starts_at 1 kw_at l)) (ps_h1 x)) then s2l "h1"
  else if negb (starts_at 1 kw_at (ps_sep x)) then s2l "sep"
  else if negb (forallb is_blank (ps_bl x)) then s2l "blanks"
  else if is_blank (p_hdr (ps_first x)) then s2l "blank-header"
  else if negb (extra_okb (ps_x x) (p_hdr (ps_first x))) then s2l "short-line"
  else if negb (skip_okb (ps_first x)) then s2l "first-table-separator"
  else if negb (forallb (fun l => negb (is_oda l)) (rest_lines (ps_rest x) (ps_tail x))) then s2l "output-data-after-line-inside"
  else if negb (forallb (fun l => negb (is_kcyc l)) (ps_lead x)) then s2l "kcyc-line-in-lead"
  else if negb (forallb (fun l => negb (is_kcyc l)) (ps_tail x)) then s2l "kcyc-line-in-tail"
  else s2l "?".
Definition why_out (sm : sim) (sets : list pset) : str :=
  match sets with
  | [] => s2l "no-result-set"
  | x0 :: more =>
      match find_false set_okb sets 0 with
      | Some k => s2l "set_ok " ++ show_nat k ++ s2l " " ++ why_set (nth k sets x0)
      | None =>
          match (if sim_eqb sm T2MP then Ok (read_title_MP (file_from sets)) else read_title_T2 (file_from sets)) with
          | Raise _ => s2l "title"
          | Ok title =>
              match find_false (fun t => match tshape_check sm title t with Some _ => true | None => false end) (set_tables x0) 0 with
              | Some j => s2l "table_shape " ++ show_nat j
              | None =>
                  match shapes sm title (set_tables x0) with
                  | None => s2l "shapes"
                  | Some Ts =>
                      match find_false struct_okb Ts 0 with
                      | Some j => s2l "struct " ++ show_nat j
                      | None =>
                          let names := map p_name (set_tables x0) in
                          if negb (nodupb str_eqb names) then s2l "names-repeat"
                          else if negb (str_eqb (p_name (ps_first x0)) n_element) then s2l "first-not-element"
                          else match find_false (like_okb names) sets 0 with
                               | Some k => s2l "set_like " ++ show_nat k
                               | None => match find_false (fun x => forall2b tlaterb Ts (set_tables x)) more 1 with
                                         | Some k => s2l "later_tables " ++ show_nat k
                                         | None => s2l "?"
                                         end
                               end
                      end
                  end
              end
          end
      end
  end.
Definition why_tp (sets : list pset) : str :=
  match sets with
  | [] => s2l "no-result-set"
  | x0 :: more =>
      match find_false set_okbP sets 0 with
      | Some k => s2l "set_ok " ++ show_nat k
      | None =>
          match read_title_T2 (file_from sets) with
          | Raise _ => s2l "title"
          | Ok title =>
              match find_false (fun t => match tshape_check TPLUS title t with Some _ => true | None => false end) (set_tables x0) 0 with
              | Some j => s2l "table_shape " ++ show_nat j
              | None =>
                  match shapes TPLUS title (set_tables x0) with
                  | None => s2l "shapes"
                  | Some Ts =>
                      match find_false struct_okb Ts 0 with
                      | Some j => s2l "struct " ++ show_nat j
                      | None =>
                          let names := map p_name (set_tables x0) in
                          if negb (nodupb str_eqb names) then s2l "names-repeat"
                          else if negb (str_eqb (p_name (ps_first x0)) n_element) then s2l "first-not-element"
                          else match find_false (tp_like_b names) sets 0 with
                               | Some k => s2l "set_like " ++ show_nat k
                               | None => match find_false (fun x => forall2b tlaterb Ts (set_tables x)) more 1 with
                                         | Some k => s2l "later_tables " ++ show_nat k
                                         | None => s2l "?"
                                         end
                               end
                      end
                  end
              end
          end
      end
  end.
Fixpoint lines_eqb (a b : list str) : bool :=
  match a, b with [], [] => true | x :: a', y :: b' => str_eqb x y && lines_eqb a' b' | _, _ => false end.
Definition why_g2 (sm : sim) (sets : list pset) : str :=
  match sets with
  | [] => s2l "no-result-set"
  | x0 :: more =>
      match find_false set_okb sets 0 with
      | Some k => s2l "set_ok " ++ show_nat k ++ s2l " " ++ why_set (nth k sets x0)
      | None =>
          match titleG sm (file_from sets) with
          | Raise _ => s2l "title"
          | Ok title =>
              match find_false (fun t => match tshape_checkG sm title t with Some _ => true | None => false end) (set_tables x0) 0 with
              | Some j => s2l "table_shape " ++ show_nat j
              | None =>
                  match shapesG sm title (set_tables x0) with
                  | None => s2l "shapes"
                  | Some Ts =>
                      let names := map p_name (set_tables x0) in
                      match find_false vals_okb Ts 0 with
                      | Some j => s2l "values " ++ show_nat j
                      | None => if negb (nodupb str_eqb names) then s2l "names-repeat"
                                else match find_false (g2_like_b names Ts) sets 0 with
                                     | Some k => s2l "set_like " ++ show_nat k
                                     | None => s2l "?"
                                     end
                      end
                  end
              end
          end
      end
  end.
Definition run_fchk (sm tags : str) (lines : list str) : str :=
  let file := map unhex_fast lines in
  match parse_sets (S (length file)) (combine tags file) with
  | None => s2l "OUT parse"
  | Some sets =>
      if negb (lines_eqb (file_from sets) file) then s2l "OUT render-differs"
      else match (if sim_eqb (parse_sim sm) TPLUS then tp_check sets else file_check (parse_sim sm) sets) with
           | Some (title, Ts) => flatten ([s2l "INCLASS sets="; show_nat (length sets); s2l " tables="; show_nat (length Ts); s2l " rows="]
                                          ++ show_nats (map (fun T => length (lt_rows T)) Ts))
           | None =>
               match (if sim_eqb (parse_sim sm) TPLUS || sim_eqb (parse_sim sm) AUT then None else g2_check (parse_sim sm) sets) with
               | Some (title, Ts) => flatten ([s2l "INCLASS sets="; show_nat (length sets); s2l " tables="; show_nat (length Ts); s2l " rows="]
                                              ++ show_nats (map (fun T => length (lt_rows T)) Ts) ++ [s2l " class=general"])
               | None => s2l "OUT " ++ (if sim_eqb (parse_sim sm) TPLUS then why_tp sets
                                        else why_out (parse_sim sm) sets ++ s2l "; general: " ++ why_g2 (parse_sim sm) sets)
               end
           end
  end.

(** *** AUTOUGH2: tags p lines before a result set, K the keyword line that starts it, h the three header lines of a table,
    k keyword line, c caption, b blank, H column header, B blank, r row, z closing keyword line, a the line after it,
    n the keyword line before the next table, x lines after the last table *)
Definition parse_atable (l : list tl_t) : option (atable * list tl_t) :=
  match l with
  | ("h", t1) :: ("h", t2) :: ("h", t3) :: ("k", k1) :: ("c", cap) :: ("b", b1) :: ("H", hdr) :: ("B", b2) :: ("r", row0) :: l1 =>
      let (more, l2) := span_tag "r" l1 in
      match l2, table_type_AUT (slice 1 6 k1) with
      | ("z", kend) :: ("a", aft) :: l3, Some nm =>
          Some ({| a_name := nm; a_t1 := t1; a_t2 := t2; a_t3 := t3; a_k1 := k1; a_cap := cap; a_b1 := b1; a_hdr := hdr; a_b2 := b2;
                   a_row0 := row0; a_more := more; a_kend := kend; a_after := aft |}, l3)
      | _, _ => None
      end
  | _ => None
  end.
Fixpoint parse_amore (fuel : nat) (l : list tl_t) : list (str * atable) * list tl_t :=
  match fuel with
  | O => ([], l)
  | S f => match l with
           | ("n", k) :: l1 => match parse_atable l1 with
                               | Some (t, l2) => let (m, l3) := parse_amore f l2 in ((k, t) :: m, l3)
                               | None => ([], l)
                               end
           | _ => ([], l)
           end
  end.
Definition parse_aset (l : list tl_t) : option (aset * list tl_t) :=
  let (pre, l1) := span_tag "p" l in
  match l1 with
  | ("K", kw) :: l2 =>
      match parse_atable l2 with
      | Some (t0, l3) =>
          let (more, l4) := parse_amore (length l3) l3 in
          let (post, l5) := span_tag "x" l4 in
          Some ({| s_pre := pre; s_kwl := kw; s_first := t0; s_more := more; s_post := post |}, l5)
      | None => None
      end
  | _ => None
  end.
Fixpoint parse_asets (fuel : nat) (l : list tl_t) : option (list aset) :=
  match l with
  | [] => Some []
  | _ => match fuel with
         | O => None
         | S f => match parse_aset l with
                  | Some (x, l') => match parse_asets f l' with Some r => Some (x :: r) | None => None end
                  | None => None
                  end
         end
  end.
Definition why_aout (sets : list aset) : str :=
  match sets with
  | [] => s2l "no-result-set"
  | x0 :: more =>
      match find_false aset_okb2 sets 0 with
      | Some k => s2l "aset_ok " ++ show_nat k
      | None =>
          if negb (scan_check sets) then s2l "stretch-between-result-sets-is-not-short-blocks"
          else if negb (stops_okb sets) then s2l "a-table-keyword-follows-the-last-table"
          else match find_false (fun t => match ashape_check t with Some _ => true | None => false end) (aset_tables x0) 0 with
               | Some j => s2l "table_shape " ++ show_nat j
               | None =>
                   match ashapes (aset_tables x0) with
                   | None => s2l "shapes"
                   | Some Ts =>
                       let names := map a_name (aset_tables x0) in
                       if negb (nodupb str_eqb names) then s2l "names-repeat"
                       else if negb (str_eqb (a_name (s_first x0)) n_element) then s2l "first-not-element"
                       else match find_false (alike_okb names Ts) sets 0 with
                            | Some k => s2l "set_like " ++ show_nat k
                            | None => s2l "?"
                            end
                   end
               end
      end
  end.
Definition run_achk (tags : str) (lines : list str) : str :=
  let file := map unhex_fast lines in
  match parse_asets (S (length file)) (combine tags file) with
  | None => s2l "OUT parse"
  | Some sets =>
      if negb (lines_eqb (afile sets) file) then s2l "OUT render-differs"
      else match afile_check sets with
           | Some Ts => flatten ([s2l "INCLASS sets="; show_nat (length sets); s2l " tables="; show_nat (length Ts); s2l " rows="]
                                 ++ show_nats (map (fun T => length (lt_rows T)) Ts))
           | None => s2l "OUT " ++ why_aout sets
           end
  end.

(** *** addressing: the model of listingtable.__getitem__ over integer cells *)
Definition parse_key (x : str) : pykey :=
  match x with
  | "t" :: r => KT (match r with [] => [] | _ => map unhex (split_c "." r) end)
  | "s" :: r => KS (unhex r)
  | _ => KS []
  end.
Definition show_key (k : pykey) : str := match k with KS x => "s" :: hex x | KT l => "t" :: join_with (s2l ".") (map hex l) end.
Definition show_rowdict (T : table Z) (r : rowdict Z) : str :=
  s2l "ROW " ++ show_key (rd_key Z r) ++ s2l " "
  ++ join_with comma (map (fun c => match rd_get Z r c with Some v => show_z v | None => s2l "?" end) (cols Z T)).
Definition run_adr (cs rs rv key : str) : str :=
  let colnames := match cs with [] => [] | _ => map unhex (split_c "," cs) end in
  let rownames := match rs with [] => [] | _ => map parse_key (split_c "," rs) end in
  let ncol := length colnames in
  let T := {| cols := colnames; rows := rownames; allow_rev := flag rv;
              data := map (fun i => map (fun j => (1000 * Z.of_nat i + Z.of_nat j + 1)%Z) (seq 0 ncol)) (seq 0 (length rownames)) |} in
  match key with
  | "i" :: n => let i := nat_of_str n in
                if (i <? length rownames)%nat then show_rowdict T (row_by_index Z 0%Z T i) else s2l "RAISE IndexError"
  | _ => match getitem Z Z.opp 0%Z T (parse_key key) with
         | RCol _ l => s2l "COL " ++ join_with comma (map show_z l)
         | RRow _ r => show_rowdict T r
         | RNone _ => s2l "NONE"
         end
  end.

Definition run_case (line : str) : str :=
  match (match line with "f" :: _ | "a" :: _ => split_fast tab line | _ => fields line end) with
  | k :: h :: args =>
      let s := unhex h in
      if str_eqb k (s2l "file") then
        match args with
        | sk :: idx :: lines => run_file h sk idx lines
        | _ => s2l "BADCASE" end
      else if str_eqb k (s2l "demo") then flatten (sep_list comma (map hex (if str_eqb h (s2l "A"%string) then ademo_file else if str_eqb h (s2l "P"%string) then tpdemo_file else demo_file)))
      else if str_eqb k (s2l "achk") then
        match args with
        | tags :: lines => run_achk tags lines
        | _ => s2l "BADCASE" end
      else if str_eqb k (s2l "fchk") then
        match args with
        | tags :: lines => run_fchk h tags lines
        | _ => s2l "BADCASE" end
      else if str_eqb k (s2l "sov") then
        match args with
        | [i] => match start_of_values s (flag i) with
                 | Ok (Some z) => s2l "Z " ++ show_z z
                 | Ok None => s2l "NONE"
                 | Raise e => s2l "RAISE " ++ show_exn e
                 end
        | _ => s2l "BADCASE" end
      else if str_eqb k (s2l "ptl") then
        match args with
        | [st; i] => match parse_table_line s (z_of_str st) (flag i) with
                     | Some l => s2l "L " ++ join_with comma (map show_z l)
                     | None => s2l "RAISE Exception"
                     end
        | _ => s2l "BADCASE" end
      else if str_eqb k (s2l "rt2") then
        match args with
        | [nc; vs] => s2l "V " ++ show_vals (read_table_line_TOUGH2 s (nat_of_str nc) (zlist vs))
        | _ => s2l "BADCASE" end
      else if str_eqb k (s2l "ra2") then
        match args with
        | [st] => s2l "V " ++ show_vals (read_table_line_AUTOUGH2 s (z_of_str st))
        | _ => s2l "BADCASE" end
      else if str_eqb k (s2l "kfl") then
        match args with
        | [ks] => match key_from_line s (zlist ks) with
                  | Ok l => s2l "K " ++ join_with comma (map hex l)
                  | Raise e => s2l "RAISE " ++ show_exn e
                  end
        | _ => s2l "BADCASE" end
      else if str_eqb k (s2l "tok") then
        match args with
        | [i] => s2l "T " ++ join_with comma (map hex (row_tokens (flag i) s))
        | _ => s2l "BADCASE" end
      else if str_eqb k (s2l "adr") then
        match args with
        | [rs; rv; key] => run_adr h rs rv key
        | _ => s2l "BADCASE" end
      else s2l "BADCASE"
  | _ => s2l "BADCASE"
  end.

Require Extraction.
Require Import ExtrOcamlBasic ExtrOcamlString.
Extraction "Drv.ml" run_case.
