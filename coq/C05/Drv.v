(** C05 -- extraction of the executable model for the correspondence run.
    One case per line, TAB separated, strings hex-encoded (PTBase.Wire):
      sov <line> <I>                 start_of_values
      ptl <line> <start> <I>         parse_table_line
      rt2 <line> <ncols> <v0,v1,..>  read_table_line_TOUGH2
      ra2 <line> <start>             read_table_line_AUTOUGH2
      kfl <line> <k0,k1,..>          key_from_line
      tok <line> <I>                 row_tokens (the specification; tied to the Python oracle tokenizer)
      file <sim> <skip,skip> <i,i,..> <line> <line> ...
                                     open_listing (file-level reader, Reader.v) followed by set_index for each i:
                                     table structures, and at each index the index/time/step and every cell *)
From Coq Require Import Ascii String List Bool ZArith NArith.
From PTBase Require Import Exn PyStr PyNum PyVal Wire.
From PTModel Require Import Fortran.
From P Require Import Model Table Reader.
Import ListNotations.
Open Scope char_scope.

Definition comma : str := [","].
Fixpoint join_with (sep : str) (l : list str) : str :=
  match l with [] => [] | [a] => a | a :: r => a ++ sep ++ join_with sep r end.
Definition zlist (s : str) : list Z := match s with [] => [] | _ => map z_of_str (split_c "," s) end.
Definition flag (s : str) : bool := str_eqb s (s2l "1").
Definition show_vals (l : list pyval) : str := join_with (s2l ";") (map show_pyval l).

(** *** file-level cases: the answer is assembled from small pieces with tail-recursive appends *)
(** the case line is long (a whole listing): split and decode it in linear time.  [split_fast] is PTBase's
    [split_c] with a linear reversal; [unhex_fast] is Wire's [unhex] on well-formed hexadecimal text. *)
Fixpoint split_fast_aux (ch : ascii) (cur : str) (s : str) (acc : list str) : list str :=
  match s with
  | [] => rev_append acc [rev_append cur []]
  | c :: r => if ceqb c ch then split_fast_aux ch [] r (rev_append cur [] :: acc) else split_fast_aux ch (c :: cur) r acc
  end.
Definition split_fast (ch : ascii) (s : str) : list str := split_fast_aux ch [] s [].
Definition hexbits (c : ascii) : bool * bool * bool * bool :=      (* least significant first *)
  match c with
  | "0" => (false, false, false, false) | "1" => (true, false, false, false) | "2" => (false, true, false, false)
  | "3" => (true, true, false, false) | "4" => (false, false, true, false) | "5" => (true, false, true, false)
  | "6" => (false, true, true, false) | "7" => (true, true, true, false) | "8" => (false, false, false, true)
  | "9" => (true, false, false, true) | "a" | "A" => (false, true, false, true) | "b" | "B" => (true, true, false, true)
  | "c" | "C" => (false, false, true, true) | "d" | "D" => (true, false, true, true) | "e" | "E" => (false, true, true, true)
  | "f" | "F" => (true, true, true, true) | _ => (false, false, false, false)
  end.
Fixpoint unhex_fast_aux (s : str) (acc : str) : str :=
  match s with
  | a :: b :: r => let '(a0, a1, a2, a3) := hexbits a in let '(b0, b1, b2, b3) := hexbits b in
                   unhex_fast_aux r (Ascii b0 b1 b2 b3 a0 a1 a2 a3 :: acc)
  | _ => rev_append acc []
  end.
Definition unhex_fast (s : str) : str := unhex_fast_aux s [].
Definition flatten (l : list str) : str := rev_append (fold_left (fun acc s => rev_append s acc) l []) [].
Definition sep_list {A} (sep : A) (l : list A) : list A :=
  match l with [] => [] | a :: r => a :: concat (map (fun x => [sep; x]) r) end.
Definition tabc : str := [tab].
Definition show_zs (l : list Z) : list str := sep_list comma (map show_z l).
Definition show_nats (l : list nat) : list str := sep_list comma (map show_nat l).
Definition show_names (k : list str) : list str := sep_list (s2l ".") (map hex k).
Definition show_table (nt : str * ltable) : list str :=
  let (n, T) := nt in
  [s2l "|T"; tabc; hex n; tabc; show_nat (lt_nkeys T); tabc] ++ sep_list comma (map hex (lt_cols T)) ++ [tabc]
  ++ show_zs (lt_keypos T) ++ [tabc] ++ show_zs (lt_values T) ++ [tabc; show_nat (lt_hskip T); tabc]
  ++ show_nats (lt_skips T) ++ [tabc] ++ show_nats (lt_rowline T) ++ [tabc]
  ++ concat (sep_list [comma] (map show_names (lt_rows T))).
Definition show_data (nt : str * ltable) : list str :=
  let (n, T) := nt in
  [s2l "|D"; tabc; hex n; tabc]
  ++ concat (sep_list [s2l "/"] (map (fun r => sep_list (s2l ";") (map show_pyval r)) (lt_data T))).
Definition show_at (i : Z) (r : res lstate) : list str :=
  match r with
  | Raise e => [s2l "|I"; tabc; show_z i; tabc; s2l "RAISE "; show_exn e]
  | Ok st => [s2l "|I"; tabc; show_z i; tabc; show_z (s_index st); tabc; show_pyval (s_time st); tabc; show_pyval (s_step st)]
             ++ concat (map show_data (s_tables st))
  end.
(** indices are visited in the order given, each from the state the previous one left (as the reader does) *)
Fixpoint visit (st : lstate) (idx : list Z) : list str :=
  match idx with
  | [] => []
  | i :: r => let s' := set_index st i in
              show_at i s' ++ visit (match s' with Ok x => x | Raise _ => st end) r
  end.
Definition parse_sim (s : str) : sim :=
  if str_eqb s (s2l "AUTOUGH2") then AUT else if str_eqb s (s2l "TOUGH2_MP") then T2MP else if str_eqb s (s2l "TOUGH3") then T3
  else if str_eqb s (s2l "TOUGHREACT") then TREACT else if str_eqb s (s2l "TOUGH+") then TPLUS else T2.
Definition run_file (sm skips idx : str) (lines : list str) : str :=
  let file := map unhex_fast lines in
  match open_listing (parse_sim sm) (match skips with [] => [] | _ => map unhex (split_c "," skips) end) file with
  | Raise e => s2l "RAISE " ++ show_exn e
  | Ok st =>
      flatten ([s2l "OK|N"; tabc; show_nat (length file); tabc] ++ show_nats (map (@length str) (s_fullpos st))
               ++ [s2l "|H"; tabc; hex (s_title st)]
               ++ concat (map show_table (s_tables st)) ++ show_at 0 (Ok st) ++ visit st (zlist idx))
  end.

Definition run_case (line : str) : str :=
  match (match line with "f" :: "i" :: "l" :: "e" :: _ => split_fast tab line | _ => fields line end) with
  | k :: h :: args =>
      let s := unhex h in
      if str_eqb k (s2l "file") then
        match args with
        | sk :: idx :: lines => run_file h sk idx lines
        | _ => s2l "BADCASE" end
      else if str_eqb k (s2l "sov") then
        match args with
        | [i] => match start_of_values s (flag i) with
                 | Ok (Some z) => s2l "Z " ++ show_z z
                 | Ok None => s2l "NONE"
                 | Raise e => s2l "RAISE " ++ show_exn e
                 end
        | _ => s2l "BADCASE" end
      else if str_eqb k (s2l "ptl") then
        match args with
        | [st; i] => match parse_table_line s (z_of_str st) (flag i) with
                     | Some l => s2l "L " ++ join_with comma (map show_z l)
                     | None => s2l "RAISE Exception"
                     end
        | _ => s2l "BADCASE" end
      else if str_eqb k (s2l "rt2") then
        match args with
        | [nc; vs] => s2l "V " ++ show_vals (read_table_line_TOUGH2 s (nat_of_str nc) (zlist vs))
        | _ => s2l "BADCASE" end
      else if str_eqb k (s2l "ra2") then
        match args with
        | [st] => s2l "V " ++ show_vals (read_table_line_AUTOUGH2 s (z_of_str st))
        | _ => s2l "BADCASE" end
      else if str_eqb k (s2l "kfl") then
        match args with
        | [ks] => match key_from_line s (zlist ks) with
                  | Ok l => s2l "K " ++ join_with comma (map hex l)
                  | Raise e => s2l "RAISE " ++ show_exn e
                  end
        | _ => s2l "BADCASE" end
      else if str_eqb k (s2l "tok") then
        match args with
        | [i] => s2l "T " ++ join_with comma (map hex (row_tokens (flag i) s))
        | _ => s2l "BADCASE" end
      else s2l "BADCASE"
  | _ => s2l "BADCASE"
  end.

Require Extraction.
Require Import ExtrOcamlBasic ExtrOcamlString.
Extraction "Drv.ml" run_case.
