(** C05 -- extraction of the executable model for the correspondence run.
    One case per line, TAB separated, strings hex-encoded (PTBase.Wire):
      sov <line> <I>                 start_of_values
      ptl <line> <start> <I>         parse_table_line
      rt2 <line> <ncols> <v0,v1,..>  read_table_line_TOUGH2
      ra2 <line> <start>             read_table_line_AUTOUGH2
      kfl <line> <k0,k1,..>          key_from_line
      tok <line> <I>                 row_tokens (the specification; tied to the Python oracle tokenizer) *)
From Coq Require Import Ascii String List Bool ZArith NArith.
From PTBase Require Import Exn PyStr PyNum PyVal Wire.
From PTModel Require Import Fortran.
From P Require Import Model.
Import ListNotations.
Open Scope char_scope.

Definition comma : str := [","].
Fixpoint join_with (sep : str) (l : list str) : str :=
  match l with [] => [] | [a] => a | a :: r => a ++ sep ++ join_with sep r end.
Definition zlist (s : str) : list Z := match s with [] => [] | _ => map z_of_str (split_c "," s) end.
Definition flag (s : str) : bool := str_eqb s (s2l "1").
Definition show_vals (l : list pyval) : str := join_with (s2l ";") (map show_pyval l).

Definition run_case (line : str) : str :=
  match fields line with
  | k :: h :: args =>
      let s := unhex h in
      if str_eqb k (s2l "sov") then
        match args with
        | [i] => match start_of_values s (flag i) with
                 | Ok (Some z) => s2l "Z " ++ show_z z
                 | Ok None => s2l "NONE"
                 | Raise e => s2l "RAISE " ++ show_exn e
                 end
        | _ => s2l "BADCASE" end
      else if str_eqb k (s2l "ptl") then
        match args with
        | [st; i] => match parse_table_line s (z_of_str st) (flag i) with
                     | Some l => s2l "L " ++ join_with comma (map show_z l)
                     | None => s2l "RAISE Exception"
                     end
        | _ => s2l "BADCASE" end
      else if str_eqb k (s2l "rt2") then
        match args with
        | [nc; vs] => s2l "V " ++ show_vals (read_table_line_TOUGH2 s (nat_of_str nc) (zlist vs))
        | _ => s2l "BADCASE" end
      else if str_eqb k (s2l "ra2") then
        match args with
        | [st] => s2l "V " ++ show_vals (read_table_line_AUTOUGH2 s (z_of_str st))
        | _ => s2l "BADCASE" end
      else if str_eqb k (s2l "kfl") then
        match args with
        | [ks] => match key_from_line s (zlist ks) with
                  | Ok l => s2l "K " ++ join_with comma (map hex l)
                  | Raise e => s2l "RAISE " ++ show_exn e
                  end
        | _ => s2l "BADCASE" end
      else if str_eqb k (s2l "tok") then
        match args with
        | [i] => s2l "T " ++ join_with comma (map hex (row_tokens (flag i) s))
        | _ => s2l "BADCASE" end
      else s2l "BADCASE"
  | _ => s2l "BADCASE"
  end.

Require Extraction.
Require Import ExtrOcamlBasic ExtrOcamlString.
Extraction "Drv.ml" run_case.
