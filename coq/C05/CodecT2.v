(** C05 -- the whole-file statement for the TOUGH2 family: [t2listing(file, skip_tables)] followed by any
    [index = i] exposes, for every table that is not skipped, exactly the rows printed at the first result
    time (keys) and the numbers printed at result time i (cells) -- for any number of result sets, tables,
    rows, and for every subset of skipped tables. *)
From Coq Require Import Ascii String List Bool Arith ZArith NArith Lia.
From PTBase Require Import Exn PyStr PyNum PyVal.
From PTModel Require Import Fortran.
From P Require Import Model Table Reader Cells TableT2 SetT2 FileT2.
Import ListNotations.
Open Scope char_scope.

Definition tdata := list (list pyval).
(** the tables of an open listing: structure [T], name, data -- skipped names left out *)
Fixpoint tabs_with (skip : list str) (Ts : list ltable) (ns : list str) (ds : list tdata) : tabs :=
  match Ts, ns, ds with
  | T :: Ts', n :: ns', d :: ds' => if in_names n skip then tabs_with skip Ts' ns' ds' else (n, with_data T d) :: tabs_with skip Ts' ns' ds'
  | _, _, _ => []
  end.
(** the cells printed for the tables [us], decoded under the structures [Ts] *)
Fixpoint dec (Ts : list ltable) (us : list ptable) : list tdata :=
  match Ts, us with T :: Ts', u :: us' => map (decode_line T) (p_rows u) :: dec Ts' us' | _, _ => [] end.
Fixpoint TTs_of (Ts : list ltable) (ds : list tdata) (us : list ptable) : list (ltable * ltable) :=
  match Ts, ds, us with
  | T :: Ts', d :: ds', u :: us' => (with_data T d, with_data T (map (decode_line T) (p_rows u))) :: TTs_of Ts' ds' us'
  | _, _, _ => []
  end.

Lemma added_tabs_with skip us : forall Ts, length Ts = length us -> added skip us Ts = tabs_with skip Ts (map p_name us) (map lt_data Ts).
Proof.
  induction us as [|u us IH]; intros [|T Ts] HL; try discriminate; [reflexivity|].
  cbn [added map tabs_with]. rewrite with_data_same. rewrite IH by (cbn in HL; lia). reflexivity.
Qed.
Lemma tabs_with_names_not_skipped skip Ts : forall ns ds n, in_names n skip = true -> tab_get n (tabs_with skip Ts ns ds) = None.
Proof.
  induction Ts as [|T Ts IH]; intros [|m ns] [|d ds] n Hn; try reflexivity. cbn [tabs_with].
  destruct (in_names m skip) eqn:E; [apply IH; exact Hn|]. cbn [tab_get]. rewrite (in_names_neq m n skip E Hn). apply IH. exact Hn.
Qed.
Lemma tab_get_cons_other n m X ts : str_eqb m n = false -> tab_get n ((m, X) :: ts) = tab_get n ts.
Proof. intro H. cbn [tab_get]. rewrite H. reflexivity. Qed.
Lemma rtable_ok_cons_other skip ts u TT m X : str_eqb m (p_name u) = false -> rtable_ok skip ts u TT -> rtable_ok skip ((m, X) :: ts) u TT.
Proof. intros Hm [H1 H2]. split; [exact H1|]. rewrite (tab_get_cons_other _ _ X ts Hm). exact H2. Qed.
Lemma names_neq_of_NoDup (u : ptable) us : NoDup (map p_name (u :: us)) -> forall v, In v us -> str_eqb (p_name u) (p_name v) = false.
Proof.
  intros Hnd v Hv. cbn [map] in Hnd. apply NoDup_cons_iff in Hnd as [Hni _].
  destruct (str_eqb (p_name u) (p_name v)) eqn:E; [|reflexivity]. apply str_eqb_eq in E. exfalso. apply Hni. rewrite E. exact (in_map p_name us v Hv).
Qed.

(** the hypotheses of the read loop, from the per-table facts *)
Lemma rtables_ok skip us : forall Ts ds, NoDup (map p_name us) -> length Ts = length us -> length ds = length us ->
  Forall (fun u => skip_ok u /\ not_kcyc (p_sep u)) us ->
  Forall2 (fun Td u => read_ok u (with_data (fst Td) (snd Td)) (with_data (fst Td) (map (decode_line (fst Td)) (p_rows u)))) (combine Ts ds) us ->
  Forall2 (rtable_ok skip (tabs_with skip Ts (map p_name us) ds)) us (TTs_of Ts ds us).
Proof.
  induction us as [|u us IH]; intros [|T Ts] [|d ds] Hnd H1 H2 Hsk Hrd; try discriminate; [constructor|].
  cbn [combine] in Hrd. apply Forall2_cons_inv in Hrd as [Hr Hrd]. cbn [fst snd] in Hr.
  inversion Hsk as [|? ? [Hs1 Hs2] Hsk']; subst.
  assert (Hnd' : NoDup (map p_name us)) by (cbn [map] in Hnd; apply NoDup_cons_iff in Hnd as [_ Hnd]; exact Hnd).
  specialize (IH Ts ds Hnd' ltac:(cbn in H1; lia) ltac:(cbn in H2; lia) Hsk' Hrd).
  cbn [map tabs_with TTs_of]. destruct (in_names (p_name u) skip) eqn:E.
  - constructor.
    + split; [exact Hs2|]. rewrite E. split; [exact Hs1|]. apply tabs_with_names_not_skipped. exact E.
    + exact IH.
  - constructor.
    + split; [exact Hs2|]. rewrite E. cbn [fst snd tab_get]. rewrite str_eqb_refl. split; [reflexivity|exact Hr].
    + pose proof (names_neq_of_NoDup u us Hnd) as Hneq.
      clear - IH Hneq. revert IH Hneq. generalize (TTs_of Ts ds us) as TTs. generalize (tabs_with skip Ts (map p_name us) ds) as ts.
      intros ts TTs IH. induction IH as [|v TT vs TTs' HV _ IHF]; intro Hneq; constructor.
      * apply rtable_ok_cons_other; [apply Hneq; left; reflexivity|exact HV].
      * apply IHF. intros w Hw. apply Hneq. right. exact Hw.
Qed.

(** the effect of the read loop on the tables *)
Lemma updated_cons_other skip us : forall TTs n X ts, (forall v, In v us -> str_eqb (p_name v) n = false) ->
  updated skip us TTs ((n, X) :: ts) = (n, X) :: updated skip us TTs ts.
Proof.
  induction us as [|u us IH]; intros [|TT TTs] n X ts Hneq; try reflexivity. cbn [updated].
  destruct (in_names (p_name u) skip).
  - apply IH. intros v Hv. apply Hneq. right. exact Hv.
  - cbn [tab_set]. replace (str_eqb n (p_name u)) with false.
    + apply IH. intros v Hv. apply Hneq. right. exact Hv.
    + symmetry. destruct (str_eqb n (p_name u)) eqn:E; [|reflexivity]. apply str_eqb_eq in E. subst n.
      pose proof (Hneq u (or_introl eq_refl)) as Hf. rewrite str_eqb_refl in Hf. discriminate.
Qed.
Lemma updated_tabs_with skip us : forall Ts ds, NoDup (map p_name us) -> length Ts = length us -> length ds = length us ->
  updated skip us (TTs_of Ts ds us) (tabs_with skip Ts (map p_name us) ds) = tabs_with skip Ts (map p_name us) (dec Ts us).
Proof.
  induction us as [|u us IH]; intros [|T Ts] [|d ds] Hnd H1 H2; try discriminate; [reflexivity|].
  assert (Hnd' : NoDup (map p_name us)) by (cbn [map] in Hnd; apply NoDup_cons_iff in Hnd as [_ Hnd]; exact Hnd).
  cbn [map tabs_with TTs_of dec updated]. destruct (in_names (p_name u) skip) eqn:E.
  - apply IH; [exact Hnd'|cbn in H1; lia|cbn in H2; lia].
  - cbn [tab_set snd]. rewrite str_eqb_refl. rewrite updated_cons_other.
    + rewrite IH; [reflexivity|exact Hnd'|cbn in H1; lia|cbn in H2; lia].
    + intros v Hv. pose proof (names_neq_of_NoDup u us Hnd v Hv) as Hn.
      destruct (str_eqb (p_name v) (p_name u)) eqn:E2; [|reflexivity]. apply str_eqb_eq in E2. rewrite E2, str_eqb_refl in Hn. discriminate.
Qed.

Lemma setup_tables_ok_gen s title skip us Ts : Forall (fun u => skip_ok u /\ not_kcyc (p_sep u)) us ->
  Forall2 (fun t T => exists P, tshape s title t P /\ T = table_of P t) us Ts -> Forall2 (table_ok s skip title) us Ts.
Proof.
  intros Hsk H. revert Hsk. induction H as [|t T ts Ts' [P [HP HT]] _ IH]; intro Hsk; constructor.
  - inversion Hsk as [|? ? [H1 H2] _]; subst. split; [exact H2|]. destruct (in_names (p_name t) skip); [exact H1|].
    apply (tshape_setup s title t P HP).
  - apply IH. inversion Hsk; assumption.
Qed.
Lemma initial_heights_gen s title us Ts : Forall2 (fun t T => exists P, tshape s title t P /\ T = table_of P t) us Ts ->
  Forall2 (fun T d => length d = length (lt_rows T)) Ts (map lt_data Ts).
Proof.
  intro H. induction H as [|t T ts Ts' [P [HP HT]] _ IH]; cbn [map]; constructor; [|exact IH].
  subst T. unfold table_of, new_table. cbn [lt_data lt_rows]. apply repeat_length.
Qed.

Section Codec.
  Variable s : sim.
  Hypothesis Hs : sim_eqb s TPLUS = false.
  Hypothesis Ha : sim_eqb s AUT = false.
  Variables (title : str) (x0 : pset) (more_sets : list pset) (Ts : list ltable).
  Let sets := x0 :: more_sets.
  Let names := map p_name (set_tables x0).

  (** the listing: well-formed result sets, the tables of the first set give the structures [Ts], every
      set prints tables of the same names and shapes *)
  Record file_ok : Prop := {
    fo_sets : Forall set_ok sets;
    fo_title : (if sim_eqb s T2MP then Ok (read_title_MP (file_from sets)) else read_title_T2 (file_from sets)) = Ok title;
    fo_elem : p_name (ps_first x0) = n_element;
    fo_shape : Forall2 (fun t T => exists P, tshape s title t P /\ T = table_of P t) (set_tables x0) Ts;
    fo_struct : Forall struct_ok Ts;
    fo_names : NoDup names;
    fo_like : Forall (fun x => map p_name (set_tables x) = names /\ Forall (fun u => skip_ok u /\ not_kcyc (p_sep u)) (set_tables x)
                               /\ inters_shape (ps_rest x)) sets;
    fo_later : Forall (fun x => Forall2 tlater Ts (set_tables x)) more_sets
  }.
  Hypothesis OK : file_ok.

  Lemma later_all x : In x sets -> Forall2 tlater Ts (set_tables x).
  Proof.
    intros [E|Hin].
    - subst x. pose proof (fo_shape OK) as H. clear - H. induction H as [|t T ts Ts' [P [HP HT]] _ IH]; constructor; [|exact IH].
      subst T. apply (tshape_later s title t P HP).
    - pose proof (fo_later OK) as H. rewrite Forall_forall in H. apply H. exact Hin.
  Qed.
  Lemma Ts_length : length Ts = length (set_tables x0).
  Proof. symmetry. exact (Forall2_len _ _ _ (fo_shape OK)). Qed.
  Lemma set_like x : In x sets -> map p_name (set_tables x) = names /\ Forall (fun u => skip_ok u /\ not_kcyc (p_sep u)) (set_tables x) /\ inters_shape (ps_rest x).
  Proof. intro H. pose proof (fo_like OK) as F. rewrite Forall_forall in F. apply F. exact H. Qed.
  Lemma set_tables_length x : In x sets -> length (set_tables x) = length Ts.
  Proof. intro H. destruct (set_like x H) as [E _]. rewrite Ts_length. rewrite <- (map_length p_name), E. unfold names. apply map_length. Qed.

  (** ** the state of the open listing *)
  Definition state_at (skip : list str) (k : nat) (x : pset) : lstate :=
    {| s_sim := s; s_title := title; s_skip := skip; s_fullpos := positions sets; s_index := Z.of_nat k;
       s_time := set_time x; s_step := set_step x; s_tables := tabs_with skip Ts names (dec Ts (set_tables x)) |}.
  (** any state the reader can be in between two moves: the same structures, any data of the right height *)
  Definition reader_state (skip : list str) (st : lstate) : Prop :=
    s_sim st = s /\ s_title st = title /\ s_skip st = skip /\ s_fullpos st = positions sets /\
    exists ds, length ds = length Ts /\ Forall2 (fun T d => length d = length (lt_rows T)) Ts ds /\ s_tables st = tabs_with skip Ts names ds.

  Lemma dec_heights x : In x sets -> Forall2 (fun T d => length d = length (lt_rows T)) Ts (dec Ts (set_tables x)).
  Proof.
    intro H. pose proof (later_all x H) as HL. clear - HL. induction HL as [|T u Ts' us [_ _ Hk] _ IH]; cbn [dec]; constructor; [|exact IH].
    rewrite map_length. exact (Forall2_len _ _ _ Hk).
  Qed.
  Lemma dec_length x : In x sets -> length (dec Ts (set_tables x)) = length Ts.
  Proof. intro H. symmetry. exact (Forall2_len _ _ _ (dec_heights x H)). Qed.
  Lemma state_at_reader skip k x : In x sets -> reader_state skip (state_at skip k x).
  Proof.
    intro H. unfold reader_state, state_at. cbn. repeat split. exists (dec Ts (set_tables x)).
    split; [apply dec_length; exact H|]. split; [apply dec_heights; exact H|reflexivity].
  Qed.

  (** ** index = i *)
  Theorem set_index_spec skip st k x i : reader_state skip st -> nth_error sets k = Some x ->
    (i = Z.of_nat k \/ i = (Z.of_nat k - Z.of_nat (length sets))%Z) ->
    set_index st i = Ok (state_at skip k x).
  Proof.
    intros [Hsim [Htitle [Hskip [Hpos [ds [Hdl [Hdh Htab]]]]]]] Hk Hi.
    assert (Hin : In x sets) by (eapply nth_error_In; exact Hk).
    assert (Hkl : k < length sets) by (apply nth_error_Some; congruence).
    pose proof (fo_sets OK) as Hsets.
    assert (Hx : set_ok x) by (rewrite Forall_forall in Hsets; apply Hsets; exact Hin).
    destruct (set_like x Hin) as [Hnm [Hsk Hish]].
    unfold set_index. rewrite Hpos.
    assert (Hpy : pyindex i (positions sets) = Some (set_body x (ps_tail x ++ file_from (skipn (S k) sets)))).
    { unfold pyindex. rewrite positions_length. destruct Hi as [Hi|Hi]; subst i.
      - replace (Z.of_nat k <? 0)%Z with false by (symmetry; apply Z.ltb_ge; lia).
        replace ((Z.of_nat k <? 0) || (Z.of_nat (length sets) <=? Z.of_nat k))%Z with false
          by (symmetry; apply orb_false_intro; [apply Z.ltb_ge; lia|apply Z.leb_gt; lia]).
        rewrite Nat2Z.id. apply positions_nth. exact Hk.
      - replace (Z.of_nat k - Z.of_nat (length sets) <? 0)%Z with true by (symmetry; apply Z.ltb_lt; lia).
        replace (Z.of_nat k - Z.of_nat (length sets) + Z.of_nat (length sets))%Z with (Z.of_nat k) by lia.
        replace ((Z.of_nat k <? 0) || (Z.of_nat (length sets) <=? Z.of_nat k))%Z with false
          by (symmetry; apply orb_false_intro; [apply Z.ltb_ge; lia|apply Z.leb_gt; lia]).
        rewrite Nat2Z.id. apply positions_nth. exact Hk. }
    rewrite Hpy.
    assert (Hidx : (if (i <? 0)%Z then (i + Z.of_nat (length (positions sets)))%Z else i) = Z.of_nat k).
    { rewrite positions_length. destruct Hi as [Hi|Hi]; subst i.
      - replace (Z.of_nat k <? 0)%Z with false by (symmetry; apply Z.ltb_ge; lia). reflexivity.
      - replace (Z.of_nat k - Z.of_nat (length sets) <? 0)%Z with true by (symmetry; apply Z.ltb_lt; lia). lia. }
    rewrite Hidx. unfold read_tables. cbn [with_index s_sim]. rewrite Hsim, Ha. unfold read_tables_T2. cbn [with_index s_sim]. rewrite Hsim.
    rewrite (read_header_set s Hs x _ Hx). cbn [bind].
    set (st1 := with_header (with_index st (Z.of_nat k)) (set_time x) (set_step x)).
    unfold tables_lines.
    assert (Hlen : length (set_tables x) = length Ts) by (apply set_tables_length; exact Hin).
    assert (Hel : n_element = p_name (ps_first x)).
    { rewrite <- (fo_elem OK). pose proof Hnm as E. unfold names, set_tables in E. cbn [map] in E. inversion E. reflexivity. }
    rewrite Hel.
    rewrite (read_tables_loop_spec s Hs (ps_rest x) _ st1 (ps_first x) (TTs_of Ts ds (set_tables x)) _ 0).
    - unfold st1. cbn [with_header with_index s_skip s_tables with_tables s_sim s_title s_fullpos s_index s_time s_step].
      rewrite Htab, Hskip. fold (set_tables x). rewrite <- Hnm.
      rewrite updated_tabs_with; [|rewrite Hnm; exact (fo_names OK)|exact (eq_sym Hlen)|exact (eq_trans Hdl (eq_sym Hlen))].
      unfold state_at, with_tables, with_header, with_index. cbn [s_sim s_title s_skip s_fullpos s_index s_time s_step s_tables].
      rewrite Hsim, Htitle, Hpos, Hnm, Hskip. reflexivity.
    - exact Hsim.
    - pose proof (rest_lines_length_ge (ps_rest x) (ps_tail x ++ file_from (skipn (S k) sets))). rewrite app_length. lia.
    - fold (set_tables x). rewrite Hnm. exact (fo_names OK).
    - unfold st1. cbn [with_header with_index s_skip s_tables]. rewrite Htab, Hskip. fold (set_tables x). rewrite <- Hnm.
      apply rtables_ok; [rewrite Hnm; exact (fo_names OK)|exact (eq_sym Hlen)|exact (eq_trans Hdl (eq_sym Hlen))|exact Hsk|].
      pose proof (later_all x Hin) as HL. pose proof (fo_struct OK) as HS.
      clear - HL HS Hdh. revert ds Hdh HS. induction HL as [|T u Ts' us Hl _ IH]; intros ds Hdh HS.
      + inversion Hdh; subst. constructor.
      + inversion Hdh as [|? d ? ds' Hd Hdh']; subst. inversion HS as [|? ? HS1 HS2]; subst. cbn [combine]. constructor.
        * cbn [fst snd]. apply tlater_read; assumption.
        * apply IH; assumption.
    - unfold st1. cbn [with_header with_index s_fullpos s_index]. rewrite Hpos. apply (inters_from_shape sets k x); assumption.
    - unfold st1. cbn [with_header with_index s_fullpos s_index]. rewrite Hpos. apply (ends_inside sets k x); [exact Hsets|exact Hk|].
      assert (Hl : In (last (map snd (ps_rest x)) (ps_first x)) (set_tables x)).
      { unfold set_tables. apply last_In. }
      rewrite Forall_forall in Hsk. exact (proj2 (Hsk _ Hl)).
  Qed.

  (** ** t2listing(file, skip_tables) *)
  Lemma file_from_length (l : list pset) : length l <= length (file_from l).
  Proof.
    induction l as [|y l IH]; cbn [file_from length]; [lia|]. rewrite app_length.
    pose proof (set_body_length y (ps_tail y ++ file_from l)) as H. rewrite app_length in H. lia.
  Qed.
  Lemma setup_tables_ok skip : Forall2 (table_ok s skip title) (set_tables x0) Ts.
  Proof. destruct (set_like x0 (or_introl eq_refl)) as [_ [Hsk _]]. exact (setup_tables_ok_gen s title skip _ _ Hsk (fo_shape OK)). Qed.
  Lemma initial_heights : Forall2 (fun T d => length d = length (lt_rows T)) Ts (map lt_data Ts).
  Proof. exact (initial_heights_gen s title _ _ (fo_shape OK)). Qed.

  Theorem open_spec skip : open_listing s skip (file_from sets) = Ok (state_at skip 0 x0).
  Proof.
    pose proof (fo_sets OK) as Hsets.
    assert (Hx0 : set_ok x0) by (inversion Hsets; assumption).
    unfold open_listing. rewrite Ha.
    pose proof (setup_pos_spec s Hs sets (S (length (file_from sets))) [] Hsets ltac:(pose proof (file_from_length sets); lia) (Forall_nil _)) as Hpos.
    cbn [app] in Hpos. rewrite Hpos.
    cbn [bind].
    assert (Epos : positions sets = set_body x0 (ps_tail x0 ++ file_from more_sets) :: positions more_sets) by reflexivity.
    rewrite Epos. rewrite <- Epos.
    rewrite (fo_title OK). cbn [bind].
    rewrite (read_header_set s Hs x0 _ Hx0). cbn [bind].
    set (st := {| s_sim := s; s_title := title; s_skip := skip; s_fullpos := positions sets; s_index := 0%Z; s_time := set_time x0; s_step := set_step x0; s_tables := [] |}).
    destruct (set_like x0 (or_introl eq_refl)) as [_ [Hsk Hish]].
    unfold tables_lines. rewrite <- (fo_elem OK).
    rewrite (setup_tables_loop_spec s Hs (ps_rest x0) _ st (ps_first x0) Ts _ 0).
    - cbn [bind s_tables st app]. rewrite added_tabs_with by exact Ts_length.
      apply (set_index_spec skip _ 0 x0 0%Z).
      + unfold reader_state, st. cbn [with_tables s_sim s_title s_skip s_fullpos s_tables]. repeat split.
        exists (map lt_data Ts). split; [apply map_length|]. split; [exact initial_heights|reflexivity].
      + reflexivity.
      + left. reflexivity.
    - reflexivity.
    - pose proof (rest_lines_length_ge (ps_rest x0) (ps_tail x0 ++ file_from more_sets)) as H1.
      unfold sets. cbn [file_from]. rewrite app_length. unfold set_body. cbn [length]. rewrite !app_length. cbn [length]. rewrite !app_length.
      unfold tables_lines. rewrite app_length. lia.
    - exact (setup_tables_ok skip).
    - intros n _. reflexivity.
    - unfold st. cbn [s_fullpos s_index]. apply (inters_from_shape sets 0 x0); [exact Hsets|reflexivity|exact Hish].
    - unfold st. cbn [s_fullpos s_index]. apply (ends_inside sets 0 x0); [exact Hsets|reflexivity|].
      assert (Hl : In (last (map snd (ps_rest x0)) (ps_first x0)) (set_tables x0)) by (unfold set_tables; apply last_In).
      rewrite Forall_forall in Hsk. exact (proj2 (Hsk _ Hl)).
  Qed.

  (** ** any sequence of moves *)
  Fixpoint moves (st : lstate) (l : list Z) : res lstate :=
    match l with [] => Ok st | i :: r => do st' <- set_index st i; moves st' r end.
  (** [i] addresses result set [k] (from the front or from the back) *)
  Definition addresses (i : Z) (k : nat) : Prop := i = Z.of_nat k \/ i = (Z.of_nat k - Z.of_nat (length sets))%Z.
  Theorem moves_spec skip l : forall st k x i, reader_state skip st -> nth_error sets k = Some x -> addresses i k ->
    Forall (fun j => exists kj, kj < length sets /\ addresses j kj) l ->
    moves st (l ++ [i]) = Ok (state_at skip k x).
  Proof.
    induction l as [|j l IH]; intros st k x i Hst Hk Hi Hl; cbn [app moves].
    - rewrite (set_index_spec skip st k x i Hst Hk Hi). reflexivity.
    - inversion Hl as [|? ? [kj [Hkj Hj]] Hl']; subst.
      destruct (nth_error sets kj) as [y|] eqn:Ey; [|apply nth_error_None in Ey; lia].
      rewrite (set_index_spec skip st kj y j Hst Ey Hj). cbn [bind].
      apply IH; [apply state_at_reader; eapply nth_error_In; exact Ey|exact Hk|exact Hi|exact Hl'].
  Qed.
  (** the headline: open with any skipped subset, move anywhere any number of times, finally to result set k:
      the state is [state_at skip k x] -- it depends on nothing but k and the skipped subset *)
  Theorem listing_codec skip l k x i : nth_error sets k = Some x -> addresses i k ->
    Forall (fun j => exists kj, kj < length sets /\ addresses j kj) l ->
    (do st <- open_listing s skip (file_from sets); moves st (l ++ [i])) = Ok (state_at skip k x).
  Proof.
    intros Hk Hi Hl. rewrite (open_spec skip). cbn [bind].
    apply (moves_spec skip l _ k x i); [apply state_at_reader; left; reflexivity|exact Hk|exact Hi|exact Hl].
  Qed.

  (** ** what a table holds *)
  Lemma tabs_with_get skip : forall j Ts' ns ds n T d, NoDup ns -> nth_error ns j = Some n -> nth_error Ts' j = Some T -> nth_error ds j = Some d ->
    in_names n skip = false -> tab_get n (tabs_with skip Ts' ns ds) = Some (with_data T d).
  Proof.
    induction j as [|j IH]; intros [|T0 Ts'] [|m ns] [|d0 ds] n T d Hnd H1 H2 H3 Hn; try discriminate; cbn [nth_error] in *.
    - inversion H1; inversion H2; inversion H3; subst. cbn [tabs_with]. rewrite Hn. cbn [tab_get]. rewrite str_eqb_refl. reflexivity.
    - cbn [tabs_with]. apply NoDup_cons_iff in Hnd as [Hni Hnd].
      assert (Hmn : str_eqb m n = false).
      { destruct (str_eqb m n) eqn:E; [|reflexivity]. apply str_eqb_eq in E. subst m. exfalso. apply Hni. eapply nth_error_In. exact H1. }
      destruct (in_names m skip); [|rewrite (tab_get_cons_other _ _ _ _ Hmn)]; apply (IH Ts' ns ds n T d Hnd H1 H2 H3 Hn).
  Qed.
  Lemma dec_nth : forall j Ts' us T u, nth_error Ts' j = Some T -> nth_error us j = Some u ->
    nth_error (dec Ts' us) j = Some (map (decode_line T) (p_rows u)).
  Proof.
    induction j as [|j IH]; intros [|T0 Ts'] [|u0 us] T u H1 H2; try discriminate; cbn [nth_error dec] in *.
    - inversion H1; inversion H2; subst. reflexivity.
    - apply IH; assumption.
  Qed.
  (** table [j] of result set [k], when it is not skipped: its structure is [T] (set up from the first result
      set) and row [r] of its data is the [r]-th printed row of THIS result set decoded in the layout of [T] *)
  Theorem table_contents skip k x j u T : nth_error sets k = Some x -> nth_error (set_tables x) j = Some u -> nth_error Ts j = Some T ->
    in_names (p_name u) skip = false ->
    tab_get (p_name u) (s_tables (state_at skip k x)) = Some (with_data T (map (decode_line T) (p_rows u))).
  Proof.
    intros Hk Hu HT Hn. assert (Hin : In x sets) by (eapply nth_error_In; exact Hk).
    destruct (set_like x Hin) as [Hnm _]. unfold state_at. cbn [s_tables].
    apply (tabs_with_get skip j Ts names (dec Ts (set_tables x)) (p_name u) T _ (fo_names OK)).
    - rewrite <- Hnm. apply map_nth_error. exact Hu.
    - exact HT.
    - apply dec_nth; assumption.
    - exact Hn.
  Qed.
  (** skip_tables_independent: a table that is skipped in neither run is the same in both *)
  Lemma tabs_with_skip_indep skip n : in_names n skip = false -> forall Ts' ns ds, tab_get n (tabs_with skip Ts' ns ds) = tab_get n (tabs_with [] Ts' ns ds).
  Proof.
    intro Hn. induction Ts' as [|T Ts' IH]; intros [|m ns] [|d ds]; try reflexivity. cbn [tabs_with in_names existsb].
    destruct (in_names m skip) eqn:E.
    - assert (Hmn : str_eqb m n = false).
      { destruct (str_eqb m n) eqn:E2; [|reflexivity]. apply str_eqb_eq in E2. subst m. congruence. }
      cbn [tab_get]. rewrite Hmn. apply IH.
    - cbn [tab_get]. destruct (str_eqb m n); [reflexivity|apply IH].
  Qed.

  (** skip_tables_independent: a table that is skipped in neither of two runs holds the same rows and cells in both,
      at every result set, whatever moves led there *)
  Theorem skip_independent skip1 skip2 k x n : in_names n skip1 = false -> in_names n skip2 = false ->
    tab_get n (s_tables (state_at skip1 k x)) = tab_get n (s_tables (state_at skip2 k x)).
  Proof.
    intros H1 H2. unfold state_at. cbn [s_tables]. rewrite (tabs_with_skip_indep skip1 n H1), (tabs_with_skip_indep skip2 n H2). reflexivity.
  Qed.
  Theorem skip_tables_independent_thm skip1 skip2 l1 l2 i1 i2 k x n : nth_error sets k = Some x -> addresses i1 k -> addresses i2 k ->
    Forall (fun j => exists kj, kj < length sets /\ addresses j kj) l1 -> Forall (fun j => exists kj, kj < length sets /\ addresses j kj) l2 ->
    in_names n skip1 = false -> in_names n skip2 = false ->
    exists st1 st2, (do st <- open_listing s skip1 (file_from sets); moves st (l1 ++ [i1])) = Ok st1
                 /\ (do st <- open_listing s skip2 (file_from sets); moves st (l2 ++ [i2])) = Ok st2
                 /\ tab_get n (s_tables st1) = tab_get n (s_tables st2).
  Proof.
    intros Hk Hi1 Hi2 Hl1 Hl2 H1 H2. exists (state_at skip1 k x), (state_at skip2 k x).
    split; [apply listing_codec; assumption|]. split; [apply listing_codec; assumption|]. apply skip_independent; assumption.
  Qed.

  (** every cell is the printed number: row [r] of table [j] at result set [k], printed as a prefix, cells right-justified
      in the fields of the table's layout, and a tail (line end; blank if the row is short), reads as the values of the
      cell texts, missing trailing cells as zero *)
  Theorem cells_are_printed_numbers skip k x j u T r l pre cs t ws s0 :
    nth_error sets k = Some x -> nth_error (set_tables x) j = Some u -> nth_error Ts j = Some T -> in_names (p_name u) skip = false ->
    nth_error (p_rows u) r = Some l -> l = pre ++ cbody cs ++ t ->
    lt_values T = Z.of_nat s0 :: map Z.of_nat (ends_w (length pre) ws) ->
    map fst cs = firstn (length cs) ws -> Forall cfits cs -> length pre <= s0 -> s0 <= length pre + first_lead cs ->
    (length cs = length ws \/ blank_str t) ->
    exists T', tab_get (p_name u) (s_tables (state_at skip k x)) = Some T'
            /\ lt_rows T' = lt_rows T
            /\ nth_error (lt_data T') r = Some (map (fun c => fortran_float (snd c) zero) cs
                                                 ++ repeat zero (length ws - length cs) ++ repeat zero (length (lt_cols T) - length ws)).
  Proof.
    intros Hk Hu HT Hn Hr El Hv Hw Hf L1 L2 Ht.
    exists (with_data T (map (decode_line T) (p_rows u))). split; [apply (table_contents skip k x j u T); assumption|]. split; [reflexivity|].
    cbn [with_data lt_data]. rewrite (map_nth_error (decode_line T) r (p_rows u) Hr). f_equal.
    unfold decode_line. rewrite Hv, El. apply cells_decode_tail_thm; assumption.
  Qed.
End Codec.
