(** C05 -- executable checker for the hypotheses of the AUTOUGH2 whole-file theorem (FileAUT.v) and its soundness. *)
From Coq Require Import Ascii String List Bool Arith ZArith NArith Lia.
From PTBase Require Import Exn PyStr PyNum PyVal.
From PTModel Require Import Fortran.
From P Require Import Model Table Reader TableT2 SetT2 FileT2 CodecT2 CheckT2 TableAUT FileAUT.
Import ListNotations.
Open Scope char_scope.

Definition noEb (l : str) : bool := negb (starts_at 1 kwE l).
Lemma noEb_spec l : noEb l = true -> noE l.
Proof. unfold noEb, noE, no_kw. apply negb_true. Qed.
Definition aset_okb (x : aset) : bool :=
  forallb noEb (s_pre x) && starts_at 1 kwE (s_kwl x)
  && forallb noEb (a_cap (s_first x) :: a_b1 (s_first x) :: a_hdr (s_first x) :: a_b2 (s_first x) :: a_rows (s_first x))
  && starts_at 1 kwE (a_kend (s_first x))
  && forallb noEb (a_after (s_first x) :: arest (s_more x) (s_post x)).
Lemma aset_okb_spec x : aset_okb x = true -> aset_ok x.
Proof.
  unfold aset_okb. intro H. do 4 (let Hn := fresh "C" in apply andb_prop in H as [H Hn]).
  constructor; [apply (forallb_Forall _ _ _ noEb_spec H)|exact C2|apply (forallb_Forall _ _ _ noEb_spec C1)|exact C0|apply (forallb_Forall _ _ _ noEb_spec C)].
Qed.
Definition aset_okb2 (x : aset) : bool :=
  starts_at 1 kwE (s_kwl x)
  && forallb noEb (a_cap (s_first x) :: a_b1 (s_first x) :: a_hdr (s_first x) :: a_b2 (s_first x) :: a_rows (s_first x))
  && starts_at 1 kwE (a_kend (s_first x)).
Lemma aset_okb2_spec x : aset_okb2 x = true -> aset_ok2 x.
Proof.
  unfold aset_okb2. intro H. do 2 (let Hn := fresh "C" in apply andb_prop in H as [H Hn]).
  constructor; [exact H|apply (forallb_Forall _ _ _ noEb_spec C0)|exact C].
Qed.
(** the short keywords setup_short_types finds, and the stretches between the full result sets hold only short blocks *)
Definition scan_check (sets : list aset) : bool :=
  match setup_short_types (S (length (afile sets))) [] (afile sets) with
  | Ok sh => match gaps_okA (kwE :: firstn 1 sh) [] sets with Some _ => true | None => false end
  | Raise _ => false
  end.
Lemma scan_check_spec sets : scan_check sets = true ->
  exists sh N, setup_short_types (S (length (afile sets))) [] (afile sets) = Ok sh /\ gaps_okA (kwE :: firstn 1 sh) [] sets = Some N.
Proof.
  unfold scan_check. destruct (setup_short_types (S (length (afile sets))) [] (afile sets)) as [sh|]; [|discriminate].
  destruct (gaps_okA (kwE :: firstn 1 sh) [] sets) as [N|] eqn:E; [|discriminate]. intros _. exists sh, N. split; [reflexivity|exact E].
Qed.
Definition no_shortb (l : str) : bool := match List.find (fun kw => starts_at 1 kw l) short_kws with None => true | Some _ => false end.
Lemma no_shortb_spec l : no_shortb l = true -> no_short l.
Proof. unfold no_shortb, no_short. destruct (List.find _ short_kws); [discriminate|reflexivity]. Qed.
Fixpoint stops_okb (sets : list aset) : bool :=
  match sets with
  | [] => true
  | x :: r => (match fst (next_table_AUT (s_post x ++ afile r)) with None => true | Some _ => false end) && stops_okb r
  end.
Lemma stops_okb_spec sets : stops_okb sets = true -> stops_ok sets.
Proof.
  induction sets as [|x r IH]; intro H; cbn [stops_okb stops_ok] in *; [exact I|]. apply andb_prop in H as [H1 H2].
  split; [destruct (fst (next_table_AUT (s_post x ++ afile r))); [discriminate|reflexivity]|apply IH; exact H2].
Qed.

(** rows: none is the closing keyword line, every one has its names *)
Fixpoint row_keys_AUT (kw : str) (keypos : list Z) (ls : list str) : option (list (list str)) :=
  match ls with
  | [] => Some []
  | l :: r => if is_kw kw l then None
              else match key_from_line l keypos, row_keys_AUT kw keypos r with
                   | Ok k, Some ks => Some (k :: ks)
                   | _, _ => None
                   end
  end.
Lemma row_keys_AUT_spec kw keypos ls : forall keys, row_keys_AUT kw keypos ls = Some keys ->
  Forall2 (fun l k => is_kw kw l = false /\ key_from_line l keypos = Ok k) ls keys.
Proof.
  induction ls as [|l r IH]; intros keys H; cbn [row_keys_AUT] in H; [inversion H; constructor|].
  destruct (is_kw kw l) eqn:E; [discriminate|]. destruct (key_from_line l keypos) as [k|] eqn:Ek; [|discriminate].
  destruct (row_keys_AUT kw keypos r) as [ks|]; [|discriminate]. inversion H; subst. constructor; [split; assumption|apply IH; reflexivity].
Qed.
Definition ashape_check (t : atable) : option ltable :=
  match parse_header_AUT (a_hdr t) with
  | Ok (nkeys, cols) =>
    match col0_is_I cols with
    | Ok i0 =>
      match start_of_values (a_row0 t) i0 with
      | Ok (Some st) =>
        if (length cols =? length (split_ws (fstrip (pyslice (Some st) None (a_row0 t)))))%nat then
          match key_positions (pyslice None (Some st) (a_row0 t)) nkeys with
          | Ok (Some ((_ :: _) as keypos)) =>
            match row_keys_AUT (kw_of (a_name t)) keypos (a_rows t) with
            | Some keys => if is_kw (kw_of (a_name t)) (a_kend t) then Some (table_of_AUT cols nkeys st keypos keys) else None
            | None => None
            end
          | _ => None
          end
        else None
      | _ => None
      end
    | Raise _ => None
    end
  | Raise _ => None
  end.
Lemma ashape_check_spec t T : ashape_check t = Some T ->
  exists nkeys cols st keypos keys, ashape t nkeys cols st keypos keys /\ T = table_of_AUT cols nkeys st keypos keys.
Proof.
  unfold ashape_check.
  destruct (parse_header_AUT (a_hdr t)) as [[nkeys cols]|] eqn:E1; [|discriminate].
  destruct (col0_is_I cols) as [i0|] eqn:E2; [|discriminate].
  destruct (start_of_values (a_row0 t) i0) as [[st|]|] eqn:E3; try discriminate.
  destruct (length cols =? _)%nat eqn:E4; [|discriminate].
  destruct (key_positions (pyslice None (Some st) (a_row0 t)) nkeys) as [[[|k0 kr]|]|] eqn:E5; try discriminate.
  destruct (row_keys_AUT (kw_of (a_name t)) (k0 :: kr) (a_rows t)) as [keys|] eqn:E6; [|discriminate].
  destruct (is_kw (kw_of (a_name t)) (a_kend t)) eqn:E7; [|discriminate].
  intro H. inversion H; subst. exists nkeys, cols, st, (k0 :: kr), keys. split; [|reflexivity].
  constructor; [exact E1|exists i0; split; assumption|apply Nat.eqb_eq; exact E4|split; [exact E5|discriminate]|apply row_keys_AUT_spec; exact E6|exact E7].
Qed.
Fixpoint ashapes (us : list atable) : option (list ltable) :=
  match us with
  | [] => Some []
  | t :: r => match ashape_check t, ashapes r with Some T, Some Ts => Some (T :: Ts) | _, _ => None end
  end.
Lemma ashapes_spec us : forall Ts, ashapes us = Some Ts ->
  Forall2 (fun t T => exists nkeys cols st keypos keys, ashape t nkeys cols st keypos keys /\ T = table_of_AUT cols nkeys st keypos keys) us Ts.
Proof.
  induction us as [|t us IH]; intros Ts H; cbn [ashapes] in H; [inversion H; constructor|].
  destruct (ashape_check t) as [T|] eqn:E; [|discriminate]. destruct (ashapes us) as [Ts'|]; [|discriminate].
  inversion H; subst. constructor; [apply ashape_check_spec; exact E|apply IH; reflexivity].
Qed.

Definition alines_okb (t : atable) : bool :=
  negb (is_blank (a_k1 t)) && negb (is_blank (a_cap t)) && is_blank (a_b1 t) && negb (is_blank (a_hdr t)) && is_blank (a_b2 t)
  && negb (is_blank (a_row0 t))
  && forallb (fun l => negb (is_kw (kw_of (a_name t)) l)) (a_b1 t :: a_hdr t :: a_b2 t :: a_rows t)
  && is_kw (kw_of (a_name t)) (a_kend t).
Lemma alines_okb_spec t : alines_okb t = true -> alines_ok t.
Proof.
  unfold alines_okb. intro H. do 7 (let Hn := fresh "C" in apply andb_prop in H as [H Hn]).
  constructor; try (apply negb_true; assumption); try assumption.
  apply (forallb_Forall _ _ _ (fun y Hy => negb_true _ Hy) C0).
Qed.
Definition alaterb (T : ltable) (u : atable) : bool :=
  alines_okb u && (match lt_values T with [] => false | _ => true end)
  && forallb (fun l => (length (decode_AUT T l) =? length (lt_cols T))%nat) (a_rows u)
  && (length (a_rows u) =? length (lt_rows T))%nat
  && forall2b (fun l k => match key_from_line l (lt_keypos T) with Ok k' => names_eqb k' k | Raise _ => false end) (a_rows u) (lt_rows T).
Lemma alaterb_spec T u : alaterb T u = true -> alater T u.
Proof.
  unfold alaterb. intro H. do 4 (let Hn := fresh "C" in apply andb_prop in H as [H Hn]).
  constructor.
  - apply alines_okb_spec. exact H.
  - destruct (lt_values T); [discriminate|discriminate].
  - apply (forallb_Forall _ _ _ (fun y Hy => proj1 (Nat.eqb_eq _ _) Hy) C1).
  - apply Nat.eqb_eq. exact C0.
  - assert (K : forall l k, match key_from_line l (lt_keypos T) with Ok k' => names_eqb k' k | Raise _ => false end = true ->
                            key_from_line l (lt_keypos T) = Ok k).
    { intros l k Hlk. destruct (key_from_line l (lt_keypos T)) as [k'|]; [|discriminate]. apply names_eqb_eq in Hlk. subst k'. reflexivity. }
    apply (forall2b_Forall2 _ _ _ K _ C).
Qed.
Definition knames_okb (its : list (str * atable)) : bool :=
  forallb (fun ku => match table_type_AUT (slice 1 6 (fst ku)) with Some n => str_eqb n (a_name (snd ku)) | None => false end) its.
Lemma knames_okb_spec its : knames_okb its = true -> knames_ok its.
Proof.
  unfold knames_okb, knames_ok. intro H.
  assert (K : forall ku : str * atable, match table_type_AUT (slice 1 6 (fst ku)) with Some n => str_eqb n (a_name (snd ku)) | None => false end = true ->
                          table_type_AUT (slice 1 6 (fst ku)) = Some (a_name (snd ku))).
  { intros ku Hk. destruct (table_type_AUT (slice 1 6 (fst ku))) as [n|]; [|discriminate]. apply str_eqb_eq in Hk. subst n. reflexivity. }
  apply (forallb_Forall _ _ _ K H).
Qed.
Definition alike_okb (names : list str) (Ts : list ltable) (x : aset) : bool :=
  strs_eqb (map a_name (aset_tables x)) names && knames_okb (s_more x) && forall2b alaterb Ts (aset_tables x).
Lemma alike_okb_spec names Ts x : alike_okb names Ts x = true ->
  map a_name (aset_tables x) = names /\ knames_ok (s_more x) /\ Forall2 alater Ts (aset_tables x).
Proof.
  unfold alike_okb. intro H. do 2 (let Hn := fresh "C" in apply andb_prop in H as [H Hn]).
  split; [apply strs_eqb_eq; exact H|]. split; [apply knames_okb_spec; exact C0|apply (forall2b_Forall2 _ _ _ alaterb_spec _ C)].
Qed.
Definition afile_check (sets : list aset) : option (list ltable) :=
  match sets with
  | [] => None
  | x0 :: more =>
      match ashapes (aset_tables x0) with
      | Some Ts =>
          let names := map a_name (aset_tables x0) in
          if forallb aset_okb2 sets && scan_check sets && stops_okb sets && str_eqb (a_name (s_first x0)) n_element
             && nodupb str_eqb names && forallb (alike_okb names Ts) sets
          then Some Ts else None
      | None => None
      end
  end.
Theorem afile_check_sound x0 more Ts : afile_check (x0 :: more) = Some Ts -> afile_ok x0 more Ts.
Proof.
  unfold afile_check. destruct (ashapes (aset_tables x0)) as [Ts'|] eqn:Es; [|discriminate].
  destruct (forallb aset_okb2 (x0 :: more) && _ && _ && _ && _ && _) eqn:C; [|discriminate].
  intro H. inversion H; subst. clear H.
  do 5 (let Hn := fresh "C" in apply andb_prop in C as [C Hn]).
  constructor.
  - apply (forallb_Forall _ _ _ aset_okb2_spec C).
  - apply scan_check_spec. exact C4.
  - apply stops_okb_spec. exact C3.
  - apply str_eqb_eq. exact C2.
  - apply ashapes_spec. exact Es.
  - apply (nodupb_NoDup str_eqb str_eqb_eq). exact C1.
  - apply (forallb_Forall _ _ _ (alike_okb_spec _ _) C0).
Qed.
