(** C05 -- facts about rendered listings (FileT2.v: [file_from], [positions]) that do not depend on the simulator:
    the next-result-set test of next_table_* inside a result set and beyond it. *)
From Coq Require Import Ascii String List Bool Arith ZArith NArith Lia.
From PTBase Require Import Exn PyStr PyNum PyVal.
From P Require Import Model Table Reader TableT2 SetT2 FileT2.
Import ListNotations.

Lemma skipn_S_nth {A} (l : list A) : forall k y, nth_error l (S k) = Some y -> skipn (S k) l = y :: skipn (S (S k)) l.
Proof.
  induction l as [|a l IH]; intros k y H; [destruct k; discriminate|].
  destruct k as [|k]; cbn [nth_error] in H.
  - destruct l; [discriminate|]. cbn in H. inversion H; subst. reflexivity.
  - cbn [skipn]. cbn [skipn] in IH. apply IH. exact H.
Qed.
Lemma pyindex_nat {A} (l : list A) k : k < length l -> pyindex (Z.of_nat k) l = nth_error l k.
Proof.
  intro H. unfold pyindex. replace (Z.of_nat k <? 0)%Z with false by (symmetry; apply Z.ltb_ge; lia).
  replace ((Z.of_nat k <? 0) || (Z.of_nat (length l) <=? Z.of_nat k))%Z with false
    by (symmetry; apply orb_false_intro; [apply Z.ltb_ge; lia|apply Z.leb_gt; lia]).
  rewrite Nat2Z.id. reflexivity.
Qed.
Definition leads_nonempty (sets : list pset) : Prop := Forall (fun y => ps_lead y <> []) sets.
(** a position that still has all of the later result sets (and their lead lines) in front of it is not past the next set *)
Lemma past_inside_gen sets k c : leads_nonempty sets -> k < length sets ->
  past_next_set (positions sets) (Z.of_nat k) (c ++ file_from (skipn (S k) sets)) = Ok false.
Proof.
  intros Hok Hk. unfold past_next_set. rewrite positions_length.
  destruct ((1 <? Z.of_nat (length sets)) && (Z.of_nat k <? Z.of_nat (length sets) - 1))%Z eqn:E; [|reflexivity].
  apply andb_prop in E as [_ E]. apply Z.ltb_lt in E.
  assert (Hk1 : S k < length sets) by lia.
  destruct (nth_error sets (S k)) as [y|] eqn:Ey; [|apply nth_error_None in Ey; lia].
  replace (Z.of_nat k + 1)%Z with (Z.of_nat (S k)) by lia. rewrite pyindex_nat by (rewrite positions_length; lia).
  rewrite (positions_nth sets (S k) y Ey), (skipn_S_nth sets k y Ey). f_equal. apply Nat.leb_gt. rewrite app_length. cbn [file_from]. rewrite app_length.
  assert (ps_lead y <> []) by (unfold leads_nonempty in Hok; rewrite Forall_forall in Hok; apply Hok; eapply nth_error_In; exact Ey).
  destruct (ps_lead y); [congruence|cbn [length]; lia].
Qed.
(** a position inside the next result set is past it *)
Lemma past_beyond_gen sets k y a c1 : nth_error sets (S k) = Some y ->
  set_body y (ps_tail y ++ file_from (skipn (S (S k)) sets)) = a ++ c1 ->
  past_next_set (positions sets) (Z.of_nat k) c1 = Ok true.
Proof.
  intros Ey Ea. unfold past_next_set. rewrite positions_length.
  assert (Hk1 : S k < length sets) by (apply nth_error_Some; congruence).
  replace ((1 <? Z.of_nat (length sets)) && (Z.of_nat k <? Z.of_nat (length sets) - 1))%Z with true
    by (symmetry; apply andb_true_intro; split; apply Z.ltb_lt; lia).
  replace (Z.of_nat k + 1)%Z with (Z.of_nat (S k)) by lia. rewrite pyindex_nat by (rewrite positions_length; lia).
  rewrite (positions_nth sets (S k) y Ey), Ea. f_equal. apply Nat.leb_le. rewrite app_length. lia.
Qed.
(** skipto over lines that do not carry the keyword *)
Lemma skipto1_skip start kw q r : Forall (no_kw start kw) q -> skipto [kw] start (q ++ r) = skipto [kw] start r.
Proof. induction 1 as [|x q H _ IH]; cbn [app skipto List.find]; [reflexivity|]. unfold no_kw in H. rewrite H. exact IH. Qed.
Lemma skipto_suffix kws start c : forall k c1, skipto kws start c = (Some k, c1) -> exists a, c = a ++ c1.
Proof.
  induction c as [|x c IH]; intros k c1 H; cbn [skipto] in H; [discriminate|].
  destruct (List.find (fun kw => starts_at start kw x) kws).
  - inversion H; subst. exists [x]. reflexivity.
  - destruct (IH _ _ H) as [a E]. exists (x :: a). cbn. congruence.
Qed.
Lemma skipto1_none start kw q : Forall (no_kw start kw) q -> skipto [kw] start q = (None, []).
Proof. induction 1 as [|x q H _ IH]; cbn [skipto List.find]; [reflexivity|]. unfold no_kw in H. rewrite H. exact IH. Qed.
