(** C05 -- AUTOUGH2, FILE level: the loops of setup_tables_AUTOUGH2 / read_tables_AUTOUGH2, setup_pos_AUTOUGH2 and
    t2listing(file, skip_tables) + index = i on listings without short output, given generatively:
       result set = lines without 'EEEEE' in columns 1-5, the keyword line that starts the set (the position is after
                    it), the element table, then (keyword line, table) for the other tables, then lines that do not
                    start a table;
    for any number of result sets, tables and rows and for every subset of skipped tables. *)
From Coq Require Import Ascii String List Bool Arith ZArith NArith Lia.
From PTBase Require Import Exn PyStr PyNum PyVal.
From PTModel Require Import Fortran.
From P Require Import Model Table Reader TableT2 SetT2 FileT2 CodecT2 CheckT2 FileG TableAUT.
Import ListNotations.
Open Scope char_scope.

(** [line[1:6] == kw] and [line[1:].startswith(kw)] agree for the five-character keywords *)
Lemma prefix_firstn p : forall s, prefix p s = str_eqb (firstn (length p) s) p.
Proof.
  induction p as [|x p IH]; intros [|y s]; cbn [prefix length firstn str_eqb]; try reflexivity.
  rewrite IH. unfold ceqb. rewrite (Ascii.eqb_sym x y). reflexivity.
Qed.
Lemma is_kw_starts kw l : length kw = 5 -> is_kw kw l = starts_at 1 kw l.
Proof. intro H. unfold is_kw, starts_at, slice. rewrite prefix_firstn, H. reflexivity. Qed.
Definition kwE : str := kw5 "E".

(** ** the loop over the tables of one result set *)
Definition set_hdr (st : lstate) (h : str * pyval * pyval) : lstate :=
  {| s_sim := s_sim st; s_title := fst (fst h); s_skip := s_skip st; s_fullpos := s_fullpos st; s_index := s_index st;
     s_time := snd (fst h); s_step := snd h; s_tables := s_tables st |}.
Fixpoint arest (its : list (str * atable)) (after : cur) : cur :=
  match its with [] => after | (k, u) :: its' => k :: a_lines u ++ arest its' after end.
Definition knames_ok (its : list (str * atable)) : Prop := Forall (fun ku => table_type_AUT (slice 1 6 (fst ku)) = Some (a_name (snd ku))) its.
Fixpoint added_n (skip : list str) (ns : list str) (Ts : list ltable) : tabs :=
  match ns, Ts with
  | n :: ns', T :: Ts' => if in_names n skip then added_n skip ns' Ts' else (n, T) :: added_n skip ns' Ts'
  | _, _ => []
  end.
Lemma added_n_tabs_with skip ns : forall Ts, length Ts = length ns -> added_n skip ns Ts = tabs_with skip Ts ns (map lt_data Ts).
Proof.
  induction ns as [|n ns IH]; intros [|T Ts] HL; try discriminate; [reflexivity|].
  cbn [added_n map tabs_with]. rewrite with_data_same. rewrite IH by (cbn in HL; lia). reflexivity.
Qed.
Definition asetup_ok (skip : list str) (u : atable) (T : ltable) : Prop :=
  if in_names (a_name u) skip then forall r, skip_table_AUT (a_name u) (a_body u ++ r) = Ok r
  else forall r, setup_table_AUT (a_name u) (a_body u ++ r) = Ok (T, r).
Definition last_hdr (t : atable) (its : list (str * atable)) : str * pyval * pyval := header_of (last (map snd its) t).

Lemma aut_setup_loop its : forall fuel st t Ts after,
  length its < fuel -> Forall2 (asetup_ok (s_skip st)) (t :: map snd its) Ts -> knames_ok its -> fst (next_table_AUT after) = None ->
  tables_loop_AUT fuel true st (a_name t) (a_lines t ++ arest its after)
  = Ok (with_tables (set_hdr st (last_hdr t its)) (s_tables st ++ added_n (s_skip st) (map a_name (t :: map snd its)) Ts)).
Proof.
  induction its as [|[k u] its IH]; intros fuel st t Ts after Hf HT Hk Hend.
  - destruct fuel as [|f]; [cbn in Hf; lia|]. destruct Ts as [|T Ts']; [inversion HT|]. apply Forall2_cons_inv in HT as [HT1 HT2]. inversion HT2; subst.
    cbn [tables_loop_AUT arest map added_n]. rewrite read_header_a_lines. cbn [s_skip]. unfold asetup_ok in HT1. unfold last_hdr. cbn [map last].
    destruct (in_names (a_name t) (s_skip st)) eqn:E.
    + rewrite HT1. cbn [bind]. destruct (next_table_AUT after) as [o c2]. cbn [fst] in Hend. subst o. rewrite app_nil_r. destruct st; reflexivity.
    + rewrite HT1. cbn [bind fst snd]. destruct (next_table_AUT after) as [o c2]. cbn [fst] in Hend. subst o. reflexivity.
  - destruct fuel as [|f]; [cbn in Hf; lia|]. destruct Ts as [|T Ts']; [inversion HT|]. apply Forall2_cons_inv in HT as [HT1 HT2].
    inversion Hk as [|? ? Hk1 Hk2]; subst. cbn [fst snd] in Hk1. cbn [map snd] in HT2.
    cbn [tables_loop_AUT arest map snd added_n]. rewrite read_header_a_lines. cbn [s_skip]. unfold asetup_ok in HT1.
    assert (Hl : last_hdr t ((k, u) :: its) = last_hdr u its) by (unfold last_hdr; cbn [map snd]; rewrite last_cons_default; reflexivity).
    rewrite Hl.
    destruct (in_names (a_name t) (s_skip st)) eqn:E.
    + rewrite HT1. cbn [bind]. unfold next_table_AUT. cbn [readline]. rewrite Hk1.
      match goal with |- tables_loop_AUT f true ?S _ _ = _ => rewrite (IH f S u Ts' after ltac:(cbn [length] in Hf; lia) HT2 Hk2 Hend) end. reflexivity.
    + rewrite HT1. cbn [bind fst snd]. unfold next_table_AUT. cbn [readline]. rewrite Hk1.
      match goal with |- tables_loop_AUT f true ?S _ _ = _ => rewrite (IH f S u Ts' after ltac:(cbn [length] in Hf; lia) HT2 Hk2 Hend) end.
      cbn [with_tables set_hdr s_tables s_skip s_sim s_fullpos s_index]. unfold tab_add. rewrite <- app_assoc. reflexivity.
Qed.

(** reading *)
Definition aread_ok (skip : list str) (ts : tabs) (u : atable) (TT : ltable * ltable) : Prop :=
  if in_names (a_name u) skip then forall r, skip_table_AUT (a_name u) (a_body u ++ r) = Ok r
  else tab_get (a_name u) ts = Some (fst TT) /\ forall r, read_table_AUT (a_name u) (fst TT) (a_body u ++ r) = Ok (snd TT, r).
Fixpoint updated_n (skip : list str) (ns : list str) (TTs : list (ltable * ltable)) (ts : tabs) : tabs :=
  match ns, TTs with
  | n :: ns', TT :: r => updated_n skip ns' r (if in_names n skip then ts else tab_set n (snd TT) ts)
  | _, _ => ts
  end.
Lemma aread_ok_other skip ts u TT m X : str_eqb m (a_name u) = false -> aread_ok skip ts u TT -> aread_ok skip (tab_set m X ts) u TT.
Proof. intros Hm H. unfold aread_ok in *. rewrite (tab_get_set_other _ _ X ts Hm). exact H. Qed.

Lemma aut_read_loop its : forall fuel st t TTs after,
  length its < fuel -> NoDup (map a_name (t :: map snd its)) ->
  Forall2 (aread_ok (s_skip st) (s_tables st)) (t :: map snd its) TTs -> knames_ok its -> fst (next_table_AUT after) = None ->
  tables_loop_AUT fuel false st (a_name t) (a_lines t ++ arest its after)
  = Ok (with_tables (set_hdr st (last_hdr t its)) (updated_n (s_skip st) (map a_name (t :: map snd its)) TTs (s_tables st))).
Proof.
  induction its as [|[k u] its IH]; intros fuel st t TTs after Hf Hnd HT Hk Hend.
  - destruct fuel as [|f]; [cbn in Hf; lia|]. destruct TTs as [|TT TTs']; [inversion HT|]. apply Forall2_cons_inv in HT as [HT1 HT2]. inversion HT2; subst.
    cbn [tables_loop_AUT arest map updated_n]. rewrite read_header_a_lines. cbn [s_skip s_tables]. unfold aread_ok in HT1. unfold last_hdr. cbn [map last].
    destruct (in_names (a_name t) (s_skip st)) eqn:E.
    + rewrite HT1. cbn [bind]. destruct (next_table_AUT after) as [o c2]. cbn [fst] in Hend. subst o. destruct st; reflexivity.
    + destruct HT1 as [Hg Hr]. rewrite Hg, Hr. cbn [bind fst snd]. destruct (next_table_AUT after) as [o c2]. cbn [fst] in Hend. subst o. reflexivity.
  - destruct fuel as [|f]; [cbn in Hf; lia|]. destruct TTs as [|TT TTs']; [inversion HT|]. apply Forall2_cons_inv in HT as [HT1 HT2].
    inversion Hk as [|? ? Hk1 Hk2]; subst. cbn [fst snd] in Hk1. cbn [map snd] in HT2.
    cbn [tables_loop_AUT arest map snd updated_n]. rewrite read_header_a_lines. cbn [s_skip s_tables]. unfold aread_ok in HT1.
    assert (Hl : last_hdr t ((k, u) :: its) = last_hdr u its) by (unfold last_hdr; cbn [map snd]; rewrite last_cons_default; reflexivity).
    rewrite Hl.
    assert (Hnd' : NoDup (map a_name (u :: map snd its))) by (cbn [map snd] in Hnd; apply NoDup_cons_iff in Hnd as [_ Hnd]; exact Hnd).
    assert (Hneq : forall v, In v (u :: map snd its) -> str_eqb (a_name t) (a_name v) = false).
    { intros v Hv. cbn [map snd] in Hnd. apply NoDup_cons_iff in Hnd as [Hni _]. destruct (str_eqb (a_name t) (a_name v)) eqn:E; [|reflexivity].
      apply str_eqb_eq in E. exfalso. apply Hni. rewrite E. exact (in_map a_name (u :: map snd its) v Hv). }
    destruct (in_names (a_name t) (s_skip st)) eqn:E.
    + rewrite HT1. cbn [bind]. unfold next_table_AUT. cbn [readline]. rewrite Hk1.
      match goal with |- tables_loop_AUT f false ?S _ _ = _ => rewrite (IH f S u TTs' after ltac:(cbn [length] in Hf; lia) Hnd' HT2 Hk2 Hend) end. reflexivity.
    + destruct HT1 as [Hg Hr]. rewrite Hg, Hr. cbn [bind fst snd]. unfold next_table_AUT. cbn [readline]. rewrite Hk1.
      match goal with |- tables_loop_AUT f false ?S _ _ = _ => rewrite (IH f S u TTs' after ltac:(cbn [length] in Hf; lia) Hnd') end.
      * reflexivity.
      * cbn [with_tables set_hdr s_tables s_skip].
        clear - HT2 Hneq. revert HT2 Hneq. generalize (u :: map snd its) as us. intros us HT2. induction HT2 as [|v TT' vs TTs HU _ IHF]; intro Hneq; constructor.
        -- apply aread_ok_other; [apply Hneq; left; reflexivity|exact HU].
        -- apply IHF. intros w Hw. apply Hneq. right. exact Hw.
      * exact Hk2.
      * exact Hend.
Qed.

Lemma updated_n_cons_other skip ns : forall TTs n X ts, (forall m, In m ns -> str_eqb m n = false) ->
  updated_n skip ns TTs ((n, X) :: ts) = (n, X) :: updated_n skip ns TTs ts.
Proof.
  induction ns as [|m ns IH]; intros [|TT TTs] n X ts Hneq; try reflexivity. cbn [updated_n].
  destruct (in_names m skip).
  - apply IH. intros v Hv. apply Hneq. right. exact Hv.
  - cbn [tab_set]. replace (str_eqb n m) with false.
    + apply IH. intros v Hv. apply Hneq. right. exact Hv.
    + symmetry. destruct (str_eqb n m) eqn:E; [|reflexivity]. apply str_eqb_eq in E. subst n.
      pose proof (Hneq m (or_introl eq_refl)) as Hf. rewrite str_eqb_refl in Hf. discriminate.
Qed.
(** the pairs (table before, table after) of a read over structures [Ts] holding [ds], giving [ds'] *)
Fixpoint TT3 (Ts : list ltable) (ds ds' : list tdata) : list (ltable * ltable) :=
  match Ts, ds, ds' with T :: Ts', d :: r, d' :: r' => (with_data T d, with_data T d') :: TT3 Ts' r r' | _, _, _ => [] end.
Lemma updated_n_tabs_with skip ns : forall Ts ds ds', NoDup ns -> length Ts = length ns -> length ds = length ns -> length ds' = length ns ->
  updated_n skip ns (TT3 Ts ds ds') (tabs_with skip Ts ns ds) = tabs_with skip Ts ns ds'.
Proof.
  induction ns as [|n ns IH]; intros [|T Ts] [|d ds] [|d' ds'] Hnd H1 H2 H3; try discriminate; [reflexivity|].
  apply NoDup_cons_iff in Hnd as [Hni Hnd]. cbn [tabs_with TT3 updated_n]. destruct (in_names n skip) eqn:E.
  - apply IH; [exact Hnd|cbn in H1; lia|cbn in H2; lia|cbn in H3; lia].
  - cbn [tab_set snd]. rewrite str_eqb_refl. rewrite updated_n_cons_other.
    + rewrite IH; [reflexivity|exact Hnd|cbn in H1; lia|cbn in H2; lia|cbn in H3; lia].
    + intros m Hm. destruct (str_eqb m n) eqn:E2; [|reflexivity]. apply str_eqb_eq in E2. subst m. contradiction.
Qed.

(** ** result sets and files *)
Record aset := { s_pre : list str; s_kwl : str; s_first : atable; s_more : list (str * atable); s_post : list str }.
Definition aset_tables (x : aset) : list atable := s_first x :: map snd (s_more x).
Definition aset_body (x : aset) (after : cur) : cur := a_lines (s_first x) ++ arest (s_more x) (s_post x ++ after).
Fixpoint afile (sets : list aset) : cur := match sets with [] => [] | x :: r => s_pre x ++ s_kwl x :: aset_body x (afile r) end.
Fixpoint apositions (sets : list aset) : list cur := match sets with [] => [] | x :: r => aset_body x (afile r) :: apositions r end.
Lemma arest_app its a b : arest its (a ++ b) = arest its a ++ b.
Proof. induction its as [|[k u] its IH]; cbn [arest]; [reflexivity|]. rewrite IH. cbn [app]. rewrite <- app_assoc. reflexivity. Qed.
Lemma apositions_length sets : length (apositions sets) = length sets.
Proof. induction sets; cbn [apositions length]; congruence. Qed.
Lemma apositions_nth sets : forall k x, nth_error sets k = Some x ->
  nth_error (apositions sets) k = Some (aset_body x (afile (skipn (S k) sets))).
Proof.
  induction sets as [|y sets IH]; intros [|k] x H; cbn in H; try discriminate.
  - inversion H; subst. reflexivity.
  - cbn [apositions nth_error skipn]. apply IH. exact H.
Qed.

Definition noE (l : str) : Prop := no_kw 1 kwE l.
Record aset_ok (x : aset) : Prop := {
  ao_pre : Forall noE (s_pre x);
  ao_kw : starts_at 1 kwE (s_kwl x) = true;
  ao_first : Forall noE (a_cap (s_first x) :: a_b1 (s_first x) :: a_hdr (s_first x) :: a_b2 (s_first x) :: a_rows (s_first x));
  ao_kend : starts_at 1 kwE (a_kend (s_first x)) = true;
  ao_rest : Forall noE (a_after (s_first x) :: arest (s_more x) (s_post x))
}.
Lemma skipto_none kws start c : Forall (fun l => List.find (fun kw => starts_at start kw l) kws = None) c -> skipto kws start c = (None, []).
Proof. induction 1 as [|l c H _ IH]; cbn [skipto]; [reflexivity|]. rewrite H. exact IH. Qed.

Lemma setup_pos_AUT_spec sets : forall fuel z, Forall aset_ok sets -> length sets < fuel -> Forall noE z ->
  setup_pos_AUT fuel [kwE] (z ++ afile sets) = Ok (apositions sets).
Proof.
  induction sets as [|x sets IH]; intros fuel z Hok Hf Hz.
  - destruct fuel as [|f]; [cbn in Hf; lia|]. cbn [afile setup_pos_AUT apositions]. rewrite app_nil_r.
    rewrite skipto_none; [reflexivity|]. eapply Forall_impl; [|exact Hz]. intros l Hl. cbn [List.find]. unfold noE, no_kw in Hl. rewrite Hl. reflexivity.
  - destruct fuel as [|f]; [cbn in Hf; lia|]. inversion Hok as [|? ? [H1 H2 H3 H4 H5] Hok']; subst.
    cbn [afile setup_pos_AUT apositions]. rewrite app_assoc.
    rewrite (skipto1_app 1 kwE (z ++ s_pre x) (s_kwl x) _ ltac:(apply Forall_app; split; assumption) H2).
    unfold aset_body at 1. rewrite read_header_a_lines. unfold a_body. cbn [app skiplines skipn].
    replace (a_cap (s_first x) :: a_b1 (s_first x) :: a_hdr (s_first x) :: a_b2 (s_first x) :: (a_rows (s_first x) ++ [a_kend (s_first x); a_after (s_first x)]) ++ arest (s_more x) (s_post x ++ afile sets))
      with ((a_cap (s_first x) :: a_b1 (s_first x) :: a_hdr (s_first x) :: a_b2 (s_first x) :: a_rows (s_first x)) ++ a_kend (s_first x) :: (a_after (s_first x) :: arest (s_more x) (s_post x)) ++ afile sets)
      by (cbn [app]; rewrite <- !app_assoc; cbn [app]; rewrite arest_app; reflexivity).
    rewrite (skipto1_app 1 kwE _ _ _ H3 H4). cbn [snd].
    rewrite (IH f _ Hok' ltac:(cbn [length] in Hf; lia) H5). cbn [bind]. replace (str_eqb kwE (kw5 "E")) with true by reflexivity. reflexivity.
Qed.

(** ** short output: xSHORT blocks between the full result sets

    With short output setup_pos_AUTOUGH2 looks for 'EEEEE' or the first short keyword (ESHORT / CSHORT / GSHORT, whichever
    setup_short_types met first).  A short block = its keyword line, three header lines, one more line, lines without that
    keyword, and the closing keyword line; it is passed over.  [scanb] recognises a stretch of lines that holds only such
    blocks (and no 'EEEEE' line) and counts them. *)
Definition trigA (ks : list str) (l : str) : bool := match List.find (fun kw => starts_at 1 kw l) ks with Some _ => true | None => false end.
Fixpoint scanb (fuel : nat) (ks : list str) (g : list str) : option nat :=
  match fuel with
  | O => None
  | S f =>
      match break_at (trigA ks) g with
      | None => Some 0
      | Some (_, l, rest) =>
          match List.find (fun kw => starts_at 1 kw l) ks with
          | Some kw => if str_eqb kw kwE then None
                       else match rest with
                            | _ :: _ :: _ :: _ :: rest2 =>
                                match break_at (starts_at 1 kw) rest2 with
                                | Some (_, _, rest3) => option_map S (scanb f ks rest3)
                                | None => None
                                end
                            | _ => None
                            end
          | None => None
          end
      end
  end.
Lemma skipto_quiet ks start q r : Forall (fun l => List.find (fun kw => starts_at start kw l) ks = None) q -> skipto ks start (q ++ r) = skipto ks start r.
Proof. induction 1 as [|x q H _ IH]; cbn [app skipto]; [reflexivity|]. rewrite H. exact IH. Qed.
Lemma bind_ret_list (x : res (list cur)) : (do r <- x; Ok r) = x.
Proof. destruct x; reflexivity. Qed.
Lemma scan_spec fuel ks : forall g nb, scanb fuel ks g = Some nb -> forall f r, setup_pos_AUT (nb + f) ks (g ++ r) = setup_pos_AUT f ks r.
Proof.
  induction fuel as [|fu IH]; intros g nb H f r; cbn [scanb] in H; [discriminate|].
  destruct (break_at (trigA ks) g) as [[[q l] rest]|] eqn:E.
  - destruct (break_at_spec _ _ _ _ _ E) as [E1 [E2 E3]]. unfold trigA in E3.
    destruct (List.find (fun kw => starts_at 1 kw l) ks) as [kw|] eqn:Ef; [|discriminate].
    destruct (str_eqb kw kwE) eqn:Ek; [discriminate|]. destruct rest as [|a [|b [|c [|d rest2]]]]; try discriminate.
    destruct (break_at (starts_at 1 kw) rest2) as [[[body e] rest3]|] eqn:E4; [|discriminate].
    destruct (scanb fu ks rest3) as [nb'|] eqn:E5; [|discriminate]. cbn [option_map] in H. inversion H; subst nb.
    destruct (break_at_spec _ _ _ _ _ E4) as [F1 [F2 F3]].
    cbn [Nat.add setup_pos_AUT]. subst g. rewrite <- app_assoc. cbn [app].
    rewrite skipto_quiet.
    2:{ eapply Forall_impl; [|exact E2]. intros x Hx. unfold trigA in Hx. destruct (List.find (fun kw0 => starts_at 1 kw0 x) ks); [discriminate|reflexivity]. }
    cbn [skipto]. rewrite Ef. unfold read_header_AUT. cbn [readline skiplines skipn].
    rewrite F1, <- app_assoc. cbn [app]. rewrite (skipto1_app 1 kw body e _ F2 F3). cbn [snd].
    rewrite (IH rest3 nb' E5 f r). unfold kwE in Ek. rewrite Ek. apply bind_ret_list.
  - inversion H; subst nb. cbn [Nat.add]. destruct f as [|f']; [reflexivity|]. cbn [setup_pos_AUT].
    rewrite skipto_quiet; [reflexivity|]. clear - E. revert E. induction g as [|x g IHg]; intro E; [constructor|]. cbn [break_at] in E.
    destruct (trigA ks x) eqn:Ex; [discriminate|]. destruct (break_at (trigA ks) g) as [[[? ?] ?]|] eqn:Eg; [discriminate|].
    constructor; [unfold trigA in Ex; destruct (List.find (fun kw => starts_at 1 kw x) ks); [discriminate|reflexivity]|apply IHg; reflexivity].
Qed.
Lemma scanb_bound fuel ks : forall g nb, scanb fuel ks g = Some nb -> nb <= length g.
Proof.
  induction fuel as [|fu IH]; intros g nb H; cbn [scanb] in H; [discriminate|].
  destruct (break_at (trigA ks) g) as [[[q l] rest]|] eqn:E; [|inversion H; lia].
  destruct (break_at_spec _ _ _ _ _ E) as [E1 _]. destruct (List.find (fun kw => starts_at 1 kw l) ks) as [kw|]; [|discriminate].
  destruct (str_eqb kw kwE); [discriminate|]. destruct rest as [|a [|b [|c [|d rest2]]]]; try discriminate.
  destruct (break_at (starts_at 1 kw) rest2) as [[[body e] rest3]|] eqn:E4; [|discriminate].
  destruct (break_at_spec _ _ _ _ _ E4) as [F1 _].
  destruct (scanb fu ks rest3) as [nb'|] eqn:E5; [|discriminate]. cbn [option_map] in H. inversion H; subst nb.
  pose proof (IH _ _ E5). subst g rest2. rewrite !app_length. cbn [length]. rewrite !app_length. cbn [length]. lia.
Qed.
(** the stretches between the keyword lines of the full result sets *)
Record aset_ok2 (x : aset) : Prop := {
  a2_kw : starts_at 1 kwE (s_kwl x) = true;
  a2_first : Forall noE (a_cap (s_first x) :: a_b1 (s_first x) :: a_hdr (s_first x) :: a_b2 (s_first x) :: a_rows (s_first x));
  a2_kend : starts_at 1 kwE (a_kend (s_first x)) = true
}.
Fixpoint gaps_okA (ks : list str) (z : list str) (sets : list aset) : option nat :=
  match sets with
  | [] => scanb (S (length z)) ks z
  | x :: r => match scanb (S (length (z ++ s_pre x))) ks (z ++ s_pre x), gaps_okA ks (a_after (s_first x) :: arest (s_more x) (s_post x)) r with
              | Some a, Some b => Some (a + b)
              | _, _ => None
              end
  end.
Lemma setup_pos_AUT_gen ks' sets : forall z N f, Forall aset_ok2 sets -> gaps_okA (kwE :: ks') z sets = Some N -> length sets < f ->
  setup_pos_AUT (N + f) (kwE :: ks') (z ++ afile sets) = Ok (apositions sets).
Proof.
  induction sets as [|x sets IH]; intros z N f Hok HN Hf; cbn [gaps_okA] in HN.
  - cbn [afile apositions]. rewrite (scan_spec _ _ _ _ HN f []). destruct f as [|f']; [lia|]. reflexivity.
  - destruct (scanb (S (length (z ++ s_pre x))) (kwE :: ks') (z ++ s_pre x)) as [a|] eqn:Ea; [|discriminate].
    destruct (gaps_okA (kwE :: ks') (a_after (s_first x) :: arest (s_more x) (s_post x)) sets) as [b|] eqn:Eb; [|discriminate]. inversion HN; subst N.
    inversion Hok as [|? ? [H2 H3 H4] Hok']; subst.
    cbn [afile apositions]. rewrite app_assoc. replace (a + b + f) with (a + (b + f)) by lia. rewrite (scan_spec _ _ _ _ Ea).
    destruct f as [|f']; [cbn in Hf; lia|]. replace (b + S f') with (S (b + f')) by lia. cbn [setup_pos_AUT skipto List.find]. rewrite H2.
    unfold aset_body at 1. rewrite read_header_a_lines. unfold a_body. cbn [app skiplines skipn].
    replace (a_cap (s_first x) :: a_b1 (s_first x) :: a_hdr (s_first x) :: a_b2 (s_first x) :: (a_rows (s_first x) ++ [a_kend (s_first x); a_after (s_first x)]) ++ arest (s_more x) (s_post x ++ afile sets))
      with ((a_cap (s_first x) :: a_b1 (s_first x) :: a_hdr (s_first x) :: a_b2 (s_first x) :: a_rows (s_first x)) ++ a_kend (s_first x) :: (a_after (s_first x) :: arest (s_more x) (s_post x)) ++ afile sets)
      by (cbn [app]; rewrite <- !app_assoc; cbn [app]; rewrite arest_app; reflexivity).
    rewrite (skipto1_app 1 kwE _ _ _ H3 H4). cbn [snd].
    rewrite (IH _ b f' Hok' Eb ltac:(cbn [length] in Hf; lia)). cbn [bind]. replace (str_eqb kwE (kw5 "E")) with true by reflexivity. reflexivity.
Qed.
Lemma gaps_bound ks sets : forall z N, gaps_okA ks z sets = Some N -> N + length sets <= length (z ++ afile sets).
Proof.
  induction sets as [|x sets IH]; intros z N H; cbn [gaps_okA afile] in *.
  - rewrite app_nil_r. pose proof (scanb_bound _ _ _ _ H). cbn [length]. lia.
  - destruct (scanb _ ks (z ++ s_pre x)) as [a|] eqn:Ea; [|discriminate]. destruct (gaps_okA ks _ sets) as [b|] eqn:Eb; [|discriminate]. inversion H; subst N.
    pose proof (scanb_bound _ _ _ _ Ea). pose proof (IH _ _ Eb). unfold aset_body. rewrite !app_length in *. cbn [length] in *. rewrite !app_length in *.
    rewrite arest_app, app_length in *. cbn [length] in *. assert (1 <= length (a_lines (s_first x))) by (unfold a_lines; cbn [length]; lia). lia.
Qed.

(** ** the whole-file statement *)
Fixpoint adec (Ts : list ltable) (us : list atable) : list tdata :=
  match Ts, us with T :: Ts', u :: us' => map (decode_AUT T) (a_rows u) :: adec Ts' us' | _, _ => [] end.
Fixpoint stops_ok (sets : list aset) : Prop :=
  match sets with [] => True | x :: r => fst (next_table_AUT (s_post x ++ afile r)) = None /\ stops_ok r end.
Definition no_short (l : str) : Prop := List.find (fun kw => starts_at 1 kw l) short_kws = None.
(** a table printed like the structure [T] expects: the blank-line structure, one row per row of [T], each with as many numbers as columns *)
Record alater (T : ltable) (u : atable) : Prop := {
  av_lines : alines_ok u;
  av_vals : lt_values T <> [];
  av_cols : Forall (fun l => length (decode_AUT T l) = length (lt_cols T)) (a_rows u);
  av_rows : length (a_rows u) = length (lt_rows T);
  av_keys : Forall2 (fun l k => key_from_line l (lt_keypos T) = Ok k) (a_rows u) (lt_rows T)
}.

Lemma asetup_all_gen skip us Ts :
  Forall2 (fun t T => exists nkeys cols st keypos keys, ashape t nkeys cols st keypos keys /\ T = table_of_AUT cols nkeys st keypos keys) us Ts ->
  Forall2 alater Ts us -> Forall2 (asetup_ok skip) us Ts.
Proof.
  intro H. induction H as [|t T ts Ts' [nk [cols [st [kp [keys [HP HT]]]]]] _ IH]; intro HL; constructor.
  - apply Forall2_cons_inv in HL as [[Hlines _ _ _ _] _]. unfold asetup_ok. destruct (in_names (a_name t) skip); intro r.
    + apply skip_table_AUT_spec. exact Hlines.
    + subst T. apply setup_table_AUT_spec. exact HP.
  - apply IH. apply Forall2_cons_inv in HL as [_ HL]. exact HL.
Qed.
Lemma ainitial_heights_gen us Ts :
  Forall2 (fun t T => exists nkeys cols st keypos keys, ashape t nkeys cols st keypos keys /\ T = table_of_AUT cols nkeys st keypos keys) us Ts ->
  Forall2 (fun T d => length d = length (lt_rows T)) Ts (map lt_data Ts).
Proof.
  intro H. induction H as [|t T ts Ts' [nk [cols [st [kp [keys [HP HT]]]]]] _ IH]; cbn [map]; constructor; [|exact IH].
  subst T. unfold table_of_AUT, new_table. cbn [lt_data lt_rows]. apply repeat_length.
Qed.

Section CodecAUT.
  Variables (x0 : aset) (more_sets : list aset) (Ts : list ltable).
  Let sets := x0 :: more_sets.
  Let names := map a_name (aset_tables x0).
  Record afile_ok : Prop := {
    fa_sets : Forall aset_ok2 sets;
    fa_scan : exists sh N, setup_short_types (S (length (afile sets))) [] (afile sets) = Ok sh /\ gaps_okA (kwE :: firstn 1 sh) [] sets = Some N;
    fa_stops : stops_ok sets;
    fa_elem : a_name (s_first x0) = n_element;
    fa_shape : Forall2 (fun t T => exists nkeys cols st keypos keys, ashape t nkeys cols st keypos keys /\ T = table_of_AUT cols nkeys st keypos keys) (aset_tables x0) Ts;
    fa_names : NoDup names;
    fa_like : Forall (fun x => map a_name (aset_tables x) = names /\ knames_ok (s_more x) /\ Forall2 alater Ts (aset_tables x)) sets
  }.
  Hypothesis OK : afile_ok.

  Definition astate_at (skip : list str) (k : nat) (x : aset) : lstate :=
    let h := last_hdr (s_first x) (s_more x) in
    {| s_sim := AUT; s_title := fst (fst h); s_skip := skip; s_fullpos := apositions sets; s_index := Z.of_nat k;
       s_time := snd (fst h); s_step := snd h; s_tables := tabs_with skip Ts names (adec Ts (aset_tables x)) |}.
  Definition areader_state (skip : list str) (st : lstate) : Prop :=
    s_sim st = AUT /\ s_skip st = skip /\ s_fullpos st = apositions sets /\
    exists ds, length ds = length Ts /\ Forall2 (fun T d => length d = length (lt_rows T)) Ts ds /\ s_tables st = tabs_with skip Ts names ds.

  Lemma aset_like x : In x sets -> map a_name (aset_tables x) = names /\ knames_ok (s_more x) /\ Forall2 alater Ts (aset_tables x).
  Proof. intro H. pose proof (fa_like OK) as F. rewrite Forall_forall in F. apply F. exact H. Qed.
  Lemma aTs_length : length Ts = length (aset_tables x0).
  Proof. symmetry. exact (Forall2_len _ _ _ (fa_shape OK)). Qed.
  Lemma adec_heights x : In x sets -> Forall2 (fun T d => length d = length (lt_rows T)) Ts (adec Ts (aset_tables x)).
  Proof.
    intro H. destruct (aset_like x H) as [_ [_ HL]]. clear - HL. induction HL as [|T u Ts' us [_ _ _ Hr _] _ IH]; cbn [adec]; constructor; [|exact IH].
    rewrite map_length. exact Hr.
  Qed.
  Lemma names_length : length names = length Ts.
  Proof. unfold names. rewrite map_length. symmetry. exact aTs_length. Qed.
  Lemma names_length_sym : length Ts = length names.
  Proof. symmetry. exact names_length. Qed.
  Lemma adec_length x : In x sets -> length (adec Ts (aset_tables x)) = length Ts.
  Proof. intro H. symmetry. exact (Forall2_len _ _ _ (adec_heights x H)). Qed.
  Lemma astate_at_reader skip k x : In x sets -> areader_state skip (astate_at skip k x).
  Proof.
    intro H. unfold areader_state, astate_at. cbn. repeat split. exists (adec Ts (aset_tables x)).
    split; [symmetry; exact (Forall2_len _ _ _ (adec_heights x H))|]. split; [apply adec_heights; exact H|reflexivity].
  Qed.
  Lemma stops_nth : forall (l : list aset) k x, stops_ok l -> nth_error l k = Some x -> fst (next_table_AUT (s_post x ++ afile (skipn (S k) l))) = None.
  Proof.
    induction l as [|y l IH]; intros [|k] x Hs Hk; cbn in Hk; try discriminate; destruct Hs as [H1 H2].
    - inversion Hk; subst. exact H1.
    - cbn [skipn]. apply IH; assumption.
  Qed.
  Lemma arest_length its after : length its <= length (arest its after).
  Proof. induction its as [|[k u] its IH]; cbn [arest length]; [lia|]. rewrite app_length. lia. Qed.

  Theorem aut_set_index_spec skip st k x i : areader_state skip st -> nth_error sets k = Some x ->
    (i = Z.of_nat k \/ i = (Z.of_nat k - Z.of_nat (length sets))%Z) ->
    set_index st i = Ok (astate_at skip k x).
  Proof.
    intros [Hsim [Hskip [Hpos [ds [Hdl [Hdh Htab]]]]]] Hk Hi.
    assert (Hin : In x sets) by (eapply nth_error_In; exact Hk).
    assert (Hkl : k < length sets) by (apply nth_error_Some; congruence).
    destruct (aset_like x Hin) as [Hnm [Hkn HL]].
    unfold set_index. rewrite Hpos.
    assert (Hpy : pyindex i (apositions sets) = Some (aset_body x (afile (skipn (S k) sets)))).
    { unfold pyindex. rewrite apositions_length. destruct Hi as [Hi|Hi]; subst i.
      - replace (Z.of_nat k <? 0)%Z with false by (symmetry; apply Z.ltb_ge; lia).
        replace ((Z.of_nat k <? 0) || (Z.of_nat (length sets) <=? Z.of_nat k))%Z with false
          by (symmetry; apply orb_false_intro; [apply Z.ltb_ge; lia|apply Z.leb_gt; lia]).
        rewrite Nat2Z.id. apply apositions_nth. exact Hk.
      - replace (Z.of_nat k - Z.of_nat (length sets) <? 0)%Z with true by (symmetry; apply Z.ltb_lt; lia).
        replace (Z.of_nat k - Z.of_nat (length sets) + Z.of_nat (length sets))%Z with (Z.of_nat k) by lia.
        replace ((Z.of_nat k <? 0) || (Z.of_nat (length sets) <=? Z.of_nat k))%Z with false
          by (symmetry; apply orb_false_intro; [apply Z.ltb_ge; lia|apply Z.leb_gt; lia]).
        rewrite Nat2Z.id. apply apositions_nth. exact Hk. }
    rewrite Hpy.
    assert (Hidx : (if (i <? 0)%Z then (i + Z.of_nat (length (apositions sets)))%Z else i) = Z.of_nat k).
    { rewrite apositions_length. destruct Hi as [Hi|Hi]; subst i.
      - replace (Z.of_nat k <? 0)%Z with false by (symmetry; apply Z.ltb_ge; lia). reflexivity.
      - replace (Z.of_nat k - Z.of_nat (length sets) <? 0)%Z with true by (symmetry; apply Z.ltb_lt; lia). lia. }
    rewrite Hidx. unfold read_tables. cbn [with_index s_sim]. rewrite Hsim. cbn [sim_eqb].
    assert (Hel : n_element = a_name (s_first x)).
    { rewrite <- (fa_elem OK). pose proof Hnm as E. unfold names, aset_tables in E. cbn [map] in E. inversion E. reflexivity. }
    rewrite Hel. unfold aset_body.
    assert (Hlen : length (aset_tables x) = length Ts) by (symmetry; exact (Forall2_len _ _ _ HL)).
    rewrite (aut_read_loop (s_more x) _ (with_index st (Z.of_nat k)) (s_first x) (TT3 Ts ds (adec Ts (aset_tables x)))).
    - cbn [with_index s_skip s_tables]. rewrite Htab, Hskip. fold (aset_tables x). rewrite Hnm.
      rewrite updated_n_tabs_with; [|exact (fa_names OK)|exact (eq_sym names_length)|exact (eq_trans Hdl (eq_sym names_length))|exact (eq_trans (adec_length x Hin) (eq_sym names_length))].
      unfold astate_at, with_tables, set_hdr, with_index. cbn [s_sim s_skip s_fullpos s_index]. rewrite Hsim, Hpos, Hskip. reflexivity.
    - pose proof (arest_length (s_more x) (s_post x ++ afile (skipn (S k) sets))). rewrite app_length. lia.
    - fold (aset_tables x). rewrite Hnm. exact (fa_names OK).
    - cbn [with_index s_skip s_tables]. rewrite Htab, Hskip. fold (aset_tables x). rewrite <- Hnm.
      assert (Hnd : NoDup (map a_name (aset_tables x))) by (rewrite Hnm; exact (fa_names OK)).
      clear - HL Hdh Hnd. revert ds Hdh Hnd. induction HL as [|T u Ts' us Hl _ IH]; intros ds Hdh Hnd.
      + inversion Hdh; subst. constructor.
      + inversion Hdh as [|? d ? ds' Hd Hdh']; subst. cbn [map] in Hnd. pose proof Hnd as Hnd0. apply NoDup_cons_iff in Hnd as [Hni Hnd'].
        cbn [adec TT3 map tabs_with]. destruct Hl as [Hlines Hvals Hcols Hrows Hkeys].
        destruct (in_names (a_name u) skip) eqn:E.
        * constructor; [unfold aread_ok; rewrite E; intro r; apply skip_table_AUT_spec; exact Hlines|apply IH; assumption].
        * constructor.
          -- unfold aread_ok. rewrite E. cbn [fst snd tab_get]. rewrite str_eqb_refl. split; [reflexivity|]. intro r.
             apply read_table_AUT_spec; [exact Hlines|exact Hvals|exact Hcols|rewrite Hd; symmetry; exact Hrows].
          -- specialize (IH ds' Hdh' Hnd').
             assert (Hneq : forall v, In v us -> str_eqb (a_name u) (a_name v) = false).
             { intros v Hv. destruct (str_eqb (a_name u) (a_name v)) eqn:E2; [|reflexivity]. apply str_eqb_eq in E2. exfalso. apply Hni. rewrite E2. exact (in_map a_name us v Hv). }
             clear - IH Hneq. revert IH Hneq. generalize (TT3 Ts' ds' (adec Ts' us)) as TTs. generalize (tabs_with skip Ts' (map a_name us) ds') as ts.
             intros ts TTs IH. induction IH as [|v TT vs TTs' HV _ IHF]; intro Hneq; constructor.
             ++ unfold aread_ok in *. rewrite (tab_get_cons_other _ _ _ ts (Hneq v (or_introl eq_refl))). exact HV.
             ++ apply IHF. intros w Hw. apply Hneq. right. exact Hw.
    - exact Hkn.
    - cbn [with_index]. apply (stops_nth sets k x (fa_stops OK) Hk).
  Qed.

  (** ** t2listing(file, skip_tables) *)
  Lemma afile_length (l : list aset) : length l <= length (afile l).
  Proof. induction l as [|y l IH]; cbn [afile length]; [lia|]. rewrite app_length. cbn [length]. unfold aset_body. rewrite !app_length.
         pose proof (arest_length (s_more y) (s_post y ++ afile l)). assert (length (afile l) <= length (arest (s_more y) (s_post y ++ afile l))).
         { clear. induction (s_more y) as [|[k u] its IH]; cbn [arest]; [rewrite app_length; lia|]. cbn [length]. rewrite app_length. lia. } lia. Qed.
  Lemma asetup_all skip : Forall2 (asetup_ok skip) (aset_tables x0) Ts.
  Proof. destruct (aset_like x0 (or_introl eq_refl)) as [_ [_ HL]]. exact (asetup_all_gen skip _ _ (fa_shape OK) HL). Qed.
  Lemma ainitial_heights : Forall2 (fun T d => length d = length (lt_rows T)) Ts (map lt_data Ts).
  Proof. exact (ainitial_heights_gen _ _ (fa_shape OK)). Qed.

  Theorem aut_open_spec skip : open_listing AUT skip (afile sets) = Ok (astate_at skip 0 x0).
  Proof.
    pose proof (fa_sets OK) as Hsets. unfold open_listing. cbn [sim_eqb].
    destruct (fa_scan OK) as [sh [N [Hsh HN]]]. rewrite Hsh. cbn [bind].
    pose proof (gaps_bound _ _ _ _ HN) as HB. cbn [app] in HB.
    pose proof (setup_pos_AUT_gen (firstn 1 sh) sets [] N (S (length (afile sets)) - N) Hsets HN ltac:(lia)) as Hpos.
    cbn [app] in Hpos. replace (N + (S (length (afile sets)) - N)) with (S (length (afile sets))) in Hpos by lia.
    fold kwE. rewrite Hpos. cbn [bind].
    assert (Epos : apositions sets = aset_body x0 (afile more_sets) :: apositions more_sets) by reflexivity.
    rewrite Epos. rewrite <- Epos.
    destruct (aset_like x0 (or_introl eq_refl)) as [_ [Hkn _]].
    set (st := {| s_sim := AUT; s_title := []; s_skip := skip; s_fullpos := apositions sets; s_index := 0%Z; s_time := VNone; s_step := VNone; s_tables := [] |}).
    rewrite <- (fa_elem OK). unfold aset_body.
    rewrite (aut_setup_loop (s_more x0) _ st (s_first x0) Ts).
    - cbn [bind s_tables st app s_skip]. fold (aset_tables x0). fold names. rewrite added_n_tabs_with by exact names_length_sym.
      apply (aut_set_index_spec skip _ 0 x0 0%Z).
      + unfold areader_state, st. cbn [with_tables set_hdr s_sim s_skip s_fullpos s_tables]. repeat split.
        exists (map lt_data Ts). split; [apply map_length|]. split; [exact ainitial_heights|reflexivity].
      + reflexivity.
      + left. reflexivity.
    - pose proof (arest_length (s_more x0) (s_post x0 ++ afile more_sets)) as H1.
      unfold sets. cbn [afile]. rewrite app_length. cbn [length]. unfold aset_body. rewrite !app_length. lia.
    - exact (asetup_all skip).
    - exact Hkn.
    - destruct (fa_stops OK) as [H _]. exact H.
  Qed.

  Definition aaddresses (i : Z) (k : nat) : Prop := i = Z.of_nat k \/ i = (Z.of_nat k - Z.of_nat (length sets))%Z.
  Theorem aut_moves_spec skip l : forall st k x i, areader_state skip st -> nth_error sets k = Some x -> aaddresses i k ->
    Forall (fun j => exists kj, kj < length sets /\ aaddresses j kj) l ->
    moves st (l ++ [i]) = Ok (astate_at skip k x).
  Proof.
    induction l as [|j l IH]; intros st k x i Hst Hk Hi Hl; cbn [app moves].
    - rewrite (aut_set_index_spec skip st k x i Hst Hk Hi). reflexivity.
    - inversion Hl as [|? ? [kj [Hkj Hj]] Hl']; subst.
      destruct (nth_error sets kj) as [y|] eqn:Ey; [|apply nth_error_None in Ey; lia].
      rewrite (aut_set_index_spec skip st kj y j Hst Ey Hj). cbn [bind].
      apply IH; [apply astate_at_reader; eapply nth_error_In; exact Ey|exact Hk|exact Hi|exact Hl'].
  Qed.
  Theorem aut_listing_codec skip l k x i : nth_error sets k = Some x -> aaddresses i k ->
    Forall (fun j => exists kj, kj < length sets /\ aaddresses j kj) l ->
    (do st <- open_listing AUT skip (afile sets); moves st (l ++ [i])) = Ok (astate_at skip k x).
  Proof.
    intros Hk Hi Hl. rewrite (aut_open_spec skip). cbn [bind].
    apply (aut_moves_spec skip l _ k x i); [apply astate_at_reader; left; reflexivity|exact Hk|exact Hi|exact Hl].
  Qed.

  (** what a table holds: the structure set up from the first result set (rows keyed by the printed names, in order) and,
      row by row, the numbers of the printed rows of result set k (white-space separated words after the start column) *)
  Lemma adec_nth : forall j Ts' us T u, nth_error Ts' j = Some T -> nth_error us j = Some u ->
    nth_error (adec Ts' us) j = Some (map (decode_AUT T) (a_rows u)).
  Proof.
    induction j as [|j IH]; intros [|T0 Ts'] [|u0 us] T u H1 H2; try discriminate; cbn [nth_error adec] in *.
    - inversion H1; inversion H2; subst. reflexivity.
    - apply IH; assumption.
  Qed.
  Theorem aut_table_contents skip k x j u T : nth_error sets k = Some x -> nth_error (aset_tables x) j = Some u -> nth_error Ts j = Some T ->
    in_names (a_name u) skip = false ->
    tab_get (a_name u) (s_tables (astate_at skip k x)) = Some (with_data T (map (decode_AUT T) (a_rows u)))
    /\ Forall2 (fun l key => key_from_line l (lt_keypos T) = Ok key) (a_rows u) (lt_rows T).
  Proof.
    intros Hk Hu HT Hn. assert (Hin : In x sets) by (eapply nth_error_In; exact Hk).
    destruct (aset_like x Hin) as [Hnm [_ HL]]. split.
    - unfold astate_at. cbn [s_tables].
      apply (tabs_with_get skip j Ts names (adec Ts (aset_tables x)) (a_name u) T _ (fa_names OK)).
      + rewrite <- Hnm. apply map_nth_error. exact Hu.
      + exact HT.
      + apply adec_nth; assumption.
      + exact Hn.
    - clear - HL Hu HT. revert j Hu HT. induction HL as [|T0 u0 Ts' us Hl _ IH]; intros [|j] Hu HT; cbn [nth_error] in *; try discriminate.
      + inversion Hu; inversion HT; subst. exact (av_keys _ _ Hl).
      + apply (IH j); assumption.
  Qed.
  Theorem aut_skip_independent skip1 skip2 l1 l2 i1 i2 k x n : nth_error sets k = Some x -> aaddresses i1 k -> aaddresses i2 k ->
    Forall (fun j => exists kj, kj < length sets /\ aaddresses j kj) l1 -> Forall (fun j => exists kj, kj < length sets /\ aaddresses j kj) l2 ->
    in_names n skip1 = false -> in_names n skip2 = false ->
    exists st1 st2, (do st <- open_listing AUT skip1 (afile sets); moves st (l1 ++ [i1])) = Ok st1
                 /\ (do st <- open_listing AUT skip2 (afile sets); moves st (l2 ++ [i2])) = Ok st2
                 /\ tab_get n (s_tables st1) = tab_get n (s_tables st2).
  Proof.
    intros Hk Hi1 Hi2 Hl1 Hl2 H1 H2. exists (astate_at skip1 k x), (astate_at skip2 k x).
    split; [apply aut_listing_codec; assumption|]. split; [apply aut_listing_codec; assumption|].
    unfold astate_at. cbn [s_tables]. rewrite (tabs_with_skip_indep skip1 n H1), (tabs_with_skip_indep skip2 n H2). reflexivity.
  Qed.
End CodecAUT.
