(** C05 -- the whole-file statement for TOUGH+ listings (element / element1 / element2 naming, primary table without end
    marker): t2listing(file, skip_tables) and any sequence of index moves, for every subset of skipped tables.
    Hypotheses = the decidable check [tp_check] (run on the abstraction of every shipped TOUGH+ listing). *)
From Coq Require Import Ascii String List Bool Arith ZArith NArith Lia.
From PTBase Require Import Exn PyStr PyNum PyVal.
From PTModel Require Import Fortran.
From P Require Import Model Table Reader Cells TableT2 SetT2 FileT2 CodecT2 CheckT2 LoopG FileG FileTP.
Import ListNotations.
Open Scope char_scope.

(** the actions of the read loop and their effect on the tables *)
Fixpoint acts_of (skip : list str) (Ts : list ltable) (ds : list tdata) (us : list ptable) : list ract :=
  match Ts, ds, us with
  | T :: Ts', d :: ds', u :: us' =>
      (if in_names (p_name u) skip then RSkip else RRead (with_data T d) (with_data T (map (decode_line T) (p_rows u)))) :: acts_of skip Ts' ds' us'
  | _, _, _ => []
  end.
Lemma gadded_tabs_with skip (mk : ptable -> gtab) (Hn : forall u, g_name (mk u) = p_name u) us : forall Ts, length Ts = length us ->
  gadded skip (map mk us) Ts = tabs_with skip Ts (map p_name us) (map lt_data Ts).
Proof.
  induction us as [|u us IH]; intros [|T Ts] HL; try discriminate; [reflexivity|].
  cbn [gadded map tabs_with]. rewrite Hn, with_data_same. rewrite IH by (cbn in HL; lia). reflexivity.
Qed.
Lemma gupdated_cons_other (mk : ptable -> gtab) (Hn : forall u, g_name (mk u) = p_name u) us : forall acts n X ts,
  (forall v, In v us -> str_eqb (p_name v) n = false) ->
  gupdated (map mk us) acts ((n, X) :: ts) = (n, X) :: gupdated (map mk us) acts ts.
Proof.
  induction us as [|u us IH]; intros [|a acts] n X ts Hneq; try reflexivity. cbn [map gupdated].
  destruct a as [|T T'].
  - apply IH. intros v Hv. apply Hneq. right. exact Hv.
  - cbn [tab_set]. rewrite Hn. replace (str_eqb n (p_name u)) with false.
    + apply IH. intros v Hv. apply Hneq. right. exact Hv.
    + symmetry. destruct (str_eqb n (p_name u)) eqn:E; [|reflexivity]. apply str_eqb_eq in E. subst n.
      pose proof (Hneq u (or_introl eq_refl)) as Hf. rewrite str_eqb_refl in Hf. discriminate.
Qed.
Lemma gupdated_tabs_with (mk : ptable -> gtab) (Hn : forall u, g_name (mk u) = p_name u) skip us : forall Ts ds,
  NoDup (map p_name us) -> length Ts = length us -> length ds = length us ->
  gupdated (map mk us) (acts_of skip Ts ds us) (tabs_with skip Ts (map p_name us) ds) = tabs_with skip Ts (map p_name us) (dec Ts us).
Proof.
  induction us as [|u us IH]; intros [|T Ts] [|d ds] Hnd H1 H2; try discriminate; [reflexivity|].
  assert (Hnd' : NoDup (map p_name us)) by (cbn [map] in Hnd; apply NoDup_cons_iff in Hnd as [_ Hnd]; exact Hnd).
  cbn [map tabs_with acts_of dec gupdated]. destruct (in_names (p_name u) skip) eqn:E.
  - apply IH; [exact Hnd'|cbn in H1; lia|cbn in H2; lia].
  - rewrite Hn. cbn [tab_set]. rewrite str_eqb_refl. rewrite (gupdated_cons_other mk Hn).
    + rewrite IH; [reflexivity|exact Hnd'|cbn in H1; lia|cbn in H2; lia].
    + intros v Hv. pose proof (names_neq_of_NoDup u us Hnd v Hv) as Hne.
      destruct (str_eqb (p_name v) (p_name u)) eqn:E2; [|reflexivity]. apply str_eqb_eq in E2. rewrite E2, str_eqb_refl in Hne. discriminate.
Qed.
Lemma gread_ok_cons_other sm skip ts u a m X : str_eqb m (g_name u) = false -> gread_ok sm skip ts u a -> gread_ok sm skip ((m, X) :: ts) u a.
Proof. intros Hm H. destruct a; cbn [gread_ok] in *; rewrite (tab_get_cons_other _ _ X ts Hm); exact H. Qed.
Lemma greads_ok sm (mk : ptable -> gtab) (Hn : forall u, g_name (mk u) = p_name u) (Hl : forall u, g_lines (mk u) = p_lines u) (Hb : forall u, g_br (mk u) = [p_sep u])
  skip us : forall Ts ds, NoDup (map p_name us) -> length Ts = length us -> length ds = length us ->
  Forall (fun u => (in_names (p_name u) skip = true \/ sim_eqb sm TPLUS = false) -> gskip_ok sm (mk u)) us ->
  (forall u, In u us -> in_names (p_name u) skip = true \/ sim_eqb sm TPLUS = false \/ True) ->
  Forall2 (fun Td u => read_ok u (with_data (fst Td) (snd Td)) (with_data (fst Td) (map (decode_line (fst Td)) (p_rows u)))) (combine Ts ds) us ->
  Forall2 (gread_ok sm skip (tabs_with skip Ts (map p_name us) ds)) (map mk us) (acts_of skip Ts ds us).
Proof.
  induction us as [|u us IH]; intros [|T Ts] [|d ds] Hnd H1 H2 Hsk Htriv Hrd; try discriminate; [constructor|].
  cbn [combine] in Hrd. apply Forall2_cons_inv in Hrd as [Hr Hrd]. cbn [fst snd] in Hr.
  inversion Hsk as [|? ? Hs1 Hsk']; subst.
  assert (Hnd' : NoDup (map p_name us)) by (cbn [map] in Hnd; apply NoDup_cons_iff in Hnd as [_ Hnd]; exact Hnd).
  specialize (IH Ts ds Hnd' ltac:(cbn in H1; lia) ltac:(cbn in H2; lia) Hsk' (fun v Hv => Htriv v (or_intror Hv)) Hrd).
  cbn [map tabs_with acts_of]. destruct (in_names (p_name u) skip) eqn:E.
  - constructor; [|exact IH]. cbn [gread_ok]. rewrite Hn. split; [left; exact E|]. split; [apply tabs_with_names_not_skipped; exact E|apply Hs1; left; reflexivity].
  - constructor.
    + cbn [gread_ok]. rewrite Hn, Hl, Hb. split; [exact E|]. cbn [tab_get]. rewrite str_eqb_refl. split; [reflexivity|]. intro r. exact (Hr r).
    + pose proof (names_neq_of_NoDup u us Hnd) as Hneq.
      clear - IH Hneq Hn. revert IH Hneq. generalize (acts_of skip Ts ds us) as acts. generalize (tabs_with skip Ts (map p_name us) ds) as ts.
      intros ts acts IH. remember (map mk us) as gs eqn:Eg. revert us Eg. induction IH as [|g a gs' acts' HV _ IHF]; intros us Eg Hneq; constructor.
      * destruct us as [|v vs]; [discriminate|]. cbn [map] in Eg. inversion Eg; subst. apply gread_ok_cons_other; [rewrite Hn; apply Hneq; left; reflexivity|exact HV].
      * destruct us as [|v vs]; [discriminate|]. cbn [map] in Eg. inversion Eg; subst. apply (IHF vs eq_refl). intros w Hw. apply Hneq. right. exact Hw.
Qed.

Lemma later_of_shapes s title us Ts : Forall2 (fun t T => exists P, tshape s title t P /\ T = table_of P t) us Ts -> Forall2 tlater Ts us.
Proof. induction 1 as [|t T ts Ts' [P [HP HT]] _ IH]; constructor; [|exact IH]. subst T. apply (tshape_later s title t P HP). Qed.

Lemma gsetups_TP skip title us Ts : Forall (fun u => bs_of u <> None) us ->
  Forall2 (fun t T => exists P, tshape TPLUS title t P /\ T = table_of P t) us Ts -> Forall2 (gsetup_ok TPLUS skip title) (map gt us) Ts.
Proof.
  intros Hbs HS. revert Hbs. induction HS as [|t T ts Ts' [P [HP HT]] _ IH]; intro Hbs; cbn [map]; constructor.
  - inversion Hbs as [|? ? Hb1 _]; subst. unfold gsetup_ok. cbn [gt g_name g_lines g_br]. destruct (in_names (p_name t) skip).
    + apply gskip_TP. exact Hb1.
    + intro r. exact (tshape_setup TPLUS title t P HP r).
  - apply IH. inversion Hbs; assumption.
Qed.

(** ** the check *)
Definition tp_like_b (names : list str) (x : pset) : bool :=
  strs_eqb (map p_name (set_tables x)) names
  && forallb (fun u => match bs_of u with Some _ => true | None => false end) (set_tables x)
  && chainb 0 (ps_first x) (ps_rest x).
Definition tp_check (sets : list pset) : option (str * list ltable) :=
  match sets with
  | [] => None
  | x0 :: more =>
      match read_title_T2 (file_from sets) with
      | Ok title =>
          match shapes TPLUS title (set_tables x0) with
          | Some Ts =>
              let names := map p_name (set_tables x0) in
              if forallb set_okbP sets && str_eqb (p_name (ps_first x0)) n_element && forallb struct_okb Ts
                 && nodupb str_eqb names && forallb (tp_like_b names) sets
                 && forallb (fun x => forall2b tlaterb Ts (set_tables x)) more
              then Some (title, Ts) else None
          | None => None
          end
      | Raise _ => None
      end
  end.

Section CodecTP.
  Variables (title : str) (x0 : pset) (more_sets : list pset) (Ts : list ltable).
  Local Notation sets := (x0 :: more_sets).
  Local Notation names := (map p_name (set_tables x0)).
  Record tp_ok : Prop := {
    to_sets : Forall set_okP sets;
    to_title : read_title_T2 (file_from sets) = Ok title;
    to_elem : p_name (ps_first x0) = n_element;
    to_shape : Forall2 (fun t T => exists P, tshape TPLUS title t P /\ T = table_of P t) (set_tables x0) Ts;
    to_struct : Forall struct_ok Ts;
    to_names : NoDup names;
    to_like : Forall (fun x => map p_name (set_tables x) = names /\ Forall (fun u => bs_of u <> None) (set_tables x)
                               /\ chainb 0 (ps_first x) (ps_rest x) = true) sets;
    to_later : Forall (fun x => Forall2 tlater Ts (set_tables x)) more_sets
  }.
  Hypothesis OK : tp_ok.

  Lemma tp_later_all x : In x sets -> Forall2 tlater Ts (set_tables x).
  Proof.
    intros [E|Hin].
    - subst x. exact (later_of_shapes TPLUS title _ _ (to_shape OK)).
    - pose proof (to_later OK) as H. rewrite Forall_forall in H. apply H. exact Hin.
  Qed.
  Lemma tp_like x : In x sets -> map p_name (set_tables x) = names /\ Forall (fun u => bs_of u <> None) (set_tables x) /\ chainb 0 (ps_first x) (ps_rest x) = true.
  Proof. intro H. pose proof (to_like OK) as F. rewrite Forall_forall in F. apply F. exact H. Qed.
  Lemma tp_Ts_length : length Ts = length (set_tables x0).
  Proof. symmetry. exact (Forall2_len _ _ _ (to_shape OK)). Qed.
  Lemma tp_dec_heights x : In x sets -> Forall2 (fun T d => length d = length (lt_rows T)) Ts (dec Ts (set_tables x)).
  Proof.
    intro H. pose proof (tp_later_all x H) as HL. clear - HL. induction HL as [|T u Ts' us [_ _ Hk] _ IH]; cbn [dec]; constructor; [|exact IH].
    rewrite map_length. exact (Forall2_len _ _ _ Hk).
  Qed.
  Lemma tp_state_reader skip k x : In x sets -> reader_state TPLUS title x0 more_sets Ts skip (state_at TPLUS title x0 more_sets Ts skip k x).
  Proof.
    intro H. unfold reader_state, state_at. cbn. repeat split. exists (dec Ts (set_tables x)).
    split; [symmetry; exact (Forall2_len _ _ _ (tp_dec_heights x H))|]. split; [apply tp_dec_heights; exact H|reflexivity].
  Qed.
  Lemma set_tables_gt x : gt (ps_first x) :: map snd (gits (ps_rest x)) = map gt (set_tables x).
  Proof. unfold set_tables. cbn [map]. rewrite gits_tabs. reflexivity. Qed.

  Theorem tp_set_index_spec skip st k x i : reader_state TPLUS title x0 more_sets Ts skip st -> nth_error sets k = Some x ->
    addresses x0 more_sets i k -> set_index st i = Ok (state_at TPLUS title x0 more_sets Ts skip k x).
  Proof.
    intros [Hsim [Htitle [Hskip [Hpos [ds [Hdl [Hdh Htab]]]]]]] Hk Hi.
    assert (Hin : In x sets) by (eapply nth_error_In; exact Hk).
    assert (Hkl : k < length sets) by (apply nth_error_Some; congruence).
    pose proof (to_sets OK) as Hsets.
    assert (Hx : set_okP x) by (rewrite Forall_forall in Hsets; apply Hsets; exact Hin).
    destruct (tp_like x Hin) as [Hnm [Hbs Hch]].
    unfold set_index. rewrite Hpos.
    assert (Hpy : pyindex i (positions sets) = Some (set_body x (ps_tail x ++ file_from (skipn (S k) sets)))).
    { destruct Hi as [Hi|Hi]; subst i.
      - rewrite pyindex_nat by (rewrite positions_length; exact Hkl). apply positions_nth. exact Hk.
      - unfold pyindex. rewrite positions_length.
        replace (Z.of_nat k - Z.of_nat (length sets) <? 0)%Z with true by (symmetry; apply Z.ltb_lt; lia).
        replace (Z.of_nat k - Z.of_nat (length sets) + Z.of_nat (length sets))%Z with (Z.of_nat k) by lia.
        replace ((Z.of_nat k <? 0) || (Z.of_nat (length sets) <=? Z.of_nat k))%Z with false
          by (symmetry; apply orb_false_intro; [apply Z.ltb_ge; lia|apply Z.leb_gt; lia]).
        rewrite Nat2Z.id. apply positions_nth. exact Hk. }
    rewrite Hpy.
    assert (Hidx : (if (i <? 0)%Z then (i + Z.of_nat (length (positions sets)))%Z else i) = Z.of_nat k).
    { rewrite positions_length. destruct Hi as [Hi|Hi]; subst i.
      - replace (Z.of_nat k <? 0)%Z with false by (symmetry; apply Z.ltb_ge; lia). reflexivity.
      - replace (Z.of_nat k - Z.of_nat (length sets) <? 0)%Z with true by (symmetry; apply Z.ltb_lt; lia). lia. }
    rewrite Hidx. unfold read_tables. cbn [with_index s_sim]. rewrite Hsim. cbn [sim_eqb]. unfold read_tables_T2. cbn [with_index s_sim]. rewrite Hsim.
    rewrite (read_header_setP x _ Hx). cbn [bind].
    set (st1 := with_header (with_index st (Z.of_nat k)) (set_time x) (set_step x)).
    unfold tables_lines.
    assert (Hlen : length (set_tables x) = length Ts) by (symmetry; exact (Forall2_len _ _ _ (tp_later_all x Hin))).
    assert (Hel : n_element = g_name (gt (ps_first x))).
    { cbn [gt g_name]. rewrite <- (to_elem OK). pose proof Hnm as E. unfold set_tables in E. cbn [map] in E. inversion E. reflexivity. }
    rewrite Hel. change (p_lines (ps_first x)) with (g_lines (gt (ps_first x))). rewrite <- (grest_gits (ps_rest x)).
    rewrite (gread_loop TPLUS (positions sets) (Z.of_nat k) (gits (ps_rest x)) _ st1 (gt (ps_first x)) (acts_of skip Ts ds (set_tables x)) _ 0).
    - unfold st1. cbn [with_header with_index s_skip s_tables with_tables s_sim s_title s_fullpos s_index s_time s_step].
      rewrite Htab, set_tables_gt, <- Hnm.
      rewrite (gupdated_tabs_with gt (fun u => eq_refl)); [|rewrite Hnm; exact (to_names OK)|exact (eq_sym Hlen)|exact (eq_trans Hdl (eq_sym Hlen))].
      unfold state_at, with_tables, with_header, with_index. cbn [s_sim s_title s_skip s_fullpos s_index s_time s_step s_tables].
      rewrite Hsim, Htitle, Hpos, Hnm, Hskip. reflexivity.
    - unfold st1, nav. cbn [with_header with_index s_sim s_fullpos s_index]. repeat split; assumption.
    - unfold gits. rewrite map_length. pose proof (rest_lines_length_ge (ps_rest x) (ps_tail x ++ file_from (skipn (S k) sets))). rewrite app_length, grest_gits. lia.
    - rewrite set_tables_gt, map_map. change (map (fun u => g_name (gt u)) (set_tables x)) with (map p_name (set_tables x)). rewrite Hnm. exact (to_names OK).
    - unfold st1. cbn [with_header with_index s_skip s_tables]. rewrite Htab, Hskip, set_tables_gt, <- Hnm.
      apply (greads_ok TPLUS gt (fun u => eq_refl) (fun u => eq_refl) (fun u => eq_refl));
        [rewrite Hnm; exact (to_names OK)|exact (eq_sym Hlen)|exact (eq_trans Hdl (eq_sym Hlen))| |intros; right; right; exact I|].
      + eapply Forall_impl; [|exact Hbs]. intros u Hu _. apply gskip_TP. exact Hu.
      + pose proof (tp_later_all x Hin) as HL. pose proof (to_struct OK) as HS.
        clear - HL HS Hdh. revert ds Hdh HS. induction HL as [|T u Ts' us Hl _ IH]; intros ds Hdh HS.
        * inversion Hdh; subst. constructor.
        * inversion Hdh as [|? d ? ds' Hd Hdh']; subst. inversion HS as [|? ? HS1 HS2]; subst. cbn [combine]. constructor.
          -- cbn [fst snd]. apply tlater_read; assumption.
          -- apply IH; assumption.
    - unfold st1. apply (chain_from_b sets k x Hsets Hk). exact Hch.
  Qed.

  Theorem tp_open_spec skip : open_listing TPLUS skip (file_from sets) = Ok (state_at TPLUS title x0 more_sets Ts skip 0 x0).
  Proof.
    pose proof (to_sets OK) as Hsets.
    assert (Hx0 : set_okP x0) by (inversion Hsets; assumption).
    unfold open_listing. cbn [sim_eqb].
    pose proof (setup_pos_specP sets (S (length (file_from sets))) [] Hsets ltac:(pose proof (file_from_length sets); lia) (Forall_nil _)) as Hpos.
    cbn [app] in Hpos. rewrite Hpos. cbn [bind].
    assert (Epos : positions sets = set_body x0 (ps_tail x0 ++ file_from more_sets) :: positions more_sets) by reflexivity.
    rewrite Epos. rewrite <- Epos.
    rewrite (to_title OK). cbn [bind].
    rewrite (read_header_setP x0 _ Hx0). cbn [bind].
    set (st := {| s_sim := TPLUS; s_title := title; s_skip := skip; s_fullpos := positions sets; s_index := 0%Z; s_time := set_time x0; s_step := set_step x0; s_tables := [] |}).
    destruct (tp_like x0 (or_introl eq_refl)) as [_ [Hbs Hch]].
    unfold tables_lines.
    assert (Hel : n_element = g_name (gt (ps_first x0))) by (cbn [gt g_name]; symmetry; exact (to_elem OK)).
    rewrite Hel. change (p_lines (ps_first x0)) with (g_lines (gt (ps_first x0))). rewrite <- (grest_gits (ps_rest x0)).
    rewrite (gsetup_loop TPLUS (positions sets) 0%Z (gits (ps_rest x0)) _ st (gt (ps_first x0)) Ts _ 0).
    - cbn [bind s_tables st app s_skip]. rewrite set_tables_gt. rewrite (gadded_tabs_with skip gt (fun u => eq_refl)) by exact tp_Ts_length.
      apply (tp_set_index_spec skip _ 0 x0 0%Z).
      + unfold reader_state, st. cbn [with_tables s_sim s_title s_skip s_fullpos s_tables]. repeat split.
        exists (map lt_data Ts). split; [apply map_length|]. split; [exact (initial_heights_gen TPLUS title _ _ (to_shape OK))|reflexivity].
      + reflexivity.
      + left. reflexivity.
    - unfold st, nav. cbn. repeat split.
    - unfold gits. rewrite map_length. pose proof (rest_lines_length_ge (ps_rest x0) (ps_tail x0 ++ file_from more_sets)) as H1.
      cbn [file_from]. rewrite app_length. unfold set_body. cbn [length]. rewrite !app_length. cbn [length]. rewrite !app_length.
      unfold tables_lines. rewrite app_length. lia.
    - rewrite set_tables_gt. unfold st. cbn [s_skip s_title]. exact (gsetups_TP skip title _ _ Hbs (to_shape OK)).
    - intros n _. reflexivity.
    - unfold st. cbn [s_fullpos s_index]. apply (chain_from_b sets 0 x0 Hsets eq_refl). exact Hch.
  Qed.

  Theorem tp_moves_spec skip l : forall st k x i, reader_state TPLUS title x0 more_sets Ts skip st -> nth_error sets k = Some x -> addresses x0 more_sets i k ->
    Forall (fun j => exists kj, kj < length sets /\ addresses x0 more_sets j kj) l ->
    moves st (l ++ [i]) = Ok (state_at TPLUS title x0 more_sets Ts skip k x).
  Proof.
    induction l as [|j l IH]; intros st k x i Hst Hk Hi Hl; cbn [app moves].
    - rewrite (tp_set_index_spec skip st k x i Hst Hk Hi). reflexivity.
    - inversion Hl as [|? ? [kj [Hkj Hj]] Hl']; subst.
      destruct (nth_error sets kj) as [y|] eqn:Ey; [|apply nth_error_None in Ey; lia].
      rewrite (tp_set_index_spec skip st kj y j Hst Ey Hj). cbn [bind].
      apply IH; [apply tp_state_reader; eapply nth_error_In; exact Ey|exact Hk|exact Hi|exact Hl'].
  Qed.
  Theorem tp_listing_codec skip l k x i : nth_error sets k = Some x -> addresses x0 more_sets i k ->
    Forall (fun j => exists kj, kj < length sets /\ addresses x0 more_sets j kj) l ->
    (do st <- open_listing TPLUS skip (file_from sets); moves st (l ++ [i])) = Ok (state_at TPLUS title x0 more_sets Ts skip k x).
  Proof.
    intros Hk Hi Hl. rewrite (tp_open_spec skip). cbn [bind].
    apply (tp_moves_spec skip l _ k x i); [apply tp_state_reader; left; reflexivity|exact Hk|exact Hi|exact Hl].
  Qed.
  Theorem tp_table_contents skip k x j u T : nth_error sets k = Some x -> nth_error (set_tables x) j = Some u -> nth_error Ts j = Some T ->
    in_names (p_name u) skip = false ->
    tab_get (p_name u) (s_tables (state_at TPLUS title x0 more_sets Ts skip k x)) = Some (with_data T (map (decode_line T) (p_rows u))).
  Proof.
    intros Hk Hu HT Hn. assert (Hin : In x sets) by (eapply nth_error_In; exact Hk).
    destruct (tp_like x Hin) as [Hnm _]. unfold state_at. cbn [s_tables].
    apply (tabs_with_get skip j Ts names (dec Ts (set_tables x)) (p_name u) T _ (to_names OK)).
    - rewrite <- Hnm. apply map_nth_error. exact Hu.
    - exact HT.
    - apply dec_nth; assumption.
    - exact Hn.
  Qed.
End CodecTP.

Theorem tp_check_sound x0 more title Ts : tp_check (x0 :: more) = Some (title, Ts) -> tp_ok title x0 more Ts.
Proof.
  unfold tp_check. destruct (read_title_T2 (file_from (x0 :: more))) as [ti|] eqn:Et; [|discriminate].
  destruct (shapes TPLUS ti (set_tables x0)) as [Ts'|] eqn:Es; [|discriminate].
  destruct (forallb set_okbP (x0 :: more) && _ && _ && _ && _ && _) eqn:C; [|discriminate].
  intro H. inversion H; subst. clear H.
  do 5 (let Hn := fresh "C" in apply andb_prop in C as [C Hn]).
  constructor.
  - apply (forallb_Forall _ _ _ set_okbP_spec C).
  - exact Et.
  - apply str_eqb_eq. exact C4.
  - apply shapes_spec. exact Es.
  - apply (forallb_Forall _ _ _ struct_okb_spec C3).
  - apply (nodupb_NoDup str_eqb str_eqb_eq). exact C2.
  - assert (K : forall x, tp_like_b (map p_name (set_tables x0)) x = true ->
                          map p_name (set_tables x) = map p_name (set_tables x0) /\ Forall (fun u => bs_of u <> None) (set_tables x) /\ chainb 0 (ps_first x) (ps_rest x) = true).
    { intros x Hx. unfold tp_like_b in Hx. do 2 (let Hn := fresh "D" in apply andb_prop in Hx as [Hx Hn]).
      split; [apply strs_eqb_eq; exact Hx|]. split; [|exact D].
      assert (K2 : forall u, match bs_of u with Some _ => true | None => false end = true -> bs_of u <> None) by (intros u Hu; destruct (bs_of u); [discriminate|discriminate]).
      apply (forallb_Forall _ _ _ K2 D0). }
    apply (forallb_Forall _ _ _ K C1).
  - apply (forallb_Forall _ _ _ (fun x Hx => forall2b_Forall2 _ _ _ tlaterb_spec _ Hx) C0).
Qed.

(** skip_tables_independent and the cells, for TOUGH+ *)
Theorem tp_skip_tables_independent title x0 more Ts : tp_ok title x0 more Ts -> forall skip1 skip2 l1 l2 i1 i2 k x n,
  nth_error (x0 :: more) k = Some x -> addresses x0 more i1 k -> addresses x0 more i2 k ->
  Forall (fun j => exists kj, kj < length (x0 :: more) /\ addresses x0 more j kj) l1 ->
  Forall (fun j => exists kj, kj < length (x0 :: more) /\ addresses x0 more j kj) l2 ->
  in_names n skip1 = false -> in_names n skip2 = false ->
  exists st1 st2, (do st <- open_listing TPLUS skip1 (file_from (x0 :: more)); moves st (l1 ++ [i1])) = Ok st1
               /\ (do st <- open_listing TPLUS skip2 (file_from (x0 :: more)); moves st (l2 ++ [i2])) = Ok st2
               /\ tab_get n (s_tables st1) = tab_get n (s_tables st2).
Proof.
  intros OK skip1 skip2 l1 l2 i1 i2 k x n Hk Hi1 Hi2 Hl1 Hl2 H1 H2.
  exists (state_at TPLUS title x0 more Ts skip1 k x), (state_at TPLUS title x0 more Ts skip2 k x).
  split; [apply tp_listing_codec; assumption|]. split; [apply tp_listing_codec; assumption|]. apply skip_independent; assumption.
Qed.
Theorem tp_cells_are_printed_numbers title x0 more Ts : tp_ok title x0 more Ts -> forall skip k x j u T r l pre cs t ws s0,
  nth_error (x0 :: more) k = Some x -> nth_error (set_tables x) j = Some u -> nth_error Ts j = Some T -> in_names (p_name u) skip = false ->
  nth_error (p_rows u) r = Some l -> l = pre ++ cbody cs ++ t ->
  lt_values T = Z.of_nat s0 :: map Z.of_nat (ends_w (length pre) ws) ->
  map fst cs = firstn (length cs) ws -> Forall cfits cs -> length pre <= s0 -> s0 <= length pre + first_lead cs ->
  (length cs = length ws \/ blank_str t) ->
  exists T', tab_get (p_name u) (s_tables (state_at TPLUS title x0 more Ts skip k x)) = Some T'
          /\ lt_rows T' = lt_rows T
          /\ nth_error (lt_data T') r = Some (map (fun c => fortran_float (snd c) zero) cs
                                               ++ repeat zero (length ws - length cs) ++ repeat zero (length (lt_cols T) - length ws)).
Proof.
  intros OK skip k x j u T r l pre cs t ws s0 Hk Hu HT Hn Hr El Hv Hw Hf L1 L2 Ht.
  exists (with_data T (map (decode_line T) (p_rows u))). split; [apply (tp_table_contents title x0 more Ts OK skip k x j u T); assumption|]. split; [reflexivity|].
  cbn [with_data lt_data]. rewrite (map_nth_error (decode_line T) r (p_rows u) Hr). f_equal.
  unfold decode_line. rewrite Hv, El. apply cells_decode_tail_thm; assumption.
Qed.
