(** C05 -- property theorems, FILE level, the general TOUGH2-family class (TOUGH2, TOUGH2-MP, TOUGH3, TOUGHREACT; not TOUGH+,
    not AUTOUGH2): the rows of a table may be printed in any order and an index may be printed more than once (TOUGH2-MP prints
    the border elements of every process), and a result set may print tables that the first result set lacks (they are passed
    over like skipped tables, t2listing.read_tables_TOUGH2 after b85eb41).  Each theorem is closed by [exact] of a lemma of
    TableG.v / CodecG2.v and followed by Print Assumptions. *)
From Coq Require Import Ascii String List Bool Arith ZArith NArith.
From PTBase Require Import Exn PyStr PyNum PyVal.
From PTModel Require Import Fortran.
From P Require Import Model Table Reader Layout Cells TableT2 SetT2 FileT2 CodecT2 CheckT2 LoopG FileG TableG CodecG2.
Import ListNotations.
Open Scope char_scope.

(** the row dictionary is sorted by printed index and holds, for every index, the last printed copy *)
Theorem row_dictionary_sorted_last_copy_wins : forall es : list entry,
  sortedZ (ins_all es []) /\ (forall z, rd_lookup z (ins_all es []) = last_entry z es None).
Proof. exact sorted_dict. Qed.
Print Assumptions row_dictionary_sorted_last_copy_wins.

Theorem table_rows_keys_any_order : forall s title t P, tshape_checkG s title t = Some P ->
  setup_ok s title t (table_ofG P t)
  /\ lt_rows (table_ofG P t) = map (fun x => snd (snd x)) (ins_all (tp_entries P) [])
  /\ sortedZ (ins_all (tp_entries P) [])
  /\ forall z, rd_lookup z (ins_all (tp_entries P) []) = last_entry z (tp_entries P) None.
Proof. exact table_rows_keys_sorted. Qed.
Print Assumptions table_rows_keys_any_order.

(** reading a later printing of the table: every row is replaced, whatever the data held before *)
Theorem read_table_last_copy_wins : forall T u d,
  1 <= length (lt_values T) <= S (length (lt_cols T)) -> tlaterG T u -> length d = length (lt_rows T) ->
  read_ok u (with_data T d) (with_data T (newdata T (p_rows u))).
Proof. exact read_last_copy. Qed.
Print Assumptions read_table_last_copy_wins.

Theorem new_data_rows_are_last_copies : forall T ls j, lines_in T ls -> j < length (lt_rows T) ->
  nth j (newdata T ls) [] = match last_line T j ls with Some l => decode_line T l | None => [] end.
Proof. exact newdata_last_copy. Qed.
Print Assumptions new_data_rows_are_last_copies.

Theorem general_check_sound : forall s x0 more title Ts, g2_check s (x0 :: more) = Some (title, Ts) -> g2_ok s title x0 more Ts.
Proof. exact g2_check_sound. Qed.
Print Assumptions general_check_sound.

Theorem general_listing_opens : forall s, sim_eqb s TPLUS = false -> sim_eqb s AUT = false ->
  forall title x0 more Ts, g2_ok s title x0 more Ts ->
  forall skip, open_listing s skip (file_from (x0 :: more)) = Ok (stateG s title x0 more Ts skip 0 x0).
Proof. exact g2_open_spec. Qed.
Print Assumptions general_listing_opens.

Theorem general_listing_codec_law : forall s, sim_eqb s TPLUS = false -> sim_eqb s AUT = false ->
  forall title x0 more Ts, g2_ok s title x0 more Ts ->
  forall skip l k x i, nth_error (x0 :: more) k = Some x -> addresses x0 more i k ->
  Forall (fun j => exists kj, kj < length (x0 :: more) /\ addresses x0 more j kj) l ->
  (do st <- open_listing s skip (file_from (x0 :: more)); moves st (l ++ [i])) = Ok (stateG s title x0 more Ts skip k x).
Proof. exact g2_listing_codec. Qed.
Print Assumptions general_listing_codec_law.

Theorem general_table_contents : forall s title x0 more Ts, g2_ok s title x0 more Ts ->
  forall skip k x j u T, nth_error (x0 :: more) k = Some x ->
  nth_error (filter (inN (map p_name (set_tables x0))) (set_tables x)) j = Some u -> nth_error Ts j = Some T ->
  in_names (p_name u) skip = false ->
  tab_get (p_name u) (s_tables (stateG s title x0 more Ts skip k x)) = Some (with_data T (newdata T (p_rows u))).
Proof. exact g2_table_contents. Qed.
Print Assumptions general_table_contents.

Theorem general_rows_hold_last_printed_copy : forall s title x0 more Ts, g2_ok s title x0 more Ts ->
  forall k x j u T r, nth_error (x0 :: more) k = Some x ->
  nth_error (filter (inN (map p_name (set_tables x0))) (set_tables x)) j = Some u -> nth_error Ts j = Some T ->
  r < length (lt_rows T) ->
  exists l, last_line T r (p_rows u) = Some l /\ In l (p_rows u) /\ nth r (newdata T (p_rows u)) [] = decode_line T l.
Proof. exact g2_row_last_copy. Qed.
Print Assumptions general_rows_hold_last_printed_copy.

Theorem general_skip_tables_independent : forall s, sim_eqb s TPLUS = false -> sim_eqb s AUT = false ->
  forall title x0 more Ts, g2_ok s title x0 more Ts ->
  forall skip1 skip2 l1 l2 i1 i2 k x n, nth_error (x0 :: more) k = Some x -> addresses x0 more i1 k -> addresses x0 more i2 k ->
  Forall (fun j => exists kj, kj < length (x0 :: more) /\ addresses x0 more j kj) l1 ->
  Forall (fun j => exists kj, kj < length (x0 :: more) /\ addresses x0 more j kj) l2 ->
  in_names n skip1 = false -> in_names n skip2 = false ->
  exists st1 st2, (do st <- open_listing s skip1 (file_from (x0 :: more)); moves st (l1 ++ [i1])) = Ok st1
               /\ (do st <- open_listing s skip2 (file_from (x0 :: more)); moves st (l2 ++ [i2])) = Ok st2
               /\ tab_get n (s_tables st1) = tab_get n (s_tables st2).
Proof. exact g2_skip_tables_independent. Qed.
Print Assumptions general_skip_tables_independent.

Theorem general_cells_are_printed_numbers : forall s title x0 more Ts, sim_eqb s TPLUS = false -> sim_eqb s AUT = false -> g2_ok s title x0 more Ts ->
  forall skip k x j u T r l pre cs t ws s0,
  nth_error (x0 :: more) k = Some x -> nth_error (filter (inN (map p_name (set_tables x0))) (set_tables x)) j = Some u -> nth_error Ts j = Some T ->
  in_names (p_name u) skip = false ->
  r < length (lt_rows T) -> last_line T r (p_rows u) = Some l -> l = pre ++ cbody cs ++ t ->
  lt_values T = Z.of_nat s0 :: map Z.of_nat (ends_w (length pre) ws) ->
  map fst cs = firstn (length cs) ws -> Forall cfits cs -> length pre <= s0 -> s0 <= length pre + first_lead cs ->
  (length cs = length ws \/ blank_str t) ->
  exists T', tab_get (p_name u) (s_tables (stateG s title x0 more Ts skip k x)) = Some T'
          /\ lt_rows T' = lt_rows T
          /\ nth r (lt_data T') [] = map (fun c => fortran_float (snd c) zero) cs
                                      ++ repeat zero (length ws - length cs) ++ repeat zero (length (lt_cols T) - length ws).
Proof. exact g2_cells_are_printed_numbers. Qed.
Print Assumptions general_cells_are_printed_numbers.
