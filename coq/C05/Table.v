(** C05 -- a small model of [t2listing.listingtable] and its three ways of addressing a cell.

    [__init__] builds [_row]/[_col] as [dict([(r,i) for i,r in enumerate(rows)])] (on a
    duplicate the LAST index wins); [__getitem__] tries, in this order: an int index, a
    column name, a row key, the reversed row key (connection tables: negated values). *)
From Coq Require Import Ascii String List Bool Arith Lia.
From PTBase Require Import PyStr.
Import ListNotations.

(** a row key is a string (one name) or a tuple of names *)
Inductive pykey := KS (s : str) | KT (l : list str).
Fixpoint strs_eqb (a b : list str) : bool :=
  match a, b with
  | [], [] => true
  | x :: a', y :: b' => str_eqb x y && strs_eqb a' b'
  | _, _ => false
  end.
Lemma strs_eqb_eq a b : strs_eqb a b = true <-> a = b.
Proof.
  revert b; induction a as [|x a IH]; destruct b as [|y b]; cbn; split; intro H; try reflexivity; try discriminate.
  - apply andb_prop in H as [H1 H2]. apply str_eqb_eq in H1. apply IH in H2. congruence.
  - inversion H; subst. rewrite str_eqb_refl. cbn. apply IH. reflexivity.
Qed.
Definition pykey_eqb (a b : pykey) : bool :=
  match a, b with KS x, KS y => str_eqb x y | KT x, KT y => strs_eqb x y | _, _ => false end.
Lemma pykey_eqb_eq a b : pykey_eqb a b = true <-> a = b.
Proof.
  destruct a, b; cbn; split; intro H; try discriminate; try (inversion H; fail).
  - apply str_eqb_eq in H. congruence.
  - inversion H. apply str_eqb_refl.
  - apply strs_eqb_eq in H. congruence.
  - inversion H; subst. apply strs_eqb_eq. reflexivity.
Qed.
(** [key[::-1]] and [len(key)] *)
Definition key_rev (k : pykey) : pykey := match k with KS s => KS (rev s) | KT l => KT (rev l) end.
Definition key_len (k : pykey) : nat := match k with KS s => length s | KT l => length l end.
Lemma key_rev_involutive k : key_rev (key_rev k) = k.
Proof. destruct k; cbn; rewrite rev_involutive; reflexivity. Qed.

(** index in [dict([(x,i) for i,x in enumerate(l)])]: the last occurrence *)
Fixpoint last_index {A} (eqb : A -> A -> bool) (x : A) (l : list A) (o : nat) : option nat :=
  match l with
  | [] => None
  | y :: r => match last_index eqb x r (S o) with
              | Some j => Some j
              | None => if eqb y x then Some o else None
              end
  end.
Lemma last_index_notin {A} (eqb : A -> A -> bool) (spec : forall a b, eqb a b = true <-> a = b) x l :
  forall o, ~ In x l -> last_index eqb x l o = None.
Proof.
  induction l as [|y r IH]; intros o H; [reflexivity|]. cbn [last_index]. rewrite IH by (intro; apply H; right; assumption).
  destruct (eqb y x) eqn:E; [|reflexivity]. apply spec in E. exfalso. apply H. left. exact E.
Qed.
Lemma last_index_nth {A} (eqb : A -> A -> bool) (spec : forall a b, eqb a b = true <-> a = b) d l :
  NoDup l -> forall i o, i < length l -> last_index eqb (nth i l d) l o = Some (o + i).
Proof.
  induction 1 as [|y r Hn Hd IH]; intros i o L; [cbn in L; lia|].
  destruct i as [|i]; cbn [nth last_index].
  - rewrite (last_index_notin eqb spec y r _ Hn). replace (eqb y y) with true by (symmetry; apply spec; reflexivity).
    f_equal. lia.
  - rewrite IH by (cbn in L; lia). f_equal. lia.
Qed.
Lemma last_index_some_in {A} (eqb : A -> A -> bool) (spec : forall a b, eqb a b = true <-> a = b) x l :
  forall o j, last_index eqb x l o = Some j -> o <= j /\ nth_error l (j - o) = Some x.
Proof.
  induction l as [|y r IH]; intros o j H; [discriminate|]. cbn [last_index] in H.
  destruct (last_index eqb x r (S o)) as [j'|] eqn:E.
  - inversion H; subst. apply IH in E as [L E]. split; [lia|]. replace (j - o) with (S (j - S o)) by lia. exact E.
  - destruct (eqb y x) eqn:Ey; [|discriminate]. inversion H; subst. apply spec in Ey. subst. split; [lia|].
    rewrite Nat.sub_diag. reflexivity.
Qed.

Section Table.
  Variable V : Type.            (* cell values (doubles) *)
  Variable neg : V -> V.        (* unary minus *)
  Variable dflt : V.

  Record table := { cols : list str; rows : list pykey; data : list (list V); allow_rev : bool }.
  Definition col_index (T : table) (c : str) : option nat := last_index str_eqb c (cols T) 0.
  Definition row_index (T : table) (k : pykey) : option nat := last_index pykey_eqb k (rows T) 0.
  Definition cell (T : table) (i j : nat) : V := nth j (nth i (data T) []) dflt.
  (** [dict(zip(['key'] + column_name, [row_name[i]] + list(_data[i,:])))]: the key entry and, per
      column name, the value (a repeated column name keeps its last column) *)
  Record rowdict := { rd_key : pykey; rd_get : str -> option V }.
  Inductive getres := RCol (l : list V) | RRow (r : rowdict) | RNone.
  Definition row_by_index (T : table) (i : nat) : rowdict :=
    {| rd_key := nth i (rows T) (KS []); rd_get := fun c => option_map (cell T i) (col_index T c) |}.
  Definition column (T : table) (j : nat) : list V := map (fun r => nth j r dflt) (data T).
  Definition is_col (T : table) (k : pykey) : bool := match k with KS s => existsb (str_eqb s) (cols T) | KT _ => false end.
  Definition is_row (T : table) (k : pykey) : bool := existsb (pykey_eqb k) (rows T).
  (** [table[key]] for a non-integer key *)
  Definition getitem (T : table) (k : pykey) : getres :=
    if is_col T k then
      match k with KS s => match col_index T s with Some j => RCol (column T j) | None => RNone end | KT _ => RNone end
    else if is_row T k then
      match row_index T k with Some i => RRow (row_by_index T i) | None => RNone end
    else if (1 <? key_len k)%nat && allow_rev T then
      let rk := key_rev k in
      if is_row T rk then
        match row_index T rk with
        | Some i => RRow {| rd_key := key_rev (nth i (rows T) (KS []));
                            rd_get := fun c => option_map neg (option_map (cell T i) (col_index T c)) |}
        | None => RNone
        end
      else RNone
    else RNone.

  Lemma is_row_nth T i : i < length (rows T) -> is_row T (nth i (rows T) (KS [])) = true.
  Proof.
    intro L. unfold is_row. apply existsb_exists. exists (nth i (rows T) (KS [])). split; [apply nth_In; exact L|].
    apply pykey_eqb_eq. reflexivity.
  Qed.

  (** row name = row index (through the row-name index), when row names are distinct *)
  Theorem name_vs_index T i :
    NoDup (rows T) -> i < length (rows T) -> is_col T (nth i (rows T) (KS [])) = false ->
    getitem T (nth i (rows T) (KS [])) = RRow (row_by_index T i).
  Proof.
    intros Hn L Hc. unfold getitem. rewrite Hc, (is_row_nth T i L). unfold row_index.
    rewrite (last_index_nth pykey_eqb pykey_eqb_eq (KS []) (rows T) Hn i 0 L). reflexivity.
  Qed.

  (** column name = row index, cell by cell *)
  Theorem column_vs_index T c j i :
    col_index T c = Some j -> i < length (data T) ->
    getitem T (KS c) = RCol (column T j) /\
    rd_get (row_by_index T i) c = Some (nth i (column T j) dflt).
  Proof.
    intros Hc L. split.
    - unfold getitem. assert (E : is_col T (KS c) = true).
      { unfold is_col. apply existsb_exists. unfold col_index in Hc.
        apply (last_index_some_in str_eqb str_eqb_eq) in Hc as [_ Hc]. exists c. split; [eapply nth_error_In; exact Hc|apply str_eqb_refl]. }
      rewrite E, Hc. reflexivity.
    - cbn [rd_get row_by_index]. rewrite Hc. cbn [option_map]. f_equal. unfold cell, column.
      symmetry. rewrite (nth_indep (map (fun r => nth j r dflt) (data T)) dflt ((fun r => nth j r dflt) []))
        by (rewrite map_length; exact L).
      apply (map_nth (fun r => nth j r dflt)).
  Qed.

  (** row-index addressing is exact whatever the row names (repeated or not): table[i] carries the i-th row name and the
      cells of the i-th data row *)
  Theorem index_exact T i c j : col_index T c = Some j ->
    rd_key (row_by_index T i) = nth i (rows T) (KS []) /\ rd_get (row_by_index T i) c = Some (cell T i j).
  Proof. intro H. cbn [row_by_index rd_key rd_get]. rewrite H. split; reflexivity. Qed.

  (** a reversed connection key returns the negated row, under the key as asked *)
  Theorem reversed_key_negates T k i :
    allow_rev T = true -> 1 < key_len k -> is_col T k = false -> is_row T k = false ->
    NoDup (rows T) -> i < length (rows T) -> nth i (rows T) (KS []) = key_rev k ->
    exists r, getitem T k = RRow r /\ rd_key r = k /\
              forall c, rd_get r c = option_map neg (rd_get (row_by_index T i) c).
  Proof.
    intros Ha Hl Hc Hr Hn L E. unfold getitem. rewrite Hc, Hr, Ha.
    replace (1 <? key_len k)%nat with true by (symmetry; apply Nat.ltb_lt; exact Hl). cbn [andb].
    rewrite <- E, (is_row_nth T i L). unfold row_index.
    rewrite (last_index_nth pykey_eqb pykey_eqb_eq (KS []) (rows T) Hn i 0 L). cbn [Nat.add].
    eexists. split; [reflexivity|]. cbn [rd_key rd_get]. split; [rewrite E; apply key_rev_involutive|reflexivity].
  Qed.

  (** without distinct row names the three ways need not agree: the name index keeps the last row *)
  Theorem name_vs_index_needs_distinct_names (v0 v1 : V) : v0 <> v1 ->
    exists T i, i < length (rows T) /\ is_col T (nth i (rows T) (KS [])) = false /\
                getitem T (nth i (rows T) (KS [])) <> RRow (row_by_index T i).
  Proof.
    intro Hv.
    exists {| cols := [s2l "P"]; rows := [KS (s2l "A"); KS (s2l "A")]; data := [[v0]; [v1]]; allow_rev := false |}, 0.
    split; [cbn; lia|]. split; [reflexivity|]. intro H. vm_compute in H. inversion H as [H1].
    apply (f_equal (fun f => f (s2l "P"))) in H1. vm_compute in H1. inversion H1. congruence.
  Qed.
End Table.
