(** C03 -- error analysis of the double arithmetic of Flt.v, in exact rationals (Q):
    every operation returns a double within 2^(t-53) of the exact result when the exact
    result is below 2^t.  Used to show that a coordinate written with at most 9 digits is
    re-written with the same digits after the trip file -> metres -> file. *)
From Coq Require Import List Bool Arith ZArith NArith Lia QArith Qabs Lqa.
From PTBase Require Import Exn PyStr PyNum PyVal Fmt FixedFormat.
From P Require Import Flt Fields.
Import ListNotations.
Open Scope Z_scope.

(** * round-half-even of a quotient, in Z *)
Lemma rhe_bounds n d : 0 <= n -> 0 < d -> 2 * n - d <= 2 * (rhe n d * d) <= 2 * n + d.
Proof.
  intros Hn Hd. unfold rhe. pose proof (Z.div_mod n d ltac:(lia)) as E. pose proof (Z.mod_pos_bound n d Hd) as B.
  set (q := n / d) in *. set (r := n mod d) in *.
  assert (M : forall k, (q + k) * d = d * q + k * d) by (intro k; ring).
  destruct (Z.compare_spec (2 * r) d) as [C|C|C].
  - destruct (Z.even q).
    + replace (q * d) with (d * q) by ring. lia.
    + rewrite M. lia.
  - replace (q * d) with (d * q) by ring. lia.
  - rewrite M. lia.
Qed.
(** the integer strictly within 1/2 of n/d is what [rhe] returns *)
Lemma rhe_unique n d N : 0 <= n -> 0 < d -> 2 * n - d < 2 * (N * d) < 2 * n + d -> rhe n d = N.
Proof.
  intros Hn Hd H. pose proof (rhe_bounds n d Hn Hd) as B.
  assert (A : -(2 * d) < 2 * ((rhe n d - N) * d) < 2 * d) by (rewrite Z.mul_sub_distr_r; lia).
  assert (rhe n d - N = 0); [|lia]. nia.
Qed.

(** * exact rationals *)
Open Scope Q_scope.
Definition qv (n d : Z) : Q := inject_Z n / inject_Z d.
Definition half_ulp (t : Z) : Q := / inject_Z (2 ^ (53 - t)).

Lemma inject_pos d : (0 < d)%Z -> 0 < inject_Z d.
Proof. intro H. change 0 with (inject_Z 0). rewrite <- Zlt_Qlt. exact H. Qed.
Lemma qv_nonneg n d : (0 <= n)%Z -> (0 < d)%Z -> 0 <= qv n d.
Proof.
  intros Hn Hd. unfold qv. apply Qle_shift_div_l; [apply inject_pos; exact Hd|]. rewrite Qmult_0_l.
  change 0 with (inject_Z 0). rewrite <- Zle_Qle. exact Hn.
Qed.
(** [x <= y * d] from [x / d <= y] and back, for the positive denominator of a [qv] *)
Lemma qv_le_r n d y : (0 < d)%Z -> inject_Z n <= y * inject_Z d -> qv n d <= y.
Proof. intros Hd H. unfold qv. apply Qle_shift_div_r; [apply inject_pos; exact Hd|exact H]. Qed.
Lemma qv_le_l n d y : (0 < d)%Z -> y * inject_Z d <= inject_Z n -> y <= qv n d.
Proof. intros Hd H. unfold qv. apply Qle_shift_div_l; [apply inject_pos; exact Hd|exact H]. Qed.
Lemma qv_mul_den n d : (0 < d)%Z -> qv n d * inject_Z d == inject_Z n.
Proof. intro Hd. unfold qv. pose proof (inject_pos d Hd). field. lra. Qed.

Ltac qpush H := repeat (rewrite inject_Z_plus in H || rewrite inject_Z_mult in H || rewrite inject_Z_opp in H).
Lemma rhe_Q n d : (0 <= n)%Z -> (0 < d)%Z -> qv n d - (1#2) <= inject_Z (rhe n d) <= qv n d + (1#2).
Proof.
  intros Hn Hd. destruct (rhe_bounds n d Hn Hd) as [A B]. pose proof (inject_pos d Hd) as P.
  rewrite Zle_Qle in A. rewrite Zle_Qle in B.
  unfold Zminus in A. qpush A. qpush B.
  change (inject_Z 2) with 2 in *.
  split.
  - assert (qv n d <= inject_Z (rhe n d) + (1#2)); [|lra]. apply qv_le_r; [exact Hd|]. lra.
  - assert (inject_Z (rhe n d) - (1#2) <= qv n d); [|lra]. apply qv_le_l; [exact Hd|]. lra.
Qed.

(** * round53: below 2^t (t <= 51) the result is within 2^(t-53) of the exact quotient *)
Lemma ilog2_le num den t : (0 < num)%Z -> (0 < den)%Z -> (0 <= t)%Z -> (num < den * 2 ^ t)%Z -> (ilog2 num den <= t)%Z.
Proof.
  intros Hn Hd Ht H. unfold ilog2.
  assert (L : (Z.log2 num <= t + Z.log2 den)%Z).
  { rewrite <- Z.log2_mul_pow2 by lia. apply Z.log2_le_mono. lia. }
  destruct (if (0 <=? Z.log2 num - Z.log2 den)%Z then _ else _); lia.
Qed.

Definition Vnd (md : Z * Z) : Q := qv (fst md) (snd md).
Lemma round53_err num den t : (0 < num)%Z -> (0 < den)%Z -> (0 <= t <= 51)%Z -> (num < den * 2 ^ t)%Z ->
  let mk := round53 num den in
  (0 <= fst mk)%Z /\ qv num den - half_ulp t <= Vnd (num_den (fst mk) (snd mk)) <= qv num den + half_ulp t.
Proof.
  intros Hn Hd Ht H. unfold round53. cbv zeta.
  pose proof (ilog2_le num den t Hn Hd ltac:(lia) H) as IL.
  set (k := Z.max (ilog2 num den - 52) (-1074)). assert (K : (k <= t - 52 /\ -1074 <= k)%Z) by (unfold k; lia).
  replace (0 <=? k)%Z with false by (symmetry; apply Z.leb_gt; lia). cbn [fst snd].
  set (P := (2 ^ (- k))%Z). assert (HP : (0 < P)%Z) by (apply Z.pow_pos_nonneg; lia).
  assert (HNP : (0 <= num * P)%Z) by nia.
  split; [apply Fields.rhe_nonneg; assumption|].
  unfold num_den. replace (0 <=? k)%Z with false by (symmetry; apply Z.leb_gt; lia). unfold Vnd. cbn [fst snd]. fold P.
  destruct (rhe_Q (num * P) den HNP Hd) as [A B].
  pose proof (inject_pos P HP) as QP. pose proof (inject_pos den Hd) as QD.
  assert (E : qv (num * P) den == qv num den * inject_Z P) by (unfold qv; rewrite inject_Z_mult; field; lra).
  rewrite E in A, B.
  (* 2 P >= 2^(53-t) *)
  assert (PB : (2 ^ (53 - t) <= 2 * P)%Z).
  { unfold P. replace (2 * 2 ^ (- k))%Z with (2 ^ (1 + - k))%Z by (rewrite Z.pow_add_r by lia; reflexivity).
    apply Z.pow_le_mono_r; lia. }
  assert (HU : (0 < 2 ^ (53 - t))%Z) by (apply Z.pow_pos_nonneg; lia).
  pose proof (inject_pos _ HU) as QU. rewrite Zle_Qle in PB. rewrite inject_Z_mult in PB. change (inject_Z 2) with 2 in PB.
  unfold half_ulp. set (U := inject_Z (2 ^ (53 - t))) in *. set (IP := inject_Z P) in *.
  assert (HU1 : / U * U == 1) by (field; lra).
  pose proof (qv_mul_den (rhe (num * P) den) P HP) as EM. fold IP in EM.
  set (M := qv (rhe (num * P) den) P) in *. set (R := inject_Z (rhe (num * P) den)) in *. set (q := qv num den) in *.
  assert (IU : 0 < / U) by (apply Qinv_lt_0_compat; exact QU).
  split; nra.
Qed.

Lemma qv_lt_c n d c : (0 < d)%Z -> qv n d < inject_Z c -> (n < c * d)%Z.
Proof.
  intros Hd H. pose proof (inject_pos d Hd) as P. pose proof (qv_mul_den n d Hd) as E.
  rewrite Zlt_Qlt, inject_Z_mult. rewrite <- E. apply Qmult_lt_r; assumption.
Qed.

(** * the operations of Flt.v *)
Definition Vq (a : dy) : Q := Vnd (dy_num_den a).
Lemma half_ulp_pos t : (t <= 53)%Z -> 0 < half_ulp t.
Proof. intro Ht. unfold half_ulp. apply Qinv_lt_0_compat. apply inject_pos. apply Z.pow_pos_nonneg; lia. Qed.

Lemma dy_of_q_err ng num den t : (0 <= num)%Z -> (0 < den)%Z -> (0 <= t <= 51)%Z -> (num < den * 2 ^ t)%Z ->
  (0 <= dm (dy_of_q ng num den))%Z /\ dneg (dy_of_q ng num den) = ng /\
  qv num den - half_ulp t <= Vq (dy_of_q ng num den) <= qv num den + half_ulp t.
Proof.
  intros Hn Hd Ht H. unfold dy_of_q. destruct (num =? 0)%Z eqn:E.
  - apply Z.eqb_eq in E. subst num. cbn [dm dneg]. split; [lia|]. split; [reflexivity|].
    pose proof (half_ulp_pos t ltac:(lia)). unfold Vq, Vnd, dy_num_den, qv. cbn. unfold Qdiv. rewrite !Qmult_0_l. split; lra.
  - apply Z.eqb_neq in E. destruct (round53_err num den t ltac:(lia) Hd Ht H) as [M B].
    destruct (round53 num den) as [m k]. cbn [fst snd dm dneg] in *. split; [exact M|]. split; [reflexivity|].
    unfold Vq, dy_num_den. cbn [dm de]. exact B.
Qed.

Lemma nd_pos a : (0 <= dm a)%Z -> (0 <= fst (dy_num_den a))%Z /\ (0 < snd (dy_num_den a))%Z.
Proof. intro H. unfold dy_num_den. apply Fields.num_den_pos. exact H. Qed.
Lemma Vq_nonneg a : (0 <= dm a)%Z -> 0 <= Vq a.
Proof. intro H. destruct (nd_pos a H). unfold Vq, Vnd. apply qv_nonneg; assumption. Qed.

(** product and quotient of two [qv] *)
Lemma qv_mul n1 d1 n2 d2 : (0 < d1)%Z -> (0 < d2)%Z -> qv (n1 * n2) (d1 * d2) == qv n1 d1 * qv n2 d2.
Proof.
  intros H1 H2. unfold qv. rewrite !inject_Z_mult. pose proof (inject_pos _ H1). pose proof (inject_pos _ H2). field. lra.
Qed.
Lemma qv_div n1 d1 n2 d2 : (0 < d1)%Z -> (0 < d2)%Z -> (0 < n2)%Z -> qv (n1 * d2) (d1 * n2) * qv n2 d2 == qv n1 d1.
Proof.
  intros H1 H2 H3. unfold qv. rewrite !inject_Z_mult. pose proof (inject_pos _ H1). pose proof (inject_pos _ H2). pose proof (inject_pos _ H3).
  field. lra.
Qed.

(** * the trip file -> metres -> file in exact rationals *)
Definition u27 : Q := 1 # 67108864.     (* 2^-26 *)
Definition u29 : Q := 1 # 16777216.     (* 2^-24 *)
Lemma half_ulp_27 : half_ulp 27 = u27. Proof. reflexivity. Qed.
Lemma half_ulp_29 : half_ulp 29 = u29. Proof. reflexivity. Qed.

Lemma div_close (c d s x e : Q) : c * s == x -> d * s - e <= x <= d * s + e -> (1#4) <= s -> 0 <= e ->
  d - 4 * e <= c <= d + 4 * e.
Proof.
  intros E [L U] S He. assert (P : (c - d) * s == x - d * s) by (rewrite <- E; ring).
  assert (A1 : (c - d) * s <= e) by (rewrite P; lra). assert (A2 : - e <= (c - d) * s) by (rewrite P; lra).
  set (w := c - d) in *. assert (W : d - 4 * e <= d + w <= d + 4 * e); [|unfold w in W; lra].
  destruct (Qlt_le_dec w 0) as [N|N]; split; nra.
Qed.

Lemma chain_bound (A T N D S X C Q2 : Q) :
  A * T == N -> 10 <= T <= 100 -> 0 <= N -> (1#4) <= S <= 1 ->
  A - u27 <= D <= A + u27 -> D * S - u27 <= X <= D * S + u27 -> C * S == X -> C - u29 <= Q2 <= C + u29 ->
  N - (1#2) < Q2 * T < N + (1#2).
Proof.
  intros EA [T1 T2] HN [S1 S2] [D1 D2] HX EC [Q1 Q3].
  assert (U27 : 0 <= u27) by (unfold u27; lra).
  destruct (div_close C D S X u27 EC HX S1 U27) as [C1 C2].
  assert (B : A - (9 # 67108864) <= Q2 <= A + (9 # 67108864)) by (unfold u27, u29 in *; split; lra).
  destruct B as [B1 B2]. rewrite <- EA.
  assert (G : (Q2 - A) * T <= (9 # 67108864) * 100 /\ - ((9 # 67108864) * 100) <= (Q2 - A) * T).
  { set (w := Q2 - A) in *. assert (W1 : w <= 9 # 67108864) by (unfold w; lra). assert (W2 : - (9 # 67108864) <= w) by (unfold w; lra).
    destruct (Qlt_le_dec w 0); split; nra. }
  destruct G as [G1 G2]. assert (R : Q2 * T == A * T + (Q2 - A) * T) by ring. rewrite R. split; lra.
Qed.

Lemma Qeq_lt_l (a b c : Q) : a == b -> b < c -> a < c.
Proof. intros E H. rewrite E. exact H. Qed.

(** * scales *)
Definition scale_ok (s : dy) : bool :=
  negb (dneg s) && (0 <? dm s)%Z &&
  (snd (dy_num_den s) <=? 4 * fst (dy_num_den s))%Z && (fst (dy_num_den s) <=? snd (dy_num_den s))%Z.
Lemma num_den_pos_strict m e : (0 < m)%Z -> (0 < fst (num_den m e))%Z.
Proof.
  intro H. unfold num_den. destruct (0 <=? e)%Z eqn:E; cbn [fst]; [|exact H].
  apply Z.leb_le in E. apply Z.mul_pos_pos; [exact H|apply Z.pow_pos_nonneg; lia].
Qed.
Lemma scale_bounds s : scale_ok s = true ->
  dneg s = false /\ (0 < fst (dy_num_den s))%Z /\ (0 < snd (dy_num_den s))%Z /\ (1#4) <= Vq s <= 1.
Proof.
  unfold scale_ok. intro H. repeat (apply andb_prop in H; destruct H as [H ?]).
  apply negb_true_iff in H. apply Z.ltb_lt in H2. apply Z.leb_le in H1. apply Z.leb_le in H0.
  assert (P : (0 < fst (dy_num_den s))%Z) by (apply num_den_pos_strict; exact H2).
  destruct (nd_pos s ltac:(lia)) as [_ D]. repeat split; try assumption.
  - unfold Vq, Vnd. apply qv_le_l; [exact D|]. rewrite Zle_Qle in H1. qpush H1. change (inject_Z 4) with 4 in H1. lra.
  - unfold Vq, Vnd. apply qv_le_r; [exact D|]. rewrite Zle_Qle in H0. lra.
Qed.

(** * THE trip: the digits written for [q1] are written again after
    text -> double -> times scale -> divided by scale *)
Section Trip.
  Variable p : Z.
  Variable s q1 : dy.
  Hypothesis Hp : (1 <= p <= 2)%Z.
  Hypothesis Hs : scale_ok s = true.
  Hypothesis Hq : (0 <= dm q1)%Z.
  Let N1 := rhe (fst (dy_num_den q1) * pow10 p) (snd (dy_num_den q1)).
  Hypothesis HN : (N1 < 10 ^ 9)%Z.
  Let d := dy_of_dec (dneg q1) (Z.to_N N1) (- p).
  Let x' := dy_mul d s.
  Let q2 := dy_div x' s.

  Lemma trip_digits :
    (0 <= dm q2)%Z /\ dneg q2 = dneg q1 /\ rhe (fst (dy_num_den q2) * pow10 p) (snd (dy_num_den q2)) = N1.
  Proof.
    destruct (scale_bounds s Hs) as [Sg [Sn [Sd [S1 S2]]]].
    destruct (nd_pos q1 Hq) as [Q1n Q1d].
    assert (T10 : (10 <= pow10 p <= 100)%Z).
    { unfold pow10. split; [change 10%Z with (10 ^ 1)%Z at 1|change 100%Z with (10 ^ 2)%Z]; apply Z.pow_le_mono_r; lia. }
    assert (N0 : (0 <= N1)%Z) by (apply Fields.rhe_nonneg; [apply Z.mul_nonneg_nonneg; lia|exact Q1d]).
    (* d: the double nearest the printed decimal *)
    assert (Ed : d = dy_of_q (dneg q1) N1 (pow10 p)).
    { unfold d, dy_of_dec. replace (0 <=? - p)%Z with false by (symmetry; apply Z.leb_gt; lia).
      rewrite Z2N.id by exact N0. rewrite Z.opp_involutive. reflexivity. }
    destruct (dy_of_q_err (dneg q1) N1 (pow10 p) 27 N0 ltac:(lia) ltac:(lia)) as [Dm [Dg [D1 D2]]].
    { change (2 ^ 27)%Z with 134217728%Z. lia. }
    rewrite <- Ed in Dm, Dg, D1, D2. rewrite half_ulp_27 in D1, D2.
    set (A := qv N1 (pow10 p)) in *. set (T := inject_Z (pow10 p)).
    assert (EA : A * T == inject_Z N1) by (apply qv_mul_den; lia).
    assert (TB : 10 <= T <= 100).
    { unfold T. destruct T10 as [Ta Tb]. rewrite Zle_Qle in Ta, Tb. split; assumption. }
    assert (NB : 0 <= inject_Z N1 /\ inject_Z N1 < 1000000000).
    { split; [change 0 with (inject_Z 0); rewrite <- Zle_Qle; exact N0|].
      change 1000000000 with (inject_Z (10 ^ 9)). rewrite <- Zlt_Qlt. exact HN. }
    assert (AB : 0 <= A /\ A < 100000000).
    { split; [apply qv_nonneg; lia|]. destruct NB as [_ NB]. destruct TB as [TB _].
      destruct (Qlt_le_dec A 100000000) as [L|L]; [exact L|]. exfalso. nra. }
    (* x' = d * s *)
    destruct (nd_pos d Dm) as [Dn Dd].
    assert (Ex : x' = dy_of_q (dneg q1) (fst (dy_num_den d) * fst (dy_num_den s)) (snd (dy_num_den d) * snd (dy_num_den s))).
    { unfold x', dy_mul. destruct (dy_num_den d) as [a b], (dy_num_den s) as [a' b']. cbn [fst snd]. rewrite Dg, Sg, xorb_false_r. reflexivity. }
    pose proof (qv_mul (fst (dy_num_den d)) (snd (dy_num_den d)) (fst (dy_num_den s)) (snd (dy_num_den s)) Dd Sd) as EM.
    fold (Vnd (dy_num_den d)) (Vnd (dy_num_den s)) in EM. fold (Vq d) (Vq s) in EM.
    set (D := Vq d) in *. set (S := Vq s) in *.
    assert (U27 : u27 == 1 # 67108864) by reflexivity.
    destruct (dy_of_q_err (dneg q1) (fst (dy_num_den d) * fst (dy_num_den s)) (snd (dy_num_den d) * snd (dy_num_den s)) 27
                ltac:(nia) ltac:(nia) ltac:(lia)) as [Xm [Xg [X1 X2]]].
    { rewrite (Z.mul_comm _ (2 ^ 27)). apply qv_lt_c; [nia|]. apply (Qeq_lt_l _ _ _ EM). change (inject_Z (2 ^ 27)) with 134217728. destruct AB. nra. }
    rewrite <- Ex in Xm, Xg, X1, X2. rewrite half_ulp_27, EM in X1, X2.
    (* q2 = x' / s *)
    destruct (nd_pos x' Xm) as [Xn Xd].
    assert (E2 : q2 = dy_of_q (dneg q1) (fst (dy_num_den x') * snd (dy_num_den s)) (snd (dy_num_den x') * fst (dy_num_den s))).
    { unfold q2, dy_div. destruct (dy_num_den x') as [a b], (dy_num_den s) as [a' b']. cbn [fst snd]. rewrite Xg, Sg, xorb_false_r. reflexivity. }
    pose proof (qv_div (fst (dy_num_den x')) (snd (dy_num_den x')) (fst (dy_num_den s)) (snd (dy_num_den s)) Xd Sd Sn) as EC.
    fold (Vnd (dy_num_den x')) (Vnd (dy_num_den s)) in EC. fold (Vq x') (Vq s) in EC. fold S in EC.
    set (X := Vq x') in *. set (C := qv (fst (dy_num_den x') * snd (dy_num_den s)) (snd (dy_num_den x') * fst (dy_num_den s))) in *.
    assert (U27' : 0 <= u27) by (unfold u27; lra).
    destruct (div_close C D S X u27 EC (conj X1 X2) S1 U27') as [C1 C2].
    destruct (dy_of_q_err (dneg q1) (fst (dy_num_den x') * snd (dy_num_den s)) (snd (dy_num_den x') * fst (dy_num_den s)) 29
                ltac:(nia) ltac:(nia) ltac:(lia)) as [Qm [Qg [Q1 Q2]]].
    { rewrite (Z.mul_comm _ (2 ^ 29)). apply qv_lt_c; [nia|]. fold C. change (inject_Z (2 ^ 29)) with 536870912. destruct AB. unfold u27 in *. lra. }
    rewrite <- E2 in Qm, Qg, Q1, Q2. rewrite half_ulp_29 in Q1, Q2. fold C in Q1, Q2.
    split; [exact Qm|]. split; [exact Qg|].
    (* the digits *)
    destruct (nd_pos q2 Qm) as [Q2n Q2d].
    destruct (chain_bound A T (inject_Z N1) D S X C (Vq q2) EA TB (proj1 NB) (conj S1 S2) (conj D1 D2) (conj X1 X2) EC (conj Q1 Q2)) as [G1 G2].
    apply rhe_unique; [apply Z.mul_nonneg_nonneg; lia|exact Q2d|].
    pose proof (qv_mul_den (fst (dy_num_den q2)) (snd (dy_num_den q2)) Q2d) as E3.
    fold (Vnd (dy_num_den q2)) in E3. fold (Vq q2) in E3.
    pose proof (inject_pos _ Q2d) as PD. set (Dn2 := inject_Z (snd (dy_num_den q2))) in *. set (W := Vq q2) in *.
    split; rewrite Zlt_Qlt; unfold Zminus; repeat (rewrite inject_Z_plus || rewrite inject_Z_mult || rewrite inject_Z_opp);
      fold T Dn2; rewrite <- E3; change (inject_Z 2) with 2; nra.
  Qed.
End Trip.
