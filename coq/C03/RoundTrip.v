(** C03 -- the round-trip proof: [wf g = true -> write g = Ok b -> read b = Ok (canon g)].

    Structure: (0) generic lemmas (mapM, boolean equalities, membership); (1) one written
    record parses back to [expected_list] whatever follows it on the line; (2) the facts
    about the regenerated tables the proof needs (record shapes, section titles and their
    dispatch) -- closed computations, re-checked on every run; (3) per-section: the step
    function reads one written record, and the fold of the updates is the canonical list;
    (4) assembly. *)
From Coq Require Import Ascii String List Bool Arith ZArith NArith Lia.
From PTBase Require Import Exn PyStr PyNum PyVal Fmt FixedFormat.
From Gen Require Import GenTables GenMulgrid.
From P Require Import Flt Lines MulgridIO.
Import ListNotations.
Open Scope Z_scope.
Open Scope list_scope.

(** * 0. generic *)
Lemma mapM_ok {A B} (f : A -> res B) (h : A -> B) l :
  (forall x, In x l -> f x = Ok (h x)) -> mapM f l = Ok (map h l).
Proof.
  induction l as [|a l IH]; intro H; [reflexivity|]. cbn [mapM map].
  rewrite (H a (or_introl eq_refl)). cbn [bind]. rewrite IH; [reflexivity|].
  intros x Hx. apply H. right. exact Hx.
Qed.

Lemma fval_seqb_eq a b : fval_seqb a b = true -> a = b.
Proof.
  destruct a, b; cbn [fval_seqb]; intro H; try discriminate; try reflexivity.
  - apply andb_prop in H as [H H3]. apply andb_prop in H as [H1 H2].
    apply Bool.eqb_prop in H1. apply N.eqb_eq in H2. apply Z.eqb_eq in H3. congruence.
  - apply Bool.eqb_prop in H. congruence.
Qed.
Lemma rvalue_eqb_eq a b : rvalue_eqb a b = true -> a = b.
Proof.
  destruct a, b; cbn [rvalue_eqb]; intro H; try discriminate; try reflexivity.
  - apply str_eqb_eq in H. congruence.
  - apply Z.eqb_eq in H. congruence.
  - apply fval_seqb_eq in H. congruence.
Qed.

Lemma ceqb_sym a b : ceqb a b = ceqb b a.
Proof. unfold ceqb. apply Ascii.eqb_sym. Qed.
Lemma str_eqb_sym a b : str_eqb a b = str_eqb b a.
Proof.
  revert b. induction a as [|x a IH]; destruct b as [|y b]; cbn [str_eqb]; try reflexivity.
  rewrite ceqb_sym, IH. reflexivity.
Qed.
Lemma str_eqb_neq a b : str_eqb a b = false <-> a <> b.
Proof.
  split.
  - intros H E. apply str_eqb_eq in E. congruence.
  - intro H. destruct (str_eqb a b) eqn:E; [|reflexivity]. apply str_eqb_eq in E. contradiction.
Qed.

Lemma mem_str_In a l : mem_str a l = true <-> In a l.
Proof.
  unfold mem_str. rewrite existsb_exists. split.
  - intros [x [I E]]. apply str_eqb_eq in E. subst. exact I.
  - intro I. exists a. split; [exact I|apply str_eqb_refl].
Qed.
Lemma mem_str_false a l : mem_str a l = false <-> ~ In a l.
Proof.
  split.
  - intros H I. apply mem_str_In in I. congruence.
  - intro H. destruct (mem_str a l) eqn:E; [|reflexivity]. apply mem_str_In in E. contradiction.
Qed.
Lemma nodup_str_NoDup l : nodup_str l = true <-> NoDup l.
Proof.
  induction l as [|a l IH]; cbn [nodup_str].
  - split; [constructor|reflexivity].
  - rewrite andb_true_iff, negb_true_iff, IH. fold (mem_str a l). rewrite mem_str_false.
    split; [intros [A B]; constructor; assumption|intro H; inversion H; auto].
Qed.
Lemma NoDup_app_l {A} (a b : list A) : NoDup (a ++ b) -> NoDup a.
Proof.
  induction a as [|x a IH]; intro H; [constructor|]. cbn [app] in H. inversion H; subst.
  constructor; [intro I; apply H2; apply in_or_app; left; exact I|apply IH; assumption].
Qed.
Lemma NoDup_app_notin {A} (a b : list A) x : NoDup (a ++ x :: b) -> ~ In x a.
Proof.
  intros H I. apply NoDup_remove_2 in H. apply H. apply in_or_app. left. exact I.
Qed.

(** * 1. one record *)
Lemma fields_ok_write specs : forall vals, fields_ok specs vals = true ->
  exists fs, write_fields specs vals = Ok fs /\ length fs = length specs /\ line_ok (concat fs) = true /\
             map (fun p => default_rf (ft (fst p)) (snd p)) (combine specs fs) = expected_list specs vals.
Proof.
  induction specs as [|f specs IH]; intros [|v vals] H; cbn [fields_ok_g] in H; try discriminate.
  - exists []. repeat split; reflexivity.
  - apply andb_prop in H as [Hr Hs]. destruct (IH _ Hs) as [fs [W [Ln [Lo E]]]].
    unfold readback_ok in Hr. destruct (fmt_field f v) as [s|e] eqn:F; [|discriminate].
    apply andb_prop in Hr as [Ls Rv]. apply rvalue_eqb_eq in Rv.
    exists (s :: fs). cbn [write_fields]. rewrite F, W. cbn [bind]. repeat split.
    + cbn [length]. rewrite Ln. reflexivity.
    + cbn [concat]. unfold line_ok in *. rewrite forallb_app, Ls, Lo. reflexivity.
    + unfold expected_list. cbn [combine map fst snd]. rewrite Rv. f_equal. exact E.
Qed.

Theorem record_parses_back specs vals : fields_ok specs vals = true ->
  exists l, write_values specs vals = Ok l /\ line_ok l = true /\
            forall rest, parse_string default_rf specs (l ++ rest) = expected_list specs vals.
Proof.
  intro H. destruct (fields_ok_write _ _ H) as [fs [W [Ln [Lo E]]]].
  exists (concat fs). unfold write_values. rewrite W. cbn [bind]. repeat split; [exact Lo|].
  intro rest. unfold parse_string.
  pose proof (written_fields_in_place specs vals fs rest W) as P.
  assert (FL : length (field_slices specs (concat fs ++ rest)) = length specs).
  { unfold field_slices. rewrite map_length.
    assert (LS : forall pos ws, length (line_spec pos ws) = length ws).
    { intros pos ws; revert pos; induction ws as [|w r IHw]; intro pos; cbn; [reflexivity|]. rewrite IHw. reflexivity. }
    rewrite LS, map_length. reflexivity. }
  rewrite Ln, <- FL, firstn_all in P. rewrite P. exact E.
Qed.

(** the writer's line for record [r] (total version, for stating the shape of the file) *)
Definition wl (r : string) (vals : list value) : str := match wrec r vals with Ok l => l | Raise _ => [] end.

Lemma rec_fields_ok_parses r vals : rec_fields_ok r vals = true ->
  exists specs, specs_of r = Ok specs /\ wrec r vals = Ok (wl r vals) /\ line_ok (wl r vals) = true /\
    forall rest, parse_string default_rf specs (wl r vals ++ rest) = expected_list specs vals.
Proof.
  unfold rec_fields_ok_g, wl, wrec. destruct (specs_of r) as [specs|e]; [|discriminate]. intro H.
  destruct (record_parses_back _ _ H) as [l [W [Lo P]]]. exists specs. cbn [bind]. rewrite W. auto.
Qed.
Lemma rec_ok_parses r vals : rec_ok r vals = true ->
  exists specs, specs_of r = Ok specs /\ wrec r vals = Ok (wl r vals) /\ line_ok (wl r vals) = true /\
    is_blank (wl r vals) = false /\
    forall rest, parse_string default_rf specs (wl r vals ++ rest) = expected_list specs vals.
Proof.
  intro H. assert (H2 : rec_fields_ok r vals = true).
  { unfold rec_ok_g in H. unfold rec_fields_ok_g. destruct (specs_of r); [|discriminate]. apply andb_prop in H as [H _]. exact H. }
  destruct (rec_fields_ok_parses _ _ H2) as [specs [S [W [Lo P]]]]. exists specs. repeat split; try assumption.
  unfold rec_ok_g in H. rewrite S in H. apply andb_prop in H as [_ H].
  unfold wrec in W. rewrite S in W. cbn [bind] in W. rewrite W in H. apply negb_true_iff in H. exact H.
Qed.

(** the line as the loop sees it: the first line of a section is padded *)
Lemma maybe_pad_shape padn first l : exists rest, maybe_pad padn first (add_nl l) = l ++ rest.
Proof.
  unfold maybe_pad, padstring, ljust, add_nl. destruct first.
  - exists ([nl] ++ spaces (padn - length (l ++ [nl])))%list. rewrite <- app_assoc. reflexivity.
  - exists [nl]. reflexivity.
Qed.
Lemma maybe_pad_blank padn first l : is_blank (maybe_pad padn first (add_nl l)) = is_blank l.
Proof.
  unfold maybe_pad, padstring, ljust, add_nl. destruct first.
  - rewrite !is_blank_app, is_blank_spaces, is_blank_nl, !andb_true_r. reflexivity.
  - rewrite is_blank_app, is_blank_nl, andb_true_r. reflexivity.
Qed.

(** names: whatever the field width and the writer's [ljust], the reader recovers
    [strip name] re-justified *)
Lemma canon_name_pad L w k s : canon_name L (pad w (ljust k s)) = canon_name L s.
Proof. unfold canon_name. rewrite strip_pad, strip_ljust. reflexivity. Qed.

(** * 2. facts about the regenerated tables (closed computations, re-checked every run) *)
Definition sp (r : string) (i : nat) : fspec := spec_at r i.
Lemma specs_header : exists names specs, rec_of "header" = Ok (names, specs).
Proof. eexists; eexists; reflexivity. Qed.
Lemma specs_node : specs_of "node" = Ok [sp "node" 0; sp "node" 1; sp "node" 2].
Proof. reflexivity. Qed.
Lemma types_node : ft (sp "node" 0) = Ts /\ ft (sp "node" 1) = Tf /\ ft (sp "node" 2) = Tf.
Proof. repeat split; reflexivity. Qed.
Lemma specs_column : specs_of "column" = Ok [sp "column" 0; sp "column" 1; sp "column" 2; sp "column" 3; sp "column" 4].
Proof. reflexivity. Qed.
Lemma types_column : ft (sp "column" 0) = Ts /\ ft (sp "column" 1) = Td /\ ft (sp "column" 2) = Td /\ ft (sp "column" 3) = Tf /\ ft (sp "column" 4) = Tf.
Proof. repeat split; reflexivity. Qed.
Lemma specs_column_node : specs_of "column_node" = Ok [sp "column_node" 0].
Proof. reflexivity. Qed.
Lemma types_column_node : ft (sp "column_node" 0) = Ts.
Proof. reflexivity. Qed.
Lemma specs_connection : specs_of "connection" = Ok [sp "connection" 0; sp "connection" 1].
Proof. reflexivity. Qed.
Lemma types_connection : ft (sp "connection" 0) = Ts /\ ft (sp "connection" 1) = Ts.
Proof. repeat split; reflexivity. Qed.
Lemma specs_layer : specs_of "layer" = Ok [sp "layer" 0; sp "layer" 1; sp "layer" 2].
Proof. reflexivity. Qed.
Lemma types_layer : ft (sp "layer" 0) = Ts /\ ft (sp "layer" 1) = Tf /\ ft (sp "layer" 2) = Tf.
Proof. repeat split; reflexivity. Qed.
Lemma specs_surface : specs_of "surface" = Ok [sp "surface" 0; sp "surface" 1].
Proof. reflexivity. Qed.
Lemma types_surface : ft (sp "surface" 0) = Ts /\ ft (sp "surface" 1) = Tf.
Proof. repeat split; reflexivity. Qed.
Lemma specs_well : specs_of "well" = Ok [sp "well" 0; sp "well" 1; sp "well" 2; sp "well" 3].
Proof. reflexivity. Qed.
Lemma types_well : ft (sp "well" 0) = Ts /\ ft (sp "well" 1) = Tf /\ ft (sp "well" 2) = Tf /\ ft (sp "well" 3) = Tf.
Proof. repeat split; reflexivity. Qed.

(** a section title: found, stays on its line, is not blank, and its first [keyword_len]
    characters select reader [rd] in the dispatch dictionary *)
Definition title_ok (w rd : string) : bool :=
  match title w with
  | Ok t => line_ok t &&
            match strip (add_nl t) with
            | [] => false
            | s => match strlookup (rstrip (slice 0 keyword_len s)) read_dispatch with
                   | Some m => String.eqb m rd | None => false end
            end
  | Raise _ => false
  end.
Lemma titles_dispatch :
  title_ok "write_nodes" "read_nodes" && title_ok "write_columns" "read_columns" &&
  title_ok "write_connections" "read_connections" && title_ok "write_layers" "read_layers" &&
  title_ok "write_surface" "read_surface" && title_ok "write_wells" "read_wells" = true.
Proof. vm_compute. reflexivity. Qed.
(** the order and guards of the section writers in [mulgrid.write] are those of [write_lines] *)
Lemma write_sequence_is_modelled : write_sequence =
  [("always", "write_header"); ("always", "write_nodes"); ("always", "write_columns"); ("always", "write_connections");
   ("always", "write_layers"); ("not_default_surface", "write_surface"); ("has_wells", "write_wells"); ("always", "final")]%string.
Proof. reflexivity. Qed.

(** numbers: a real written to an [f] field comes back as a finite decimal *)
Lemma as_dy_expected_f f x : ft f = Tf -> exists d, as_dy (expected f (vreal x)) = Ok d.
Proof.
  intro T. unfold expected, vreal. rewrite T. unfold dec_f. destruct (num_den (dm x) (de x)) as [num den].
  eexists. reflexivity.
Qed.
Lemma rt_num_eq f scw scr x d : as_dy (expected f (vreal (dy_div x scw))) = Ok d -> rt_num f scw scr x = dy_mul d scr.
Proof. intro H. unfold rt_num. rewrite H. reflexivity. Qed.
Lemma expected_name f s : ft f = Ts -> expected f (XStr s) = RStr (pad (fw f) s).
Proof. intro T. unfold expected. rewrite T. reflexivity. Qed.
Lemma expected_none_f f : ft f = Tf -> expected f XNone = RNone.
Proof. intro T. unfold expected. rewrite T. reflexivity. Qed.
Lemma expected_int f z : ft f = Td -> expected f (XInt z) = RInt z.
Proof. intro T. unfold expected. rewrite T. reflexivity. Qed.

(** * 3. sections *)
Definition geo_loop := loop geo pad_length.

(** ** nodes *)
Section Nodes.
  Variable L : nat.
  Variable scw scr : dy.
  Definition enc_node (n : node) : list str := [wl "node" (node_vals scw n)].
  Definition upd_node (n : node) (g : geo) : geo := add_node (canon_node L scw scr n) g.

  Lemma node_step n s : wf_node scw n = true ->
    step_reads geo pad_length (rd_node L scr) node enc_node upd_node n s.
  Proof.
    intros H first rest. exists (wl "node" (node_vals scw n)), []. split; [reflexivity|].
    destruct (rec_ok_parses _ _ H) as [specs [S [W [Lo [Bl P]]]]].
    split; [rewrite maybe_pad_blank; exact Bl|].
    destruct (maybe_pad_shape pad_length first (wl "node" (node_vals scw n))) as [rest' E]. rewrite E.
    unfold rd_node. rewrite S. cbn [bind]. rewrite P.
    rewrite specs_node in S. injection S as S. subst specs.
    destruct types_node as [T0 [T1 T2]].
    unfold expected_list, node_vals. cbn [combine map fst snd]. unfold name_field.
    rewrite (expected_name _ _ T0). cbn [as_str bind].
    destruct (as_dy_expected_f (sp "node" 1) (dy_div (n_x n) scw) T1) as [dx Ex].
    destruct (as_dy_expected_f (sp "node" 2) (dy_div (n_y n) scw) T2) as [dy_ Ey].
    rewrite Ex, Ey. cbn [bind map app]. unfold upd_node, canon_node.
    rewrite canon_name_pad. fold (sp "node" 1) (sp "node" 2).
    rewrite (rt_num_eq _ _ _ _ _ Ex), (rt_num_eq _ _ _ _ _ Ey). reflexivity.
  Qed.

  Lemma node_mem_names nm ns : node_mem nm ns = mem_str nm (map n_name ns).
  Proof.
    unfold node_mem, mem_str. induction ns as [|n ns IH]; [reflexivity|]. cbn [existsb map].
    rewrite IH, str_eqb_sym. reflexivity.
  Qed.
  Lemma fold_add_node {X} (f : X -> node) xs : forall g, NoDup (map n_name (g_nodes g ++ map f xs)) ->
    fold_left (fun s x => add_node (f x) s) xs g = with_nodes (g_nodes g ++ map f xs) g.
  Proof.
    induction xs as [|x xs IH]; intros g H.
    - cbn [map fold_left]. rewrite app_nil_r. destruct g as [gh gn gc gk gl gw]; reflexivity.
    - cbn [map fold_left]. unfold add_node at 2. rewrite node_mem_names.
      cbn [map] in H. rewrite map_app in H. cbn [map] in H.
      pose proof (NoDup_app_notin _ _ _ H) as NI. apply mem_str_false in NI. rewrite NI.
      rewrite IH.
      + destruct g as [gh gn gc gk gl gw]; cbn. rewrite <- app_assoc. reflexivity.
      + destruct g as [gh gn gc gk gl gw]; cbn [with_nodes g_nodes]. rewrite <- app_assoc. cbn [app]. rewrite map_app. cbn [map]. exact H.
  Qed.

  Lemma nodes_section nodes g rest fuel :
    forallb (wf_node scw) nodes = true -> NoDup (map n_name (g_nodes g ++ map (canon_node L scw scr) nodes)) ->
    (length nodes < fuel)%nat ->
    geo_loop (rd_node L scr) fuel true (map add_nl (flat_map enc_node nodes) ++ add_nl [] :: rest) g
    = Ok (with_nodes (g_nodes g ++ map (canon_node L scw scr) nodes) g, rest).
  Proof.
    intros W N F. unfold geo_loop.
    rewrite (loop_records geo pad_length (rd_node L scr) node enc_node upd_node nodes g rest true fuel).
    - unfold run, upd_node. rewrite (fold_add_node (canon_node L scw scr)); [reflexivity|exact N].
    - intros pre r post E. apply node_step. rewrite forallb_forall in W. apply W. rewrite E. apply in_or_app. right. left. reflexivity.
    - exact F.
  Qed.
End Nodes.

(** ** columns *)
Section Columns.
  Variable L : nat.
  Variable scw scr : dy.
  Definition enc_colnode (nm : str) : str := wl "column_node" (colnode_vals nm).
  Definition enc_col (c : column) : list str := wl "column" (column_vals scw c) :: map enc_colnode (c_nodes c).
  (** the column as the GRID section leaves it: default surface *)
  Definition canon_col0 (c : column) : column :=
    canon_column L scw scr (mkcol (c_name c) (c_centre c) (c_nodes c) None).
  Definition upd_col (c : column) (g : geo) : geo := add_column (canon_col0 c) g.

  Lemma colnodes_read nms : forall rest g, forallb (wf_colnode L (map n_name (g_nodes g))) nms = true ->
    rd_colnodes L [sp "column_node" 0] (length nms) (map add_nl (map enc_colnode nms) ++ rest) g
    = Ok (map (canon_name L) nms, rest).
  Proof.
    induction nms as [|nm r IH]; intros rest g H; [reflexivity|].
    cbn [forallb] in H. apply andb_prop in H as [H1 H2]. unfold wf_colnode_g in H1. apply andb_prop in H1 as [F M].
    destruct (rec_fields_ok_parses _ _ F) as [specs [S [W [Lo P]]]].
    rewrite specs_column_node in S. injection S as S. subst specs.
    cbn [length map app rd_colnodes hd_line tl_lines]. unfold enc_colnode at 1, add_nl at 1. rewrite P.
    unfold expected_list, colnode_vals, name_field. cbn [combine map fst snd].
    rewrite (expected_name _ _ types_column_node). cbn [as_str bind]. rewrite canon_name_pad.
    rewrite node_mem_names, M. rewrite (IH _ _ H2). reflexivity.
  Qed.

  Lemma col_step c s : wf_col L scw (g_nodes s) c = true ->
    step_reads geo pad_length (rd_column L scr) column enc_col upd_col c s.
  Proof.
    intros H first rest. unfold wf_col_g in H. apply andb_prop in H as [H Ha]. apply andb_prop in H as [H Hn].
    exists (wl "column" (column_vals scw c)), (map enc_colnode (c_nodes c)). split; [reflexivity|].
    destruct (rec_ok_parses _ _ H) as [specs [S [W [Lo [Bl P]]]]].
    split; [rewrite maybe_pad_blank; exact Bl|].
    destruct (maybe_pad_shape pad_length first (wl "column" (column_vals scw c))) as [rest' E]. rewrite E.
    unfold rd_column. rewrite S. cbn [bind]. rewrite P.
    rewrite specs_column in S. injection S as S. subst specs.
    destruct types_column as [T0 [T1 [T2 [T3 T4]]]].
    unfold expected_list, column_vals, name_field. cbn [combine map fst snd].
    rewrite (expected_name _ _ T0), (expected_int _ _ T1), (expected_int _ _ T2). cbn [as_str bind].
    rewrite canon_name_pad. rewrite specs_column_node.
    assert (C : (if rv_truthy (RInt match c_centre c with Some _ => 1 | None => 0 end)
                 then do x <- as_dy (expected (sp "column" 3) match c_centre c with Some xy => vreal (dy_div (fst xy) scw) | None => XNone end);
                      do y <- as_dy (expected (sp "column" 4) match c_centre c with Some xy => vreal (dy_div (snd xy) scw) | None => XNone end);
                      Ok (Some (dy_mul x scr, dy_mul y scr))
                 else Ok None) = Ok (c_centre (canon_col0 c))).
    { unfold canon_col0, canon_column. cbn [c_centre]. destruct (c_centre c) as [[x y]|]; cbn [rv_truthy Z.eqb negb fst snd]; [|reflexivity].
      destruct (as_dy_expected_f (sp "column" 3) (dy_div x scw) T3) as [dx Ex].
      destruct (as_dy_expected_f (sp "column" 4) (dy_div y scw) T4) as [dy_ Ey].
      rewrite Ex, Ey. cbn [bind]. fold (sp "column" 3) (sp "column" 4).
      rewrite (rt_num_eq _ _ _ _ _ Ex), (rt_num_eq _ _ _ _ _ Ey). reflexivity. }
    rewrite C. cbn [bind as_count]. rewrite Nat2Z.id.
    rewrite (colnodes_read _ _ _ Hn). cbn [bind fst snd].
    unfold orient. apply negb_true_iff in Ha. rewrite Ha.
    unfold upd_col, canon_col0, canon_column. cbn [c_name c_centre c_nodes c_surf]. reflexivity.
  Qed.

  Lemma col_mem_names nm cs : col_mem nm cs = mem_str nm (map c_name cs).
  Proof.
    unfold col_mem, mem_str. induction cs as [|c cs IH]; [reflexivity|]. cbn [existsb map].
    rewrite IH, str_eqb_sym. reflexivity.
  Qed.
  Lemma fold_add_col_nodes {X} (f : X -> column) xs : forall g,
    g_nodes (fold_left (fun s x => add_column (f x) s) xs g) = g_nodes g.
  Proof.
    induction xs as [|x xs IH]; intro g; [reflexivity|]. cbn [fold_left]. rewrite IH.
    unfold add_column. destruct (col_mem _ _); [reflexivity|]. destruct g as [gh gn gc gk gl gw]; reflexivity.
  Qed.
  Lemma fold_add_col {X} (f : X -> column) xs : forall g, NoDup (map c_name (g_cols g ++ map f xs)) ->
    fold_left (fun s x => add_column (f x) s) xs g = with_cols (g_cols g ++ map f xs) g.
  Proof.
    induction xs as [|x xs IH]; intros g H.
    - cbn [map fold_left]. rewrite app_nil_r. destruct g as [gh gn gc gk gl gw]; reflexivity.
    - cbn [map fold_left]. unfold add_column at 2. rewrite col_mem_names.
      cbn [map] in H. rewrite map_app in H. cbn [map] in H.
      pose proof (NoDup_app_notin _ _ _ H) as NI. apply mem_str_false in NI. rewrite NI.
      rewrite IH.
      + destruct g as [gh gn gc gk gl gw]; cbn. rewrite <- app_assoc. reflexivity.
      + destruct g as [gh gn gc gk gl gw]; cbn [with_cols g_cols]. rewrite <- app_assoc. cbn [app]. rewrite map_app. cbn [map]. exact H.
  Qed.

  Lemma columns_section cols g rest fuel :
    forallb (wf_col L scw (g_nodes g)) cols = true -> NoDup (map c_name (g_cols g ++ map canon_col0 cols)) ->
    (length cols < fuel)%nat ->
    geo_loop (rd_column L scr) fuel true (map add_nl (flat_map enc_col cols) ++ add_nl [] :: rest) g
    = Ok (with_cols (g_cols g ++ map canon_col0 cols) g, rest).
  Proof.
    intros W N F. unfold geo_loop.
    rewrite (loop_records geo pad_length (rd_column L scr) column enc_col upd_col cols g rest true fuel).
    - unfold run, upd_col. rewrite (fold_add_col canon_col0); [reflexivity|exact N].
    - intros pre r post E. apply col_step. unfold run, upd_col. rewrite (fold_add_col_nodes canon_col0).
      rewrite forallb_forall in W. apply W. rewrite E. apply in_or_app. right. left. reflexivity.
    - exact F.
  Qed.
End Columns.

(** ** connections *)
Section Cons.
  Variable L : nat.
  Definition enc_con (c : str * str) : list str := [wl "connection" (con_vals c)].
  Definition upd_con (c : str * str) (g : geo) : geo := add_con (canon_con L c) g.

  Lemma con_step c s : wf_con L (map c_name (g_cols s)) c = true ->
    step_reads geo pad_length (rd_connection L) (str * str) enc_con upd_con c s.
  Proof.
    intros H first rest. unfold wf_con_g in H. apply andb_prop in H as [H Mb]. apply andb_prop in H as [H Ma].
    exists (wl "connection" (con_vals c)), []. split; [reflexivity|].
    destruct (rec_ok_parses _ _ H) as [specs [S [W [Lo [Bl P]]]]].
    split; [rewrite maybe_pad_blank; exact Bl|].
    destruct (maybe_pad_shape pad_length first (wl "connection" (con_vals c))) as [rest' E]. rewrite E.
    unfold rd_connection. rewrite S. cbn [bind]. rewrite P.
    rewrite specs_connection in S. injection S as S. subst specs.
    destruct types_connection as [T0 T1].
    unfold expected_list, con_vals, name_field. cbn [combine map fst snd].
    rewrite (expected_name _ _ T0), (expected_name _ _ T1). cbn [as_str bind]. rewrite !canon_name_pad.
    rewrite !col_mem_names, Ma, Mb. reflexivity.
  Qed.

  Lemma con_mem_false c cs : con_mem c cs = false <-> ~ In c cs.
  Proof.
    unfold con_mem. split.
    - intros H I. assert (E : existsb (fun d => str_eqb (fst d) (fst c) && str_eqb (snd d) (snd c)) cs = true).
      { apply existsb_exists. exists c. split; [exact I|]. rewrite !str_eqb_refl. reflexivity. }
      congruence.
    - intro H. destruct (existsb _ cs) eqn:E; [|reflexivity]. apply existsb_exists in E as [d [I Q]].
      apply andb_prop in Q as [Q1 Q2]. apply str_eqb_eq in Q1. apply str_eqb_eq in Q2.
      destruct d, c; cbn in *; subst. contradiction.
  Qed.
  Lemma nodup_pair_NoDup l : nodup_pair l = true <-> NoDup l.
  Proof.
    induction l as [|a l IH]; cbn [nodup_pair].
    - split; [constructor|reflexivity].
    - rewrite andb_true_iff, negb_true_iff, IH.
      assert (Q : existsb (fun b => str_eqb (fst a) (fst b) && str_eqb (snd a) (snd b)) l = con_mem a l).
      { clear IH. unfold con_mem. induction l as [|b l IHl]; [reflexivity|]. cbn [existsb].
        rewrite (str_eqb_sym (fst a)), (str_eqb_sym (snd a)). f_equal. exact IHl. }
      rewrite Q, con_mem_false. split; [intros [A B]; constructor; assumption|intro H; inversion H; auto].
  Qed.
  Lemma fold_add_con_cols {X} (f : X -> str * str) xs : forall g,
    g_cols (fold_left (fun s x => add_con (f x) s) xs g) = g_cols g.
  Proof.
    induction xs as [|x xs IH]; intro g; [reflexivity|]. cbn [fold_left]. rewrite IH.
    unfold add_con. destruct (con_mem _ _); [reflexivity|]. destruct g as [gh gn gc gk gl gw]; reflexivity.
  Qed.
  Lemma fold_add_con {X} (f : X -> str * str) xs : forall g, NoDup (g_cons g ++ map f xs) ->
    fold_left (fun s x => add_con (f x) s) xs g = with_cons (g_cons g ++ map f xs) g.
  Proof.
    induction xs as [|x xs IH]; intros g H.
    - cbn [map fold_left]. rewrite app_nil_r. destruct g as [gh gn gc gk gl gw]; reflexivity.
    - cbn [map fold_left]. unfold add_con at 2. cbn [map] in H.
      pose proof (NoDup_app_notin _ _ _ H) as NI. apply con_mem_false in NI. rewrite NI.
      rewrite IH.
      + destruct g as [gh gn gc gk gl gw]; cbn. rewrite <- app_assoc. reflexivity.
      + destruct g as [gh gn gc gk gl gw]; cbn [with_cons g_cons]. rewrite <- app_assoc. exact H.
  Qed.

  Lemma cons_section cons g rest fuel :
    forallb (wf_con L (map c_name (g_cols g))) cons = true -> NoDup (g_cons g ++ map (canon_con L) cons) ->
    (length cons < fuel)%nat ->
    geo_loop (rd_connection L) fuel true (map add_nl (flat_map enc_con cons) ++ add_nl [] :: rest) g
    = Ok (with_cons (g_cons g ++ map (canon_con L) cons) g, rest).
  Proof.
    intros W N F. unfold geo_loop.
    rewrite (loop_records geo pad_length (rd_connection L) (str * str) enc_con upd_con cons g rest true fuel).
    - unfold run, upd_con. rewrite (fold_add_con (canon_con L)); [reflexivity|exact N].
    - intros pre r post E. apply con_step. unfold run, upd_con. rewrite (fold_add_con_cols (canon_con L)).
      rewrite forallb_forall in W. apply W. rewrite E. apply in_or_app. right. left. reflexivity.
    - exact F.
  Qed.
End Cons.

(** ** layers *)
Section Layers.
  Variable LL : nat.
  Variable scw scr : dy.
  Definition enc_lay (l : layer) : list str := [wl "layer" (layer_vals scw l)].
  Definition canon_lay1 (prev : option dy) (l : layer) : layer :=
    let b := rt_num (spec_at "layer" 1) scw scr (l_bottom l) in
    let cv := expected (spec_at "layer" 2) (vreal (dy_div (l_centre l) scw)) in
    let c := if rv_truthy cv then rt_num (spec_at "layer" 2) scw scr (l_centre l)
             else match prev with Some pb => dy_mul dy_half (dy_add b pb) | None => b end in
    mklay (canon_name LL (l_name l)) b c.
  Lemma canon_layers_cons prev l r :
    canon_layers LL scw scr prev (l :: r) = canon_lay1 prev l :: canon_layers LL scw scr (Some (l_bottom (canon_lay1 prev l))) r.
  Proof. reflexivity. Qed.
  Definition upd_lay (l : layer) (g : geo) : geo :=
    if lay_mem (canon_name LL (l_name l)) (g_lays g) then g
    else with_lays (g_lays g ++ [canon_lay1 (last_bottom (g_lays g)) l]) g.

  Lemma lay_step l s : wf_lay scw l = true ->
    step_reads geo pad_length (rd_layer LL scr) layer enc_lay upd_lay l s.
  Proof.
    intros H first rest.
    exists (wl "layer" (layer_vals scw l)), []. split; [reflexivity|].
    destruct (rec_ok_parses _ _ H) as [specs [S [W [Lo [Bl P]]]]].
    split; [rewrite maybe_pad_blank; exact Bl|].
    destruct (maybe_pad_shape pad_length first (wl "layer" (layer_vals scw l))) as [rest' E]. rewrite E.
    unfold rd_layer. rewrite S. cbn [bind]. rewrite P.
    rewrite specs_layer in S. injection S as S. subst specs.
    destruct types_layer as [T0 [T1 T2]].
    unfold expected_list, layer_vals, name_field. cbn [combine map fst snd].
    rewrite (expected_name _ _ T0). cbn [as_str bind]. rewrite canon_name_pad.
    destruct (as_dy_expected_f (sp "layer" 1) (dy_div (l_bottom l) scw) T1) as [db Eb].
    rewrite Eb. cbn [bind].
    unfold upd_lay, canon_lay1, layer_centre. fold (sp "layer" 1) (sp "layer" 2).
    rewrite (rt_num_eq _ _ _ _ _ Eb).
    destruct (rv_truthy (expected (sp "layer" 2) (vreal (dy_div (l_centre l) scw)))) eqn:Tr.
    - destruct (as_dy_expected_f (sp "layer" 2) (dy_div (l_centre l) scw) T2) as [dc Ec].
      rewrite Ec. cbn [bind]. rewrite (rt_num_eq _ _ _ _ _ Ec). cbn [app map].
      destruct (lay_mem _ _); reflexivity.
    - cbn [bind app map]. destruct (lay_mem _ _); reflexivity.
  Qed.

  Lemma lay_mem_names nm ls : lay_mem nm ls = mem_str nm (map l_name ls).
  Proof.
    unfold lay_mem, mem_str. induction ls as [|c cs IH]; [reflexivity|]. cbn [existsb map].
    rewrite IH, str_eqb_sym. reflexivity.
  Qed.
  Lemma last_bottom_snoc ls l : last_bottom (ls ++ [l]) = Some (l_bottom l).
  Proof. unfold last_bottom. rewrite rev_app_distr. reflexivity. Qed.
  Lemma canon_layers_names prev ls : map l_name (canon_layers LL scw scr prev ls) = map (fun l => canon_name LL (l_name l)) ls.
  Proof. revert prev. induction ls as [|l r IH]; intro prev; [reflexivity|]. cbn [canon_layers map l_name]. rewrite IH. reflexivity. Qed.
  Lemma fold_upd_lay ls : forall g, NoDup (map l_name (g_lays g) ++ map (fun l => canon_name LL (l_name l)) ls) ->
    fold_left (fun s l => upd_lay l s) ls g = with_lays (g_lays g ++ canon_layers LL scw scr (last_bottom (g_lays g)) ls) g.
  Proof.
    induction ls as [|l r IH]; intros g H.
    - cbn [fold_left canon_layers]. rewrite app_nil_r. destruct g as [gh gn gc gk gl gw]; reflexivity.
    - cbn [fold_left]. unfold upd_lay at 2. rewrite lay_mem_names. cbn [map] in H.
      pose proof (NoDup_app_notin _ _ _ H) as NI. apply mem_str_false in NI. rewrite NI.
      rewrite IH.
      + rewrite canon_layers_cons. destruct g as [gh gn gc gk gl gw]; cbn [with_lays g_lays g_hdr g_nodes g_cols g_cons g_wells].
        rewrite last_bottom_snoc, <- app_assoc. reflexivity.
      + destruct g as [gh gn gc gk gl gw]; cbn [with_lays g_lays]. rewrite map_app, <- app_assoc. exact H.
  Qed.

  Lemma layers_section lays g rest fuel :
    forallb (wf_lay scw) lays = true -> NoDup (map l_name (g_lays g) ++ map (fun l => canon_name LL (l_name l)) lays) ->
    (length lays < fuel)%nat ->
    geo_loop (rd_layer LL scr) fuel true (map add_nl (flat_map enc_lay lays) ++ add_nl [] :: rest) g
    = Ok (with_lays (g_lays g ++ canon_layers LL scw scr (last_bottom (g_lays g)) lays) g, rest).
  Proof.
    intros W N F. unfold geo_loop.
    rewrite (loop_records geo pad_length (rd_layer LL scr) layer enc_lay upd_lay lays g rest true fuel).
    - unfold run. rewrite fold_upd_lay; [reflexivity|exact N].
    - intros pre r post E. apply lay_step. rewrite forallb_forall in W. apply W. rewrite E. apply in_or_app. right. left. reflexivity.
    - exact F.
  Qed.
End Layers.

(** ** surface *)
Section Surface.
  Variable L : nat.
  Variable scw scr : dy.
  Definition enc_surf (ns : str * dy) : list str := [wl "surface" (surf_vals scw (fst ns) (snd ns))].
  Definition rt_surf (s : dy) : dy := rt_num (spec_at "surface" 1) scw scr s.
  Definition upd_surf (ns : str * dy) (g : geo) : geo :=
    with_cols (set_surf (canon_name L (fst ns)) (rt_surf (snd ns)) (g_cols g)) g.

  Lemma surf_step ns s : wf_surf scw ns = true -> mem_str (canon_name L (fst ns)) (map c_name (g_cols s)) = true ->
    step_reads geo pad_length (rd_surface L scr) (str * dy) enc_surf upd_surf ns s.
  Proof.
    intros H M first rest.
    exists (wl "surface" (surf_vals scw (fst ns) (snd ns))), []. split; [reflexivity|].
    destruct (rec_ok_parses _ _ H) as [specs [S [W [Lo [Bl P]]]]].
    split; [rewrite maybe_pad_blank; exact Bl|].
    destruct (maybe_pad_shape pad_length first (wl "surface" (surf_vals scw (fst ns) (snd ns)))) as [rest' E]. rewrite E.
    unfold rd_surface. rewrite S. cbn [bind]. rewrite P.
    rewrite specs_surface in S. injection S as S. subst specs.
    destruct types_surface as [T0 T1].
    unfold expected_list, surf_vals, name_field. cbn [combine map fst snd].
    rewrite (expected_name _ _ T0). cbn [as_str bind]. rewrite canon_name_pad.
    destruct (as_dy_expected_f (sp "surface" 1) (dy_div (snd ns) scw) T1) as [d Ed].
    rewrite Ed. cbn [bind]. rewrite col_mem_names, M.
    unfold upd_surf, rt_surf. fold (sp "surface" 1). rewrite (rt_num_eq _ _ _ _ _ Ed). reflexivity.
  Qed.

  Lemma set_surf_names nm s cs : map c_name (set_surf nm s cs) = map c_name cs.
  Proof.
    induction cs as [|c cs IH]; [reflexivity|]. cbn [set_surf]. destruct (str_eqb (c_name c) nm); cbn [map c_name]; [reflexivity|].
    rewrite IH. reflexivity.
  Qed.
  Definition surf_fold (xs : list (str * dy)) (cs : list column) : list column :=
    fold_left (fun cs ns => set_surf (canon_name L (fst ns)) (rt_surf (snd ns)) cs) xs cs.
  Lemma fold_upd_surf xs : forall g, fold_left (fun s ns => upd_surf ns s) xs g = with_cols (surf_fold xs (g_cols g)) g.
  Proof.
    induction xs as [|x xs IH]; intro g; [destruct g as [gh gn gc gk gl gw]; reflexivity|].
    cbn [fold_left]. rewrite IH. unfold upd_surf, surf_fold. destruct g as [gh gn gc gk gl gw]; reflexivity.
  Qed.
  Lemma surf_fold_names xs : forall cs, map c_name (surf_fold xs cs) = map c_name cs.
  Proof.
    induction xs as [|x xs IH]; intro cs; [reflexivity|]. unfold surf_fold in *. cbn [fold_left]. rewrite IH. apply set_surf_names.
  Qed.
  Lemma surf_fold_head xs : forall h t, (forall x, In x xs -> canon_name L (fst x) <> c_name h) ->
    surf_fold xs (h :: t) = h :: surf_fold xs t.
  Proof.
    induction xs as [|x xs IH]; intros h t H; [reflexivity|]. unfold surf_fold in *. cbn [fold_left set_surf].
    assert (N : str_eqb (c_name h) (canon_name L (fst x)) = false).
    { apply str_eqb_neq. intro E. apply (H x (or_introl eq_refl)). symmetry. exact E. }
    rewrite N. apply IH. intros y I. apply H. right. exact I.
  Qed.
  Lemma surf_cols_names cs x : In x (surf_cols cs) -> In (fst x) (map c_name cs).
  Proof.
    unfold surf_cols. rewrite in_flat_map. intros [c [I Q]]. destruct (c_surf c); [|destruct Q].
    destruct Q as [Q|[]]. subst x. cbn [fst]. apply in_map. exact I.
  Qed.
  (** the SURFA section turns the GRID-section columns into the canonical columns *)
  Lemma surf_fold_canon cols : NoDup (map (fun c => canon_name L (c_name c)) cols) ->
    surf_fold (surf_cols cols) (map (canon_col0 L scw scr) cols) = map (canon_column L scw scr) cols.
  Proof.
    induction cols as [|c r IH]; intro N; [reflexivity|]. cbn [map] in N. inversion N as [|? ? NI N']; subst.
    assert (HD : forall x, In x (surf_cols r) -> canon_name L (fst x) <> canon_name L (c_name c)).
    { intros x I E. apply NI. rewrite <- E. apply surf_cols_names in I. apply in_map_iff in I as [c' [E' I']].
      apply in_map_iff. exists c'. split; [rewrite E'; reflexivity|exact I']. }
    unfold surf_cols. cbn [flat_map map]. fold (surf_cols r).
    destruct c as [nm ctr nds sf]. destruct sf as [s|]; cbn [c_surf c_name app] in *.
    - unfold surf_fold. cbn [fold_left fst snd]. unfold canon_col0 at 1. cbn [canon_column set_surf c_name c_centre c_nodes c_surf].
      rewrite str_eqb_refl. fold (surf_fold (surf_cols r)).
      rewrite surf_fold_head; [rewrite (IH N'); reflexivity|exact HD].
    - rewrite surf_fold_head; [rewrite (IH N'); reflexivity|exact HD].
  Qed.

  Lemma surface_section xs g rest fuel :
    forallb (wf_surf scw) xs = true -> (forall x, In x xs -> In (canon_name L (fst x)) (map c_name (g_cols g))) ->
    (length xs < fuel)%nat ->
    geo_loop (rd_surface L scr) fuel true (map add_nl (flat_map enc_surf xs) ++ add_nl [] :: rest) g
    = Ok (with_cols (surf_fold xs (g_cols g)) g, rest).
  Proof.
    intros W M F. unfold geo_loop.
    rewrite (loop_records geo pad_length (rd_surface L scr) (str * dy) enc_surf upd_surf xs g rest true fuel).
    - unfold run. rewrite fold_upd_surf. reflexivity.
    - intros pre r post E. assert (I : In r xs) by (rewrite E; apply in_or_app; right; left; reflexivity).
      apply surf_step; [rewrite forallb_forall in W; apply W; exact I|].
      unfold run. rewrite fold_upd_surf. destruct g as [gh gn gc gk gl gw]; cbn [with_cols g_cols] in *.
      rewrite surf_fold_names. apply mem_str_In. apply M. exact I.
    - exact F.
  Qed.
End Surface.

(** ** wells *)
Section Wells.
  Variable scw scr : dy.
  Definition enc_wpt (np : str * pt3) : list str := [wl "well" (well_vals scw (fst np) (snd np))].
  Definition wpt_fold (ws : list well) (np : str * pt3) : list well :=
    add_point (canon_wname (fst np)) (canon_pt scw scr (snd np)) ws.
  Definition upd_wpt (np : str * pt3) (g : geo) : geo := with_wells (wpt_fold (g_wells g) np) g.

  Lemma wpt_step np s : wf_wpt scw np = true ->
    step_reads geo pad_length (rd_well scr) (str * pt3) enc_wpt upd_wpt np s.
  Proof.
    intros H first rest.
    exists (wl "well" (well_vals scw (fst np) (snd np))), []. split; [reflexivity|].
    destruct (rec_ok_parses _ _ H) as [specs [S [W [Lo [Bl P]]]]].
    split; [rewrite maybe_pad_blank; exact Bl|].
    destruct (maybe_pad_shape pad_length first (wl "well" (well_vals scw (fst np) (snd np)))) as [rest' E]. rewrite E.
    unfold rd_well. rewrite S. cbn [bind]. rewrite P.
    rewrite specs_well in S. injection S as S. subst specs.
    destruct types_well as [T0 [T1 [T2 T3]]].
    unfold expected_list, well_vals. cbn [combine map fst snd].
    rewrite (expected_name _ _ T0).
    destruct (as_dy_expected_f (sp "well" 1) (dy_div (fst (fst (snd np))) scw) T1) as [dx Ex].
    destruct (as_dy_expected_f (sp "well" 2) (dy_div (snd (fst (snd np))) scw) T2) as [dy_ Ey].
    destruct (as_dy_expected_f (sp "well" 3) (dy_div (snd (snd np)) scw) T3) as [dz Ez].
    rewrite Ex, Ey, Ez. cbn [as_str bind].
    unfold upd_wpt, wpt_fold, canon_pt, canon_wname. fold (sp "well" 0) (sp "well" 1) (sp "well" 2) (sp "well" 3).
    rewrite (rt_num_eq _ _ _ _ _ Ex), (rt_num_eq _ _ _ _ _ Ey), (rt_num_eq _ _ _ _ _ Ez). reflexivity.
  Qed.

  Lemma fold_upd_wpt xs : forall g, fold_left (fun s np => upd_wpt np s) xs g = with_wells (fold_left wpt_fold xs (g_wells g)) g.
  Proof.
    induction xs as [|x xs IH]; intro g; [destruct g as [gh gn gc gk gl gw]; reflexivity|].
    cbn [fold_left]. rewrite IH. unfold upd_wpt. destruct g as [gh gn gc gk gl gw]; reflexivity.
  Qed.
  Lemma add_point_new nm p ws : ~ In nm (map w_name ws) -> add_point nm p ws = ws ++ [mkwell nm [p]].
  Proof.
    induction ws as [|w ws IH]; intro H; [reflexivity|]. cbn [add_point map] in *.
    assert (N : str_eqb (w_name w) nm = false) by (apply str_eqb_neq; intro E; apply H; left; exact E).
    rewrite N. cbn [app]. f_equal. apply IH. intro I. apply H. right. exact I.
  Qed.
  Lemma add_point_last nm p ps ws : ~ In nm (map w_name ws) -> add_point nm p (ws ++ [mkwell nm ps]) = ws ++ [mkwell nm (ps ++ [p])].
  Proof.
    induction ws as [|w ws IH]; intro H.
    - cbn [app add_point w_name w_pos]. rewrite str_eqb_refl. reflexivity.
    - cbn [add_point map app] in *.
      assert (N : str_eqb (w_name w) nm = false) by (apply str_eqb_neq; intro E; apply H; left; exact E).
      rewrite N. f_equal. apply IH. intro I. apply H. right. exact I.
  Qed.
  Lemma fold_points_same nm (ps : list pt3) : forall acc ps0, ~ In (canon_wname nm) (map w_name acc) ->
    fold_left wpt_fold (map (fun p => (nm, p)) ps) (acc ++ [mkwell (canon_wname nm) ps0])
    = acc ++ [mkwell (canon_wname nm) (ps0 ++ map (canon_pt scw scr) ps)].
  Proof.
    induction ps as [|p ps IH]; intros acc ps0 H; [cbn [map fold_left]; rewrite app_nil_r; reflexivity|].
    cbn [map fold_left]. unfold wpt_fold at 2. cbn [fst snd]. rewrite add_point_last by exact H.
    rewrite IH by exact H. rewrite <- app_assoc. reflexivity.
  Qed.
  (** the WELLS section: one line per track point, accumulated by (written) name *)
  Lemma fold_points ws : forall acc,
    NoDup (map w_name acc ++ map (fun w => canon_wname (w_name w)) ws) ->
    forallb (fun w => negb (match w_pos w with [] => true | _ => false end)) ws = true ->
    fold_left wpt_fold (well_points ws) acc = acc ++ map (canon_well scw scr) ws.
  Proof.
    induction ws as [|w ws IH]; intros acc N E; [cbn; rewrite app_nil_r; reflexivity|].
    cbn [forallb] in E. apply andb_prop in E as [E1 E2]. cbn [map] in N.
    pose proof (NoDup_app_notin _ _ _ N) as NI.
    unfold well_points. cbn [flat_map]. fold (well_points ws). rewrite fold_left_app.
    destruct w as [nm ps]. cbn [w_name w_pos] in *. destruct ps as [|p ps]; [discriminate|].
    cbn [map fold_left]. unfold wpt_fold at 3. cbn [fst snd]. rewrite add_point_new by exact NI.
    rewrite fold_points_same by exact NI.
    rewrite IH; [|rewrite map_app; cbn [map w_name]; rewrite <- app_assoc; exact N|exact E2].
    rewrite <- app_assoc. reflexivity.
  Qed.

  Lemma wells_section xs g rest fuel :
    forallb (wf_wpt scw) xs = true -> (length xs < fuel)%nat ->
    geo_loop (rd_well scr) fuel true (map add_nl (flat_map enc_wpt xs) ++ add_nl [] :: rest) g
    = Ok (with_wells (fold_left wpt_fold xs (g_wells g)) g, rest).
  Proof.
    intros W F. unfold geo_loop.
    rewrite (loop_records geo pad_length (rd_well scr) (str * pt3) enc_wpt upd_wpt xs g rest true fuel).
    - unfold run. rewrite fold_upd_wpt. reflexivity.
    - intros pre r post E. apply wpt_step. rewrite forallb_forall in W. apply W. rewrite E. apply in_or_app. right. left. reflexivity.
    - exact F.
  Qed.
End Wells.

(** * 4. the file as a whole *)
Definition sec_lines (t : str) (body : list str) : list str := t :: body ++ [[]].
Definition ttl (w : string) : str := match title w with Ok t => t | Raise _ => [] end.
Definition body_lines (scw : dy) (g : geo) : list str :=
  sec_lines (ttl "write_nodes") (flat_map (enc_node scw) (g_nodes g)) ++
  sec_lines (ttl "write_columns") (flat_map (enc_col scw) (g_cols g)) ++
  sec_lines (ttl "write_connections") (flat_map enc_con (g_cons g)) ++
  sec_lines (ttl "write_layers") (flat_map (enc_lay scw) (g_lays g)) ++
  match surf_cols (g_cols g) with [] => [] | sf => sec_lines (ttl "write_surface") (flat_map (enc_surf scw) sf) end ++
  match g_wells g with [] => [] | ws => sec_lines (ttl "write_wells") (flat_map (enc_wpt scw) (well_points ws)) end ++
  [[]].

Lemma title_ok_title w rd : title_ok w rd = true -> title w = Ok (ttl w) /\ line_ok (ttl w) = true.
Proof.
  unfold title_ok, ttl. destruct (title w) as [t|e]; [|discriminate]. intro H. apply andb_prop in H as [H _]. auto.
Qed.
Lemma section_ok w rd body lines : title_ok w rd = true -> body = Ok lines -> section w body = Ok (sec_lines (ttl w) lines).
Proof. intros T B. unfold section. rewrite (proj1 (title_ok_title _ _ T)), B. reflexivity. Qed.

Lemma titles_all :
  title_ok "write_nodes" "read_nodes" = true /\ title_ok "write_columns" "read_columns" = true /\
  title_ok "write_connections" "read_connections" = true /\ title_ok "write_layers" "read_layers" = true /\
  title_ok "write_surface" "read_surface" = true /\ title_ok "write_wells" "read_wells" = true.
Proof.
  pose proof titles_dispatch as H. repeat (apply andb_prop in H; destruct H as [H ?]). repeat split; assumption.
Qed.

Lemma flat_map_single {A B} (f : A -> B) l : flat_map (fun x => [f x]) l = map f l.
Proof. induction l as [|a l IH]; [reflexivity|]. cbn. rewrite IH. reflexivity. Qed.

Section Shape.
  Variable L LL : nat.
  Variable scw scr : dy.
  Variable g : geo.
  Hypothesis WF : wf_body L LL scw scr g = true.

  Lemma wf_parts :
    forallb (wf_node scw) (g_nodes g) = true /\ NoDup (map n_name (cnodes_of L scw scr g)) /\
    forallb (wf_col L scw (cnodes_of L scw scr g)) (g_cols g) = true /\ NoDup (cnames_of L g) /\
    forallb (wf_con L (cnames_of L g)) (g_cons g) = true /\ NoDup (map (canon_con L) (g_cons g)) /\
    g_lays g <> [] /\ forallb (wf_lay scw) (g_lays g) = true /\ NoDup (map (fun l => canon_name LL (l_name l)) (g_lays g)) /\
    forallb (wf_surf scw) (surf_cols (g_cols g)) = true /\ forallb (wf_wpt scw) (well_points (g_wells g)) = true /\
    forallb (fun w => negb (match w_pos w with [] => true | _ => false end)) (g_wells g) = true /\
    NoDup (map (fun w => canon_wname (w_name w)) (g_wells g)).
  Proof.
    pose proof WF as H. unfold wf_body_g in H.
    repeat (apply andb_prop in H; destruct H as [H ?]).
    repeat split; try assumption; try (apply nodup_str_NoDup; assumption); try (apply nodup_pair_NoDup; assumption).
    intro E. rewrite E in *. discriminate.
  Qed.

  Lemma mapM_nodes : mapM (fun n => wrec "node" (node_vals scw n)) (g_nodes g) = Ok (flat_map (enc_node scw) (g_nodes g)).
  Proof.
    destruct wf_parts as [W _]. unfold enc_node. rewrite flat_map_single. apply mapM_ok.
    intros n I. rewrite forallb_forall in W. destruct (rec_ok_parses _ _ (W n I)) as [? [_ [E _]]]. exact E.
  Qed.
  Lemma mapM_columns : (do ll <- mapM (column_lines scw) (g_cols g); Ok (concat ll)) = Ok (flat_map (enc_col scw) (g_cols g)).
  Proof.
    destruct wf_parts as [_ [_ [W _]]]. rewrite (mapM_ok _ (enc_col scw)).
    - cbn [bind]. rewrite flat_map_concat_map. reflexivity.
    - intros c I. rewrite forallb_forall in W. specialize (W c I). unfold wf_col_g in W.
      apply andb_prop in W as [W _]. apply andb_prop in W as [W1 W2].
      unfold column_lines, enc_col. destruct (rec_ok_parses _ _ W1) as [? [_ [E _]]]. rewrite E. cbn [bind].
      rewrite (mapM_ok _ enc_colnode); [reflexivity|].
      intros nm J. rewrite forallb_forall in W2. specialize (W2 nm J). unfold wf_colnode_g in W2. apply andb_prop in W2 as [W2 _].
      destruct (rec_fields_ok_parses _ _ W2) as [? [_ [E2 _]]]. exact E2.
  Qed.
  Lemma mapM_cons : mapM (fun c => wrec "connection" (con_vals c)) (g_cons g) = Ok (flat_map enc_con (g_cons g)).
  Proof.
    destruct wf_parts as [_ [_ [_ [_ [W _]]]]]. unfold enc_con. rewrite flat_map_single. apply mapM_ok.
    intros c I. rewrite forallb_forall in W. specialize (W c I). unfold wf_con_g in W.
    apply andb_prop in W as [W _]. apply andb_prop in W as [W _].
    destruct (rec_ok_parses _ _ W) as [? [_ [E _]]]. exact E.
  Qed.
  Lemma mapM_lays : mapM (fun l => wrec "layer" (layer_vals scw l)) (g_lays g) = Ok (flat_map (enc_lay scw) (g_lays g)).
  Proof.
    destruct wf_parts as [_ [_ [_ [_ [_ [_ [_ [W _]]]]]]]]. unfold enc_lay. rewrite flat_map_single. apply mapM_ok.
    intros l I. rewrite forallb_forall in W. destruct (rec_ok_parses _ _ (W l I)) as [? [_ [E _]]]. exact E.
  Qed.
  Lemma mapM_surf : mapM (fun ns => wrec "surface" (surf_vals scw (fst ns) (snd ns))) (surf_cols (g_cols g))
                    = Ok (flat_map (enc_surf scw) (surf_cols (g_cols g))).
  Proof.
    destruct wf_parts as [_ [_ [_ [_ [_ [_ [_ [_ [_ [W _]]]]]]]]]]. unfold enc_surf. rewrite flat_map_single. apply mapM_ok.
    intros l I. rewrite forallb_forall in W. destruct (rec_ok_parses _ _ (W l I)) as [? [_ [E _]]]. exact E.
  Qed.
  Lemma mapM_wells : mapM (fun np => wrec "well" (well_vals scw (fst np) (snd np))) (well_points (g_wells g))
                     = Ok (flat_map (enc_wpt scw) (well_points (g_wells g))).
  Proof.
    destruct wf_parts as [_ [_ [_ [_ [_ [_ [_ [_ [_ [_ [W _]]]]]]]]]]]. unfold enc_wpt. rewrite flat_map_single. apply mapM_ok.
    intros l I. rewrite forallb_forall in W. destruct (rec_ok_parses _ _ (W l I)) as [? [_ [E _]]]. exact E.
  Qed.

  (** the writer succeeds and the file has the modelled shape *)
  Lemma write_lines_shape hs hl :
    unit_scale_of (h_unit (g_hdr g)) = Ok scw -> rec_of "header" = Ok hs ->
    write_values (snd hs) (header_vals (fst hs) (g_hdr g)) = Ok hl ->
    write_lines g = Ok (hl :: body_lines scw g).
  Proof.
    intros U R Hl. destruct titles_all as [T1 [T2 [T3 [T4 [T5 T6]]]]].
    unfold write_lines. rewrite U. cbn [bind]. rewrite R. cbn [bind]. rewrite Hl. cbn [bind].
    rewrite (section_ok _ _ _ _ T1 mapM_nodes). cbn [bind].
    rewrite (section_ok _ _ _ _ T2 mapM_columns). cbn [bind].
    rewrite (section_ok _ _ _ _ T3 mapM_cons). cbn [bind].
    rewrite (section_ok _ _ _ _ T4 mapM_lays). cbn [bind].
    unfold body_lines. pose proof mapM_surf as MS. pose proof mapM_wells as MW.
    destruct (surf_cols (g_cols g)) as [|s0 sr]; destruct (g_wells g) as [|w0 wr]; cbn [bind];
      try rewrite (section_ok _ _ _ _ T5 MS); try rewrite (section_ok _ _ _ _ T6 MW); cbn [bind]; reflexivity.
  Qed.

  Lemma flat_map_line_ok {X} (enc : X -> list str) xs : (forall x, In x xs -> forallb line_ok (enc x) = true) ->
    forallb line_ok (flat_map enc xs) = true.
  Proof.
    induction xs as [|x xs IH]; intro H; [reflexivity|]. cbn [flat_map]. rewrite forallb_app, (H x (or_introl eq_refl)), IH; [reflexivity|].
    intros y I. apply H. right. exact I.
  Qed.
  Lemma sec_line_ok w rd body : title_ok w rd = true -> forallb line_ok body = true -> forallb line_ok (sec_lines (ttl w) body) = true.
  Proof.
    intros T B. unfold sec_lines. cbn [forallb]. rewrite (proj2 (title_ok_title _ _ T)), forallb_app, B. reflexivity.
  Qed.
  Lemma body_lines_ok : forallb line_ok (body_lines scw g) = true.
  Proof.
    destruct titles_all as [T1 [T2 [T3 [T4 [T5 T6]]]]].
    destruct wf_parts as [W1 [_ [W2 [_ [W3 [_ [_ [W4 [_ [W5 [W6 _]]]]]]]]]]].
    assert (A1 : forallb line_ok (flat_map (enc_node scw) (g_nodes g)) = true).
    { apply flat_map_line_ok. intros n I. rewrite forallb_forall in W1. destruct (rec_ok_parses _ _ (W1 n I)) as [? [_ [_ [E _]]]].
      unfold enc_node. cbn [forallb]. rewrite E. reflexivity. }
    assert (A2 : forallb line_ok (flat_map (enc_col scw) (g_cols g)) = true).
    { apply flat_map_line_ok. intros c I. rewrite forallb_forall in W2. specialize (W2 c I). unfold wf_col_g in W2.
      apply andb_prop in W2 as [W2 _]. apply andb_prop in W2 as [Wa Wb].
      destruct (rec_ok_parses _ _ Wa) as [? [_ [_ [E _]]]]. unfold enc_col. cbn [forallb]. rewrite E. cbn [andb].
      rewrite forallb_forall. intros l J. apply in_map_iff in J as [nm [Q J]]. subst l.
      rewrite forallb_forall in Wb. specialize (Wb nm J). unfold wf_colnode_g in Wb. apply andb_prop in Wb as [Wb _].
      destruct (rec_fields_ok_parses _ _ Wb) as [? [_ [_ [E2 _]]]]. exact E2. }
    assert (A3 : forallb line_ok (flat_map enc_con (g_cons g)) = true).
    { apply flat_map_line_ok. intros c I. rewrite forallb_forall in W3. specialize (W3 c I). unfold wf_con_g in W3.
      apply andb_prop in W3 as [W3 _]. apply andb_prop in W3 as [W3 _].
      destruct (rec_ok_parses _ _ W3) as [? [_ [_ [E _]]]]. unfold enc_con. cbn [forallb]. rewrite E. reflexivity. }
    assert (A4 : forallb line_ok (flat_map (enc_lay scw) (g_lays g)) = true).
    { apply flat_map_line_ok. intros n I. rewrite forallb_forall in W4. destruct (rec_ok_parses _ _ (W4 n I)) as [? [_ [_ [E _]]]].
      unfold enc_lay. cbn [forallb]. rewrite E. reflexivity. }
    assert (A5 : forallb line_ok (flat_map (enc_surf scw) (surf_cols (g_cols g))) = true).
    { apply flat_map_line_ok. intros n I. rewrite forallb_forall in W5. destruct (rec_ok_parses _ _ (W5 n I)) as [? [_ [_ [E _]]]].
      unfold enc_surf. cbn [forallb]. rewrite E. reflexivity. }
    assert (A6 : forallb line_ok (flat_map (enc_wpt scw) (well_points (g_wells g))) = true).
    { apply flat_map_line_ok. intros n I. rewrite forallb_forall in W6. destruct (rec_ok_parses _ _ (W6 n I)) as [? [_ [_ [E _]]]].
      unfold enc_wpt. cbn [forallb]. rewrite E. reflexivity. }
    unfold body_lines. rewrite !forallb_app.
    rewrite (sec_line_ok _ _ _ T1 A1), (sec_line_ok _ _ _ T2 A2), (sec_line_ok _ _ _ T3 A3), (sec_line_ok _ _ _ T4 A4).
    cbn [andb].
    assert (B5 : forallb line_ok match surf_cols (g_cols g) with [] => [] | sf => sec_lines (ttl "write_surface") (flat_map (enc_surf scw) sf) end = true).
    { destruct (surf_cols (g_cols g)); [reflexivity|]. apply (sec_line_ok _ _ _ T5 A5). }
    assert (B6 : forallb line_ok match g_wells g with [] => [] | ws => sec_lines (ttl "write_wells") (flat_map (enc_wpt scw) (well_points ws)) end = true).
    { destruct (g_wells g); [reflexivity|]. apply (sec_line_ok _ _ _ T6 A6). }
    rewrite B5, B6. reflexivity.
  Qed.
End Shape.

(** * 5. reading the written file *)
Lemma map_sec t body R : map add_nl (sec_lines t body ++ R) = add_nl t :: (map add_nl body ++ add_nl [] :: map add_nl R).
Proof. unfold sec_lines. cbn [app map]. rewrite <- app_assoc, map_app. reflexivity. Qed.

Lemma sections_title L LL sc w rd k rest g : title_ok w rd = true ->
  sections L LL sc (S k) (add_nl (ttl w) :: rest) g = (do gr <- run_section L LL sc rd rest g; sections L LL sc k (snd gr) (fst gr)).
Proof.
  unfold title_ok, ttl. destruct (title w) as [t|e]; [|discriminate]. intro H. apply andb_prop in H as [_ H].
  cbn [sections hd_line tl_lines]. destruct (strip (add_nl t)) as [|c s]; [discriminate|].
  destruct (strlookup _ read_dispatch) as [m|]; [|discriminate]. apply String.eqb_eq in H. subst m. reflexivity.
Qed.
Lemma sections_end L LL sc k rest g : sections L LL sc (S k) (add_nl [] :: rest) g = Ok g.
Proof. reflexivity. Qed.

Lemma flat_map_length_ge {X} (enc : X -> list str) xs : (forall x, enc x <> []) -> (length xs <= length (flat_map enc xs))%nat.
Proof.
  intro H. induction xs as [|x xs IH]; [reflexivity|]. cbn [flat_map length]. rewrite app_length.
  specialize (H x). destruct (enc x); [contradiction|]. cbn [length]. lia.
Qed.
Lemma fuel_ok {X} (enc : X -> list str) xs rest : (forall x, enc x <> []) ->
  (length xs < S (length (map add_nl (flat_map enc xs) ++ rest)))%nat.
Proof. intro H. rewrite app_length, map_length. pose proof (flat_map_length_ge enc xs H). lia. Qed.

Lemma default_surfaces_col0 L scw scr cols (g : geo) :
  g_cols g = map (canon_col0 L scw scr) cols -> default_surfaces g = g.
Proof.
  intro E. unfold default_surfaces. rewrite E, map_map.
  replace (map (fun x => mkcol (c_name (canon_col0 L scw scr x)) (c_centre (canon_col0 L scw scr x)) (c_nodes (canon_col0 L scw scr x)) None) cols)
    with (map (canon_col0 L scw scr) cols) by (apply map_ext; intro c; reflexivity).
  rewrite <- E. destruct g as [gh gn gc gk gl gw]; reflexivity.
Qed.

Ltac gnorm := cbn [bind fst snd empty_geo with_nodes with_cols with_cons with_lays with_wells g_hdr g_nodes g_cols g_cons g_lays g_wells app].

Section ReadBody.
  Variable L LL : nat.
  Variable scw scr : dy.
  Variable g : geo.
  Variable h' : header.
  Hypothesis WF : wf_body L LL scw scr g = true.

  Definition canon_with : geo :=
    mkgeo h' (map (canon_node L scw scr) (g_nodes g)) (map (canon_column L scw scr) (g_cols g))
          (map (canon_con L) (g_cons g)) (canon_layers LL scw scr None (g_lays g)) (map (canon_well scw scr) (g_wells g)).

  Lemma col0_names : map c_name (map (canon_col0 L scw scr) (g_cols g)) = cnames_of L g.
  Proof. rewrite map_map. reflexivity. Qed.

  Lemma read_body fuel : (7 <= fuel)%nat ->
    sections L LL scr fuel (map add_nl (body_lines scw g)) (empty_geo h') = Ok canon_with.
  Proof.
    intro F. do 7 (destruct fuel as [|fuel]; [lia|]). clear F.
    destruct titles_all as [T1 [T2 [T3 [T4 [T5 T6]]]]].
    destruct (wf_parts _ _ _ _ _ WF) as [W1 [N1 [W2 [N2 [W3 [N3 [NE [W4 [N4 [W5 [W6 [E6 N6]]]]]]]]]]]].
    unfold body_lines.
    (* nodes *)
    rewrite map_sec, (sections_title _ _ _ _ _ _ _ _ T1).
    change (run_section L LL scr "read_nodes") with (fun ls => geo_loop (rd_node L scr) (S (length ls)) true ls).
    cbv beta. rewrite (nodes_section L scw scr); [|exact W1|gnorm; exact N1|apply fuel_ok; discriminate].
    gnorm.
    (* columns *)
    rewrite map_sec, (sections_title _ _ _ _ _ _ _ _ T2).
    change (run_section L LL scr "read_columns") with (fun ls => geo_loop (rd_column L scr) (S (length ls)) true ls).
    cbv beta. rewrite (columns_section L scw scr);
      [|gnorm; exact W2|gnorm; rewrite col0_names; exact N2|apply fuel_ok; discriminate].
    gnorm.
    (* connections *)
    rewrite map_sec, (sections_title _ _ _ _ _ _ _ _ T3).
    change (run_section L LL scr "read_connections") with (fun ls => geo_loop (rd_connection L) (S (length ls)) true ls).
    cbv beta. rewrite (cons_section L);
      [|gnorm; rewrite col0_names; exact W3|gnorm; exact N3|apply fuel_ok; discriminate].
    gnorm.
    (* layers *)
    rewrite map_sec, (sections_title _ _ _ _ _ _ _ _ T4).
    change (run_section L LL scr "read_layers") with
      (fun ls g0 => do gr <- geo_loop (rd_layer LL scr) (S (length ls)) true ls g0;
                    match g_lays (fst gr) with [] => Raise IndexError | _ => Ok (default_surfaces (fst gr), snd gr) end).
    cbv beta. rewrite (layers_section LL scw scr); [|exact W4|gnorm; exact N4|apply fuel_ok; discriminate].
    gnorm.
    destruct (g_lays g) as [|l0 lr] eqn:EL; [contradiction|]. rewrite canon_layers_cons. rewrite <- canon_layers_cons, <- EL.
    rewrite (default_surfaces_col0 L scw scr (g_cols g)) by reflexivity.
    gnorm.
    (* surface and wells *)
    pose proof (surf_fold_canon L scw scr (g_cols g) N2) as SF.
    pose proof (fold_points scw scr (g_wells g) [] N6 E6) as FP. cbn [app] in FP.
    assert (SM : forall x, In x (surf_cols (g_cols g)) -> In (canon_name L (fst x)) (map c_name (map (canon_col0 L scw scr) (g_cols g)))).
    { intros x I. rewrite col0_names. apply surf_cols_names in I. apply in_map_iff in I as [c [E I]].
      unfold cnames_of. apply in_map_iff. exists c. split; [rewrite E; reflexivity|exact I]. }
    destruct (surf_cols (g_cols g)) as [|s0 sr] eqn:ES; destruct (g_wells g) as [|w0 wr] eqn:EW.
    - cbn [app map]. rewrite sections_end. unfold canon_with. rewrite EL, EW. cbn [surf_fold fold_left] in SF. rewrite SF. reflexivity.
    - cbn [app]. rewrite map_sec, (sections_title _ _ _ _ _ _ _ _ T6).
      change (run_section L LL scr "read_wells") with (fun ls => geo_loop (rd_well scr) (S (length ls)) true ls).
      cbv beta. rewrite (wells_section scw scr); [|exact W6|apply fuel_ok; discriminate].
      gnorm. rewrite FP.
      cbn [map]. rewrite sections_end. unfold canon_with. rewrite EL, EW. cbn [surf_fold fold_left] in SF. rewrite SF. reflexivity.
    - rewrite map_sec, (sections_title _ _ _ _ _ _ _ _ T5).
      change (run_section L LL scr "read_surface") with (fun ls => geo_loop (rd_surface L scr) (S (length ls)) true ls).
      cbv beta. rewrite (surface_section L scw scr); [|exact W5|gnorm; exact SM|apply fuel_ok; discriminate].
      gnorm. rewrite SF.
      cbn [app map]. rewrite sections_end. unfold canon_with. rewrite EL, EW. reflexivity.
    - rewrite map_sec, (sections_title _ _ _ _ _ _ _ _ T5).
      change (run_section L LL scr "read_surface") with (fun ls => geo_loop (rd_surface L scr) (S (length ls)) true ls).
      cbv beta. rewrite (surface_section L scw scr); [|exact W5|gnorm; exact SM|apply fuel_ok; discriminate].
      gnorm. rewrite SF.
      rewrite map_sec, (sections_title _ _ _ _ _ _ _ _ T6).
      change (run_section L LL scr "read_wells") with (fun ls => geo_loop (rd_well scr) (S (length ls)) true ls).
      cbv beta. rewrite (wells_section scw scr); [|exact W6|apply fuel_ok; discriminate].
      gnorm. rewrite FP.
      cbn [map]. rewrite sections_end. unfold canon_with. rewrite EL, EW. reflexivity.
  Qed.
End ReadBody.

(** * 6. the theorems *)
Lemma split_written ls : forallb line_ok ls = true -> split_lines (unl (file_of_lines ls)) = map add_nl ls.
Proof. intro H. rewrite unl_file by exact H. apply split_lines_file. exact H. Qed.

Lemma first_line hl rest : line_ok hl = true ->
  hd_line (split_lines (unl (file_of_lines (hl :: rest)))) = add_nl hl.
Proof.
  intro H. unfold file_of_lines. cbn [map concat]. unfold add_nl at 1. rewrite <- app_assoc. cbn [app].
  rewrite unl_line by exact H. unfold split_lines. rewrite split_lines_aux_line by exact H. reflexivity.
Qed.

Lemma header_reads h : hdr_ok h = true ->
  exists hs hl, rec_of "header" = Ok hs /\ write_values (snd hs) (header_vals (fst hs) h) = Ok hl /\ line_ok hl = true /\
    read_header (add_nl hl) = Ok (canon_header h).
Proof.
  unfold hdr_ok, read_header, canon_header. destruct (rec_of "header") as [hs|e]; [|discriminate]. intro H.
  apply andb_prop in H as [F V]. destruct (record_parses_back _ _ F) as [hl [W [Lo P]]].
  exists hs, hl. repeat split; try assumption. cbn [bind]. unfold add_nl. rewrite P.
  destruct (header_of_values (fst hs) (expected_list (snd hs) (header_vals (fst hs) h))); [reflexivity|discriminate].
Qed.

(** the writer succeeds on every well-formed geometry of the supported type *)
Theorem wf_write_ok g : wf g = true -> str_eqb (h_type (canon_header (g_hdr g))) (s2l supported_type) = true ->
  exists b, write g = Ok b.
Proof.
  unfold wf_g, wf_rest. intros H T. apply andb_prop in H as [Hh H].
  destruct (unit_scale_of (h_unit (g_hdr g))) as [scw|e] eqn:U; [|discriminate]. rewrite T in H.
  destruct (conv_len colname_lengths _) as [L|] eqn:EL; [|discriminate].
  destruct (conv_len layername_lengths _) as [LL|] eqn:ELL; [|discriminate].
  destruct (unit_scale_of (h_unit (canon_header (g_hdr g)))) as [scr|] eqn:ER; [|discriminate].
  destruct (header_reads _ Hh) as [hs [hl [R [W [Lo Rd]]]]].
  unfold write. rewrite (write_lines_shape L LL scw scr g H hs hl U R W). eexists. reflexivity.
Qed.

(** THE round trip: reading what was written gives the canonical geometry *)
Theorem read_write_roundtrip g b : wf g = true -> write g = Ok b -> read b = Ok (canon g).
Proof.
  unfold wf_g, wf_rest. intros H Wr. apply andb_prop in H as [Hh H].
  destruct (header_reads _ Hh) as [hs [hl [R [W [Lo Rd]]]]].
  destruct (unit_scale_of (h_unit (g_hdr g))) as [scw|e] eqn:U; [|discriminate].
  destruct (str_eqb (h_type (canon_header (g_hdr g))) (s2l supported_type)) eqn:T.
  - destruct (conv_len colname_lengths _) as [L|] eqn:EL; [|discriminate].
    destruct (conv_len layername_lengths _) as [LL|] eqn:ELL; [|discriminate].
    destruct (unit_scale_of (h_unit (canon_header (g_hdr g)))) as [scr|] eqn:ER; [|discriminate].
    unfold write in Wr. rewrite (write_lines_shape L LL scw scr g H hs hl U R W) in Wr. injection Wr as Wr. subst b.
    unfold read. rewrite unl_file, split_lines_file; try (cbn [forallb]; rewrite Lo, (body_lines_ok L LL scw scr g H); reflexivity).
    unfold read_lines. cbn [map hd_line tl_lines]. rewrite Rd. cbn [bind]. rewrite T, EL, ELL, ER. cbn [bind].
    rewrite (read_body L LL scw scr g (canon_header (g_hdr g)) H).
    + unfold canon, canon_with. rewrite T. unfold scale_or_one, len_or_0. rewrite U, EL, ELL, ER. reflexivity.
    + cbn [length]. unfold body_lines, sec_lines. rewrite map_length. cbn [app length]. rewrite !app_length. cbn [length].
      rewrite !app_length. cbn [length]. rewrite !app_length. cbn [length]. lia.
  - (* a grid type the reader does not support: only the header is read *)
    unfold write in Wr. destruct (write_lines g) as [ls|e] eqn:WL; [|discriminate]. cbn [bind] in Wr. injection Wr as Wr. subst b.
    assert (HL : exists rest, ls = hl :: rest).
    { unfold write_lines in WL. rewrite U, R in WL. cbn [bind] in WL. rewrite W in WL. cbn [bind] in WL.
      repeat match type of WL with
             | bind ?x _ = Ok _ => destruct x; cbn [bind] in WL; [|discriminate]
             end.
      injection WL as WL. eexists. symmetry. exact WL. }
    destruct HL as [rest E]. subst ls.
    unfold read, read_lines. rewrite (first_line _ _ Lo), Rd. cbn [bind]. rewrite T.
    unfold canon. rewrite T. reflexivity.
Qed.
