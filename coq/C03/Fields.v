(** C03 -- field level: a value that FITS its field reads back as the decimal the format
    carries.  [%ws] of a name, [%wd] of a non-negative integer, [%w.pf] of any finite
    double, and blanks for [None]: CPython's [float()]/[int()] (Base/PyNum.v) applied to
    the text produced by the model of [%]-formatting (Base/Fmt.v) return the printed number.
    Uses the digit-string lemmas of the C16 development (PTModel.FortranRender). *)
From Coq Require Import Ascii String List Bool Arith ZArith NArith Lia.
From Coq Require Import Decimal DecimalFacts DecimalPos DecimalN DecimalString.
From PTBase Require Import Exn PyStr PyNum PyVal Fmt FixedFormat.
From PTModel Require Import Fortran FortranNF FortranRender.
From P Require Import Flt Lines MulgridIO RoundTrip.
Import ListNotations.
Open Scope list_scope.

(** * decimal digit strings of the standard library *)
Fixpoint ul (d : uint) : str :=
  match d with
  | Nil => []
  | D0 d => "0"%char :: ul d | D1 d => "1"%char :: ul d | D2 d => "2"%char :: ul d | D3 d => "3"%char :: ul d
  | D4 d => "4"%char :: ul d | D5 d => "5"%char :: ul d | D6 d => "6"%char :: ul d | D7 d => "7"%char :: ul d
  | D8 d => "8"%char :: ul d | D9 d => "9"%char :: ul d
  end.
Lemma s2l_string_of_uint d : s2l (NilEmpty.string_of_uint d) = ul d.
Proof. induction d; cbn [NilEmpty.string_of_uint ul]; try reflexivity; unfold s2l in *; cbn [list_ascii_of_string]; rewrite IHd; reflexivity. Qed.
Lemma ul_digits d : all_digits (ul d) = true.
Proof. unfold all_digits. induction d; cbn [ul forallb]; try reflexivity; rewrite IHd; reflexivity. Qed.
Lemma ul_length d : N.of_nat (length (ul d)) = Unsigned.usize d.
Proof. induction d; cbn [ul length Unsigned.usize]; try reflexivity; rewrite Nat2N.inj_succ, IHd; reflexivity. Qed.

Open Scope N_scope.
(** Horner value of a digit string started at [acc] *)
Lemma dvalue_ul d : forall acc, dvalue acc (ul d) = Unsigned.of_lu (rev d) + acc * 10 ^ Unsigned.usize d.
Proof.
  induction d; intro acc; cbn [ul dvalue Unsigned.usize]; [cbn; rewrite N.mul_1_r; reflexivity| ..];
    rewrite IHd, N.pow_succ_r';
    match goal with |- context [rev (?D ?x)] => change (rev (D x)) with (revapp x (D Nil)) end;
    rewrite Unsigned.of_lu_revapp;
    match goal with |- context [ndval ?c] => let v := eval vm_compute in (ndval c) in change (ndval c) with v end;
    match goal with |- context [Unsigned.of_lu (?D Nil)] =>
      let v := eval vm_compute in (Unsigned.of_lu (D Nil)) in change (Unsigned.of_lu (D Nil)) with v end;
    ring.
Qed.
Lemma dvalue_ul_0 d : dvalue 0 (ul d) = N.of_uint d.
Proof. rewrite dvalue_ul. unfold N.of_uint. rewrite Unsigned.of_uint_alt. ring. Qed.
Lemma dvalue_shift ds : forall acc, dvalue acc ds = acc * 10 ^ N.of_nat (length ds) + dvalue 0 ds.
Proof.
  induction ds as [|c r IH]; intro acc; [cbn; ring|].
  cbn [dvalue length]. rewrite (IH (acc * 10 + ndval c)), (IH (0 * 10 + ndval c)), Nat2N.inj_succ, N.pow_succ_r'. ring.
Qed.

Lemma n_to_str_ul n : n_to_str n = ul (N.to_uint n).
Proof.
  unfold n_to_str, NilZero.string_of_uint. destruct (N.to_uint n) eqn:E; try (rewrite s2l_string_of_uint; reflexivity).
  destruct n; cbn in E; [discriminate|]. exfalso. exact (Unsigned.to_uint_nonnil _ E).
Qed.
Lemma n_to_str_digits n : all_digits (n_to_str n) = true.
Proof. rewrite n_to_str_ul. apply ul_digits. Qed.
Lemma n_to_str_nonnil n : n_to_str n <> [].
Proof.
  rewrite n_to_str_ul. destruct n as [|p]; [discriminate|]. cbn [N.to_uint].
  pose proof (Unsigned.to_uint_nonnil p) as H. destruct (Pos.to_uint p); try discriminate. congruence.
Qed.
Lemma n_to_str_value n : dvalue 0 (n_to_str n) = n.
Proof. rewrite n_to_str_ul, dvalue_ul_0. apply DecimalN.Unsigned.of_to. Qed.

(** no leading zero: a positive number with k digits is at least 10^(k-1) *)
Lemma ul_lower d d' : d <> Nil -> d = nzhead d' -> 10 ^ (Unsigned.usize d - 1) <= dvalue 0 (ul d).
Proof.
  intros NN E. pose proof (nzhead_nonzero d') as NZ. rewrite <- E in NZ.
  destruct d; try congruence; try (exfalso; exact (NZ _ eq_refl));
    cbn [ul dvalue Unsigned.usize]; rewrite dvalue_ul; rewrite N.sub_1_r, N.pred_succ;
    unfold ndval, dval; cbn [nat_of_ascii N.of_nat]; cbn;
    match goal with |- _ <= _ + ?k * ?p => assert (p <= k * p) by (rewrite <- (N.mul_1_l p) at 1; apply N.mul_le_mono_r; lia); lia end.
Qed.
Lemma n_to_str_length n k : n < 10 ^ k -> 1 <= k -> N.of_nat (length (n_to_str n)) <= k.
Proof.
  intros H K. destruct n as [|p]; [cbn; lia|].
  rewrite n_to_str_ul, ul_length.
  pose proof (DecimalN.Unsigned.to_of (N.to_uint (Npos p))) as TO. rewrite DecimalN.Unsigned.of_to in TO.
  set (d := N.to_uint (Npos p)) in *.
  assert (V : dvalue 0 (ul d) = Npos p) by (unfold d; rewrite <- n_to_str_ul; apply n_to_str_value).
  assert (NZ : nzhead d <> Nil).
  { intro E. unfold unorm in TO. rewrite E in TO. rewrite TO in V. cbn in V. discriminate. }
  rewrite (unorm_nzhead _ NZ) in TO.
  assert (DN : d <> Nil) by (intro E; rewrite E in NZ; apply NZ; reflexivity).
  pose proof (ul_lower d d DN TO) as LB. rewrite V in LB.
  destruct (N.le_gt_cases (Unsigned.usize d) k) as [Le|Gt]; [exact Le|].
  exfalso. assert (10 ^ k <= 10 ^ (Unsigned.usize d - 1)) by (apply N.pow_le_mono_r; lia). lia.
Qed.
Close Scope N_scope.

(** * padding does not change what float()/int() see *)
Lemma forallb_cspace_spaces n : forallb is_cspace (spaces n) = true.
Proof. induction n; [reflexivity|]. cbn. exact IHn. Qed.
Lemma cstrip_pad w s : cstrip (pad w s) = cstrip s.
Proof.
  unfold cstrip, pad. destruct (w <? 0)%Z; unfold ljust, rjust.
  - apply strip_by_app_all_r. apply forallb_cspace_spaces.
  - apply strip_by_app_all_l. apply forallb_cspace_spaces.
Qed.
Lemma py_float_opt_pad w s : py_float_opt (pad w s) = py_float_opt s.
Proof. unfold py_float_opt. rewrite cstrip_pad. reflexivity. Qed.
Lemma py_int_opt_pad w s : py_int_opt (pad w s) = py_int_opt s.
Proof. unfold py_int_opt. rewrite cstrip_pad. reflexivity. Qed.

Lemma line_ok_spaces n : line_ok (spaces n) = true.
Proof. induction n; [reflexivity|]. cbn. exact IHn. Qed.
Lemma line_ok_app a b : line_ok (a ++ b) = line_ok a && line_ok b.
Proof. apply forallb_app. Qed.
Lemma line_ok_pad w s : line_ok s = true -> line_ok (pad w s) = true.
Proof.
  intro H. unfold pad. destruct (w <? 0)%Z; unfold ljust, rjust; rewrite line_ok_app, H, line_ok_spaces; reflexivity.
Qed.
Lemma digit_line_char c : is_digit c = true -> line_char c = true.
Proof. brute c. Qed.
Lemma line_ok_digits ds : all_digits ds = true -> line_ok ds = true.
Proof. unfold all_digits, line_ok. apply forallb_impl. intros c H. apply digit_line_char. exact H. Qed.

(** * blanks *)
Lemma py_float_opt_spaces n : py_float_opt (spaces n) = None.
Proof.
  unfold py_float_opt, cstrip, strip_by. rewrite (lstrip_by_all _ _ (forallb_cspace_spaces n)). reflexivity.
Qed.
Lemma py_int_opt_spaces n : py_int_opt (spaces n) = None.
Proof.
  unfold py_int_opt, cstrip, strip_by. rewrite (lstrip_by_all _ _ (forallb_cspace_spaces n)). reflexivity.
Qed.
Lemma rstrip_nl_spaces n : rstrip_c newline (spaces n) = spaces n.
Proof. apply line_ok_rstrip_nl. apply line_ok_spaces. Qed.

Lemma rvalue_eqb_refl a : rvalue_eqb a a = true.
Proof.
  destruct a as [s|z|f|]; cbn [rvalue_eqb]; [apply str_eqb_refl|apply Z.eqb_refl| |reflexivity].
  destruct f; cbn [fval_seqb]; rewrite ?Bool.eqb_reflx, ?N.eqb_refl, ?Z.eqb_refl; reflexivity.
Qed.

Lemma readback_none f : readback_ok f Fmt.XNone = true.
Proof.
  unfold readback_ok, fmt_field. rewrite line_ok_spaces. cbn [andb].
  unfold default_rf, expected. destruct (ft f); rewrite ?rstrip_nl_spaces, ?py_int_opt_spaces, ?py_float_opt_spaces; apply rvalue_eqb_refl.
Qed.

(** * names *)
Lemma readback_str f s : ft f = Ts -> line_ok s = true -> (length s <= width f)%nat -> readback_ok f (XStr s) = true.
Proof.
  intros T Lo Le. unfold readback_ok, fmt_field, fmt_raw. rewrite T. cbn [bind]. unfold fmt_str.
  assert (E : length (pad (fw f) s) = width f) by (apply pad_exact; exact Le).
  rewrite E, Nat.leb_refl. rewrite (line_ok_pad _ _ Lo). cbn [andb].
  unfold default_rf, expected. rewrite T. rewrite (line_ok_rstrip_nl _ (line_ok_pad _ _ Lo)). apply rvalue_eqb_refl.
Qed.

(** * non-negative integers *)
Lemma zdigits_value z : (0 <= z)%Z -> Z.of_N (dvalue 0 (zdigits z)) = z.
Proof. intro H. unfold zdigits. rewrite n_to_str_value. apply Z2N.id. exact H. Qed.
Lemma z_to_str_nonneg z : (0 <= z)%Z -> z_to_str z = zdigits z.
Proof.
  intro H. unfold z_to_str, zdigits, n_to_str. destruct z as [|p|p]; [reflexivity|reflexivity|lia].
Qed.
Lemma py_int_opt_digits ds : ds <> [] -> all_digits ds = true -> py_int_opt ds = Some (Z.of_N (dvalue 0 ds)).
Proof.
  intros NE A. unfold py_int_opt, cstrip. rewrite strip_by_nochar by (apply all_digits_nocspace; exact A).
  destruct ds as [|c r]; [congruence|]. pose proof A as A'. cbn in A'. apply andb_prop in A' as [D _].
  destruct (digit_facts c D) as (M & P & _). unfold sign. rewrite M, P. cbn [fst snd]. unfold int_body.
  rewrite <- (List.app_nil_r (c :: r)) at 1. rewrite digitpart_digits by (try assumption; try discriminate; reflexivity). reflexivity.
Qed.
Lemma readback_int f z : ft f = Td -> (0 <= z)%Z -> (length (zdigits z) <= width f)%nat -> readback_ok f (XInt z) = true.
Proof.
  intros T Z0 Le. unfold readback_ok, fmt_field, fmt_raw. rewrite T. cbn [bind]. unfold fmt_int.
  rewrite (z_to_str_nonneg _ Z0).
  assert (E : length (pad (fw f) (zdigits z)) = width f) by (apply pad_exact; exact Le).
  rewrite E, Nat.leb_refl.
  assert (Lo : line_ok (zdigits z) = true) by (apply line_ok_digits, n_to_str_digits).
  rewrite (line_ok_pad _ _ Lo). cbn [andb].
  unfold default_rf, expected. rewrite T. rewrite py_int_opt_pad, py_int_opt_digits; [|apply n_to_str_nonnil|apply n_to_str_digits].
  rewrite (zdigits_value _ Z0). apply rvalue_eqb_refl.
Qed.

(** * reals in [%w.pf] *)
Lemma rhe_nonneg n d : (0 <= n)%Z -> (0 < d)%Z -> (0 <= rhe n d)%Z.
Proof.
  intros Hn Hd. unfold rhe. pose proof (Z.div_pos n d Hn Hd).
  destruct (Z.compare (2 * (n mod d)) d); [destruct (Z.even (n / d))| |]; lia.
Qed.
Lemma num_den_pos m e : (0 <= m)%Z -> (0 <= fst (num_den m e) /\ 0 < snd (num_den m e))%Z.
Proof.
  intro H. unfold num_den. destruct (0 <=? e)%Z eqn:E; cbn [fst snd].
  - split; [|lia]. apply Z.leb_le in E. apply Z.mul_nonneg_nonneg; [exact H|]. apply Z.pow_nonneg. lia.
  - split; [exact H|]. apply Z.pow_pos_nonneg; lia.
Qed.
Lemma dvalue_zeros n : forall acc, dvalue acc (repeat "0"%char n) = (acc * 10 ^ N.of_nat n)%N.
Proof.
  induction n as [|n IH]; intro acc; [cbn; rewrite N.mul_1_r; reflexivity|].
  cbn [repeat dvalue]. rewrite IH, Nat2N.inj_succ, N.pow_succ_r'. change (ndval "0") with 0%N. ring.
Qed.
Lemma all_digits_zeros n : all_digits (repeat "0"%char n) = true.
Proof. induction n; [reflexivity|]. cbn. exact IHn. Qed.

Lemma fmt_f_body_form p m e : (1 <= p)%Z -> (0 <= m)%Z ->
  exists ipd fpd, fmt_f_body p m e = mant ipd fpd /\ all_digits ipd = true /\ all_digits fpd = true /\ ipd <> [] /\
    length fpd = Z.to_nat p /\
    dvalue 0 (ipd ++ fpd) = Z.to_N (rhe (fst (num_den m e) * pow10 p) (snd (num_den m e))).
Proof.
  intros Hp Hm. destruct (num_den_pos m e Hm) as [Hn Hd]. unfold fmt_f_body.
  destruct (num_den m e) as [num den]. cbn [fst snd] in *.
  set (N := rhe (num * pow10 p) den).
  assert (P10 : (0 < pow10 p)%Z) by (unfold pow10; apply Z.pow_pos_nonneg; lia).
  assert (HN : (0 <= N)%Z) by (apply rhe_nonneg; [apply Z.mul_nonneg_nonneg; lia|exact Hd]).
  assert (Hfp : (0 <= N mod pow10 p < pow10 p)%Z) by (apply Z.mod_pos_bound; exact P10).
  assert (Hip : (0 <= N / pow10 p)%Z) by (apply Z.div_pos; lia).
  assert (Lfp : (length (zdigits (N mod pow10 p)) <= Z.to_nat p)%nat).
  { unfold zdigits. assert (X : (N.of_nat (length (n_to_str (Z.to_N (N mod pow10 p)))) <= Z.to_N p)%N); [|lia].
    apply n_to_str_length; [|lia].
    replace (10 ^ Z.to_N p)%N with (Z.to_N (pow10 p)).
    - apply Z2N.inj_lt; lia.
    - unfold pow10. rewrite Z2N.inj_pow by lia. reflexivity. }
  replace (0 <? p)%Z with true by (symmetry; apply Z.ltb_lt; lia).
  exists (zdigits (N / pow10 p)), (zeros (p - Z.of_nat (length (zdigits (N mod pow10 p)))) ++ zdigits (N mod pow10 p)).
  split; [reflexivity|]. unfold zeros.
  split; [apply n_to_str_digits|].
  split; [unfold all_digits; rewrite forallb_app; fold (all_digits (repeat "0"%char (Z.to_nat (p - Z.of_nat (length (zdigits (N mod pow10 p)))))));
          rewrite all_digits_zeros; apply n_to_str_digits|].
  split; [apply n_to_str_nonnil|].
  split; [rewrite app_length, repeat_length; lia|].
  rewrite !dvalue_app, dvalue_zeros, dvalue_shift.
  set (len := length (zdigits (N mod pow10 p))) in *.
  set (k := Z.to_nat (p - Z.of_nat len)).
  assert (VZ : forall z, dvalue 0 (zdigits z) = Z.to_N z) by (intro z; unfold zdigits; apply n_to_str_value).
  rewrite !VZ.
  assert (KL : (N.of_nat k + N.of_nat len = Z.to_N p)%N) by (unfold k; lia).
  rewrite <- N.mul_assoc, <- N.pow_add_r, KL.
  replace (10 ^ Z.to_N p)%N with (Z.to_N (pow10 p)) by (unfold pow10; rewrite Z2N.inj_pow by lia; reflexivity).
  rewrite <- Z2N.inj_mul, <- Z2N.inj_add by lia. f_equal.
  rewrite Z.mul_comm. symmetry. apply Z.div_mod. lia.
Qed.

Definition signed_text (ng : bool) (body : str) : str := if ng then "-"%char :: body else body.
Lemma fmt_f_reads p m e ng : (1 <= p)%Z -> (0 <= m)%Z ->
  py_float_opt (signed_text ng (fmt_f_body p m e)) =
  Some (Fin ng (Z.to_N (rhe (fst (num_den m e) * pow10 p) (snd (num_den m e)))) (- p)).
Proof.
  intros Hp Hm. destruct (fmt_f_body_form p m e Hp Hm) as [ipd [fpd [E [Ai [Af [NE [Lf V]]]]]]].
  rewrite E. replace (signed_text ng (mant ipd fpd)) with (sgstr (if ng then Some true else None) ++ mant ipd fpd) by (destruct ng; reflexivity).
  rewrite float_plain by (repeat split; try assumption; left; exact NE).
  rewrite V, Lf. f_equal. f_equal; [destruct ng; reflexivity|]. rewrite Z2Nat.id by lia. lia.
Qed.
Lemma fmt_f_line_ok p m e ng : (1 <= p)%Z -> (0 <= m)%Z -> line_ok (signed_text ng (fmt_f_body p m e)) = true.
Proof.
  intros Hp Hm. destruct (fmt_f_body_form p m e Hp Hm) as [ipd [fpd [E [Ai [Af _]]]]]. rewrite E.
  assert (B : line_ok (mant ipd fpd) = true).
  { unfold mant. rewrite line_ok_app. cbn [line_ok forallb]. fold (line_ok fpd).
    rewrite (line_ok_digits _ Ai), (line_ok_digits _ Af). reflexivity. }
  destruct ng; cbn [signed_text line_ok forallb]; [fold (line_ok (mant ipd fpd)); rewrite B; reflexivity|exact B].
Qed.

Lemma readback_real f ng m e : ft f = Tf -> (1 <= prec f)%Z -> (0 <= m)%Z ->
  (length (signed_text ng (fmt_f_body (prec f) m e)) <= width f)%nat -> readback_ok f (XReal ng m e) = true.
Proof.
  intros T Hp Hm Le. unfold readback_ok, fmt_field, fmt_raw. rewrite T. cbn [bind]. unfold fmt_f.
  fold (signed_text ng (fmt_f_body (prec f) m e)).
  assert (E : length (pad (fw f) (signed_text ng (fmt_f_body (prec f) m e))) = width f) by (apply pad_exact; exact Le).
  rewrite E, Nat.leb_refl. rewrite (line_ok_pad _ _ (fmt_f_line_ok _ _ _ _ Hp Hm)). cbn [andb].
  unfold default_rf, expected. rewrite T. rewrite py_float_opt_pad, (fmt_f_reads _ _ _ _ Hp Hm).
  unfold dec_f. destruct (num_den m e) as [num den]. cbn [fst snd]. apply rvalue_eqb_refl.
Qed.

(** * the "fits" predicate of a field and its soundness *)
Definition fits_field (f : fspec) (v : value) : bool :=
  match v, ft f with
  | Fmt.XNone, _ => true
  | XStr s, Ts => line_ok s && (length s <=? width f)%nat
  | XInt z, Td => (0 <=? z)%Z && (length (zdigits z) <=? width f)%nat
  | XReal ng m e, Tf => (1 <=? prec f)%Z && (0 <=? m)%Z && (length (signed_text ng (fmt_f_body (prec f) m e)) <=? width f)%nat
  | _, _ => false
  end.
Theorem fits_reads_back f v : fits_field f v = true -> readback_ok f v = true.
Proof.
  unfold fits_field. destruct v as [s|z|ng m e|]; [| | |intros _; apply readback_none]; destruct (ft f) eqn:T; try discriminate; intro H.
  - apply andb_prop in H as [A B]. apply Nat.leb_le in B. apply readback_str; assumption.
  - apply andb_prop in H as [A B]. apply Nat.leb_le in B. apply Z.leb_le in A. apply readback_int; assumption.
  - apply andb_prop in H as [A C]. apply andb_prop in A as [A B]. apply Nat.leb_le in C. apply Z.leb_le in A. apply Z.leb_le in B.
    apply readback_real; assumption.
Qed.

(** purely arithmetic sufficient condition for a real: the rounded value has at most
    [q] integer digits and the field has room for them, the point, the decimals and a sign *)
Lemma fmt_f_body_length p m e q : (1 <= p)%Z -> (0 <= m)%Z -> (1 <= q)%Z ->
  (rhe (fst (num_den m e) * pow10 p) (snd (num_den m e)) < pow10 (p + q))%Z ->
  (length (fmt_f_body p m e) <= Z.to_nat (q + 1 + p))%nat.
Proof.
  intros Hp Hm Hq B. destruct (num_den_pos m e Hm) as [Hn Hd]. unfold fmt_f_body.
  destruct (num_den m e) as [num den]. cbn [fst snd] in *.
  set (N := rhe (num * pow10 p) den) in *.
  replace (0 <? p)%Z with true by (symmetry; apply Z.ltb_lt; lia).
  assert (P10 : (0 < pow10 p)%Z) by (unfold pow10; apply Z.pow_pos_nonneg; lia).
  assert (HN : (0 <= N)%Z) by (apply rhe_nonneg; [apply Z.mul_nonneg_nonneg; lia|exact Hd]).
  assert (Lip : (length (zdigits (N / pow10 p)) <= Z.to_nat q)%nat).
  { unfold zdigits. assert (X : (N.of_nat (length (n_to_str (Z.to_N (N / pow10 p)))) <= Z.to_N q)%N); [|lia].
    apply n_to_str_length; [|lia].
    replace (10 ^ Z.to_N q)%N with (Z.to_N (pow10 q)) by (unfold pow10; rewrite Z2N.inj_pow by lia; reflexivity).
    apply Z2N.inj_lt; [apply Z.div_pos; lia|unfold pow10; apply Z.pow_nonneg; lia|].
    apply Z.div_lt_upper_bound; [exact P10|]. unfold pow10 in *. rewrite <- Z.pow_add_r by lia. exact B. }
  assert (Lfp : (length (zdigits (N mod pow10 p)) <= Z.to_nat p)%nat).
  { unfold zdigits. assert (X : (N.of_nat (length (n_to_str (Z.to_N (N mod pow10 p)))) <= Z.to_N p)%N); [|lia].
    apply n_to_str_length; [|lia].
    replace (10 ^ Z.to_N p)%N with (Z.to_N (pow10 p)) by (unfold pow10; rewrite Z2N.inj_pow by lia; reflexivity).
    apply Z2N.inj_lt; [apply Z.mod_pos_bound; exact P10|lia|apply Z.mod_pos_bound; exact P10]. }
  rewrite app_length. cbn [length]. rewrite app_length. unfold zeros. rewrite repeat_length. lia.
Qed.
