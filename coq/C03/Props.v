(** C03 -- property theorems only.  Model: coq/C03/MulgridIO.v ([write], [read], [canon],
    [wf_g]) over the regenerated tables Gen.GenTables / Gen.GenMulgrid. *)
From Coq Require Import Ascii String List Bool Arith ZArith NArith QArith.
From PTBase Require Import Exn PyStr PyNum PyVal Fmt FixedFormat.
From Gen Require Import GenTables GenMulgrid.
From P Require Import Flt Lines MulgridIO RoundTrip Header Idem Fields Natural Canon Feet Rounding RealIdem NatIdem Examples NameLists SciIdem HdrIdem HdrOk ErrBound Margin Feet2 Second.
Import ListNotations.

(** ** finite obligations over the regenerated tables *)
(** every section title the writers emit selects, through its first [keyword_len] characters,
    the matching reader in the dispatch dictionary of [mulgrid.read] *)
Theorem section_titles_dispatch :
  title_ok "write_nodes" "read_nodes" && title_ok "write_columns" "read_columns" &&
  title_ok "write_connections" "read_connections" && title_ok "write_layers" "read_layers" &&
  title_ok "write_surface" "read_surface" && title_ok "write_wells" "read_wells" = true.
Proof. exact titles_dispatch. Qed.
Print Assumptions section_titles_dispatch.
(** order and guards of the section writers in [mulgrid.write] are those of the model *)
Theorem write_sequence_modelled : write_sequence =
  [("always", "write_header"); ("always", "write_nodes"); ("always", "write_columns"); ("always", "write_connections");
   ("always", "write_layers"); ("not_default_surface", "write_surface"); ("has_wells", "write_wells"); ("always", "final")]%string.
Proof. exact write_sequence_is_modelled. Qed.
Print Assumptions write_sequence_modelled.
(** the header record of the format table is the one the model reads and writes *)
Theorem header_record_modelled : rec_of "header" = Ok (hnames, hspecs).
Proof. exact rec_header. Qed.
Print Assumptions header_record_modelled.

(** ** lines and records *)
Theorem split_written_lines : forall ls, forallb line_ok ls = true -> split_lines (unl (file_of_lines ls)) = map add_nl ls.
Proof. exact split_written. Qed.
Print Assumptions split_written_lines.
(** one record of any layout: if every field passes its read-back check, the line the
    writer returns parses back to the expected values whatever follows it on the line *)
Theorem record_round_trip : forall specs vals, fields_ok specs vals = true ->
  exists l, write_values specs vals = Ok l /\ line_ok l = true /\
            forall rest, parse_string default_rf specs (l ++ rest)%list = expected_list specs vals.
Proof. exact record_parses_back. Qed.
Print Assumptions record_round_trip.
(** a value that fits its field (name no wider than the field, non-negative integer, any
    finite double in %w.pf with p >= 1, None) passes the read-back check: float()/int() of
    the formatted text return the printed decimal *)
Theorem field_fits_reads_back : forall f v, fits_field f v = true -> readback_ok f v = true.
Proof. exact fits_reads_back. Qed.
Print Assumptions field_fits_reads_back.
(** arithmetic room: a double whose rounding to p decimals is below 10^(p+q) prints in at
    most q + 1 + p characters (so |x| <= 9999999.99 fits '10.2f', sign included) *)
Theorem real_field_room : forall p m e q, (1 <= p)%Z -> (0 <= m)%Z -> (1 <= q)%Z ->
  (rhe (fst (num_den m e) * pow10 p) (snd (num_den m e)) < pow10 (p + q))%Z ->
  (length (fmt_f_body p m e) <= Z.to_nat (q + 1 + p))%nat.
Proof. exact fmt_f_body_length. Qed.
Print Assumptions real_field_room.

(** ** the round trip *)
(** the writer succeeds on every well-formed geometry *)
Theorem mulgrid_write_total : forall g, wf g = true ->
  str_eqb (h_type (canon_header (g_hdr g))) (s2l supported_type) = true -> exists b, write g = Ok b.
Proof. exact wf_write_ok. Qed.
Print Assumptions mulgrid_write_total.
(** THE round trip, for every well-formed geometry: any number of nodes, columns,
    connections, layers, surfaces, wells; any header options *)
Theorem mulgrid_read_write : forall g b, wf g = true -> write g = Ok b -> read b = Ok (canon g).
Proof. exact read_write_roundtrip. Qed.
Print Assumptions mulgrid_read_write.
(** ... in particular whenever every record value FITS its field (no run of the reader in
    the hypothesis) *)
Theorem fits_implies_wf : forall g, nwf g = true -> wf g = true.
Proof. exact nwf_wf. Qed.
Print Assumptions fits_implies_wf.
Theorem mulgrid_read_write_fits : forall g b, nwf g = true -> write g = Ok b -> read b = Ok (canon g).
Proof. exact read_write_roundtrip_fits. Qed.
Print Assumptions mulgrid_read_write_fits.
(** what [canon] keeps: order, counts, node lists, connections, optional parts *)
Theorem canon_keeps_structure : forall g, str_eqb (h_type (canon_header (g_hdr g))) (s2l supported_type) = true ->
  let L := len_or_0 colname_lengths (h_conv (canon_header (g_hdr g))) in
  let LL := len_or_0 layername_lengths (h_conv (canon_header (g_hdr g))) in
  map n_name (g_nodes (canon g)) = map (fun n => canon_name L (n_name n)) (g_nodes g) /\
  map c_name (g_cols (canon g)) = map (fun c => canon_name L (c_name c)) (g_cols g) /\
  map c_nodes (g_cols (canon g)) = map (fun c => map (canon_name L) (c_nodes c)) (g_cols g) /\
  map (fun c => is_some (c_centre c)) (g_cols (canon g)) = map (fun c => is_some (c_centre c)) (g_cols g) /\
  map (fun c => is_some (c_surf c)) (g_cols (canon g)) = map (fun c => is_some (c_surf c)) (g_cols g) /\
  g_cons (canon g) = map (canon_con L) (g_cons g) /\
  map l_name (g_lays (canon g)) = map (fun l => canon_name LL (l_name l)) (g_lays g) /\
  map w_name (g_wells (canon g)) = map (fun w => canon_wname (w_name w)) (g_wells g) /\
  map (fun w => length (w_pos w)) (g_wells (canon g)) = map (fun w => length (w_pos w)) (g_wells g).
Proof. exact canon_shape. Qed.
Print Assumptions canon_keeps_structure.
(** right-justified names of the convention's length come back unchanged *)
Theorem canonical_names_kept : forall g, str_eqb (h_type (canon_header (g_hdr g))) (s2l supported_type) = true ->
  names_canonical g = true ->
  map n_name (g_nodes (canon g)) = map n_name (g_nodes g) /\ map c_name (g_cols (canon g)) = map c_name (g_cols g) /\
  map c_nodes (g_cols (canon g)) = map c_nodes (g_cols g) /\ g_cons (canon g) = g_cons g /\
  map l_name (g_lays (canon g)) = map l_name (g_lays g).
Proof. exact canon_keeps_names. Qed.
Print Assumptions canonical_names_kept.

(** the derived block and connection name lists (model: field-trimmed copy of the C04 transcription
    of setup_block_name_index / setup_block_connection_name_index, run against the implementation
    every run) are identical for the re-read geometry, provided names are right-justified and every
    comparison  surface > layer bottom,  surface <= layer top  comes out the same after the trip
    ([cmp_ok]: fails only when two different elevations print as the same decimal) *)
Theorem name_lists_equal : forall g, hdr_ok (g_hdr g) = true ->
  str_eqb (h_type (canon_header (g_hdr g))) (s2l supported_type) = true ->
  names_canonical g = true -> cmp_ok g = true ->
  block_name_list (geom_of (canon g)) = block_name_list (geom_of g) /\
  block_connection_name_list (geom_of (canon g)) = block_connection_name_list (geom_of g).
Proof. exact name_lists_kept. Qed.
Print Assumptions name_lists_equal.

(** ** header options *)
Theorem header_round_trip : forall h, hdr_ok h = true ->
  canon_header h = let p := hdr_pre h in
    mkhdr (h_type p) (h_conv h) (h_atm h) (h_vol p) (h_con p) (if is_blank (h_unit p) then [] else h_unit p)
          (h_gdcx p) (h_gdcy p) (h_cntype h) (h_angle p) (h_bo h).
Proof. exact canon_header_form. Qed.
Print Assumptions header_round_trip.
Theorem header_options_kept : forall h, hdr_ok h = true ->
  let h' := canon_header h in
  h_conv h' = h_conv h /\ h_atm h' = h_atm h /\ h_cntype h' = h_cntype h /\ h_bo h' = h_bo h /\
  (h_gdcx h' = None <-> h_gdcx h = None) /\ (h_gdcy h' = None <-> h_gdcy h = None).
Proof. exact header_options_preserved. Qed.
Print Assumptions header_options_kept.
Theorem unit_type_kept : forall h sc, hdr_ok h = true -> unit_scale_of (h_unit h) = Ok sc -> h_unit (canon_header h) = h_unit h.
Proof. exact unit_type_preserved. Qed.
Print Assumptions unit_type_kept.
Theorem grid_type_kept : forall h, hdr_ok h = true -> h_type h = s2l supported_type -> h_type (canon_header h) = h_type h.
Proof. exact grid_type_preserved. Qed.
Print Assumptions grid_type_kept.

(** ** second write; feet *)
(** byte for byte, field level: if every field of every record re-formats to the same text
    ([idem_ok], decidable, evaluated by the driver on every generated geometry) the whole file is
    reproduced: sections present, their order, one line per surface column / well point, header *)
Theorem mulgrid_write_idem_partial : forall g, wf g = true -> idem_ok g = true -> write (canon g) = write g.
Proof. exact write_canon_idem. Qed.
Print Assumptions mulgrid_write_idem_partial.
(** the double arithmetic behind it: the digits written for a double [q1] (p = 1 or 2 decimals,
    fewer than 10^9 units of the last one) are written again after text -> nearest double ->
    times scale -> divided by scale (three correctly rounded operations), for any scale in [1/4, 1] *)
Theorem digits_survive_the_trip : forall p s q1, (1 <= p <= 2)%Z -> scale_ok s = true -> (0 <= dm q1)%Z ->
  (rN p (dm q1) (de q1) < 10 ^ 9)%Z ->
  let q2 := dy_div (dy_mul (dy_of_dec (dneg q1) (Z.to_N (rN p (dm q1) (de q1))) (- p)) s) s in
  (0 <= dm q2)%Z /\ dneg q2 = dneg q1 /\ rN p (dm q2) (de q2) = rN p (dm q1) (de q1).
Proof. exact trip_digits. Qed.
Print Assumptions digits_survive_the_trip.
Theorem real_field_idem : forall f s x, ft f = Tf -> (1 <= prec f <= 2)%Z -> (width f <= 10)%nat -> scale_ok s = true ->
  fits_field f (vreal (dy_div x s)) = true ->
  res_str_eqb (fmt_field f (vreal (dy_div (rt_num f s s x) s))) (fmt_field f (vreal (dy_div x s))) = true.
Proof. exact real_idem. Qed.
Print Assumptions real_field_idem.
(** the %w.pe fields of the header: the mantissa/exponent pair printed for a positive double x
    (p <= 14 decimals, decimal exponent >= -300) is printed again for the double nearest the
    printed decimal -- relative error 2^-53 of [round53] in the normal range, [ilog10]/[sci] specified *)
Theorem sci_digits_survive : forall p x, (0 <= p <= 14)%Z -> (0 < dm x)%Z ->
  let num := fst (num_den (dm x) (de x)) in let den := snd (num_den (dm x) (de x)) in
  let N := fst (sci p num den) in let k := snd (sci p num den) in
  (-300 <= k)%Z ->
  let d := dy_of_dec (dneg x) (Z.to_N N) (k - p) in
  (0 < dm d)%Z /\ dneg d = dneg x /\ sci p (fst (num_den (dm d) (de d))) (snd (num_den (dm d) (de d))) = (N, k).
Proof. exact sci_trip. Qed.
Print Assumptions sci_digits_survive.
(** the header line re-formats to itself when its reals fit their fields (arithmetic; no run of
    the writer on the re-read header in the hypothesis) *)
Theorem header_line_idem : forall h sc, hdr_ok h = true -> unit_scale_of (h_unit h) = Ok sc -> hdr_fits h = true ->
  write_values hspecs (header_vals hnames (canon_header h)) = write_values hspecs (header_vals hnames h).
Proof. exact header_line_same. Qed.
Print Assumptions header_line_idem.
(** byte for byte from arithmetic hypotheses ([aidem_ok]): every record value fits its field, the
    header's reals fit theirs, names are right-justified to the convention's length, and every
    layer centre either prints non-zero or is re-derived by the reader to the same text (the one
    evaluated check left: it is where the clause genuinely fails, see the next theorem) *)
Theorem mulgrid_write_idem : forall g, aidem_ok g = true -> write (canon g) = write g.
Proof. exact write_idem_arith. Qed.
Print Assumptions mulgrid_write_idem.
(** ... and the hypothesis cannot simply be dropped: with a layer whose centre prints as 0.00
    the reader re-derives the centre from the printed bottoms and the second file differs
    (recorded finding write:layer-centre-prints-zero, reproduced on the implementation) *)
Theorem mulgrid_write_idem_refuted : exists g, wf g = true /\ nwf g = true /\ write (canon g) <> write g.
Proof. exact write_idem_refuted. Qed.
Print Assumptions mulgrid_write_idem_refuted.
Theorem feet_roundtrip : forall g b, wf g = true -> h_unit (g_hdr g) = feet ->
  str_eqb (h_type (canon_header (g_hdr g))) (s2l supported_type) = true -> write g = Ok b ->
  (exists hl, b = file_of_lines (hl :: body_lines feet_scale g)) /\
  read b = Ok (canon g) /\
  h_unit (g_hdr (canon g)) = feet /\
  scale_or_one (h_unit (g_hdr g)) = feet_scale /\ scale_or_one (h_unit (g_hdr (canon g))) = feet_scale.
Proof. exact feet_round_trip. Qed.
Print Assumptions feet_roundtrip.

(** ** round 4: no run of the reader left in the hypotheses *)
(** the header line reads back: %5s, %1d/%2d (non-negative), %10.2e (float() of the printed text is the
    printed decimal), %10.2f fields that fit, convention in range, unit type and block order known *)
Theorem header_reads_back_arith : forall h, hdr_arith h = true -> hdr_ok h = true.
Proof. exact hdr_arith_ok. Qed.
Print Assumptions header_reads_back_arith.
(** the round trip for the class [awf]: header by [hdr_arith], every record value fits its field *)
Theorem mulgrid_read_write_arith : forall g b, awf g = true -> write g = Ok b -> read b = Ok (canon g).
Proof. exact read_write_roundtrip_arith. Qed.
Print Assumptions mulgrid_read_write_arith.
(** how far a coordinate moves: written as x / scale with p decimals, re-read and multiplied by
    the scale (four correctly rounded operations, |x| / scale < 2^27), sign kept *)
Theorem coordinate_error : forall f s x, ft f = Tf -> (1 <= prec f)%Z -> scale_ok s = true -> mag_ok s x = true ->
  (0 <= dm (rt_num f s s x))%Z /\ dneg (rt_num f s s x) = dneg x /\
  (Vq x - (Vq s * (1#2) / inject_Z (pow10 (prec f)) + e22) <= Vq (rt_num f s s x) <= Vq x + (Vq s * (1#2) / inject_Z (pow10 (prec f)) + e22))%Q.
Proof. exact rt_error. Qed.
Print Assumptions coordinate_error.
(** every comparison the name lists make keeps its outcome when the two elevations are the same
    double or differ by more than scale/100 + 2^-21 ([sep_ok]) *)
Theorem comparisons_kept_beyond_margin : forall g sc, hdr_ok (g_hdr g) = true -> unit_scale_of (h_unit (g_hdr g)) = Ok sc ->
  str_eqb (h_type (canon_header (g_hdr g))) (s2l supported_type) = true ->
  names_canonical g = true -> sep_ok sc g = true -> cmp_ok g = true.
Proof. exact sep_cmp_ok. Qed.
Print Assumptions comparisons_kept_beyond_margin.
Theorem name_lists_equal_margin : forall g, names_hyp g = true ->
  block_name_list (geom_of (canon g)) = block_name_list (geom_of g) /\
  block_connection_name_list (geom_of (canon g)) = block_connection_name_list (geom_of g).
Proof. exact name_lists_margin. Qed.
Print Assumptions name_lists_equal_margin.
(** feet/metres (any unit scale): nodes, specified centres, non-default surfaces, layer bottoms, well
    track points of the re-read geometry are within scale * 10^-p / 2 + 2^-22 metres of the originals;
    for FEET that is 1.525 mm (2 decimals) and 15.25 mm (wells, 1 decimal) *)
Theorem coordinates_close : forall g sc, hdr_ok (g_hdr g) = true -> unit_scale_of (h_unit (g_hdr g)) = Ok sc ->
  str_eqb (h_type (canon_header (g_hdr g))) (s2l supported_type) = true -> coords_mag sc g = true ->
  Forall2 (fun n n' => close sc (sp "node" 1) (n_x n) (n_x n') /\ close sc (sp "node" 2) (n_y n) (n_y n')) (g_nodes g) (g_nodes (canon g)) /\
  Forall2 (fun c c' => opt_close sc (sp "column" 3) (option_map fst (c_centre c)) (option_map fst (c_centre c')) /\
                       opt_close sc (sp "column" 4) (option_map snd (c_centre c)) (option_map snd (c_centre c')) /\
                       opt_close sc (sp "surface" 1) (c_surf c) (c_surf c')) (g_cols g) (g_cols (canon g)) /\
  Forall2 (fun l l' => close sc (sp "layer" 1) (l_bottom l) (l_bottom l')) (g_lays g) (g_lays (canon g)) /\
  Forall2 (fun w w' => Forall2 (fun p p' => close sc (sp "well" 1) (fst (fst p)) (fst (fst p')) /\ close sc (sp "well" 2) (snd (fst p)) (snd (fst p')) /\
                                            close sc (sp "well" 3) (snd p) (snd p')) (w_pos w) (w_pos w')) (g_wells g) (g_wells (canon g)).
Proof. exact canon_coordinates_close. Qed.
Print Assumptions coordinates_close.
Theorem feet_error_numbers : (err feet_scale (sp "node" 1) <= 1525 # 1000000 /\ err feet_scale (sp "well" 1) <= 1525 # 100000)%Q.
Proof. exact feet_errors. Qed.
Print Assumptions feet_error_numbers.

(** ** round 6: the last evaluated hypothesis removed for layers whose centre does not print as zero *)
(** [centres_ok] (the one check of [aidem_ok] that ran the formatter) follows from integer arithmetic on
    the doubles: every layer centre / scale, rounded half-even to the decimals of the field, is non-zero *)
Theorem layer_centres_nonzero_suffice : forall g, centres_nonzero g = true -> centres_ok g = true.
Proof. exact centres_nonzero_ok. Qed.
Print Assumptions layer_centres_nonzero_suffice.
(** ... which holds as soon as |centre / scale| (= m * 2^e = num/den) exceeds half a unit of the last printed decimal *)
Theorem centre_prints_nonzero_arith : forall p m e, (0 <= m)%Z ->
  (snd (num_den m e) < 2 * (fst (num_den m e) * pow10 p))%Z -> (0 < rN p m e)%Z.
Proof. exact prints_nonzero_above_half_unit. Qed.
Print Assumptions centre_prints_nonzero_arith.
(** second write byte for byte with NOTHING evaluated in the hypothesis ([aidem_arith]: awf, supported type,
    header reals fit, right-justified names, no layer centre prints as zero) *)
Theorem mulgrid_write_idem_arith : forall g, aidem_arith g = true -> write (canon g) = write g.
Proof. exact write_idem_pure. Qed.
Print Assumptions mulgrid_write_idem_arith.
(** end to end, as the property words it: the file written for g reads back (as canon g), and writing
    the re-read geometry gives THE SAME BYTES b -- the file is a fixed point of read-then-write *)
Theorem mulgrid_second_file : forall g b, aidem_ok g = true -> write g = Ok b ->
  read b = Ok (canon g) /\ write (canon g) = Ok b.
Proof. exact second_file_same. Qed.
Print Assumptions mulgrid_second_file.
(** ... and on the arithmetic class the first write does succeed *)
Theorem mulgrid_second_file_total : forall g, aidem_arith g = true ->
  exists b, write g = Ok b /\ read b = Ok (canon g) /\ write (canon g) = Ok b.
Proof. exact second_file_total. Qed.
Print Assumptions mulgrid_second_file_total.
Theorem hypotheses_satisfiable_round6 : aidem_arith ex_geo2 = true.
Proof. exact ex_geo2_aidem_arith. Qed.
Print Assumptions hypotheses_satisfiable_round6.

(** ** the hypotheses are satisfiable: a concrete geometry in feet with a specified centre,
    a raised surface, a layer centred on 0.0 and a well *)
Theorem hypotheses_satisfiable : wf ex_geo = true /\ nwf ex_geo = true /\ idem_ok ex_geo = true /\
  (h_unit (g_hdr ex_geo) = feet /\ str_eqb (h_type (canon_header (g_hdr ex_geo))) (s2l supported_type) = true) /\
  aidem_ok ex_geo2 = true /\ (hdr_ok (g_hdr ex_geo2) = true /\ names_canonical ex_geo2 = true /\ cmp_ok ex_geo2 = true) /\
  (awf ex_geo2 = true /\ names_hyp ex_geo2 = true /\ coords_mag feet_scale ex_geo2 = true).
Proof. exact (conj ex_geo_wf (conj ex_geo_nwf (conj ex_geo_idem (conj ex_geo_feet (conj ex_geo2_aidem (conj ex_geo2_names ex_geo2_arith)))))). Qed.
Print Assumptions hypotheses_satisfiable.
