(** C03 -- property theorems only. *)
From Coq Require Import Ascii String List Bool Arith ZArith NArith.
From PTBase Require Import Exn PyStr PyNum PyVal Fmt FixedFormat.
From Gen Require Import GenTables GenMulgrid.
From P Require Import Flt Lines MulgridIO RoundTrip.
Import ListNotations.

(** a written file splits back into its lines (text mode, universal newlines) *)
Theorem split_written_lines : forall ls, forallb line_ok ls = true -> split_lines (unl (file_of_lines ls)) = map add_nl ls.
Proof. intros ls H. rewrite unl_file by exact H. apply split_lines_file. exact H. Qed.
Print Assumptions split_written_lines.

(** one record: if every field passes its read-back check, the writer returns a line that
    parses back to the expected values whatever follows it on the line *)
Theorem record_round_trip : forall specs vals, fields_ok specs vals = true ->
  exists l, write_values specs vals = Ok l /\ line_ok l = true /\
            forall rest, parse_string default_rf specs (l ++ rest)%list = expected_list specs vals.
Proof. exact record_parses_back. Qed.
Print Assumptions record_round_trip.

(** the writer succeeds on every well-formed geometry *)
Theorem mulgrid_write_total : forall g, wf g = true ->
  str_eqb (h_type (canon_header (g_hdr g))) (s2l supported_type) = true -> exists b, write g = Ok b.
Proof. exact wf_write_ok. Qed.
Print Assumptions mulgrid_write_total.

(** THE round trip, for every well-formed geometry (any number of nodes, columns,
    connections, layers, surfaces, wells; any header options) *)
Theorem mulgrid_read_write : forall g b, wf g = true -> write g = Ok b -> read b = Ok (canon g).
Proof. exact read_write_roundtrip. Qed.
Print Assumptions mulgrid_read_write.
