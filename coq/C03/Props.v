(** C03 -- property theorems only. *)
From Coq Require Import Ascii String List Bool Arith ZArith NArith.
From PTBase Require Import Exn PyStr PyNum PyVal Fmt FixedFormat.
From Gen Require Import GenTables GenMulgrid.
From P Require Import Flt Lines MulgridIO.
Import ListNotations.

Theorem split_written_lines : forall ls, forallb line_ok ls = true -> split_lines (file_of_lines ls) = map add_nl ls.
Proof. exact split_lines_file. Qed.
Print Assumptions split_written_lines.
