(** C03 -- the header line's read-back from arithmetic: float() of the text ['%w.pe' % x]
    returns the printed decimal (with Fields.v for %s, %d, %f this makes [hdr_ok] a theorem
    about headers whose values fit their fields and whose options the reader knows). *)
From Coq Require Import Ascii String List Bool Arith ZArith NArith Lia QArith.
From PTBase Require Import Exn PyStr PyNum PyVal Fmt FixedFormat.
From PTModel Require Import Fortran FortranNF FortranRender.
From Gen Require Import GenTables GenMulgrid.
From P Require Import Flt Lines MulgridIO RoundTrip Header Fields Natural Rounding RealIdem SciIdem.
Import ListNotations.
Open Scope list_scope.

Lemma zdigits_digits z : all_digits (zdigits z) = true. Proof. apply n_to_str_digits. Qed.
Lemma zdigits_nonnil z : zdigits z <> []. Proof. apply n_to_str_nonnil. Qed.
Lemma zdigits_val z : (0 <= z)%Z -> Z.of_N (dvalue 0 (zdigits z)) = z. Proof. apply zdigits_value. Qed.

Lemma two_digits_facts k : (0 <= k)%Z ->
  all_digits (two_digits k) = true /\ two_digits k <> [] /\ Z.of_N (dvalue 0 (two_digits k)) = k.
Proof.
  intro H. unfold two_digits. destruct (length (zdigits k) <? 2)%nat.
  - split; [cbn; apply zdigits_digits|]. split; [discriminate|]. cbn [dvalue]. change (0 * 10 + ndval "0")%N with 0%N. apply zdigits_val. exact H.
  - split; [apply zdigits_digits|]. split; [apply zdigits_nonnil|apply zdigits_val; exact H].
Qed.

(** a normalised mantissa has exactly p + 1 digits *)
Lemma zdigits_len N p : (0 <= p)%Z -> (10 ^ p <= N < 10 ^ (p + 1))%Z -> length (zdigits N) = Z.to_nat (p + 1).
Proof.
  intros Hp [L U]. assert (N0 : (0 < N)%Z) by (assert (0 < 10 ^ p)%Z by (apply Z.pow_pos_nonneg; lia); lia).
  unfold zdigits.
  assert (A : (N.of_nat (length (n_to_str (Z.to_N N))) <= Z.to_N (p + 1))%N).
  { apply n_to_str_length; [|lia]. replace (10 ^ Z.to_N (p + 1))%N with (Z.to_N (10 ^ (p + 1))) by (rewrite Z2N.inj_pow by lia; reflexivity).
    apply Z2N.inj_lt; lia. }
  pose proof (n_to_str_upper (Z.to_N N)) as B. set (len := length (n_to_str (Z.to_N N))) in *.
  destruct (le_lt_dec (Z.to_nat (p + 1)) len) as [G|G]; [lia|]. exfalso.
  assert (C : (Z.to_N N < 10 ^ Z.to_N p)%N).
  { eapply N.lt_le_trans; [exact B|]. apply N.pow_le_mono_r; lia. }
  replace (10 ^ Z.to_N p)%N with (Z.to_N (10 ^ p)) in C by (rewrite Z2N.inj_pow by lia; reflexivity).
  apply Z2N.inj_lt in C; lia.
Qed.

Lemma line_ok_cons c s : line_ok (c :: s) = line_char c && line_ok s. Proof. reflexivity. Qed.

Lemma fmt_e_reads p m e ng : (1 <= p)%Z -> (0 <= m)%Z ->
  py_float_opt (signed_text ng (fmt_e_body p m e)) = Some (dec_e p ng m e) /\ line_ok (signed_text ng (fmt_e_body p m e)) = true.
Proof.
  intros Hp Hm. unfold fmt_e_body, dec_e. destruct (m =? 0)%Z eqn:M0.
  - (* zero *)
    replace (0 <? p)%Z with true by (symmetry; apply Z.ltb_lt; lia).
    assert (E : signed_text ng (("0"%char :: "."%char :: zeros p) ++ s2l "e+00")
                = sgstr (if ng then Some true else None) ++ mant ["0"%char] (zeros p) ++ "e"%char :: sgstr (Some false) ++ s2l "00")
      by (destruct ng; reflexivity).
    rewrite E. split.
    + rewrite float_letter; [|split; [reflexivity|split; [unfold zeros; apply all_digits_zeros|left; discriminate]]|split; [discriminate|reflexivity]].
      unfold zeros. rewrite repeat_length. cbn [app dvalue]. rewrite dvalue_zeros. change (0 * 10 + ndval "0")%N with 0%N. rewrite N.mul_0_l.
      f_equal. f_equal; [destruct ng; reflexivity|]. replace (signed (isneg (Some false)) (dvalue 0 (s2l "00"))) with 0%Z by reflexivity. rewrite Z2Nat.id by lia. lia.
    + unfold mant, zeros. destruct ng; cbn [sgstr app line_ok forallb]; rewrite forallb_app; cbn [forallb];
        fold (line_ok (repeat "0"%char (Z.to_nat p))); rewrite (line_ok_digits _ (all_digits_zeros _)); reflexivity.
  - apply Z.eqb_neq in M0. assert (Mp : (0 < m)%Z) by lia.
    assert (Hn : (0 < fst (num_den m e))%Z) by (apply num_den_pos_strict; exact Mp).
    assert (Hd : (0 < snd (num_den m e))%Z) by (apply (num_den_pos m e); lia).
    destruct (sci_spec p _ _ ltac:(lia) Hn Hd) as [NB _].
    destruct (num_den m e) as [num den]. cbn [fst snd] in *. destruct (sci p num den) as [N k]. cbn [fst snd] in NB.
    pose proof (zdigits_len N p ltac:(lia) NB) as LN.
    destruct (zdigits N) as [|c rest] eqn:ZD; [cbn in LN; lia|].
    replace (0 <? p)%Z with true by (symmetry; apply Z.ltb_lt; lia).
    assert (LR : length rest = Z.to_nat p) by (cbn [length] in LN; lia).
    pose proof (zdigits_digits N) as AD. rewrite ZD in AD. cbn in AD. apply andb_prop in AD as [Dc Dr].
    destruct (two_digits_facts (Z.abs k) ltac:(lia)) as [TA [TN TV]].
    assert (E : signed_text ng ((c :: "."%char :: rest) ++ ["e"%char; if (k <? 0)%Z then "-"%char else "+"%char] ++ two_digits (Z.abs k))
                = sgstr (if ng then Some true else None) ++ mant [c] rest ++ "e"%char :: sgstr (Some (k <? 0)%Z) ++ two_digits (Z.abs k)).
    { unfold mant. destruct ng, (k <? 0)%Z; cbn [signed_text sgstr app]; rewrite <- ?app_assoc; reflexivity. }
    rewrite E. split.
    + rewrite float_letter; [|split; [cbn; rewrite Dc; reflexivity|split; [exact Dr|left; discriminate]]|split; assumption].
      f_equal. f_equal.
      * destruct ng; reflexivity.
      * cbn [app]. rewrite <- ZD. unfold zdigits. apply n_to_str_value.
      * rewrite LR, Z2Nat.id by lia. unfold signed. destruct (k <? 0)%Z eqn:K; cbn [isneg]; rewrite TV; [apply Z.ltb_lt in K|apply Z.ltb_ge in K]; lia.
    + unfold mant. assert (Lr : line_ok rest = true) by (apply line_ok_digits; exact Dr).
      assert (Lt : line_ok (two_digits (Z.abs k)) = true) by (apply line_ok_digits; exact TA).
      assert (Lc : line_char c = true) by (apply digit_line_char; exact Dc).
      destruct ng, (k <? 0)%Z; cbn [sgstr app]; rewrite ?line_ok_cons, ?line_ok_app, ?line_ok_cons, ?Lc, ?Lr, ?line_ok_app, ?line_ok_cons, ?Lt; reflexivity.
Qed.

Lemma readback_e f ng m e : ft f = Te -> (1 <= prec f)%Z -> (0 <= m)%Z ->
  (length (signed_text ng (fmt_e_body (prec f) m e)) <= width f)%nat -> readback_ok f (XReal ng m e) = true.
Proof.
  intros T Hp Hm Le. destruct (fmt_e_reads (prec f) m e ng Hp Hm) as [R Lo].
  unfold readback_ok, fmt_field, fmt_raw. rewrite T. cbn [bind]. unfold fmt_e.
  fold (signed_text ng (fmt_e_body (prec f) m e)).
  rewrite (pad_exact _ _ Le), Nat.leb_refl. rewrite (line_ok_pad _ _ Lo). cbn [andb].
  unfold default_rf, expected. rewrite T. rewrite py_float_opt_pad, R. apply rvalue_eqb_refl.
Qed.

(** * the header line *)
Definition hfits (f : fspec) (v : value) : bool :=
  fits_field f v ||
  match v, ft f with
  | XReal ng m e, Te => (1 <=? prec f)%Z && (0 <=? m)%Z && (length (signed_text ng (fmt_e_body (prec f) m e)) <=? width f)%nat
  | _, _ => false
  end.
Lemma hfits_reads_back f v : hfits f v = true -> readback_ok f v = true.
Proof.
  unfold hfits. intro H. apply orb_prop in H as [H|H]; [apply fits_reads_back; exact H|].
  destruct v as [s|z|ng m e|]; try discriminate. destruct (ft f) eqn:T; try discriminate.
  apply andb_prop in H as [H C]. apply andb_prop in H as [A B]. apply Z.leb_le in A. apply Z.leb_le in B. apply Nat.leb_le in C.
  apply readback_e; assumption.
Qed.

(** the options the reader accepts: naming convention in range, unit type and block order known *)
Definition hdr_opts_ok (h : header) : bool :=
  match conv_len colname_lengths (h_conv h) with Ok _ => true | Raise _ => false end &&
  (let u := pad (fw (sp "header" 5)) (h_unit h) in
   match unit_scale_of (if is_blank u then [] else u) with Ok _ => true | Raise _ => false end) &&
  match h_bo h with
  | None => true
  | Some z => match zlookup z block_orders with Some _ => true | None => false end
  end.
Definition hdr_arith (h : header) : bool := fields_ok_g hfits hspecs (header_vals hnames h) && hdr_opts_ok h.

Theorem hdr_arith_ok h : hdr_arith h = true -> hdr_ok h = true.
Proof.
  unfold hdr_arith, hdr_ok. rewrite rec_header. cbn [fst snd]. intro H. apply andb_prop in H as [F O].
  rewrite (fields_ok_mono hfits readback_ok hfits_reads_back _ _ F). cbn [andb].
  unfold header_of_values. rewrite set_fields_form. cbn [bind].
  unfold hdr_opts_ok in O. apply andb_prop in O as [O O3]. apply andb_prop in O as [O1 O2].
  unfold header_post. cbn [hdr_pre h_conv h_unit h_bo].
  destruct (conv_len colname_lengths (h_conv h)); [|discriminate]. cbn [bind].
  cbv zeta in O2. destruct (unit_scale_of _); [|discriminate]. cbn [bind].
  destruct (h_bo h) as [z|]; [destruct (zlookup z block_orders); [reflexivity|discriminate]|reflexivity].
Qed.

(** the well-formedness class without any run of the reader: header by [hdr_arith], records by [fits_field] *)
Definition awf (g : geo) : bool := hdr_arith (g_hdr g) && wf_rest fits_field g.
Theorem awf_nwf g : awf g = true -> nwf g = true.
Proof. unfold awf, nwf, wf_g. intro H. apply andb_prop in H as [A B]. rewrite (hdr_arith_ok _ A), B. reflexivity. Qed.
Theorem read_write_roundtrip_arith g b : awf g = true -> write g = Ok b -> read b = Ok (canon g).
Proof. intro H. apply read_write_roundtrip_fits. apply awf_nwf. exact H. Qed.
