(** IEEE-754 binary64 arithmetic on exact dyadics, as far as mulgrid.read/write need it:
    the correctly rounded quotient [pos / unit_scale], product [x * unit_scale], the sum
    and halving of the default layer centre, and CPython's [float(str)] (strtod) on the
    exact decimal the text denotes.  All are "round the exact rational to the nearest
    double, ties to even" ([round53], with the subnormal exponent clamp; overflow to
    infinity is outside the model).  Validated against the running interpreter by the
    `float-ops` correspondence of the C03 check. *)
From Coq Require Import Ascii String List Bool Arith ZArith NArith Lia.
From PTBase Require Import Exn PyStr PyNum PyVal Fmt.
Import ListNotations.
Open Scope Z_scope.

(** an exact double [(-1)^dneg * dm * 2^de], [dm >= 0] *)
Record dy := mkdy { dneg : bool; dm : Z; de : Z }.

Definition dy_eqb (a b : dy) : bool := Bool.eqb (dneg a) (dneg b) && (dm a =? dm b) && (de a =? de b).
Lemma dy_eqb_eq a b : dy_eqb a b = true <-> a = b.
Proof.
  destruct a as [n1 m1 e1], b as [n2 m2 e2]; unfold dy_eqb; cbn [dneg dm de]. split.
  - intro H. apply andb_prop in H as [H H3]. apply andb_prop in H as [H1 H2].
    apply Bool.eqb_prop in H1. apply Z.eqb_eq in H2. apply Z.eqb_eq in H3. subst. reflexivity.
  - intro H. inversion H; subst. rewrite Bool.eqb_reflx, !Z.eqb_refl. reflexivity.
Qed.

(** floor(log2 (num/den)), num, den > 0 *)
Definition ilog2 (num den : Z) : Z :=
  let k0 := Z.log2 num - Z.log2 den in
  let ge k := if 0 <=? k then den * 2 ^ k <=? num else den <=? num * 2 ^ (- k) in
  if ge k0 then k0 else k0 - 1.

(** nearest double (ties to even) of num/den > 0, as mantissa and exponent *)
Definition round53 (num den : Z) : Z * Z :=
  let k := Z.max (ilog2 num den - 52) (-1074) in
  let m := if 0 <=? k then rhe num (den * 2 ^ k) else rhe (num * 2 ^ (- k)) den in
  (m, k).

Definition dy_of_q (ng : bool) (num den : Z) : dy :=
  if num =? 0 then mkdy ng 0 0 else let '(m, k) := round53 num den in mkdy ng m k.

Definition dy_num_den (a : dy) : Z * Z := num_den (dm a) (de a).

Definition dy_mul (a b : dy) : dy :=
  let '(n1, d1) := dy_num_den a in let '(n2, d2) := dy_num_den b in
  dy_of_q (xorb (dneg a) (dneg b)) (n1 * n2) (d1 * d2).
(** [b] non-zero *)
Definition dy_div (a b : dy) : dy :=
  let '(n1, d1) := dy_num_den a in let '(n2, d2) := dy_num_den b in
  dy_of_q (xorb (dneg a) (dneg b)) (n1 * d2) (d1 * n2).
Definition dy_add (a b : dy) : dy :=
  let '(n1, d1) := dy_num_den a in let '(n2, d2) := dy_num_den b in
  let s1 := if dneg a then - n1 else n1 in let s2 := if dneg b then - n2 else n2 in
  let n := s1 * d2 + s2 * d1 in
  if n =? 0 then mkdy (dneg a && dneg b) 0 0 else dy_of_q (n <? 0) (Z.abs n) (d1 * d2).
Definition dy_half : dy := mkdy false 1 (-1).

(** strtod on the denoted decimal *)
Definition dy_of_dec (ng : bool) (mant : N) (e10 : Z) : dy :=
  if 0 <=? e10 then dy_of_q ng (Z.of_N mant * 10 ^ e10) 1 else dy_of_q ng (Z.of_N mant) (10 ^ (- e10)).

Definition dy_is_zero (a : dy) : bool := dm a =? 0.

(** exact signed dyadic arithmetic (for the orientation test of a column polygon) *)
Definition ex := (Z * Z)%type.                 (* s * 2^e *)
Definition ex_of (a : dy) : ex := (if dneg a then - dm a else dm a, de a).
Definition ex_add (a b : ex) : ex :=
  let e := Z.min (snd a) (snd b) in (fst a * 2 ^ (snd a - e) + fst b * 2 ^ (snd b - e), e).
Definition ex_opp (a : ex) : ex := (- fst a, snd a).
Definition ex_sub (a b : ex) : ex := ex_add a (ex_opp b).
Definition ex_mul (a b : ex) : ex := (fst a * fst b, snd a + snd b).
Definition ex_neg (a : ex) : bool := fst a <? 0.
(** a < b exactly *)
Definition dy_ltb (a b : dy) : bool := ex_neg (ex_sub (ex_of a) (ex_of b)).

(** canonical form for printing: odd mantissa *)
Fixpoint strip2 (p : positive) : positive * Z :=
  match p with xO q => let '(r, k) := strip2 q in (r, k + 1) | _ => (p, 0) end.
Definition dy_norm (a : dy) : dy :=
  match dm a with
  | Zpos p => let '(r, k) := strip2 p in mkdy (dneg a) (Zpos r) (de a + k)
  | _ => mkdy (dneg a) 0 0
  end.

Example round53_tenth : dy_norm (dy_of_dec false 1 (-1)) = mkdy false 3602879701896397 (-55).
Proof. vm_compute. reflexivity. Qed.
Example div_feet : dy_norm (dy_div (mkdy false 10 0) (mkdy false 5490788665690109 (-54))) = mkdy false 2308685832600525 (-46).
Proof. vm_compute. reflexivity. Qed.
