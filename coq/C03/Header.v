(** C03 -- the header line: which options the round trip preserves exactly, and what
    happens to the others (proved against the regenerated header record). *)
From Coq Require Import Ascii String List Bool Arith ZArith NArith Lia.
From PTBase Require Import Exn PyStr PyNum PyVal Fmt FixedFormat.
From Gen Require Import GenTables GenMulgrid.
From P Require Import Flt Lines MulgridIO RoundTrip.
Import ListNotations.
Open Scope Z_scope.
Open Scope list_scope.

Definition hnames : list string :=
  ["type"; "_convention"; "_atmosphere_type"; "atmosphere_volume"; "atmosphere_connection"; "_unit_type";
   "gdcx"; "gdcy"; "cntype"; "permeability_angle"; "_block_order_int"]%string.
Definition hspecs : list fspec := map (sp "header") (seq 0 11).
Lemma rec_header : rec_of "header" = Ok (hnames, hspecs).
Proof. reflexivity. Qed.
Lemma types_header : map ft hspecs = [Ts; Td; Td; Te; Te; Ts; Tf; Tf; Td; Tf; Td].
Proof. reflexivity. Qed.

Lemma header_vals_form h : header_vals hnames h =
  [XStr (h_type h); XInt (h_conv h); XInt (h_atm h); vreal (h_vol h); vreal (h_con h); XStr (h_unit h);
   voreal (h_gdcx h); voreal (h_gdcy h); voint (h_cntype h); vreal (h_angle h); voint (h_bo h)].
Proof. reflexivity. Qed.

(** a real after the trip through header field [i] (no unit scaling in the header) *)
Definition rt_hdr (i : nat) (x : dy) : dy :=
  match as_dy (expected (sp "header" i) (vreal x)) with Ok d => d | Raise _ => x end.

Lemma expected_real_fin f x : ft f = Tf \/ ft f = Te -> exists ng m e, expected f (vreal x) = RFloat (Fin ng m e).
Proof.
  intros [T|T]; unfold expected, vreal; rewrite T.
  - unfold dec_f. destruct (num_den (dm x) (de x)). eexists; eexists; eexists; reflexivity.
  - unfold dec_e. destruct (dm x =? 0); [eexists; eexists; eexists; reflexivity|].
    destruct (num_den (dm x) (de x)) as [num den]. destruct (sci _ num den). eexists; eexists; eexists; reflexivity.
Qed.

(** the header the reader builds before [header_post] *)
Definition hdr_pre (h : header) : header :=
  mkhdr (pad (fw (sp "header" 0)) (h_type h)) (h_conv h) (h_atm h) (rt_hdr 3 (h_vol h)) (rt_hdr 4 (h_con h))
        (pad (fw (sp "header" 5)) (h_unit h)) (option_map (rt_hdr 6) (h_gdcx h)) (option_map (rt_hdr 7) (h_gdcy h))
        (h_cntype h) (rt_hdr 9 (h_angle h)) (h_bo h).

Lemma set_fields_form h :
  set_hfields (combine hnames (expected_list hspecs (header_vals hnames h))) default_header = Ok (hdr_pre h).
Proof.
  rewrite header_vals_form. unfold hdr_pre, rt_hdr.
  destruct (expected_real_fin (sp "header" 3) (h_vol h) (or_intror eq_refl)) as [n3 [m3 [e3 E3]]].
  destruct (expected_real_fin (sp "header" 4) (h_con h) (or_intror eq_refl)) as [n4 [m4 [e4 E4]]].
  destruct (expected_real_fin (sp "header" 9) (h_angle h) (or_introl eq_refl)) as [n9 [m9 [e9 E9]]].
  unfold expected_list, hspecs. cbn [seq map combine fst snd].
  rewrite E3, E4, E9.
  rewrite (expected_name (sp "header" 0) _ eq_refl), (expected_name (sp "header" 5) _ eq_refl).
  rewrite (expected_int (sp "header" 1) _ eq_refl), (expected_int (sp "header" 2) _ eq_refl).
  destruct h as [ty cv at_ vol con un gx gy cn ang bo]. cbn [h_type h_conv h_atm h_vol h_con h_unit h_gdcx h_gdcy h_cntype h_angle h_bo] in *.
  destruct gx as [gx|]; destruct gy as [gy|]; destruct cn as [cn|]; destruct bo as [bo|]; cbn [voreal voint option_map];
    try (destruct (expected_real_fin (sp "header" 6) gx (or_introl eq_refl)) as [n6 [m6 [e6 E6]]]; rewrite E6);
    try (destruct (expected_real_fin (sp "header" 7) gy (or_introl eq_refl)) as [n7 [m7 [e7 E7]]]; rewrite E7);
    try rewrite (expected_int (sp "header" 8) _ eq_refl); try rewrite (expected_int (sp "header" 10) _ eq_refl);
    try rewrite (expected_none_f (sp "header" 6) eq_refl); try rewrite (expected_none_f (sp "header" 7) eq_refl);
    try change (expected (sp "header" 8) XNone) with RNone; try change (expected (sp "header" 10) XNone) with RNone;
    reflexivity.
Qed.

(** THE header theorem: what [read_header] makes of the written header line *)
Theorem canon_header_form h : hdr_ok h = true ->
  canon_header h = let p := hdr_pre h in
    mkhdr (h_type p) (h_conv h) (h_atm h) (h_vol p) (h_con p) (if is_blank (h_unit p) then [] else h_unit p)
          (h_gdcx p) (h_gdcy p) (h_cntype h) (h_angle p) (h_bo h).
Proof.
  unfold hdr_ok, canon_header. rewrite rec_header. cbn [fst snd]. intro H. apply andb_prop in H as [_ H].
  unfold header_of_values in *. rewrite set_fields_form in *. cbn [bind] in *.
  unfold header_post in *.
  destruct (conv_len colname_lengths (h_conv (hdr_pre h))); [|discriminate]. cbn [bind] in *.
  destruct (unit_scale_of _); [|discriminate]. cbn [bind] in *.
  destruct (match h_bo (hdr_pre h) with Some z => _ | None => _ end); [|discriminate]. reflexivity.
Qed.

(** the integer options come back exactly *)
Corollary header_options_preserved h : hdr_ok h = true ->
  let h' := canon_header h in
  h_conv h' = h_conv h /\ h_atm h' = h_atm h /\ h_cntype h' = h_cntype h /\ h_bo h' = h_bo h /\
  (h_gdcx h' = None <-> h_gdcx h = None) /\ (h_gdcy h' = None <-> h_gdcy h = None).
Proof.
  intro H. rewrite (canon_header_form h H). cbn [h_conv h_atm h_cntype h_bo h_gdcx h_gdcy hdr_pre].
  repeat split; try (destruct (h_gdcx h); cbn; congruence); try (destruct (h_gdcy h); cbn; congruence).
Qed.

(** the unit type (and with it the scale factor) and the grid type come back exactly when
    they are among the values the code knows: finite check over the regenerated tables *)
Lemma units_fixed : forallb (fun kv => let u := s2l (fst kv) in
    str_eqb (let p := pad (fw (sp "header" 5)) u in if is_blank p then [] else p) u) unit_scales = true.
Proof. vm_compute. reflexivity. Qed.
Lemma strlookup_in {A} u (l : list (string * A)) v : strlookup u l = Some v -> exists k, In (k, v) l /\ u = s2l k.
Proof.
  induction l as [|[k' v'] l IH]; cbn [strlookup]; [discriminate|].
  destruct (str_eqb u (s2l k')) eqn:E.
  - intro H. injection H as H. subst v'. apply str_eqb_eq in E. exists k'. split; [left; reflexivity|exact E].
  - intro H. destruct (IH H) as [k [I Q]]. exists k. split; [right; exact I|exact Q].
Qed.
Theorem unit_type_preserved h sc : hdr_ok h = true -> unit_scale_of (h_unit h) = Ok sc ->
  h_unit (canon_header h) = h_unit h.
Proof.
  intros H U. rewrite (canon_header_form h H). cbn [h_unit hdr_pre].
  unfold unit_scale_of in U. destruct (strlookup (h_unit h) unit_scales) as [[m e]|] eqn:E; [|discriminate].
  apply strlookup_in in E as [k [I Q]].
  pose proof units_fixed as F. rewrite forallb_forall in F. specialize (F _ I). cbn [fst] in F. rewrite <- Q in F.
  apply str_eqb_eq in F. exact F.
Qed.
Lemma type_fixed : pad (fw (sp "header" 0)) (s2l supported_type) = s2l supported_type.
Proof. vm_compute. reflexivity. Qed.
Theorem grid_type_preserved h : hdr_ok h = true -> h_type h = s2l supported_type -> h_type (canon_header h) = h_type h.
Proof. intros H T. rewrite (canon_header_form h H). cbn [h_type hdr_pre]. rewrite T. apply type_fixed. Qed.

(** a well-formed geometry is re-read with the scale it was written with *)
Corollary wf_same_scale g : wf g = true ->
  unit_scale_of (h_unit (canon_header (g_hdr g))) = unit_scale_of (h_unit (g_hdr g)).
Proof.
  unfold wf_g, wf_rest. intro H. apply andb_prop in H as [Hh H].
  destruct (unit_scale_of (h_unit (g_hdr g))) as [sc|] eqn:U; [|discriminate].
  rewrite (unit_type_preserved _ _ Hh U). exact U.
Qed.
