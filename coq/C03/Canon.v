(** C03 -- what [canon] keeps: order, counts, optional parts; and, for names that are
    already right-justified to the convention's length, the names themselves. *)
From Coq Require Import Ascii String List Bool Arith ZArith NArith Lia.
From PTBase Require Import Exn PyStr PyNum PyVal Fmt FixedFormat.
From Gen Require Import GenTables GenMulgrid.
From P Require Import Flt Lines MulgridIO RoundTrip.
Import ListNotations.
Open Scope list_scope.

Definition is_some {A} (o : option A) : bool := match o with Some _ => true | None => false end.

Section CanonShape.
  Variable g : geo.
  Hypothesis T : str_eqb (h_type (canon_header (g_hdr g))) (s2l supported_type) = true.
  Let L := len_or_0 colname_lengths (h_conv (canon_header (g_hdr g))).
  Let LL := len_or_0 layername_lengths (h_conv (canon_header (g_hdr g))).

  (** same records in the same order; names re-justified; node lists, connections,
      specified-centre and non-default-surface flags, well track lengths unchanged *)
  Theorem canon_shape :
    map n_name (g_nodes (canon g)) = map (fun n => canon_name L (n_name n)) (g_nodes g) /\
    map c_name (g_cols (canon g)) = map (fun c => canon_name L (c_name c)) (g_cols g) /\
    map c_nodes (g_cols (canon g)) = map (fun c => map (canon_name L) (c_nodes c)) (g_cols g) /\
    map (fun c => is_some (c_centre c)) (g_cols (canon g)) = map (fun c => is_some (c_centre c)) (g_cols g) /\
    map (fun c => is_some (c_surf c)) (g_cols (canon g)) = map (fun c => is_some (c_surf c)) (g_cols g) /\
    g_cons (canon g) = map (canon_con L) (g_cons g) /\
    map l_name (g_lays (canon g)) = map (fun l => canon_name LL (l_name l)) (g_lays g) /\
    map w_name (g_wells (canon g)) = map (fun w => canon_wname (w_name w)) (g_wells g) /\
    map (fun w => length (w_pos w)) (g_wells (canon g)) = map (fun w => length (w_pos w)) (g_wells g).
  Proof.
    unfold canon. rewrite T. fold L LL. cbn [g_nodes g_cols g_cons g_lays g_wells]. rewrite !map_map.
    repeat split; try reflexivity.
    - apply map_ext. intro c. cbn [canon_column c_centre]. destruct (c_centre c); reflexivity.
    - apply map_ext. intro c. cbn [canon_column c_surf]. destruct (c_surf c); reflexivity.
    - apply canon_layers_names.
    - apply map_ext. intro w. cbn [canon_well w_pos]. apply map_length.
  Qed.

  (** right-justified names of the convention's length are kept as they are *)
  Definition names_canonical : bool :=
    forallb (fun n => str_eqb (canon_name L (n_name n)) (n_name n)) (g_nodes g) &&
    forallb (fun c => str_eqb (canon_name L (c_name c)) (c_name c) &&
                      forallb (fun nm => str_eqb (canon_name L nm) nm) (c_nodes c)) (g_cols g) &&
    forallb (fun c => str_eqb (canon_name L (fst c)) (fst c) && str_eqb (canon_name L (snd c)) (snd c)) (g_cons g) &&
    forallb (fun l => str_eqb (canon_name LL (l_name l)) (l_name l)) (g_lays g).
  Lemma map_id_on {A B} (f h : A -> B) l : (forall x, In x l -> f x = h x) -> map f l = map h l.
  Proof. intro H. apply map_ext_in. exact H. Qed.
  Theorem canon_keeps_names : names_canonical = true ->
    map n_name (g_nodes (canon g)) = map n_name (g_nodes g) /\
    map c_name (g_cols (canon g)) = map c_name (g_cols g) /\
    map c_nodes (g_cols (canon g)) = map c_nodes (g_cols g) /\
    g_cons (canon g) = g_cons g /\
    map l_name (g_lays (canon g)) = map l_name (g_lays g).
  Proof.
    intro H. unfold names_canonical in H. repeat (apply andb_prop in H; destruct H as [H ?]).
    destruct canon_shape as [S1 [S2 [S3 [_ [_ [S6 [S7 _]]]]]]]. rewrite S1, S2, S3, S6, S7.
    rewrite forallb_forall in H, H0, H1, H2. repeat split.
    - apply map_id_on. intros n I. apply str_eqb_eq. exact (H n I).
    - apply map_id_on. intros c I. specialize (H2 c I). apply andb_prop in H2 as [A _]. apply str_eqb_eq. exact A.
    - apply map_id_on. intros c I. specialize (H2 c I). apply andb_prop in H2 as [_ A].
      rewrite forallb_forall in A. rewrite <- (map_id (c_nodes c)) at 2. apply map_id_on. intros nm J. apply str_eqb_eq. exact (A nm J).
    - rewrite <- (map_id (g_cons g)) at 2. apply map_id_on. intros c I. specialize (H1 c I). apply andb_prop in H1 as [A B].
      apply str_eqb_eq in A. apply str_eqb_eq in B. unfold canon_con. rewrite A, B. destruct c; reflexivity.
    - apply map_id_on. intros l I. apply str_eqb_eq. exact (H0 l I).
  Qed.
End CanonShape.
