(** extraction of the MULgraph model: one case per line.
      W <geo>          model write          -> OK <hex bytes> | RAISE <exn>
      R <hex bytes>    model read           -> OK <geo> | RAISE <exn>
      F <geo>          hypotheses           -> wf=<0|1> nwf=<0|1> rt=<0|1> idemok=<0|1> nidem=<0|1> idem=<0|1> namesok=<0|1> names=<0|1> awf=<0|1> sephyp=<0|1> mag=<0|1>
                         wf / nwf / idemok / nidem (= aidem_ok) / namesok: the boolean hypotheses of the theorems (read-back, fits, field-level re-format, arithmetic, name lists)
                         rt:   read (write g) = Ok (canon g)  (evaluated, as the theorem says when wf=1)
                         idem: write (canon g) = write g      (evaluated, as the theorem says when wf=1 and idemok=1)
      N <geo>          derived name lists   -> OK <hex names ,>|<hex:hex pairs ,> | RAISE <exn>
      X <op> a b       double arithmetic    -> neg:m:e
    <geo> is a TAB-separated token stream (see [geo_of_tokens]); reals are neg:m:e. *)
From Coq Require Import Ascii String List Bool Arith ZArith NArith.
From PTBase Require Import Exn PyStr PyNum PyVal Fmt FixedFormat Wire.
From Gen Require Import GenTables GenMulgrid.
From P Require Import Flt Lines MulgridIO RoundTrip Header Idem Fields Natural NatIdem Canon NameLists HdrIdem HdrOk ErrBound Margin Feet2 Second.
Import ListNotations.

Definition colon : ascii := ":"%char.

(** [Wire.fields] reverses every token with the stdlib [rev] (quadratic once extracted); a file
    travels as ONE hex token of twice its size, so the driver splits and decodes with
    accumulator versions (plumbing only: no theorem mentions them) *)
Fixpoint fields_acc (cur : str) (acc : list str) (s : str) : list str :=
  match s with
  | [] => rev_append acc [rev_append cur []]
  | c :: r => if ceqb c tab then fields_acc [] (rev_append cur [] :: acc) r else fields_acc (c :: cur) acc r
  end.
Definition fields_tr (s : str) : list str := fields_acc [] [] s.
Fixpoint unhex_acc (acc : str) (s : str) : str :=
  match s with
  | a :: b :: r => unhex_acc (ascii_of_nat (16 * hexval a + hexval b) :: acc) r
  | _ => rev_append acc []
  end.
Definition unhex_tr (s : str) : str := unhex_acc [] s.
Fixpoint hex_acc (acc : str) (s : str) : str :=
  match s with
  | c :: r => let n := nat_of_ascii c in hex_acc (hexdigit (n mod 16) :: hexdigit (n / 16) :: acc) r
  | [] => rev_append acc []
  end.
Definition hex_tr (s : str) : str := hex_acc [] s.
Definition isN (s : str) : bool := str_eqb s (s2l "N").
Definition dy_of_tok (s : str) : dy :=
  match split_c colon s with
  | [a; b; c] => mkdy (str_eqb a (s2l "1")) (z_of_str b) (z_of_str c)
  | _ => mkdy false 0 0
  end.
Definition ody_of_tok (s : str) : option dy := if isN s then None else Some (dy_of_tok s).
Definition oz_of_tok (s : str) : option Z := if isN s then None else Some (z_of_str s).

Definition show_dy (a : dy) : str :=
  let b := dy_norm a in
  app (show_bool (dneg b)) (colon :: app (show_z (dm b)) (colon :: show_z (de b))).
Definition show_ody (o : option dy) : str := match o with Some a => show_dy a | None => s2l "N" end.
Definition show_oz (o : option Z) : str := match o with Some a => show_z a | None => s2l "N" end.

Fixpoint take_nodes (n : nat) (t : list str) : option (list node * list str) :=
  match n with
  | O => Some ([], t)
  | S k => match t with
           | a :: x :: y :: r => match take_nodes k r with
                                 | Some (l, r') => Some (mknode (unhex a) (dy_of_tok x) (dy_of_tok y) :: l, r')
                                 | None => None end
           | _ => None end
  end.
Fixpoint take_strs (n : nat) (t : list str) : option (list str * list str) :=
  match n with
  | O => Some ([], t)
  | S k => match t with
           | a :: r => match take_strs k r with Some (l, r') => Some (unhex a :: l, r') | None => None end
           | _ => None end
  end.
Fixpoint take_cols (n : nat) (t : list str) : option (list column * list str) :=
  match n with
  | O => Some ([], t)
  | S k => match t with
           | a :: cx :: cy :: sf :: nn :: r =>
               match take_strs (nat_of_str nn) r with
               | Some (ns, r1) =>
                   match take_cols k r1 with
                   | Some (l, r2) =>
                       Some (mkcol (unhex a) (if isN cx then None else Some (dy_of_tok cx, dy_of_tok cy)) ns (ody_of_tok sf) :: l, r2)
                   | None => None end
               | None => None end
           | _ => None end
  end.
Fixpoint take_cons (n : nat) (t : list str) : option (list (str * str) * list str) :=
  match n with
  | O => Some ([], t)
  | S k => match t with
           | a :: b :: r => match take_cons k r with Some (l, r') => Some ((unhex a, unhex b) :: l, r') | None => None end
           | _ => None end
  end.
Fixpoint take_lays (n : nat) (t : list str) : option (list layer * list str) :=
  match n with
  | O => Some ([], t)
  | S k => match t with
           | a :: b :: c :: r => match take_lays k r with
                                 | Some (l, r') => Some (mklay (unhex a) (dy_of_tok b) (dy_of_tok c) :: l, r')
                                 | None => None end
           | _ => None end
  end.
Fixpoint take_pts (n : nat) (t : list str) : option (list pt3 * list str) :=
  match n with
  | O => Some ([], t)
  | S k => match t with
           | x :: y :: z :: r => match take_pts k r with
                                 | Some (l, r') => Some ((dy_of_tok x, dy_of_tok y, dy_of_tok z) :: l, r')
                                 | None => None end
           | _ => None end
  end.
Fixpoint take_wells (n : nat) (t : list str) : option (list well * list str) :=
  match n with
  | O => Some ([], t)
  | S k => match t with
           | a :: np :: r =>
               match take_pts (nat_of_str np) r with
               | Some (ps, r1) => match take_wells k r1 with
                                  | Some (l, r2) => Some (mkwell (unhex a) ps :: l, r2)
                                  | None => None end
               | None => None end
           | _ => None end
  end.

Definition geo_of_tokens (t : list str) : option geo :=
  match t with
  | ty :: cv :: at_ :: vol :: con :: un :: gx :: gy :: cn :: ang :: bo :: nn :: r0 =>
      let h := mkhdr (unhex ty) (z_of_str cv) (z_of_str at_) (dy_of_tok vol) (dy_of_tok con) (unhex un)
                     (ody_of_tok gx) (ody_of_tok gy) (oz_of_tok cn) (dy_of_tok ang) (oz_of_tok bo) in
      match take_nodes (nat_of_str nn) r0 with
      | Some (ns, nc :: r1) =>
        match take_cols (nat_of_str nc) r1 with
        | Some (cs, nk :: r2) =>
          match take_cons (nat_of_str nk) r2 with
          | Some (ks, nl_ :: r3) =>
            match take_lays (nat_of_str nl_) r3 with
            | Some (ls, nw :: r4) =>
              match take_wells (nat_of_str nw) r4 with
              | Some (ws, _) => Some (mkgeo h ns cs ks ls ws)
              | None => None end
            | _ => None end
          | _ => None end
        | _ => None end
      | _ => None end
  | _ => None
  end.

Definition tb : str := [tab].
Fixpoint join_tab (l : list str) : str :=
  match l with [] => [] | [a] => a | a :: r => app a (tab :: join_tab r) end.
Definition show_geo (g : geo) : str :=
  let h := g_hdr g in
  join_tab (
    [hex (h_type h); show_z (h_conv h); show_z (h_atm h); show_dy (h_vol h); show_dy (h_con h); hex (h_unit h);
     show_ody (h_gdcx h); show_ody (h_gdcy h); show_oz (h_cntype h); show_dy (h_angle h); show_oz (h_bo h)] ++
    show_nat (length (g_nodes g)) :: flat_map (fun n => [hex (n_name n); show_dy (n_x n); show_dy (n_y n)]) (g_nodes g) ++
    show_nat (length (g_cols g)) ::
      flat_map (fun c => [hex (c_name c);
                          match c_centre c with Some xy => show_dy (fst xy) | None => s2l "N" end;
                          match c_centre c with Some xy => show_dy (snd xy) | None => s2l "N" end;
                          show_ody (c_surf c); show_nat (length (c_nodes c))] ++ map hex (c_nodes c)) (g_cols g) ++
    show_nat (length (g_cons g)) :: flat_map (fun c => [hex (fst c); hex (snd c)]) (g_cons g) ++
    show_nat (length (g_lays g)) :: flat_map (fun l => [hex (l_name l); show_dy (l_bottom l); show_dy (l_centre l)]) (g_lays g) ++
    show_nat (length (g_wells g)) ::
      flat_map (fun w => [hex (w_name w); show_nat (length (w_pos w))] ++
                         flat_map (fun p => [show_dy (fst (fst p)); show_dy (snd (fst p)); show_dy (snd p)]) (w_pos w)) (g_wells g))%list.

(** the two derived name lists: hex names joined by ',', pairs by ':', the lists by '|' *)
Definition comma : ascii := ","%char.
Fixpoint join_c (c : ascii) (l : list str) : str :=
  match l with [] => [] | [a] => a | a :: r => app a (c :: join_c c r) end.
Definition show_names (g : geo) : str :=
  match block_name_list (geom_of g), block_connection_name_list (geom_of g) with
  | Ok ns, Ok cs => app (s2l "OK ") (app (join_c comma (map hex ns))
                      ("|"%char :: join_c comma (map (fun p => app (hex (fst p)) (colon :: hex (snd p))) cs)))
  | Raise e, _ => app (s2l "RAISE ") (show_exn e)
  | _, Raise e => app (s2l "RAISE ") (show_exn e)
  end.

Definition res_eqb (a b : res str) : bool :=
  match a, b with
  | Ok x, Ok y => str_eqb x y
  | Raise x, Raise y => exn_eqb x y
  | _, _ => false
  end.

Definition run_case (line : str) : str :=
  match fields_tr line with
  | k :: args =>
      if str_eqb k (s2l "W") then
        match geo_of_tokens args with
        | None => s2l "BADCASE"
        | Some g => match write g with Ok b => app (s2l "OK ") (hex_tr b) | Raise e => app (s2l "RAISE ") (show_exn e) end
        end
      else if str_eqb k (s2l "R") then
        match args with
        | [h] => match read (unhex_tr h) with Ok g => app (s2l "OK ") (show_geo g) | Raise e => app (s2l "RAISE ") (show_exn e) end
        | _ => s2l "BADCASE"
        end
      else if str_eqb k (s2l "F") then
        match geo_of_tokens args with
        | None => s2l "BADCASE"
        | Some g =>
            let w := write g in
            let rt := match w with
                      | Ok b => match read b with Ok g' => str_eqb (show_geo g') (show_geo (canon g)) | Raise _ => false end
                      | Raise _ => false end in
            let idem := res_eqb (write (canon g)) w in
            let kv (k : string) (b : bool) : str := app (s2l k) (show_bool b) in
            join_c " "%char
              [kv "wf=" (wf g); kv "nwf=" (nwf g); kv "rt=" rt; kv "idemok=" (idem_ok g); kv "nidem=" (aidem_ok g); kv "idem=" idem;
               kv "namesok=" (hdr_ok (g_hdr g) && str_eqb (h_type (canon_header (g_hdr g))) (s2l supported_type) && names_canonical g && cmp_ok g);
               kv "names=" (str_eqb (show_names (canon g)) (show_names g));
               kv "awf=" (awf g); kv "sephyp=" (names_hyp g); kv "mag=" (coords_mag (scale_or_one (h_unit (g_hdr g))) g);
               kv "aarith=" (aidem_arith g); kv "cnz=" (centres_nonzero g); kv "cok=" (centres_ok g)]
        end
      else if str_eqb k (s2l "N") then
        match geo_of_tokens args with
        | None => s2l "BADCASE"
        | Some g => show_names g
        end
      else if str_eqb k (s2l "X") then
        match args with
        | [op; a; b] =>
            let x := dy_of_tok a in let y := dy_of_tok b in
            if str_eqb op (s2l "mul") then show_dy (dy_mul x y)
            else if str_eqb op (s2l "div") then show_dy (dy_div x y)
            else if str_eqb op (s2l "add") then show_dy (dy_add x y)
            else if str_eqb op (s2l "dec") then show_dy (dy_of_dec (dneg x) (Z.to_N (dm x)) (de x))   (* neg:mant:e10 *)
            else s2l "BADCASE"
        | _ => s2l "BADCASE"
        end
      else s2l "BADCASE"
  | _ => s2l "BADCASE"
  end.

Require Extraction.
Require Import ExtrOcamlBasic ExtrOcamlString.
Extraction "Drv.ml" run_case.
