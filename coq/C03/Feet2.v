(** C03 -- how close the re-read geometry is to the written one, in metres, for any unit scale
    (in particular FEET): every node coordinate, specified centre, non-default surface, layer
    bottom (2 decimals) and well track point (1 decimal) of [canon g] is within
    scale * 10^-p / 2 + 2^-22  of the original. *)
From Coq Require Import Ascii String List Bool Arith ZArith NArith Lia QArith Qabs Lqa.
From PTBase Require Import Exn PyStr PyNum PyVal Fmt FixedFormat.
From Gen Require Import GenTables GenMulgrid.
From P Require Import Flt Lines MulgridIO RoundTrip Header Fields Natural Canon Rounding RealIdem NatIdem ErrBound NameLists Margin Feet.
Import ListNotations.
Open Scope Q_scope.

Definition err (sc : dy) (f : fspec) : Q := Vq sc * (1#2) / inject_Z (pow10 (prec f)) + e22.
Definition close (sc : dy) (f : fspec) (x x' : dy) : Prop := Qabs (Qs x' - Qs x) <= err sc f.

Lemma rt_close f sc x : ft f = Tf -> (1 <= prec f)%Z -> scale_ok sc = true -> mag_ok sc x = true -> close sc f x (rt_num f sc sc x).
Proof.
  intros T P Hs Hm. destruct (rt_error f sc x T P Hs Hm) as [_ [G [B1 B2]]]. unfold close, err, Qs. rewrite G.
  apply Qabs_Qle_condition. destruct (dneg x); split; lra.
Qed.

Lemma Forall2_map_r {A B} (R : A -> B -> Prop) (f : A -> B) l : (forall x, In x l -> R x (f x)) -> Forall2 R l (map f l).
Proof. induction l as [|a r IH]; intro H; cbn [map]; constructor; [apply H; left; reflexivity|apply IH; intros x I; apply H; right; exact I]. Qed.

(** every coordinate below 2^27 file units *)
Definition coords_mag (sc : dy) (g : geo) : bool :=
  forallb (fun n => mag_ok sc (n_x n) && mag_ok sc (n_y n)) (g_nodes g) &&
  forallb (fun c => match c_centre c with Some xy => mag_ok sc (fst xy) && mag_ok sc (snd xy) | None => true end &&
                    match c_surf c with Some s => mag_ok sc s | None => true end) (g_cols g) &&
  forallb (fun l => mag_ok sc (l_bottom l)) (g_lays g) &&
  forallb (fun w => forallb (fun p => mag_ok sc (fst (fst p)) && mag_ok sc (snd (fst p)) && mag_ok sc (snd p)) (w_pos w)) (g_wells g).

Definition opt_close (sc : dy) (f : fspec) (o o' : option dy) : Prop :=
  match o, o' with Some x, Some x' => close sc f x x' | None, None => True | _, _ => False end.

Lemma real_field_facts :
  ft (sp "node" 1) = Tf /\ ft (sp "node" 2) = Tf /\ ft (sp "column" 3) = Tf /\ ft (sp "column" 4) = Tf /\ ft (sp "surface" 1) = Tf /\
  ft (sp "layer" 1) = Tf /\ ft (sp "well" 1) = Tf /\ ft (sp "well" 2) = Tf /\ ft (sp "well" 3) = Tf.
Proof. repeat split; reflexivity. Qed.

Theorem canon_coordinates_close g sc : hdr_ok (g_hdr g) = true -> unit_scale_of (h_unit (g_hdr g)) = Ok sc ->
  str_eqb (h_type (canon_header (g_hdr g))) (s2l supported_type) = true -> coords_mag sc g = true ->
  Forall2 (fun n n' => close sc (sp "node" 1) (n_x n) (n_x n') /\ close sc (sp "node" 2) (n_y n) (n_y n')) (g_nodes g) (g_nodes (canon g)) /\
  Forall2 (fun c c' => opt_close sc (sp "column" 3) (option_map fst (c_centre c)) (option_map fst (c_centre c')) /\
                       opt_close sc (sp "column" 4) (option_map snd (c_centre c)) (option_map snd (c_centre c')) /\
                       opt_close sc (sp "surface" 1) (c_surf c) (c_surf c')) (g_cols g) (g_cols (canon g)) /\
  Forall2 (fun l l' => close sc (sp "layer" 1) (l_bottom l) (l_bottom l')) (g_lays g) (g_lays (canon g)) /\
  Forall2 (fun w w' => Forall2 (fun p p' => close sc (sp "well" 1) (fst (fst p)) (fst (fst p')) /\ close sc (sp "well" 2) (snd (fst p)) (snd (fst p')) /\
                                            close sc (sp "well" 3) (snd p) (snd p')) (w_pos w) (w_pos w')) (g_wells g) (g_wells (canon g)).
Proof.
  intros Hh U T M. pose proof (unit_scale_ok _ _ U) as Hs.
  destruct real_field_facts as [F1 [F2 [F3 [F4 [F5 [F6 [F7 [F8 F9]]]]]]]].
  pose proof real_specs as RS. cbn [forallb] in RS. repeat (apply andb_prop in RS; destruct RS as [?R RS]). clear RS.
  assert (PP : forall f, real_spec_ok f = true -> (1 <= prec f)%Z) by (intros f H; destruct (real_spec_facts f H); lia).
  unfold coords_mag in M. apply andb_prop in M as [M M4]. apply andb_prop in M as [M M3]. apply andb_prop in M as [M1 M2].
  rewrite forallb_forall in M1, M2, M3, M4.
  unfold canon. rewrite T. unfold scale_or_one. rewrite (unit_type_preserved _ _ Hh U), U.
  set (L := len_or_0 colname_lengths _). set (LL := len_or_0 layername_lengths _). cbn [g_nodes g_cols g_lays g_wells].
  split; [|split; [|split]].
  - apply Forall2_map_r. intros n I. specialize (M1 n I). apply andb_prop in M1 as [A B]. cbn [canon_node n_x n_y].
    split; apply rt_close; auto.
  - apply Forall2_map_r. intros c I. specialize (M2 c I). apply andb_prop in M2 as [A B]. cbn [canon_column c_centre c_surf].
    destruct (c_centre c) as [[x y]|]; cbn [option_map fst snd opt_close] in *.
    + apply andb_prop in A as [A1 A2]. split; [apply rt_close; auto|]. split; [apply rt_close; auto|].
      destruct (c_surf c); cbn [opt_close]; [apply rt_close; auto|exact Logic.I].
    + split; [exact Logic.I|]. split; [exact Logic.I|]. destruct (c_surf c); cbn [opt_close]; [apply rt_close; auto|exact Logic.I].
  - generalize (@None dy). induction (g_lays g) as [|l r IH]; intro prev; [constructor|]. rewrite canon_layers_cons. constructor.
    + unfold canon_lay1. cbn [l_bottom]. apply rt_close; auto. apply M3. left. reflexivity.
    + apply IH. intros x Hx. apply M3. right. exact Hx.
  - apply Forall2_map_r. intros w I. specialize (M4 w I). rewrite forallb_forall in M4. cbn [canon_well w_pos].
    apply Forall2_map_r. intros p J. specialize (M4 p J). apply andb_prop in M4 as [A C]. apply andb_prop in A as [A B].
    unfold canon_pt. cbn [fst snd]. repeat split; apply rt_close; auto.
Qed.

(** the numbers for FEET: 2-decimal fields come back within 1.53 mm, well points (1 decimal) within 15.3 mm *)
Lemma feet_errors : err feet_scale (sp "node" 1) <= 1525 # 1000000 /\ err feet_scale (sp "well" 1) <= 1525 # 100000.
Proof. split; vm_compute; intro H; discriminate H. Qed.
