(** C03 -- the header line re-formats to itself, from arithmetic hypotheses: its %w.pe fields
    by [sci_trip], its %w.pf fields (no unit scale in the header) by the error bound of
    [dy_of_q]; integers and strings are re-written verbatim.  With it the second-write theorem
    no longer evaluates the header. *)
From Coq Require Import Ascii String List Bool Arith ZArith NArith Lia QArith Lqa.
From PTBase Require Import Exn PyStr PyNum PyVal Fmt FixedFormat.
From Gen Require Import GenTables GenMulgrid.
From P Require Import Flt Lines MulgridIO RoundTrip Header Fields Natural Idem Canon Rounding RealIdem NatIdem SciIdem HdrOk.
Import ListNotations.
Open Scope list_scope.

(** * a %w.pe field *)
Definition sciNK (p : Z) (x : dy) : Z * Z := sci p (fst (num_den (dm x) (de x))) (snd (num_den (dm x) (de x))).
Definition e_ok (f : fspec) (x : dy) : bool :=
  (0 <=? dm x)%Z && ((dm x =? 0)%Z || (-300 <=? snd (sciNK (prec f) x))%Z) &&
  (length (signed_text (dneg x) (fmt_e_body (prec f) (dm x) (de x))) <=? width f)%nat.
Definition rt_plain (f : fspec) (x : dy) : dy :=
  match as_dy (expected f (vreal x)) with Ok d => d | Raise _ => x end.

Lemma fmt_e_body_sci p m e m' e' : (0 < m)%Z -> (0 < m')%Z ->
  sci p (fst (num_den m e)) (snd (num_den m e)) = sci p (fst (num_den m' e')) (snd (num_den m' e')) ->
  fmt_e_body p m e = fmt_e_body p m' e'.
Proof.
  intros H H' E. unfold fmt_e_body.
  replace (m =? 0)%Z with false by (symmetry; apply Z.eqb_neq; lia). replace (m' =? 0)%Z with false by (symmetry; apply Z.eqb_neq; lia).
  destruct (num_den m e) as [n d], (num_den m' e') as [n' d']. cbn [fst snd] in E. rewrite E. reflexivity.
Qed.

Lemma e_field_idem f x : ft f = Te -> (0 <= prec f <= 14)%Z -> e_ok f x = true ->
  fmt_field f (vreal (rt_plain f x)) = fmt_field f (vreal x).
Proof.
  intros T Hp H. unfold e_ok in H. apply andb_prop in H as [H Fl]. apply andb_prop in H as [M0 K]. apply Z.leb_le in M0. apply Nat.leb_le in Fl.
  assert (FX : fmt_field f (vreal x) = Ok (pad (fw f) (signed_text (dneg x) (fmt_e_body (prec f) (dm x) (de x))))).
  { unfold fmt_field, vreal, fmt_raw. rewrite T. cbn [bind]. unfold fmt_e. fold (signed_text (dneg x) (fmt_e_body (prec f) (dm x) (de x))).
    rewrite (pad_exact _ _ Fl), Nat.leb_refl. reflexivity. }
  rewrite FX.
  assert (G : forall d, dneg d = dneg x -> fmt_e_body (prec f) (dm d) (de d) = fmt_e_body (prec f) (dm x) (de x) ->
              fmt_field f (vreal d) = Ok (pad (fw f) (signed_text (dneg x) (fmt_e_body (prec f) (dm x) (de x))))).
  { intros d Dg Db. unfold fmt_field, vreal, fmt_raw. rewrite T. cbn [bind]. unfold fmt_e. rewrite Dg, Db.
    fold (signed_text (dneg x) (fmt_e_body (prec f) (dm x) (de x))). rewrite (pad_exact _ _ Fl), Nat.leb_refl. reflexivity. }
  unfold rt_plain, expected, vreal. rewrite T. unfold dec_e.
  destruct (Z.eq_dec (dm x) 0) as [Z0|NZ].
  - assert (DZ : dy_of_dec (dneg x) 0 (- prec f) = mkdy (dneg x) 0 0) by (unfold dy_of_dec; destruct (0 <=? - prec f)%Z; reflexivity).
    replace (dm x =? 0)%Z with true by (rewrite Z0; reflexivity). cbn [as_dy]. rewrite DZ. fold (vreal (mkdy (dneg x) 0 0)).
    apply G; [reflexivity|]. cbn [dm de]. rewrite Z0. unfold fmt_e_body. reflexivity.
  - assert (Mp : (0 < dm x)%Z) by lia.
    replace (dm x =? 0)%Z with false in * by (symmetry; apply Z.eqb_neq; lia). cbn [orb] in K. apply Z.leb_le in K.
    destruct (sci_trip (prec f) x Hp Mp K) as [D0 [Dg Ds]].
    unfold sciNK in K.
    destruct (num_den (dm x) (de x)) as [n d] eqn:ND. cbn [fst snd] in *.
    destruct (sci (prec f) n d) as [N k] eqn:SC. cbn [fst snd as_dy] in *.
    match goal with |- fmt_field f (XReal (dneg ?D) (dm ?D) (de ?D)) = _ => fold (vreal D) end.
    apply G; [exact Dg|]. apply fmt_e_body_sci; [exact D0|exact Mp|]. rewrite Ds, ND. cbn [fst snd]. symmetry. exact SC.
Qed.

(** * a %w.pf field without scale *)
Lemma f_field_idem_plain f x : ft f = Tf -> (1 <= prec f <= 2)%Z -> (width f <= 10)%nat -> fits_field f (vreal x) = true ->
  fmt_field f (vreal (rt_plain f x)) = fmt_field f (vreal x).
Proof.
  intros T Hp Hw F. unfold fits_field, vreal in F. rewrite T in F. apply andb_prop in F as [F Fl]. apply andb_prop in F as [_ Fm].
  apply Z.leb_le in Fm. apply Nat.leb_le in Fl.
  assert (LB : (length (fmt_f_body (prec f) (dm x) (de x)) <= 10)%nat).
  { unfold signed_text in Fl. destruct (dneg x); cbn [length] in Fl; lia. }
  pose proof (body_bound (prec f) (dm x) (de x) ltac:(lia) Fm LB) as NB.
  set (N1 := rN (prec f) (dm x) (de x)) in *.
  assert (RT : rt_plain f x = dy_of_dec (dneg x) (Z.to_N N1) (- prec f)).
  { unfold rt_plain, expected, vreal. rewrite T. unfold dec_f, N1, rN. destruct (num_den (dm x) (de x)) as [n d]. reflexivity. }
  destruct (num_den_pos (dm x) (de x) Fm) as [Hn Hd].
  assert (T10 : (10 <= pow10 (prec f) <= 100)%Z).
  { unfold pow10. split; [change 10%Z with (10 ^ 1)%Z at 1|change 100%Z with (10 ^ 2)%Z]; apply Z.pow_le_mono_r; lia. }
  assert (N0 : (0 <= N1)%Z) by (apply rhe_nonneg; [apply Z.mul_nonneg_nonneg; lia|exact Hd]).
  set (d := dy_of_dec (dneg x) (Z.to_N N1) (- prec f)) in *.
  assert (Ed : d = dy_of_q (dneg x) N1 (pow10 (prec f))).
  { unfold d, dy_of_dec. replace (0 <=? - prec f)%Z with false by (symmetry; apply Z.leb_gt; lia).
    rewrite Z2N.id by exact N0. rewrite Z.opp_involutive. reflexivity. }
  destruct (dy_of_q_err (dneg x) N1 (pow10 (prec f)) 27 N0 ltac:(lia) ltac:(lia)) as [Dm [Dg [D1 D2]]].
  { change (2 ^ 27)%Z with 134217728%Z. lia. }
  rewrite <- Ed in Dm, Dg, D1, D2. rewrite half_ulp_27 in D1, D2.
  (* the digits of d *)
  assert (RN : rN (prec f) (dm d) (de d) = N1).
  { unfold rN. destruct (nd_pos d Dm) as [Qn Qd]. unfold dy_num_den in Qn, Qd.
    apply rhe_Q_unique; [apply Z.mul_nonneg_nonneg; lia|exact Qd|].
    unfold pow10. rewrite (qv_scale_num 10) by lia. fold (dy_num_den d). fold (Vnd (dy_num_den d)). fold (Vq d).
    pose proof (qv_mul_den N1 (pow10 (prec f)) ltac:(lia)) as EA. unfold pow10 in EA.
    rewrite <- (Bq_inj 10) by lia.
    assert (TB : 10 <= inject_Z (10 ^ prec f) <= 100).
    { destruct T10 as [Ta Tb]. unfold pow10 in Ta, Tb. rewrite Zle_Qle in Ta, Tb. split; assumption. }
    unfold pow10 in D1, D2. set (A := qv N1 (10 ^ prec f)) in *. set (TT := inject_Z (10 ^ prec f)) in *. set (W := Vq d) in *. set (M := inject_Z N1) in *.
    unfold u27 in *. split; nra. }
  rewrite RT.
  unfold fmt_field, vreal, fmt_raw. rewrite T. cbn [bind]. unfold fmt_f. rewrite Dg.
  rewrite (fmt_f_body_N (prec f) (dm d) (de d) (dm x) (de x) RN).
  fold (signed_text (dneg x) (fmt_f_body (prec f) (dm x) (de x))). rewrite (pad_exact _ _ Fl), Nat.leb_refl. reflexivity.
Qed.

(** * the header line *)
Definition hdr_fits (h : header) : bool :=
  e_ok (sp "header" 3) (h_vol h) && e_ok (sp "header" 4) (h_con h) &&
  match h_gdcx h with Some x => fits_field (sp "header" 6) (vreal x) | None => true end &&
  match h_gdcy h with Some x => fits_field (sp "header" 7) (vreal x) | None => true end &&
  fits_field (sp "header" 9) (vreal (h_angle h)).

Lemma hdr_e_prec : (0 <= prec (sp "header" 3) <= 14)%Z /\ (0 <= prec (sp "header" 4) <= 14)%Z.
Proof. repeat split; vm_compute; discriminate. Qed.
Lemma hdr_f_specs : real_spec_ok (sp "header" 6) = true /\ real_spec_ok (sp "header" 7) = true /\ real_spec_ok (sp "header" 9) = true.
Proof. repeat split; reflexivity. Qed.

Lemma canon_header_fields h : hdr_ok h = true ->
  let c := canon_header h in
  h_type c = pad (fw (sp "header" 0)) (h_type h) /\ h_vol c = rt_plain (sp "header" 3) (h_vol h) /\
  h_con c = rt_plain (sp "header" 4) (h_con h) /\ h_gdcx c = option_map (rt_plain (sp "header" 6)) (h_gdcx h) /\
  h_gdcy c = option_map (rt_plain (sp "header" 7)) (h_gdcy h) /\ h_angle c = rt_plain (sp "header" 9) (h_angle h).
Proof. intro H. cbv zeta. rewrite (canon_header_form h H). cbn [h_type h_vol h_con h_gdcx h_gdcy h_angle hdr_pre]. repeat split; reflexivity. Qed.

Theorem hdr_idem_arith h sc : hdr_ok h = true -> unit_scale_of (h_unit h) = Ok sc -> hdr_fits h = true -> hdr_idem h = true.
Proof.
  intros Hh U F. unfold hdr_fits in F.
  apply andb_prop in F as [F F9]. apply andb_prop in F as [F F7]. apply andb_prop in F as [F F6]. apply andb_prop in F as [F3 F4].
  destruct (canon_header_fields h Hh) as [C0 [C3 [C4 [C6 [C7 C9]]]]].
  destruct (header_options_preserved h Hh) as [O1 [O2 [O8 [O10 _]]]].
  pose proof (unit_type_preserved h sc Hh U) as C5.
  destruct hdr_e_prec as [P3 P4]. destruct hdr_f_specs as [S6 [S7 S9]].
  destruct (real_spec_facts _ S6) as [Q6 W6]. destruct (real_spec_facts _ S7) as [Q7 W7]. destruct (real_spec_facts _ S9) as [Q9 W9].
  unfold hdr_idem.
  assert (E : write_values hspecs (header_vals hnames (canon_header h)) = write_values hspecs (header_vals hnames h)); [|rewrite E; apply res_str_eqb_refl].
  unfold write_values. rewrite (same_fields_write hspecs (header_vals hnames h) (header_vals hnames (canon_header h))); [reflexivity|].
  rewrite !header_vals_form. cbv zeta in *. rewrite C0, C3, C4, C5, C6, C7, C9, O1, O2, O8, O10.
  unfold hspecs. cbn [seq map same_fields].
  rewrite (fmt_field_pad_name (sp "header" 0) _ eq_refl).
  rewrite (e_field_idem (sp "header" 3) (h_vol h) eq_refl P3 F3), (e_field_idem (sp "header" 4) (h_con h) eq_refl P4 F4).
  rewrite (f_field_idem_plain (sp "header" 9) (h_angle h) eq_refl Q9 W9 F9).
  rewrite !res_str_eqb_refl. cbn [andb].
  destruct (h_gdcx h) as [gx|]; destruct (h_gdcy h) as [gy|]; cbn [option_map voreal];
    rewrite ?(f_field_idem_plain (sp "header" 6) _ eq_refl Q6 W6 F6), ?(f_field_idem_plain (sp "header" 7) _ eq_refl Q7 W7 F7), ?res_str_eqb_refl; reflexivity.
Qed.

Corollary header_line_same h sc : hdr_ok h = true -> unit_scale_of (h_unit h) = Ok sc -> hdr_fits h = true ->
  write_values hspecs (header_vals hnames (canon_header h)) = write_values hspecs (header_vals hnames h).
Proof. intros A B C. apply res_str_eqb_eq. exact (hdr_idem_arith h sc A B C). Qed.

(** * the second write, from arithmetic hypotheses only (plus the read-back check of the header
    line that [nwf] carries, and the re-derived value of layer centres that print as zero) *)
Definition aidem_ok (g : geo) : bool :=
  awf g && str_eqb (h_type (canon_header (g_hdr g))) (s2l supported_type) && hdr_fits (g_hdr g) &&
  names_canonical g && centres_ok g.
Theorem aidem_nidem g : aidem_ok g = true -> nidem_ok g = true.
Proof.
  unfold aidem_ok, nidem_ok. intro H.
  apply andb_prop in H as [H X]. apply andb_prop in H as [H X0]. apply andb_prop in H as [H X1]. apply andb_prop in H as [H X2].
  apply awf_nwf in H. rewrite H, X2, X0, X. cbn [andb]. rewrite andb_true_r.
  pose proof H as W. unfold nwf, wf_g, wf_rest in W. apply andb_prop in W as [Hh W].
  destruct (unit_scale_of (h_unit (g_hdr g))) as [sc|] eqn:U; [|discriminate].
  rewrite (hdr_idem_arith _ sc Hh U X1). reflexivity.
Qed.
Theorem write_idem_arith g : aidem_ok g = true -> write (canon g) = write g.
Proof. intro H. apply write_idem. apply aidem_nidem. exact H. Qed.
