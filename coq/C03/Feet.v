(** C03 -- geometries in feet, and concrete instances of the hypotheses. *)
From Coq Require Import Ascii String List Bool Arith ZArith NArith Lia.
From PTBase Require Import Exn PyStr PyNum PyVal Fmt FixedFormat.
From Gen Require Import GenTables GenMulgrid.
From P Require Import Flt Lines MulgridIO RoundTrip Header Idem Fields Natural.
Import ListNotations.
Open Scope Z_scope.
Open Scope list_scope.

Definition feet : str := s2l "FEET ".
(** the double nearest 0.3048 *)
Definition feet_scale : dy := mkdy false 5490788665690109 (-54).
Lemma feet_scale_is_03048 : dy_norm (dy_of_dec false 3048 (-4)) = feet_scale.
Proof. vm_compute. reflexivity. Qed.
Lemma feet_scale_table : unit_scale_of feet = Ok feet_scale.
Proof. reflexivity. Qed.

(** For a geometry in feet: the file is the header line followed by the sections in which
    every coordinate is the (double) quotient by 0.3048 ([body_lines feet_scale]); it reads
    back as [canon g], whose unit type is again FEET and whose coordinates are the re-read
    decimals multiplied by the same 0.3048 (metres again). *)
Theorem feet_round_trip g b : wf g = true -> h_unit (g_hdr g) = feet ->
  str_eqb (h_type (canon_header (g_hdr g))) (s2l supported_type) = true -> write g = Ok b ->
  (exists hl, b = file_of_lines (hl :: body_lines feet_scale g)) /\
  read b = Ok (canon g) /\
  h_unit (g_hdr (canon g)) = feet /\
  scale_or_one (h_unit (g_hdr g)) = feet_scale /\ scale_or_one (h_unit (g_hdr (canon g))) = feet_scale.
Proof.
  intros W F T Wr. pose proof (read_write_roundtrip g b W Wr) as RT.
  assert (HC : g_hdr (canon g) = canon_header (g_hdr g)) by (unfold canon; destruct (str_eqb _ _); reflexivity).
  pose proof W as W'. unfold wf_g, wf_rest in W'. apply andb_prop in W' as [Hh W'].
  assert (U : unit_scale_of (h_unit (g_hdr g)) = Ok feet_scale) by (rewrite F; apply feet_scale_table).
  pose proof (unit_type_preserved _ _ Hh U) as UP.
  repeat split.
  - rewrite U, T in W'.
    destruct (conv_len colname_lengths _) as [L|] eqn:EL; [|discriminate].
    destruct (conv_len layername_lengths _) as [LL|] eqn:ELL; [|discriminate].
    destruct (unit_scale_of (h_unit (canon_header (g_hdr g)))) as [scr|] eqn:ER; [|discriminate].
    destruct (header_reads _ Hh) as [hs [hl [R [Wv [Lo Rd]]]]].
    unfold write in Wr. rewrite (write_lines_shape L LL feet_scale scr g W' hs hl U R Wv) in Wr.
    injection Wr as Wr. exists hl. symmetry. exact Wr.
  - exact RT.
  - rewrite HC, UP. exact F.
  - unfold scale_or_one. rewrite U. reflexivity.
  - rewrite HC, UP. unfold scale_or_one. rewrite U. reflexivity.
Qed.

(** ** a concrete geometry in feet meeting every hypothesis: one square column with a
    specified centre and a raised surface, three layers (one centred on 0.0), one well *)
Definition dz (z : Z) : dy := mkdy (z <? 0) (Z.abs z) 0.
Definition ex_hdr : header :=
  mkhdr (s2l "GENER") 0 2 (mkdy false 4656612873077393 31) (mkdy false 4722366482869645 (-72)) feet None None None
        (dy_of_dec false 4575 (-2)) (Some 0).
Definition ex_geo : geo :=
  mkgeo ex_hdr
    [mknode (s2l "  a") (dz 0) (dz 0); mknode (s2l "  b") (dy_of_dec false 3048 (-1)) (dz 0);
     mknode (s2l "  c") (dy_of_dec false 3048 (-1)) (dz 100); mknode (s2l "  d") (dz 0) (dz 100);
     mknode (s2l "  e") (dz 600) (dz 0); mknode (s2l "  f") (dz 600) (dz 100)]
    [mkcol (s2l "  a") (Some (dz 150, dz 50)) [s2l "  a"; s2l "  b"; s2l "  c"; s2l "  d"] (Some (dy_of_dec false 1234567 (-5)));
     mkcol (s2l "  b") None [s2l "  b"; s2l "  e"; s2l "  f"; s2l "  c"] None]
    [(s2l "  a", s2l "  b")]
    [mklay (s2l " 0") (dz 20) (dz 20); mklay (s2l " 1") (dz 10) (dz 15); mklay (s2l " 2") (dz (-10)) (dz 0);
     mklay (s2l " 3") (dz (-30)) (dz (-20))]
    [mkwell (s2l "w 1") [(dz 10, dz 10, dz 20); (dy_of_dec false 125 (-1), dz 10, dz (-25))]].
Example ex_geo_wf : wf ex_geo = true.
Proof. vm_compute. reflexivity. Qed.
Example ex_geo_nwf : nwf ex_geo = true.
Proof. vm_compute. reflexivity. Qed.
Example ex_geo_idem : idem_ok ex_geo = true.
Proof. vm_compute. reflexivity. Qed.
Example ex_geo_feet : h_unit (g_hdr ex_geo) = feet /\ str_eqb (h_type (canon_header (g_hdr ex_geo))) (s2l supported_type) = true.
Proof. split; vm_compute; reflexivity. Qed.
(** 304.8 m is written as 1000.00 (feet) and comes back as exactly 304.8 *)
Example ex_feet_value :
  match write ex_geo with
  | Ok b => slice 99 112 b = s2l "  b   1000.00"
  | Raise _ => False end /\
  match canon ex_geo with g' => map (fun n => dy_norm (n_x n)) (firstn 2 (g_nodes g')) = [mkdy false 0 0; dy_norm (dy_of_dec false 3048 (-1))] end.
Proof. split; vm_compute; reflexivity. Qed.

(** ** byte-for-byte second write: refuted at full strength by a layer whose centre prints
    as 0.00 -- [read_layers] takes a zero centre for "absent" ([if centre:]) and recomputes it
    as the mid-point of the PRINTED bottoms: 0.51 and -0.50 give 0.005000000000000004, which
    the second write prints as 0.01.  (Same geometry class as mulgrid().rectangular with
    layer boundaries 0.5051 and -0.5049; reproduced on the implementation by the oracle.) *)
Definition ex_centre_geo : geo :=
  mkgeo (mkhdr (s2l "GENER") 0 2 (mkdy false 4656612873077393 31) (mkdy false 4722366482869645 (-72)) [] None None None (dz 0) None)
    (g_nodes ex_geo) (g_cols ex_geo) (g_cons ex_geo)
    [mklay (s2l " 0") (dy_of_dec false 105051 (-4)) (dy_of_dec false 105051 (-4));
     mklay (s2l " 1") (dy_of_dec false 5051 (-4)) (dy_of_dec false 55051 (-4));
     mklay (s2l " 2") (dy_of_dec true 5049 (-4)) (dy_of_dec false 1 (-4));
     mklay (s2l " 3") (dy_of_dec true 305049 (-4)) (dy_of_dec true 155049 (-4))]
    [].
Lemma ex_centre_facts : wf ex_centre_geo = true /\ nwf ex_centre_geo = true /\ res_str_eqb (write (canon ex_centre_geo)) (write ex_centre_geo) = false.
Proof. split; [|split]; vm_compute; reflexivity. Qed.
Lemma res_str_eqb_neq a b : res_str_eqb a b = false -> a <> b.
Proof.
  intros H E. subst b. assert (R : res_str_eqb a a = true) by (destruct a as [s|e]; [apply str_eqb_refl|destruct e; reflexivity]).
  rewrite R in H. discriminate.
Qed.
Theorem write_idem_refuted : exists g, wf g = true /\ nwf g = true /\ write (canon g) <> write g.
Proof.
  exists ex_centre_geo. destruct ex_centre_facts as [A [B C]]. split; [exact A|]. split; [exact B|].
  exact (res_str_eqb_neq _ _ C).
Qed.
