(** C03 -- how far a coordinate moves in the round trip: written as x / scale with p decimals,
    re-read and multiplied by the scale, it comes back within  scale * 10^-p / 2 + 2^-22
    (four correctly rounded double operations, magnitudes below 2^27 file units). *)
From Coq Require Import List Bool Arith ZArith NArith Lia QArith Qabs Lqa.
From PTBase Require Import Exn PyStr PyNum PyVal Fmt FixedFormat.
From P Require Import Flt Lines MulgridIO Fields Rounding RealIdem.
Import ListNotations.
Open Scope Q_scope.

Definition e22 : Q := 1 # 4194304.      (* 2^-22 *)
(** |x| / scale < 2^27 *)
Definition mag_ok (s x : dy) : bool :=
  (0 <=? dm x)%Z && (fst (dy_num_den x) * snd (dy_num_den s) <? snd (dy_num_den x) * fst (dy_num_den s) * 2 ^ 27)%Z.

Section Err.
  Variable f : fspec.
  Variable s x : dy.
  Hypothesis Tf' : ft f = Tf.
  Hypothesis Hp : (1 <= prec f)%Z.
  Hypothesis Hs : scale_ok s = true.
  Hypothesis Hm : mag_ok s x = true.

  Lemma rt_error :
    (0 <= dm (rt_num f s s x))%Z /\ dneg (rt_num f s s x) = dneg x /\
    Vq x - (Vq s * (1#2) / inject_Z (pow10 (prec f)) + e22) <= Vq (rt_num f s s x) <= Vq x + (Vq s * (1#2) / inject_Z (pow10 (prec f)) + e22).
  Proof.
    destruct (scale_bounds s Hs) as [Sg [Sn [Sd [S1 S2]]]].
    unfold mag_ok in Hm. apply andb_prop in Hm as [X0 XM]. apply Z.leb_le in X0. apply Z.ltb_lt in XM.
    destruct (nd_pos x X0) as [Xn Xd].
    set (p := prec f) in *.
    assert (T10 : (10 <= pow10 p)%Z) by (unfold pow10; change 10%Z with (10 ^ 1)%Z at 1; apply Z.pow_le_mono_r; lia).
    (* q1 = x / s *)
    set (q1 := dy_div x s).
    assert (E1 : q1 = dy_of_q (dneg x) (fst (dy_num_den x) * snd (dy_num_den s)) (snd (dy_num_den x) * fst (dy_num_den s))).
    { unfold q1, dy_div. destruct (dy_num_den x) as [a b], (dy_num_den s) as [a' b']. cbn [fst snd]. rewrite Sg, xorb_false_r. reflexivity. }
    pose proof (qv_div (fst (dy_num_den x)) (snd (dy_num_den x)) (fst (dy_num_den s)) (snd (dy_num_den s)) Xd Sd Sn) as EC.
    fold (Vnd (dy_num_den x)) (Vnd (dy_num_den s)) in EC. fold (Vq x) (Vq s) in EC.
    set (C0 := qv (fst (dy_num_den x) * snd (dy_num_den s)) (snd (dy_num_den x) * fst (dy_num_den s))) in *.
    assert (C0B : 0 <= C0 /\ C0 < 134217728).
    { split; [apply qv_nonneg; nia|]. change 134217728 with (inject_Z (2 ^ 27)). unfold C0, qv.
      apply Qlt_shift_div_r; [apply inject_pos; nia|]. rewrite <- inject_Z_mult, <- Zlt_Qlt. lia. }
    destruct (dy_of_q_err (dneg x) (fst (dy_num_den x) * snd (dy_num_den s)) (snd (dy_num_den x) * fst (dy_num_den s)) 29
                ltac:(nia) ltac:(nia) ltac:(lia)) as [Qm [Qg [Q1 Q2]]].
    { assert (2 ^ 27 < 2 ^ 29)%Z by (apply Z.pow_lt_mono_r; lia). nia. }
    rewrite <- E1 in Qm, Qg, Q1, Q2. rewrite half_ulp_29 in Q1, Q2. fold C0 in Q1, Q2.
    (* N1 = the printed integer *)
    destruct (nd_pos q1 Qm) as [Q1n Q1d].
    set (N1 := rhe (fst (dy_num_den q1) * pow10 p) (snd (dy_num_den q1))).
    assert (N0 : (0 <= N1)%Z) by (apply rhe_nonneg; [apply Z.mul_nonneg_nonneg; lia|exact Q1d]).
    destruct (rhe_Q (fst (dy_num_den q1) * pow10 p) (snd (dy_num_den q1)) ltac:(nia) Q1d) as [R1 R2]. fold N1 in R1, R2.
    set (T := inject_Z (pow10 p)).
    assert (ER : qv (fst (dy_num_den q1) * pow10 p) (snd (dy_num_den q1)) == Vq q1 * T).
    { unfold Vq, Vnd, qv, T. rewrite inject_Z_mult. pose proof (inject_pos _ Q1d). field. lra. }
    rewrite ER in R1, R2.
    assert (TB : 10 <= T) by (unfold T; rewrite Zle_Qle in T10; exact T10).
    (* d = nearest double of N1 / 10^p *)
    assert (RT : rt_num f s s x = dy_mul (dy_of_dec (dneg q1) (Z.to_N N1) (- p)) s).
    { unfold rt_num. fold q1. unfold expected, vreal. rewrite Tf'. unfold dec_f, N1, dy_num_den. fold p.
      destruct (num_den (dm q1) (de q1)) as [n d]. reflexivity. }
    set (d := dy_of_dec (dneg q1) (Z.to_N N1) (- p)) in *.
    assert (Ed : d = dy_of_q (dneg q1) N1 (pow10 p)).
    { unfold d, dy_of_dec. replace (0 <=? - p)%Z with false by (symmetry; apply Z.leb_gt; lia).
      rewrite Z2N.id by exact N0. rewrite Z.opp_involutive. reflexivity. }
    set (A := qv N1 (pow10 p)) in *.
    assert (EA : A * T == inject_Z N1) by (apply qv_mul_den; lia).
    assert (U29 : u29 == 1 # 16777216) by reflexivity.
    set (W1 := Vq q1) in *. set (M := inject_Z N1) in *.
    assert (AB : 0 <= A /\ A < 134217730).
    { split; [apply qv_nonneg; lia|]. destruct (Qlt_le_dec A 134217730) as [L|L]; [exact L|]. exfalso. unfold u29 in *. nra. }
    destruct (dy_of_q_err (dneg q1) N1 (pow10 p) 29 N0 ltac:(lia) ltac:(lia)) as [Dm [Dg [D1 D2]]].
    { rewrite (Z.mul_comm _ (2 ^ 29)). apply (qv_lt_c N1 (pow10 p) (2 ^ 29)); [lia|]. fold A. change (inject_Z (2 ^ 29)) with 536870912. lra. }
    rewrite <- Ed in Dm, Dg, D1, D2. rewrite half_ulp_29 in D1, D2. fold A in D1, D2.
    (* x' = d * s *)
    destruct (nd_pos d Dm) as [Dn Dd].
    assert (Ex : dy_mul d s = dy_of_q (dneg x) (fst (dy_num_den d) * fst (dy_num_den s)) (snd (dy_num_den d) * snd (dy_num_den s))).
    { unfold dy_mul. destruct (dy_num_den d) as [a b], (dy_num_den s) as [a' b']. cbn [fst snd]. rewrite Dg, Qg, Sg, xorb_false_r. reflexivity. }
    pose proof (qv_mul (fst (dy_num_den d)) (snd (dy_num_den d)) (fst (dy_num_den s)) (snd (dy_num_den s)) Dd Sd) as EM.
    fold (Vnd (dy_num_den d)) (Vnd (dy_num_den s)) in EM. fold (Vq d) (Vq s) in EM.
    set (D := Vq d) in *. set (S := Vq s) in *.
    destruct (dy_of_q_err (dneg x) (fst (dy_num_den d) * fst (dy_num_den s)) (snd (dy_num_den d) * snd (dy_num_den s)) 29
                ltac:(nia) ltac:(nia) ltac:(lia)) as [Xm [Xg [X1 X2]]].
    { rewrite (Z.mul_comm _ (2 ^ 29)). apply qv_lt_c; [nia|]. apply (Qeq_lt_l _ _ _ EM). change (inject_Z (2 ^ 29)) with 536870912. unfold u29 in *. nra. }
    rewrite <- Ex, <- RT in Xm, Xg, X1, X2. rewrite half_ulp_29, EM in X1, X2.
    split; [exact Xm|]. split; [exact Xg|].
    (* the bound *)
    set (X := Vq x) in *. set (Y := Vq (rt_num f s s x)) in *.
    assert (HT : 0 < / T) by (apply Qinv_lt_0_compat; lra).
    assert (IT : / T * T == 1) by (field; lra).
    assert (B : S * (1#2) / T == S * (1#2) * / T) by reflexivity. rewrite B.
    (* |A - W1| <= (1/2)/T ; |D - A| <= u ; |W1 - C0| <= u ; C0 S = X ; |Y - D S| <= u *)
    assert (AW1 : A - W1 <= (1#2) * / T /\ W1 - A <= (1#2) * / T).
    { assert (Z1 : (A - W1) * T == M - W1 * T) by (rewrite <- EA; ring).
      set (iT := / T) in *. split.
      - assert ((A - W1) * T <= 1#2) by (rewrite Z1; lra). set (w := A - W1) in *. nra.
      - assert ((W1 - A) * T <= 1#2) by (assert (Z2 : (W1 - A) * T == W1 * T - M) by (rewrite <- EA; ring); rewrite Z2; lra). set (w := W1 - A) in *. nra. }
    destruct AW1 as [AW1 AW2]. set (iT := / T) in *. unfold u29, e22 in *.
    assert (DC : D - C0 <= (1#2) * iT + (2 # 16777216) /\ C0 - D <= (1#2) * iT + (2 # 16777216)) by (split; lra).
    destruct DC as [DC1 DC2].
    assert (DS : D * S - X <= ((1#2) * iT + (2 # 16777216)) * S /\ X - D * S <= ((1#2) * iT + (2 # 16777216)) * S).
    { rewrite <- EC. split.
      - assert (Z3 : D * S - C0 * S == (D - C0) * S) by ring. rewrite Z3. apply Qmult_le_compat_r; lra.
      - assert (Z3 : C0 * S - D * S == (C0 - D) * S) by ring. rewrite Z3. apply Qmult_le_compat_r; lra. }
    destruct DS as [DS1 DS2]. split; nra.
  Qed.
End Err.
