(** C03 -- hand model (H) of mulgrid.write / mulgrid.read (mulgrids.py), statement by
    statement, over the model of fixed_format_file (PTBase.FixedFormat) instantiated with
    the regenerated table rows of [mulgrid_format] and the regenerated literal data of
    Gen.GenMulgrid (dispatch dictionary, section titles, name lengths, unit scales,
    block orders, constructor defaults).  Numbers are exact doubles (P.Flt). *)
From Coq Require Import Ascii String List Bool Arith ZArith NArith Lia.
From PTBase Require Import Exn PyStr PyNum PyVal Fmt FixedFormat.
From Gen Require Import GenTables GenMulgrid.
From P Require Import Flt Lines.
Import ListNotations.
Open Scope Z_scope.

(** ** the abstract geometry *)
Record header := mkhdr {
  h_type : str;              (* self.type *)
  h_conv : Z;                (* self._convention *)
  h_atm : Z;                 (* self._atmosphere_type *)
  h_vol : dy;                (* self.atmosphere_volume *)
  h_con : dy;                (* self.atmosphere_connection *)
  h_unit : str;              (* self._unit_type *)
  h_gdcx : option dy;
  h_gdcy : option dy;
  h_cntype : option Z;
  h_angle : dy;              (* self.permeability_angle *)
  h_bo : option Z }.         (* self._block_order_int *)
Record node := mknode { n_name : str; n_x : dy; n_y : dy }.
(** [c_centre = Some _] iff centre_specified; [c_surf = Some _] iff not default_surface *)
Record column := mkcol { c_name : str; c_centre : option (dy * dy); c_nodes : list str; c_surf : option dy }.
Record layer := mklay { l_name : str; l_bottom : dy; l_centre : dy }.
Definition pt3 := (dy * dy * dy)%type.
Record well := mkwell { w_name : str; w_pos : list pt3 }.
Record geo := mkgeo {
  g_hdr : header; g_nodes : list node; g_cols : list column; g_cons : list (str * str);
  g_lays : list layer; g_wells : list well }.

Definition with_nodes (x : list node) (g : geo) := mkgeo (g_hdr g) x (g_cols g) (g_cons g) (g_lays g) (g_wells g).
Definition with_cols (x : list column) (g : geo) := mkgeo (g_hdr g) (g_nodes g) x (g_cons g) (g_lays g) (g_wells g).
Definition with_cons (x : list (str * str)) (g : geo) := mkgeo (g_hdr g) (g_nodes g) (g_cols g) x (g_lays g) (g_wells g).
Definition with_lays (x : list layer) (g : geo) := mkgeo (g_hdr g) (g_nodes g) (g_cols g) (g_cons g) x (g_wells g).
Definition with_wells (x : list well) (g : geo) := mkgeo (g_hdr g) (g_nodes g) (g_cols g) (g_cons g) (g_lays g) x.
Definition empty_geo (h : header) : geo := mkgeo h [] [] [] [] [].

(** ** table access *)
Fixpoint slookup {A} (k : string) (l : list (string * A)) : option A :=
  match l with [] => None | (k', v) :: r => if String.eqb k k' then Some v else slookup k r end.
Fixpoint strlookup {A} (k : str) (l : list (string * A)) : option A :=
  match l with [] => None | (k', v) :: r => if str_eqb k (s2l k') then Some v else strlookup k r end.
Fixpoint zlookup {A} (k : Z) (l : list (Z * A)) : option A :=
  match l with [] => None | (k', v) :: r => if k =? k' then Some v else zlookup k r end.

Definition rec_of (r : string) : res (list string * list fspec) :=
  match slookup r mulgrid_format with Some x => Ok x | None => Raise KeyError end.
Definition specs_of (r : string) : res (list fspec) := do x <- rec_of r; Ok (snd x).

(** [self.unit_scale = {'': 1.0, 'FEET ': 0.3048}[unit_type]] *)
Definition unit_scale_of (u : str) : res dy :=
  match strlookup u unit_scales with Some (m, e) => Ok (mkdy false m e) | None => Raise KeyError end.
(** [[3, 2, 3, 3][self.convention]] *)
Definition conv_len (tbl : list Z) (c : Z) : res nat :=
  match pyindex c tbl with Some z => Ok (Z.to_nat z) | None => Raise IndexError end.

(** ** values handed to the writer *)
Definition vreal (x : dy) : value := XReal (dneg x) (dm x) (de x).
Definition voreal (o : option dy) : value := match o with Some x => vreal x | None => XNone end.
Definition voint (o : option Z) : value := match o with Some z => XInt z | None => XNone end.
Definition name_field (s : str) : value := XStr (ljust name_ljust s).

(** the entries of [self.__dict__] the header line is written from and read into *)
Definition hdict (h : header) : list (string * value) :=
  [ ("type"%string, XStr (h_type h)); ("_convention"%string, XInt (h_conv h)); ("_atmosphere_type"%string, XInt (h_atm h));
    ("atmosphere_volume"%string, vreal (h_vol h)); ("atmosphere_connection"%string, vreal (h_con h));
    ("_unit_type"%string, XStr (h_unit h)); ("gdcx"%string, voreal (h_gdcx h)); ("gdcy"%string, voreal (h_gdcy h));
    ("cntype"%string, voint (h_cntype h)); ("permeability_angle"%string, vreal (h_angle h));
    ("_block_order_int"%string, voint (h_bo h)) ].
(** [write_value_line]: [val = variable[name] if name in variable else None] *)
Definition header_vals (names : list string) (h : header) : list value :=
  map (fun n => match slookup n (hdict h) with Some v => v | None => XNone end) names.

Definition node_vals (sc : dy) (n : node) : list value :=
  [name_field (n_name n); vreal (dy_div (n_x n) sc); vreal (dy_div (n_y n) sc)].
Definition column_vals (sc : dy) (c : column) : list value :=
  [name_field (c_name c); XInt (match c_centre c with Some _ => 1 | None => 0 end); XInt (Z.of_nat (length (c_nodes c)));
   match c_centre c with Some xy => vreal (dy_div (fst xy) sc) | None => XNone end;
   match c_centre c with Some xy => vreal (dy_div (snd xy) sc) | None => XNone end].
Definition colnode_vals (nm : str) : list value := [name_field nm].
Definition con_vals (c : str * str) : list value := [name_field (fst c); name_field (snd c)].
Definition layer_vals (sc : dy) (l : layer) : list value :=
  [name_field (l_name l); vreal (dy_div (l_bottom l) sc); vreal (dy_div (l_centre l) sc)].
Definition surf_vals (sc : dy) (nm : str) (s : dy) : list value := [name_field nm; vreal (dy_div s sc)].
Definition well_vals (sc : dy) (nm : str) (p : pt3) : list value :=
  [XStr nm; vreal (dy_div (fst (fst p)) sc); vreal (dy_div (snd (fst p)) sc); vreal (dy_div (snd p) sc)].

(** ** write *)
Definition wrec (r : string) (vals : list value) : res str := do specs <- specs_of r; write_values specs vals.
Definition title (meth : string) : res str :=
  match slookup meth section_titles with Some t => Ok (s2l t) | None => Raise KeyError end.
(** a section: title line, record lines, blank line *)
Definition section (meth : string) (body : res (list str)) : res (list str) :=
  do t <- title meth; do b <- body; Ok (t :: b ++ [[]])%list.

Definition column_lines (sc : dy) (c : column) : res (list str) :=
  do l <- wrec "column" (column_vals sc c);
  do ns <- mapM (fun nm => wrec "column_node" (colnode_vals nm)) (c_nodes c);
  Ok (l :: ns).
Definition surf_cols (cs : list column) : list (str * dy) :=
  flat_map (fun c => match c_surf c with Some s => [(c_name c, s)] | None => [] end) cs.
Definition well_points (ws : list well) : list (str * pt3) :=
  flat_map (fun w => map (fun p => (w_name w, p)) (w_pos w)) ws.

Definition write_lines (g : geo) : res (list str) :=
  let h := g_hdr g in
  do sc <- unit_scale_of (h_unit h);
  do hs <- rec_of "header";
  do hl <- write_values (snd hs) (header_vals (fst hs) h);
  do s1 <- section "write_nodes" (mapM (fun n => wrec "node" (node_vals sc n)) (g_nodes g));
  do s2 <- section "write_columns" (do ll <- mapM (column_lines sc) (g_cols g); Ok (concat ll));
  do s3 <- section "write_connections" (mapM (fun c => wrec "connection" (con_vals c)) (g_cons g));
  do s4 <- section "write_layers" (mapM (fun l => wrec "layer" (layer_vals sc l)) (g_lays g));
  do s5 <- match surf_cols (g_cols g) with          (* if not self.default_surface *)
           | [] => Ok []
           | sf => section "write_surface" (mapM (fun ns => wrec "surface" (surf_vals sc (fst ns) (snd ns))) sf) end;
  do s6 <- match g_wells g with                      (* if self.num_wells > 0 *)
           | [] => Ok []
           | ws => section "write_wells" (mapM (fun np => wrec "well" (well_vals sc (fst np) (snd np))) (well_points ws)) end;
  Ok (hl :: s1 ++ s2 ++ s3 ++ s4 ++ s5 ++ s6 ++ [[]])%list.
(** the bytes of the file: every [geo.write] ends its text with a newline *)
Definition write (g : geo) : res str := do ls <- write_lines g; Ok (file_of_lines ls).

(** ** read: parsed values *)
Definition as_str (v : rvalue) : res str :=
  match v with RStr s => Ok s | RNone => Raise AttributeError | _ => Raise AttributeError end.
Definition as_int (v : rvalue) : res Z := match v with RInt z => Ok z | _ => Raise TypeError end.
(** a number entering float arithmetic; [None * scale] is a TypeError; inf/nan are outside the model *)
Definition as_dy (v : rvalue) : res dy :=
  match v with
  | RFloat (Fin ng m e) => Ok (dy_of_dec ng m e)
  | RFloat _ => Raise OverflowError
  | RInt z => Ok (mkdy (z <? 0) (Z.abs z) 0)
  | RStr _ => Raise TypeError
  | RNone => Raise TypeError
  end.
Definition rv_truthy (v : rvalue) : bool :=
  match v with
  | RNone => false | RInt z => negb (z =? 0) | RStr s => match s with [] => false | _ => true end
  | RFloat (Fin _ m _) => negb (m =? 0)%N | RFloat _ => true
  end.
(** [range(n)] *)
Definition as_count (v : rvalue) : res nat := match v with RInt z => Ok (Z.to_nat z) | _ => Raise TypeError end.

(** [name.strip().rjust(length)] *)
Definition canon_name (L : nat) (s : str) : str := rjust L (strip s).

(** ** read: header *)
Definition default_header : header :=
  mkhdr (s2l ctor_type) ctor_convention ctor_atmos_type
        (mkdy false (fst ctor_atmos_volume) (snd ctor_atmos_volume))
        (mkdy false (fst ctor_atmos_connection) (snd ctor_atmos_connection))
        (s2l ctor_unit_type) None None None
        (mkdy false (fst ctor_permeability_angle) (snd ctor_permeability_angle)) None.

(** [read_value_line]: [if val is not None: variable[var] = val] *)
Definition set_hfield (k : string) (v : rvalue) (h : header) : res header :=
  match v with
  | RNone => Ok h
  | _ =>
    if String.eqb k "type" then do s <- as_str v; Ok (mkhdr s (h_conv h) (h_atm h) (h_vol h) (h_con h) (h_unit h) (h_gdcx h) (h_gdcy h) (h_cntype h) (h_angle h) (h_bo h))
    else if String.eqb k "_convention" then do z <- as_int v; Ok (mkhdr (h_type h) z (h_atm h) (h_vol h) (h_con h) (h_unit h) (h_gdcx h) (h_gdcy h) (h_cntype h) (h_angle h) (h_bo h))
    else if String.eqb k "_atmosphere_type" then do z <- as_int v; Ok (mkhdr (h_type h) (h_conv h) z (h_vol h) (h_con h) (h_unit h) (h_gdcx h) (h_gdcy h) (h_cntype h) (h_angle h) (h_bo h))
    else if String.eqb k "atmosphere_volume" then do x <- as_dy v; Ok (mkhdr (h_type h) (h_conv h) (h_atm h) x (h_con h) (h_unit h) (h_gdcx h) (h_gdcy h) (h_cntype h) (h_angle h) (h_bo h))
    else if String.eqb k "atmosphere_connection" then do x <- as_dy v; Ok (mkhdr (h_type h) (h_conv h) (h_atm h) (h_vol h) x (h_unit h) (h_gdcx h) (h_gdcy h) (h_cntype h) (h_angle h) (h_bo h))
    else if String.eqb k "_unit_type" then do s <- as_str v; Ok (mkhdr (h_type h) (h_conv h) (h_atm h) (h_vol h) (h_con h) s (h_gdcx h) (h_gdcy h) (h_cntype h) (h_angle h) (h_bo h))
    else if String.eqb k "gdcx" then do x <- as_dy v; Ok (mkhdr (h_type h) (h_conv h) (h_atm h) (h_vol h) (h_con h) (h_unit h) (Some x) (h_gdcy h) (h_cntype h) (h_angle h) (h_bo h))
    else if String.eqb k "gdcy" then do x <- as_dy v; Ok (mkhdr (h_type h) (h_conv h) (h_atm h) (h_vol h) (h_con h) (h_unit h) (h_gdcx h) (Some x) (h_cntype h) (h_angle h) (h_bo h))
    else if String.eqb k "cntype" then do z <- as_int v; Ok (mkhdr (h_type h) (h_conv h) (h_atm h) (h_vol h) (h_con h) (h_unit h) (h_gdcx h) (h_gdcy h) (Some z) (h_angle h) (h_bo h))
    else if String.eqb k "permeability_angle" then do x <- as_dy v; Ok (mkhdr (h_type h) (h_conv h) (h_atm h) (h_vol h) (h_con h) (h_unit h) (h_gdcx h) (h_gdcy h) (h_cntype h) x (h_bo h))
    else if String.eqb k "_block_order_int" then do z <- as_int v; Ok (mkhdr (h_type h) (h_conv h) (h_atm h) (h_vol h) (h_con h) (h_unit h) (h_gdcx h) (h_gdcy h) (h_cntype h) (h_angle h) (Some z))
    else Ok h      (* a key nothing reads (the translator refuses such a table) *)
  end.
Fixpoint set_hfields (nvs : list (string * rvalue)) (h : header) : res header :=
  match nvs with [] => Ok h | (k, v) :: r => do h' <- set_hfield k v h; set_hfields r h' end.
(** the rest of [read_header]: [self.convention = ...] (set_secondary_variables indexes the
    name-length lists), [self.unit_type = self._unit_type if self._unit_type.strip() else '']
    (set_unit_type indexes the scale dictionary), the block-order test *)
Definition header_post (h : header) : res header :=
  do _ <- conv_len colname_lengths (h_conv h);
  let u := if is_blank (h_unit h) then [] else h_unit h in
  do _ <- unit_scale_of u;
  do _ <- match h_bo h with
          | None => Ok tt
          | Some z => match zlookup z block_orders with Some _ => Ok tt | None => Raise PlainException end
          end;
  Ok (mkhdr (h_type h) (h_conv h) (h_atm h) (h_vol h) (h_con h) u (h_gdcx h) (h_gdcy h) (h_cntype h) (h_angle h) (h_bo h)).
Definition header_of_values (names : list string) (vals : list rvalue) : res header :=
  do h <- set_hfields (combine names vals) default_header; header_post h.
Definition read_header (line : str) : res header :=
  do hs <- rec_of "header";
  header_of_values (fst hs) (parse_string default_rf (snd hs) line).

(** ** read: the geometry being built *)
Definition node_mem (nm : str) (ns : list node) : bool := existsb (fun n => str_eqb (n_name n) nm) ns.
Definition col_mem (nm : str) (cs : list column) : bool := existsb (fun c => str_eqb (c_name c) nm) cs.
Definition lay_mem (nm : str) (ls : list layer) : bool := existsb (fun l => str_eqb (l_name l) nm) ls.
Definition con_mem (c : str * str) (cs : list (str * str)) : bool :=
  existsb (fun d => str_eqb (fst d) (fst c) && str_eqb (snd d) (snd c)) cs.
(** add_node / add_column / add_connection / add_layer: a duplicate name is ignored *)
Definition add_node (n : node) (g : geo) : geo :=
  if node_mem (n_name n) (g_nodes g) then g else with_nodes (g_nodes g ++ [n]) g.
Definition add_column (c : column) (g : geo) : geo :=
  if col_mem (c_name c) (g_cols g) then g else with_cols (g_cols g ++ [c]) g.
Definition add_con (c : str * str) (g : geo) : geo :=
  if con_mem c (g_cons g) then g else with_cons (g_cons g ++ [c]) g.

(** column.__init__: [self.get_area(); if self.area < 0.: self.node.reverse()] with
    geometry.polygon_area in doubles, operation by operation:
      polygon = array(positions) - positions[0]          (one rounded subtraction per coordinate)
      area = 0.0;  for j: area += p1[0] * p2[1] - p2[0] * p1[1]   (two products, a difference, a sum: four roundings)
      return 0.5 * area
    and the test [area < 0.] (a negative zero is not < 0) *)
Definition dy_opp (a : dy) : dy := mkdy (negb (dneg a)) (dm a) (de a).
Definition dy_sub (a b : dy) : dy := dy_add a (dy_opp b).
Definition dy_zero : dy := mkdy false 0 0.
Definition node_pos (ns : list node) (nm : str) : dy * dy :=
  match find (fun n => str_eqb (n_name n) nm) ns with
  | Some n => (n_x n, n_y n)
  | None => (dy_zero, dy_zero)
  end.
Fixpoint area_sum (first : dy * dy) (pts : list (dy * dy)) (area : dy) : dy :=
  match pts with
  | [] => area
  | p :: r => let q := match r with [] => first | q :: _ => q end in
              area_sum first r (dy_add area (dy_sub (dy_mul (fst p) (snd q)) (dy_mul (fst q) (snd p))))
  end.
Definition area_neg (pts : list (dy * dy)) : bool :=
  match pts with
  | [] => false
  | p0 :: _ =>
      let sh := map (fun p => (dy_sub (fst p) (fst p0), dy_sub (snd p) (snd p0))) pts in
      let a := dy_mul dy_half (area_sum (dy_sub (fst p0) (fst p0), dy_sub (snd p0) (snd p0)) sh dy_zero) in
      dneg a && negb (dm a =? 0)
  end.
Definition orient (ns : list node) (names : list str) : list str :=
  if area_neg (map (node_pos ns) names) then rev names else names.

Definition hd_line (ls : list str) : str := match ls with [] => [] | l :: _ => l end.
Definition tl_lines (ls : list str) : list str := match ls with [] => [] | _ :: r => r end.

Section Readers.
  Variable L LL : nat.          (* colname_length, layername_length *)
  Variable sc : dy.             (* unit_scale *)

  Definition rd_node (line : str) (rest : list str) (g : geo) : res (geo * list str) :=
    do specs <- specs_of "node";
    match parse_string default_rf specs line with
    | [name; x; y] =>
        do nm <- as_str name; do x' <- as_dy x; do y' <- as_dy y;
        Ok (add_node (mknode (canon_name L nm) (dy_mul x' sc) (dy_mul y' sc)) g, rest)
    | _ => Raise ValueError
    end.

  (** [for each in range(nnodes): [nodename] = geo.read_values('column_node'); self.node[nodename]] *)
  Fixpoint rd_colnodes (specs : list fspec) (n : nat) (rest : list str) (g : geo) : res (list str * list str) :=
    match n with
    | O => Ok ([], rest)
    | S k =>
        match parse_string default_rf specs (hd_line rest) with
        | [nodename] =>
            do nm <- as_str nodename;
            let nm' := canon_name L nm in
            if node_mem nm' (g_nodes g) then
              do r <- rd_colnodes specs k (tl_lines rest) g; Ok (nm' :: fst r, snd r)
            else Raise KeyError
        | _ => Raise ValueError
        end
    end.

  Definition rd_column (line : str) (rest : list str) (g : geo) : res (geo * list str) :=
    do specs <- specs_of "column";
    match parse_string default_rf specs line with
    | [colname; cs; nn; cx; cy] =>
        do nm <- as_str colname;
        do centre <- (if rv_truthy cs then do x <- as_dy cx; do y <- as_dy cy; Ok (Some (dy_mul x sc, dy_mul y sc))
                      else Ok None);
        do n <- as_count nn;
        do nspecs <- specs_of "column_node";
        do nr <- rd_colnodes nspecs n rest g;
        Ok (add_column (mkcol (canon_name L nm) centre (orient (g_nodes g) (fst nr)) None) g, snd nr)
    | _ => Raise ValueError
    end.

  Definition rd_connection (line : str) (rest : list str) (g : geo) : res (geo * list str) :=
    do specs <- specs_of "connection";
    match parse_string default_rf specs line with
    | [a; b] =>
        do na <- as_str a; do nb <- as_str b;
        let ca := canon_name L na in let cb := canon_name L nb in
        if col_mem ca (g_cols g) && col_mem cb (g_cols g) then Ok (add_con (ca, cb) g, rest) else Raise KeyError
    | _ => Raise ValueError
    end.

  Definition last_bottom (ls : list layer) : option dy :=
    match rev ls with l :: _ => Some (l_bottom l) | [] => None end.
  (** the centre a new layer gets: [if centre: centre *= scale] else the mid-point with the
      layer above (the bottom itself for the first layer) *)
  Definition layer_centre (centre : rvalue) (b : dy) (prev : option dy) : res dy :=
    if rv_truthy centre then do c <- as_dy centre; Ok (dy_mul c sc)
    else Ok (match prev with Some pb => dy_mul dy_half (dy_add b pb) | None => b end).
  Definition rd_layer (line : str) (rest : list str) (g : geo) : res (geo * list str) :=
    do specs <- specs_of "layer";
    match parse_string default_rf specs line with
    | [name; bottom; centre] =>
        do nm <- as_str name; do b0 <- as_dy bottom;
        let b := dy_mul b0 sc in let nm' := canon_name LL nm in
        do c <- layer_centre centre b (last_bottom (g_lays g));
        if lay_mem nm' (g_lays g) then Ok (g, rest)
        else Ok (with_lays (g_lays g ++ [mklay nm' b c]) g, rest)
    | _ => Raise ValueError
    end.

  Fixpoint set_surf (nm : str) (s : dy) (cs : list column) : list column :=
    match cs with
    | [] => []
    | c :: r => if str_eqb (c_name c) nm then mkcol (c_name c) (c_centre c) (c_nodes c) (Some s) :: r
                else c :: set_surf nm s r
    end.
  Definition rd_surface (line : str) (rest : list str) (g : geo) : res (geo * list str) :=
    do specs <- specs_of "surface";
    match parse_string default_rf specs line with
    | [name; surf] =>
        do nm <- as_str name; do s <- as_dy surf;
        let nm' := canon_name L nm in
        if col_mem nm' (g_cols g) then Ok (with_cols (set_surf nm' (dy_mul s sc) (g_cols g)) g, rest) else Raise KeyError
    | _ => Raise ValueError
    end.

  (** [if name in self.well: self.well[name].pos.append(p) else: self.add_well(well(name, [p]))] *)
  Fixpoint add_point (nm : str) (p : pt3) (ws : list well) : list well :=
    match ws with
    | [] => [mkwell nm [p]]
    | w :: r => if str_eqb (w_name w) nm then mkwell (w_name w) (w_pos w ++ [p]) :: r else w :: add_point nm p r
    end.
  Definition rd_well (line : str) (rest : list str) (g : geo) : res (geo * list str) :=
    do specs <- specs_of "well";
    match parse_string default_rf specs line with
    | [name; x; y; z] =>
        do x' <- as_dy x; do y' <- as_dy y; do z' <- as_dy z; do nm <- as_str name;
        Ok (with_wells (add_point nm (dy_mul x' sc, dy_mul y' sc, dy_mul z' sc) (g_wells g)) g, rest)
    | _ => Raise ValueError
    end.

  (** set_default_surface *)
  Definition default_surfaces (g : geo) : geo :=
    with_cols (map (fun c => mkcol (c_name c) (c_centre c) (c_nodes c) None) (g_cols g)) g.

  Definition run_section (meth : string) (ls : list str) (g : geo) : res (geo * list str) :=
    let fuel := S (length ls) in
    if String.eqb meth "read_nodes" then loop geo pad_length rd_node fuel true ls g
    else if String.eqb meth "read_columns" then loop geo pad_length rd_column fuel true ls g
    else if String.eqb meth "read_connections" then loop geo pad_length rd_connection fuel true ls g
    else if String.eqb meth "read_layers" then
      do gr <- loop geo pad_length rd_layer fuel true ls g;
      match g_lays (fst gr) with
      | [] => Raise IndexError                         (* identify_layer_tops: self.layerlist[0] *)
      | _ => Ok (default_surfaces (fst gr), snd gr)
      end
    else if String.eqb meth "read_surface" then loop geo pad_length rd_surface fuel true ls g
    else if String.eqb meth "read_wells" then loop geo pad_length rd_well fuel true ls g
    else Raise KeyError.

  (** [while more: line = geo.readline().strip(); if line: read_fn[line[0:5].rstrip()](geo) else: more = False] *)
  Fixpoint sections (fuel : nat) (ls : list str) (g : geo) : res geo :=
    match fuel with
    | O => Raise OutOfFuel
    | S k =>
        let s := strip (hd_line ls) in
        match s with
        | [] => Ok g
        | _ => match strlookup (rstrip (slice 0 keyword_len s)) read_dispatch with
               | None => Raise KeyError
               | Some meth => do gr <- run_section meth (tl_lines ls) g; sections k (snd gr) (fst gr)
               end
        end
    end.
End Readers.

Definition read_lines (ls : list str) : res geo :=
  do h <- read_header (hd_line ls);
  let g0 := empty_geo h in
  if str_eqb (h_type h) (s2l supported_type) then
    do L <- conv_len colname_lengths (h_conv h);
    do LL <- conv_len layername_lengths (h_conv h);
    do sc <- unit_scale_of (h_unit h);
    sections L LL sc (S (length ls)) (tl_lines ls) g0
  else Ok g0.                                        (* 'Grid type ... not supported.' *)
Definition read (bytes : str) : res geo := read_lines (split_lines (unl bytes)).

(** ** what a written value reads back as: the decimal the format carries *)
Definition dec_f (p : Z) (ng : bool) (m e : Z) : fval :=
  let '(num, den) := num_den m e in Fin ng (Z.to_N (rhe (num * pow10 p) den)) (- p).
Definition dec_e (p : Z) (ng : bool) (m e : Z) : fval :=
  if m =? 0 then Fin ng 0 (- p)
  else let '(num, den) := num_den m e in let '(N, k) := sci p num den in Fin ng (Z.to_N N) (k - p).
Definition expected (f : fspec) (v : value) : rvalue :=
  match ft f, v with
  | Ts, XNone => RStr (spaces (width f))
  | _, XNone => RNone
  | Tx, _ => RNone
  | Ts, XStr s => RStr (pad (fw f) s)
  | Ts, XInt z => RStr (pad (fw f) (z_to_str z))
  | Td, XInt z => RInt z
  | Tf, XReal ng m e => RFloat (dec_f (prec f) ng m e)
  | Tf, XInt z => RFloat (dec_f (prec f) (z <? 0) (Z.abs z) 0)
  | Te, XReal ng m e => RFloat (dec_e (prec f) ng m e)
  | Te, XInt z => RFloat (dec_e (prec f) (z <? 0) (Z.abs z) 0)
  | _, _ => RNone
  end.
Definition expected_list (specs : list fspec) (vals : list value) : list rvalue :=
  map (fun p => expected (fst p) (snd p)) (combine specs vals).

Definition fval_seqb (a b : fval) : bool :=
  match a, b with
  | Fin n1 m1 e1, Fin n2 m2 e2 => Bool.eqb n1 n2 && (m1 =? m2)%N && (e1 =? e2)
  | Inf x, Inf y => Bool.eqb x y
  | NaN, NaN => true
  | _, _ => false
  end.
Definition rvalue_eqb (a b : rvalue) : bool :=
  match a, b with
  | RStr x, RStr y => str_eqb x y
  | RInt x, RInt y => x =? y
  | RFloat x, RFloat y => fval_seqb x y
  | RNone, RNone => true
  | _, _ => false
  end.

(** THE per-field, decidable read-back condition: the writer accepts the value, the text
    stays on its line, and the read function returns the decimal the format carries *)
Definition readback_ok (f : fspec) (v : value) : bool :=
  match fmt_field f v with
  | Ok s => line_ok s && rvalue_eqb (default_rf (ft f) s) (expected f v)
  | Raise _ => false
  end.
(** the record-level conditions, for any per-field predicate [fpred] (the read-back check
    above, or the arithmetic "fits" predicate of Fields.v which implies it) *)
Section FieldPred.
  Variable fpred : fspec -> value -> bool.
  Fixpoint fields_ok_g (specs : list fspec) (vals : list value) : bool :=
    match specs, vals with
    | [], [] => true
    | f :: fs, v :: vs => fpred f v && fields_ok_g fs vs
    | _, _ => false
    end.
  (** a record line: every field is fine and the line does not look blank *)
  Definition rec_ok_g (r : string) (vals : list value) : bool :=
    match specs_of r with
    | Ok specs => fields_ok_g specs vals &&
                  match write_values specs vals with Ok l => negb (is_blank l) | Raise _ => false end
    | Raise _ => false
    end.
  Definition rec_fields_ok_g (r : string) (vals : list value) : bool :=
    match specs_of r with Ok specs => fields_ok_g specs vals | Raise _ => false end.
End FieldPred.
Notation fields_ok := (fields_ok_g readback_ok).
Notation rec_ok := (rec_ok_g readback_ok).
Notation rec_fields_ok := (rec_fields_ok_g readback_ok).

(** ** canon: what [read (write g)] returns *)
Definition dflt_spec : fspec := {| fw := 0; fp := None; ft := Tx |}.
Definition spec_at (r : string) (i : nat) : fspec :=
  match specs_of r with Ok l => nth i l dflt_spec | Raise _ => dflt_spec end.
(** a number after one trip through field [f]: divided by the writer's scale, rounded to
    the decimal the format carries, converted to a double, multiplied by the reader's scale *)
Definition rt_num (f : fspec) (scw scr : dy) (x : dy) : dy :=
  match as_dy (expected f (vreal (dy_div x scw))) with Ok d => dy_mul d scr | Raise _ => x end.

Definition canon_header (h : header) : header :=
  match rec_of "header" with
  | Ok hs => match header_of_values (fst hs) (expected_list (snd hs) (header_vals (fst hs) h)) with
             | Ok h' => h' | Raise _ => h end
  | Raise _ => h
  end.

Section Canon.
  Variable L LL : nat.
  Variable scw scr : dy.
  Definition canon_node (n : node) : node :=
    mknode (canon_name L (n_name n)) (rt_num (spec_at "node" 1) scw scr (n_x n)) (rt_num (spec_at "node" 2) scw scr (n_y n)).
  Definition canon_column (c : column) : column :=
    mkcol (canon_name L (c_name c))
          (match c_centre c with
           | Some xy => Some (rt_num (spec_at "column" 3) scw scr (fst xy), rt_num (spec_at "column" 4) scw scr (snd xy))
           | None => None end)
          (map (canon_name L) (c_nodes c))
          (match c_surf c with Some s => Some (rt_num (spec_at "surface" 1) scw scr s) | None => None end).
  Definition canon_con (c : str * str) : str * str := (canon_name L (fst c), canon_name L (snd c)).
  Fixpoint canon_layers (prev : option dy) (ls : list layer) : list layer :=
    match ls with
    | [] => []
    | l :: r =>
        let b := rt_num (spec_at "layer" 1) scw scr (l_bottom l) in
        let cv := expected (spec_at "layer" 2) (vreal (dy_div (l_centre l) scw)) in
        let c := if rv_truthy cv then rt_num (spec_at "layer" 2) scw scr (l_centre l)
                 else match prev with Some pb => dy_mul dy_half (dy_add b pb) | None => b end in
        mklay (canon_name LL (l_name l)) b c :: canon_layers (Some b) r
    end.
  Definition canon_wname (nm : str) : str := pad (fw (spec_at "well" 0)) nm.
  Definition canon_pt (p : pt3) : pt3 :=
    (rt_num (spec_at "well" 1) scw scr (fst (fst p)), rt_num (spec_at "well" 2) scw scr (snd (fst p)),
     rt_num (spec_at "well" 3) scw scr (snd p)).
  Definition canon_well (w : well) : well := mkwell (canon_wname (w_name w)) (map canon_pt (w_pos w)).
End Canon.

Definition scale_or_one (u : str) : dy := match unit_scale_of u with Ok s => s | Raise _ => mkdy false 1 0 end.
Definition len_or_0 (tbl : list Z) (c : Z) : nat := match conv_len tbl c with Ok n => n | Raise _ => O end.

Definition canon (g : geo) : geo :=
  let h' := canon_header (g_hdr g) in
  if str_eqb (h_type h') (s2l supported_type) then
    let scw := scale_or_one (h_unit (g_hdr g)) in
    let scr := scale_or_one (h_unit h') in
    let L := len_or_0 colname_lengths (h_conv h') in
    let LL := len_or_0 layername_lengths (h_conv h') in
    mkgeo h' (map (canon_node L scw scr) (g_nodes g)) (map (canon_column L scw scr) (g_cols g))
          (map (canon_con L) (g_cons g)) (canon_layers LL scw scr None (g_lays g))
          (map (canon_well scw scr) (g_wells g))
  else empty_geo h'.

(** ** wf: the decidable hypothesis of the round-trip theorem *)
Fixpoint nodup_str (l : list str) : bool :=
  match l with [] => true | a :: r => negb (existsb (str_eqb a) r) && nodup_str r end.
Fixpoint nodup_pair (l : list (str * str)) : bool :=
  match l with
  | [] => true
  | a :: r => negb (existsb (fun b => str_eqb (fst a) (fst b) && str_eqb (snd a) (snd b)) r) && nodup_pair r
  end.
Definition mem_str (a : str) (l : list str) : bool := existsb (str_eqb a) l.

Definition hdr_ok (h : header) : bool :=
  match rec_of "header" with
  | Ok hs => fields_ok (snd hs) (header_vals (fst hs) h) &&
             match header_of_values (fst hs) (expected_list (snd hs) (header_vals (fst hs) h)) with
             | Ok _ => true | Raise _ => false end
  | Raise _ => false
  end.

Section WF.
  Variable fpred : fspec -> value -> bool.
  Variable L LL : nat.
  Variable scw scr : dy.
  (** the node list the reader holds after the VERTICES section *)
  Definition cnodes_of (g : geo) : list node := map (canon_node L scw scr) (g_nodes g).
  Definition cnames_of (g : geo) : list str := map (fun c => canon_name L (c_name c)) (g_cols g).
  Definition wf_node_g (n : node) : bool := rec_ok_g fpred "node" (node_vals scw n).
  (** a column: the record and its node lines read back, the nodes exist, the re-read
      polygon is not clockwise (column.__init__ would reverse it) *)
  Definition wf_colnode_g (nnames : list str) (nm : str) : bool :=
    rec_fields_ok_g fpred "column_node" (colnode_vals nm) && mem_str (canon_name L nm) nnames.
  Definition wf_col_g (cnodes : list node) (c : column) : bool :=
    rec_ok_g fpred "column" (column_vals scw c) &&
    forallb (wf_colnode_g (map n_name cnodes)) (c_nodes c) &&
    negb (area_neg (map (node_pos cnodes) (map (canon_name L) (c_nodes c)))).
  Definition wf_con_g (cnames : list str) (c : str * str) : bool :=
    rec_ok_g fpred "connection" (con_vals c) && mem_str (canon_name L (fst c)) cnames && mem_str (canon_name L (snd c)) cnames.
  Definition wf_lay_g (l : layer) : bool := rec_ok_g fpred "layer" (layer_vals scw l).
  Definition wf_surf_g (ns : str * dy) : bool := rec_ok_g fpred "surface" (surf_vals scw (fst ns) (snd ns)).
  Definition wf_wpt_g (np : str * pt3) : bool := rec_ok_g fpred "well" (well_vals scw (fst np) (snd np)).
  Definition wf_body_g (g : geo) : bool :=
    (* nodes *)
    forallb wf_node_g (g_nodes g) && nodup_str (map n_name (cnodes_of g)) &&
    (* columns *)
    forallb (wf_col_g (cnodes_of g)) (g_cols g) && nodup_str (cnames_of g) &&
    (* connections *)
    forallb (wf_con_g (cnames_of g)) (g_cons g) && nodup_pair (map (canon_con L) (g_cons g)) &&
    (* layers: at least one (identify_layer_tops) *)
    negb (match g_lays g with [] => true | _ => false end) &&
    forallb wf_lay_g (g_lays g) && nodup_str (map (fun l => canon_name LL (l_name l)) (g_lays g)) &&
    (* surface *)
    forallb wf_surf_g (surf_cols (g_cols g)) &&
    (* wells: every track point reads back, every well has a point, names distinct as written *)
    forallb wf_wpt_g (well_points (g_wells g)) &&
    forallb (fun w => negb (match w_pos w with [] => true | _ => false end)) (g_wells g) &&
    nodup_str (map (fun w => canon_wname (w_name w)) (g_wells g)).
End WF.

Notation wf_node := (wf_node_g readback_ok).
Notation wf_colnode := (wf_colnode_g readback_ok).
Notation wf_col := (wf_col_g readback_ok).
Notation wf_con := (wf_con_g readback_ok).
Notation wf_lay := (wf_lay_g readback_ok).
Notation wf_surf := (wf_surf_g readback_ok).
Notation wf_wpt := (wf_wpt_g readback_ok).
Notation wf_body := (wf_body_g readback_ok).

(** [wf_g fpred]: the header line passes its read-back check; every record value satisfies
    [fpred]; names are distinct after re-justification; referenced nodes/columns exist;
    column polygons are not clockwise; at least one layer; every well has a point *)
Definition wf_rest (fpred : fspec -> value -> bool) (g : geo) : bool :=
  let h := g_hdr g in
  match unit_scale_of (h_unit h) with
  | Raise _ => false
  | Ok scw =>
    let h' := canon_header h in
    if str_eqb (h_type h') (s2l supported_type) then
      match conv_len colname_lengths (h_conv h'), conv_len layername_lengths (h_conv h'), unit_scale_of (h_unit h') with
      | Ok L, Ok LL, Ok scr => wf_body_g fpred L LL scw scr g
      | _, _, _ => false
      end
    else true
  end.
Definition wf_g (fpred : fspec -> value -> bool) (g : geo) : bool := hdr_ok (g_hdr g) && wf_rest fpred g.
Notation wf := (wf_g readback_ok).
