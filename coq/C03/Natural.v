(** C03 -- the round trip under the arithmetic hypothesis: every value FITS its field
    ([nwf], no evaluation of the reader in the hypothesis) implies the read-back
    hypothesis [wf] of the round-trip theorem. *)
From Coq Require Import Ascii String List Bool Arith ZArith NArith Lia.
From PTBase Require Import Exn PyStr PyNum PyVal Fmt FixedFormat.
From Gen Require Import GenTables GenMulgrid.
From P Require Import Flt Lines MulgridIO RoundTrip Fields.
Import ListNotations.
Open Scope list_scope.

Section Mono.
  Variable p q : fspec -> value -> bool.
  Hypothesis PQ : forall f v, p f v = true -> q f v = true.

  Lemma fields_ok_mono specs : forall vals, fields_ok_g p specs vals = true -> fields_ok_g q specs vals = true.
  Proof.
    induction specs as [|f fs IH]; intros [|v vs] H; cbn [fields_ok_g] in *; try discriminate; [reflexivity|].
    apply andb_prop in H as [A B]. rewrite (PQ _ _ A), (IH _ B). reflexivity.
  Qed.
  Lemma rec_ok_mono r vals : rec_ok_g p r vals = true -> rec_ok_g q r vals = true.
  Proof.
    unfold rec_ok_g. destruct (specs_of r); [|discriminate]. intro H. apply andb_prop in H as [A B].
    rewrite (fields_ok_mono _ _ A), B. reflexivity.
  Qed.
  Lemma rec_fields_ok_mono r vals : rec_fields_ok_g p r vals = true -> rec_fields_ok_g q r vals = true.
  Proof. unfold rec_fields_ok_g. destruct (specs_of r); [|discriminate]. apply fields_ok_mono. Qed.
  Lemma forallb_mono {A} (f g : A -> bool) l : (forall x, f x = true -> g x = true) -> forallb f l = true -> forallb g l = true.
  Proof. intros H F. rewrite forallb_forall in *. intros x I. apply H, F, I. Qed.

  Lemma wf_body_mono L LL scw scr g : wf_body_g p L LL scw scr g = true -> wf_body_g q L LL scw scr g = true.
  Proof.
    unfold wf_body_g. intro H. repeat (apply andb_prop in H; destruct H as [H ?]).
    repeat (apply andb_true_intro; split); try assumption.
    - revert H. apply forallb_mono. intro n. apply rec_ok_mono.
    - revert H10. apply forallb_mono. intros c Hc. unfold wf_col_g in *.
      apply andb_prop in Hc as [Hc C3]. apply andb_prop in Hc as [C1 C2]. rewrite (rec_ok_mono _ _ C1), C3.
      assert (C2' : forallb (wf_colnode_g q L (map n_name (cnodes_of L scw scr g))) (c_nodes c) = true).
      { revert C2. apply forallb_mono. intros nm Hn. unfold wf_colnode_g in *. apply andb_prop in Hn as [N1 N2].
        rewrite (rec_fields_ok_mono _ _ N1), N2. reflexivity. }
      rewrite C2'. reflexivity.
    - revert H8. apply forallb_mono. intros c Hc. unfold wf_con_g in *.
      apply andb_prop in Hc as [Hc C3]. apply andb_prop in Hc as [C1 C2]. rewrite (rec_ok_mono _ _ C1), C2, C3. reflexivity.
    - revert H5. apply forallb_mono. intro n. apply rec_ok_mono.
    - revert H3. apply forallb_mono. intro n. apply rec_ok_mono.
    - revert H2. apply forallb_mono. intro n. apply rec_ok_mono.
  Qed.
  Lemma wf_mono g : wf_g p g = true -> wf_g q g = true.
  Proof.
    unfold wf_g, wf_rest. intro H. apply andb_prop in H as [A B]. rewrite A. cbn [andb].
    destruct (unit_scale_of (h_unit (g_hdr g))); [|discriminate].
    destruct (str_eqb _ _); [|reflexivity].
    destruct (conv_len colname_lengths _); [|discriminate]. destruct (conv_len layername_lengths _); [|discriminate].
    destruct (unit_scale_of _); [|discriminate]. apply wf_body_mono. exact B.
  Qed.
End Mono.

(** the natural well-formedness class: the header line passes its read-back check and
    every value of every record fits its field *)
Definition nwf (g : geo) : bool := wf_g fits_field g.
Theorem nwf_wf g : nwf g = true -> wf g = true.
Proof. apply wf_mono. exact fits_reads_back. Qed.

Theorem read_write_roundtrip_fits g b : nwf g = true -> write g = Ok b -> read b = Ok (canon g).
Proof. intro H. apply read_write_roundtrip. apply nwf_wf. exact H. Qed.
