(** C03 -- byte-for-byte second write from arithmetic hypotheses: every record value fits
    its field ([nwf]), names are right-justified to the convention's length, no layer centre
    prints as zero, the header line re-formats to itself => [idem_ok], hence
    [write (canon g) = write g]. *)
From Coq Require Import Ascii String List Bool Arith ZArith NArith Lia.
From PTBase Require Import Exn PyStr PyNum PyVal Fmt FixedFormat.
From Gen Require Import GenTables GenMulgrid.
From P Require Import Flt Lines MulgridIO RoundTrip Header Fields Natural Idem Canon Rounding RealIdem.
Import ListNotations.
Open Scope list_scope.

(** * table facts: the real fields are %w.pf with p in {1,2} and w <= 10; the unit scales are in [1/4, 1] *)
Definition real_spec_ok (f : fspec) : bool := (1 <=? prec f)%Z && (prec f <=? 2)%Z && (width f <=? 10)%nat.
Lemma real_specs :
  forallb real_spec_ok [sp "node" 1; sp "node" 2; sp "column" 3; sp "column" 4; sp "layer" 1; sp "layer" 2; sp "surface" 1;
                        sp "well" 1; sp "well" 2; sp "well" 3] = true.
Proof. vm_compute. reflexivity. Qed.
Lemma real_spec_facts f : real_spec_ok f = true -> (1 <= prec f <= 2)%Z /\ (width f <= 10)%nat.
Proof.
  unfold real_spec_ok. intro H. apply andb_prop in H as [H C]. apply andb_prop in H as [A B].
  apply Z.leb_le in A. apply Z.leb_le in B. apply Nat.leb_le in C. lia.
Qed.
Ltac real_spec_of k :=
  let H := fresh in pose proof real_specs as H; cbn [forallb] in H;
  repeat (apply andb_prop in H; destruct H as [?RS H]); clear H.
Lemma scales_ok : forallb (fun kv => scale_ok (mkdy false (fst (snd kv)) (snd (snd kv)))) unit_scales = true.
Proof. vm_compute. reflexivity. Qed.
Lemma unit_scale_ok u sc : unit_scale_of u = Ok sc -> scale_ok sc = true.
Proof.
  unfold unit_scale_of. destruct (strlookup u unit_scales) as [[m e]|] eqn:E; [|discriminate]. intro H. injection H as H. subst sc.
  apply strlookup_in in E as [k [I _]]. pose proof scales_ok as F. rewrite forallb_forall in F. exact (F _ I).
Qed.

(** * small facts *)
Lemma res_str_eqb_refl a : res_str_eqb a a = true.
Proof. destruct a as [s|e]; [apply str_eqb_refl|destruct e; reflexivity]. Qed.
Lemma pad_pad w s : pad w (pad w s) = pad w s.
Proof.
  destruct (le_lt_dec (Z.to_nat (Z.abs w)) (length s)) as [L|L].
  - assert (E : pad w s = s); [|rewrite !E; reflexivity].
    unfold pad. destruct (w <? 0)%Z eqn:W; unfold ljust, rjust;
      [replace (Z.to_nat (- w) - length s)%nat with O by (apply Z.ltb_lt in W; lia)|replace (Z.to_nat w - length s)%nat with O by (apply Z.ltb_ge in W; lia)];
      cbn [spaces repeat]; [apply app_nil_r|reflexivity].
  - pose proof (pad_exact w s ltac:(lia)) as E.
    unfold pad at 1. destruct (w <? 0)%Z eqn:W; unfold ljust, rjust; rewrite E;
      [replace (Z.to_nat (- w) - Z.to_nat (Z.abs w))%nat with O by (apply Z.ltb_lt in W; lia)|replace (Z.to_nat w - Z.to_nat (Z.abs w))%nat with O by (apply Z.ltb_ge in W; lia)];
      cbn [spaces repeat]; [apply app_nil_r|reflexivity].
Qed.
Lemma fmt_field_pad_name f s : ft f = Ts -> fmt_field f (XStr (pad (fw f) s)) = fmt_field f (XStr s).
Proof. intro T. unfold fmt_field, fmt_raw. rewrite T. cbn [bind]. unfold fmt_str. rewrite pad_pad. reflexivity. Qed.

Lemma rec_ok_fields p r vals : rec_ok_g p r vals = true -> exists specs, specs_of r = Ok specs /\ fields_ok_g p specs vals = true.
Proof. unfold rec_ok_g. destruct (specs_of r) as [specs|]; [|discriminate]. intro H. apply andb_prop in H as [H _]. eauto. Qed.

(** * the hypotheses *)
Definition hdr_idem (h : header) : bool :=
  res_str_eqb (write_values hspecs (header_vals hnames (canon_header h))) (write_values hspecs (header_vals hnames h)).
(** a layer centre is fine if it does not print as zero, or if the centre the reader
    re-derives for it (first layer: its bottom; otherwise the mid-point of the printed
    bottoms) prints as the original did *)
Definition centre_ok (sc : dy) (ll' : layer * layer) : bool :=
  rv_truthy (expected (spec_at "layer" 2) (vreal (dy_div (l_centre (fst ll')) sc))) ||
  res_str_eqb (fmt_field (spec_at "layer" 2) (vreal (dy_div (l_centre (snd ll')) sc)))
              (fmt_field (spec_at "layer" 2) (vreal (dy_div (l_centre (fst ll')) sc))).
Definition centres_ok (g : geo) : bool :=
  let sc := scale_or_one (h_unit (g_hdr g)) in
  let LL := len_or_0 layername_lengths (h_conv (canon_header (g_hdr g))) in
  forallb (centre_ok sc) (combine (g_lays g) (canon_layers LL sc sc None (g_lays g))).
Definition nidem_ok (g : geo) : bool :=
  nwf g && str_eqb (h_type (canon_header (g_hdr g))) (s2l supported_type) && hdr_idem (g_hdr g) &&
  names_canonical g && centres_ok g.

Section Body.
  Variable L LL : nat.
  Variable sc : dy.
  Variable g : geo.
  Hypothesis SC : scale_ok sc = true.
  Hypothesis NW : wf_body_g fits_field L LL sc sc g = true.
  Hypothesis NC1 : forallb (fun n => str_eqb (canon_name L (n_name n)) (n_name n)) (g_nodes g) = true.
  Hypothesis NC2 : forallb (fun c => str_eqb (canon_name L (c_name c)) (c_name c) &&
                                     forallb (fun nm => str_eqb (canon_name L nm) nm) (c_nodes c)) (g_cols g) = true.
  Hypothesis NC3 : forallb (fun c => str_eqb (canon_name L (fst c)) (fst c) && str_eqb (canon_name L (snd c)) (snd c)) (g_cons g) = true.
  Hypothesis NC4 : forallb (fun l => str_eqb (canon_name LL (l_name l)) (l_name l)) (g_lays g) = true.
  Hypothesis CZ : forallb (centre_ok sc) (combine (g_lays g) (canon_layers LL sc sc None (g_lays g))) = true.

  Lemma real_same f x : ft f = Tf -> real_spec_ok f = true -> fits_field f (vreal (dy_div x sc)) = true ->
    res_str_eqb (fmt_field f (vreal (dy_div (rt_num f sc sc x) sc))) (fmt_field f (vreal (dy_div x sc))) = true.
  Proof. intros T R F. destruct (real_spec_facts f R) as [P W]. apply real_idem; assumption. Qed.

  Lemma body_idem : idem_body L LL sc sc g = true.
  Proof.
    pose proof real_specs as RS. cbn [forallb] in RS.
    repeat (apply andb_prop in RS; destruct RS as [?R RS]). clear RS.
    pose proof NW as H0. pose proof NC1 as C1. pose proof NC2 as C2. pose proof NC3 as C3. pose proof NC4 as C4. pose proof CZ as Z0.
    unfold wf_body_g in H0. repeat (apply andb_prop in H0; destruct H0 as [H0 ?W]).
    unfold idem_body. repeat (apply andb_true_intro; split).
    - (* nodes *)
      rewrite forallb_forall in *. intros n I. specialize (H0 n I). specialize (C1 n I). apply str_eqb_eq in C1.
      destruct (rec_ok_fields _ _ _ H0) as [specs [S F]]. rewrite specs_node in S. injection S as S. subst specs.
      destruct types_node as [T0 [T1 T2]]. unfold node_vals in F. cbn [fields_ok_g] in F.
      apply andb_prop in F as [_ F]. apply andb_prop in F as [F1 F]. apply andb_prop in F as [F2 _].
      unfold idem_node, same_rec. rewrite specs_node. unfold node_vals, canon_node. cbn [same_fields n_name n_x n_y]. rewrite C1, res_str_eqb_refl.
      fold (sp "node" 1) (sp "node" 2). rewrite (real_same _ _ T1 R F1), (real_same _ _ T2 R0 F2). reflexivity.
    - (* columns *)
      rewrite forallb_forall in *. intros c I. specialize (W9 c I). specialize (C2 c I). apply andb_prop in C2 as [N1 N2]. apply str_eqb_eq in N1.
      unfold wf_col_g in W9. apply andb_prop in W9 as [W9 _]. apply andb_prop in W9 as [W9 _].
      destruct (rec_ok_fields _ _ _ W9) as [specs [S F]]. rewrite specs_column in S. injection S as S. subst specs.
      destruct types_column as [T0 [T1 [T2 [T3 T4]]]]. unfold column_vals in F. cbn [fields_ok_g] in F.
      apply andb_prop in F as [_ F]. apply andb_prop in F as [_ F]. apply andb_prop in F as [_ F]. apply andb_prop in F as [F3 F]. apply andb_prop in F as [F4 _].
      unfold idem_col. apply andb_true_intro. split.
      + unfold same_rec. rewrite specs_column. unfold column_vals, canon_column. cbn [same_fields c_name c_centre c_nodes]. rewrite N1, map_length, !res_str_eqb_refl.
        destruct (c_centre c) as [[x y]|]; cbn [fst snd andb]; [|rewrite !res_str_eqb_refl; reflexivity].
        rewrite !res_str_eqb_refl. cbn [fst snd andb] in F3, F4. fold (sp "column" 3) (sp "column" 4).
        rewrite (real_same _ _ T3 R1 F3), (real_same _ _ T4 R2 F4). reflexivity.
      + rewrite forallb_forall in N2. rewrite forallb_forall. intros nm J. specialize (N2 nm J). apply str_eqb_eq in N2.
        unfold same_rec. destruct (specs_of "column_node") as [l|]; [|reflexivity]. rewrite N2.
        clear. generalize (colnode_vals nm). intro v. revert v. induction l as [|f l IH]; intros [|a v]; cbn [same_fields]; try reflexivity.
        rewrite res_str_eqb_refl. apply IH.
    - (* connections *)
      rewrite forallb_forall in *. intros c I. specialize (C3 c I). apply andb_prop in C3 as [A B]. apply str_eqb_eq in A. apply str_eqb_eq in B.
      unfold idem_con, same_rec, canon_con. rewrite A, B. destruct c as [a b]. cbn [fst snd]. destruct (specs_of "connection") as [l|]; [|reflexivity].
      generalize (con_vals (a, b)). intro v. revert v. induction l as [|f l IH]; intros [|x v]; cbn [same_fields]; try reflexivity.
      rewrite res_str_eqb_refl. apply IH.
    - (* layers *)
      clear - W4 C4 Z0 R3 R4 SC. revert W4 C4 Z0. generalize (@None dy). induction (g_lays g) as [|l r IH]; intros prev W N C; [reflexivity|].
      rewrite canon_layers_cons in *. cbn [combine forallb] in W, N, C |- *.
      apply andb_prop in W as [Wl W]. apply andb_prop in N as [Nl N]. apply andb_prop in C as [Cl C].
      rewrite (IH _ W N C), andb_true_r. apply str_eqb_eq in Nl.
      destruct (rec_ok_fields _ _ _ Wl) as [specs [S F]]. rewrite specs_layer in S. injection S as S. subst specs.
      destruct types_layer as [T0 [T1 T2]]. unfold layer_vals in F. cbn [fields_ok_g] in F.
      apply andb_prop in F as [_ F]. apply andb_prop in F as [F1 F]. apply andb_prop in F as [F2 _].
      unfold idem_lay, same_rec. rewrite specs_layer. cbn [fst snd]. unfold layer_vals. cbn [same_fields].
      unfold centre_ok in Cl. cbn [fst snd] in Cl.
      assert (E1 : l_name (canon_lay1 LL sc sc prev l) = l_name l) by (unfold canon_lay1; cbn [l_name]; exact Nl).
      assert (E2 : l_bottom (canon_lay1 LL sc sc prev l) = rt_num (sp "layer" 1) sc sc (l_bottom l)) by reflexivity.
      rewrite E1, E2, res_str_eqb_refl, (real_same _ _ T1 R3 F1). cbn [andb]. rewrite andb_true_r.
      destruct (rv_truthy (expected (spec_at "layer" 2) (vreal (dy_div (l_centre l) sc)))) eqn:Tr.
      + assert (E3 : l_centre (canon_lay1 LL sc sc prev l) = rt_num (sp "layer" 2) sc sc (l_centre l)) by (unfold canon_lay1; cbn [l_centre]; rewrite Tr; reflexivity).
        rewrite E3. apply (real_same _ _ T2 R4 F2).
      + cbn [orb] in Cl. exact Cl.
    - (* surfaces *)
      rewrite forallb_forall in *. intros ns I. specialize (W2 ns I).
      assert (NM : canon_name L (fst ns) = fst ns).
      { apply surf_cols_names in I. apply in_map_iff in I as [c [E J]]. specialize (C2 c J). apply andb_prop in C2 as [A _].
        apply str_eqb_eq in A. rewrite <- E. exact A. }
      destruct (rec_ok_fields _ _ _ W2) as [specs [S F]]. rewrite specs_surface in S. injection S as S. subst specs.
      destruct types_surface as [T0 T1]. unfold surf_vals in F. cbn [fields_ok_g] in F.
      apply andb_prop in F as [_ F]. apply andb_prop in F as [F1 _].
      unfold idem_surf, same_rec. rewrite specs_surface. unfold surf_vals, rt_surf. cbn [same_fields]. rewrite NM, res_str_eqb_refl.
      fold (sp "surface" 1). rewrite (real_same _ _ T1 R5 F1). reflexivity.
    - (* wells *)
      rewrite forallb_forall in *. intros np I. specialize (W1 np I).
      destruct (rec_ok_fields _ _ _ W1) as [specs [S F]]. rewrite specs_well in S. injection S as S. subst specs.
      destruct types_well as [T0 [T1 [T2 T3]]]. unfold well_vals in F. cbn [fields_ok_g] in F.
      apply andb_prop in F as [_ F]. apply andb_prop in F as [F1 F]. apply andb_prop in F as [F2 F]. apply andb_prop in F as [F3 _].
      unfold idem_wpt, same_rec. rewrite specs_well. unfold well_vals, canon_pt, canon_wname. cbn [same_fields fst snd].
      fold (sp "well" 0) (sp "well" 1) (sp "well" 2) (sp "well" 3).
      rewrite (fmt_field_pad_name _ _ T0), res_str_eqb_refl.
      rewrite (real_same _ _ T1 R6 F1), (real_same _ _ T2 R7 F2), (real_same _ _ T3 R8 F3). reflexivity.
  Qed.
End Body.

Theorem nidem_idem_ok g : nidem_ok g = true -> idem_ok g = true.
Proof.
  unfold nidem_ok. intro H. apply andb_prop in H as [H X]. apply andb_prop in H as [H X0]. apply andb_prop in H as [H X1]. apply andb_prop in H as [H X2].
  pose proof (nwf_wf g H) as WF. pose proof (wf_same_scale g WF) as SS.
  unfold idem_ok. rewrite X2. unfold hdr_idem in X1. rewrite X1. cbn [andb].
  unfold nwf, wf_g, wf_rest in H. apply andb_prop in H as [_ H].
  destruct (unit_scale_of (h_unit (g_hdr g))) as [sc|] eqn:U; [|discriminate]. rewrite X2 in H.
  destruct (conv_len colname_lengths _) as [L|] eqn:EL; [|discriminate].
  destruct (conv_len layername_lengths _) as [LL|] eqn:ELL; [|discriminate].
  rewrite SS in H.
  unfold scale_or_one, len_or_0. rewrite SS, U, EL, ELL.
  unfold names_canonical, len_or_0 in X0. rewrite EL, ELL in X0. repeat (apply andb_prop in X0; destruct X0 as [X0 ?N]).
  unfold centres_ok, scale_or_one, len_or_0 in X. rewrite U, ELL in X.
  apply body_idem; try assumption. apply (unit_scale_ok _ _ U).
Qed.

(** byte for byte, from the arithmetic hypotheses *)
Theorem write_idem g : nidem_ok g = true -> write (canon g) = write g.
Proof.
  intro H. apply write_canon_idem; [|apply nidem_idem_ok; exact H].
  unfold nidem_ok in H. apply andb_prop in H as [H X]. apply andb_prop in H as [H X0]. apply andb_prop in H as [H X1]. apply andb_prop in H as [H X2]. apply nwf_wf. exact H.
Qed.
