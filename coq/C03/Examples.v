(** C03 -- a concrete geometry (in feet) meeting the arithmetic hypotheses of the second-write theorem. *)
From Coq Require Import Ascii String List Bool Arith ZArith NArith.
From PTBase Require Import Exn PyStr PyNum PyVal Fmt FixedFormat.
From Gen Require Import GenTables GenMulgrid.
From P Require Import Flt Lines MulgridIO RoundTrip Header Idem Fields Natural Canon Feet NatIdem HdrIdem NameLists HdrOk ErrBound Margin Feet2.
Import ListNotations.

Definition ex_geo2 : geo :=
  mkgeo (g_hdr ex_geo) (g_nodes ex_geo) (g_cols ex_geo) (g_cons ex_geo)
    [mklay (s2l " 0") (dz 20) (dz 20); mklay (s2l " 1") (dz 10) (dz 15); mklay (s2l " 2") (dz (-10)) (dy_of_dec true 5 (-1));
     mklay (s2l " 3") (dz (-30)) (dz (-20))]
    (g_wells ex_geo).
Example ex_geo2_nidem : nidem_ok ex_geo2 = true.
Proof. vm_compute. reflexivity. Qed.
Example ex_geo2_aidem : aidem_ok ex_geo2 = true.
Proof. vm_compute. reflexivity. Qed.
Example ex_geo2_names : hdr_ok (g_hdr ex_geo2) = true /\ names_canonical ex_geo2 = true /\ cmp_ok ex_geo2 = true.
Proof. split; [|split]; vm_compute; reflexivity. Qed.
Example ex_geo2_arith : awf ex_geo2 = true /\ names_hyp ex_geo2 = true /\ coords_mag feet_scale ex_geo2 = true.
Proof. split; [|split]; vm_compute; reflexivity. Qed.
