(** Text-file plumbing of the MULgraph reader: universal newlines, [readline], blank-line
    tests, [strip] laws, and the "records until a blank line" loop with its round-trip
    law (DESIGN.md Appendix E.10, extended to multi-line records and a threaded state). *)
From Coq Require Import Ascii String List Bool Arith ZArith NArith Lia.
From PTBase Require Import Exn PyStr PyNum PyVal Fmt FixedFormat.
Import ListNotations.
Open Scope char_scope.

Definition nl : ascii := "010".
Definition cr : ascii := "013".
Definition add_nl (l : str) : str := l ++ [nl].

(** a character that may appear inside a line of the file *)
Definition line_char (c : ascii) : bool := negb (ceqb c nl) && negb (ceqb c cr).
Definition line_ok (s : str) : bool := forallb line_char s.

(** text mode 'r': universal newlines, "\r\n" and "\r" read as "\n" *)
Fixpoint unl (s : str) : str :=
  match s with
  | [] => []
  | c :: r => if ceqb c cr then nl :: match r with
                                      | c2 :: r2 => if ceqb c2 nl then unl r2 else unl r
                                      | [] => [] end
              else c :: unl r
  end.

(** successive [readline()] results: every line keeps its terminator; a last line without
    one is returned as it is; afterwards [readline()] returns '' (the empty list of lines) *)
Fixpoint split_lines_aux (cur : str) (s : str) : list str :=
  match s with
  | [] => match cur with [] => [] | _ => [rev cur] end
  | c :: r => if ceqb c nl then rev (c :: cur) :: split_lines_aux [] r else split_lines_aux (c :: cur) r
  end.
Definition split_lines (s : str) : list str := split_lines_aux [] s.

Definition file_of_lines (ls : list str) : str := concat (map add_nl ls).

Lemma line_char_nl c : line_char c = true -> ceqb c nl = false /\ ceqb c cr = false.
Proof. unfold line_char. intro H. apply andb_prop in H as [A B]. split; apply negb_true_iff; assumption. Qed.

Lemma unl_line s rest : line_ok s = true -> unl (s ++ nl :: rest) = s ++ nl :: unl rest.
Proof.
  induction s as [|c s IH]; intro H.
  - reflexivity.
  - cbn [line_ok forallb] in H. apply andb_prop in H as [Hc Hs]. apply line_char_nl in Hc as [_ Hc].
    cbn [app unl]. rewrite Hc. f_equal. apply IH. exact Hs.
Qed.
Lemma unl_file ls : forallb line_ok ls = true -> unl (file_of_lines ls) = file_of_lines ls.
Proof.
  unfold file_of_lines. induction ls as [|l ls IH]; intro H; [reflexivity|].
  cbn [forallb] in H. apply andb_prop in H as [Hl Hls]. cbn [map concat]. unfold add_nl at 1 3.
  rewrite <- !app_assoc. cbn [app]. rewrite unl_line by exact Hl. rewrite IH by exact Hls. reflexivity.
Qed.

Lemma split_lines_aux_line cur s rest : line_ok s = true ->
  split_lines_aux cur (s ++ nl :: rest) = (rev cur ++ s ++ [nl]) :: split_lines_aux [] rest.
Proof.
  revert cur. induction s as [|c s IH]; intros cur H.
  - cbn [app split_lines_aux]. unfold ceqb. rewrite Ascii.eqb_refl. cbn [rev]. reflexivity.
  - cbn [line_ok forallb] in H. apply andb_prop in H as [Hc Hs]. apply line_char_nl in Hc as [Hc _].
    cbn [app split_lines_aux]. rewrite Hc. rewrite IH by exact Hs. cbn [rev]. rewrite <- app_assoc. reflexivity.
Qed.
Lemma split_lines_file ls : forallb line_ok ls = true -> split_lines (file_of_lines ls) = map add_nl ls.
Proof.
  unfold split_lines, file_of_lines. induction ls as [|l ls IH]; intro H; [reflexivity|].
  cbn [forallb] in H. apply andb_prop in H as [Hl Hls]. cbn [map concat]. unfold add_nl at 1.
  rewrite <- app_assoc. cbn [app]. rewrite split_lines_aux_line by exact Hl. cbn [rev app].
  rewrite IH by exact Hls. reflexivity.
Qed.

(** ** blank lines: [line.strip()] is falsy *)
Definition is_blank (s : str) : bool := match strip s with [] => true | _ => false end.

Lemma is_blank_forallb s : is_blank s = forallb is_space s.
Proof.
  unfold is_blank. destruct (strip s) as [|c r] eqn:E.
  - symmetry. apply strip_by_nil_all. exact E.
  - destruct (forallb is_space s) eqn:F; [|reflexivity].
    unfold strip, strip_by in E. rewrite (lstrip_by_all _ _ F) in E. discriminate.
Qed.
Lemma is_blank_app a b : is_blank (a ++ b) = is_blank a && is_blank b.
Proof. rewrite !is_blank_forallb. apply forallb_app. Qed.
Lemma forallb_spaces n : forallb is_space (spaces n) = true.
Proof. induction n; [reflexivity|]. cbn. exact IHn. Qed.
Lemma is_blank_spaces n : is_blank (spaces n) = true.
Proof. rewrite is_blank_forallb. apply forallb_spaces. Qed.
Lemma is_blank_nl : is_blank [nl] = true.
Proof. reflexivity. Qed.

(** ** strip laws *)
Lemma lstrip_by_app p a b : lstrip_by p (a ++ b) = if forallb p a then lstrip_by p b else lstrip_by p a ++ b.
Proof.
  induction a as [|c a IH]; [reflexivity|]. cbn [app lstrip_by forallb].
  destruct (p c); [exact IH|reflexivity].
Qed.
Lemma rstrip_by_app_all p a b : forallb p b = true -> rstrip_by p (a ++ b) = rstrip_by p a.
Proof.
  intro H. unfold rstrip_by. rewrite rev_app_distr, lstrip_by_app, forallb_rev, H. reflexivity.
Qed.
Lemma strip_by_app_all_r p s t : forallb p t = true -> strip_by p (s ++ t) = strip_by p s.
Proof.
  intro H. unfold strip_by. rewrite lstrip_by_app. destruct (forallb p s) eqn:F.
  - rewrite (lstrip_by_all _ _ H), (lstrip_by_all _ _ F). reflexivity.
  - apply rstrip_by_app_all. exact H.
Qed.
Lemma strip_by_app_all_l p s t : forallb p t = true -> strip_by p (t ++ s) = strip_by p s.
Proof. intro H. unfold strip_by. rewrite lstrip_by_app, H. reflexivity. Qed.
Lemma strip_spaces_l n s : strip (spaces n ++ s) = strip s.
Proof. apply strip_by_app_all_l. apply forallb_spaces. Qed.
Lemma strip_spaces_r n s : strip (s ++ spaces n) = strip s.
Proof. apply strip_by_app_all_r. apply forallb_spaces. Qed.
(** whatever the field width and justification, the name survives [strip] *)
Lemma strip_pad w s : strip (pad w s) = strip s.
Proof. unfold pad. destruct (w <? 0)%Z; unfold ljust, rjust; [apply strip_spaces_r|apply strip_spaces_l]. Qed.
Lemma strip_ljust k s : strip (ljust k s) = strip s.
Proof. apply strip_spaces_r. Qed.

Lemma rstrip_c_id ch s : (match rev s with c :: _ => ceqb c ch | [] => false end) = false -> rstrip_c ch s = s.
Proof.
  unfold rstrip_c. destruct (rev s) as [|c r] eqn:E; intro H.
  - cbn. rewrite <- (rev_involutive s), E. reflexivity.
  - cbn [lstrip_c]. rewrite H. rewrite <- E. apply rev_involutive.
Qed.
Lemma line_ok_rstrip_nl s : line_ok s = true -> rstrip_c nl s = s.
Proof.
  intro H. apply rstrip_c_id. destruct (rev s) as [|c r] eqn:E; [reflexivity|].
  assert (I : In c s) by (apply in_rev; rewrite E; left; reflexivity).
  unfold line_ok in H. rewrite forallb_forall in H. apply H in I. apply line_char_nl in I. tauto.
Qed.

(** ** records until a blank line, with a threaded state and multi-line records

    Python:  line = padstring(geo.readline())
             while line.strip():  <step, may read further lines>;  line = geo.readline()  *)
Definition padstring (n : nat) (s : str) : str := ljust n s.
Definition maybe_pad (n : nat) (first : bool) (s : str) : str := if first then padstring n s else s.

Section Loop.
  Variable S : Type.
  Variable padn : nat.
  (** [step line rest s]: process the record that starts with [line]; may consume lines of [rest] *)
  Variable step : str -> list str -> S -> res (S * list str).

  Fixpoint loop (fuel : nat) (first : bool) (ls : list str) (s : S) : res (S * list str) :=
    match fuel with
    | O => Raise OutOfFuel
    | Datatypes.S k =>
        (* readline() at end of file returns '' *)
        let l := match ls with [] => [] | l :: _ => l end in
        let r := match ls with [] => [] | _ :: r => r end in
        let l' := maybe_pad padn first l in
        if is_blank l' then Ok (s, r)
        else do sr <- step l' r s; loop k false (snd sr) (fst sr)
    end.

  Variable R : Type.
  Variable enc : R -> list str.          (* the lines of one record, without terminators *)
  Variable upd : R -> S -> S.

  (** the step reads back one written record, in state [s], whatever follows *)
  Definition step_reads (r : R) (s : S) : Prop :=
    forall first rest, exists l tl, enc r = l :: tl /\
      is_blank (maybe_pad padn first (add_nl l)) = false /\
      step (maybe_pad padn first (add_nl l)) (map add_nl tl ++ rest) s = Ok (upd r s, rest).

  Definition run (rs : list R) (s : S) : S := fold_left (fun s r => upd r s) rs s.

  Theorem loop_records : forall (rs : list R) s rest first fuel,
    (forall pre r post, rs = pre ++ r :: post -> step_reads r (run pre s)) ->
    (length rs < fuel)%nat ->
    loop fuel first (map add_nl (flat_map enc rs) ++ add_nl [] :: rest) s = Ok (run rs s, rest).
  Proof.
    induction rs as [|r rs IH]; intros s rest first fuel H F.
    - destruct fuel as [|k]; [cbn in F; lia|]. cbn [flat_map map app loop].
      replace (is_blank (maybe_pad padn first (add_nl []))) with true; [reflexivity|].
      symmetry. unfold maybe_pad, padstring, ljust. destruct first; [|reflexivity].
      rewrite is_blank_app, is_blank_spaces. reflexivity.
    - destruct fuel as [|k]; [cbn in F; lia|].
      destruct (H [] r rs eq_refl first (map add_nl (flat_map enc rs) ++ add_nl [] :: rest)) as [l [tl [E [B St]]]].
      cbn [flat_map]. rewrite E. cbn [app map loop]. rewrite B.
      rewrite map_app, <- app_assoc. cbn [run fold_left] in St. rewrite St. cbn [bind fst snd].
      rewrite IH; [reflexivity| |cbn [length] in F; lia].
      intros pre r' post Eq. specialize (H (r :: pre) r' post). cbn [app] in H. rewrite Eq in H.
      exact (H eq_refl).
  Qed.
End Loop.
