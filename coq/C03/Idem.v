(** C03 -- writing the re-read geometry: [write (canon g) = write g] byte for byte, given
    that every field of every record re-formats to the same text (decidable, field level;
    evaluated by the driver on every generated geometry).  The structure -- which sections
    are present, their order, one line per surface column / well point, the header -- is
    proved here for any number of records. *)
From Coq Require Import Ascii String List Bool Arith ZArith NArith Lia.
From PTBase Require Import Exn PyStr PyNum PyVal Fmt FixedFormat.
From Gen Require Import GenTables GenMulgrid.
From P Require Import Flt Lines MulgridIO RoundTrip Header.
Import ListNotations.
Open Scope Z_scope.
Open Scope list_scope.

Definition res_str_eqb (a b : res str) : bool :=
  match a, b with
  | Ok x, Ok y => str_eqb x y
  | Raise x, Raise y => exn_eqb x y
  | _, _ => false
  end.
Lemma res_str_eqb_eq a b : res_str_eqb a b = true -> a = b.
Proof.
  destruct a, b; cbn; intro H; try discriminate.
  - apply str_eqb_eq in H. congruence.
  - apply exn_eqb_eq in H. congruence.
Qed.

(** the fields of [vals'] format to the same texts as those of [vals] *)
Fixpoint same_fields (specs : list fspec) (vals vals' : list value) : bool :=
  match specs, vals, vals' with
  | f :: fs, v :: vs, v' :: vs' => res_str_eqb (fmt_field f v') (fmt_field f v) && same_fields fs vs vs'
  | _ :: _, [], [] => true
  | [], _, _ => true
  | _, _, _ => false
  end.
Lemma same_fields_write specs : forall vals vals', same_fields specs vals vals' = true ->
  write_fields specs vals' = write_fields specs vals.
Proof.
  induction specs as [|f fs IH]; intros vals vals' H; [destruct vals, vals'; reflexivity|].
  destruct vals as [|v vs], vals' as [|v' vs']; cbn [same_fields] in H; try discriminate; [reflexivity|].
  apply andb_prop in H as [H1 H2]. apply res_str_eqb_eq in H1. cbn [write_fields]. rewrite H1, (IH _ _ H2). reflexivity.
Qed.
Definition same_rec (r : string) (vals vals' : list value) : bool :=
  match specs_of r with Ok specs => same_fields specs vals vals' | Raise _ => true end.
Lemma same_rec_wrec r vals vals' : same_rec r vals vals' = true -> wrec r vals' = wrec r vals.
Proof.
  unfold same_rec, wrec. destruct (specs_of r) as [specs|e]; [|reflexivity]. intro H. cbn [bind].
  unfold write_values. rewrite (same_fields_write _ _ _ H). reflexivity.
Qed.

Lemma mapM_map_ext {A B C} (f : B -> res C) (f' : A -> res C) (h : A -> B) l :
  (forall x, In x l -> f (h x) = f' x) -> mapM f (map h l) = mapM f' l.
Proof.
  induction l as [|a l IH]; intro H; [reflexivity|]. cbn [map mapM]. rewrite (H a (or_introl eq_refl)), IH; [reflexivity|].
  intros x I. apply H. right. exact I.
Qed.

Section IdemBody.
  Variable L LL : nat.
  Variable scw scr : dy.
  Definition idem_node (n : node) : bool := same_rec "node" (node_vals scw n) (node_vals scr (canon_node L scw scr n)).
  Definition idem_col (c : column) : bool :=
    same_rec "column" (column_vals scw c) (column_vals scr (canon_column L scw scr c)) &&
    forallb (fun nm => same_rec "column_node" (colnode_vals nm) (colnode_vals (canon_name L nm))) (c_nodes c).
  Definition idem_con (c : str * str) : bool := same_rec "connection" (con_vals c) (con_vals (canon_con L c)).
  Definition idem_lay (ll' : layer * layer) : bool := same_rec "layer" (layer_vals scw (fst ll')) (layer_vals scr (snd ll')).
  Definition idem_surf (ns : str * dy) : bool :=
    same_rec "surface" (surf_vals scw (fst ns) (snd ns)) (surf_vals scr (canon_name L (fst ns)) (rt_surf scw scr (snd ns))).
  Definition idem_wpt (np : str * pt3) : bool :=
    same_rec "well" (well_vals scw (fst np) (snd np)) (well_vals scr (canon_wname (fst np)) (canon_pt scw scr (snd np))).
  Definition idem_body (g : geo) : bool :=
    forallb idem_node (g_nodes g) && forallb idem_col (g_cols g) && forallb idem_con (g_cons g) &&
    forallb idem_lay (combine (g_lays g) (canon_layers LL scw scr None (g_lays g))) &&
    forallb idem_surf (surf_cols (g_cols g)) && forallb idem_wpt (well_points (g_wells g)).

  Lemma idem_nodes_eq ns : forallb idem_node ns = true ->
    mapM (fun n => wrec "node" (node_vals scr n)) (map (canon_node L scw scr) ns) = mapM (fun n => wrec "node" (node_vals scw n)) ns.
  Proof.
    intro H. apply mapM_map_ext. intros n I. rewrite forallb_forall in H. apply same_rec_wrec. exact (H n I).
  Qed.
  Lemma idem_col_lines c : idem_col c = true -> column_lines scr (canon_column L scw scr c) = column_lines scw c.
  Proof.
    unfold idem_col, column_lines. intro H. apply andb_prop in H as [H1 H2].
    rewrite (same_rec_wrec _ _ _ H1). cbn [canon_column c_nodes].
    rewrite (mapM_map_ext (fun nm => wrec "column_node" (colnode_vals nm)) (fun nm => wrec "column_node" (colnode_vals nm)) (canon_name L)); [reflexivity|].
    intros nm I. rewrite forallb_forall in H2. apply same_rec_wrec. exact (H2 nm I).
  Qed.
  Lemma idem_cols_eq cs : forallb idem_col cs = true ->
    mapM (column_lines scr) (map (canon_column L scw scr) cs) = mapM (column_lines scw) cs.
  Proof. intro H. apply mapM_map_ext. intros c I. rewrite forallb_forall in H. apply idem_col_lines. exact (H c I). Qed.
  Lemma idem_cons_eq cs : forallb idem_con cs = true ->
    mapM (fun c => wrec "connection" (con_vals c)) (map (canon_con L) cs) = mapM (fun c => wrec "connection" (con_vals c)) cs.
  Proof. intro H. apply mapM_map_ext. intros c I. rewrite forallb_forall in H. apply same_rec_wrec. exact (H c I). Qed.
  Lemma idem_lays_eq ls : forall prev, forallb idem_lay (combine ls (canon_layers LL scw scr prev ls)) = true ->
    mapM (fun l => wrec "layer" (layer_vals scr l)) (canon_layers LL scw scr prev ls) = mapM (fun l => wrec "layer" (layer_vals scw l)) ls.
  Proof.
    induction ls as [|l r IH]; intros prev H; [reflexivity|].
    rewrite canon_layers_cons in *. cbn [combine forallb] in H. apply andb_prop in H as [H1 H2].
    cbn [mapM]. unfold idem_lay in H1. cbn [fst snd] in H1. rewrite (same_rec_wrec _ _ _ H1), (IH _ H2). reflexivity.
  Qed.
  Lemma surf_cols_canon cs : surf_cols (map (canon_column L scw scr) cs)
    = map (fun ns => (canon_name L (fst ns), rt_surf scw scr (snd ns))) (surf_cols cs).
  Proof.
    induction cs as [|c r IH]; [reflexivity|]. unfold surf_cols in *. cbn [map flat_map]. rewrite IH, map_app. f_equal.
    destruct c as [nm ctr nds [s|]]; reflexivity.
  Qed.
  Lemma idem_surf_eq xs : forallb idem_surf xs = true ->
    mapM (fun ns => wrec "surface" (surf_vals scr (fst ns) (snd ns))) (map (fun ns => (canon_name L (fst ns), rt_surf scw scr (snd ns))) xs)
    = mapM (fun ns => wrec "surface" (surf_vals scw (fst ns) (snd ns))) xs.
  Proof. intro H. apply mapM_map_ext. intros c I. rewrite forallb_forall in H. apply same_rec_wrec. exact (H c I). Qed.
  Lemma well_points_canon ws : well_points (map (canon_well scw scr) ws)
    = map (fun np => (canon_wname (fst np), canon_pt scw scr (snd np))) (well_points ws).
  Proof.
    induction ws as [|w r IH]; [reflexivity|]. unfold well_points in *. cbn [map flat_map]. rewrite IH, map_app. f_equal.
    destruct w as [nm ps]. cbn [canon_well w_name w_pos]. rewrite !map_map. reflexivity.
  Qed.
  Lemma idem_wpt_eq xs : forallb idem_wpt xs = true ->
    mapM (fun np => wrec "well" (well_vals scr (fst np) (snd np))) (map (fun np => (canon_wname (fst np), canon_pt scw scr (snd np))) xs)
    = mapM (fun np => wrec "well" (well_vals scw (fst np) (snd np))) xs.
  Proof. intro H. apply mapM_map_ext. intros c I. rewrite forallb_forall in H. apply same_rec_wrec. exact (H c I). Qed.
End IdemBody.

(** the decidable field-level hypothesis *)
Definition idem_ok (g : geo) : bool :=
  let h := g_hdr g in let h' := canon_header h in
  str_eqb (h_type h') (s2l supported_type) &&
  res_str_eqb (write_values hspecs (header_vals hnames h')) (write_values hspecs (header_vals hnames h)) &&
  idem_body (len_or_0 colname_lengths (h_conv h')) (len_or_0 layername_lengths (h_conv h'))
            (scale_or_one (h_unit h)) (scale_or_one (h_unit h')) g.

Theorem write_canon_idem g : wf g = true -> idem_ok g = true -> write (canon g) = write g.
Proof.
  intros W I. pose proof (wf_same_scale g W) as SS.
  unfold idem_ok in I. apply andb_prop in I as [I IB]. apply andb_prop in I as [T IH]. apply res_str_eqb_eq in IH.
  unfold idem_body in IB. repeat (apply andb_prop in IB; destruct IB as [IB ?]).
  unfold canon. rewrite T.
  set (L := len_or_0 colname_lengths _) in *. set (LL := len_or_0 layername_lengths _) in *.
  set (scw := scale_or_one (h_unit (g_hdr g))) in *. set (scr := scale_or_one (h_unit (canon_header (g_hdr g)))) in *.
  unfold write. f_equal. unfold write_lines. cbn [g_hdr g_nodes g_cols g_cons g_lays g_wells].
  rewrite SS. destruct (unit_scale_of (h_unit (g_hdr g))) as [sc|e] eqn:U; [|reflexivity]. cbn [bind].
  assert (Ew : scw = sc) by (unfold scw, scale_or_one; rewrite U; reflexivity).
  assert (Er : scr = sc) by (unfold scr, scale_or_one; rewrite SS; reflexivity).
  rewrite rec_header. cbn [bind fst snd]. rewrite IH.
  clearbody scw scr. subst scw scr.
  rewrite (idem_nodes_eq L sc sc _ IB), (idem_cols_eq L sc sc _ H3), (idem_cons_eq L _ H2), (idem_lays_eq LL sc sc _ _ H1).
  rewrite surf_cols_canon.
  assert (S5 : match map (fun ns => (canon_name L (fst ns), rt_surf sc sc (snd ns))) (surf_cols (g_cols g)) with
               | [] => Ok []
               | sf => section "write_surface" (mapM (fun ns => wrec "surface" (surf_vals sc (fst ns) (snd ns))) sf) end
             = match surf_cols (g_cols g) with
               | [] => Ok []
               | sf => section "write_surface" (mapM (fun ns => wrec "surface" (surf_vals sc (fst ns) (snd ns))) sf) end).
  { pose proof (idem_surf_eq L sc sc _ H0) as E. destruct (surf_cols (g_cols g)); [reflexivity|]. cbn [map] in *. rewrite E. reflexivity. }
  rewrite S5.
  assert (S6 : match map (canon_well sc sc) (g_wells g) with
               | [] => Ok []
               | ws => section "write_wells" (mapM (fun np => wrec "well" (well_vals sc (fst np) (snd np))) (well_points ws)) end
             = match g_wells g with
               | [] => Ok []
               | ws => section "write_wells" (mapM (fun np => wrec "well" (well_vals sc (fst np) (snd np))) (well_points ws)) end).
  { pose proof (idem_wpt_eq sc sc _ H) as E. rewrite <- well_points_canon in E.
    destruct (g_wells g); [reflexivity|]. cbn [map] in *. rewrite E. reflexivity. }
  rewrite S6. reflexivity.
Qed.
