(** C03 -- [cmp_ok] from a distance condition: every comparison surface > layer bottom /
    surface <= layer top keeps its outcome when the two elevations are the same double or differ
    by more than  scale/100 + 2^-21  (twice the round-trip error of a 2-decimal field). *)
From Coq Require Import Ascii String List Bool Arith ZArith NArith Lia QArith Qabs Lqa.
From PTBase Require Import Exn PyStr PyNum PyVal Fmt FixedFormat.
From Gen Require Import GenTables GenMulgrid.
From P Require Import Flt Lines MulgridIO RoundTrip Header Fields Natural Canon Rounding RealIdem NatIdem ErrBound NameLists SciIdem HdrOk.
Import ListNotations.
Open Scope Q_scope.

Definition Qs (a : dy) : Q := if dneg a then - Vq a else Vq a.
Lemma snd_nd_pos a : (0 < snd (dy_num_den a))%Z.
Proof. unfold dy_num_den, num_den. destruct (0 <=? de a)%Z eqn:E; cbn [snd]; [lia|apply Z.leb_gt in E; apply Z.pow_pos_nonneg; lia]. Qed.
Lemma Qv_Qs a : Qv a == Qs a.
Proof.
  unfold Qv, Qs, Vq, Vnd, qv. pose proof (snd_nd_pos a) as P. rewrite Qmake_Qdiv, Z2Pos.id by exact P.
  destruct (dneg a); [rewrite inject_Z_opp|]; unfold Qdiv; ring.
Qed.
Lemma qleb_le a b : qleb a b = true <-> a <= b.
Proof. unfold qleb, Qle. rewrite Z.leb_le. rewrite (Z.mul_comm (Zpos (Qden b))), (Z.mul_comm (Zpos (Qden a))). reflexivity. Qed.
Lemma qleb_iff a b a' b' : (a <= b <-> a' <= b') -> qleb a b = qleb a' b'.
Proof.
  intro H. destruct (qleb a b) eqn:E, (qleb a' b') eqn:E'; try reflexivity.
  - apply qleb_le in E. apply H in E. apply qleb_le in E. congruence.
  - apply qleb_le in E'. apply H in E'. apply qleb_le in E'. congruence.
Qed.

(** the re-read elevation (all elevation fields are %10.2f: table facts) *)
Definition Rl (sc : dy) (a : dy) : dy := rt_num (sp "layer" 1) sc sc a.
Lemma rt_surf_is_Rl sc a : rt_surf sc sc a = Rl sc a.
Proof. reflexivity. Qed.
Lemma layer_spec_facts : ft (sp "layer" 1) = Tf /\ prec (sp "layer" 1) = 2%Z.
Proof. split; reflexivity. Qed.

Definition marg (sc : dy) : Q := Vq sc * (1 # 100) + (1 # 2097152).
Definition pair_ok (sc a b : dy) : bool := dy_eqb a b || negb (Qle_bool (Qabs (Qs a - Qs b)) (marg sc)).

Lemma Rl_err sc a : scale_ok sc = true -> mag_ok sc a = true ->
  Qs a - (Vq sc * (1 # 200) + e22) <= Qs (Rl sc a) <= Qs a + (Vq sc * (1 # 200) + e22).
Proof.
  intros Hs Hm. destruct layer_spec_facts as [T P].
  destruct (rt_error (sp "layer" 1) sc a T ltac:(rewrite P; lia) Hs Hm) as [_ [G [B1 B2]]].
  rewrite P in B1, B2. change (inject_Z (pow10 2)) with 100 in B1, B2.
  assert (E : Vq sc * (1 # 2) / 100 == Vq sc * (1 # 200)) by (unfold Qdiv; change (/ 100) with (1 # 100); ring).
  rewrite E in B1, B2. unfold Qs, Rl. rewrite G. destruct (dneg a); split; lra.
Qed.

Lemma cmp_pres sc a b : scale_ok sc = true -> mag_ok sc a = true -> mag_ok sc b = true -> pair_ok sc a b = true ->
  qleb (Qv (Rl sc a)) (Qv (Rl sc b)) = qleb (Qv a) (Qv b).
Proof.
  intros Hs Ma Mb H. unfold pair_ok in H. apply orb_prop in H as [H|H].
  - apply dy_eqb_eq in H. subst b. apply qleb_iff. split; intro; apply Qle_refl.
  - apply negb_true_iff in H. assert (S : ~ Qabs (Qs a - Qs b) <= marg sc) by (intro X; apply Qle_bool_iff in X; congruence).
    destruct (Rl_err sc a Hs Ma) as [A1 A2]. destruct (Rl_err sc b Hs Mb) as [B1 B2].
    apply qleb_iff. rewrite !Qv_Qs. unfold marg, e22 in *.
    assert (SEP : Qs a - Qs b > Vq sc * (1 # 100) + (1 # 2097152) \/ Qs b - Qs a > Vq sc * (1 # 100) + (1 # 2097152)).
    { destruct (Qlt_le_dec (Vq sc * (1 # 100) + (1 # 2097152)) (Qs a - Qs b)) as [L|L]; [left; exact L|].
      destruct (Qlt_le_dec (Vq sc * (1 # 100) + (1 # 2097152)) (Qs b - Qs a)) as [L'|L']; [right; exact L'|].
      exfalso. apply S. apply Qabs_Qle_condition. split; lra. }
    destruct (scale_bounds sc Hs) as [_ [_ [_ [S1 _]]]].
    destruct SEP; split; intro; lra.
Qed.

(** * the elevations the name lists compare *)
Definition b0_of (g : geo) : dy := match g_lays g with l0 :: _ => l_bottom l0 | [] => dy_zero end.
Definition surf_val (g : geo) (c : column) : dy := match c_surf c with Some s => s | None => b0_of g end.
Definition sep_ok (sc : dy) (g : geo) : bool :=
  let svs := b0_of g :: map (surf_val g) (g_cols g) in
  let bots := map l_bottom (g_lays g) in
  forallb (mag_ok sc) (svs ++ bots) && forallb (fun a => forallb (pair_ok sc a) bots) svs.

Lemma ground_b0 g : ground g = Qv (b0_of g).
Proof. unfold ground, b0_of. destruct (g_lays g); reflexivity. Qed.

Section Sep.
  Variable L LL : nat.
  Variable sc : dy.
  Variable g : geo.
  Hypothesis Hs : scale_ok sc = true.
  Hypothesis SEP : sep_ok sc g = true.
  Hypothesis NCc : forall c, In c (g_cols g) -> canon_name L (c_name c) = c_name c.

  Let cols' := map (canon_column L sc sc) (g_cols g).
  Let lays' := canon_layers LL sc sc None (g_lays g).
  (** a "surface-side" elevation and a "layer-side" elevation of the geometry *)
  Definition SV (a : dy) : Prop := a = b0_of g \/ In a (map (surf_val g) (g_cols g)).
  Definition BT (b : dy) : Prop := In b (map l_bottom (g_lays g)).

  Lemma sv_bt a b : SV a -> BT b ->
    qleb (Qv (Rl sc a)) (Qv (Rl sc b)) = qleb (Qv a) (Qv b).
  Proof.
    intros Ha Hb. pose proof SEP as H. unfold sep_ok in H. cbv zeta in H. apply andb_prop in H as [M P].
    rewrite forallb_forall in M, P.
    assert (Ia : In a (b0_of g :: map (surf_val g) (g_cols g))) by (destruct Ha as [E|I]; [left; symmetry; exact E|right; exact I]).
    apply cmp_pres; [exact Hs|apply M; apply in_or_app; left; exact Ia|apply M; apply in_or_app; right; exact Hb|].
    specialize (P a Ia). rewrite forallb_forall in P. apply P. exact Hb.
  Qed.

  (** the bottom of the first re-read layer *)
  Lemma b0_canon : match lays' with l0 :: _ => l_bottom l0 | [] => dy_zero end = match g_lays g with _ :: _ => Rl sc (b0_of g) | [] => dy_zero end.
  Proof. unfold lays', b0_of. destruct (g_lays g) as [|l r]; [reflexivity|]. rewrite canon_layers_cons. reflexivity. Qed.

  (** layers, pairwise *)
  Lemma nlayers_pairs ls : forall top top' prev,
    (forall l, In l ls -> BT (l_bottom l)) ->
    ((top = None /\ top' = None) \/ (exists t, BT t /\ top = Some (Qv t) /\ top' = Some (Qv (Rl sc t)))) ->
    forall l l', In (l, l') (combine (nlayers top ls) (nlayers top' (canon_layers LL sc sc prev ls))) ->
    exists b t, BT b /\ BT t /\ lbot l = Qv b /\ lbot l' = Qv (Rl sc b) /\ ltop l = Qv t /\ ltop l' = Qv (Rl sc t).
  Proof.
    induction ls as [|l0 r IH]; intros top top' prev HB HT l l' I; [destruct I|].
    rewrite canon_layers_cons in I. cbn [nlayers combine] in I.
    assert (B0 : BT (l_bottom l0)) by (apply HB; left; reflexivity).
    assert (E0 : l_bottom (canon_lay1 LL sc sc prev l0) = Rl sc (l_bottom l0)) by reflexivity.
    destruct I as [I|I].
    - injection I as I1 I2. subst l l'. cbn [lbot ltop].
      destruct HT as [[T1 T2]|[t [Bt [T1 T2]]]]; subst top top'.
      + exists (l_bottom l0), (l_bottom l0). repeat split; assumption || reflexivity.
      + exists (l_bottom l0), t. repeat split; assumption || reflexivity.
    - eapply IH; [| |exact I].
      + intros x Hx. apply HB. right. exact Hx.
      + right. exists (l_bottom l0). split; [exact B0|]. split; reflexivity.
  Qed.

  (** columns, pairwise *)
  Definition gr := Qv (b0_of g).
  Definition gr' := Qv (match g_lays g with _ :: _ => Rl sc (b0_of g) | [] => dy_zero end).
  Lemma col_pair c : In c (g_cols g) -> g_lays g <> [] ->
    cname (ncolumn_of gr' (canon_column L sc sc c)) = cname (ncolumn_of gr c) /\
    exists a, SV a /\ csurf (ncolumn_of gr c) = Qv a /\ csurf (ncolumn_of gr' (canon_column L sc sc c)) = Qv (Rl sc a).
  Proof.
    intros I NE. split; [cbn [ncolumn_of canon_column cname c_name]; apply NCc; exact I|].
    exists (surf_val g c). split; [right; apply in_map; exact I|].
    unfold ncolumn_of, surf_val, gr, gr'. cbn [canon_column c_surf csurf]. destruct (g_lays g); [congruence|].
    destruct (c_surf c); split; reflexivity.
  Qed.
  Lemma cols_pairs : g_lays g <> [] -> forall c c', In (c, c') (combine (map (ncolumn_of gr) (g_cols g)) (map (ncolumn_of gr') cols')) ->
    cname c' = cname c /\ exists a, SV a /\ csurf c = Qv a /\ csurf c' = Qv (Rl sc a).
  Proof.
    intros NE c c' I. unfold cols' in I. rewrite map_map in I.
    assert (X : exists x, In x (g_cols g) /\ c = ncolumn_of gr x /\ c' = ncolumn_of gr' (canon_column L sc sc x)).
    { revert I. generalize (g_cols g) at 1 2 3. induction l as [|x r IH]; intro I; [destruct I|]. cbn [map combine] in I. destruct I as [I|I].
      - injection I as I1 I2. exists x. split; [left; reflexivity|split; congruence].
      - destruct (IH I) as [y [Iy E]]. exists y. split; [right; exact Iy|exact E]. }
    destruct X as [x [Ix [E1 E2]]]. subst c c'. apply col_pair; assumption.
  Qed.

  (** column look-up by (canonical) name, pairwise *)
  Lemma lookup_pair nm : g_lays g <> [] ->
    exists a, SV a /\ csurf (ncol_lookup gr (map (ncolumn_of gr) (g_cols g)) nm) = Qv a /\
              csurf (ncol_lookup gr' (map (ncolumn_of gr') cols') nm) = Qv (Rl sc a).
  Proof.
    intro NE. unfold ncol_lookup, cols'.
    assert (G : forall cs, (forall c, In c cs -> In c (g_cols g)) ->
      (exists a, SV a /\
         csurf match find (fun c => str_eqb (cname c) nm) (map (ncolumn_of gr) cs) with Some c => c | None => mkNC nm gr 0 end = Qv a /\
         csurf match find (fun c => str_eqb (cname c) nm) (map (ncolumn_of gr') (map (canon_column L sc sc) cs)) with Some c => c | None => mkNC nm gr' 0 end = Qv (Rl sc a))).
    { induction cs as [|x r IH]; intro Sub.
      - cbn [map find csurf]. exists (b0_of g). split; [left; reflexivity|]. unfold gr, gr'. destruct (g_lays g); [congruence|]. split; reflexivity.
      - cbn [map find]. destruct (col_pair x (Sub x (or_introl eq_refl)) NE) as [N [a [Sa [A1 A2]]]]. rewrite N.
        destruct (str_eqb (cname (ncolumn_of gr x)) nm); [exists a; auto|]. apply IH. intros c Ic. apply Sub. right. exact Ic. }
    apply G. auto.
  Qed.
End Sep.

Lemma combine_map_same {A B C} (f : A -> B) (f' : A -> C) l x y : In (x, y) (combine (map f l) (map f' l)) -> exists k, In k l /\ x = f k /\ y = f' k.
Proof.
  induction l as [|a r IH]; intro I; [destruct I|]. cbn [map combine] in I. destruct I as [I|I].
  - injection I as I1 I2. exists a. split; [left; reflexivity|split; congruence].
  - destruct (IH I) as [k [Ik E]]. exists k. split; [right; exact Ik|exact E].
Qed.
Lemma eqb_refl' b b' : b = b' -> Bool.eqb b b' = true.
Proof. intro E. subst. apply Bool.eqb_reflx. Qed.

(** THE margin theorem: same double or further apart than the margin => every comparison is kept *)
Theorem sep_cmp_ok g sc : hdr_ok (g_hdr g) = true -> unit_scale_of (h_unit (g_hdr g)) = Ok sc ->
  str_eqb (h_type (canon_header (g_hdr g))) (s2l supported_type) = true ->
  names_canonical g = true -> sep_ok sc g = true -> cmp_ok g = true.
Proof.
  intros Hh U T NC SEP. pose proof (unit_scale_ok _ _ U) as Hs.
  destruct (canon_keeps_names g T NC) as [_ [_ [_ [K4 _]]]].
  set (L := len_or_0 colname_lengths (h_conv (canon_header (g_hdr g)))) in *.
  set (LL := len_or_0 layername_lengths (h_conv (canon_header (g_hdr g)))) in *.
  assert (NCc : forall c, In c (g_cols g) -> canon_name L (c_name c) = c_name c).
  { unfold names_canonical in NC. fold L LL in NC. apply andb_prop in NC as [NC _]. apply andb_prop in NC as [NC _]. apply andb_prop in NC as [_ NC].
    rewrite forallb_forall in NC. intros c I. specialize (NC c I). apply andb_prop in NC as [A _]. apply str_eqb_eq. exact A. }
  assert (CG : canon g = mkgeo (canon_header (g_hdr g)) (map (canon_node L sc sc) (g_nodes g)) (map (canon_column L sc sc) (g_cols g))
                          (map (canon_con L) (g_cons g)) (canon_layers LL sc sc None (g_lays g)) (map (canon_well sc sc) (g_wells g))).
  { unfold canon. rewrite T. fold L LL. unfold scale_or_one. rewrite (unit_type_preserved _ _ Hh U), U. reflexivity. }
  unfold cmp_ok, cmp_same.
  assert (D : g_lays g = [] \/ g_lays g <> []) by (destruct (g_lays g); [left; reflexivity|right; discriminate]).
  destruct D as [EL|NE].
  - assert (E0 : layers (geom_of g) = []) by (unfold geom_of; cbn [layers]; rewrite EL; reflexivity). rewrite E0. reflexivity.
  - 
    assert (LG : layers (geom_of g) = nlayers None (g_lays g)) by reflexivity.
    assert (LG' : layers (geom_of (canon g)) = nlayers None (canon_layers LL sc sc None (g_lays g))) by (rewrite CG; reflexivity).
    assert (GR : ground g = gr g) by apply ground_b0.
    assert (GR' : ground (canon g) = gr' sc g).
    { rewrite CG. unfold ground, gr', b0_of. cbn [g_lays]. destruct (g_lays g) as [|l0 lr]; [congruence|]. rewrite canon_layers_cons. reflexivity. }
    assert (CGc : columns (geom_of g) = map (ncolumn_of (gr g)) (g_cols g)) by (unfold geom_of; cbn [columns]; rewrite GR; reflexivity).
    assert (CGc' : columns (geom_of (canon g)) = map (ncolumn_of (gr' sc g)) (map (canon_column L sc sc) (g_cols g))).
    { unfold geom_of. cbn [columns]. rewrite GR'. rewrite CG. reflexivity. }
    assert (HG : hconns (geom_of g) = map (fun k => mkNH (ncol_lookup (gr g) (map (ncolumn_of (gr g)) (g_cols g)) (fst k))
                                                          (ncol_lookup (gr g) (map (ncolumn_of (gr g)) (g_cols g)) (snd k))) (g_cons g))
      by (unfold geom_of; cbn [hconns]; rewrite GR; reflexivity).
    assert (HG' : hconns (geom_of (canon g)) = map (fun k => mkNH (ncol_lookup (gr' sc g) (map (ncolumn_of (gr' sc g)) (map (canon_column L sc sc) (g_cols g))) (fst k))
                                                                  (ncol_lookup (gr' sc g) (map (ncolumn_of (gr' sc g)) (map (canon_column L sc sc) (g_cols g))) (snd k))) (g_cons g)).
    { unfold geom_of. cbn [hconns]. rewrite GR'. rewrite K4. rewrite CG. reflexivity. }
    rewrite LG, LG', CGc, CGc', HG, HG'.
    rewrite forallb_forall. intros [l l'] IL. cbn [fst snd].
    apply combine_tl in IL.
    destruct (nlayers_pairs LL sc g (g_lays g) None None None) with (l := l) (l' := l') as [b [t [Bb [Bt [E1 [E2 [E3 E4]]]]]]];
      [intros x Hx; unfold BT; apply in_map; exact Hx|left; auto|exact IL|].
    apply andb_true_intro. split.
    + rewrite forallb_forall. intros [c c'] IC. cbn [fst snd].
      destruct (cols_pairs L LL sc g NCc NE c c' IC) as [_ [a [Sa [A1 A2]]]].
      rewrite A1, A2, E1, E2, E3, E4. unfold Qgtb.
      rewrite (sv_bt sc g Hs SEP a b Sa Bb), (sv_bt sc g Hs SEP a t Sa Bt), !Bool.eqb_reflx. reflexivity.
    + rewrite forallb_forall. intros [h h'] IH. cbn [fst snd].
      apply combine_map_same in IH as [k [_ [Eh Eh']]]. subst h h'. unfold hconn_in_layer. cbn [hcolA hcolB].
      destruct (lookup_pair L LL sc g NCc (fst k) NE) as [a1 [S1 [X1 Y1]]].
      destruct (lookup_pair L LL sc g NCc (snd k) NE) as [a2 [S2 [X2 Y2]]].
      rewrite X1, Y1, X2, Y2, E1, E2. unfold Qgtb.
      rewrite (sv_bt sc g Hs SEP a1 b S1 Bb), (sv_bt sc g Hs SEP a2 b S2 Bb). apply Bool.eqb_reflx.
Qed.

(** the name lists under the distance condition (no comparison of re-read values in the hypothesis) *)
Definition names_hyp (g : geo) : bool :=
  HdrOk.hdr_arith (g_hdr g) && str_eqb (h_type (canon_header (g_hdr g))) (s2l supported_type) && names_canonical g &&
  match unit_scale_of (h_unit (g_hdr g)) with Ok sc => sep_ok sc g | Raise _ => false end.
Theorem name_lists_margin g : names_hyp g = true ->
  block_name_list (geom_of (canon g)) = block_name_list (geom_of g) /\
  block_connection_name_list (geom_of (canon g)) = block_connection_name_list (geom_of g).
Proof.
  unfold names_hyp. intro H. apply andb_prop in H as [H S]. apply andb_prop in H as [H NC]. apply andb_prop in H as [A T].
  pose proof (HdrOk.hdr_arith_ok _ A) as Hh. destruct (unit_scale_of (h_unit (g_hdr g))) as [sc|] eqn:U; [|discriminate].
  apply name_lists_kept; try assumption. exact (sep_cmp_ok g sc Hh U T NC S).
Qed.
