(** C03 -- a real that fits its [%w.pf] field (p = 1 or 2, w <= 10) is re-written with the
    same text after the trip through the file and back (scales 1.0 and 0.3048). *)
From Coq Require Import Ascii String List Bool Arith ZArith NArith Lia.
From PTBase Require Import Exn PyStr PyNum PyVal Fmt FixedFormat.
From PTModel Require Import Fortran FortranNF FortranRender.
From Gen Require Import GenTables GenMulgrid.
From P Require Import Flt Lines MulgridIO RoundTrip Fields Idem Rounding.
Import ListNotations.
Open Scope list_scope.

(** * a digit string of k digits denotes a number below 10^k *)
Open Scope N_scope.
Lemma dvalue_upper ds : all_digits ds = true -> dvalue 0 ds < 10 ^ N.of_nat (length ds).
Proof.
  induction ds as [|c r IH]; intro A; [cbn; lia|].
  cbn in A. apply andb_prop in A as [D A]. specialize (IH A).
  cbn [dvalue length]. rewrite dvalue_shift, Nat2N.inj_succ, N.pow_succ_r'.
  assert (B : ndval c <= 9).
  { unfold ndval, dval. pose proof (is_digit_cases c D) as I. cbn in I.
    repeat (destruct I as [I|I]; [subst c; cbn; lia|]). destruct I. }
  nia.
Qed.
Lemma n_to_str_upper n : n < 10 ^ N.of_nat (length (n_to_str n)).
Proof. rewrite <- (n_to_str_value n) at 1. apply dvalue_upper. apply n_to_str_digits. Qed.
Close Scope N_scope.

(** the text of [%w.pf] is a function of the rounded integer only *)
Definition rN (p : Z) (m e : Z) : Z := rhe (fst (num_den m e) * pow10 p) (snd (num_den m e)).
Lemma fmt_f_body_N p m e m' e' : rN p m e = rN p m' e' -> fmt_f_body p m e = fmt_f_body p m' e'.
Proof.
  unfold rN, fmt_f_body. destruct (num_den m e) as [n d], (num_den m' e') as [n' d']. cbn [fst snd]. intro H. rewrite H. reflexivity.
Qed.

(** a body of at most 10 characters carries fewer than 10^9 units of the last decimal *)
Lemma body_bound p m e : (1 <= p)%Z -> (0 <= m)%Z -> (length (fmt_f_body p m e) <= 10)%nat -> (rN p m e < 10 ^ 9)%Z.
Proof.
  intros Hp Hm L. destruct (num_den_pos m e Hm) as [Hn Hd]. unfold rN. unfold fmt_f_body in L.
  destruct (num_den m e) as [num den]. cbn [fst snd] in *.
  set (N := rhe (num * pow10 p) den) in *.
  replace (0 <? p)%Z with true in L by (symmetry; apply Z.ltb_lt; lia).
  assert (P10 : (0 < pow10 p)%Z) by (unfold pow10; apply Z.pow_pos_nonneg; lia).
  assert (HN : (0 <= N)%Z) by (apply rhe_nonneg; [apply Z.mul_nonneg_nonneg; lia|exact Hd]).
  rewrite app_length in L. cbn [length] in L. rewrite app_length in L. unfold zeros in L. rewrite repeat_length in L.
  set (li := length (zdigits (N / pow10 p))) in *. set (lf := length (zdigits (N mod pow10 p))) in *.
  assert (LI : (Z.of_nat li <= 9 - p)%Z) by lia.
  pose proof (n_to_str_upper (Z.to_N (N / pow10 p))) as U. fold (zdigits (N / pow10 p)) in U. fold li in U.
  assert (IP : (N / pow10 p < 10 ^ (9 - p))%Z).
  { assert (X : (Z.to_N (N / pow10 p) < 10 ^ Z.to_N (9 - p))%N).
    { eapply N.lt_le_trans; [exact U|]. apply N.pow_le_mono_r; lia. }
    assert (Q : (0 <= N / pow10 p)%Z) by (apply Z.div_pos; lia).
    replace (10 ^ Z.to_N (9 - p))%N with (Z.to_N (10 ^ (9 - p))) in X by (rewrite Z2N.inj_pow by lia; reflexivity).
    apply Z2N.inj_lt in X; [exact X|exact Q|apply Z.pow_nonneg; lia]. }
  pose proof (Z.div_mod N (pow10 p) ltac:(lia)) as DM. pose proof (Z.mod_pos_bound N (pow10 p) P10) as MB.
  replace (10 ^ 9)%Z with (10 ^ (9 - p) * pow10 p)%Z by (unfold pow10; rewrite <- Z.pow_add_r by lia; f_equal; lia).
  nia.
Qed.

(** * THE field-level lemma *)
Lemma dy_div_nonneg x s : (0 <= dm x)%Z -> (0 < dm s)%Z -> (0 <= dm (dy_div x s))%Z.
Proof.
  intros Hx Hs. unfold dy_div, dy_num_den. destruct (num_den_pos (dm x) (de x) Hx) as [A B].
  destruct (num_den_pos (dm s) (de s) ltac:(lia)) as [_ D]. pose proof (num_den_pos_strict (dm s) (de s) Hs) as C.
  destruct (num_den (dm x) (de x)) as [n1 d1], (num_den (dm s) (de s)) as [n2 d2]. cbn [fst snd] in *.
  unfold dy_of_q. destruct (n1 * d2 =? 0)%Z; [cbn; lia|].
  unfold round53. cbv zeta. cbn [dm].
  destruct (0 <=? _)%Z eqn:K; cbn [dm].
  - apply Z.leb_le in K. apply rhe_nonneg; [nia|]. apply Z.mul_pos_pos; [nia|apply Z.pow_pos_nonneg; lia].
  - apply rhe_nonneg; [|nia]. apply Z.mul_nonneg_nonneg; [nia|apply Z.pow_nonneg; lia].
Qed.

Lemma real_idem f s x : ft f = Tf -> (1 <= prec f <= 2)%Z -> (width f <= 10)%nat -> scale_ok s = true ->
  fits_field f (vreal (dy_div x s)) = true ->
  res_str_eqb (fmt_field f (vreal (dy_div (rt_num f s s x) s))) (fmt_field f (vreal (dy_div x s))) = true.
Proof.
  intros T Hp Hw Hs F. set (q1 := dy_div x s) in *.
  unfold fits_field, vreal in F. rewrite T in F. apply andb_prop in F as [F Fl]. apply andb_prop in F as [_ Fm].
  apply Z.leb_le in Fm. apply Nat.leb_le in Fl.
  assert (LB : (length (fmt_f_body (prec f) (dm q1) (de q1)) <= 10)%nat).
  { unfold signed_text in Fl. destruct (dneg q1); cbn [length] in Fl; lia. }
  pose proof (body_bound (prec f) (dm q1) (de q1) ltac:(lia) Fm LB) as NB.
  destruct (trip_digits (prec f) s q1 Hp Hs Fm NB) as [M2 [G2 R2]].
  assert (RT : rt_num f s s x = dy_mul (dy_of_dec (dneg q1) (Z.to_N (rN (prec f) (dm q1) (de q1))) (- prec f)) s).
  { unfold rt_num. fold q1. unfold expected, vreal. rewrite T. unfold dec_f, rN.
    destruct (num_den (dm q1) (de q1)) as [n d]. reflexivity. }
  unfold rN, dy_num_den in *. rewrite <- RT in M2, G2, R2.
  set (q2 := dy_div (rt_num f s s x) s) in *.
  assert (E : fmt_field f (vreal q2) = fmt_field f (vreal q1)); [|rewrite E; destruct (fmt_field f (vreal q1)) as [t|e]; cbn; [apply str_eqb_refl|destruct e; reflexivity]].
  unfold fmt_field, vreal, fmt_raw. rewrite T. cbn [bind]. unfold fmt_f. rewrite G2.
  rewrite (fmt_f_body_N (prec f) (dm q2) (de q2) (dm q1) (de q1) R2).
  fold (signed_text (dneg q1) (fmt_f_body (prec f) (dm q1) (de q1))).
  assert (PE : length (pad (fw f) (signed_text (dneg q1) (fmt_f_body (prec f) (dm q1) (de q1)))) = width f) by (apply pad_exact; exact Fl).
  rewrite PE, Nat.leb_refl. reflexivity.
Qed.
