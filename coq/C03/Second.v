(** C03 -- round 6: the last evaluated hypothesis of the second-write theorem ([centres_ok]) replaced
    by an arithmetic one ("no layer centre prints as zero"), and the end-to-end form of the clause
    "writing the re-read geometry reproduces the first file byte for byte". *)
From Coq Require Import Ascii String List Bool Arith ZArith NArith Lia.
From PTBase Require Import Exn PyStr PyNum PyVal Fmt FixedFormat.
From Gen Require Import GenTables GenMulgrid.
From P Require Import Flt Lines MulgridIO RoundTrip Header Idem Fields Natural Canon Feet Rounding RealIdem NatIdem Examples NameLists SciIdem HdrIdem HdrOk.
Import ListNotations.

(** a layer centre "prints non-zero": centre / scale rounded (half even) to the decimals of the
    field [layer.centre] has a non-zero digit.  No formatting, no reading: integer arithmetic on
    the mantissa/exponent of the double [centre / scale]. *)
Definition centre_prints_nonzero (sc : dy) (l : layer) : bool :=
  let q := dy_div (l_centre l) sc in (0 <? rN (prec (sp "layer" 2)) (dm q) (de q))%Z.
Definition centres_nonzero (g : geo) : bool :=
  forallb (centre_prints_nonzero (scale_or_one (h_unit (g_hdr g)))) (g_lays g).

Lemma centre_nz_ok sc l l' : centre_prints_nonzero sc l = true -> centre_ok sc (l, l') = true.
Proof.
  unfold centre_prints_nonzero, centre_ok. cbv zeta. cbn [fst snd]. intro H. apply Z.ltb_lt in H.
  apply orb_true_intro. left.
  destruct types_layer as [_ [_ T2]].
  change (spec_at "layer" 2) with (sp "layer" 2).
  unfold expected, vreal. rewrite T2. cbv beta iota.
  unfold dec_f. unfold rN in H.
  destruct (num_den (dm (dy_div (l_centre l) sc)) (de (dy_div (l_centre l) sc))) as [num den]. cbn [fst snd] in H.
  cbn [rv_truthy]. apply negb_true_iff. apply N.eqb_neq. lia.
Qed.

Lemma forallb_combine_l {A B} (P : A -> bool) (Q : A * B -> bool) :
  (forall a b, P a = true -> Q (a, b) = true) ->
  forall (xs : list A) (ys : list B), forallb P xs = true -> forallb Q (combine xs ys) = true.
Proof.
  intros PQ xs. induction xs as [|x xs IH]; intros ys H; [reflexivity|].
  destruct ys as [|y ys]; [reflexivity|]. cbn [combine forallb] in *.
  apply andb_prop in H as [H1 H2]. rewrite (PQ x y H1), (IH ys H2). reflexivity.
Qed.

Theorem centres_nonzero_ok g : centres_nonzero g = true -> centres_ok g = true.
Proof.
  unfold centres_nonzero, centres_ok. cbv zeta. apply forallb_combine_l. intros a b. apply centre_nz_ok.
Qed.

(** a centre further than half a unit of the last printed decimal from zero prints non-zero *)
Lemma prints_nonzero_above_half_unit p m e : (0 <= m)%Z ->
  (snd (num_den m e) < 2 * (fst (num_den m e) * pow10 p))%Z -> (0 < rN p m e)%Z.
Proof.
  intros Hm H. unfold rN. destruct (num_den_pos m e Hm) as [Hn Hd].
  set (n := (fst (num_den m e) * pow10 p)%Z) in *. set (d := snd (num_den m e)) in *.
  assert (Hn0 : (0 <= n)%Z) by lia.
  pose proof (rhe_bounds n d Hn0 Hd) as [B _]. nia.
Qed.

(** the second-write class with NOTHING evaluated by the writer or the reader *)
Definition aidem_arith (g : geo) : bool :=
  awf g && str_eqb (h_type (canon_header (g_hdr g))) (s2l supported_type) && hdr_fits (g_hdr g) &&
  names_canonical g && centres_nonzero g.
Theorem aidem_arith_ok g : aidem_arith g = true -> aidem_ok g = true.
Proof.
  unfold aidem_arith, aidem_ok. intro H. apply andb_prop in H as [H X].
  rewrite H, (centres_nonzero_ok g X). reflexivity.
Qed.
Theorem write_idem_pure g : aidem_arith g = true -> write (canon g) = write g.
Proof. intro H. apply write_idem_arith. apply aidem_arith_ok. exact H. Qed.

(** end to end: the file is a fixed point of read-then-write, and the writer does succeed *)
Lemma aidem_awf g : aidem_ok g = true -> awf g = true /\ str_eqb (h_type (canon_header (g_hdr g))) (s2l supported_type) = true.
Proof.
  unfold aidem_ok. intro H. apply andb_prop in H as [H _]. apply andb_prop in H as [H _]. apply andb_prop in H as [H _].
  apply andb_prop in H as [A T]. split; assumption.
Qed.
Theorem second_file_same g b : aidem_ok g = true -> write g = Ok b ->
  read b = Ok (canon g) /\ write (canon g) = Ok b.
Proof.
  intros H W. destruct (aidem_awf g H) as [A _]. split.
  - apply read_write_roundtrip_arith; assumption.
  - rewrite (write_idem_arith g H). exact W.
Qed.
Theorem second_file_total g : aidem_arith g = true ->
  exists b, write g = Ok b /\ read b = Ok (canon g) /\ write (canon g) = Ok b.
Proof.
  intro H0. pose proof (aidem_arith_ok g H0) as H. destruct (aidem_awf g H) as [A T].
  destruct (wf_write_ok g (nwf_wf g (awf_nwf g A)) T) as [b W].
  exists b. split; [exact W|]. apply second_file_same; assumption.
Qed.

Example ex_geo2_aidem_arith : aidem_arith ex_geo2 = true.
Proof. vm_compute. reflexivity. Qed.
