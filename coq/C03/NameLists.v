(** C03 -- the derived block and connection name lists.

    [block_name_list] / [block_connection_name_list] below are a field-trimmed VERBATIM copy
    of the transcription of mulgrids.py setup_block_name_index / block_name_list_layer_column /
    block_name_list_dmplex / setup_block_connection_name_index in coq/C04/FromGeo.v (where it
    is proved equal to what t2grid.fromgeo builds and run against the implementation); the C03
    check runs this copy against the implementation's two lists on every generated geometry.

    The lists depend on: layer names and order, column names and order, node counts,
    the column pairs of the connections, atmosphere type, naming convention, block order, and
    on the OUTCOMES of the comparisons  col.surface > lay.bottom  and  col.surface <= lay.top.
    [canon] keeps all of the former; the comparisons can change only when a surface (or the
    ground level, for a default-surface column) and a layer bottom that differ before the
    trip print as the same decimal -- hypothesis [cmp_ok]. *)
From Coq Require Import Ascii String List Bool Arith ZArith NArith QArith Lia.
From PTBase Require Import Exn PyStr PyNum PyVal Fmt FixedFormat.
From Gen Require Import GenTables GenMulgrid.
From P Require Import Flt Lines MulgridIO RoundTrip Header Canon.
Import ListNotations.
Open Scope list_scope.

(** * numbers: exact rationals, comparisons as in C04 *)
Definition qleb (a b : Q) : bool := (Zpos (Qden b) * Qnum a <=? Zpos (Qden a) * Qnum b)%Z.   (* a <= b *)
Definition Qgtb (a b : Q) : bool := negb (qleb a b).     (* a > b *)

(** * the abstract geometry (the fields of C04's [geom] the name lists read) *)
Record nlayer := mkNL { lname : str; lbot : Q; ltop : Q }.
Record ncolumn := mkNC { cname : str; csurf : Q; cnn : nat }.
Record nhconn := mkNH { hcolA : ncolumn; hcolB : ncolumn }.
Record ngeom := mkNG {
  layers : list nlayer;           (* layerlist; element 0 is the atmosphere layer *)
  columns : list ncolumn;         (* columnlist *)
  hconns : list nhconn;           (* connectionlist *)
  atm_type : nat;                 (* atmosphere_type *)
  convention : nat;
  dmplex : bool }.                (* block_order == 'dmplex' (otherwise None / 'layer_column') *)

Open Scope char_scope.
Definition fix_blockname (n : str) : str :=
  match n with
  | c0 :: c1 :: c2 :: c3 :: c4 :: _ =>
      if is_digit c2 && is_digit c4 && ceqb c3 " " then [c0; c1; c2; "0"; c4] else n
  | _ => n
  end.
Close Scope char_scope.
Definition block_name0 (conv : nat) (ln cn : str) : str :=
  fix_blockname
    (match conv with
     | 0%nat | 3%nat => slice 0 3 cn ++ slice 0 2 ln
     | 1%nat => slice 0 3 ln ++ slice 0 2 cn
     | _ => slice 0 2 ln ++ slice 0 3 cn
     end).
Definition atm_colname (conv : nat) : str :=
  nth conv [s2l "ATM"; s2l " 0"; s2l "  0"; s2l "ATM"] [].
Definition bn (g : ngeom) (l : nlayer) (c : ncolumn) : str :=
  block_name0 (convention g) (lname l) (cname c).

(** [[col for col in columnlist if col.surface > lay.bottom]] *)
Definition layercols (g : ngeom) (l : nlayer) : list ncolumn :=
  filter (fun c => Qgtb (csurf c) (lbot l)) (columns g).
Definition hconn_in_layer (l : nlayer) (h : nhconn) : bool :=
  Qgtb (csurf (hcolA h)) (lbot l) && Qgtb (csurf (hcolB h)) (lbot l).
Fixpoint enum_from {A} (i : nat) (l : list A) : list (nat * A) :=
  match l with [] => [] | a :: r => (i, a) :: enum_from (S i) r end.
Fixpoint cat_some {A} (l : list (option A)) : list A :=
  match l with [] => [] | Some a :: r => a :: cat_some r | None :: r => cat_some r end.

Definition atm_names (g : ngeom) : list str :=
  match layers g with
  | [] => []
  | l0 :: _ =>
      match atm_type g with
      | 0%nat => [block_name0 (convention g) (lname l0) (atm_colname (convention g))]
      | 1%nat => map (fun c => block_name0 (convention g) (lname l0) (cname c)) (columns g)
      | _ => []
      end
  end.
Definition name_list_layer_column (g : ngeom) : list str :=
  flat_map (fun l => map (fun c => bn g l c) (layercols g l)) (tl (layers g)).
Definition name_list_dmplex (g : ngeom) : res (list str) :=
  let all := flat_map (fun l => map (fun c => (cnn c, bn g l c)) (layercols g l)) (tl (layers g)) in
  if forallb (fun p => (fst p =? 4)%nat || (fst p =? 3)%nat) all then
    Ok (map snd (filter (fun p => (fst p =? 4)%nat) all) ++ map snd (filter (fun p => (fst p =? 3)%nat) all))
  else Raise PlainException.
Definition block_name_list (g : ngeom) : res (list str) :=
  match layers g with
  | [] => Ok []
  | _ :: _ =>
      do ug <- (if dmplex g then name_list_dmplex g else Ok (name_list_layer_column g));
      Ok (atm_names g ++ ug)
  end.
Definition mul_vconn (g : ngeom) (names : list str) (ilay : nat) (l : nlayer) (c : ncolumn)
  : res (option (str * str)) :=
  let thisblkname := bn g l c in
  if (ilay =? 0)%nat || qleb (csurf c) (ltop l) then
    match nth_error (layers g) 0 with
    | None => Raise IndexError
    | Some abovelayer =>
        match atm_type g with
        | 0%nat => match names with
                   | a :: _ => Ok (Some (thisblkname, a))
                   | [] => Raise IndexError
                   end
        | 1%nat => Ok (Some (thisblkname, block_name0 (convention g) (lname abovelayer) (cname c)))
        | _ => Ok None
        end
    end
  else
    match nth_error (layers g) ilay with
    | None => Raise IndexError
    | Some abovelayer => Ok (Some (thisblkname, block_name0 (convention g) (lname abovelayer) (cname c)))
    end.
Definition mul_layer_conns (g : ngeom) (names : list str) (il : nat * nlayer) : res (list (str * str)) :=
  let (ilay, l) := il in
  do v <- mapM (mul_vconn g names ilay l) (layercols g l);
  Ok (cat_some v ++
      map (fun h => (bn g l (hcolA h), bn g l (hcolB h)))
          (filter (hconn_in_layer l) (hconns g))).
Definition block_connection_name_list (g : ngeom) : res (list (str * str)) :=
  do names <- block_name_list g;
  do per <- mapM (mul_layer_conns g names) (enum_from 0 (tl (layers g)));
  Ok (concat per).

(** * from the C03 geometry *)
Definition Qv (a : dy) : Q :=
  let nd := dy_num_den a in (if dneg a then (- fst nd)%Z else fst nd) # Z.to_pos (snd nd).
(** identify_layer_tops: the atmosphere layer's top is its bottom, then the bottom above *)
Fixpoint nlayers (top : option Q) (ls : list layer) : list nlayer :=
  match ls with
  | [] => []
  | l :: r => let b := Qv (l_bottom l) in mkNL (l_name l) b (match top with Some t => t | None => b end) :: nlayers (Some b) r
  end.
(** set_default_surface: a default-surface column sits at the ground level *)
Definition ground (g : geo) : Q := match g_lays g with l0 :: _ => Qv (l_bottom l0) | [] => 0 end.
Definition ncolumn_of (gr : Q) (c : column) : ncolumn :=
  mkNC (c_name c) (match c_surf c with Some s => Qv s | None => gr end) (length (c_nodes c)).
Definition ncol_lookup (gr : Q) (cs : list ncolumn) (nm : str) : ncolumn :=
  match find (fun c => str_eqb (cname c) nm) cs with Some c => c | None => mkNC nm gr 0 end.
Definition is_dmplex (bo : option Z) : bool :=
  match bo with
  | Some z => match zlookup z block_orders with Some s => String.eqb s "dmplex" | None => false end
  | None => false
  end.
Definition geom_of (g : geo) : ngeom :=
  let gr := ground g in
  let cs := map (ncolumn_of gr) (g_cols g) in
  mkNG (nlayers None (g_lays g)) cs
       (map (fun k => mkNH (ncol_lookup gr cs (fst k)) (ncol_lookup gr cs (snd k))) (g_cons g))
       (Z.to_nat (h_atm (g_hdr g))) (Z.to_nat (h_conv (g_hdr g))) (is_dmplex (h_bo (g_hdr g))).

(** * positional lemmas *)
Lemma combine_map_eq {A A' B} (f : A -> B) (f' : A' -> B) l : forall l', map f l = map f' l' ->
  length l = length l' /\ forall x x', In (x, x') (combine l l') -> f x = f' x'.
Proof.
  induction l as [|a l IH]; intros [|a' l'] H; cbn [map] in H; try discriminate; [split; [reflexivity|intros ? ? []]|].
  injection H as H0 H. destruct (IH _ H) as [L P]. split; [cbn; rewrite L; reflexivity|].
  intros x x' [E|I]; [injection E as E1 E2; subst; exact H0|exact (P _ _ I)].
Qed.
Lemma map_filter_combine {A A' B} (p : A -> bool) (p' : A' -> bool) (f : A -> B) (f' : A' -> B) l : forall l',
  length l = length l' -> (forall x x', In (x, x') (combine l l') -> p x = p' x' /\ f x = f' x') ->
  map f (filter p l) = map f' (filter p' l').
Proof.
  induction l as [|a l IH]; intros [|a' l'] L H; cbn [length] in L; try discriminate; [reflexivity|].
  cbn [filter]. destruct (H a a' (or_introl eq_refl)) as [P F]. rewrite <- P.
  assert (R : map f (filter p l) = map f' (filter p' l')).
  { apply IH; [lia|]. intros x x' I. apply H. right. exact I. }
  destruct (p a); cbn [map]; rewrite R, ?F; reflexivity.
Qed.
Lemma flat_map_combine {A A' B} (F : A -> list B) (F' : A' -> list B) l : forall l',
  length l = length l' -> (forall x x', In (x, x') (combine l l') -> F x = F' x') -> flat_map F l = flat_map F' l'.
Proof.
  induction l as [|a l IH]; intros [|a' l'] L H; cbn [length] in L; try discriminate; [reflexivity|].
  cbn [flat_map]. rewrite (H a a' (or_introl eq_refl)). f_equal. apply IH; [lia|]. intros x x' I. apply H. right. exact I.
Qed.
Lemma mapM_combine {A A' B} (F : A -> res B) (F' : A' -> res B) l : forall l',
  length l = length l' -> (forall x x', In (x, x') (combine l l') -> F x = F' x') -> mapM F l = mapM F' l'.
Proof.
  induction l as [|a l IH]; intros [|a' l'] L H; cbn [length] in L; try discriminate; [reflexivity|].
  cbn [mapM]. rewrite (H a a' (or_introl eq_refl)). rewrite (IH l'); [reflexivity|lia|]. intros x x' I. apply H. right. exact I.
Qed.
Lemma mapM_filter_combine {A A' B} (p : A -> bool) (p' : A' -> bool) (F : A -> res B) (F' : A' -> res B) l : forall l',
  length l = length l' -> (forall x x', In (x, x') (combine l l') -> p x = p' x' /\ F x = F' x') ->
  mapM F (filter p l) = mapM F' (filter p' l').
Proof.
  induction l as [|a l IH]; intros [|a' l'] L H; cbn [length] in L; try discriminate; [reflexivity|].
  cbn [filter]. destruct (H a a' (or_introl eq_refl)) as [P E]. rewrite <- P.
  assert (R : mapM F (filter p l) = mapM F' (filter p' l')).
  { apply IH; [lia|]. intros x x' I. apply H. right. exact I. }
  destruct (p a); cbn [mapM]; rewrite R, ?E; reflexivity.
Qed.
Lemma combine_tl {A B} (l : list A) (l' : list B) x x' : In (x, x') (combine (tl l) (tl l')) -> In (x, x') (combine l l').
Proof. destruct l, l'; cbn; auto. destruct l; cbn; tauto. Qed.

Lemma combine_enum {A B} (l : list A) : forall (l' : list B) k p p',
  In (p, p') (combine (enum_from k l) (enum_from k l')) -> fst p = fst p' /\ In (snd p, snd p') (combine l l').
Proof.
  induction l as [|a l IH]; intros [|a' l'] k p p' H; cbn [enum_from combine] in H; try destruct H.
  - injection H as E1 E2. subst. cbn. auto.
  - destruct (IH _ _ _ _ H) as [E I]. split; [exact E|right; exact I].
Qed.
Lemma enum_length {A} (l : list A) k : length (enum_from k l) = length l.
Proof. revert k. induction l; intro k; cbn; [reflexivity|]. rewrite IHl. reflexivity. Qed.

(** * two geometries with the same names and the same comparison outcomes have the same lists *)
Section Agree.
  Variable G G' : ngeom.
  Hypothesis HL : map lname (layers G') = map lname (layers G).
  Hypothesis HC : map cname (columns G') = map cname (columns G).
  Hypothesis HN : map cnn (columns G') = map cnn (columns G).
  Hypothesis HH : map (fun h => (cname (hcolA h), cname (hcolB h))) (hconns G') = map (fun h => (cname (hcolA h), cname (hcolB h))) (hconns G).
  Hypothesis HA : atm_type G' = atm_type G.
  Hypothesis HV : convention G' = convention G.
  Hypothesis HD : dmplex G' = dmplex G.
  (** every comparison the lists make has the same outcome *)
  Definition cmp_same : bool :=
    forallb (fun ll' =>
      forallb (fun cc' => Bool.eqb (Qgtb (csurf (snd cc')) (lbot (snd ll'))) (Qgtb (csurf (fst cc')) (lbot (fst ll'))) &&
                          Bool.eqb (qleb (csurf (snd cc')) (ltop (snd ll'))) (qleb (csurf (fst cc')) (ltop (fst ll'))))
              (combine (columns G) (columns G')) &&
      forallb (fun hh' => Bool.eqb (hconn_in_layer (snd ll') (snd hh')) (hconn_in_layer (fst ll') (fst hh')))
              (combine (hconns G) (hconns G')))
      (combine (tl (layers G)) (tl (layers G'))).
  Hypothesis CMP : cmp_same = true.

  Lemma cmp_cols l l' c c' : In (l, l') (combine (tl (layers G)) (tl (layers G'))) -> In (c, c') (combine (columns G) (columns G')) ->
    Qgtb (csurf c') (lbot l') = Qgtb (csurf c) (lbot l) /\ qleb (csurf c') (ltop l') = qleb (csurf c) (ltop l).
  Proof.
    intros IL IC. pose proof CMP as H. unfold cmp_same in H. rewrite forallb_forall in H. specialize (H _ IL).
    apply andb_prop in H as [H _]. rewrite forallb_forall in H. specialize (H _ IC). cbn [fst snd] in H.
    apply andb_prop in H as [A B]. apply Bool.eqb_prop in A. apply Bool.eqb_prop in B. auto.
  Qed.
  Lemma cmp_hconn l l' h h' : In (l, l') (combine (tl (layers G)) (tl (layers G'))) -> In (h, h') (combine (hconns G) (hconns G')) ->
    hconn_in_layer l' h' = hconn_in_layer l h.
  Proof.
    intros IL IH. pose proof CMP as H. unfold cmp_same in H. rewrite forallb_forall in H. specialize (H _ IL).
    apply andb_prop in H as [_ H]. rewrite forallb_forall in H. specialize (H _ IH). cbn [fst snd] in H. apply Bool.eqb_prop in H. exact H.
  Qed.

  Lemma LL : length (layers G) = length (layers G') /\ forall x x', In (x, x') (combine (layers G) (layers G')) -> lname x = lname x'.
  Proof. exact (combine_map_eq lname lname _ _ (eq_sym HL)). Qed.
  Lemma CC : length (columns G) = length (columns G') /\ forall x x', In (x, x') (combine (columns G) (columns G')) -> cname x = cname x'.
  Proof. exact (combine_map_eq cname cname _ _ (eq_sym HC)). Qed.
  Lemma NN : length (columns G) = length (columns G') /\ forall x x', In (x, x') (combine (columns G) (columns G')) -> cnn x = cnn x'.
  Proof. exact (combine_map_eq cnn cnn _ _ (eq_sym HN)). Qed.
  Lemma HHc : length (hconns G) = length (hconns G') /\ forall x x', In (x, x') (combine (hconns G) (hconns G')) ->
    (cname (hcolA x), cname (hcolB x)) = (cname (hcolA x'), cname (hcolB x')).
  Proof. exact (combine_map_eq _ _ _ _ (eq_sym HH)). Qed.

  Lemma tl_len : length (tl (layers G)) = length (tl (layers G')).
  Proof. destruct LL as [L _]. destruct (layers G), (layers G'); cbn in *; lia. Qed.
  Lemma lname_tl l l' : In (l, l') (combine (tl (layers G)) (tl (layers G'))) -> lname l = lname l'.
  Proof. intro I. apply (proj2 LL). apply combine_tl. exact I. Qed.

  Lemma layercols_map {B} (f f' : ncolumn -> B) l l' : In (l, l') (combine (tl (layers G)) (tl (layers G'))) ->
    (forall c c', In (c, c') (combine (columns G) (columns G')) -> f c = f' c') ->
    map f (layercols G l) = map f' (layercols G' l').
  Proof.
    intros IL F. unfold layercols. apply map_filter_combine; [exact (proj1 CC)|].
    intros c c' IC. split; [symmetry; exact (proj1 (cmp_cols _ _ _ _ IL IC))|exact (F _ _ IC)].
  Qed.

  Lemma bn_eq l l' c c' : lname l = lname l' -> cname c = cname c' -> bn G l c = bn G' l' c'.
  Proof. intros A B. unfold bn. rewrite HV, A, B. reflexivity. Qed.

  Lemma atm_names_eq : atm_names G' = atm_names G.
  Proof.
    unfold atm_names. rewrite HA, HV. destruct LL as [L P].
    destruct (layers G) as [|l0 r], (layers G') as [|l0' r']; cbn in L; try discriminate; [reflexivity|].
    rewrite (P l0 l0' (or_introl eq_refl)). destruct (atm_type G) as [|[|n]]; try reflexivity.
    rewrite <- (map_map cname (fun nm => block_name0 (convention G) (lname l0') nm)), HC, map_map. reflexivity.
  Qed.

  Lemma ug_pairs_eq :
    flat_map (fun l => map (fun c => (cnn c, bn G' l c)) (layercols G' l)) (tl (layers G')) =
    flat_map (fun l => map (fun c => (cnn c, bn G l c)) (layercols G l)) (tl (layers G)).
  Proof.
    symmetry. apply flat_map_combine; [exact tl_len|]. intros l l' IL. apply layercols_map; [exact IL|].
    intros c c' IC. rewrite (proj2 NN _ _ IC), (bn_eq l l' c c' (lname_tl _ _ IL) (proj2 CC _ _ IC)). reflexivity.
  Qed.

  Theorem block_name_list_agree : block_name_list G' = block_name_list G.
  Proof.
    pose proof ug_pairs_eq as U. pose proof atm_names_eq as AN. pose proof (proj1 LL) as L.
    assert (U2 : name_list_layer_column G' = name_list_layer_column G).
    { unfold name_list_layer_column. apply (f_equal (map snd)) in U. rewrite !flat_map_concat_map, !concat_map, !map_map in U.
      assert (S : forall g (l : nlayer), map snd (map (fun c => (cnn c, bn g l c)) (layercols g l)) = map (fun c => bn g l c) (layercols g l))
        by (intros; rewrite map_map; reflexivity).
      rewrite (map_ext _ _ (S G')), (map_ext _ _ (S G)) in U. rewrite !flat_map_concat_map, U. reflexivity. }
    unfold block_name_list. rewrite AN, HD, U2. unfold name_list_dmplex. rewrite U.
    destruct (layers G) as [|l0 r], (layers G') as [|l0' r']; cbn in L; try discriminate; reflexivity.
  Qed.

  Lemma vconn_eq names i l l' c c' : In (l, l') (combine (tl (layers G)) (tl (layers G'))) -> In (c, c') (combine (columns G) (columns G')) ->
    mul_vconn G names i l c = mul_vconn G' names i l' c'.
  Proof.
    intros IL IC. unfold mul_vconn. rewrite (proj2 (cmp_cols _ _ _ _ IL IC)), HA, HV.
    rewrite (bn_eq l l' c c' (lname_tl _ _ IL) (proj2 CC _ _ IC)), (proj2 CC _ _ IC).
    assert (NE : forall k, option_map lname (nth_error (layers G') k) = option_map lname (nth_error (layers G) k))
      by (intro k; rewrite <- !nth_error_map, HL; reflexivity).
    destruct ((i =? 0)%nat || qleb (csurf c) (ltop l)).
    - specialize (NE 0%nat). destruct (nth_error (layers G) 0) as [a|], (nth_error (layers G') 0) as [a'|]; cbn in NE; try discriminate; [|reflexivity].
      injection NE as NE. rewrite NE. reflexivity.
    - specialize (NE i). destruct (nth_error (layers G) i) as [a|], (nth_error (layers G') i) as [a'|]; cbn in NE; try discriminate; [|reflexivity].
      injection NE as NE. rewrite NE. reflexivity.
  Qed.

  Theorem block_connection_name_list_agree : block_connection_name_list G' = block_connection_name_list G.
  Proof.
    unfold block_connection_name_list. rewrite block_name_list_agree. destruct (block_name_list G) as [names|e]; [|reflexivity]. cbn [bind].
    rewrite (mapM_combine (mul_layer_conns G' names) (mul_layer_conns G names) (enum_from 0 (tl (layers G'))) (enum_from 0 (tl (layers G)))); [reflexivity| |].
    - rewrite !enum_length. symmetry. exact tl_len.
    - intros [i' l'] [i l] I. destruct (combine_enum _ _ _ _ _ I) as [E IL]. cbn [fst snd] in E, IL. subst i'.
      assert (IL' : In (l, l') (combine (tl (layers G)) (tl (layers G')))).
      { clear - IL. revert IL. generalize (tl (layers G')) (tl (layers G)). induction l0 as [|a r IH]; intros [|b s] H; cbn in *; try contradiction.
        destruct H as [H|H]; [injection H as H1 H2; subst; left; reflexivity|right; apply IH; exact H]. }
      unfold mul_layer_conns, layercols.
      rewrite (mapM_filter_combine (fun c => Qgtb (csurf c) (lbot l')) (fun c => Qgtb (csurf c) (lbot l)) (mul_vconn G' names i l') (mul_vconn G names i l)
                 (columns G') (columns G)).
      + destruct (mapM _ (filter _ (columns G))) as [v|e]; [|reflexivity]. cbn [bind]. f_equal. f_equal.
        symmetry. apply map_filter_combine; [exact (proj1 HHc)|]. intros h h' IH. split; [symmetry; exact (cmp_hconn _ _ _ _ IL' IH)|].
        pose proof (proj2 HHc _ _ IH) as E. injection E as E1 E2. unfold bn. rewrite HV, (lname_tl _ _ IL'), E1, E2. reflexivity.
      + symmetry. exact (proj1 CC).
      + intros c' c IC.
        assert (IC' : In (c, c') (combine (columns G) (columns G'))).
        { clear - IC. revert IC. generalize (columns G) (columns G'). induction l as [|a r IH]; intros [|b s] H; cbn in *; try contradiction.
          destruct H as [H|H]; [injection H as H1 H2; subst; left; reflexivity|right; apply IH; exact H]. }
        split; [exact (proj1 (cmp_cols _ _ _ _ IL' IC'))|symmetry; apply vconn_eq; assumption].
  Qed.
End Agree.

(** * the round trip keeps both lists *)
Lemma nlayers_names ls : forall top, map lname (nlayers top ls) = map l_name ls.
Proof. induction ls as [|l r IH]; intro top; [reflexivity|]. cbn [nlayers map lname]. rewrite IH. reflexivity. Qed.
Lemma cname_lookup gr cs nm : cname (ncol_lookup gr cs nm) = nm.
Proof.
  unfold ncol_lookup. destruct (find _ cs) as [c|] eqn:F; [|reflexivity].
  apply find_some in F as [_ E]. apply str_eqb_eq in E. exact E.
Qed.

(** the comparisons made on the re-read geometry come out as on the original: a surface (or the
    ground level under a default-surface column) above a layer bottom stays above it, one at or
    below a layer top stays at or below it.  Fails only when two elevations that differ print as
    the same decimal (a layer thinner than, or a surface closer to a layer boundary than, the
    printed precision) -- the population generator snaps such surfaces to the boundary. *)
Definition cmp_ok (g : geo) : bool := cmp_same (geom_of g) (geom_of (canon g)).

Theorem name_lists_kept g : hdr_ok (g_hdr g) = true ->
  str_eqb (h_type (canon_header (g_hdr g))) (s2l supported_type) = true ->
  names_canonical g = true -> cmp_ok g = true ->
  block_name_list (geom_of (canon g)) = block_name_list (geom_of g) /\
  block_connection_name_list (geom_of (canon g)) = block_connection_name_list (geom_of g).
Proof.
  intros Hh T NC CMP.
  destruct (canon_keeps_names g T NC) as [_ [K2 [K3 [K4 K5]]]].
  destruct (header_options_preserved _ Hh) as [O1 [O2 [_ [O4 _]]]].
  assert (HC : g_hdr (canon g) = canon_header (g_hdr g)) by (unfold canon; rewrite T; reflexivity).
  assert (A1 : map lname (layers (geom_of (canon g))) = map lname (layers (geom_of g))).
  { unfold geom_of. cbn [layers]. rewrite !nlayers_names. exact K5. }
  assert (A2 : map cname (columns (geom_of (canon g))) = map cname (columns (geom_of g))).
  { unfold geom_of. cbn [columns]. rewrite !map_map. cbn [ncolumn_of cname]. exact K2. }
  assert (A3 : map cnn (columns (geom_of (canon g))) = map cnn (columns (geom_of g))).
  { unfold geom_of. cbn [columns]. rewrite !map_map. cbn [ncolumn_of cnn].
    rewrite <- (map_map c_nodes (@length str)), K3, map_map. reflexivity. }
  assert (A4 : map (fun h => (cname (hcolA h), cname (hcolB h))) (hconns (geom_of (canon g)))
             = map (fun h => (cname (hcolA h), cname (hcolB h))) (hconns (geom_of g))).
  { unfold geom_of. cbn [hconns]. rewrite !map_map. cbn [hcolA hcolB].
    rewrite K4. apply map_ext. intro k. rewrite !cname_lookup. reflexivity. }
  assert (A5 : atm_type (geom_of (canon g)) = atm_type (geom_of g)) by (unfold geom_of; cbn [atm_type]; rewrite HC, O2; reflexivity).
  assert (A6 : convention (geom_of (canon g)) = convention (geom_of g)) by (unfold geom_of; cbn [convention]; rewrite HC, O1; reflexivity).
  assert (A7 : dmplex (geom_of (canon g)) = dmplex (geom_of g)) by (unfold geom_of; cbn [dmplex]; rewrite HC, O4; reflexivity).
  split.
  - apply block_name_list_agree; assumption.
  - apply block_connection_name_list_agree; assumption.
Qed.
