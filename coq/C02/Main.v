(** C02: finite obligations over the format tables regenerated from the current source,
    and the no-spill statements instantiated to them. *)
From Coq Require Import Ascii String List Bool Arith ZArith NArith Lia.
From PTBase Require Import Exn PyStr PyNum PyVal Fmt FixedFormat.
From PTModel Require Import Fortran.
From Gen Require Import GenTables.
Import ListNotations.
Open Scope Z_scope.

Definition fspec_wf (f : fspec) : bool :=
  negb (fw f =? 0) &&
  match ft f with
  | Te => match fp f with Some p => (0 <=? p) && (p + 6 <=? Z.abs (fw f)) && (0 <? fw f) | None => false end
  | Tf => match fp f with Some p => (0 <=? p) && (p + 2 <=? Z.abs (fw f)) && (0 <? fw f) | None => false end
  | Tg => false                      (* %g is outside the model: a table that starts using it is refused *)
  | Td | Tx => (0 <? fw f) && match fp f with None => true | Some _ => false end
  | Ts => match fp f with None => true | Some _ => false end
  end.
Definition record_wf (r : string * (list string * list fspec)) : bool :=
  let '(_, (names, specs)) := r in
  (length names =? length specs)%nat && forallb fspec_wf specs && negb (length specs =? 0)%nat.
Definition table_wf (t : list (string * (list string * list fspec))) : bool := forallb record_wf t.
Definition all_wf : bool := forallb (fun nt => table_wf (snd nt)) all_tables.

Lemma all_tables_wf : all_wf = true.
Proof. vm_compute. reflexivity. Qed.

Lemma wf_lookup tn t rn names specs :
  In (tn, t) all_tables -> In (rn, (names, specs)) t -> record_wf (rn, (names, specs)) = true.
Proof.
  intros H1 H2. pose proof all_tables_wf as W. unfold all_wf in W. rewrite forallb_forall in W.
  specialize (W _ H1). cbn [snd] in W. unfold table_wf in W. rewrite forallb_forall in W. exact (W _ H2).
Qed.

(** for every record kind of the four tables: whatever values are written, if the writer
    returns a line then every field sits in its own columns, and the line has the
    record's width *)
Lemma table_record_no_spill tn t rn names specs vals l rest :
  In (tn, t) all_tables -> In (rn, (names, specs)) t ->
  write_fields specs vals = Ok l ->
  firstn (length l) (field_slices specs (concat l ++ rest)%list) = l.
Proof. intros _ _. apply written_fields_in_place. Qed.

Lemma nth_error_firstn_lt {A} : forall n i (l : list A), (i < n)%nat -> nth_error (firstn n l) i = nth_error l i.
Proof.
  induction n as [|n IH]; intros i l H; [lia|]. destruct l as [|a l]; [destruct i; reflexivity|].
  destruct i as [|i]; [reflexivity|]. cbn. apply IH. lia.
Qed.
(** loud or local: a field's columns depend on that field's value only *)
Lemma loud_or_local specs vals l rest i f v :
  write_fields specs vals = Ok l -> nth_error specs i = Some f -> nth_error vals i = Some v ->
  exists s, nth_error (field_slices specs (concat l ++ rest)%list) i = Some s /\ fmt_field f v = Ok s /\ length s = width f.
Proof.
  intros H Hf Hv. destruct (write_fields_nth _ _ _ _ _ _ H Hf Hv) as [s [Hs Hfmt]].
  exists s. split; [|split; [exact Hfmt|exact (fmt_field_width _ _ _ Hfmt)]].
  pose proof (written_fields_in_place _ _ _ rest H) as P.
  assert (Li : (i < length l)%nat) by (apply nth_error_Some; congruence).
  rewrite <- P in Hs. rewrite <- Hs. symmetry. apply nth_error_firstn_lt. exact Li.
Qed.

(** absent values and 'x' fields are written as blanks of the field width *)
Lemma none_is_blank f : fmt_field f XNone = Ok (spaces (width f)).
Proof. reflexivity. Qed.

(** the Fortran read functions of t2incon *)
Definition fortran_rf : readfn := fun t s =>
  match t with
  | Ts => RStr (rstrip_c newline s)
  | Tx => RNone
  | Td => match fortran_int s VNone with VInt z => RInt z | _ => RNone end
  | Te | Tf | Tg => match fortran_float s VNone with VFloat v => RFloat v | _ => RNone end
  end.

(** non-vacuity: a record of t2data rocks1 with a negative density, which used to spill *)
Definition ex_specs : list fspec :=
  [ {| fw := 5; fp := None; ft := Ts |}; {| fw := 5; fp := None; ft := Td |}; {| fw := 10; fp := Some 4; ft := Te |}; {| fw := 10; fp := Some 4; ft := Te |} ].
Example ex_write : write_values ex_specs [XStr (s2l "dfalt"); XInt 2; XReal true 3 (-1); XReal false 1 (-2)]
                   = Ok (s2l "dfalt    2-1.500e+002.5000e-01").
Proof. vm_compute. reflexivity. Qed.
Example ex_parse : parse_string default_rf ex_specs (s2l "dfalt    2-1.500e+002.5000e-01")
                   = [RStr (s2l "dfalt"); RInt 2; RFloat (Fin true 1500 (-3)); RFloat (Fin false 25000 (-5))].
Proof. vm_compute. reflexivity. Qed.
Example ex_loud : write_values ex_specs [XStr (s2l "toolong"); XInt 2; XNone; XNone] = Raise ValueError.
Proof. vm_compute. reflexivity. Qed.
