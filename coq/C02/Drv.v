(** extraction of the fixed-format model instantiated with the regenerated tables *)
From Coq Require Import Ascii String List Bool Arith ZArith NArith.
From PTBase Require Import Exn PyStr PyNum PyVal Fmt FixedFormat Wire.
From PTModel Require Import Fortran.
From Gen Require Import GenTables.
From P Require Import Main.
Import ListNotations.

Fixpoint alookup {A} (k : str) (l : list (string * A)) : option A :=
  match l with [] => None | (k', v) :: r => if str_eqb k (s2l k') then Some v else alookup k r end.
Definition colon : ascii := ":"%char.
(** value encodings: N | I:<z> | S:<hex> | R:<neg>:<m>:<e> *)
Definition dec_value (s : str) : value :=
  match split_c colon s with
  | [k; a] => if str_eqb k (s2l "I") then XInt (z_of_str a) else if str_eqb k (s2l "S") then XStr (unhex a) else XNone
  | [k; a; b; c] => XReal (str_eqb a (s2l "1")) (z_of_str b) (z_of_str c)
  | _ => XNone
  end.
Definition show_rvalue (r : rvalue) : str :=
  match r with
  | RStr s => app (s2l "S ") (hex s)
  | RInt z => app (s2l "I ") (show_z z)
  | RFloat f => show_fval f
  | RNone => s2l "NONE"
  end.
Fixpoint join_bar (l : list str) : str :=
  match l with [] => [] | [a] => a | a :: r => app a ("|"%char :: join_bar r) end.
Definition get_specs (tn rn : str) : option (list fspec) :=
  match alookup tn all_tables with
  | Some t => match alookup rn t with Some (_, specs) => Some specs | None => None end
  | None => None end.
Definition run_case (line : str) : str :=
  match fields line with
  | k :: tn :: rn :: args =>
      match get_specs (unhex tn) (unhex rn) with
      | None => s2l "NOSPEC"
      | Some specs =>
          if str_eqb k (s2l "w") then
            match write_values specs (map dec_value args) with
            | Ok s => app (s2l "OK ") (hex s)
            | Raise e => app (s2l "RAISE ") (show_exn e) end
          else if str_eqb k (s2l "p") then
            match args with
            | [h] => join_bar (map show_rvalue (parse_string (if str_eqb (unhex tn) (s2l "t2incon") then fortran_rf else default_rf) specs (unhex h)))
            | _ => s2l "BADCASE" end
          else s2l "BADCASE"
      end
  | _ => s2l "BADCASE"
  end.

Require Extraction.
Require Import ExtrOcamlBasic ExtrOcamlString.
Extraction "Drv.ml" run_case.
