(** C02 -- short value lists and loud failures.
    [write_values_to_string] zips the values with the specification: a value list shorter
    than the record writes only the leading fields.  [write_values] appends a newline and
    [read_values] hands the line (newline kept) to [parse_string].  Here: every position
    beyond the written values parses to "absent" (None; the empty string for an 's' field),
    with or without the trailing newline -- never a piece of a written neighbour.
    And: the record write raises exactly when one of its own (field, value) pairs raises. *)
From Coq Require Import Ascii String List Bool Arith ZArith NArith Lia.
From PTBase Require Import Exn PyStr PyNum PyVal Fmt FixedFormat.
From PTModel Require Import Fortran.
From P Require Import Main FieldRB.
Import ListNotations.

Lemma list_sum_cons a l : list_sum (a :: l) = (a + list_sum l)%nat.
Proof. reflexivity. Qed.

Lemma line_spec_nth : forall ws pos i w, nth_error ws i = Some w ->
  nth_error (line_spec pos ws) i = Some ((pos + list_sum (firstn i ws))%nat, (pos + list_sum (firstn i ws) + w)%nat).
Proof.
  induction ws as [|w0 r IH]; intros pos i w H; [destruct i; discriminate|].
  destruct i as [|i]; cbn [nth_error line_spec firstn] in *.
  - inversion H; subst. change (list_sum []) with 0%nat. rewrite Nat.add_0_r. reflexivity.
  - rewrite (IH _ _ _ H). rewrite list_sum_cons. f_equal. f_equal; lia.
Qed.

Lemma list_sum_firstn_mono : forall ws n m, (n <= m)%nat -> (list_sum (firstn n ws) <= list_sum (firstn m ws))%nat.
Proof.
  induction ws as [|w r IH]; intros n m H; [rewrite !firstn_nil; lia|].
  destruct n as [|n]; [change (list_sum (firstn 0 (w :: r))) with 0%nat; lia|]. destruct m as [|m]; [lia|].
  cbn [firstn]. rewrite !list_sum_cons. specialize (IH n m). lia.
Qed.

Lemma concat_length_sum (l : list str) : length (concat l) = list_sum (map (@length ascii) l).
Proof. induction l as [|a l IH]; [reflexivity|]. cbn [concat map]. rewrite list_sum_cons, app_length, IH. reflexivity. Qed.

(** a slice that starts at or after the end of the written text sees only what follows it *)
Lemma slice_beyond (x rest : str) a b : (length x <= a)%nat ->
  slice a b (x ++ rest) = firstn (b - a) (skipn (a - length x) rest).
Proof. intro H. unfold slice. rewrite skipn_app, (skipn_all2 x H). reflexivity. Qed.

Lemma slice_beyond_cases (x rest : str) a b : (length x <= a)%nat -> (rest = [] \/ rest = [newline]) ->
  slice a b (x ++ rest) = [] \/ slice a b (x ++ rest) = [newline].
Proof.
  intros H R. rewrite (slice_beyond _ _ _ _ H).
  destruct R as [-> | ->].
  - left. rewrite skipn_nil, firstn_nil. reflexivity.
  - destruct (a - length x)%nat as [|k]; destruct (b - a)%nat as [|n]; cbn [skipn firstn]; rewrite ?skipn_nil, ?firstn_nil; auto.
Qed.

(** both read functions: the empty text and a lone newline are "absent" *)
Definition absent_result (t : fty) : rvalue := match t with Ts => RStr [] | _ => RNone end.
Lemma rf_empty rf t : rf_ok rf -> rf t [] = absent_result t.
Proof. intros [-> | ->]; destruct t; vm_compute; reflexivity. Qed.
Lemma rf_newline rf t : rf_ok rf -> rf t [newline] = absent_result t.
Proof. intros [-> | ->]; destruct t; vm_compute; reflexivity. Qed.

Lemma nth_error_combine {A B} : forall (l1 : list A) (l2 : list B) i a b,
  nth_error l1 i = Some a -> nth_error l2 i = Some b -> nth_error (combine l1 l2) i = Some (a, b).
Proof.
  induction l1 as [|a0 l1 IH]; intros l2 i a b H1 H2; [destruct i; discriminate|].
  destruct l2 as [|b0 l2]; [destruct i; discriminate|].
  destruct i as [|i]; cbn [nth_error combine] in *; [congruence|]. eapply IH; eauto.
Qed.

Theorem tail_reads_absent rf specs vals l i f rest :
  rf_ok rf -> write_fields specs vals = Ok l ->
  (length vals <= i)%nat -> nth_error specs i = Some f ->
  (rest = [] \/ rest = [newline]) ->
  nth_error (parse_string rf specs (concat l ++ rest)) i = Some (absent_result (ft f)).
Proof.
  intros Hrf Hw Hi Hf Hrest.
  destruct (write_fields_widths _ _ _ Hw) as [A B].
  assert (Hwd : nth_error (map width specs) i = Some (width f)) by (rewrite nth_error_map, Hf; reflexivity).
  pose proof (line_spec_nth _ 0 _ _ Hwd) as Hls. cbn [Nat.add] in Hls.
  set (a := list_sum (firstn i (map width specs))) in *.
  assert (Hlen : (length (concat l) <= a)%nat).
  { rewrite concat_length_sum, A. apply list_sum_firstn_mono. lia. }
  unfold parse_string. rewrite nth_error_map.
  rewrite (nth_error_combine specs (field_slices specs (concat l ++ rest)) i f (slice a (a + width f) (concat l ++ rest)) Hf).
  2:{ unfold field_slices. rewrite nth_error_map, Hls. reflexivity. }
  cbn [option_map fst snd]. f_equal.
  destruct (slice_beyond_cases (concat l) rest a (a + width f) Hlen Hrest) as [-> | ->].
  - apply rf_empty; exact Hrf.
  - apply rf_newline; exact Hrf.
Qed.

(** ** loud failure: the record write raises exactly when one of its own pairs raises *)
Theorem write_raise_own_field specs : forall vals e, write_fields specs vals = Raise e ->
  exists i f v, nth_error specs i = Some f /\ nth_error vals i = Some v /\ fmt_field f v = Raise e /\
    (forall j g u, (j < i)%nat -> nth_error specs j = Some g -> nth_error vals j = Some u -> exists s, fmt_field g u = Ok s).
Proof.
  induction specs as [|f0 fs IH]; intros vals e; cbn [write_fields]; [discriminate|].
  destruct vals as [|v0 vs]; [discriminate|].
  destruct (fmt_field f0 v0) as [s0|e0] eqn:E; cbn [bind].
  - destruct (write_fields fs vs) as [r|e1] eqn:R; cbn [bind]; [discriminate|].
    intro H; inversion H; subst. destruct (IH _ _ R) as [i [f [v [H1 [H2 [H3 H4]]]]]].
    exists (S i), f, v. repeat split; auto.
    intros j g u Hj Hg Hu. destruct j as [|j]; cbn [nth_error] in *.
    + inversion Hg; inversion Hu; subst. eauto.
    + apply (H4 j g u); auto. lia.
  - intro H; inversion H; subst. exists 0%nat, f0, v0. repeat split; auto. intros j g u Hj; lia.
Qed.

Theorem write_ok_iff_fields_ok specs : forall vals,
  (exists l, write_fields specs vals = Ok l) <->
  (forall i f v, nth_error specs i = Some f -> nth_error vals i = Some v -> exists s, fmt_field f v = Ok s).
Proof.
  intro vals. split.
  - intros [l H] i f v Hf Hv. destruct (write_fields_nth _ _ _ _ _ _ H Hf Hv) as [s [_ Hs]]. eauto.
  - intro H. destruct (write_fields specs vals) as [l|e] eqn:W; [eauto|].
    destruct (write_raise_own_field _ _ _ W) as [i [f [v [H1 [H2 [H3 _]]]]]].
    destruct (H _ _ _ H1 H2) as [s Hs]. congruence.
Qed.

(** ** the length of the written line; dropping trailing values keeps the leading columns *)
Theorem written_line_length_exact specs vals line : write_values specs vals = Ok line ->
  length line = list_sum (firstn (length vals) (map width specs)) /\
  (length line <= list_sum (map width specs))%nat /\
  ((length specs <= length vals)%nat -> length line = list_sum (map width specs)).
Proof.
  unfold write_values. destruct (write_fields specs vals) as [l|e] eqn:W; cbn [bind]; [|discriminate].
  intro H; inversion H; subst. destruct (write_fields_widths _ _ _ W) as [A B].
  assert (E : length (concat l) = list_sum (firstn (length vals) (map width specs))).
  { rewrite concat_length_sum, A, B, Nat.min_comm, <- firstn_firstn.
    rewrite (firstn_all2 (n := length specs) (map width specs)) by (rewrite map_length; lia). reflexivity. }
  split; [exact E|]. split.
  - rewrite E. rewrite <- (firstn_all (map width specs)) at 2.
    destruct (Nat.le_ge_cases (length vals) (length (map width specs))) as [L|L].
    + apply list_sum_firstn_mono; exact L.
    + rewrite (firstn_all2 (n := length vals) (map width specs) L), firstn_all. lia.
  - intro L. rewrite E, firstn_all2; [reflexivity|rewrite map_length; exact L].
Qed.

Theorem write_prefix specs : forall vals l k, write_fields specs vals = Ok l ->
  write_fields specs (firstn k vals) = Ok (firstn k l) /\
  concat l = (concat (firstn k l) ++ concat (skipn k l))%list.
Proof.
  intros vals l k H. split; [|rewrite <- concat_app, firstn_skipn; reflexivity].
  revert vals l k H. induction specs as [|f fs IH]; intros vals l k; cbn [write_fields].
  - intro H; inversion H; subst. destruct (firstn k vals); rewrite firstn_nil; reflexivity.
  - destruct vals as [|v vs]; [intro H; inversion H; subst; rewrite !firstn_nil; reflexivity|].
    destruct (fmt_field f v) as [s|e] eqn:E; cbn [bind]; [|discriminate].
    destruct (write_fields fs vs) as [r|e] eqn:R; cbn [bind]; [|discriminate].
    intro H; inversion H; subst. destruct k as [|k]; cbn [firstn write_fields]; [reflexivity|].
    rewrite E, (IH _ _ k R). reflexivity.
Qed.

(** non-vacuity: two values into a four-field record, as written to a file (newline) *)
Example ex_short_write : write_fields ex_specs [XStr (s2l "dfalt"); XInt 2] = Ok [s2l "dfalt"; s2l "    2"].
Proof. vm_compute. reflexivity. Qed.
Example ex_short_parse : parse_string default_rf ex_specs (concat [s2l "dfalt"; s2l "    2"] ++ [newline])
                         = [RStr (s2l "dfalt"); RInt 2; RNone; RNone].
Proof. vm_compute. reflexivity. Qed.
Example ex_short_parse_fortran : parse_string fortran_rf ex_specs (concat [s2l "dfalt"; s2l "    2"] ++ [newline])
                         = [RStr (s2l "dfalt"); RInt 2; RNone; RNone].
Proof. vm_compute. reflexivity. Qed.
Example ex_raise : write_fields ex_specs [XStr (s2l "dfalt"); XInt 1234567; XNone; XNone] = Raise ValueError
                   /\ fmt_field {| fw := 5; fp := None; ft := Td |} (XInt 1234567) = Raise ValueError.
Proof. vm_compute. split; reflexivity. Qed.
Example ex_line_length : exists line, write_values ex_specs [XStr (s2l "dfalt"); XInt 2; XReal true 3 (-1); XReal false 1 (-2)] = Ok line /\ length line = 30%nat.
Proof. eexists. split; [vm_compute; reflexivity|reflexivity]. Qed.

(** an empty line (end of file: readline returns '') or a bare newline: every field absent *)
Theorem empty_line_all_absent rf specs i f rest :
  rf_ok rf -> nth_error specs i = Some f -> (rest = [] \/ rest = [newline]) ->
  nth_error (parse_string rf specs rest) i = Some (absent_result (ft f)).
Proof.
  intros Hrf Hf Hrest.
  assert (W : write_fields specs [] = Ok []) by (destruct specs; reflexivity).
  exact (tail_reads_absent rf specs [] [] i f rest Hrf W (Nat.le_0_l i) Hf Hrest).
Qed.
Example ex_empty_line : parse_string default_rf ex_specs [] = [RStr []; RNone; RNone; RNone].
Proof. vm_compute. reflexivity. Qed.
