(** C02 -- closed form of "the value fits its columns" (the lattice of the property's
    quantifier): integers by magnitude, names by length, [%e] reals by sign, precision and
    number of exponent digits.  What does not fit is rejected loudly (integers, names) or
    goes to the precision-reduction loop (reals). *)
From Coq Require Import Ascii String List Bool Arith ZArith NArith Lia.
From PTBase Require Import Exn PyStr PyNum PyVal Fmt FixedFormat.
From P Require Import Digits ReadBack Round.
Import ListNotations.
Open Scope char_scope.
Open Scope Z_scope.

Lemma pad_len w s : length (pad w s) = Nat.max (Z.to_nat (Z.abs w)) (length s).
Proof.
  unfold pad. destruct (w <? 0) eqn:E; [apply Z.ltb_lt in E|apply Z.ltb_ge in E].
  - rewrite ljust_length. replace (Z.abs w) with (- w) by lia. reflexivity.
  - rewrite rjust_length. replace (Z.abs w) with w by lia. reflexivity.
Qed.
Lemma pad_fits f s : (length (pad (fw f) s) <=? width f)%nat = (length s <=? width f)%nat.
Proof.
  rewrite pad_len. fold (width f). destruct (length s <=? width f)%nat eqn:L.
  - apply Nat.leb_le in L. apply Nat.leb_le. lia.
  - apply Nat.leb_gt in L. apply Nat.leb_gt. lia.
Qed.

(** ** integers and names *)
Lemma abs_N_to_N z : Z.abs_N z = Z.to_N (Z.abs z).
Proof. destruct z; reflexivity. Qed.
Lemma z_to_str_len z : Z.of_nat (length (z_to_str z)) = (if z <? 0 then 1 else 0) + ndig (Z.abs z).
Proof.
  rewrite z_to_str_split, app_length, abs_N_to_N. unfold ndig, zdigits.
  destruct (z <? 0); cbn [length]; lia.
Qed.
Lemma ndig_le_iff n k : 0 <= n -> 1 <= k -> (ndig n <= k <-> n < 10 ^ k).
Proof.
  intros Hn Hk. split.
  - intro H. destruct (Z.eq_dec n 0) as [->|NZ]; [apply p10_pos; lia|].
    destruct (ndig_spec n ltac:(lia)) as [_ U]. assert (10 ^ ndig n <= 10 ^ k) by (apply Z.pow_le_mono_r; lia). lia.
  - intro H. apply ndig_le; lia.
Qed.
(** a 'd' field of width W holds exactly the integers -10^(W-1) < z < 10^W *)
Lemma int_text_fits z W : 1 <= W -> ((if z <? 0 then 1 else 0) + ndig (Z.abs z) <= W <-> - 10 ^ (W - 1) < z < 10 ^ W).
Proof.
  intro HW. pose proof (p10_pos W ltac:(lia)) as PW. pose proof (p10_pos (W - 1) ltac:(lia)) as PW1.
  destruct (z <? 0) eqn:E; [apply Z.ltb_lt in E|apply Z.ltb_ge in E].
  - replace (Z.abs z) with (- z) by lia. destruct (Z.eq_dec W 1) as [->|N1].
    + pose proof (ndig_pos (- z)). change (10 ^ (1 - 1)) with 1. lia.
    + pose proof (ndig_le_iff (- z) (W - 1) ltac:(lia) ltac:(lia)) as I. split; intro H.
      * assert (ndig (- z) <= W - 1) by lia. apply I in H0. lia.
      * assert (- z < 10 ^ (W - 1)) by lia. apply I in H0. lia.
  - replace (Z.abs z) with z by lia. pose proof (ndig_le_iff z W E HW) as I. split; intro H.
    + assert (ndig z <= W) by lia. apply I in H0. lia.
    + destruct H as [_ H]. apply I in H. lia.
Qed.
Theorem int_fits_iff f z : ft f = Td -> (1 <= width f)%nat ->
  let W := Z.of_nat (width f) in
  (- 10 ^ (W - 1) < z < 10 ^ W /\ fmt_field f (XInt z) = Ok (fmt_int (fw f) z)) \/
  (~ (- 10 ^ (W - 1) < z < 10 ^ W) /\ fmt_field f (XInt z) = Raise ValueError).
Proof.
  intros T HW W. unfold fmt_field, fmt_raw. rewrite T. cbn [bind is_real_ty]. unfold fmt_int. rewrite pad_fits.
  pose proof (int_text_fits z W ltac:(lia)) as I. rewrite <- z_to_str_len in I.
  destruct (length (z_to_str z) <=? width f)%nat eqn:L; [apply Nat.leb_le in L|apply Nat.leb_gt in L].
  - left. split; [apply I; lia|reflexivity].
  - right. split; [|reflexivity]. intro H. apply I in H. lia.
Qed.
Theorem str_fits_iff f x : ft f = Ts ->
  ((length x <= width f)%nat /\ fmt_field f (XStr x) = Ok (pad (fw f) x)) \/
  ((width f < length x)%nat /\ fmt_field f (XStr x) = Raise ValueError).
Proof.
  intro T. unfold fmt_field, fmt_raw. rewrite T. cbn [bind is_real_ty]. unfold fmt_str. rewrite pad_fits.
  destruct (length x <=? width f)%nat eqn:L; [apply Nat.leb_le in L|apply Nat.leb_gt in L]; auto.
Qed.

(** ** [%e] reals *)
Lemma two_digits_len k : Z.of_nat (length (two_digits k)) = Z.max 2 (ndig k).
Proof.
  unfold two_digits, ndig. pose proof (n_to_str_len_pos (Z.to_N k)) as P. fold (zdigits k) in P.
  destruct (length (zdigits k) <? 2)%nat eqn:L; [apply Nat.ltb_lt in L|apply Nat.ltb_ge in L]; cbn [length]; lia.
Qed.
(** columns taken by the sign, the mantissa at precision p and the exponent k *)
Definition e_width (p : Z) (ng : bool) (k : Z) : Z :=
  (if ng then 1 else 0) + (if 0 <? p then p + 2 else 1) + 2 + Z.max 2 (ndig (Z.abs k)).

Lemma e_text_len p N k : 0 <= p -> 10 ^ p <= N < 10 ^ (p + 1) ->
  Z.of_nat (length (e_text p N k)) = (if 0 <? p then p + 2 else 1) + 2 + Z.max 2 (ndig (Z.abs k)).
Proof.
  intros Hp B. pose proof (ndig_eq N p Hp B) as ND. unfold ndig in ND.
  unfold e_text. rewrite !app_length. pose proof (two_digits_len (Z.abs k)) as T.
  destruct (zdigits N) as [|c rest]; [cbn in ND; lia|]. cbn [length] in ND.
  cbn [e_mant]. destruct (0 <? p); cbn [length]; lia.
Qed.
Lemma zero_text_len p : 0 <= p -> Z.of_nat (length (zero_text p)) = (if 0 <? p then p + 2 else 1) + 2 + 2.
Proof.
  intro Hp. unfold zero_text. rewrite app_length. destruct (0 <? p) eqn:P; cbn [length s2l list_ascii_of_string].
  - rewrite zeros_length. lia.
  - lia.
Qed.
Theorem fmt_e_length w p ng m e : 0 <= p -> 0 <= m ->
  Z.of_nat (length (fmt_e w p ng m e)) = Z.max (Z.abs w) (e_width p ng (snd (e_parts p m e))).
Proof.
  intros Hp Hm. unfold fmt_e. rewrite pad_len. rewrite sg_of_text, app_length, fmt_e_body_eq. unfold e_width.
  assert (S : Z.of_nat (length (FortranRender.sgstr (sg_of ng))) = if ng then 1 else 0) by (destruct ng; reflexivity).
  destruct (m =? 0) eqn:M0.
  - pose proof (zero_text_len p Hp) as L. unfold e_parts. rewrite M0. cbn [snd]. change (ndig (Z.abs 0)) with 1. lia.
  - apply Z.eqb_neq in M0. assert (Pm : 0 < m) by lia. destruct (num_den_pos m e Pm) as [Pn Pd].
    destruct (sci_spec p _ _ Hp Pn Pd) as [B _].
    assert (EP : e_parts p m e = sci p (fst (num_den m e)) (snd (num_den m e))).
    { unfold e_parts. destruct (m =? 0) eqn:E0; [apply Z.eqb_eq in E0; congruence|reflexivity]. }
    rewrite EP. pose proof (e_text_len p _ (snd (sci p (fst (num_den m e)) (snd (num_den m e)))) Hp B) as L. lia.
Qed.

(** a real is written at the field's full precision exactly when sign + mantissa + exponent
    fit the width; otherwise the precision-reduction loop decides *)
Theorem real_e_fits_iff f ng m e : ft f = Te -> 0 <= prec f -> 0 <= m ->
  let k := snd (e_parts (prec f) m e) in
  (e_width (prec f) ng k <= Z.abs (fw f) /\ fmt_field f (XReal ng m e) = Ok (fmt_e (fw f) (prec f) ng m e)) \/
  (Z.abs (fw f) < e_width (prec f) ng k /\ fmt_field f (XReal ng m e) = fit_loop f (XReal ng m e) (Z.to_nat (prec f))).
Proof.
  intros T Hp Hm k. unfold fmt_field, fmt_raw. rewrite T. cbn [bind is_real_ty].
  pose proof (fmt_e_length (fw f) (prec f) ng m e Hp Hm) as L. fold k in L.
  destruct (length (fmt_e (fw f) (prec f) ng m e) <=? width f)%nat eqn:C; [apply Nat.leb_le in C|apply Nat.leb_gt in C];
    unfold width in C.
  - left. split; [lia|reflexivity].
  - right. split; [lia|reflexivity].
Qed.
(** the tight fields of the tables (width = precision + 6, e.g. 10.4e, 20.14e, 15.9e):
    full precision exactly for non-negative values with a two-digit exponent *)
Corollary tight_e_field_fits f ng m e : ft f = Te -> 0 < prec f -> Z.abs (fw f) = prec f + 6 -> 0 <= m ->
  let k := snd (e_parts (prec f) m e) in
  (fmt_field f (XReal ng m e) = Ok (fmt_e (fw f) (prec f) ng m e) <-> ng = false /\ Z.abs k <= 99).
Proof.
  intros T Hp W Hm k. destruct (real_e_fits_iff f ng m e T ltac:(lia) Hm) as [[A B]|[A B]]; fold k in A.
  - split; [intros _|intros _; exact B]. unfold e_width in A. assert (P : (0 <? prec f) = true) by (apply Z.ltb_lt; lia). rewrite P in A.
    destruct ng; [pose proof (ndig_pos (Z.abs k)); lia|]. split; [reflexivity|].
    assert (ndig (Z.abs k) <= 2) by lia. apply (ndig_le_iff (Z.abs k) 2 ltac:(lia) ltac:(lia)) in H. change (10 ^ 2) with 100 in H. lia.
  - split.
    + intro H. exfalso. pose proof (fmt_field_width _ _ _ H) as L.
      pose proof (fmt_e_length (fw f) (prec f) ng m e ltac:(lia) Hm) as L'. fold k in L'. unfold width in L. lia.
    + intros [-> K]. exfalso. unfold e_width in A. assert (P : (0 <? prec f) = true) by (apply Z.ltb_lt; lia). rewrite P in A.
      assert (Z.abs k < 10 ^ 2) by (change (10 ^ 2) with 100; lia).
      apply (ndig_le_iff (Z.abs k) 2 ltac:(lia) ltac:(lia)) in H. lia.
Qed.

(** non-vacuity *)
Example ex_int_fits : let f := {| fw := 5; fp := None; ft := Td |} in
  fmt_field f (XInt 99999) = Ok (s2l "99999") /\ fmt_field f (XInt 100000) = Raise ValueError /\
  fmt_field f (XInt (-9999)) = Ok (s2l "-9999") /\ fmt_field f (XInt (-10000)) = Raise ValueError.
Proof. vm_compute. auto. Qed.
Example ex_tight : let f := {| fw := 10; fp := Some 4; ft := Te |} in
  ft f = Te /\ 0 < prec f /\ Z.abs (fw f) = prec f + 6 /\
  fmt_field f (XReal false 3 (-1)) = Ok (s2l "1.5000e+00") /\ fmt_field f (XReal true 3 (-1)) = Ok (s2l "-1.500e+00").
Proof. vm_compute. auto 6. Qed.
