(** C02 -- arithmetic of the [%e]/[%f] model (Fmt.rhe / ilog10 / sci): round-half-even is
    within half a unit, [ilog10] is the decimal exponent, the mantissa [sci] returns has
    exactly p+1 digits and is within half a unit of the last printed digit of the value.
    All statements over Z with cross-multiplied fractions; the Q reading is in QVal.v. *)
From Coq Require Import ZArith Bool Lia.
From PTBase Require Import Fmt.
From P Require Import Digits.
Open Scope Z_scope.

Lemma p10_pos k : 0 <= k -> 0 < 10 ^ k.
Proof. intro H. apply Z.pow_pos_nonneg; lia. Qed.
Lemma p10_split a b : 0 <= a -> 0 <= b -> 10 ^ (a + b) = 10 ^ a * 10 ^ b.
Proof. intros. apply Z.pow_add_r; assumption. Qed.

(** ** round half even *)
Lemma rhe_spec n d : 0 <= n -> 0 < d -> 0 <= rhe n d /\ Z.abs (2 * (rhe n d * d - n)) <= d.
Proof.
  intros Hn Hd. unfold rhe.
  pose proof (Z.div_mod n d ltac:(lia)) as E. pose proof (Z.mod_pos_bound n d Hd) as R.
  assert (Q : 0 <= n / d) by (apply Z.div_pos; lia).
  set (q := n / d) in *. set (r := n mod d) in *.
  destruct (Z.compare_spec (2 * r) d) as [C|C|C]; [destruct (Z.even q)|..]; split; try lia;
    apply Z.abs_le; nia.
Qed.

(** [x * 10^s] as a fraction, [x = num/den] *)
Definition scaled (s num den : Z) : Z * Z :=
  if 0 <=? s then (num * pow10 s, den) else (num, den * pow10 (- s)).
(** N is within half a unit of [x * 10^s] *)
Definition close (s N num den : Z) : Prop :=
  0 < snd (scaled s num den) /\ Z.abs (2 * (N * snd (scaled s num den) - fst (scaled s num den))) <= snd (scaled s num den).
(** [10^k <= num/den] *)
Definition le_pow (num den k : Z) : Prop :=
  if 0 <=? k then den * 10 ^ k <= num else den <= num * 10 ^ (- k).

Lemma scaled_den_pos s num den : 0 < den -> 0 < snd (scaled s num den).
Proof.
  intro H. unfold scaled, pow10. destruct (0 <=? s) eqn:S; cbn [snd]; [exact H|].
  apply Z.leb_gt in S. pose proof (p10_pos (- s) ltac:(lia)). nia.
Qed.

(** rounding keeps a value of [10^p, 10^(p+1)) inside [10^p, 10^(p+1)] *)
Lemma rhe_range n d lo hi : 0 <= n -> 0 < d -> lo * d <= n -> n < hi * d -> lo <= rhe n d <= hi.
Proof.
  intros Hn Hd L U. destruct (rhe_spec n d Hn Hd) as [_ C]. apply Z.abs_le in C. nia.
Qed.

(** ** decimal exponent *)
Theorem ilog10_spec num den : 0 < num -> 0 < den ->
  le_pow num den (ilog10 num den) /\ ~ le_pow num den (ilog10 num den + 1).
Proof.
  intros Hn Hd. destruct (ndig_spec num Hn) as [La Ua]. destruct (ndig_spec den Hd) as [Lb Ub].
  pose proof (ndig_pos num) as Pa. pose proof (ndig_pos den) as Pb.
  unfold ilog10. set (a := ndig num) in *. set (b := ndig den) in *. cbv zeta.
  assert (U : ~ le_pow num den (a - b + 1)).
  { unfold le_pow. destruct (0 <=? a - b + 1) eqn:S; [apply Z.leb_le in S|apply Z.leb_gt in S].
    - pose proof (p10_split (b - 1) (a - b + 1) ltac:(lia) S) as E. replace (b - 1 + (a - b + 1)) with a in E by lia.
      pose proof (p10_pos (a - b + 1) S). nia.
    - replace (- (a - b + 1)) with (b - a - 1) by lia.
      pose proof (p10_split a (b - a - 1) ltac:(lia) ltac:(lia)) as E. replace (a + (b - a - 1)) with (b - 1) in E by lia.
      pose proof (p10_pos (b - a - 1) ltac:(lia)). nia. }
  assert (L : le_pow num den (a - b - 1)).
  { unfold le_pow. destruct (0 <=? a - b - 1) eqn:S; [apply Z.leb_le in S|apply Z.leb_gt in S].
    - pose proof (p10_split b (a - b - 1) ltac:(lia) S) as E. replace (b + (a - b - 1)) with (a - 1) in E by lia.
      pose proof (p10_pos (a - b - 1) S). nia.
    - replace (- (a - b - 1)) with (b - a + 1) by lia.
      pose proof (p10_split (a - 1) (b - a + 1) ltac:(lia) ltac:(lia)) as E. replace (a - 1 + (b - a + 1)) with b in E by lia.
      pose proof (p10_pos (b - a + 1) ltac:(lia)). nia. }
  unfold pow10.
  destruct (if 0 <=? a - b then den * 10 ^ (a - b) <=? num else den <=? num * 10 ^ (- (a - b))) eqn:G.
  - split; [|exact U]. unfold le_pow. destruct (0 <=? a - b); apply Z.leb_le; exact G.
  - split; [exact L|]. replace (a - b - 1 + 1) with (a - b) by lia.
    unfold le_pow. destruct (0 <=? a - b); apply Z.leb_gt in G; lia.
Qed.

(** the scaled value lies in [10^p, 10^(p+1)) when k is the decimal exponent *)
Lemma scaled_bounds p k num den : 0 <= p -> 0 < num -> 0 < den ->
  le_pow num den k -> ~ le_pow num den (k + 1) ->
  10 ^ p * snd (scaled (p - k) num den) <= fst (scaled (p - k) num den) < 10 ^ (p + 1) * snd (scaled (p - k) num den).
Proof.
  intros Hp Hn Hd L U. unfold scaled, pow10. unfold le_pow in L, U.
  pose proof (p10_pos p Hp) as Pp. pose proof (p10_pos (p + 1) ltac:(lia)) as Pp1.
  destruct (0 <=? p - k) eqn:S; [apply Z.leb_le in S|apply Z.leb_gt in S]; cbn [fst snd].
  - pose proof (p10_pos (p - k) S) as Ps. split.
    + destruct (0 <=? k) eqn:K; [apply Z.leb_le in K|apply Z.leb_gt in K].
      * pose proof (p10_split k (p - k) K S) as E. replace (k + (p - k)) with p in E by lia.
        pose proof (p10_pos k K). nia.
      * pose proof (p10_split p (- k) Hp ltac:(lia)) as E. replace (p + - k) with (p - k) in E by lia.
        pose proof (p10_pos (- k) ltac:(lia)). nia.
    + destruct (0 <=? k + 1) eqn:K; [apply Z.leb_le in K|apply Z.leb_gt in K].
      * pose proof (p10_split (k + 1) (p - k) K S) as E. replace (k + 1 + (p - k)) with (p + 1) in E by lia.
        pose proof (p10_pos (k + 1) K). nia.
      * pose proof (p10_split (- (k + 1)) (p + 1) ltac:(lia) ltac:(lia)) as E. replace (- (k + 1) + (p + 1)) with (p - k) in E by lia.
        pose proof (p10_pos (- (k + 1)) ltac:(lia)). nia.
  - replace (- (p - k)) with (k - p) by lia. pose proof (p10_pos (k - p) ltac:(lia)) as Ps.
    assert (K : (0 <=? k) = true) by (apply Z.leb_le; lia). rewrite K in L.
    assert (K1 : (0 <=? k + 1) = true) by (apply Z.leb_le; lia). rewrite K1 in U.
    pose proof (p10_split p (k - p) Hp ltac:(lia)) as E. replace (p + (k - p)) with k in E by lia.
    pose proof (p10_split (p + 1) (k - p) ltac:(lia) ltac:(lia)) as E1. replace (p + 1 + (k - p)) with (k + 1) in E1 by lia.
    split; nia.
Qed.

(** moving the decimal point one place: closeness at scale s gives closeness of N/10 at
    scale s-1 when N is a multiple of 10 *)
Lemma close_carry s M num den : 0 < den -> close s (10 * M) num den -> close (s - 1) M num den.
Proof.
  intros Hd [Pb C]. split; [apply scaled_den_pos; exact Hd|].
  revert Pb C. unfold scaled, pow10.
  destruct (0 <=? s) eqn:S; [apply Z.leb_le in S|apply Z.leb_gt in S]; cbn [fst snd].
  - destruct (0 <=? s - 1) eqn:S1; [apply Z.leb_le in S1|apply Z.leb_gt in S1]; cbn [fst snd]; intros Pb C.
    + pose proof (p10_split 1 (s - 1) ltac:(lia) S1) as E. replace (1 + (s - 1)) with s in E by lia.
      change (10 ^ 1) with 10 in E. pose proof (p10_pos (s - 1) S1). apply Z.abs_le in C. apply Z.abs_le. nia.
    + assert (s = 0) by lia. subst s. change (- (0 - 1)) with 1. change (10 ^ 1) with 10. change (10 ^ 0) with 1 in C.
      apply Z.abs_le in C. apply Z.abs_le. nia.
  - assert (S1 : (0 <=? s - 1) = false) by (apply Z.leb_gt; lia). rewrite S1. cbn [fst snd]. intros Pb C.
    pose proof (p10_split 1 (- s) ltac:(lia) ltac:(lia)) as E. replace (1 + - s) with (- (s - 1)) in E by lia.
    change (10 ^ 1) with 10 in E. pose proof (p10_pos (- s) ltac:(lia)). apply Z.abs_le in C. apply Z.abs_le. nia.
Qed.

(** ** THE arithmetic fact about [%e]: the printed mantissa has exactly p+1 digits and,
    read with the printed exponent, is within half a unit of the last printed digit *)
Theorem sci_spec p num den : 0 <= p -> 0 < num -> 0 < den ->
  10 ^ p <= fst (sci p num den) < 10 ^ (p + 1) /\
  close (p - snd (sci p num den)) (fst (sci p num den)) num den.
Proof.
  intros Hp Hn Hd. destruct (ilog10_spec num den Hn Hd) as [L U].
  unfold sci. set (k := ilog10 num den) in *. cbv zeta.
  pose proof (scaled_bounds p k num den Hp Hn Hd L U) as B.
  pose proof (scaled_den_pos (p - k) num den Hd) as Pb.
  assert (EN : (if 0 <=? p - k then rhe (num * pow10 (p - k)) den else rhe num (den * pow10 (- (p - k))))
               = rhe (fst (scaled (p - k) num den)) (snd (scaled (p - k) num den))).
  { unfold scaled. destruct (0 <=? p - k); reflexivity. }
  rewrite EN. clear EN.
  set (A := fst (scaled (p - k) num den)) in *. set (Bd := snd (scaled (p - k) num den)) in *.
  pose proof (p10_pos p Hp) as Pp.
  assert (HA : 0 <= A) by nia.
  destruct (rhe_spec A Bd HA Pb) as [N0 C].
  pose proof (rhe_range A Bd (10 ^ p) (10 ^ (p + 1)) HA Pb (proj1 B) (proj2 B)) as R.
  unfold pow10. destruct (rhe A Bd =? 10 ^ (p + 1)) eqn:Q; cbn [fst snd].
  - apply Z.eqb_eq in Q. split.
    + split; [lia|]. apply Z.pow_lt_mono_r; lia.
    + replace (p - (k + 1)) with (p - k - 1) by lia. apply close_carry; [exact Hd|].
      replace (10 * 10 ^ p) with (10 ^ (p + 1)) by (rewrite (p10_split p 1) by lia; change (10 ^ 1) with 10; lia).
      rewrite <- Q. split; [exact Pb|exact C].
  - apply Z.eqb_neq in Q. split; [lia|]. split; [exact Pb|exact C].
Qed.

(** [%f]: the printed scaled integer is within half a unit of [x * 10^p] *)
Theorem rhe_f_spec p num den : 0 <= p -> 0 <= num -> 0 < den ->
  0 <= rhe (num * pow10 p) den /\ close p (rhe (num * pow10 p) den) num den.
Proof.
  intros Hp Hn Hd. pose proof (p10_pos p Hp) as Pp.
  assert (HA : 0 <= num * pow10 p) by (unfold pow10; nia).
  destruct (rhe_spec _ den HA Hd) as [N0 C]. split; [exact N0|].
  unfold close, scaled. assert (S : (0 <=? p) = true) by (apply Z.leb_le; exact Hp). rewrite S. cbn [fst snd].
  split; assumption.
Qed.

(** ** numerator/denominator of a double [m * 2^e] *)
Lemma num_den_pos m e : 0 < m -> 0 < fst (num_den m e) /\ 0 < snd (num_den m e).
Proof.
  intro H. unfold num_den. destruct (0 <=? e) eqn:E; [apply Z.leb_le in E|apply Z.leb_gt in E]; cbn [fst snd].
  - split; [|lia]. pose proof (Z.pow_pos_nonneg 2 e ltac:(lia) E). nia.
  - split; [lia|]. apply Z.pow_pos_nonneg; lia.
Qed.
Lemma num_den_nonneg m e : 0 <= m -> 0 <= fst (num_den m e) /\ 0 < snd (num_den m e).
Proof.
  intro H. unfold num_den. destruct (0 <=? e) eqn:E; [apply Z.leb_le in E|apply Z.leb_gt in E]; cbn [fst snd].
  - split; [|lia]. pose proof (Z.pow_pos_nonneg 2 e ltac:(lia) E). nia.
  - split; [lia|]. apply Z.pow_pos_nonneg; lia.
Qed.
