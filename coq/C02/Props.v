(** C02 -- property theorems only. *)
From Coq Require Import Ascii String List Bool Arith ZArith NArith QArith Qabs.
From PTBase Require Import Exn PyStr PyNum PyVal Fmt FixedFormat.
From Gen Require Import GenTables.
From P Require Import Main Digits ReadBack Round QVal FieldRB Fits Tail.
Import ListNotations.

(** finite obligation over the regenerated tables: every width non-zero, precision
    present and small enough that a real field can hold a value at full precision,
    names and specs aligned, no %g *)
Theorem spec_tables_wf : all_wf = true.
Proof. exact all_tables_wf. Qed.
Print Assumptions spec_tables_wf.

(** every field the writer emits has exactly its width (for any spec, any value) *)
Theorem field_width_exact : forall f v s, fmt_field f v = Ok s -> length s = width f.
Proof. exact fmt_field_width. Qed.
Print Assumptions field_width_exact.

(** record_no_spill: for every record kind of every table and ANY values, if the writer
    returns a line, slicing it at the record's columns returns each written field's own
    text -- nothing is displaced, whatever follows on the line *)
Theorem record_no_spill : forall tn t rn names specs vals l rest,
  In (tn, t) all_tables -> In (rn, (names, specs)) t ->
  write_fields specs vals = Ok l ->
  firstn (length l) (field_slices specs (concat l ++ rest)%list) = l.
Proof. exact table_record_no_spill. Qed.
Print Assumptions record_no_spill.

(** overflow_is_loud_or_local: the writer either raises, or the columns of field i hold
    the formatting of value i alone, of exactly the field width *)
Theorem overflow_is_loud_or_local : forall specs vals l rest i f v,
  write_fields specs vals = Ok l -> nth_error specs i = Some f -> nth_error vals i = Some v ->
  exists s, nth_error (field_slices specs (concat l ++ rest)%list) i = Some s /\ fmt_field f v = Ok s /\ length s = width f.
Proof. exact loud_or_local. Qed.
Print Assumptions overflow_is_loud_or_local.

Theorem absent_value_is_blank : forall f, fmt_field f XNone = Ok (spaces (width f)).
Proof. exact none_is_blank. Qed.
Print Assumptions absent_value_is_blank.

(** ** value level: parsing the written columns returns the value that was written.
    [rf_ok rf]: rf is the default read function or the Fortran one (t2incon).
    Definitions: FieldRB.v ([reads_back], [real_rb], [half_unit]), QVal.v ([dec_val], [xval]). *)

(** int('%wd' % z) = z: every width (even one the text overflows), every integer *)
Theorem int_text_read_back : forall w z, py_int_opt (fmt_int w z) = Some z.
Proof. exact py_int_fmt_int. Qed.
Print Assumptions int_text_read_back.

(** a 'd' field the writer accepted parses back to exactly the integer written *)
Theorem int_read_back : forall rf f z s, rf_ok rf -> ft f = Td -> fmt_field f (XInt z) = Ok s -> rf Td s = RInt z.
Proof. exact int_field_read_back. Qed.
Print Assumptions int_read_back.

(** an 's' field the writer accepted holds the name justified to exactly the field width
    (right for w > 0, left for w < 0); the reader delivers that text with trailing newlines
    removed and the PADDING KEPT (default_read_str is x.rstrip('\n')): for a name without
    newline exactly the justified text, whose str.strip() is the name when the name has
    no whitespace *)
Theorem str_read_back : forall rf f x s, rf_ok rf -> ft f = Ts -> fmt_field f (XStr x) = Ok s ->
  s = pad (fw f) x /\ (length x <= width f)%nat /\ length s = width f /\
  rf Ts s = RStr (rstrip_c newline (pad (fw f) x)) /\
  (forallb (fun c => negb (ceqb c newline)) x = true -> rf Ts s = RStr (pad (fw f) x)) /\
  (forallb (fun c => negb (is_space c)) x = true -> strip s = x).
Proof. exact str_field_read_back. Qed.
Print Assumptions str_read_back.

(** an absent value is written as blanks and parses back to None in every numeric and
    skip field; in an 's' field the reader delivers the blank string itself *)
Theorem none_read_back : forall rf f, rf_ok rf ->
  fmt_field f Fmt.XNone = Ok (spaces (width f)) /\
  rf (ft f) (spaces (width f)) = match ft f with Ts => RStr (spaces (width f)) | _ => RNone end.
Proof. exact none_field_read_back. Qed.
Print Assumptions none_read_back.

(** float('%w.qe' % x) for the double x = (-1)^ng * m * 2^e, any width, any precision
    q >= 0: a decimal (-1)^ng * M * 10^E whose mantissa M has exactly q+1 digits (x <> 0),
    within half a unit of its last printed digit of x (over Q); 2- and 3-digit exponents
    and both signs included *)
Theorem real_e_read_back : forall w q ng m e, (0 <= q)%Z -> (0 <= m)%Z ->
  exists M E, py_float_opt (fmt_e w q ng m e) = Some (Fin ng M E) /\
    (Qabs (dec_val ng M E - xval ng m e) <= half_unit E)%Q /\
    (m <> 0%Z -> (10 ^ q <= Z.of_N M < 10 ^ (q + 1))%Z) /\ (m = 0%Z -> M = 0%N /\ E = (- q)%Z).
Proof. exact e_read_back. Qed.
Print Assumptions real_e_read_back.

(** float('%w.qf' % x): the decimal M * 10^-q within half of 10^-q of x *)
Theorem real_f_read_back : forall w q ng m e, (0 <= q)%Z -> (0 <= m)%Z ->
  exists M, py_float_opt (fmt_f w q ng m e) = Some (Fin ng M (- q)) /\
    (Qabs (dec_val ng M (- q) - xval ng m e) <= half_unit (- q))%Q.
Proof. exact f_read_back. Qed.
Print Assumptions real_f_read_back.

(** a real field the writer accepted (possibly after fit_value reduced the precision to
    some q below the field's, q = the field's precision whenever the full-precision text
    fits) parses back to the decimal printed at precision q, within half a unit of its
    last printed digit of the value written *)
Theorem real_read_back : forall rf f ng m e s, rf_ok rf -> (ft f = Te \/ ft f = Tf) -> (0 <= prec f)%Z -> (0 <= m)%Z ->
  fmt_field f (XReal ng m e) = Ok s -> real_rb f (XReal ng m e) ng m e (rf (ft f) s).
Proof. exact real_field_read_back. Qed.
Print Assumptions real_read_back.

(** every spec, every value, either read function *)
Theorem field_reads_back : forall rf f v s, rf_ok rf -> spec_ok f -> value_wf v ->
  fmt_field f v = Ok s -> reads_back f v (rf (ft f) s).
Proof. exact field_read_back. Qed.
Print Assumptions field_reads_back.

(** record_read_back: for every record kind of the regenerated tables and ANY values, if
    the writer returns a line then parsing it (whatever follows on the line) returns at
    every written position the read-back of that position's own value: nothing displaced *)
Theorem record_read_back : forall tn t rn names specs rf vals l rest,
  In (tn, t) all_tables -> In (rn, (names, specs)) t ->
  rf_ok rf -> Forall value_wf vals -> write_fields specs vals = Ok l ->
  forall i f v, nth_error specs i = Some f -> nth_error vals i = Some v ->
    exists r, nth_error (parse_string rf specs (concat l ++ rest)%list) i = Some r /\ reads_back f v r.
Proof. exact table_record_read_back. Qed.
Print Assumptions record_read_back.

(** the same for any specification list whose real fields have non-negative precision *)
Theorem record_read_back_any_spec : forall rf specs vals l rest,
  rf_ok rf -> Forall spec_ok specs -> Forall value_wf vals -> write_fields specs vals = Ok l ->
  forall i f v, nth_error specs i = Some f -> nth_error vals i = Some v ->
    exists r, nth_error (parse_string rf specs (concat l ++ rest)%list) i = Some r /\ reads_back f v r.
Proof. exact record_read_back_gen. Qed.
Print Assumptions record_read_back_any_spec.

(** ** which values fit (the lattice of the quantifier in closed form); what does not fit
    is refused loudly (integers, names) or handed to the precision-reduction loop (reals) *)

(** a 'd' field of width W >= 1 accepts exactly -10^(W-1) < z < 10^W, else ValueError *)
Theorem int_fits_characterised : forall f z, ft f = Td -> (1 <= width f)%nat ->
  let W := Z.of_nat (width f) in
  ((- 10 ^ (W - 1) < z < 10 ^ W)%Z /\ fmt_field f (XInt z) = Ok (fmt_int (fw f) z)) \/
  (~ (- 10 ^ (W - 1) < z < 10 ^ W)%Z /\ fmt_field f (XInt z) = Raise ValueError).
Proof. exact int_fits_iff. Qed.
Print Assumptions int_fits_characterised.

(** an 's' field accepts exactly the names no longer than its width, else ValueError *)
Theorem str_fits_characterised : forall f x, ft f = Ts ->
  ((length x <= width f)%nat /\ fmt_field f (XStr x) = Ok (pad (fw f) x)) \/
  ((width f < length x)%nat /\ fmt_field f (XStr x) = Raise ValueError).
Proof. exact str_fits_iff. Qed.
Print Assumptions str_fits_characterised.

(** an 'e' field writes a real at full precision exactly when sign + mantissa + exponent
    digits (e_width) fit; otherwise the result is that of the fit_value loop *)
Theorem real_e_fits_characterised : forall f ng m e, ft f = Te -> (0 <= prec f)%Z -> (0 <= m)%Z ->
  let k := snd (e_parts (prec f) m e) in
  ((e_width (prec f) ng k <= Z.abs (fw f))%Z /\ fmt_field f (XReal ng m e) = Ok (fmt_e (fw f) (prec f) ng m e)) \/
  ((Z.abs (fw f) < e_width (prec f) ng k)%Z /\ fmt_field f (XReal ng m e) = fit_loop f (XReal ng m e) (Z.to_nat (prec f))).
Proof. exact real_e_fits_iff. Qed.
Print Assumptions real_e_fits_characterised.

(** the tight real fields of the tables (width = precision + 6: 10.4e, 15.9e, 20.14e ...)
    keep full precision exactly for non-negative values with a two-digit exponent: any
    negative number and any three-digit exponent loses digits there *)
Theorem tight_e_field_fits_characterised : forall f ng m e,
  ft f = Te -> (0 < prec f)%Z -> Z.abs (fw f) = (prec f + 6)%Z -> (0 <= m)%Z ->
  let k := snd (e_parts (prec f) m e) in
  (fmt_field f (XReal ng m e) = Ok (fmt_e (fw f) (prec f) ng m e) <-> ng = false /\ (Z.abs k <= 99)%Z).
Proof. exact tight_e_field_fits. Qed.
Print Assumptions tight_e_field_fits_characterised.

(** ** short value lists and loud failures (Tail.v) *)

(** a value list shorter than the record (zip truncation in write_values_to_string): every
    position at or beyond the end of the value list parses to "absent" -- None, the empty
    string for an 's' field -- from the written line as returned (rest = []) or as it sits
    in the file after write_values / readline (rest = newline), under either read function:
    never a piece of a written neighbour *)
Theorem short_record_tail_reads_absent : forall rf specs vals l i f rest,
  rf_ok rf -> write_fields specs vals = Ok l ->
  (length vals <= i)%nat -> nth_error specs i = Some f ->
  (rest = [] \/ rest = [newline]) ->
  nth_error (parse_string rf specs (concat l ++ rest)%list) i = Some (match ft f with Ts => RStr [] | _ => RNone end).
Proof. exact tail_reads_absent. Qed.
Print Assumptions short_record_tail_reads_absent.

(** a record write that raises does so with the exception of one of its own (field, value)
    pairs -- the first that does not fit; every pair before it formats *)
Theorem write_fails_only_by_own_field : forall specs vals e, write_fields specs vals = Raise e ->
  exists i f v, nth_error specs i = Some f /\ nth_error vals i = Some v /\ fmt_field f v = Raise e /\
    (forall j g u, (j < i)%nat -> nth_error specs j = Some g -> nth_error vals j = Some u -> exists s, fmt_field g u = Ok s).
Proof. exact write_raise_own_field. Qed.
Print Assumptions write_fails_only_by_own_field.

(** the writer returns a line exactly when every value formats in its own field: whether a
    record can be written never depends on how values combine *)
Theorem write_succeeds_iff_every_field_fits : forall specs vals,
  (exists l, write_fields specs vals = Ok l) <->
  (forall i f v, nth_error specs i = Some f -> nth_error vals i = Some v -> exists s, fmt_field f v = Ok s).
Proof. exact write_ok_iff_fields_ok. Qed.
Print Assumptions write_succeeds_iff_every_field_fits.

(** the written line has exactly the width of the fields that were written: never longer
    than the record, and exactly the record's width when no value is missing *)
Theorem written_line_length : forall specs vals line, write_values specs vals = Ok line ->
  length line = list_sum (firstn (length vals) (map width specs)) /\
  (length line <= list_sum (map width specs))%nat /\
  ((length specs <= length vals)%nat -> length line = list_sum (map width specs)).
Proof. exact written_line_length_exact. Qed.
Print Assumptions written_line_length.

(** dropping trailing values: the shorter list is written too, as the same leading fields --
    the line of the full list is the line of the first k values followed by the rest *)
Theorem shorter_list_writes_same_leading_fields : forall specs vals l k, write_fields specs vals = Ok l ->
  write_fields specs (firstn k vals) = Ok (firstn k l) /\
  concat l = (concat (firstn k l) ++ concat (skipn k l))%list.
Proof. exact write_prefix. Qed.
Print Assumptions shorter_list_writes_same_leading_fields.

(** parse_string returns exactly one result per field of the record, whatever the line
    (short, truncated, over-long) and whatever the read function *)
Theorem parse_one_result_per_field : forall rf specs line, length (parse_string rf specs line) = length specs.
Proof. exact parse_string_length. Qed.
Print Assumptions parse_one_result_per_field.

(** an empty line (readline at end of file) or a bare newline parses to "absent" in every
    field: None, the empty string for an 's' field, under either read function *)
Theorem empty_line_reads_all_absent : forall rf specs i f rest,
  rf_ok rf -> nth_error specs i = Some f -> (rest = [] \/ rest = [newline]) ->
  nth_error (parse_string rf specs rest) i = Some (match ft f with Ts => RStr [] | _ => RNone end).
Proof. exact empty_line_all_absent. Qed.
Print Assumptions empty_line_reads_all_absent.
