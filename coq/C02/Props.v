(** C02 -- property theorems only. *)
From Coq Require Import Ascii String List Bool Arith ZArith NArith.
From PTBase Require Import Exn PyStr PyNum PyVal Fmt FixedFormat.
From Gen Require Import GenTables.
From P Require Import Main.
Import ListNotations.

(** finite obligation over the regenerated tables: every width non-zero, precision
    present and small enough that a real field can hold a value at full precision,
    names and specs aligned, no %g *)
Theorem spec_tables_wf : all_wf = true.
Proof. exact all_tables_wf. Qed.
Print Assumptions spec_tables_wf.

(** every field the writer emits has exactly its width (for any spec, any value) *)
Theorem field_width_exact : forall f v s, fmt_field f v = Ok s -> length s = width f.
Proof. exact fmt_field_width. Qed.
Print Assumptions field_width_exact.

(** record_no_spill: for every record kind of every table and ANY values, if the writer
    returns a line, slicing it at the record's columns returns each written field's own
    text -- nothing is displaced, whatever follows on the line *)
Theorem record_no_spill : forall tn t rn names specs vals l rest,
  In (tn, t) all_tables -> In (rn, (names, specs)) t ->
  write_fields specs vals = Ok l ->
  firstn (length l) (field_slices specs (concat l ++ rest)%list) = l.
Proof. exact table_record_no_spill. Qed.
Print Assumptions record_no_spill.

(** overflow_is_loud_or_local: the writer either raises, or the columns of field i hold
    the formatting of value i alone, of exactly the field width *)
Theorem overflow_is_loud_or_local : forall specs vals l rest i f v,
  write_fields specs vals = Ok l -> nth_error specs i = Some f -> nth_error vals i = Some v ->
  exists s, nth_error (field_slices specs (concat l ++ rest)%list) i = Some s /\ fmt_field f v = Ok s /\ length s = width f.
Proof. exact loud_or_local. Qed.
Print Assumptions overflow_is_loud_or_local.

Theorem absent_value_is_blank : forall f, fmt_field f XNone = Ok (spaces (width f)).
Proof. exact none_is_blank. Qed.
Print Assumptions absent_value_is_blank.
