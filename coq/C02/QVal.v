(** C02 -- the rational reading of the rounding facts of Round.v: the decimal that float()
    reads from a [%e]/[%f] field is within half a unit of the last printed digit of the
    double that was written.  Values over Q: a double is [(-1)^neg * m * 2^e], a decimal
    is [(-1)^neg * M * 10^E] (stdlib [Qpower]). *)
From Coq Require Import ZArith NArith QArith Qabs Qpower Bool Lia.
From PTBase Require Import PyNum Fmt.
From P Require Import Digits Round.
Open Scope Z_scope.

(** b^k for any integer k as an explicit fraction (b > 0) *)
Definition qpw (b k : Z) : Q :=
  if 0 <=? k then inject_Z (b ^ k) else 1 # Z.to_pos (b ^ (- k)).

Lemma qinv_pos X : 0 < X -> (1 # Z.to_pos X == / inject_Z X)%Q.
Proof. intro H. destruct X as [|q|q]; try lia. reflexivity. Qed.
Lemma qpw_Qpower b k : 0 < b -> (qpw b k == Qpower (inject_Z b) k)%Q.
Proof.
  intro Hb. unfold qpw. destruct (0 <=? k) eqn:K; [apply Z.leb_le in K|apply Z.leb_gt in K].
  - apply Zpower_Qpower. exact K.
  - rewrite qinv_pos by (apply Z.pow_pos_nonneg; lia).
    rewrite Zpower_Qpower by lia. symmetry. rewrite <- (Z.opp_involutive k) at 1. apply Qpower_opp.
Qed.
Lemma qpw_pos b k : 0 < b -> (0 < qpw b k)%Q.
Proof.
  intro Hb. unfold qpw. destruct (0 <=? k) eqn:K; [apply Z.leb_le in K|apply Z.leb_gt in K].
  - unfold Qlt, inject_Z. cbn [Qnum Qden]. pose proof (Z.pow_pos_nonneg b k Hb K). lia.
  - reflexivity.
Qed.
Lemma qpw_opp b k : 0 < b -> (qpw b k * qpw b (- k) == 1)%Q.
Proof.
  intro Hb. rewrite !qpw_Qpower by exact Hb. rewrite Qpower_opp. apply Qmult_inv_r.
  rewrite <- qpw_Qpower by exact Hb. pose proof (qpw_pos b k Hb) as P. intro E. rewrite E in P. discriminate P.
Qed.

(** ** fractions *)
Definition frac (A B : Z) : Q := A # Z.to_pos B.

Lemma frac_close N A B : 0 < B -> Z.abs (2 * (N * B - A)) <= B -> (Qabs (inject_Z N - frac A B) <= 1 # 2)%Q.
Proof.
  intros HB C. apply Z.abs_le in C. apply Qabs_Qle_condition.
  unfold frac, Qle, Qminus, Qplus, Qopp, inject_Z. cbn [Qnum Qden].
  rewrite ?Pos2Z.inj_mul, ?Z2Pos.id by exact HB. split; nia.
Qed.
Lemma Qabs_scale a b c T : (0 < T -> Qabs (a - b) <= c -> Qabs (a * T - b * T) <= c * T)%Q.
Proof.
  intros HT H. setoid_replace (a * T - b * T)%Q with ((a - b) * T)%Q by ring.
  rewrite Qabs_Qmult. rewrite (Qabs_pos T) by (apply Qlt_le_weak; exact HT).
  apply Qmult_le_compat_r; [exact H|apply Qlt_le_weak; exact HT].
Qed.
(** the scaled fraction is x * 10^s *)
Lemma scaled_frac s num den : 0 < den ->
  (frac (fst (scaled s num den)) (snd (scaled s num den)) == frac num den * qpw 10 s)%Q.
Proof.
  intro Hd. unfold scaled, qpw, pow10, frac.
  destruct (0 <=? s) eqn:S; [apply Z.leb_le in S|apply Z.leb_gt in S]; cbn [fst snd].
  - unfold Qeq, Qmult, inject_Z. cbn [Qnum Qden]. rewrite ?Pos2Z.inj_mul, ?Z2Pos.id by exact Hd. ring.
  - pose proof (Z.pow_pos_nonneg 10 (- s) ltac:(lia) ltac:(lia)) as P.
    unfold Qeq, Qmult. cbn [Qnum Qden]. rewrite ?Pos2Z.inj_mul, ?Z2Pos.id by (try assumption; nia). ring.
Qed.

(** closeness at scale s: N * 10^(-s) is within half of 10^(-s) of num/den *)
Theorem close_Q s N num den : 0 < den -> close s N num den ->
  (Qabs (inject_Z N * qpw 10 (- s) - frac num den) <= (1 # 2) * qpw 10 (- s))%Q.
Proof.
  intros Hd [Pb C]. pose proof (frac_close N _ _ Pb C) as F.
  apply (Qabs_scale _ _ _ (qpw 10 (- s)) (qpw_pos 10 (- s) ltac:(lia))) in F.
  rewrite scaled_frac in F by exact Hd.
  setoid_replace (frac num den * qpw 10 s * qpw 10 (- s))%Q with (frac num den * (qpw 10 s * qpw 10 (- s)))%Q in F by ring.
  rewrite qpw_opp in F by lia. rewrite Qmult_1_r in F. exact F.
Qed.

(** ** values *)
Definition qsign (neg : bool) : Q := if neg then inject_Z (-1) else inject_Z 1.
(** the double that is written *)
Definition xval (neg : bool) (m e : Z) : Q := (qsign neg * (inject_Z m * Qpower (inject_Z 2) e))%Q.
(** the decimal that is read *)
Definition dec_val (neg : bool) (M : N) (E : Z) : Q := (qsign neg * (inject_Z (Z.of_N M) * Qpower (inject_Z 10) E))%Q.
Definition fval_Q (v : fval) : Q := match v with Fin ng M E => dec_val ng M E | _ => 0 end.

Lemma num_den_frac m e : (frac (fst (num_den m e)) (snd (num_den m e)) == inject_Z m * qpw 2 e)%Q.
Proof.
  unfold num_den, qpw, frac. destruct (0 <=? e) eqn:E; cbn [fst snd].
  - unfold Qeq, Qmult, inject_Z. cbn [Qnum Qden]. reflexivity.
  - unfold Qeq, Qmult, inject_Z. cbn [Qnum Qden]. rewrite Pos.mul_1_l. ring.
Qed.
Lemma Qabs_qsign neg y : (Qabs (qsign neg * y) == Qabs y)%Q.
Proof. rewrite Qabs_Qmult. destruct neg; cbn [qsign]; [change (Qabs (inject_Z (-1))) with 1%Q|change (Qabs (inject_Z 1)) with 1%Q]; apply Qmult_1_l. Qed.

(** THE accuracy statement: if N is within half a unit of x*10^s (Round.close) then the
    decimal N*10^(-s) with the sign of x is within half of 10^(-s) of the double x *)
Theorem close_value neg m e s N : 0 <= N ->
  close s N (fst (num_den m e)) (snd (num_den m e)) -> 0 < snd (num_den m e) ->
  (Qabs (dec_val neg (Z.to_N N) (- s) - xval neg m e) <= (1 # 2) * Qpower (inject_Z 10) (- s))%Q.
Proof.
  intros HN C Hd. pose proof (close_Q s N _ _ Hd C) as F.
  rewrite num_den_frac in F. rewrite !qpw_Qpower in F by lia.
  unfold dec_val, xval. rewrite Z2N.id by exact HN.
  setoid_replace (qsign neg * (inject_Z N * inject_Z 10 ^ (- s)) - qsign neg * (inject_Z m * inject_Z 2 ^ e))%Q
    with (qsign neg * (inject_Z N * inject_Z 10 ^ (- s) - inject_Z m * inject_Z 2 ^ e))%Q by ring.
  rewrite Qabs_qsign. exact F.
Qed.
Lemma zero_value neg e E : (Qabs (dec_val neg 0 E - xval neg 0 e) <= (1 # 2) * Qpower (inject_Z 10) E)%Q.
Proof.
  unfold dec_val, xval. change (inject_Z (Z.of_N 0)) with 0%Q. change (inject_Z 0) with 0%Q.
  setoid_replace (qsign neg * (0 * inject_Z 10 ^ E) - qsign neg * (0 * inject_Z 2 ^ e))%Q with 0%Q by ring.
  change (Qabs 0) with 0%Q. rewrite <- qpw_Qpower by lia. pose proof (qpw_pos 10 E ltac:(lia)) as P.
  apply Qlt_le_weak. rewrite <- (Qmult_0_r (1 # 2)). apply Qmult_lt_l; [reflexivity|exact P].
Qed.
(** a coarser unit is a weaker bound *)
Lemma unit_mono E E' : E <= E' -> (Qpower (inject_Z 10) E <= Qpower (inject_Z 10) E')%Q.
Proof.
  intro H. replace E' with (E + (E' - E)) by lia. rewrite Qpower_plus by discriminate.
  rewrite <- (Qmult_1_r (inject_Z 10 ^ E)) at 1. apply Qmult_le_l.
  - rewrite <- qpw_Qpower by lia. apply qpw_pos. lia.
  - rewrite <- qpw_Qpower by lia. unfold qpw. assert (K : (0 <=? E' - E) = true) by (apply Z.leb_le; lia). rewrite K.
    unfold Qle, inject_Z. cbn [Qnum Qden]. pose proof (Z.pow_pos_nonneg 10 (E' - E) ltac:(lia) ltac:(lia)). lia.
Qed.
