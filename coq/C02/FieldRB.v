(** C02 -- value-level read-back: what [parse_string] (default or Fortran read functions)
    returns on the columns of a field written by [write_values_to_string], for every field
    spec and every value, and its composition with the no-spill theorem for whole records. *)
From Coq Require Import Ascii String List Bool Arith ZArith NArith QArith Qabs Lia.
From PTBase Require Import Exn PyStr PyNum PyVal Fmt FixedFormat.
From PTModel Require Import Fortran FortranNF FortranRender.
From Gen Require Import GenTables.
From P Require Import Main Digits ReadBack Round QVal.
Import ListNotations.
Open Scope char_scope.
Open Scope Z_scope.

(** ** reals: float() of a written field is the printed decimal, within half a unit of
    its last digit of the double that was written *)
Definition half_unit (E : Z) : Q := ((1 # 2) * Qpower (inject_Z 10) E)%Q.

Theorem e_read_back w q ng m e : 0 <= q -> 0 <= m ->
  exists M E, py_float_opt (fmt_e w q ng m e) = Some (Fin ng M E) /\
    (Qabs (dec_val ng M E - xval ng m e) <= half_unit E)%Q /\
    (m <> 0 -> 10 ^ q <= Z.of_N M < 10 ^ (q + 1)) /\ (m = 0 -> M = 0%N /\ E = - q).
Proof.
  intros Hq Hm. destruct (Z.eq_dec m 0) as [->|NZ].
  - exists 0%N, (- q). split; [|split; [apply zero_value|split; [congruence|auto]]].
    rewrite py_float_fmt_e by (try exact Hq; congruence). reflexivity.
  - assert (Pm : 0 < m) by lia. destruct (num_den_pos m e Pm) as [Pn Pd].
    destruct (sci_spec q _ _ Hq Pn Pd) as [B C].
    assert (EP : e_parts q m e = sci q (fst (num_den m e)) (snd (num_den m e))).
    { unfold e_parts. destruct (m =? 0) eqn:E0; [apply Z.eqb_eq in E0; congruence|reflexivity]. }
    set (N := fst (sci q (fst (num_den m e)) (snd (num_den m e)))) in *.
    set (k := snd (sci q (fst (num_den m e)) (snd (num_den m e)))) in *.
    exists (Z.to_N N), (k - q). split; [|split; [|split]].
    + rewrite py_float_fmt_e by (try exact Hq; rewrite EP; intros _; exact B). rewrite EP. reflexivity.
    + replace (k - q) with (- (q - k)) by lia. unfold half_unit. apply close_value; [lia|exact C|exact Pd].
    + intros _. rewrite Z2N.id by lia. exact B.
    + congruence.
Qed.
Theorem f_read_back w q ng m e : 0 <= q -> 0 <= m ->
  exists M, py_float_opt (fmt_f w q ng m e) = Some (Fin ng M (- q)) /\
    (Qabs (dec_val ng M (- q) - xval ng m e) <= half_unit (- q))%Q.
Proof.
  intros Hq Hm. destruct (num_den_nonneg m e Hm) as [Pn Pd].
  destruct (rhe_f_spec q _ _ Hq Pn Pd) as [N0 C]. fold (f_parts q m e) in N0, C.
  exists (Z.to_N (f_parts q m e)). split.
  - apply py_float_fmt_f; assumption.
  - unfold half_unit. apply close_value; assumption.
Qed.

(** ** the read functions *)
Definition rf_ok (rf : readfn) : Prop := rf = default_rf \/ rf = fortran_rf.

Lemma strip_spaces n : strip (spaces n) = [].
Proof.
  unfold strip, strip_by, rstrip_by.
  assert (A : forallb is_space (spaces n) = true) by (induction n as [|n IH]; [reflexivity|exact IH]).
  rewrite (lstrip_by_all _ _ A). reflexivity.
Qed.
Lemma rf_str rf s : rf_ok rf -> rf Ts s = RStr (rstrip_c newline s).
Proof. intros [->| ->]; reflexivity. Qed.
Lemma rf_x rf s : rf_ok rf -> rf Tx s = RNone.
Proof. intros [->| ->]; reflexivity. Qed.
Lemma rf_int rf s z : rf_ok rf -> py_int_opt s = Some z -> rf Td s = RInt z.
Proof. intros [->| ->] H; cbn [default_rf fortran_rf]; unfold fortran_int; rewrite H; reflexivity. Qed.
Lemma rf_float rf t s v : rf_ok rf -> is_real_ty t = true -> py_float_opt s = Some v -> rf t s = RFloat v.
Proof. intros [->| ->] T H; destruct t; try discriminate T; cbn [default_rf fortran_rf]; unfold fortran_float; rewrite H; reflexivity. Qed.
Lemma rf_blank rf t n : rf_ok rf -> rf t (spaces n) = match t with Ts => RStr (rstrip_c newline (spaces n)) | _ => RNone end.
Proof.
  intros [->| ->]; destruct t; cbn [default_rf fortran_rf]; unfold fortran_int, fortran_float;
    rewrite ?py_int_blank, ?py_float_blank, ?strip_spaces; reflexivity.
Qed.
Lemma lstrip_c_id ch s : forallb (fun c => negb (ceqb c ch)) s = true -> lstrip_c ch s = s.
Proof. destruct s as [|c r]; [reflexivity|]. cbn. intro H. apply andb_prop in H as [H _]. destruct (ceqb c ch); [discriminate|reflexivity]. Qed.
Lemma rstrip_c_id ch s : forallb (fun c => negb (ceqb c ch)) s = true -> rstrip_c ch s = s.
Proof. intro H. unfold rstrip_c. rewrite lstrip_c_id by (rewrite forallb_rev; exact H). apply rev_involutive. Qed.
Lemma spaces_no_newline n : forallb (fun c => negb (ceqb c newline)) (spaces n) = true.
Proof. induction n as [|n IH]; [reflexivity|exact IH]. Qed.
Lemma rstrip_spaces n : rstrip_c newline (spaces n) = spaces n.
Proof. apply rstrip_c_id, spaces_no_newline. Qed.
(** a name without a newline comes back as the justified text: padding is NOT stripped *)
Lemma rstrip_pad w s : forallb (fun c => negb (ceqb c newline)) s = true -> rstrip_c newline (pad w s) = pad w s.
Proof.
  intro H. apply rstrip_c_id. destruct (pad_form w s) as (a & b & ->).
  rewrite !forallb_app, H, !spaces_no_newline. reflexivity.
Qed.
(** ... and [str.strip()] of it is the name when the name has no whitespace *)
Lemma strip_pad w s : forallb (fun c => negb (is_space c)) s = true -> strip (pad w s) = s.
Proof.
  intro H. destruct (pad_form w s) as (a & b & ->). unfold strip.
  assert (A : forall n, forallb is_space (spaces n) = true) by (induction n as [|n IH]; [reflexivity|exact IH]).
  apply strip_by_wrap; [apply A|apply A|exact H].
Qed.

(** ** what a field must read back to *)
Definition real_parts (v : value) : option (bool * Z * Z) :=
  match v with XReal ng m e => Some (ng, m, e) | XInt z => Some (z <? 0, Z.abs z, 0) | _ => None end.
(** magnitudes are non-negative *)
Definition value_wf (v : value) : Prop := match v with XReal _ m _ => 0 <= m | _ => True end.
(** a real field has a non-negative precision *)
Definition spec_ok (f : fspec) : Prop := is_real_ty (ft f) = true -> 0 <= prec f.

(** read-back of a real written into field f: some precision q <= the field's precision
    was used (q = the field's precision whenever the value fits at full precision); the
    reader returns the decimal printed at that precision, within half a unit of its last
    printed digit of the value written; for %e the mantissa has q+1 digits *)
Definition real_rb (f : fspec) (v : value) (ng : bool) (m e : Z) (r : rvalue) : Prop :=
  exists q M E, 0 <= q <= prec f /\ r = RFloat (Fin ng M E) /\
    (Qabs (dec_val ng M E - xval ng m e) <= half_unit E)%Q /\
    (forall t, fmt_raw f (prec f) v = Ok t -> (length t <= width f)%nat -> q = prec f) /\
    match ft f with
    | Te => (m <> 0 -> 10 ^ q <= Z.of_N M < 10 ^ (q + 1)) /\ (m = 0 -> M = 0%N /\ E = - q)
    | _ => E = - q
    end.

Definition reads_back (f : fspec) (v : value) (r : rvalue) : Prop :=
  match ft f, v with
  | Tx, _ => r = RNone
  | Ts, Fmt.XNone => r = RStr (spaces (width f))
  | _, Fmt.XNone => r = RNone
  | Ts, XStr s => r = RStr (rstrip_c newline (pad (fw f) s)) /\ (length s <= width f)%nat /\ length (pad (fw f) s) = width f
  | Ts, XInt z => r = RStr (pad (fw f) (z_to_str z)) /\ length (pad (fw f) (z_to_str z)) = width f
  | Td, XInt z => r = RInt z
  | Te, XReal ng m e | Tf, XReal ng m e => real_rb f v ng m e r
  | Te, XInt z | Tf, XInt z => real_rb f v (z <? 0) (Z.abs z) 0 r
  | _, _ => False
  end.

(** the precision the width guard ends with *)
Lemma fit_loop_prec f v n s : fit_loop f v n = Ok s ->
  exists k, (k < n)%nat /\ fmt_raw f (Z.of_nat k) v = Ok s /\ (length s <= width f)%nat.
Proof.
  induction n as [|k IH]; cbn [fit_loop]; [discriminate|].
  destruct (fmt_raw f (Z.of_nat k) v) as [t|ex] eqn:E; [|discriminate].
  destruct (length t <=? width f)%nat eqn:L.
  - intro H; inversion H; subst. exists k. apply Nat.leb_le in L. auto.
  - intro H. destruct (IH H) as (k' & Lt & R). exists k'. split; [lia|exact R].
Qed.
Lemma fmt_field_prec f v s : v <> Fmt.XNone -> ft f <> Tx -> fmt_field f v = Ok s ->
  exists q, fmt_raw f q v = Ok s /\ (length s <= width f)%nat /\
    (q = prec f \/ (is_real_ty (ft f) = true /\ 0 <= q < prec f)) /\
    (forall t, fmt_raw f (prec f) v = Ok t -> (length t <= width f)%nat -> q = prec f).
Proof.
  intros NN NX. unfold fmt_field.
  assert (G : (do s0 <- fmt_raw f (prec f) v;
               if (length s0 <=? width f)%nat then Ok s0
               else if is_real_ty (ft f) then fit_loop f v (Z.to_nat (prec f)) else Raise ValueError) = Ok s ->
              exists q, fmt_raw f q v = Ok s /\ (length s <= width f)%nat /\
                (q = prec f \/ (is_real_ty (ft f) = true /\ 0 <= q < prec f)) /\
                (forall t, fmt_raw f (prec f) v = Ok t -> (length t <= width f)%nat -> q = prec f)).
  { destruct (fmt_raw f (prec f) v) as [t|ex] eqn:E; cbn [bind]; [|discriminate].
    destruct (length t <=? width f)%nat eqn:L.
    - intro H; inversion H; subst. exists (prec f). apply Nat.leb_le in L. auto.
    - destruct (is_real_ty (ft f)) eqn:R; [|discriminate]. intro H.
      destruct (fit_loop_prec _ _ _ _ H) as (k & Lt & Rw & Ln). exists (Z.of_nat k).
      split; [exact Rw|]. split; [exact Ln|]. split; [right; split; [reflexivity|lia]|].
      intros t' Et Lt'. inversion Et; subst t'. apply Nat.leb_gt in L. lia. }
  destruct v; try congruence; destruct (ft f); try congruence; exact G.
Qed.

(** ** THE field theorem: any spec, any value, either read function *)
Theorem field_read_back rf f v s : rf_ok rf -> spec_ok f -> value_wf v ->
  fmt_field f v = Ok s -> reads_back f v (rf (ft f) s).
Proof.
  intros RF SO VW H.
  destruct (ft f) eqn:T.
  1-6: destruct v as [x|z|ng m e|].
  (* absent values and x fields: blanks *)
  all: try (unfold fmt_field in H; try rewrite T in H; inversion H; subst s; unfold reads_back; rewrite T;
            rewrite (rf_blank rf _ _ RF), ?rstrip_spaces; reflexivity).
  all: match goal with
       | |- reads_back _ ?v _ =>
           assert (NX : ft f <> Tx) by (rewrite T; discriminate);
           assert (NV : v <> Fmt.XNone) by discriminate;
           destruct (fmt_field_prec f v s NV NX H) as (q & Rw & Ln & Q & Full)
       end.
  all: pose proof (fmt_field_width _ _ _ H) as W.
  all: unfold fmt_raw in Rw; rewrite T in Rw; try discriminate Rw; inversion Rw as [Es]; unfold reads_back; rewrite T.
  - (* name *) unfold fmt_str in *. rewrite (rf_str rf _ RF). split; [reflexivity|]. split; [|rewrite Es; exact W].
    pose proof (pad_length_ge (fw f) x) as PG. rewrite Es in PG. lia.
  - (* integer into a name field *) unfold fmt_str in *. rewrite (rf_str rf _ RF).
    rewrite rstrip_pad; [split; [reflexivity|rewrite Es; exact W]|].
    rewrite z_to_str_split, forallb_app.
    assert (D : forallb (fun c => negb (ceqb c newline)) (n_to_str (Z.abs_N z)) = true).
    { eapply forallb_impl; [|apply all_digits_n_to_str]. intros c Dc. destruct (digit_facts c Dc) as (_ & _ & C & _).
      revert C. clear. brute c. }
    rewrite D. destruct (z <? 0); reflexivity.
  - (* integer *) apply rf_int; [exact RF|apply py_int_fmt_int].
  - (* %e of an integer *)
    assert (Hq : 0 <= q) by (destruct Q as [->|[_ ?]]; [apply SO; rewrite T; reflexivity|lia]).
    destruct (e_read_back (fw f) q (z <? 0) (Z.abs z) 0 Hq ltac:(lia)) as (M & E & R & Acc & Dg & Zr).
    rewrite (rf_float rf Te _ _ RF eq_refl R). exists q, M, E. rewrite T.
    split; [destruct Q as [->|[_ ?]]; [split; [exact Hq|lia]|lia]|]. split; [reflexivity|]. split; [exact Acc|].
    split; [|split; assumption]. intros t Et Lt. apply (Full t); assumption.
  - (* %e of a real *)
    assert (Hq : 0 <= q) by (destruct Q as [->|[_ ?]]; [apply SO; rewrite T; reflexivity|lia]).
    destruct (e_read_back (fw f) q ng m e Hq VW) as (M & E & R & Acc & Dg & Zr).
    rewrite (rf_float rf Te _ _ RF eq_refl R). exists q, M, E. rewrite T.
    split; [destruct Q as [->|[_ ?]]; [split; [exact Hq|lia]|lia]|]. split; [reflexivity|]. split; [exact Acc|].
    split; [|split; assumption]. intros t Et Lt. apply (Full t); assumption.
  - (* %f of an integer *)
    assert (Hq : 0 <= q) by (destruct Q as [->|[_ ?]]; [apply SO; rewrite T; reflexivity|lia]).
    destruct (f_read_back (fw f) q (z <? 0) (Z.abs z) 0 Hq ltac:(lia)) as (M & R & Acc).
    rewrite (rf_float rf Tf _ _ RF eq_refl R). exists q, M, (- q). rewrite T.
    split; [destruct Q as [->|[_ ?]]; [split; [exact Hq|lia]|lia]|]. split; [reflexivity|]. split; [exact Acc|].
    split; [|reflexivity]. intros t Et Lt. apply (Full t); assumption.
  - (* %f of a real *)
    assert (Hq : 0 <= q) by (destruct Q as [->|[_ ?]]; [apply SO; rewrite T; reflexivity|lia]).
    destruct (f_read_back (fw f) q ng m e Hq VW) as (M & R & Acc).
    rewrite (rf_float rf Tf _ _ RF eq_refl R). exists q, M, (- q). rewrite T.
    split; [destruct Q as [->|[_ ?]]; [split; [exact Hq|lia]|lia]|]. split; [reflexivity|]. split; [exact Acc|].
    split; [|reflexivity]. intros t Et Lt. apply (Full t); assumption.
Qed.

(** ** the four value kinds, stated separately *)
Theorem int_field_read_back rf f z s : rf_ok rf -> ft f = Td -> fmt_field f (XInt z) = Ok s -> rf Td s = RInt z.
Proof.
  intros RF T H. assert (SO : spec_ok f) by (unfold spec_ok; rewrite T; discriminate).
  pose proof (field_read_back rf f (XInt z) s RF SO I H) as R. unfold reads_back in R. rewrite T in R. exact R.
Qed.
Theorem str_field_read_back rf f x s : rf_ok rf -> ft f = Ts -> fmt_field f (XStr x) = Ok s ->
  s = pad (fw f) x /\ (length x <= width f)%nat /\ length s = width f /\
  rf Ts s = RStr (rstrip_c newline (pad (fw f) x)) /\
  (forallb (fun c => negb (ceqb c newline)) x = true -> rf Ts s = RStr (pad (fw f) x)) /\
  (forallb (fun c => negb (is_space c)) x = true -> strip s = x).
Proof.
  intros RF T H. assert (SO : spec_ok f) by (unfold spec_ok; rewrite T; discriminate).
  pose proof (field_read_back rf f (XStr x) s RF SO I H) as R. unfold reads_back in R. rewrite T in R.
  destruct R as (R & L & W).
  assert (Es : s = pad (fw f) x).
  { assert (NX : ft f <> Tx) by (rewrite T; discriminate).
    destruct (fmt_field_prec f (XStr x) s ltac:(discriminate) NX H) as (q & Rw & _). unfold fmt_raw in Rw. rewrite T in Rw.
    inversion Rw. reflexivity. }
  split; [exact Es|]. split; [exact L|]. split; [rewrite Es; exact W|]. split; [exact R|]. split.
  - intro NL. rewrite R, rstrip_pad by exact NL. reflexivity.
  - intro NS. rewrite Es. apply strip_pad. exact NS.
Qed.
Theorem none_field_read_back rf f : rf_ok rf ->
  fmt_field f Fmt.XNone = Ok (spaces (width f)) /\
  rf (ft f) (spaces (width f)) = match ft f with Ts => RStr (spaces (width f)) | _ => RNone end.
Proof. intro RF. split; [reflexivity|]. rewrite (rf_blank rf _ _ RF), rstrip_spaces. reflexivity. Qed.
Theorem real_field_read_back rf f ng m e s : rf_ok rf -> (ft f = Te \/ ft f = Tf) -> 0 <= prec f -> 0 <= m ->
  fmt_field f (XReal ng m e) = Ok s -> real_rb f (XReal ng m e) ng m e (rf (ft f) s).
Proof.
  intros RF T Hp Hm H. assert (SO : spec_ok f) by (intros _; exact Hp).
  pose proof (field_read_back rf f (XReal ng m e) s RF SO Hm H) as R. unfold reads_back in R.
  destruct T as [T|T]; rewrite T in R |- *; exact R.
Qed.

(** ** records *)
Lemma nth_error_combine {A B} (l1 : list A) : forall (l2 : list B) i a b,
  nth_error l1 i = Some a -> nth_error l2 i = Some b -> nth_error (combine l1 l2) i = Some (a, b).
Proof.
  induction l1 as [|x l1 IH]; intros l2 i a b H1 H2; [destruct i; discriminate|].
  destruct l2 as [|y l2]; [destruct i; discriminate|]. destruct i as [|i]; cbn in *.
  - inversion H1; inversion H2; reflexivity.
  - apply IH; assumption.
Qed.
Lemma parse_string_nth rf specs line i f s :
  nth_error specs i = Some f -> nth_error (field_slices specs line) i = Some s ->
  nth_error (parse_string rf specs line) i = Some (rf (ft f) s).
Proof.
  intros Hf Hs. unfold parse_string. rewrite nth_error_map. rewrite (nth_error_combine _ _ _ _ _ Hf Hs). reflexivity.
Qed.

(** any specs (with non-negative real precisions), any values: if the writer returns a
    line, parsing it returns at every written position the read-back of that position's
    own value *)
Theorem record_read_back_gen rf specs vals l rest :
  rf_ok rf -> Forall spec_ok specs -> Forall value_wf vals ->
  write_fields specs vals = Ok l ->
  forall i f v, nth_error specs i = Some f -> nth_error vals i = Some v ->
    exists r, nth_error (parse_string rf specs (concat l ++ rest)%list) i = Some r /\ reads_back f v r.
Proof.
  intros RF SO VW H i f v Hf Hv.
  destruct (loud_or_local specs vals l rest i f v H Hf Hv) as (s & Sl & Fm & _).
  exists (rf (ft f) s). split; [apply parse_string_nth; assumption|].
  apply field_read_back; try assumption.
  - rewrite Forall_forall in SO. apply SO. eapply nth_error_In; eauto.
  - rewrite Forall_forall in VW. apply VW. eapply nth_error_In; eauto.
Qed.

Lemma fspec_wf_ok f : fspec_wf f = true -> spec_ok f.
Proof.
  unfold fspec_wf, spec_ok, prec. intros W R. destruct (ft f); try discriminate R; destruct (fp f) as [p|];
    rewrite ?andb_false_r in W; try discriminate W;
    apply andb_prop in W as [_ W]; apply andb_prop in W as [W _]; apply andb_prop in W as [W _]; apply Z.leb_le in W; exact W.
Qed.
Lemma table_specs_ok tn t rn names specs :
  In (tn, t) all_tables -> In (rn, (names, specs)) t -> Forall spec_ok specs.
Proof.
  intros H1 H2. pose proof (wf_lookup _ _ _ _ _ H1 H2) as W. unfold record_wf in W.
  apply andb_prop in W as [W _]. apply andb_prop in W as [_ W]. rewrite forallb_forall in W.
  apply Forall_forall. intros f Hf. apply fspec_wf_ok. apply W. exact Hf.
Qed.
(** for every record kind of the regenerated tables *)
Theorem table_record_read_back tn t rn names specs rf vals l rest :
  In (tn, t) all_tables -> In (rn, (names, specs)) t ->
  rf_ok rf -> Forall value_wf vals -> write_fields specs vals = Ok l ->
  forall i f v, nth_error specs i = Some f -> nth_error vals i = Some v ->
    exists r, nth_error (parse_string rf specs (concat l ++ rest)%list) i = Some r /\ reads_back f v r.
Proof.
  intros H1 H2 RF VW H. apply record_read_back_gen; try assumption. eapply table_specs_ok; eauto.
Qed.

(** ** non-vacuity: concrete fields meeting the hypotheses, with the values read *)
Definition fE104 : fspec := {| fw := 10; fp := Some 4; ft := Te |}.
Definition fF103 : fspec := {| fw := 10; fp := Some 3; ft := Tf |}.
Definition fD5 : fspec := {| fw := 5; fp := None; ft := Td |}.
Definition fS5 : fspec := {| fw := 5; fp := None; ft := Ts |}.
Definition fSl5 : fspec := {| fw := -5; fp := None; ft := Ts |}.
(** an integer with its sign, exactly filling the field *)
Example ex_int_field : fmt_field fD5 (XInt (-1234)) = Ok (s2l "-1234") /\ default_rf Td (s2l "-1234") = RInt (-1234).
Proof. vm_compute. auto. Qed.
(** names: right- and left-justified; the padding comes back *)
Example ex_str_field : fmt_field fS5 (XStr (s2l "ab")) = Ok (s2l "   ab") /\ default_rf Ts (s2l "   ab") = RStr (s2l "   ab")
  /\ fmt_field fSl5 (XStr (s2l "ab")) = Ok (s2l "ab   ") /\ strip (s2l "ab   ") = s2l "ab".
Proof. vm_compute. auto. Qed.
(** -1.5 in a 10.4e field: one column too wide at 4 decimals, written with 3; read as -1500e-3 *)
Example ex_real_reduced : fmt_raw fE104 4 (XReal true 3 (-1)) = Ok (s2l "-1.5000e+00") /\
  fmt_field fE104 (XReal true 3 (-1)) = Ok (s2l "-1.500e+00") /\ default_rf Te (s2l "-1.500e+00") = RFloat (Fin true 1500 (-3)).
Proof. vm_compute. auto. Qed.
(** 2^-400 = 3.87e-121: three-digit exponent, precision reduced to 3 *)
Example ex_real_exp3 : fmt_field fE104 (XReal false 1 (-400)) = Ok (s2l "3.873e-121") /\
  default_rf Te (s2l "3.873e-121") = RFloat (Fin false 3873 (-124)) /\ fortran_rf Te (s2l "3.873e-121") = RFloat (Fin false 3873 (-124)).
Proof. vm_compute. auto. Qed.
(** round-half-even on an exact tie: 0.0625 at 3 decimals is 0.062 *)
Example ex_real_f : fmt_field fF103 (XReal true 1 (-4)) = Ok (s2l "    -0.062") /\ default_rf Tf (s2l "    -0.062") = RFloat (Fin true 62 (-3)).
Proof. vm_compute. auto. Qed.
(** a carry into the next decade: 9.99996 prints as 1.0000e+01 *)
Example ex_real_carry : fmt_field fE104 (XReal false 5629476955172915 (-49)) = Ok (s2l "1.0000e+01") /\
  default_rf Te (s2l "1.0000e+01") = RFloat (Fin false 10000 (-3)).
Proof. vm_compute. auto. Qed.
Example ex_spec_ok : spec_ok fE104 /\ spec_ok fF103 /\ value_wf (XReal true 3 (-1)).
Proof. unfold spec_ok, value_wf. cbn. repeat split; intros; lia. Qed.
(** a whole record (the first four fields of t2data rocks1), values that need the guard *)
Example ex_record : write_fields ex_specs [XStr (s2l "dfalt"); XInt 2; XReal true 3 (-1); XReal false 1 (-2)]
  = Ok [s2l "dfalt"; s2l "    2"; s2l "-1.500e+00"; s2l "2.5000e-01"] /\
  Forall spec_ok ex_specs /\ Forall value_wf [XStr (s2l "dfalt"); XInt 2; XReal true 3 (-1); XReal false 1 (-2)].
Proof.
  split; [vm_compute; reflexivity|]. split; repeat constructor; unfold spec_ok, value_wf; cbn; intros; lia.
Qed.
(** every record kind of the regenerated tables is writable (all values absent), so the
    table theorems are not vacuous for any record *)
Lemma write_all_absent specs : write_fields specs (map (fun _ => Fmt.XNone) specs) = Ok (map (fun f => spaces (width f)) specs).
Proof. induction specs as [|f fs IH]; [reflexivity|]. cbn [map write_fields]. rewrite IH. reflexivity. Qed.
Example ex_tables_inhabited : exists tn t rn names specs, In (tn, t) all_tables /\ In (rn, (names, specs)) t /\ specs <> [].
Proof.
  unfold all_tables. eexists _, _, _, _, _. split; [left; reflexivity|]. unfold t2data_format.
  split; [left; reflexivity|discriminate].
Qed.
