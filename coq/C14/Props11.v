(** C14 -- property theorems, part 11: the saturation line, the B23 boundary and the viscosity as
    theorems over R about the functions traced from the current source ([runsR]: values AND range
    tests).  Those that depend on the coefficient values of the source use interval arithmetic
    (Coq-Interval: Flocq / Coquelicot, primitive floats and 63-bit integers -- see the
    Print Assumptions output). *)
From Coq Require Import ZArith QArith Qreals Reals List.
From Gen Require Import GenIAPWS GenTraced.
From P Require Import Expr RunR Formulas B23.
Import ListNotations.
Close Scope Q_scope.
Open Scope R_scope.

(** the two published B23 forms are inverse to within 3e-5 Pa on the boundary pressures (b23p(350) = 16.529 MPa .. 100 MPa) *)
Theorem b23p_of_b23t_within_3e_5_Pa : forall p : R, 16500000 <= p <= 100000000 ->
  Rabs (b23p_val n23 (b23t_val n23 p + Q2R tc_k_Q) - p) <= 3 / 100000.
Proof. exact b23p_of_b23t_close. Qed.
Print Assumptions b23p_of_b23t_within_3e_5_Pa.
