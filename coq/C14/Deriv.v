(** C14/C15 -- termwise derivatives of sums of Laurent monomials (Coquelicot).

    [msum n x y l] = sum over (i, j, k) in l of n k * x^i * y^j  (integer powers, powerRZ);
    [msum_dx], [msum_dy] are the formal termwise partial derivatives, written with the factor
    order the Python sums use; [is_derive_msum_x/_y] prove they are the derivatives. *)
From Coq Require Import Reals ZArith List Lra Lia.
From Coquelicot Require Import Coquelicot.
Import ListNotations.
Open Scope R_scope.

(* ring on an equation whose carrier is displayed as a Coquelicot structure over R *)
Ltac rring := match goal with |- ?a = ?b => change (@eq R a b); ring end.

Lemma is_derive_powerRZ (k : Z) (x : R) : x <> 0 ->
  is_derive (fun y => powerRZ y k) x (IZR k * powerRZ x (k - 1)).
Proof.
  intros Hx. destruct k as [|p|p].
  - cbn [powerRZ]. replace (0 * _) with 0 by ring. apply (is_derive_const 1 x).
  - cbn [powerRZ]. destruct (Pos2Nat.is_succ p) as [m Hm]. rewrite Hm.
    replace (IZR (Z.pos p) * powerRZ x (Z.pos p - 1)) with (INR (S m) * 1 * x ^ pred (S m)).
    + apply (is_derive_pow (fun y => y) (S m) x 1). apply (is_derive_id x).
    + rewrite INR_IZR_INZ. replace (Z.of_nat (S m)) with (Z.pos p) by lia. cbn [pred].
      replace (Z.pos p - 1)%Z with (Z.of_nat m) by lia. rewrite <- pow_powerRZ. ring.
  - cbn [powerRZ]. destruct (Pos2Nat.is_succ p) as [m Hm]. rewrite Hm.
    assert (Hp : x ^ S m <> 0) by (apply pow_nonzero; exact Hx).
    replace (IZR (Z.neg p) * powerRZ x (Z.neg p - 1)) with (- (INR (S m) * 1 * x ^ pred (S m)) / (x ^ S m) ^ 2).
    + apply (is_derive_inv (fun y => y ^ S m) x); [|exact Hp].
      apply (is_derive_pow (fun y => y) (S m) x 1). apply (is_derive_id x).
    + replace (Z.neg p - 1)%Z with (- Z.of_nat (S (S m)))%Z by lia.
      rewrite powerRZ_neg', <- pow_powerRZ.
      replace (IZR (Z.neg p)) with (- INR (S m)) by (rewrite INR_IZR_INZ, <- opp_IZR; f_equal; lia).
      cbn [pred]. assert (Hm0 : x ^ m <> 0) by (apply pow_nonzero; exact Hx).
      simpl pow. field. split; assumption.
Qed.

Definition term3 := (Z * Z * nat)%type.     (* (I, J, coefficient number) *)

Section Sums.
  Variable n : nat -> R.

  Definition msum (x y : R) (l : list term3) : R :=
    fold_right (fun t acc => let '(i, j, k) := t in n k * powerRZ x i * powerRZ y j + acc) 0 l.
  (** as the code writes them: n * i * x^(i-1) * y^j and n * x^i * j * y^(j-1) *)
  Definition msum_dx (x y : R) (l : list term3) : R :=
    fold_right (fun t acc => let '(i, j, k) := t in n k * IZR i * powerRZ x (i - 1) * powerRZ y j + acc) 0 l.
  Definition msum_dy (x y : R) (l : list term3) : R :=
    fold_right (fun t acc => let '(i, j, k) := t in n k * powerRZ x i * IZR j * powerRZ y (j - 1) + acc) 0 l.

  Lemma is_derive_msum_x (x y : R) (l : list term3) : x <> 0 ->
    is_derive (fun x' => msum x' y l) x (msum_dx x y l).
  Proof.
    intros Hx. induction l as [|[[i j] k] r IH]; cbn [msum msum_dx fold_right].
    - apply (is_derive_const 0 x).
    - apply (is_derive_plus (fun x' => n k * powerRZ x' i * powerRZ y j) (fun x' => msum x' y r) x); [|exact IH].
      replace (n k * IZR i * powerRZ x (i - 1) * powerRZ y j) with (n k * powerRZ y j * (IZR i * powerRZ x (i - 1))) by ring.
      apply (is_derive_ext (fun x' => n k * powerRZ y j * powerRZ x' i)); [intros t; cbv beta; rring|].
      apply is_derive_scal. apply is_derive_powerRZ. exact Hx.
  Qed.

  Lemma is_derive_msum_y (x y : R) (l : list term3) : y <> 0 ->
    is_derive (fun y' => msum x y' l) y (msum_dy x y l).
  Proof.
    intros Hy. induction l as [|[[i j] k] r IH]; cbn [msum msum_dy fold_right].
    - apply (is_derive_const 0 y).
    - apply (is_derive_plus (fun y' => n k * powerRZ x i * powerRZ y' j) (fun y' => msum x y' r) y); [|exact IH].
      replace (n k * powerRZ x i * IZR j * powerRZ y (j - 1)) with (n k * powerRZ x i * (IZR j * powerRZ y (j - 1))) by ring.
      apply is_derive_scal. apply is_derive_powerRZ. exact Hy.
  Qed.

  (** with an affine inner function: d/dp [msum (a - p) y] = - msum_dx (a - p) y ;
      d/dt [msum x (t - b)] = msum_dy x (t - b) *)
  Lemma is_derive_msum_x_shift (a p y : R) (l : list term3) : a - p <> 0 ->
    is_derive (fun p' => msum (a - p') y l) p (- msum_dx (a - p) y l).
  Proof.
    intros H.
    replace (- msum_dx (a - p) y l) with (scal (-1) (msum_dx (a - p) y l)) by (unfold scal; cbn; unfold mult; cbn; ring).
    apply (is_derive_comp (fun x' => msum x' y l) (fun p' => a - p') p).
    - apply is_derive_msum_x. exact H.
    - replace (-1) with (minus 0 1) by (unfold minus, plus, opp; cbn; ring).
      apply (is_derive_minus (fun _ => a) (fun p' => p') p 0 1); [apply (is_derive_const a p)|apply (is_derive_id p)].
  Qed.

  Lemma is_derive_msum_y_shift (x t b : R) (l : list term3) : t - b <> 0 ->
    is_derive (fun t' => msum x (t' - b) l) t (msum_dy x (t - b) l).
  Proof.
    intros H.
    replace (msum_dy x (t - b) l) with (scal 1 (msum_dy x (t - b) l)) by (unfold scal; cbn; unfold mult; cbn; ring).
    apply (is_derive_comp (fun y' => msum x y' l) (fun t' => t' - b) t).
    - apply is_derive_msum_y. exact H.
    - replace 1 with (minus 1 0) at 1 by (unfold minus, plus, opp; cbn; ring).
      apply (is_derive_minus (fun t' => t') (fun _ => b) t 1 0); [apply (is_derive_id t)|apply (is_derive_const b t)].
  Qed.
End Sums.

(** one-variable sums (the ideal-gas part of region 2): sum of n k * y^j *)
Section Sums1.
  Variable n : nat -> R.
  Definition msum1 (y : R) (l : list (Z * nat)) : R :=
    fold_right (fun t acc => let '(j, k) := t in n k * powerRZ y j + acc) 0 l.
  Definition msum1_dy (y : R) (l : list (Z * nat)) : R :=
    fold_right (fun t acc => let '(j, k) := t in n k * IZR j * powerRZ y (j - 1) + acc) 0 l.
  Lemma is_derive_msum1 (y : R) (l : list (Z * nat)) : y <> 0 ->
    is_derive (fun y' => msum1 y' l) y (msum1_dy y l).
  Proof.
    intros Hy. induction l as [|[j k] r IH]; cbn [msum1 msum1_dy fold_right].
    - apply (is_derive_const 0 y).
    - apply (is_derive_plus (fun y' => n k * powerRZ y' j) (fun y' => msum1 y' r) y); [|exact IH].
      replace (n k * IZR j * powerRZ y (j - 1)) with (n k * (IZR j * powerRZ y (j - 1))) by ring.
      apply is_derive_scal. apply is_derive_powerRZ. exact Hy.
  Qed.
End Sums1.

(** the sums only depend on the coefficient values *)
Lemma msum_dx_ext f g x y l : (forall k, f k = g k) -> msum_dx f x y l = msum_dx g x y l.
Proof.
  intros H. induction l as [|[[i j] k] r IH]; [reflexivity|]. cbn [msum_dx fold_right].
  fold (msum_dx f x y r). fold (msum_dx g x y r). rewrite IH, H. reflexivity.
Qed.
Lemma msum_dy_ext f g x y l : (forall k, f k = g k) -> msum_dy f x y l = msum_dy g x y l.
Proof.
  intros H. induction l as [|[[i j] k] r IH]; [reflexivity|]. cbn [msum_dy fold_right].
  fold (msum_dy f x y r). fold (msum_dy g x y r). rewrite IH, H. reflexivity.
Qed.
Lemma msum1_dy_ext f g y l : (forall k, f k = g k) -> msum1_dy f y l = msum1_dy g y l.
Proof.
  intros H. induction l as [|[j k] r IH]; [reflexivity|]. cbn [msum1_dy fold_right].
  fold (msum1_dy f y r). fold (msum1_dy g y r). rewrite IH, H. reflexivity.
Qed.
