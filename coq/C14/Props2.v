(** C14 -- property theorems, part 2: density and energy come from ONE potential.
    [outsR f args coefs] are the outputs of the value-returning path of the DAG traced from the
    current source, evaluated over R ([evalR]); the canonical potentials are built from the
    exponent arrays regenerated from the same source; coefficients are arbitrary reals. *)
From Coq Require Import ZArith QArith Qreals Reals List.
From Coquelicot Require Import Coquelicot.
From Gen Require Import GenIAPWS GenTraced.
From P Require Import Expr Laurent Deriv Potential.
Import ListNotations.
Close Scope Q_scope.
Open Scope R_scope.

(** the traced DAGs normalise to the summaries written from the canonical derivative sums *)
Theorem cowat_dag_matches_summary : check_dag R1.nv R1.nc R1.N R1.defs cowat_nodes R1.outs = true.
Proof. exact R1.check. Qed.
Print Assumptions cowat_dag_matches_summary.
Theorem supst_dag_matches_summary : check_dag R2.nv R2.nc R2.N R2.defs supst_nodes R2.outs = true.
Proof. exact R2.check. Qed.
Print Assumptions supst_dag_matches_summary.
Theorem super_dag_matches_summary : check_dag R3.nv R3.nc R3.N R3.defs super_nodes R3.outs = true.
Proof. exact R3.check. Qed.
Print Assumptions super_dag_matches_summary.

(** the checker is sound (any DAG, any claimed summary) *)
Theorem laurent_check_sound : forall nv nc N defs rho var coef,
  (forall i, (i < nv)%nat -> rho i = var i) ->
  (forall k, (nv + nc + k < N)%nat -> rho (nv + nc + k)%nat = coef k) ->
  (forall i, unitb_of nv nc i = true -> rho i <> 0) ->
  (forall a d, nth_error defs a = Some d -> (a < nc)%nat -> rho (nv + a)%nat = dpoly rho d) ->
  forall ns outs, check_dag nv nc N defs ns outs = true ->
  forall pos q, In (pos, q) outs -> nth pos (evalR var coef ns) 0 = dpoly rho q.
Proof. exact check_sound. Qed.
Print Assumptions laurent_check_sound.

(** termwise derivative of a monomial: d/dx x^k = k x^(k-1) for integer k, x <> 0 *)
Theorem monomial_derivative : forall (k : Z) (x : R), x <> 0 ->
  is_derive (fun y => powerRZ y k) x (IZR k * powerRZ x (k - 1)).
Proof. exact is_derive_powerRZ. Qed.
Print Assumptions monomial_derivative.

(** region 1: rho = p* / (R T gamma_pi), u = R T (tau gamma_tau - pi gamma_pi) with
    gamma_1(pi, tau) = sum n_k (7.1 - pi)^I_k (tau - 1.222)^J_k *)
Theorem cowat_from_potential : forall (t p : R) (n : nat -> R),
  let tk := t + Q2R tc_k_Q in
  let pi := p / Q2R pstar1_Q in
  let tau := Q2R tstar1_Q / tk in
  tk <> 0 -> Q2R c7_1 - pi <> 0 -> tau - Q2R c1_222 <> 0 ->
  Q2R rconst_Q * tk * - msum_dx n (Q2R c7_1 - pi) (tau - Q2R c1_222) R1.terms <> 0 ->
  outsR cowat_traced [t; p] n =
  [ Q2R pstar1_Q / (Q2R rconst_Q * tk * Derive (fun x => R1.gamma n x tau) pi);
    Q2R rconst_Q * tk * (tau * Derive (fun y => R1.gamma n pi y) tau - pi * Derive (fun x => R1.gamma n x tau) pi) ].
Proof. exact R1.from_potential. Qed.
Print Assumptions cowat_from_potential.

(** region 2: gamma_2 = ln pi + sum n0_k tau^J0_k + sum n_k pi^I_k (tau - 0.5)^J_k *)
Theorem supst_from_potential : forall (t p : R) (n0 n : nat -> R),
  let tk := t + Q2R tc_k_Q in
  let pi := p / Q2R pstar2_Q in
  let tau := Q2R tstar2_Q / tk in
  tk <> 0 -> tau <> 0 -> 0 < pi -> tau - Q2R c0_5 <> 0 ->
  Q2R rconst_Q * tk * (/ pi + msum_dx n pi (tau - Q2R c0_5) R2.terms) <> 0 ->
  outsR supst_traced [t; p] (R2.coef n0 n) =
  [ Q2R pstar2_Q / (Q2R rconst_Q * tk * Derive (fun x => R2.gamma n0 n x tau) pi);
    Q2R rconst_Q * tk * (tau * Derive (fun y => R2.gamma n0 n pi y) tau - pi * Derive (fun x => R2.gamma n0 n x tau) pi) ].
Proof. exact R2.from_potential. Qed.
Print Assumptions supst_from_potential.

(** region 3: p = rho R T delta phi_delta, u = R T tau phi_tau with
    phi_3 = n_0 ln delta + sum_{k>=1} n_k delta^I_k tau^J_k *)
Theorem super_from_potential : forall (d t : R) (n : nat -> R),
  let tk := t + Q2R tc_k_Q in
  let tau := Q2R tstar3_Q / tk in
  let delta := d / Q2R dstar3_Q in
  tk <> 0 -> tau <> 0 -> 0 < delta ->
  outsR super_traced [d; t] n =
  [ d * (Q2R rconst_Q * tk) * delta * Derive (fun x => R3.phi n x tau) delta;
    Q2R rconst_Q * tk * tau * Derive (fun y => R3.phi n delta y) tau ].
Proof. exact R3.from_potential. Qed.
Print Assumptions super_from_potential.
