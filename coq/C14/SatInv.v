(** C14 -- the saturation line: [tsat] inverts [sat] and [sat] inverts [tsat], as identities over
    R about the formulas traced from the current source, for ARBITRARY real coefficients, under
    explicit sign / discriminant hypotheses (the root selections of the two quadratics of the
    IF97 region-4 equation).  SatRange.v discharges those hypotheses, by interval arithmetic, for
    the coefficients of the source on the whole saturation line. *)
From Coq Require Import ZArith QArith Qreals Reals List Bool Lra.
From Gen Require Import GenIAPWS GenTraced.
From P Require Import Expr RunR Formulas.
Import ListNotations.
Close Scope Q_scope.
Open Scope R_scope.

Section Traced.
  Variable n : nat -> R.

  (** ** the traced DAGs compute exactly these formulas, and branch exactly on the range tests *)
  Lemma sat_traced_is (t : R) (r : rres) :
    runsR sat_traced [t] n r <->
    (0 <= t <= Q2R tcritical_Q /\ r = RRet [(sat_val n) (t + Q2R tc_k_Q)]) \/
    (~ (0 <= t <= Q2R tcritical_Q) /\ r = RNone).
  Proof.
    unfold runsR, envR.
    cbv [sat_traced t_paths t_nodes some_pathR condsR condR p_conds p_out outR c_cmp c_a c_b c_expect map].
    cbv [evalR eval_nodes eval_node get nth sat_nodes].
    rewrite ?Q2R_c0, ?Q2R_c2, ?Q2R_c4.
    cbv [sat_val beta_of theta_of den1 disc1 qA qB qC tcritical_Q tc_k_Q pstar4_Q].
    split.
    - intros [[[H1 [H2 _]] E]|[[[H1 _] E]|[[[H1 [H2 _]] E]|[]]]].
      + left. split; [lra|]. rewrite <- E. reflexivity.
      + right. split; [lra|]. symmetry; exact E.
      + right. split; [lra|]. symmetry; exact E.
    - intros [[[H1 H2] E]|[H E]]; subst r.
      + left. split; [tauto|]. reflexivity.
      + destruct (Rle_dec 0 t) as [L|L].
        * right. right. left. split; [|reflexivity]. split; [exact L|]. split; [lra|exact I].
        * right. left. split; [|reflexivity]. split; [lra|exact I].
  Qed.

  Lemma tsat_traced_is (p : R) (r : rres) :
    runsR tsat_traced [p] n r <->
    (Q2R p_611_213_Q <= p <= Q2R tsat_upper_Q /\ r = RRet [(tsat_val n) p]) \/
    (~ (Q2R p_611_213_Q <= p <= Q2R tsat_upper_Q) /\ r = RNone).
  Proof.
    unfold runsR, envR.
    cbv [tsat_traced t_paths t_nodes some_pathR condsR condR p_conds p_out outR c_cmp c_a c_b c_expect map].
    cbv [evalR eval_nodes eval_node get nth tsat_nodes].
    rewrite ?Q2R_c0, ?Q2R_c2, ?Q2R_c4.
    cbv [tsat_val tk_of disc3 dd_of den2 disc2 qE qF qG p_611_213_Q tsat_upper_Q tsat_nodes nth tc_k_Q pstar4_Q].
    split.
    - intros [[[H1 [H2 _]] E]|[[[H1 _] E]|[[[H1 [H2 _]] E]|[]]]].
      + left. split; [lra|]. rewrite <- E. reflexivity.
      + right. split; [lra|]. symmetry; exact E.
      + right. split; [lra|]. symmetry; exact E.
    - intros [[[H1 H2] E]|[H E]]; subst r.
      + left. split; [tauto|]. reflexivity.
      + destruct (Rle_dec (Q2R p_611_213_Q) p) as [L|L]; cbv [p_611_213_Q] in L.
        * right. right. left. split; [|reflexivity]. split; [exact L|]. split; [lra|exact I].
        * right. left. split; [|reflexivity]. split; [lra|exact I].
  Qed.

  (** ** algebra of the two root selections *)

  (** the quadratic the code solves for beta, and its regrouping as a quadratic in theta *)
  Lemma regroup th b : (qA n) th * (b * b) + (qB n) th * b + (qC n) th = (qE n) (b * b) b * (th * th) + (qF n) (b * b) b * th + (qG n) (b * b) b.
  Proof. unfold qA, qB, qC, qE, qF, qG. ring. Qed.

  (** 2c / (-b + sqrt(b^2 - 4ac)) is a root of a x^2 + b x + c *)
  Lemma root_plus a b c : 0 <= b * b - 4 * a * c -> - b + sqrt (b * b - 4 * a * c) <> 0 ->
    let x := 2 * c / (- b + sqrt (b * b - 4 * a * c)) in a * (x * x) + b * x + c = 0.
  Proof.
    intros Hd Hn x. subst x. set (s := sqrt (b * b - 4 * a * c)) in *.
    assert (Hs : s * s = b * b - 4 * a * c) by (apply sqrt_sqrt; exact Hd).
    assert (E : a * (2 * c / (- b + s) * (2 * c / (- b + s))) + b * (2 * c / (- b + s)) + c
                = c * (4 * a * c - b * b + s * s) / ((- b + s) * (- b + s))) by (field; exact Hn).
    rewrite E, Hs. unfold Rdiv. replace (4 * a * c - b * b + (b * b - 4 * a * c)) with 0 by ring. ring.
  Qed.
  Lemma root_minus a b c : 0 <= b * b - 4 * a * c -> - b - sqrt (b * b - 4 * a * c) <> 0 ->
    let x := 2 * c / (- b - sqrt (b * b - 4 * a * c)) in a * (x * x) + b * x + c = 0.
  Proof.
    intros Hd Hn x. subst x. set (s := sqrt (b * b - 4 * a * c)) in *.
    assert (Hs : s * s = b * b - 4 * a * c) by (apply sqrt_sqrt; exact Hd).
    assert (E : a * (2 * c / (- b - s) * (2 * c / (- b - s))) + b * (2 * c / (- b - s)) + c
                = c * (4 * a * c - b * b + s * s) / ((- b - s) * (- b - s))) by (field; exact Hn).
    rewrite E, Hs. unfold Rdiv. replace (4 * a * c - b * b + (b * b - 4 * a * c)) with 0 by ring. ring.
  Qed.

  (** conversely: a root x with 2 a x + b >= 0 ... is the one the "minus" formula selects *)
  Lemma select_minus a b c x : a * (x * x) + b * x + c = 0 -> 0 <= 2 * a * x + b -> a * x + b <> 0 ->
    2 * c / (- b - sqrt (b * b - 4 * a * c)) = x.
  Proof.
    intros Hr Hs Hn.
    assert (Hd : b * b - 4 * a * c = (2 * a * x + b) * (2 * a * x + b)).
    { replace c with (- (a * (x * x) + b * x)) by lra. ring. }
    rewrite Hd, sqrt_square by exact Hs.
    replace c with (- (a * (x * x) + b * x)) by lra. field. lra.
  Qed.
  (** ... and one with 2 a x + b <= 0 is the one the "plus" formula selects *)
  Lemma select_plus a b c x : a * (x * x) + b * x + c = 0 -> 2 * a * x + b <= 0 -> a * x + b <> 0 ->
    2 * c / (- b + sqrt (b * b - 4 * a * c)) = x.
  Proof.
    intros Hr Hs Hn.
    assert (Hd : b * b - 4 * a * c = (- (2 * a * x + b)) * (- (2 * a * x + b))).
    { replace c with (- (a * (x * x) + b * x)) by lra. ring. }
    rewrite Hd, sqrt_square by lra.
    replace c with (- (a * (x * x) + b * x)) by lra. field. lra.
  Qed.

  (** theta(tk) inverted by the last square root of tsat *)
  Lemma tk_of_theta tk : tk - n 9 <> 0 -> 0 <= n 9 + (theta_of n) tk - 2 * tk -> (tk_of n) ((theta_of n) tk) = tk.
  Proof.
    intros Hn Hs. unfold tk_of, disc3.
    assert (Hd : (n 9 + (theta_of n) tk) * (n 9 + (theta_of n) tk) - 4 * (n 8 + n 9 * (theta_of n) tk)
                 = (n 9 + (theta_of n) tk - 2 * tk) * (n 9 + (theta_of n) tk - 2 * tk)).
    { unfold theta_of. field. exact Hn. }
    rewrite Hd, sqrt_square by exact Hs.
    replace (Q2R (1 # 2)) with (/ 2) by (unfold Q2R; cbn; lra). field.
  Qed.
  Lemma theta_of_tk d : 0 <= (disc3 n) d -> (tk_of n) d - n 9 <> 0 -> (theta_of n) ((tk_of n) d) = d.
  Proof.
    intros Hd Hn. unfold theta_of.
    set (tk := (tk_of n) d) in *.
    assert (Hq : tk * tk - (n 9 + d) * tk + (n 8 + n 9 * d) = 0).
    { unfold tk, tk_of. set (s := sqrt ((disc3 n) d)).
      assert (Hs : s * s = (disc3 n) d) by (apply sqrt_sqrt; exact Hd).
      replace (Q2R (1 # 2)) with (/ 2) by (unfold Q2R; cbn; lra).
      unfold disc3 in Hs. nra. }
    apply (Rmult_eq_reg_r (tk - n 9)); [|exact Hn].
    replace ((tk + n 8 / (tk - n 9)) * (tk - n 9)) with (tk * (tk - n 9) + n 8) by (field; exact Hn).
    nra.
  Qed.

  (** ** tsat (sat t) = t *)
  Theorem tsat_of_sat_algebra (tk : R) :
    let th := (theta_of n) tk in
    let b := (beta_of n) th in
    tk - n 9 <> 0 ->                                    (* the divisor in theta *)
    0 <= (disc1 n) th -> (den1 n) th <> 0 ->                    (* sat's square root and divisor *)
    0 <= b ->                                           (* beta is the non-negative fourth root *)
    0 <= 2 * (qE n) (b * b) b * th + (qF n) (b * b) b ->        (* theta is the root tsat selects *)
    (qE n) (b * b) b * th + (qF n) (b * b) b <> 0 ->            (*   (tsat's divisor, in disguise) *)
    0 <= n 9 + th - 2 * tk ->                           (* tk is the root of theta(tk) tsat selects *)
    (tsat_val n) ((sat_val n) tk) = tk - Q2R tc_k_Q.
  Proof.
    intros th b H9 Hd1 Hn1 Hb Hs2 Hn2 Hs3.
    assert (Hp : Q2R pstar4_Q <> 0) by (unfold Q2R, pstar4_Q; cbn; lra).
    unfold tsat_val, sat_val. fold th. fold b.
    replace (Q2R pstar4_Q * (b * b) * (b * b) / Q2R pstar4_Q) with ((b * b) * (b * b)) by (field; exact Hp).
    rewrite (sqrt_square (b * b)) by nra. rewrite (sqrt_square b) by exact Hb.
    cbv zeta.
    assert (Hroot : (qA n) th * (b * b) + (qB n) th * b + (qC n) th = 0).
    { unfold b, beta_of, den1, disc1. apply root_plus; [exact Hd1|exact Hn1]. }
    rewrite regroup in Hroot.
    assert (Hdd : (dd_of n) (b * b) b = th).
    { unfold dd_of, den2, disc2. apply select_minus; [exact Hroot|lra|exact Hn2]. }
    rewrite Hdd. unfold th. rewrite tk_of_theta by assumption. reflexivity.
  Qed.

  (** ** sat (tsat p) = p *)
  Theorem sat_of_tsat_algebra (p : R) :
    let b2 := sqrt (p / Q2R pstar4_Q) in
    let b := sqrt b2 in
    let d := (dd_of n) b2 b in
    let tk := (tk_of n) d in
    0 <= p ->
    0 <= (disc2 n) b2 b -> (den2 n) b2 b <> 0 ->                (* tsat's first square root and divisor *)
    0 <= (disc3 n) d -> tk - n 9 <> 0 ->                    (* tsat's second square root; sat's divisor in theta *)
    2 * (qA n) d * b + (qB n) d <= 0 ->                         (* beta is the root sat selects *)
    (qA n) d * b + (qB n) d <> 0 ->                             (*   (sat's divisor, in disguise) *)
    (sat_val n) ((tsat_val n) p + Q2R tc_k_Q) = p.
  Proof.
    intros b2 b d tk Hp0 Hd2 Hn2 Hd3 H9 Hs1 Hn1.
    assert (Hp : Q2R pstar4_Q <> 0) by (unfold Q2R, pstar4_Q; cbn; lra).
    assert (Hpp : 0 < Q2R pstar4_Q) by (unfold Q2R, pstar4_Q; cbn; lra).
    assert (Hq : 0 <= p / Q2R pstar4_Q) by (apply Rmult_le_pos; [exact Hp0|left; apply Rinv_0_lt_compat; exact Hpp]).
    assert (Hb2 : b * b = b2) by (apply sqrt_sqrt, sqrt_pos).
    assert (Hb22 : b2 * b2 = p / Q2R pstar4_Q) by (apply sqrt_sqrt; exact Hq).
    unfold sat_val, tsat_val. fold b2. fold b. fold d. fold tk.
    replace (tk - Q2R tc_k_Q + Q2R tc_k_Q) with tk by ring.
    assert (Hth : (theta_of n) tk = d) by (apply theta_of_tk; assumption).
    rewrite Hth.
    assert (Hroot : (qE n) b2 b * (d * d) + (qF n) b2 b * d + (qG n) b2 b = 0).
    { unfold d, dd_of, den2, disc2. apply root_minus; [exact Hd2|exact Hn2]. }
    rewrite <- Hb2 in Hroot. rewrite <- regroup in Hroot.
    assert (Hbeta : (beta_of n) d = b).
    { unfold beta_of, den1, disc1. apply select_plus; [exact Hroot|lra|exact Hn1]. }
    rewrite Hbeta. cbv zeta. rewrite Hb2.
    replace (Q2R pstar4_Q * b2 * b2) with (Q2R pstar4_Q * (b2 * b2)) by ring.
    rewrite Hb22. field. exact Hp.
  Qed.
End Traced.
