(** C14 -- the finite obligations of Tables.v discharged by vm_compute on the tables regenerated
    from the current source, and their liftings. *)
From Coq Require Import ZArith QArith Qabs List Bool Lia Reals.
From Gen Require Import GenIAPWS GenReads.
From P Require Import Chain SpecTables Tables.
Import ListNotations.
Open Scope Z_scope.

Lemma chains_ok_true : chains_ok_b = true.
Proof. vm_compute. reflexivity. Qed.

Lemma used_powers_defined_true : used_powers_defined_b = true.
Proof. vm_compute. reflexivity. Qed.

Lemma lengths_ok_true : lengths_ok_b = true.
Proof. vm_compute. reflexivity. Qed.

Lemma chain_tables_wf_proof : chain_tables_wf.
Proof.
  intros tbl Hin. pose proof chains_ok_true as H. unfold chains_ok_b in H.
  rewrite forallb_forall in H. apply H. exact Hin.
Qed.

Lemma power_arrays_correct_proof : power_arrays_correct.
Proof.
  intros tbl Hin x Hx. apply power_array_correct; [apply chain_tables_wf_proof; exact Hin | exact Hx].
Qed.

Lemma used_powers_defined_proof : used_powers_defined.
Proof.
  intros r Hin. pose proof used_powers_defined_true as H. unfold used_powers_defined_b in H.
  rewrite forallb_forall in H. specialize (H r Hin). unfold read_ok in H.
  destruct (nth_error all_tables (Z.to_nat (fst r))) as [tbl|]; [|discriminate].
  exists tbl. split; [reflexivity|]. apply andb_true_iff in H as [_ H].
  rewrite forallb_forall in H. intros k Hk. specialize (H k Hk).
  unfold zmem in H. rewrite existsb_exists in H. destruct H as [y [Hy E]].
  apply Z.eqb_eq in E. subst. exact Hy.
Qed.

(** non-vacuity: the tables and the recorded reads are not empty *)
Example tables_nontrivial :
  forallb (fun t : table => (2 <=? length t)%nat) all_tables = true /\
  (length (cowat_reads ++ supst_reads ++ super_reads ++ visc_reads) >= 10)%nat /\
  forallb (fun r : Z * list Z => (5 <=? length (snd r))%nat) (cowat_reads ++ supst_reads ++ super_reads ++ visc_reads) = true.
Proof. vm_compute. repeat split; auto 20. Qed.

Lemma tables_match_reference_true : tables_match_reference_b = true.
Proof. vm_compute. reflexivity. Qed.
