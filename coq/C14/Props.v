(** C14 -- property theorems only.  Each is closed by [exact] of a lemma proved in the other
    files of coq/C14 and followed by Print Assumptions. *)
From Coq Require Import ZArith QArith List Bool Reals.
From Gen Require Import GenIAPWS GenReads GenTraced.
From P Require Import Chain Expr SpecTables Tables TablesOk.
Import ListNotations.

(** every multiplication-chain table of the current IAPWS97.py passes the boolean check
    (targets are the sums of their factors, factors defined earlier, in range) *)
Theorem chains_ok : forall tbl, In tbl all_tables -> chain_wf tbl = true.
Proof. exact chain_tables_wf_proof. Qed.
Print Assumptions chains_ok.

(** once and for all: a table that passes the check computes true powers (model of power_array) *)
Theorem power_array_correct_any_table : forall (tbl : table) (x : R),
  chain_wf tbl = true -> x <> 0%R ->
  exists a, power_array_model 0%R 1%R Rmult Rdiv x tbl = Some a /\
            forall k, In k (defined tbl) -> rd a k = Some (powerRZ x k).
Proof. exact power_array_correct. Qed.
Print Assumptions power_array_correct_any_table.

(** hence every table of the current source does *)
Theorem power_arrays_of_source_correct : forall tbl, In tbl all_tables -> forall x : R, x <> 0%R ->
  exists a, power_array_model 0%R 1%R Rmult Rdiv x tbl = Some a /\
            forall k, In k (defined tbl) -> rd a k = Some (powerRZ x k).
Proof. exact power_arrays_correct_proof. Qed.
Print Assumptions power_arrays_of_source_correct.

(** distinct powers inside the sized range never share an array slot (numpy negative indexing) *)
Theorem no_slot_collision : forall len lo hi k1 k2 s,
  (0 <= hi)%Z -> (0 <= lo)%Z -> len = (1 + hi + lo)%Z -> (- lo <= k1 <= hi)%Z -> (- lo <= k2 <= hi)%Z ->
  norm_idx len k1 = Some s -> norm_idx len k2 = Some s -> k1 = k2.
Proof. exact slots_distinct. Qed.
Print Assumptions no_slot_collision.

(** every slot cowat / supst / super / visc read is a defined slot of its table *)
Theorem used_powers_are_defined : used_powers_defined.
Proof. exact used_powers_defined_proof. Qed.
Print Assumptions used_powers_are_defined.

(** zip() does not silently drop terms *)
Theorem array_lengths_agree : lengths_ok_b = true.
Proof. exact lengths_ok_true. Qed.
Print Assumptions array_lengths_agree.

(** every coefficient of the current source is the double nearest to the reference decimal and
    every exponent is the reference exponent (reference snapshot of the IF97 tables, SpecTables.v) *)
Theorem tables_match_reference : tables_match_reference_b = true.
Proof. exact tables_match_reference_true. Qed.
Print Assumptions tables_match_reference.
