(** C14 -- region 2: the constant pressure caps of the tile columns dominate the saturation
    pressure on their columns (one-variable interval lemmas on the traced sat formula), and two
    facts about pB23 used at the seams. *)
From Coq Require Import ZArith QArith Qreals Reals List Bool Lra.
From Interval Require Import Tactic.
From Gen Require Import GenIAPWS GenTraced.
From P Require Import Expr RunR Formulas SatInv SatRange B23.
Import ListNotations.
Close Scope Q_scope.
Open Scope R_scope.

Lemma sat_cap_0 tk : 13657/50 <= tk <= 300 -> sat_val n4 tk <= 4000.
Proof. intros H. expose. interval with (i_bisect tk, i_depth 14). Qed.
Lemma sat_cap_1 tk : 300 <= tk <= 330 -> sat_val n4 tk <= 18000.
Proof. intros H. expose. interval with (i_bisect tk, i_depth 14). Qed.
Lemma sat_cap_2 tk : 330 <= tk <= 360 -> sat_val n4 tk <= 63000.
Proof. intros H. expose. interval with (i_bisect tk, i_depth 14). Qed.
Lemma sat_cap_3 tk : 360 <= tk <= 400 -> sat_val n4 tk <= 246000.
Proof. intros H. expose. interval with (i_bisect tk, i_depth 14). Qed.
Lemma sat_cap_4 tk : 400 <= tk <= 450 -> sat_val n4 tk <= 933000.
Proof. intros H. expose. interval with (i_bisect tk, i_depth 14). Qed.
Lemma sat_cap_5 tk : 450 <= tk <= 475 -> sat_val n4 tk <= 1617000.
Proof. intros H. expose. interval with (i_bisect tk, i_depth 14). Qed.
Lemma sat_cap_6 tk : 475 <= tk <= 500 -> sat_val n4 tk <= 2641000.
Proof. intros H. expose. interval with (i_bisect tk, i_depth 14). Qed.
Lemma sat_cap_7 tk : 500 <= tk <= 525 -> sat_val n4 tk <= 4104000.
Proof. intros H. expose. interval with (i_bisect tk, i_depth 14). Qed.
