(** C14 -- the region classifier, as traced from the current source (all 11 recorded paths, range
    tests and the inlined [sat] / [b23p] computations included), against an independently
    written transcription of the IAPWS-IF97 region definitions (temperatures in degC):
      region 1:  0.01 <= t <= 350,  psat(t) <= p <= 100 MPa
      region 2:  0.01 <= t <= 350,  0 <= p <= psat(t);   350 < t <= 590, 0 <= p <= pB23(t);
                 590 < t <= 800,    0 <= p <= 100 MPa
      region 3:  350 <= t <= 590,   pB23(t) <= p <= 100 MPa
    The decision logic is proved for ARBITRARY coefficient values: psat and pB23 are whatever the
    traced [sat] and [b23p] compute from them (Formulas.sat_val, Formulas.b23p_val; SatInv.v, B23.v). *)
From Coq Require Import ZArith QArith Qreals Reals List Bool Lra.
From Gen Require Import GenIAPWS GenTraced.
From P Require Import Expr RunR Formulas.
Import ListNotations.
Close Scope Q_scope.
Open Scope R_scope.

Definition c0_01 : Q := (5764607523034235 # 576460752303423488)%Q.    (* the double 0.01 *)

Lemma Q2R_c1 : Q2R (1 # 1) = 1. Proof. unfold Q2R; cbn; lra. Qed.
Lemma Q2R_c3 : Q2R (3 # 1) = 3. Proof. unfold Q2R; cbn; lra. Qed.
Lemma Q2R_c350 : Q2R (350 # 1) = 350. Proof. unfold Q2R; cbn; lra. Qed.
Lemma Q2R_c590 : Q2R (590 # 1) = 590. Proof. unfold Q2R; cbn; lra. Qed.
Lemma Q2R_c800 : Q2R (800 # 1) = 800. Proof. unfold Q2R; cbn; lra. Qed.
Lemma Q2R_c1e8 : Q2R (100000000 # 1) = 100000000. Proof. unfold Q2R; cbn; lra. Qed.
Lemma c0_01_bounds : 1 / 100 <= Q2R c0_01 <= 1 / 100 + 1 / 1000000000000000000.
Proof. unfold Q2R, c0_01; cbn [Qnum Qden]. lra. Qed.
Lemma tcritical_gt_350 : 350 < Q2R tcritical_Q.
Proof. unfold Q2R, tcritical_Q; cbn [Qnum Qden]. lra. Qed.

Section Classifier.
  Variable n : nat -> R.
  Variables t p : R.

  Definition psat : R := sat_val n (t + Q2R tc_k_Q).
  Definition pb23 : R := b23p_val (fun k => n (10 + k)%nat) (t + Q2R tc_k_Q).
  Definition in_range : Prop := Q2R c0_01 <= t <= 800 /\ 0 <= p <= 100000000.

  (** the classifier's paths, with the two boundary pressures abstracted *)
  Definition paths (ps pb : R) (r : rres) : Prop :=
    (Q2R c0_01 <= t /\ t <= 800 /\ 0 <= p /\ p <= 100000000 /\ t <= 350 /\ 0 <= t /\ t <= Q2R tcritical_Q /\ ps < p /\ RRet [1] = r) \/
    (t < Q2R c0_01 /\ RNone = r) \/
    (Q2R c0_01 <= t /\ 800 < t /\ RNone = r) \/
    (Q2R c0_01 <= t /\ t <= 800 /\ p < 0 /\ RNone = r) \/
    (Q2R c0_01 <= t /\ t <= 800 /\ 0 <= p /\ 100000000 < p /\ RNone = r) \/
    (Q2R c0_01 <= t /\ t <= 800 /\ 0 <= p /\ p <= 100000000 /\ 350 < t /\ t <= 590 /\ pb < p /\ RRet [3] = r) \/
    (Q2R c0_01 <= t /\ t <= 800 /\ 0 <= p /\ p <= 100000000 /\ 350 < t /\ 590 < t /\ RRet [2] = r) \/
    (Q2R c0_01 <= t /\ t <= 800 /\ 0 <= p /\ p <= 100000000 /\ 350 < t /\ t <= 590 /\ p <= pb /\ RRet [2] = r) \/
    (Q2R c0_01 <= t /\ t <= 800 /\ 0 <= p /\ p <= 100000000 /\ t <= 350 /\ t < 0 /\ RRaise = r) \/
    (Q2R c0_01 <= t /\ t <= 800 /\ 0 <= p /\ p <= 100000000 /\ t <= 350 /\ 0 <= t /\ Q2R tcritical_Q < t /\ RRaise = r) \/
    (Q2R c0_01 <= t /\ t <= 800 /\ 0 <= p /\ p <= 100000000 /\ t <= 350 /\ 0 <= t /\ t <= Q2R tcritical_Q /\ p <= ps /\ RRet [2] = r).

  Lemma region_traced_is (r : rres) : runsR region_traced [t; p] n r <-> paths psat pb23 r.
  Proof.
    unfold runsR, envR.
    cbv [region_traced t_paths t_nodes some_pathR condsR condR p_conds p_out outR c_cmp c_a c_b c_expect map].
    cbv [evalR eval_nodes eval_node get nth region_nodes].
    rewrite ?Q2R_c0, ?Q2R_c2, ?Q2R_c4, ?Q2R_c1, ?Q2R_c3, ?Q2R_c350, ?Q2R_c590, ?Q2R_c800, ?Q2R_c1e8.
    match goal with |- context [?c * ?a * ?a] => set (ps := c * a * a) end.
    match goal with |- context [?c * (n 10%nat + ?z)] => set (pb := c * (n 10%nat + z)) end.
    assert (Eps : ps = psat) by (subst ps; cbv [psat sat_val beta_of theta_of den1 disc1 qA qB qC tc_k_Q pstar4_Q]; reflexivity).
    assert (Epb : pb = pb23) by (subst pb; cbv [pb23 b23p_val tc_k_Q c1e6 Nat.add]; reflexivity).
    rewrite <- Eps, <- Epb. clearbody ps pb. clear Eps Epb.
    unfold paths. fold (Q2R c0_01). fold (Q2R tcritical_Q).
    change (Q2R (5764607523034235 # 576460752303423488)) with (Q2R c0_01).
    change (Q2R (3289263801282593 # 8796093022208)) with (Q2R tcritical_Q).
    tauto.
  Qed.

  (** ** the classifier names the region whose validity range contains the state *)
  Definition valid1 : Prop := 1 / 100 <= t <= 350 /\ psat <= p <= 100000000.
  Definition valid2 : Prop :=
    1 / 100 <= t <= 800 /\ 0 <= p <= 100000000 /\ (t <= 350 -> p <= psat) /\ (350 < t <= 590 -> p <= pb23).
  Definition valid3 : Prop := 350 <= t <= 590 /\ pb23 <= p <= 100000000.

  Theorem region_sound (r : R) : runsR region_traced [t; p] n (RRet [r]) ->
    (r = 1 /\ valid1) \/ (r = 2 /\ valid2) \/ (r = 3 /\ valid3).
  Proof.
    intros H. apply region_traced_is in H. pose proof c0_01_bounds as B. pose proof tcritical_gt_350 as C.
    unfold valid1, valid2, valid3.
    destruct H as [H|[H|[H|[H|[H|[H|[H|[H|[H|[H|H]]]]]]]]]];
      repeat match goal with H : _ /\ _ |- _ => destruct H end;
      match goal with E : _ = RRet [r] |- _ => try discriminate E; injection E as E; subst r end.
    - left. split; [reflexivity|]. lra.
    - right. right. split; [reflexivity|]. lra.
    - right. left. split; [reflexivity|]. lra.
    - right. left. split; [reflexivity|]. lra.
    - right. left. split; [reflexivity|]. lra.
  Qed.

  (** every state of the overall range gets a region; outside it the answer is None; the classifier never raises *)
  Theorem region_total : in_range -> exists r, runsR region_traced [t; p] n (RRet [r]).
  Proof.
    intros [[T1 T2] [P1 P2]]. pose proof c0_01_bounds as B. pose proof tcritical_gt_350 as C.
    destruct (Rle_dec t 350) as [L|L].
    - destruct (Rlt_dec psat p) as [M|M].
      + exists 1. apply region_traced_is. left. repeat split; lra.
      + exists 2. apply region_traced_is. do 10 right. repeat split; lra.
    - destruct (Rle_dec t 590) as [L2|L2].
      + destruct (Rlt_dec pb23 p) as [M|M].
        * exists 3. apply region_traced_is. do 5 right. left. repeat split; lra.
        * exists 2. apply region_traced_is. do 7 right. left. repeat split; lra.
      + exists 2. apply region_traced_is. do 6 right. left. repeat split; lra.
  Qed.

  Theorem region_none_iff : runsR region_traced [t; p] n RNone <-> ~ in_range.
  Proof.
    unfold in_range. split.
    - intros H. apply region_traced_is in H.
      destruct H as [H|[H|[H|[H|[H|[H|[H|[H|[H|[H|H]]]]]]]]]];
        repeat match goal with H : _ /\ _ |- _ => destruct H end;
        match goal with E : _ = RNone |- _ => try discriminate E end; lra.
    - intros H. apply region_traced_is.
      destruct (Rle_dec (Q2R c0_01) t); [|right; left; split; [lra|reflexivity]].
      destruct (Rle_dec t 800); [|right; right; left; repeat split; lra].
      destruct (Rle_dec 0 p); [|do 3 right; left; repeat split; lra].
      destruct (Rle_dec p 100000000); [|do 4 right; left; repeat split; lra].
      exfalso. apply H. lra.
  Qed.

  Theorem region_never_raises : ~ runsR region_traced [t; p] n RRaise.
  Proof.
    intros H. apply region_traced_is in H. pose proof c0_01_bounds as B. pose proof tcritical_gt_350 as C.
    destruct H as [H|[H|[H|[H|[H|[H|[H|[H|[H|[H|H]]]]]]]]]];
      repeat match goal with H : _ /\ _ |- _ => destruct H end;
      match goal with E : _ = RRaise |- _ => try discriminate E end; lra.
  Qed.

  (** the recorded paths are mutually exclusive: the result is unique *)
  Theorem region_functional (r1 r2 : rres) :
    runsR region_traced [t; p] n r1 -> runsR region_traced [t; p] n r2 -> r1 = r2.
  Proof.
    intros H1 H2. apply region_traced_is in H1. apply region_traced_is in H2.
    pose proof c0_01_bounds as B. pose proof tcritical_gt_350 as C.
    destruct H1 as [H|[H|[H|[H|[H|[H|[H|[H|[H|[H|H]]]]]]]]]];
      repeat match goal with H : _ /\ _ |- _ => destruct H end; subst r1;
      destruct H2 as [K|[K|[K|[K|[K|[K|[K|[K|[K|[K|K]]]]]]]]]];
      repeat match goal with H : _ /\ _ |- _ => destruct H end; subst r2;
      try reflexivity; exfalso; lra.
  Qed.
End Classifier.

(** non-vacuity: one state per region and one outside *)
Example region_instances (n : nat -> R) :
  (exists r, runsR region_traced [20; 101325] n (RRet [r])) /\ runsR region_traced [900; 101325] n RNone.
Proof.
  pose proof c0_01_bounds as B. split.
  - apply region_total. unfold in_range. lra.
  - apply region_none_iff. unfold in_range. lra.
Qed.
