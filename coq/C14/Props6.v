(** C14 -- property theorems, part 6: the saturation line, the B23 boundary and the viscosity as
    theorems over R about the functions traced from the current source ([runsR]: values AND range
    tests).  Those that depend on the coefficient values of the source use interval arithmetic
    (Coq-Interval: Flocq / Coquelicot, primitive floats and 63-bit integers -- see the
    Print Assumptions output). *)
From Coq Require Import ZArith QArith Qreals Reals List.
From Gen Require Import GenIAPWS GenTraced.
From P Require Import Expr RunR Formulas SatInv SatRange.
Import ListNotations.
Close Scope Q_scope.
Open Scope R_scope.

(** coefficients of the source, whole closed interval 0..tcritical: tsat(sat(t)) = t EXACTLY over R
    whenever tsat's own range test accepts sat's value *)
Theorem tsat_sat_inverse_guarded : forall t p : R,
  runsR sat_traced [t] n4 (RRet [p]) -> Q2R p_611_213_Q <= p <= Q2R tsat_upper_Q ->
  runsR tsat_traced [p] n4 (RRet [t]).
Proof. exact tsat_sat_inverse_guarded_proof. Qed.
Print Assumptions tsat_sat_inverse_guarded.

(** ... which it does from 0.01 degC up to 1e-8 K below the critical temperature *)
Theorem tsat_sat_inverse_below_tcritical : forall t : R, 1 / 100 <= t <= 37394599999 / 100000000 ->
  exists p, runsR sat_traced [t] n4 (RRet [p]) /\ runsR tsat_traced [p] n4 (RRet [t]).
Proof. exact tsat_sat_inverse_proof. Qed.
Print Assumptions tsat_sat_inverse_below_tcritical.
