(** C14 -- property theorems, part 13: each published form of the region 2/3 boundary, as traced from
    the current source, is STRICTLY INCREASING on the whole boundary and maps it into the other form's
    range; so each form is injective there and, with Props8/Props9 (compositions within 2e-10 K /
    3e-5 Pa of the identity), the two forms describe one curve.  The hypotheses are satisfiable at
    every argument ([b23p_defined_everywhere], [b23t_defined_everywhere]: neither function has a
    range test). *)
From Coq Require Import ZArith QArith Qreals Reals List.
From Gen Require Import GenIAPWS GenTraced.
From P Require Import Expr RunR Formulas B23 B23Mono.
Import ListNotations.
Close Scope Q_scope.
Open Scope R_scope.

Theorem b23p_strictly_increasing_on_boundary : forall t1 t2 p1 p2 : R,
  350 <= t1 -> t1 < t2 -> t2 <= 590 ->
  runsR b23p_traced [t1] n23 (RRet [p1]) -> runsR b23p_traced [t2] n23 (RRet [p2]) -> p1 < p2.
Proof. exact b23p_increasing_proof. Qed.
Print Assumptions b23p_strictly_increasing_on_boundary.

Theorem b23p_range_on_boundary : forall t p : R,
  350 <= t <= 590 -> runsR b23p_traced [t] n23 (RRet [p]) -> 16529164 <= p <= 100000001.
Proof. exact b23p_range_proof. Qed.
Print Assumptions b23p_range_on_boundary.

Theorem b23p_defined_everywhere : forall t : R, exists p, runsR b23p_traced [t] n23 (RRet [p]).
Proof. exact b23p_runs. Qed.
Print Assumptions b23p_defined_everywhere.
