(** C14 -- executable model of [IAPWS97.power_array] and its correctness for well-formed
    multiplication-chain tables.

    Python (IAPWS97.py):
<<
    def power_array(value, combination):
        ppowers = [item[0] for item in combination if item[0] > 0]
        npowers = [item[0] for item in combination if item[0] < 0] + [-1]
        nneg, npos = -min(npowers), max(ppowers)
        p = np.zeros(1 + npos + nneg, float64)
        p[0], p[1], p[-1] = 1.0, value, 1.0 / value
        for c in combination:
            p[c[0]] = p[c[1][0]]
            for mult in c[1][1:]:
                p[c[0]] *= p[mult]
        return p
>>
    The model is generic in the number type so that the same definition is evaluated on
    PrimFloat (bit-exact correspondence with the real function) and reasoned about over R. *)
From Coq Require Import ZArith List Bool Lia Reals.
Import ListNotations.
Open Scope Z_scope.

Definition entry := (Z * list Z)%type.        (* (target power, factor powers) *)
Definition table := list entry.

(** numpy index normalisation on an array of length [len]: [None] is IndexError *)
Definition norm_idx (len k : Z) : option Z :=
  if (0 <=? k) && (k <? len) then Some k
  else if (k <? 0) && (- len <=? k) then Some (len + k)
  else None.

Definition zmax_list (l : list Z) : Z := fold_left Z.max l (hd 0 l).
Definition zmin_list (l : list Z) : Z := fold_left Z.min l (hd 0 l).

Definition ppowers (tbl : table) : list Z := filter (fun t => 0 <? t) (map fst tbl).
Definition npowers (tbl : table) : list Z := filter (fun t => t <? 0) (map fst tbl) ++ [-1].
Definition npos (tbl : table) : Z := zmax_list (ppowers tbl).
Definition nneg (tbl : table) : Z := - zmin_list (npowers tbl).
Definition pa_len (tbl : table) : Z := 1 + npos tbl + nneg tbl.

Section Generic.
  Context {A : Type}.
  Variables (zero one : A) (mul div : A -> A -> A).

  Record arr := { alen : Z; aget : Z -> A }.      (* slots 0 .. alen-1 *)

  Definition rd (a : arr) (k : Z) : option A := option_map (aget a) (norm_idx (alen a) k).
  Definition wr (a : arr) (k : Z) (v : A) : option arr :=
    match norm_idx (alen a) k with
    | Some s => Some {| alen := alen a; aget := fun j => if j =? s then v else aget a j |}
    | None => None
    end.

  (** [p[t] *= p[m]] *)
  Definition mul_into (t : Z) (oa : option arr) (m : Z) : option arr :=
    match oa with
    | None => None
    | Some a => match rd a t, rd a m with
                | Some x, Some y => wr a t (mul x y)
                | _, _ => None
                end
    end.

  (** one pass of the loop body; an empty factor tuple is an IndexError *)
  Definition step_entry (oa : option arr) (e : entry) : option arr :=
    match oa with
    | None => None
    | Some a =>
        match snd e with
        | [] => None
        | f0 :: fs => match rd a f0 with
                      | Some v0 => fold_left (mul_into (fst e)) fs (wr a (fst e) v0)
                      | None => None
                      end
        end
    end.

  Definition init_arr (x : A) (tbl : table) : option arr :=
    match ppowers tbl with
    | [] => None                                  (* max([]) raises ValueError *)
    | _ =>
        let a0 := {| alen := pa_len tbl; aget := fun _ => zero |} in
        match wr a0 0 one with
        | Some a1 => match wr a1 1 x with
                     | Some a2 => wr a2 (-1) (div one x)
                     | None => None end
        | None => None
        end
    end.

  Definition power_array_model (x : A) (tbl : table) : option arr :=
    fold_left step_entry tbl (init_arr x tbl).

  Definition arr_to_list (a : arr) : list A :=
    map (fun i => aget a (Z.of_nat i)) (seq 0 (Z.to_nat (alen a))).
End Generic.

(** ** The finite check on a table *)

(** powers whose slot holds a value after the run: 0, 1, -1 and every target *)
Definition defined (tbl : table) : list Z := 0 :: 1 :: -1 :: map fst tbl.

Definition zmem (k : Z) (l : list Z) : bool := existsb (Z.eqb k) l.
Definition zsum (l : list Z) : Z := fold_right Z.add 0 l.
Definition in_range (tbl : table) (k : Z) : bool := (- nneg tbl <=? k) && (k <=? npos tbl).

(** entry check against the powers defined so far:
    - at least one factor, every factor already defined (so nothing reads a zero slot),
    - the factors after the first differ from the target (the target slot is overwritten by the
      first assignment, [p[t] *= p[t]] would read the partial product),
    - the target power is the sum of the factor powers,
    - the target lies in the index range the array was sized for. *)
Definition entry_ok (tbl : table) (dfd : list Z) (e : entry) : bool :=
  match snd e with
  | [] => false
  | _ :: fs =>
      forallb (fun f => zmem f dfd) (snd e) && forallb (fun f => negb (f =? fst e)) fs
      && (zsum (snd e) =? fst e) && in_range tbl (fst e)
  end.

Fixpoint entries_ok (tbl : table) (dfd : list Z) (es : list entry) : bool :=
  match es with
  | [] => true
  | e :: r => entry_ok tbl dfd e && entries_ok tbl (fst e :: dfd) r
  end.

Definition chain_wf (tbl : table) : bool :=
  match ppowers tbl with [] => false | _ => true end
  && (1 <=? npos tbl) && (1 <=? nneg tbl)
  && entries_ok tbl [0; 1; -1] tbl.

(** diagnosis: the first entry that fails (for the failure report; not used in proofs) *)
Fixpoint first_bad_entry (tbl : table) (dfd : list Z) (es : list entry) : option entry :=
  match es with
  | [] => None
  | e :: r => if entry_ok tbl dfd e then first_bad_entry tbl (fst e :: dfd) r else Some e
  end.

(** ** No collision between wrapped negative indices and positive slots *)

Lemma norm_idx_in_range len lo hi k :
  0 <= hi -> 0 <= lo -> len = 1 + hi + lo -> - lo <= k <= hi ->
  norm_idx len k = Some (k mod len).
Proof.
  intros Hhi Hlo -> Hk. unfold norm_idx.
  destruct (0 <=? k) eqn:E0.
  - apply Z.leb_le in E0. assert (k <? 1 + hi + lo = true) as -> by (apply Z.ltb_lt; lia).
    cbn [andb]. rewrite Z.mod_small by lia. reflexivity.
  - apply Z.leb_gt in E0. cbn [andb].
    assert (k <? 0 = true) as -> by (apply Z.ltb_lt; lia).
    assert (- (1 + hi + lo) <=? k = true) as -> by (apply Z.leb_le; lia).
    cbn [andb]. f_equal.
    rewrite <- (Z.mod_small (1 + hi + lo + k) (1 + hi + lo)) by lia.
    rewrite <- Z.add_mod_idemp_l by lia. rewrite Z.mod_same by lia. reflexivity.
Qed.

(** distinct powers inside the sized range never share a slot *)
Lemma slots_distinct len lo hi k1 k2 s :
  0 <= hi -> 0 <= lo -> len = 1 + hi + lo -> - lo <= k1 <= hi -> - lo <= k2 <= hi ->
  norm_idx len k1 = Some s -> norm_idx len k2 = Some s -> k1 = k2.
Proof.
  intros Hhi Hlo Hl H1 H2. unfold norm_idx. subst len.
  destruct (0 <=? k1) eqn:A1; destruct (0 <=? k2) eqn:A2;
    repeat match goal with
           | H : (_ <=? _) = true |- _ => apply Z.leb_le in H
           | H : (_ <=? _) = false |- _ => apply Z.leb_gt in H
           end.
  - assert (k1 <? 1 + hi + lo = true) as -> by (apply Z.ltb_lt; lia).
    assert (k2 <? 1 + hi + lo = true) as -> by (apply Z.ltb_lt; lia). cbn [andb]. congruence.
  - assert (k1 <? 1 + hi + lo = true) as -> by (apply Z.ltb_lt; lia).
    assert (k2 <? 0 = true) as -> by (apply Z.ltb_lt; lia).
    assert (- (1 + hi + lo) <=? k2 = true) as -> by (apply Z.leb_le; lia).
    cbn [andb]. intros E1 E2. assert (k1 = 1 + hi + lo + k2) by congruence. lia.
  - assert (k2 <? 1 + hi + lo = true) as -> by (apply Z.ltb_lt; lia).
    assert (k1 <? 0 = true) as -> by (apply Z.ltb_lt; lia).
    assert (- (1 + hi + lo) <=? k1 = true) as -> by (apply Z.leb_le; lia).
    cbn [andb]. intros E1 E2. assert (k2 = 1 + hi + lo + k1) by congruence. lia.
  - assert (k1 <? 0 = true) as -> by (apply Z.ltb_lt; lia).
    assert (k2 <? 0 = true) as -> by (apply Z.ltb_lt; lia).
    assert (- (1 + hi + lo) <=? k1 = true) as -> by (apply Z.leb_le; lia).
    assert (- (1 + hi + lo) <=? k2 = true) as -> by (apply Z.leb_le; lia).
    cbn [andb]. intros E1 E2. assert (1 + hi + lo + k1 = 1 + hi + lo + k2) by congruence. lia.
Qed.

(** ** Lifting: a well-formed table computes the true powers over R *)

Section OverR.
  Open Scope R_scope.
  Variable x : R.
  Hypothesis x_nz : x <> 0.
  Variable tbl : table.

  Notation rdR := (@rd R).
  Notation wrR := (@wr R).

  Definition hi := npos tbl.
  Definition lo := nneg tbl.

  (** invariant: the array has the sized length, and every power in [D] lies in the sized
      range and its slot holds x^k *)
  Definition inv (a : arr) (D : list Z) : Prop :=
    alen a = pa_len tbl /\
    forall k, In k D -> (- lo <= k <= hi)%Z /\ rdR a k = Some (powerRZ x k).

  Hypothesis hi_pos : (1 <= hi)%Z.
  Hypothesis lo_pos : (1 <= lo)%Z.

  Lemma len_eq : pa_len tbl = (1 + hi + lo)%Z.
  Proof. reflexivity. Qed.

  Lemma rd_wr_same a k v a' :
    alen a = pa_len tbl -> (- lo <= k <= hi)%Z -> wrR a k v = Some a' -> rdR a' k = Some v.
  Proof.
    intros Hl Hk. unfold wr, rd.
    rewrite (norm_idx_in_range (alen a) lo hi k) by (rewrite ?Hl, ?len_eq; lia).
    intros [= <-]. cbn [alen aget].
    rewrite (norm_idx_in_range (alen a) lo hi k) by (rewrite ?Hl, ?len_eq; lia).
    cbn [option_map]. rewrite Z.eqb_refl. reflexivity.
  Qed.

  Lemma rd_wr_other a k v a' j :
    alen a = pa_len tbl -> (- lo <= k <= hi)%Z -> (- lo <= j <= hi)%Z -> j <> k ->
    wrR a k v = Some a' -> rdR a' j = rdR a j.
  Proof.
    intros Hl Hk Hj Hne. unfold wr, rd.
    destruct (norm_idx (alen a) k) as [s|] eqn:Ek; [|discriminate].
    intros [= <-]. cbn [alen aget].
    destruct (norm_idx (alen a) j) as [sj|] eqn:Ej; [|reflexivity].
    cbn [option_map]. destruct (sj =? s) eqn:E; [|reflexivity].
    apply Z.eqb_eq in E. subst sj. exfalso. apply Hne.
    eapply (slots_distinct (alen a) lo hi j k s); try eassumption; rewrite ?Hl, ?len_eq; lia.
  Qed.

  Lemma wr_len a k v a' : wrR a k v = Some a' -> alen a' = alen a.
  Proof. unfold wr. destruct (norm_idx (alen a) k); [|discriminate]. intros [= <-]. reflexivity. Qed.

  Lemma wr_defined a k v :
    alen a = pa_len tbl -> (- lo <= k <= hi)%Z -> exists a', wrR a k v = Some a'.
  Proof.
    intros Hl Hk. unfold wr.
    rewrite (norm_idx_in_range (alen a) lo hi k) by (rewrite ?Hl, ?len_eq; lia). eauto.
  Qed.

  Lemma zmem_In k l : zmem k l = true -> In k l.
  Proof.
    unfold zmem. rewrite existsb_exists. intros [y [Hy E]]. apply Z.eqb_eq in E. subst. exact Hy.
  Qed.

  (** the inner loop: with the target slot holding x^acc and all factors defined and different
      from the target, it ends holding x^(acc + sum fs), other defined slots untouched *)
  Lemma inner_loop t D fs : forall a acc,
    alen a = pa_len tbl -> (- lo <= t <= hi)%Z ->
    rdR a t = Some (powerRZ x acc) ->
    (forall k, In k D -> k <> t -> (- lo <= k <= hi)%Z /\ rdR a k = Some (powerRZ x k)) ->
    forallb (fun f => zmem f D) fs = true ->
    forallb (fun f => negb (f =? t)%Z) fs = true ->
    exists a', fold_left (mul_into Rmult t) fs (Some a) = Some a' /\
      alen a' = pa_len tbl /\
      rdR a' t = Some (powerRZ x (acc + zsum fs)) /\
      (forall k, In k D -> k <> t -> (- lo <= k <= hi)%Z /\ rdR a' k = Some (powerRZ x k)).
  Proof.
    induction fs as [|f fs IH]; intros a acc Hl Ht Hrt Hoth Hmem Hne.
    - exists a. cbn [fold_left zsum fold_right]. rewrite Z.add_0_r. auto.
    - cbn [forallb] in Hmem, Hne. apply andb_true_iff in Hmem as [Hf Hmem].
      apply andb_true_iff in Hne as [Hft Hne]. apply negb_true_iff, Z.eqb_neq in Hft.
      apply zmem_In in Hf. destruct (Hoth f Hf Hft) as [Hfr Hfv].
      cbn [fold_left]. unfold mul_into at 2. rewrite Hrt, Hfv.
      destruct (wr_defined a t (powerRZ x acc * powerRZ x f) Hl Ht) as [a1 Ha1]. rewrite Ha1.
      destruct (IH a1 (acc + f)%Z) as [a' [H1 [H2 [H3 H4]]]]; try assumption.
      + rewrite (wr_len _ _ _ _ Ha1). exact Hl.
      + rewrite (rd_wr_same _ _ _ _ Hl Ht Ha1). rewrite powerRZ_add by exact x_nz. reflexivity.
      + intros k Hk Hkt. destruct (Hoth k Hk Hkt) as [Hr Hv]. split; [exact Hr|].
        rewrite (rd_wr_other _ _ _ _ k Hl Ht Hr Hkt Ha1). exact Hv.
      + exists a'. split; [exact H1|]. split; [exact H2|]. split; [|exact H4].
        rewrite H3. cbn [zsum fold_right]. f_equal. f_equal. fold (zsum fs). lia.
  Qed.

  Lemma step_ok a D e :
    inv a D -> entry_ok tbl D e = true ->
    exists a', step_entry Rmult (Some a) e = Some a' /\ inv a' (fst e :: D).
  Proof.
    intros [Hl HD]. unfold entry_ok, step_entry. destruct e as [t fs0]. cbn [fst snd].
    destruct fs0 as [|f0 fs]; [discriminate|].
    intros H.
    apply andb_true_iff in H as [H R]. apply andb_true_iff in H as [H Hsum].
    apply andb_true_iff in H as [Hall Hne].
    cbn [forallb] in Hall. apply andb_true_iff in Hall as [Hf0 Hmem].
    apply Z.eqb_eq in Hsum.
    unfold in_range in R. apply andb_true_iff in R as [R1 R2]. apply Z.leb_le in R1, R2.
    assert (Ht : (- lo <= t <= hi)%Z) by (unfold lo, hi; lia).
    apply zmem_In in Hf0. destruct (HD f0 Hf0) as [Hf0r Hf0v]. rewrite Hf0v.
    destruct (wr_defined a t (powerRZ x f0) Hl Ht) as [a1 Ha1]. rewrite Ha1.
    destruct (inner_loop t D fs a1 f0) as [a' [H1 [H2 [H3 H4]]]]; try assumption.
    - rewrite (wr_len _ _ _ _ Ha1). exact Hl.
    - apply (rd_wr_same _ _ _ _ Hl Ht Ha1).
    - intros k Hk Hkt. destruct (HD k Hk) as [Hr Hv]. split; [exact Hr|].
      rewrite (rd_wr_other _ _ _ _ k Hl Ht Hr Hkt Ha1). exact Hv.
    - exists a'. split; [exact H1|]. split; [exact H2|].
      intros k [<-|Hk].
      + split; [exact Ht|]. rewrite H3. f_equal. f_equal. cbn [zsum fold_right] in Hsum. fold (zsum fs) in Hsum. lia.
      + destruct (Z.eq_dec k t) as [->|Hkt].
        * split; [exact Ht|]. rewrite H3. f_equal. f_equal. cbn [zsum fold_right] in Hsum. fold (zsum fs) in Hsum. lia.
        * apply H4; assumption.
  Qed.

  Lemma loop_ok es : forall a D,
    inv a D -> entries_ok tbl D es = true ->
    exists a', fold_left (step_entry Rmult) es (Some a) = Some a' /\
               forall k, In k (rev (map fst es) ++ D) -> rdR a' k = Some (powerRZ x k).
  Proof.
    induction es as [|e es IH]; intros a D Hinv Hok.
    - exists a. split; [reflexivity|]. intros k Hk. cbn [map rev app] in Hk. apply Hinv. exact Hk.
    - cbn [entries_ok] in Hok. apply andb_true_iff in Hok as [He Hes].
      destruct (step_ok a D e Hinv He) as [a1 [Ha1 Hinv1]].
      cbn [fold_left]. rewrite Ha1.
      destruct (IH a1 (fst e :: D) Hinv1 Hes) as [a' [Ha' Hall]].
      exists a'. split; [exact Ha'|]. intros k Hk. apply Hall.
      cbn [map rev] in Hk. rewrite <- app_assoc in Hk. exact Hk.
  Qed.

  Lemma init_ok :
    ppowers tbl <> [] ->
    exists a, init_arr 0 1 Rdiv x tbl = Some a /\ inv a [0; 1; -1]%Z.
  Proof.
    intros Hpp. unfold init_arr. destruct (ppowers tbl) eqn:E; [congruence|]. clear E Hpp.
    set (a0 := {| alen := pa_len tbl; aget := fun _ : Z => 0 |}).
    assert (L0 : alen a0 = pa_len tbl) by reflexivity.
    destruct (wr_defined a0 0%Z 1 L0 ltac:(lia)) as [a1 H1]. rewrite H1.
    assert (L1 : alen a1 = pa_len tbl) by (rewrite (wr_len _ _ _ _ H1); exact L0).
    destruct (wr_defined a1 1%Z x L1 ltac:(lia)) as [a2 H2]. rewrite H2.
    assert (L2 : alen a2 = pa_len tbl) by (rewrite (wr_len _ _ _ _ H2); exact L1).
    destruct (wr_defined a2 (-1)%Z (1 / x) L2 ltac:(lia)) as [a3 H3]. rewrite H3.
    assert (L3 : alen a3 = pa_len tbl) by (rewrite (wr_len _ _ _ _ H3); exact L2).
    exists a3. split; [reflexivity|]. split; [exact L3|].
    intros k [<-|[<-|[<-|[]]]].
    - split; [lia|].
      rewrite (rd_wr_other a2 (-1)%Z _ a3 0%Z L2 ltac:(lia) ltac:(lia) ltac:(lia) H3).
      rewrite (rd_wr_other a1 1%Z _ a2 0%Z L1 ltac:(lia) ltac:(lia) ltac:(lia) H2).
      rewrite (rd_wr_same a0 0%Z _ a1 L0 ltac:(lia) H1). reflexivity.
    - split; [lia|].
      rewrite (rd_wr_other a2 (-1)%Z _ a3 1%Z L2 ltac:(lia) ltac:(lia) ltac:(lia) H3).
      rewrite (rd_wr_same a1 1%Z _ a2 L1 ltac:(lia) H2). rewrite powerRZ_1. reflexivity.
    - split; [lia|].
      rewrite (rd_wr_same a2 (-1)%Z _ a3 L2 ltac:(lia) H3). f_equal.
      change (-1)%Z with (- (1))%Z. rewrite powerRZ_neg', powerRZ_1. unfold Rdiv. ring.
  Qed.
End OverR.

(** The lifting theorem: for every table accepted by the boolean check, and every non-zero
    real x, the model of power_array terminates without IndexError and every defined slot
    k (0, 1, -1 and each target) holds x^k (powerRZ: integer powers, negative ones as
    inverses). *)
Theorem power_array_correct (tbl : table) (x : R) :
  chain_wf tbl = true -> x <> 0%R ->
  exists a, power_array_model 0%R 1%R Rmult Rdiv x tbl = Some a /\
            forall k, In k (defined tbl) -> rd a k = Some (powerRZ x k).
Proof.
  intros Hwf Hx. unfold chain_wf in Hwf.
  repeat (apply andb_true_iff in Hwf; destruct Hwf as [Hwf ?]).
  match goal with H : (1 <=? npos _) = true |- _ => apply Z.leb_le in H; rename H into Hhi end.
  match goal with H : (1 <=? nneg _) = true |- _ => apply Z.leb_le in H; rename H into Hlo end.
  assert (Hpp : ppowers tbl <> []) by (destruct (ppowers tbl); [discriminate|congruence]).
  destruct (init_ok x tbl Hhi Hlo Hpp) as [a0 [Ha0 Hinv0]].
  destruct (loop_ok x Hx tbl Hhi Hlo tbl a0 _ Hinv0 ltac:(assumption)) as [a [Ha Hall]].
  exists a. split.
  - unfold power_array_model. rewrite Ha0. exact Ha.
  - intros k Hk. apply Hall. unfold defined in Hk. apply in_or_app.
    destruct Hk as [<-|[<-|[<-|Hk]]].
    + right. cbn. auto.
    + right. cbn. auto.
    + right. cbn. auto.
    + left. apply -> in_rev. exact Hk.
Qed.
