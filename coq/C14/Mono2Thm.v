(** C14 -- region 2: density rises with pressure at fixed temperature, on the WHOLE of region 2
    (0 <= t <= 800 degC; 0 < p <= psat(t) for t <= 350, <= pB23(t) for 350 < t <= 590, <= 100 MPa;
    psat / pB23 = what the traced sat / b23p compute from the coefficients of the source).
    [pcap2] is the pressure cap under which the tiles of Mono2Tiles*.v hold: piecewise constant on
    15 temperature columns up to 623.15 K (each constant at least psat on its column: interval
    lemmas on the sat formula), pB23 itself up to 862 K, 100 MPa above. *)
From Coq Require Import ZArith QArith Qreals Reals List Bool Lra.
From Coquelicot Require Import Coquelicot.
From Interval Require Import Tactic.
From Gen Require Import GenIAPWS GenTraced.
From P Require Import Expr RunR Formulas SatInv SatRange B23 Deriv Potential Mono1 Mono2 Mono2Caps Mono2CapsA
  Mono2TilesA Mono2TilesB Mono2TilesC Mono2TilesD Mono2TilesE Mono2TilesF Mono2TilesG Mono2TilesH.
Import ListNotations.
Close Scope Q_scope.
Open Scope R_scope.

Definition pcap2 (tk : R) : R :=
  if Rle_dec tk 300 then 4000 else
  if Rle_dec tk 330 then 18000 else
  if Rle_dec tk 360 then 63000 else
  if Rle_dec tk 400 then 246000 else
  if Rle_dec tk 450 then 933000 else
  if Rle_dec tk 475 then 1617000 else
  if Rle_dec tk 500 then 2641000 else
  if Rle_dec tk 525 then 4104000 else
  if Rle_dec tk 550 then 6121000 else
  if Rle_dec tk 575 then 8819000 else
  if Rle_dec tk (1175/2) then 10470000 else
  if Rle_dec tk 600 then 12351000 else
  if Rle_dec tk 612 then 14398000 else
  if Rle_dec tk 618 then 15520000 else
  if Rle_dec tk (12463/20) then 16538000 else
  if Rle_dec tk 862 then b23p_val n23 tk else 100000000.

Lemma cover2 tk p : 273 <= tk <= 1074 -> 0 <= p <= pcap2 tk ->
  HH tk p <= 9/10 /\ -99/100 <= KK tk (pcap2 tk).
Proof.
  intros Ht Hp. unfold pcap2 in *.
  destruct (Rle_dec tk 300); [split; [apply h2_0|apply k2_0]; lra|].
  destruct (Rle_dec tk 330); [split; [apply h2_1|apply k2_1]; lra|].
  destruct (Rle_dec tk 360); [split; [apply h2_2|apply k2_2]; lra|].
  destruct (Rle_dec tk 400); [split; [apply h2_3|apply k2_3]; lra|].
  destruct (Rle_dec tk 450); [split; [apply h2_4|apply k2_4]; lra|].
  destruct (Rle_dec tk 475); [split; [apply h2_5|apply k2_5]; lra|].
  destruct (Rle_dec tk 500); [split; [apply h2_6|apply k2_6]; lra|].
  destruct (Rle_dec tk 525); [split; [apply h2_7|apply k2_7]; lra|].
  destruct (Rle_dec tk 550); [split; [apply h2_8|apply k2_8]; lra|].
  destruct (Rle_dec tk 575); [split; [apply h2_9|apply k2_9]; lra|].
  destruct (Rle_dec tk (1175/2)); [split; [apply h2_10|apply k2_10]; lra|].
  destruct (Rle_dec tk 600); [split; [apply h2_11|apply k2_11]; lra|].
  destruct (Rle_dec tk 612); [split; [apply h2_12|apply k2_12]; lra|].
  destruct (Rle_dec tk 618); [split; [apply h2_13|apply k2_13]; lra|].
  destruct (Rle_dec tk (12463/20)); [split; [apply h2_14|apply k2_14]; lra|].
  destruct (Rle_dec tk 862); [|split; [apply ht2|apply kt2]; lra].
  pose proof (b23p_pos tk ltac:(lra)) as Hb.
  set (c := b23p_val n23 tk) in *.
  assert (Es : p = (p / c) * c) by (field; lra).
  assert (Hs : 0 <= p / c <= 1).
  { split; [apply Rmult_le_pos; [lra|left; apply Rinv_0_lt_compat; lra]|].
    apply (Rmult_le_reg_r c); [lra|]. rewrite <- Es. lra. }
  rewrite Es. clear Es. subst c.
  destruct (Rle_dec tk 700); [split; [apply hb2_0|apply kb2_0]; lra|].
  destruct (Rle_dec tk 780); [split; [apply hb2_1|apply kb2_1]; lra|].
  split; [apply hb2_2|apply kb2_2]; lra.
Qed.

Lemma region2_under_cap t p : 0 <= t <= 800 -> p <= 100000000 ->
  (t <= 350 -> p <= sat_val n4 (t + Q2R tc_k_Q)) -> (350 < t <= 590 -> p <= b23p_val n23 (t + Q2R tc_k_Q)) ->
  p <= pcap2 (t + Q2R tc_k_Q).
Proof.
  intros Ht Hp Hs Hb.
  assert (Hk : t + 27314/100 <= t + Q2R tc_k_Q <= t + 27315/100) by (unfold Q2R, tc_k_Q; cbn [Qnum Qden]; lra).
  set (tk := t + Q2R tc_k_Q) in *. unfold pcap2.
  destruct (Rle_dec tk 300); [assert (L : t <= 350) by lra; pose proof (Hs L); pose proof (sat_cap_0 tk ltac:(lra)); lra|].
  destruct (Rle_dec tk 330); [assert (L : t <= 350) by lra; pose proof (Hs L); pose proof (sat_cap_1 tk ltac:(lra)); lra|].
  destruct (Rle_dec tk 360); [assert (L : t <= 350) by lra; pose proof (Hs L); pose proof (sat_cap_2 tk ltac:(lra)); lra|].
  destruct (Rle_dec tk 400); [assert (L : t <= 350) by lra; pose proof (Hs L); pose proof (sat_cap_3 tk ltac:(lra)); lra|].
  destruct (Rle_dec tk 450); [assert (L : t <= 350) by lra; pose proof (Hs L); pose proof (sat_cap_4 tk ltac:(lra)); lra|].
  destruct (Rle_dec tk 475); [assert (L : t <= 350) by lra; pose proof (Hs L); pose proof (sat_cap_5 tk ltac:(lra)); lra|].
  destruct (Rle_dec tk 500); [assert (L : t <= 350) by lra; pose proof (Hs L); pose proof (sat_cap_6 tk ltac:(lra)); lra|].
  destruct (Rle_dec tk 525); [assert (L : t <= 350) by lra; pose proof (Hs L); pose proof (sat_cap_7 tk ltac:(lra)); lra|].
  destruct (Rle_dec tk 550); [assert (L : t <= 350) by lra; pose proof (Hs L); pose proof (sat_cap_8 tk ltac:(lra)); lra|].
  destruct (Rle_dec tk 575); [assert (L : t <= 350) by lra; pose proof (Hs L); pose proof (sat_cap_9 tk ltac:(lra)); lra|].
  destruct (Rle_dec tk (1175/2)); [assert (L : t <= 350) by lra; pose proof (Hs L); pose proof (sat_cap_10 tk ltac:(lra)); lra|].
  destruct (Rle_dec tk 600); [assert (L : t <= 350) by lra; pose proof (Hs L); pose proof (sat_cap_11 tk ltac:(lra)); lra|].
  destruct (Rle_dec tk 612); [assert (L : t <= 350) by lra; pose proof (Hs L); pose proof (sat_cap_12 tk ltac:(lra)); lra|].
  destruct (Rle_dec tk 618); [assert (L : t <= 350) by lra; pose proof (Hs L); pose proof (sat_cap_13 tk ltac:(lra)); lra|].
  destruct (Rle_dec tk (12463/20)).
  { destruct (Rle_dec t 350) as [L|L]; [pose proof (Hs L); pose proof (sat_cap_14 tk ltac:(lra)); lra|].
    pose proof (Hb ltac:(lra)); pose proof (b23_cap_last tk ltac:(lra)); lra. }
  destruct (Rle_dec tk 862); [apply Hb; lra|lra].
Qed.

Lemma pstar2_pos : 0 < Q2R pstar2_Q.
Proof. unfold Q2R, pstar2_Q; cbn [Qnum Qden]. lra. Qed.
Lemma Y2_pos tk : 273 <= tk <= 1074 -> 1/1000 <= Y2 tk.
Proof. intros H. unfold Y2, Q2R, tstar2_Q, c0_5; cbn [Qnum Qden]. interval. Qed.
Lemma pcap2_pos tk : 0 < pcap2 tk.
Proof.
  unfold pcap2. repeat (destruct (Rle_dec tk _) as [?|?]; [lra|]).
  destruct (Rle_dec tk 862); [pose proof (b23p_pos tk ltac:(lra)); lra|lra].
Qed.

(** pi g = 1 + K *)
Lemma g2_K tk p : 0 < p -> g2 tk p = (1 + KK tk p) / P2 p.
Proof.
  intros Hp. pose proof pstar2_pos as Hs.
  assert (Hx : P2 p <> 0) by (unfold P2; apply Rgt_not_eq, Rdiv_lt_0_compat; lra).
  unfold g2, KK. rewrite msum_px_eq by exact Hx. field. exact Hx.
Qed.

(** g strictly decreases in p below the cap ... *)
Lemma g2_decreasing tk p1 p2 : 273 <= tk <= 1074 -> 0 < p1 -> p1 < p2 <= pcap2 tk -> g2 tk p2 < g2 tk p1.
Proof.
  intros Ht Hp1 Hp. pose proof pstar2_pos as Hs.
  destruct (g2_mvt n2 (Q2R pstar2_Q) (Y2 tk) p1 p2 R2.terms Hs Hp1 ltac:(lra)) as (q & Hq & E).
  destruct (cover2 tk q Ht ltac:(lra)) as [HHq _]. unfold HH, P2 in HHq.
  unfold g2, P2.
  set (h := msum_pxx n2 (q / Q2R pstar2_Q) (Y2 tk) R2.terms) in *.
  assert (Hqq : 0 < q / Q2R pstar2_Q * (q / Q2R pstar2_Q) * Q2R pstar2_Q).
  { assert (0 < q / Q2R pstar2_Q) by (apply Rdiv_lt_0_compat; lra). apply Rmult_lt_0_compat; [apply Rmult_lt_0_compat; assumption|exact Hs]. }
  set (w := q / Q2R pstar2_Q * (q / Q2R pstar2_Q) * Q2R pstar2_Q) in *.
  assert (K : 0 < (1 - h) * / w * (p2 - p1)).
  { apply Rmult_lt_0_compat; [apply Rmult_lt_0_compat; [lra|apply Rinv_0_lt_compat; exact Hqq]|lra]. }
  replace ((h - 1) / w * (p2 - p1)) with (- ((1 - h) * / w * (p2 - p1))) in E by (unfold Rdiv; ring).
  lra.
Qed.

(** ... and is positive at the cap, hence positive below it *)
Lemma g2_pos tk p : 273 <= tk <= 1074 -> 0 < p <= pcap2 tk -> 0 < g2 tk p.
Proof.
  intros Ht Hp. pose proof pstar2_pos as Hs. pose proof (pcap2_pos tk) as Hc.
  assert (Gc : 0 < g2 tk (pcap2 tk)).
  { rewrite g2_K by exact Hc. destruct (cover2 tk (pcap2 tk) Ht ltac:(lra)) as [_ Kc].
    apply Rdiv_lt_0_compat; [lra|unfold P2; apply Rdiv_lt_0_compat; lra]. }
  destruct (Rlt_dec p (pcap2 tk)) as [L|L].
  - pose proof (g2_decreasing tk p (pcap2 tk) Ht ltac:(lra) ltac:(lra)). lra.
  - replace p with (pcap2 tk) by lra. exact Gc.
Qed.

(** the coefficient list of the traced supst is n0r2 ++ nr2 *)
Lemma eval_nodes_coef_ext (var c1 c2 : nat -> R) (ns : list node) : (forall k, c1 k = c2 k) -> forall env,
  eval_nodes 0 (fun q _ => Q2R q) Rplus Rminus Rmult Rdiv Ropp sqrt exp var c1 env ns
  = eval_nodes 0 (fun q _ => Q2R q) Rplus Rminus Rmult Rdiv Ropp sqrt exp var c2 env ns.
Proof.
  intros H. induction ns as [|x r IH]; intros env; cbn [eval_nodes]; [reflexivity|].
  rewrite IH. f_equal. f_equal. destruct x; cbn [eval_node]; try reflexivity. apply H.
Qed.
Lemma outsR_coef_ext (tr : traced) (args : list R) (c1 c2 : nat -> R) : (forall k, c1 k = c2 k) ->
  outsR tr args c1 = outsR tr args c2.
Proof. intros H. unfold outsR, evalR. rewrite (eval_nodes_coef_ext _ c1 c2 _ H). reflexivity. Qed.
Lemma supst_coefs_split k : coefR supst_coefs_Q k = R2.coef n02 n2 k.
Proof.
  unfold coefR, supst_coefs_Q, R2.coef, n02, n2, coefR, R2.len0.
  destruct (Nat.ltb_spec k (length n0r2_Q)) as [L|L]; [rewrite app_nth1 by exact L|rewrite app_nth2 by exact L]; reflexivity.
Qed.

Lemma supst_density t p : 273 <= t + Q2R tc_k_Q <= 1074 -> 0 < p <= pcap2 (t + Q2R tc_k_Q) ->
  nth 0 (outsR supst_traced [t; p] (coefR supst_coefs_Q)) 0
  = Q2R pstar2_Q / (Q2R rconst_Q * (t + Q2R tc_k_Q) * g2 (t + Q2R tc_k_Q) p).
Proof.
  intros Ht Hp. pose proof (g2_pos _ _ Ht Hp) as G. pose proof pstar2_pos as Hs. pose proof (Y2_pos _ Ht) as HY.
  assert (HR : 0 < Q2R rconst_Q) by (unfold Q2R, rconst_Q; cbn [Qnum Qden]; lra).
  rewrite (outsR_coef_ext supst_traced [t; p] _ _ supst_coefs_split).
  rewrite (R2.outputs t p n02 n2).
  - reflexivity.
  - lra.
  - unfold Y2 in HY. intros E. rewrite E in HY. unfold Q2R, c0_5 in HY; cbn [Qnum Qden] in HY. lra.
  - apply Rdiv_lt_0_compat; lra.
  - unfold Y2 in HY. lra.
  - unfold g2, P2, Y2 in G. apply Rgt_not_eq. apply Rmult_lt_0_compat; [apply Rmult_lt_0_compat; lra|exact G].
Qed.

Theorem density_increases_region2_proof (t p1 p2 : R) :
  0 <= t <= 800 -> 0 < p1 -> p1 < p2 <= 100000000 ->
  (t <= 350 -> p2 <= sat_val n4 (t + Q2R tc_k_Q)) ->
  (350 < t <= 590 -> p2 <= b23p_val n23 (t + Q2R tc_k_Q)) ->
  let rho p := nth 0 (outsR supst_traced [t; p] (coefR supst_coefs_Q)) 0 in
  0 < rho p1 < rho p2.
Proof.
  intros Ht Hp1 Hp2 Hs Hb rho.
  pose proof (region2_under_cap t p2 Ht ltac:(lra) Hs Hb) as Hcap.
  assert (Hk : 273 <= t + Q2R tc_k_Q <= 1074) by (unfold Q2R, tc_k_Q; cbn [Qnum Qden]; lra).
  set (tk := t + Q2R tc_k_Q) in *.
  unfold rho. rewrite (supst_density t p1), (supst_density t p2); fold tk; try lra.
  pose proof (g2_pos tk p2 Hk ltac:(lra)) as G2. pose proof (g2_decreasing tk p1 p2 Hk Hp1 ltac:(lra)) as Gd.
  pose proof pstar2_pos as Hps.
  assert (HR : 0 < Q2R rconst_Q) by (unfold Q2R, rconst_Q; cbn [Qnum Qden]; lra).
  assert (B : 0 < Q2R rconst_Q * tk) by (apply Rmult_lt_0_compat; lra).
  set (b := Q2R rconst_Q * tk) in *. set (a := Q2R pstar2_Q) in *.
  set (x1 := g2 tk p1) in *. set (x2 := g2 tk p2) in *.
  assert (P1 : 0 < b * x1) by (apply Rmult_lt_0_compat; lra).
  assert (P2' : 0 < b * x2) by (apply Rmult_lt_0_compat; lra).
  split.
  - apply Rdiv_lt_0_compat; assumption.
  - unfold Rdiv. apply Rmult_lt_compat_l; [exact Hps|].
    apply Rinv_lt_contravar; [apply Rmult_lt_0_compat; assumption|].
    apply Rmult_lt_compat_l; assumption.
Qed.

Lemma b23p_of_400 : 2000000 <= b23p_val n23 (400 + Q2R tc_k_Q).
Proof. expose23. interval. Qed.

(** non-vacuity: superheated steam at 400 degC *)
Example density_increases_region2_instance :
  let rho p := nth 0 (outsR supst_traced [400; p] (coefR supst_coefs_Q)) 0 in 0 < rho 1000000 < rho 2000000.
Proof.
  apply density_increases_region2_proof; try lra.
  intros _. pose proof (b23p_of_400) as Q. lra.
Qed.
