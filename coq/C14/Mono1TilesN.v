(** C14 -- GENERATED ONCE by a script (tile list in reports/C14.md): gamma_pipi <= -1e-5 on rectangles
    of (kelvin temperature, pressure), by interval arithmetic with bisection in both variables.
    Mono1Thm.v proves that the rectangles cover the stated domain. *)
From Coq Require Import ZArith QArith Qreals Reals List Bool.
From Coquelicot Require Import Coquelicot.
From Interval Require Import Tactic.
From Gen Require Import GenIAPWS GenTraced.
From P Require Import Expr RunR Deriv Potential Mono1.
Import ListNotations.
Close Scope Q_scope.
Open Scope R_scope.

Lemma tile_586_600_250_500 tk p : 586 <= tk <= 600 -> 25000000 <= p <= 50000000 -> gpp tk p <= -1/100000.
Proof. intros H1 H2. expose1. interval with (i_bisect tk, i_bisect p, i_depth 22). Qed.
