(** C14 -- the sign / discriminant hypotheses of SatInv.v discharged for the region-4 coefficients
    of the current source ([nr4_Q], regenerated on every run) on the whole saturation line, by
    interval arithmetic ([interval], Coq-Interval 4: primitive floats unless [i_prec] is given),
    and the resulting inverse theorems about the traced functions including their range tests. *)
From Coq Require Import ZArith QArith Qreals Reals List Bool Lra.
From Interval Require Import Tactic.
From Gen Require Import GenIAPWS GenTraced.
From P Require Import Expr RunR Formulas SatInv.
Import ListNotations.
Close Scope Q_scope.
Open Scope R_scope.

Definition n4 : nat -> R := coefR nr4_Q.
Ltac expose :=
  cbv [sat_val tsat_val theta_of qA qB qC disc1 den1 beta_of qE qF qG disc2 den2 dd_of disc3 tk_of
       n4 coefR nth nr4_Q pstar4_Q tc_k_Q tcritical_Q pcritical_Q p_611_213_Q tsat_upper_Q tsat_nodes];
  unfold Q2R; cbn [Qnum Qden].

(** ** kelvin temperature range of the saturation line *)
Lemma tk_range t : 0 <= t <= Q2R tcritical_Q ->
  27314/100 <= t + Q2R tc_k_Q <= 6470961/10000.
Proof. intros H. revert H. expose. intros H. lra. Qed.

(** tsat accepts pressures at least up to pcritical (exactly up to it in the source as it stands) *)
Lemma upper_ge_pcritical : Q2R pcritical_Q <= Q2R tsat_upper_Q.
Proof. expose. lra. Qed.

(** ** forward direction: hypotheses of [tsat_of_sat_algebra] *)
Lemma F_n9 tk : 27314/100 <= tk <= 6470961/10000 -> tk - n4 9 <> 0.
Proof. intros H. expose. lra. Qed.
Lemma F_theta tk : 27314/100 <= tk <= 6470961/10000 -> 27314/100 <= theta_of n4 tk <= 6472/10.
Proof. intros H. expose. interval. Qed.
Lemma F_sel3 tk : 27314/100 <= tk <= 6470961/10000 -> 0 <= n4 9 + theta_of n4 tk - 2 * tk.
Proof. intros H. expose. interval with (i_bisect tk, i_depth 12). Qed.
Lemma F_disc1 th : 27314/100 <= th <= 6472/10 -> 1 <= disc1 n4 th.
Proof. intros H. expose. interval with (i_bisect th, i_depth 20). Qed.
Lemma F_den1 th : 27314/100 <= th <= 6472/10 -> 1 <= den1 n4 th.
Proof. intros H. expose. interval with (i_bisect th, i_depth 20). Qed.
Lemma F_beta th : 27314/100 <= th <= 6472/10 -> 15/100 <= beta_of n4 th <= 22/10.
Proof. intros H. expose. interval with (i_bisect th, i_depth 20). Qed.
Lemma F_sel2 th : 27314/100 <= th <= 6472/10 ->
  let b := beta_of n4 th in 1 <= 2 * qE n4 (b * b) b * th + qF n4 (b * b) b.
Proof. intros H. expose. interval with (i_bisect th, i_depth 25). Qed.
Lemma F_den2 th : 27314/100 <= th <= 6472/10 ->
  let b := beta_of n4 th in 1 <= qE n4 (b * b) b * th + qF n4 (b * b) b.
Proof. intros H. expose. interval with (i_bisect th, i_depth 25). Qed.

(** tsat's formula applied to sat's formula gives the temperature back: every accepted t *)
Theorem tsat_val_of_sat_val t : 0 <= t <= Q2R tcritical_Q ->
  tsat_val n4 (sat_val n4 (t + Q2R tc_k_Q)) = t.
Proof.
  intros H. pose proof (tk_range t H) as Hk. set (tk := t + Q2R tc_k_Q) in *.
  pose proof (F_theta tk Hk) as Hth.
  assert (Et : t = tk - Q2R tc_k_Q) by (unfold tk; ring).
  rewrite Et at 1. clearbody tk.
  apply tsat_of_sat_algebra.
  - apply F_n9; exact Hk.
  - pose proof (F_disc1 _ Hth). lra.
  - pose proof (F_den1 _ Hth). lra.
  - pose proof (F_beta _ Hth). lra.
  - pose proof (F_sel2 _ Hth) as Q. cbv zeta in Q. lra.
  - pose proof (F_den2 _ Hth) as Q. cbv zeta in Q. lra.
  - apply F_sel3; exact Hk.
Qed.

(** ** where sat's value passes tsat's range test *)
Lemma sat_ge_lower tk : 27316/100 - 1/10000000 <= tk <= 6470961/10000 -> 611213/1000 <= sat_val n4 tk.
Proof.
  intros H. destruct (Rle_dec tk 280) as [L|L].
  - assert (H' : 27316/100 - 1/10000000 <= tk <= 280) by lra. clear H L. expose. interval with (i_bisect tk, i_depth 30).
  - assert (H' : 280 <= tk <= 6470961/10000) by lra. clear H L. expose. interval with (i_bisect tk, i_depth 20).
Qed.
(** up to 1e-8 K below the critical temperature *)
Lemma sat_le_pcritical tk : 27314/100 <= tk <= 64709599999/100000000 -> sat_val n4 tk <= 22064000.
Proof.
  intros H. destruct (Rle_dec tk (64709/100)) as [L|L].
  - assert (H' : 27314/100 <= tk <= 64709/100) by lra. clear H L. expose. interval with (i_bisect tk, i_depth 30).
  - assert (H' : 64709/100 <= tk <= 64709599999/100000000) by lra. clear H L. expose. interval with (i_bisect tk, i_depth 50, i_prec 90).
Qed.
(** at the critical temperature itself sat's value EXCEEDS pcritical -- over R, not a rounding effect *)
Lemma sat_tcritical_gt_pcritical : 22064000 + 3/10000 < sat_val n4 (Q2R tcritical_Q + Q2R tc_k_Q).
Proof. expose. interval with (i_prec 120). Qed.

(** ** reverse direction: hypotheses of [sat_of_tsat_algebra], in the variable b = (p/1e6)^(1/4) *)
Definition b_lo : R := 157234609237303 / 1000000000000000.
Definition b_hi : R := 2167310136595290367 / 1000000000000000000.

Lemma b_of_p p : Q2R p_611_213_Q <= p <= Q2R pcritical_Q ->
  let b := sqrt (sqrt (p / Q2R pstar4_Q)) in b_lo <= b <= b_hi /\ sqrt (p / Q2R pstar4_Q) = b * b.
Proof.
  intros H b.
  assert (Hq : 0 <= p / Q2R pstar4_Q).
  { revert H. expose. intros H. lra. }
  split; [|unfold b; symmetry; apply sqrt_sqrt, sqrt_pos].
  assert (Hb4 : (b * b) * (b * b) = p / Q2R pstar4_Q).
  { unfold b. rewrite (sqrt_sqrt (sqrt _)) by apply sqrt_pos. apply sqrt_sqrt. exact Hq. }
  assert (Hb : 0 <= b) by apply sqrt_pos.
  assert (L4 : (b_lo * b_lo) * (b_lo * b_lo) <= p / Q2R pstar4_Q).
  { apply Rle_trans with (Q2R p_611_213_Q / Q2R pstar4_Q).
    - unfold b_lo. expose. interval with (i_prec 120).
    - revert H. expose. intros H. lra. }
  assert (U4 : p / Q2R pstar4_Q <= (b_hi * b_hi) * (b_hi * b_hi)).
  { apply Rle_trans with (Q2R pcritical_Q / Q2R pstar4_Q).
    - revert H. expose. intros H. lra.
    - unfold b_hi. expose. interval with (i_prec 120). }
  assert (Pl : 0 < b_lo) by (unfold b_lo; lra).
  assert (Ph : 0 < b_hi) by (unfold b_hi; lra).
  rewrite <- Hb4 in L4, U4. clear Hb4 Hq H.
  split.
  - destruct (Rle_dec b_lo b) as [?|N]; [assumption|exfalso].
    assert (b < b_lo) by lra. assert (b * b < b_lo * b_lo) by nra. nra.
  - destruct (Rle_dec b b_hi) as [?|N]; [assumption|exfalso].
    assert (b_hi < b) by lra. assert (b_hi * b_hi < b * b) by nra. nra.
Qed.

Lemma R_disc2 b : 157/1000 <= b <= 21674/10000 -> 1 <= disc2 n4 (b * b) b.
Proof. intros H. expose. interval with (i_bisect b, i_depth 20). Qed.
Lemma R_den2 b : 157/1000 <= b <= 21674/10000 -> den2 n4 (b * b) b <= -1.
Proof. intros H. expose. interval with (i_bisect b, i_depth 20). Qed.
Lemma R_d b : 157/1000 <= b <= 21674/10000 -> 273 <= dd_of n4 (b * b) b <= 6473/10.
Proof. intros H. expose. interval with (i_bisect b, i_depth 20). Qed.
Lemma R_disc3 d : 0 <= disc3 n4 d.
Proof.
  unfold disc3.
  replace ((n4 9 + d) * (n4 9 + d) - 4 * (n4 8 + n4 9 * d)) with ((d - n4 9) * (d - n4 9) - 4 * n4 8) by ring.
  assert (n4 8 <= 0) by (expose; interval). pose proof (Rle_0_sqr (d - n4 9)) as Q. unfold Rsqr in Q. lra.
Qed.
Lemma R_tk d : 273 <= d <= 6473/10 -> tk_of n4 d - n4 9 <= -1/1000.
Proof. intros H. expose. interval with (i_bisect d, i_depth 20). Qed.
Lemma R_sel1 b : 157/1000 <= b <= 21674/10000 ->
  let d := dd_of n4 (b * b) b in 2 * qA n4 d * b + qB n4 d <= -1.
Proof. intros H. expose. interval with (i_bisect b, i_depth 25). Qed.
Lemma R_den1 b : 157/1000 <= b <= 21674/10000 ->
  let d := dd_of n4 (b * b) b in qA n4 d * b + qB n4 d <= -1.
Proof. intros H. expose. interval with (i_bisect b, i_depth 25). Qed.

(** tsat's value passes sat's range test on the whole of [611.213, pcritical] (tight at both ends:
    7e-6 K above 0 degC at 611.213 Pa, 1.2e-9 K below tcritical at pcritical) *)
Lemma R_t_lower b : b_lo <= b <= 21674/10000 -> Q2R tc_k_Q <= tk_of n4 (dd_of n4 (b * b) b).
Proof.
  intros H. unfold b_lo in H. destruct (Rle_dec b (16/100)) as [L|L].
  - assert (H' : 157234609237303 / 1000000000000000 <= b <= 16/100) by lra. clear H L.
    expose. interval with (i_bisect b, i_taylor b, i_degree 4, i_depth 30, i_prec 90).
  - assert (H' : 16/100 <= b <= 21674/10000) by lra. clear H L.
    expose. interval with (i_bisect b, i_depth 30).
Qed.
Lemma R_t_upper b : 157/1000 <= b <= b_hi -> tk_of n4 (dd_of n4 (b * b) b) <= Q2R tcritical_Q + Q2R tc_k_Q.
Proof.
  intros H. unfold b_hi in H. destruct (Rle_dec b (216/100)) as [L|L].
  - assert (H' : 157/1000 <= b <= 216/100) by lra. clear H L.
    expose. interval with (i_bisect b, i_depth 30).
  - assert (H' : 216/100 <= b <= 2167310136595290367 / 1000000000000000000) by lra. clear H L.
    expose. interval with (i_bisect b, i_taylor b, i_degree 4, i_depth 30, i_prec 90).
Qed.

(** sat's formula applied to tsat's formula gives the pressure back: every accepted p *)
Theorem sat_val_of_tsat_val p : Q2R p_611_213_Q <= p <= Q2R pcritical_Q ->
  sat_val n4 (tsat_val n4 p + Q2R tc_k_Q) = p /\ 0 <= tsat_val n4 p <= Q2R tcritical_Q.
Proof.
  intros H. pose proof (b_of_p p H) as [Hb Hb2]. cbv zeta in Hb, Hb2.
  assert (Hw : 157/1000 <= sqrt (sqrt (p / Q2R pstar4_Q)) <= 21674/10000) by (unfold b_lo, b_hi in Hb; lra).
  assert (Hp0 : 0 <= p) by (revert H; expose; intros H; lra).
  split.
  - apply sat_of_tsat_algebra; try exact Hp0;
      set (b2 := sqrt (p / Q2R pstar4_Q)) in *; set (b := sqrt b2) in *; clearbody b; clearbody b2; subst b2.
    + pose proof (R_disc2 b Hw). lra.
    + pose proof (R_den2 b Hw). lra.
    + apply R_disc3.
    + pose proof (R_tk _ (R_d b Hw)). lra.
    + pose proof (R_sel1 b Hw) as Q. cbv zeta in Q. lra.
    + pose proof (R_den1 b Hw) as Q. cbv zeta in Q. lra.
  - unfold tsat_val. cbv zeta.
    set (b2 := sqrt (p / Q2R pstar4_Q)) in *; set (b := sqrt b2) in *; clearbody b; clearbody b2; subst b2.
    pose proof (R_t_lower b ltac:(lra)). pose proof (R_t_upper b ltac:(lra)). lra.
Qed.

(** ** the inverse theorems about the traced functions, range tests included *)

(** on the whole closed interval 0..tcritical the only way tsat(sat(t)) can differ from t is tsat's
    own range test rejecting sat's value *)
Theorem tsat_sat_inverse_guarded_proof (t p : R) :
  runsR sat_traced [t] n4 (RRet [p]) -> Q2R p_611_213_Q <= p <= Q2R tsat_upper_Q ->
  runsR tsat_traced [p] n4 (RRet [t]).
Proof.
  intros Hs Hp. apply sat_traced_is in Hs as [[Ht E]|[_ E]]; [|discriminate E].
  injection E as E. subst p.
  apply tsat_traced_is. left. split; [exact Hp|].
  rewrite tsat_val_of_sat_val by exact Ht. reflexivity.
Qed.

(** and that test passes from 0.01 degC up to 1e-8 K below the critical temperature *)
Theorem tsat_sat_inverse_proof (t : R) : 1/100 <= t <= 37394599999/100000000 ->
  exists p, runsR sat_traced [t] n4 (RRet [p]) /\ runsR tsat_traced [p] n4 (RRet [t]).
Proof.
  intros H.
  assert (Ht : 0 <= t <= Q2R tcritical_Q) by (revert H; expose; intros H; lra).
  exists (sat_val n4 (t + Q2R tc_k_Q)).
  assert (Hs : runsR sat_traced [t] n4 (RRet [sat_val n4 (t + Q2R tc_k_Q)])).
  { apply sat_traced_is. left. split; [exact Ht|reflexivity]. }
  split; [exact Hs|]. apply tsat_sat_inverse_guarded_proof; [exact Hs|].
  assert (Hk : 27316/100 - 1/10000000 <= t + Q2R tc_k_Q <= 64709599999/100000000) by (revert H; expose; intros H; lra).
  pose proof (sat_ge_lower (t + Q2R tc_k_Q) ltac:(lra)) as L.
  pose proof (sat_le_pcritical (t + Q2R tc_k_Q) ltac:(lra)) as U.
  pose proof upper_ge_pcritical as G.
  set (v := sat_val n4 (t + Q2R tc_k_Q)) in *. clearbody v. revert L U G. expose. intros L U G. lra.
Qed.

(** the other composition holds on the whole closed pressure interval 611.213 Pa .. pcritical *)
Theorem sat_tsat_inverse_proof (p : R) : Q2R p_611_213_Q <= p <= Q2R pcritical_Q ->
  exists t, runsR tsat_traced [p] n4 (RRet [t]) /\ runsR sat_traced [t] n4 (RRet [p]).
Proof.
  intros H. exists (tsat_val n4 p). split.
  - apply tsat_traced_is. left. split; [pose proof upper_ge_pcritical; lra|reflexivity].
  - destruct (sat_val_of_tsat_val p H) as [E R]. apply sat_traced_is. left. split; [exact R|]. rewrite E. reflexivity.
Qed.

(** non-vacuity: concrete states meet the hypotheses *)
Example tsat_sat_inverse_instance :
  exists p, runsR sat_traced [100] n4 (RRet [p]) /\ runsR tsat_traced [p] n4 (RRet [100]).
Proof. apply tsat_sat_inverse_proof. lra. Qed.
Example sat_tsat_inverse_instance :
  exists t, runsR tsat_traced [101325] n4 (RRet [t]) /\ runsR sat_traced [t] n4 (RRet [101325]).
Proof. apply sat_tsat_inverse_proof. expose. lra. Qed.
