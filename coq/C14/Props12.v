(** C14 -- property theorems, part 12: density rises with pressure at fixed temperature on the WHOLE
    of region 2: 0 <= t <= 800 degC, 0 < p <= psat(t) (t <= 350), <= pB23(t) (350 < t <= 590),
    <= 100 MPa; psat / pB23 are the values the traced sat / b23p compute from the coefficients of the
    source (Formulas.sat_val / b23p_val); rho is the density the traced supst returns over R. *)
From Coq Require Import ZArith QArith Qreals Reals List.
From Gen Require Import GenIAPWS GenTraced.
From P Require Import Expr RunR Formulas SatRange B23 Potential Mono2Thm.
Import ListNotations.
Close Scope Q_scope.
Open Scope R_scope.

Theorem density_increases_with_pressure_region2 : forall t p1 p2 : R,
  0 <= t <= 800 -> 0 < p1 -> p1 < p2 <= 100000000 ->
  (t <= 350 -> p2 <= sat_val n4 (t + Q2R tc_k_Q)) ->
  (350 < t <= 590 -> p2 <= b23p_val n23 (t + Q2R tc_k_Q)) ->
  let rho p := nth 0 (outsR supst_traced [t; p] (coefR supst_coefs_Q)) 0 in
  0 < rho p1 < rho p2.
Proof. exact density_increases_region2_proof. Qed.
Print Assumptions density_increases_with_pressure_region2.
