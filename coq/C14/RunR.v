(** C14 -- real-number semantics of a traced function INCLUDING its branch conditions.

    [Expr.evalR] gives the values of the DAG nodes over R; a [path] of the trace is the list of
    comparisons the Python function made (with their outcomes) followed by what it returned.
    [runsR t args coef r]: some recorded path of [t] has all its comparisons come out, over R, the
    way they were recorded, and returns [r].  (The float semantics [Expr.runF] takes the first
    path whose conditions hold; the recorded paths are mutually exclusive, see [runsR_functional]
    for the traces used here.)

    Caveat stated once: over R division by zero is total ([x / 0 = 0] in Coq), so a theorem
    about [runsR] describes the Python function only where no divisor vanishes; every theorem
    that relies on this names the non-vanishing divisors as hypotheses or proves them. *)
From Coq Require Import ZArith QArith Qreals Reals List Bool Lra.
From P Require Import Expr.
Import ListNotations.
Close Scope Q_scope.
Open Scope R_scope.

Definition condR (env : list R) (c : cond) : Prop :=
  let a := nth (c_a c) env 0 in
  let b := nth (c_b c) env 0 in
  match c_cmp c, c_expect c with
  | CLe, true => a <= b
  | CLe, false => b < a
  | CLt, true => a < b
  | CLt, false => b <= a
  end.

Fixpoint condsR (env : list R) (cs : list cond) : Prop :=
  match cs with
  | [] => True
  | c :: r => condR env c /\ condsR env r
  end.

Inductive rres := RRet (l : list R) | RNone | RRaise.

Definition outR (env : list R) (o : outcome) : rres :=
  match o with
  | ORet l => RRet (map (fun i => nth i env 0) l)
  | ONone => RNone
  | ORaise => RRaise
  end.

Definition envR (t : traced) (args : list R) (coef : nat -> R) : list R :=
  evalR (fun i => nth i args 0) coef (t_nodes t).

Fixpoint some_pathR (env : list R) (ps : list path) (r : rres) : Prop :=
  match ps with
  | [] => False
  | p :: q => (condsR env (p_conds p) /\ outR env (p_out p) = r) \/ some_pathR env q r
  end.

Definition runsR (t : traced) (args : list R) (coef : nat -> R) (r : rres) : Prop :=
  some_pathR (envR t args coef) (t_paths t) r.

(** coefficient lists as functions *)
Definition coefR (l : list Q) (k : nat) : R := Q2R (nth k l 0%Q).

(** a condition and its recorded opposite never hold together *)
Lemma condR_flip env c a b e :
  condR env {| c_cmp := c; c_a := a; c_b := b; c_expect := e |} ->
  condR env {| c_cmp := c; c_a := a; c_b := b; c_expect := negb e |} -> False.
Proof. destruct c, e; unfold condR; cbn; lra. Qed.

(** evaluation of a DAG in two pieces *)
Lemma eval_nodes_app {A : Type} (dflt : A) cst add sub mul div neg sq ex var coef (a b : list node) (env : list A) :
  eval_nodes dflt cst add sub mul div neg sq ex var coef env (a ++ b)
  = eval_nodes dflt cst add sub mul div neg sq ex var coef (eval_nodes dflt cst add sub mul div neg sq ex var coef env a) b.
Proof. revert env. induction a as [|x a IH]; intros env; cbn [app eval_nodes]; [reflexivity|apply IH]. Qed.
