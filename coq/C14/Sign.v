(** C14/C15 -- a positivity analysis on traced DAGs, sound over R.

    [sign_nodes assumed [] ns] marks the nodes that are certainly > 0 given that the nodes at the
    (final-environment) positions in [assumed] are > 0: positive literals, sums / products /
    quotients of positive nodes, sqrt of a positive node, exp of anything, cuts of positive
    nodes. *)
From Coq Require Import ZArith QArith Qreals Reals List Bool Lia Lra.
From P Require Import Expr.
Import ListNotations.
Close Scope Q_scope.
Open Scope R_scope.

Definition qpos (q : Q) : bool := negb (Qle_bool q 0).

Lemma qpos_sound q : qpos q = true -> 0 < Q2R q.
Proof.
  unfold qpos. intros H. apply negb_true_iff in H.
  destruct (Qlt_le_dec 0 q) as [L|L].
  - replace 0 with (Q2R 0) by (unfold Q2R; cbn; lra). apply Qlt_Rlt. exact L.
  - apply Qle_bool_iff in L. congruence.
Qed.

Section Sign.
  Variable assumed : list nat.

  Definition spos (signs : list bool) (n : node) : bool :=
    let g d := nth d signs false in
    match n with
    | NConst q _ => qpos q
    | NVar _ | NCoef _ | NSub _ _ | NNeg _ => false
    | NAdd a b | NMul a b | NDiv a b => g a && g b
    | NSqrt a => g a
    | NExp _ => true
    | NCut _ a => g a
    end.

  Fixpoint sign_nodes (signs : list bool) (ns : list node) : list bool :=
    match ns with
    | [] => signs
    | n :: r => sign_nodes ((existsb (Nat.eqb (length r)) assumed || spos signs n) :: signs) r
    end.

  Variables var coef : nat -> R.
  Notation ev := (eval_nodes 0 (fun q _ => Q2R q) Rplus Rminus Rmult Rdiv Ropp sqrt exp var coef).
  Notation ev1 := (eval_node 0 (fun q _ => Q2R q) Rplus Rminus Rmult Rdiv Ropp sqrt exp var coef).

  (** older entries keep their value, shifted by the number of new nodes *)
  Lemma ev_old ns : forall env d, nth (length ns + d) (ev env ns) 0 = nth d env 0.
  Proof.
    induction ns as [|n r IH]; intros env d; cbn [eval_nodes length]; [reflexivity|].
    replace (S (length r) + d)%nat with (length r + S d)%nat by lia. rewrite IH. reflexivity.
  Qed.

  Definition sound_at (signs : list bool) (env : list R) : Prop :=
    forall d, nth d signs false = true -> 0 < nth d env 0.

  Lemma spos_sound signs env n : sound_at signs env -> spos signs n = true -> 0 < ev1 env n.
  Proof.
    intros H. destruct n as [q f|i|k|a b|a b|a b|a b|a|a|a|atom a]; cbn [spos eval_node]; unfold get; try discriminate.
    - apply qpos_sound.
    - intros E. apply andb_true_iff in E as [E1 E2]. apply Rplus_lt_0_compat; apply H; assumption.
    - intros E. apply andb_true_iff in E as [E1 E2]. apply Rmult_lt_0_compat; apply H; assumption.
    - intros E. apply andb_true_iff in E as [E1 E2]. apply Rdiv_lt_0_compat; apply H; assumption.
    - intros E. apply sqrt_lt_R0. apply H. exact E.
    - intros _. apply exp_pos.
    - intros E. apply H. exact E.
  Qed.

  Theorem sign_sound ns0 :
    (forall pos, In pos assumed -> 0 < nth pos (ev [] ns0) 0) ->
    forall d, nth d (sign_nodes [] ns0) false = true -> 0 < nth d (ev [] ns0) 0.
  Proof.
    intros Hass.
    assert (G : forall ns signs env, ev env ns = ev [] ns0 -> sound_at signs env ->
                sound_at (sign_nodes signs ns) (ev env ns)).
    { induction ns as [|n r IH]; intros signs env Hfin Hs; cbn [sign_nodes eval_nodes] in *; [exact Hs|].
      apply IH; [exact Hfin|]. intros [|d]; cbn [nth].
      - intros E. apply orb_true_iff in E as [E|E].
        + apply existsb_exists in E as [pos [Hin Heq]]. apply Nat.eqb_eq in Heq. subst pos.
          specialize (Hass _ Hin). rewrite <- Hfin in Hass.
          rewrite <- (Nat.add_0_r (length r)) in Hass. rewrite ev_old in Hass. exact Hass.
        + apply spos_sound with (signs := signs); assumption.
      - apply Hs. }
    intros d Hd. apply (G ns0 [] [] eq_refl); [|exact Hd].
    intros [|k] E; cbn in E; discriminate.
  Qed.
End Sign.

(** final-environment positions of the cut nodes: (atom, position) *)
Fixpoint cut_positions (ns : list node) : list (nat * nat) :=
  match ns with
  | [] => []
  | NCut atom _ :: r => (atom, length r) :: cut_positions r
  | _ :: r => cut_positions r
  end.
Definition cut_pos (ns : list node) (atom : nat) : nat :=
  match find (fun ap => Nat.eqb (fst ap) atom) (cut_positions ns) with
  | Some ap => snd ap
  | None => length ns          (* out of range: reads the default *)
  end.
