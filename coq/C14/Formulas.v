(** C14 -- closed formulas of the IF97 region-4 (saturation) and B23 equations, written in the
    operation order of IAPWS97.sat / tsat / b23p / b23t, for arbitrary real coefficients [n].
    Definitions only: SatInv.v / B23.v prove that the DAGs traced from the current source compute
    exactly these; Region.v states the classifier in terms of them. *)
From Coq Require Import ZArith QArith Qreals Reals List Bool Lra.
From Gen Require Import GenIAPWS GenTraced.
From P Require Import Expr RunR.
Import ListNotations.
Close Scope Q_scope.
Open Scope R_scope.

Lemma Q2R_c0 : Q2R (0 # 1) = 0. Proof. unfold Q2R; cbn; lra. Qed.
Lemma Q2R_c2 : Q2R (2 # 1) = 2. Proof. unfold Q2R; cbn; lra. Qed.
Lemma Q2R_c4 : Q2R (4 # 1) = 4. Proof. unfold Q2R; cbn; lra. Qed.

Definition p_611_213_Q : Q := (2688143202191409 # 4398046511104)%Q.   (* the double 611.213 *)
(** the upper limit of tsat's range test, read off the traced DAG (third node: the constant the
    argument is compared with): pcritical in the source as it stands *)
Definition tsat_upper_Q : Q := match nth 2 tsat_nodes (NVar 0) with NConst q _ => q | _ => 0%Q end.

Section Sat.
  Variable n : nat -> R.

  (** in the operation order of IAPWS97.sat *)
  Definition theta_of (tk : R) : R := tk + n 8 / (tk - n 9).
  Definition qA (th : R) : R := th * th + n 0 * th + n 1.
  Definition qB (th : R) : R := n 2 * (th * th) + n 3 * th + n 4.
  Definition qC (th : R) : R := n 5 * (th * th) + n 6 * th + n 7.
  Definition disc1 (th : R) : R := qB th * qB th - 4 * qA th * qC th.
  Definition den1 (th : R) : R := - qB th + sqrt (disc1 th).
  Definition beta_of (th : R) : R := 2 * qC th / den1 th.
  Definition sat_val (tk : R) : R :=
    let x := beta_of (theta_of tk) in Q2R pstar4_Q * (x * x) * (x * x).

  (** in the operation order of IAPWS97.tsat *)
  Definition qE (b2 b : R) : R := b2 + n 2 * b + n 5.
  Definition qF (b2 b : R) : R := n 0 * b2 + n 3 * b + n 6.
  Definition qG (b2 b : R) : R := n 1 * b2 + n 4 * b + n 7.
  Definition disc2 (b2 b : R) : R := qF b2 b * qF b2 b - 4 * qE b2 b * qG b2 b.
  Definition den2 (b2 b : R) : R := - qF b2 b - sqrt (disc2 b2 b).
  Definition dd_of (b2 b : R) : R := 2 * qG b2 b / den2 b2 b.
  Definition disc3 (d : R) : R := (n 9 + d) * (n 9 + d) - 4 * (n 8 + n 9 * d).
  Definition tk_of (d : R) : R := Q2R (1 # 2) * (n 9 + d - sqrt (disc3 d)).
  Definition tsat_val (p : R) : R :=
    let b2 := sqrt (p / Q2R pstar4_Q) in
    let b := sqrt b2 in
    tk_of (dd_of b2 b) - Q2R tc_k_Q.

End Sat.

Definition c1e6 : Q := (1000000 # 1)%Q.

Section B23.
  Variable n : nat -> R.
  (** in the operation order of IAPWS97.b23p / b23t *)
  Definition b23p_val (tk : R) : R := Q2R c1e6 * (n 0 + tk * (n 1 + tk * n 2)).
  Definition b23t_q (p : R) : R := (p / Q2R c1e6 - n 4) / n 2.
  Definition b23t_val (p : R) : R := n 3 + sqrt (b23t_q p) - Q2R tc_k_Q.

End B23.
