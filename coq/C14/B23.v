(** C14 -- the region 2/3 boundary: [b23p] and [b23t] as traced from the current source.

    IF97 publishes the two forms with independently rounded coefficients, so over R they are NOT
    exact inverses of each other (theorem [b23_exact_inverse_refuted_over_R]); what holds, and is
    proved here for the coefficients of the source on the whole boundary 350..590 degC, is
        b23t(b23p(t)) - t  in (0, 2e-10] K        and     |b23p(b23t(p)) - p| <= 3e-5 Pa.
    The algebra (for arbitrary real coefficients with n2 <> 0):
        b23t(b23p(t)) - t = (a tk + b) / (sqrt q + (tk - n3)),   a = n1/n2 + 2 n3,  b = (n0 - n4)/n2 - n3^2
        b23p(b23t(p)) - p = 1e6 (c0 + c1 s),  s = sqrt((p/1e6 - n4)/n2), c0 = n0 + n1 n3 + n2 n3^2 - n4, c1 = n1 + 2 n2 n3
    and the residual coefficients a, b, c0, c1 are bounded by interval arithmetic at 120 bits. *)
From Coq Require Import ZArith QArith Qreals Reals List Bool Lra.
From Interval Require Import Tactic.
From Gen Require Import GenIAPWS GenTraced.
From P Require Import Expr RunR Formulas.
Import ListNotations.
Close Scope Q_scope.
Open Scope R_scope.

Section Traced.
  Variable n : nat -> R.

  Lemma b23p_traced_is (t : R) (r : rres) :
    runsR b23p_traced [t] n r <-> r = RRet [(b23p_val n) (t + Q2R tc_k_Q)].
  Proof.
    unfold runsR, envR.
    cbv [b23p_traced t_paths t_nodes some_pathR condsR condR p_conds p_out outR map].
    cbv [evalR eval_nodes eval_node get nth b23p_nodes].
    cbv [b23p_val tc_k_Q c1e6].
    split; [intros [[_ E]|[]]; symmetry; exact E|intros ->; left; split; [exact I|reflexivity]].
  Qed.

  Lemma b23t_traced_is (p : R) (r : rres) :
    runsR b23t_traced [p] n r <-> r = RRet [(b23t_val n) p].
  Proof.
    unfold runsR, envR.
    cbv [b23t_traced t_paths t_nodes some_pathR condsR condR p_conds p_out outR map].
    cbv [evalR eval_nodes eval_node get nth b23t_nodes].
    cbv [b23t_val b23t_q tc_k_Q c1e6].
    split; [intros [[_ E]|[]]; symmetry; exact E|intros ->; left; split; [exact I|reflexivity]].
  Qed.

  (** residual coefficients *)
  Definition res_a : R := n 1 / n 2 + 2 * n 3.
  Definition res_b : R := (n 0 - n 4) / n 2 - n 3 * n 3.
  Definition res_c0 : R := n 0 + n 1 * n 3 + n 2 * (n 3 * n 3) - n 4.
  Definition res_c1 : R := n 1 + 2 * n 2 * n 3.

  Lemma c1e6_nz : Q2R c1e6 <> 0.
  Proof. unfold Q2R, c1e6; cbn; lra. Qed.

  Lemma b23t_of_b23p_algebra (tk : R) :
    n 2 <> 0 -> 0 < tk - n 3 -> 0 <= (b23t_q n) ((b23p_val n) tk) ->
    (b23t_val n) ((b23p_val n) tk) - (tk - Q2R tc_k_Q)
    = (res_a * tk + res_b) / (sqrt ((b23t_q n) ((b23p_val n) tk)) + (tk - n 3)).
  Proof.
    intros H2 Hr Hq. unfold b23t_val.
    set (q := (b23t_q n) ((b23p_val n) tk)) in *.
    assert (E : q - (tk - n 3) * (tk - n 3) = res_a * tk + res_b).
    { unfold q, b23t_q, b23p_val, res_a, res_b. field. split; [exact H2|exact c1e6_nz]. }
    assert (Hs : sqrt q * sqrt q = q) by (apply sqrt_sqrt; exact Hq).
    assert (Hp : 0 <= sqrt q) by apply sqrt_pos.
    rewrite <- E. set (s := sqrt q) in *. clearbody s. rewrite <- Hs. field. lra.
  Qed.

  Lemma b23p_of_b23t_algebra (p : R) :
    n 2 <> 0 -> 0 <= (b23t_q n) p ->
    (b23p_val n) ((b23t_val n) p + Q2R tc_k_Q) - p = Q2R c1e6 * (res_c0 + res_c1 * sqrt ((b23t_q n) p)).
  Proof.
    intros H2 Hq. unfold b23t_val, b23p_val.
    set (s := sqrt ((b23t_q n) p)).
    assert (Hs : s * s = (b23t_q n) p) by (apply sqrt_sqrt; exact Hq).
    replace (n 3 + s - Q2R tc_k_Q + Q2R tc_k_Q) with (n 3 + s) by ring.
    assert (Ep : p = Q2R c1e6 * (n 2 * (s * s) + n 4)).
    { rewrite Hs. unfold b23t_q. field. split; [exact c1e6_nz|exact H2]. }
    clear Hs. clearbody s. rewrite Ep. unfold res_c0, res_c1. ring.
  Qed.
End Traced.

(** ** the coefficients of the source *)
Definition n23 : nat -> R := coefR nr23_Q.
Ltac expose23 :=
  cbv [b23p_val b23t_q b23t_val res_a res_b res_c0 res_c1 n23 coefR nth nr23_Q c1e6 tc_k_Q];
  unfold Q2R; cbn [Qnum Qden].

Lemma n23_2_nz : n23 2 <> 0.
Proof. expose23. interval. Qed.

Lemma tk_range t : 350 <= t <= 590 -> 62314/100 <= t + Q2R tc_k_Q <= 86316/100.
Proof. intros H. unfold Q2R, tc_k_Q; cbn [Qnum Qden]. lra. Qed.

Lemma b23_q_pos tk : 62314/100 <= tk <= 86316/100 -> 2500 <= b23t_q n23 (b23p_val n23 tk).
Proof. intros H. expose23. interval with (i_bisect tk, i_depth 12). Qed.

Lemma b23_res_bounds tk : 62314/100 <= tk <= 86316/100 ->
  0 < (res_a n23 * tk + res_b n23) / (sqrt (b23t_q n23 (b23p_val n23 tk)) + (tk - n23 3)) <= 2 / 10000000000.
Proof.
  intros H. split.
  - expose23. interval with (i_prec 120).
  - expose23. interval with (i_prec 120, i_bisect tk, i_depth 12).
Qed.

Lemma b23_r_pos tk : 62314/100 <= tk -> 0 < tk - n23 3.
Proof. intros H. expose23. lra. Qed.

(** b23t(b23p(t)) - t lies in (0, 2e-10] for every t in 350..590 *)
Theorem b23t_of_b23p_close (t : R) : 350 <= t <= 590 ->
  0 < b23t_val n23 (b23p_val n23 (t + Q2R tc_k_Q)) - t <= 2 / 10000000000.
Proof.
  intros H. pose proof (tk_range t H) as Hk. set (tk := t + Q2R tc_k_Q) in *.
  assert (Et : t = tk - Q2R tc_k_Q) by (unfold tk; ring).
  rewrite Et at 1 2. clearbody tk.
  rewrite b23t_of_b23p_algebra.
  - apply b23_res_bounds. exact Hk.
  - exact n23_2_nz.
  - apply b23_r_pos. lra.
  - pose proof (b23_q_pos tk Hk). lra.
Qed.

(** hence the two published forms are not exact inverses over R *)
Theorem b23_not_exact_proof : exists t, 350 <= t <= 590 /\ b23t_val n23 (b23p_val n23 (t + Q2R tc_k_Q)) <> t.
Proof. exists 400. split; [lra|]. pose proof (b23t_of_b23p_close 400 ltac:(lra)). lra. Qed.

(** the other direction, on the pressures of the boundary: b23p(350) .. 100 MPa *)
Lemma b23_s_bounds p : 16500000 <= p <= 100000000 -> 2500 <= b23t_q n23 p <= 85000.
Proof. intros H. expose23. interval. Qed.

Theorem b23p_of_b23t_close (p : R) : 16500000 <= p <= 100000000 ->
  Rabs (b23p_val n23 (b23t_val n23 p + Q2R tc_k_Q) - p) <= 3 / 100000.
Proof.
  intros H. pose proof (b23_s_bounds p H) as Hq.
  rewrite b23p_of_b23t_algebra; [|exact n23_2_nz|lra].
  set (q := b23t_q n23 p) in *.
  assert (Hs : 50 <= sqrt q <= 292).
  { split.
    - replace 50 with (sqrt (50 * 50)) by (rewrite sqrt_square; lra). apply sqrt_le_1_alt. lra.
    - replace 292 with (sqrt (292 * 292)) by (rewrite sqrt_square; lra). apply sqrt_le_1_alt. lra. }
  set (s := sqrt q) in *. clearbody s. clear Hq. clearbody q.
  expose23. interval with (i_prec 120).
Qed.

(** the boundary pressures: b23p(350) and b23p(590) (the latter is just above 100 MPa) *)
Lemma b23p_at_350 : 16529164 <= b23p_val n23 (350 + Q2R tc_k_Q) <= 16529165.
Proof. expose23. interval with (i_prec 80). Qed.
Lemma b23p_at_590 : 100000000 < b23p_val n23 (590 + Q2R tc_k_Q) <= 100000001.
Proof. split; expose23; interval with (i_prec 120). Qed.
