(** C14 -- property theorems, part 5: the region classifier names the region whose validity range
    contains the state.  Decision logic of the traced function (all recorded paths) over R, for
    ARBITRARY coefficient values; psat / pb23 are the values the traced sat / b23p compute. *)
From Coq Require Import ZArith QArith Qreals Reals List.
From Gen Require Import GenIAPWS GenTraced.
From P Require Import Expr RunR Formulas Region.
Import ListNotations.
Close Scope Q_scope.
Open Scope R_scope.

Theorem region_names_valid_region : forall (n : nat -> R) (t p r : R),
  runsR region_traced [t; p] n (RRet [r]) ->
  (r = 1 /\ valid1 n t p) \/ (r = 2 /\ valid2 n t p) \/ (r = 3 /\ valid3 n t p).
Proof. exact region_sound. Qed.
Print Assumptions region_names_valid_region.

Theorem region_defined_on_whole_range : forall (n : nat -> R) (t p : R),
  in_range t p -> exists r, runsR region_traced [t; p] n (RRet [r]).
Proof. exact region_total. Qed.
Print Assumptions region_defined_on_whole_range.

Theorem region_none_exactly_outside : forall (n : nat -> R) (t p : R),
  runsR region_traced [t; p] n RNone <-> ~ in_range t p.
Proof. exact region_none_iff. Qed.
Print Assumptions region_none_exactly_outside.

Theorem region_does_not_raise : forall (n : nat -> R) (t p : R), ~ runsR region_traced [t; p] n RRaise.
Proof. exact region_never_raises. Qed.
Print Assumptions region_does_not_raise.

Theorem region_result_unique : forall (n : nat -> R) (t p : R) (r1 r2 : rres),
  runsR region_traced [t; p] n r1 -> runsR region_traced [t; p] n r2 -> r1 = r2.
Proof. exact region_functional. Qed.
Print Assumptions region_result_unique.
