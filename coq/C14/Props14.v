(** C14 -- property theorems, part 14 (continues part 13, the pressure form b23p): the temperature
    form b23t.  Each published form of the region 2/3 boundary, as traced from
    the current source, is STRICTLY INCREASING on the whole boundary and maps it into the other form's
    range; so each form is injective there and, with Props8/Props9 (compositions within 2e-10 K /
    3e-5 Pa of the identity), the two forms describe one curve.  The hypotheses are satisfiable at
    every argument ([b23p_defined_everywhere], [b23t_defined_everywhere]: neither function has a
    range test). *)
From Coq Require Import ZArith QArith Qreals Reals List.
From Gen Require Import GenIAPWS GenTraced.
From P Require Import Expr RunR Formulas B23 B23Mono.
Import ListNotations.
Close Scope Q_scope.
Open Scope R_scope.

Theorem b23t_strictly_increasing_on_boundary : forall p1 p2 t1 t2 : R,
  16500000 <= p1 -> p1 < p2 -> p2 <= 100000000 ->
  runsR b23t_traced [p1] n23 (RRet [t1]) -> runsR b23t_traced [p2] n23 (RRet [t2]) -> t1 < t2.
Proof. exact b23t_increasing_proof. Qed.
Print Assumptions b23t_strictly_increasing_on_boundary.

Theorem b23t_range_on_boundary : forall p t : R,
  16529165 <= p <= 100000000 -> runsR b23t_traced [p] n23 (RRet [t]) -> 350 <= t <= 590.
Proof. exact b23t_range_proof. Qed.
Print Assumptions b23t_range_on_boundary.

Theorem b23t_defined_everywhere : forall p : R, exists t, runsR b23t_traced [p] n23 (RRet [t]).
Proof. exact b23t_runs. Qed.
Print Assumptions b23t_defined_everywhere.
