(** C14 -- region 2: density rises with pressure at fixed temperature.

    supst's density is rho = p* / (R T g) with g = gamma_pi = 1/pi + sum n_k I_k pi^(I_k - 1) Y^J_k,
    pi = p/p*, Y = T*/T - 0.5 (Potential.R2.outputs: what the traced DAG computes).  With
        K(pi, Y) = sum n_k I_k pi^I_k Y^J_k            (pi g = 1 + K: the compressibility factor)
        H(pi, Y) = sum n_k I_k (I_k - 1) pi^I_k Y^J_k  (dg/dp = (H - 1) / (pi^2 p* ))
    g > 0 where K > -1 and g strictly decreases in p where H < 1 (mean value theorem, Coquelicot
    derivatives), so rho is positive and strictly increasing there.  Mono2Tiles*.v prove
    H <= 9/10 and K >= -9/10 on rectangles (interval arithmetic); Mono2Thm.v shows they cover
    region 2 and assembles the theorem. *)
From Coq Require Import ZArith QArith Qreals Reals List Bool Lra Lia.
From Coquelicot Require Import Coquelicot.
From Gen Require Import GenIAPWS GenTraced.
From P Require Import Expr RunR Deriv Potential Mono1.
Import ListNotations.
Close Scope Q_scope.
Open Scope R_scope.

Section Sums3.
  Variable n : nat -> R.
  Definition msum_px (x y : R) (l : list term3) : R :=
    fold_right (fun t acc => let '(i, j, k) := t in n k * IZR i * powerRZ x i * powerRZ y j + acc) 0 l.
  Definition msum_pxx (x y : R) (l : list term3) : R :=
    fold_right (fun t acc => let '(i, j, k) := t in n k * IZR i * IZR (i - 1) * powerRZ x i * powerRZ y j + acc) 0 l.

  Lemma msum_px_eq x y l : x <> 0 -> msum_px x y l = x * msum_dx n x y l.
  Proof.
    intros Hx. induction l as [|[[i j] k] r IH]; cbn [msum_px msum_dx fold_right]; [ring|].
    fold (msum_px x y r). fold (msum_dx n x y r). rewrite IH.
    replace i with (1 + (i - 1))%Z at 2 by lia. rewrite (powerRZ_add x 1 (i - 1) Hx). cbn [powerRZ]. simpl pow. ring.
  Qed.
  Lemma msum_pxx_eq x y l : x <> 0 -> msum_pxx x y l = x * x * msum_dxx n x y l.
  Proof.
    intros Hx. induction l as [|[[i j] k] r IH]; cbn [msum_pxx msum_dxx fold_right]; [ring|].
    fold (msum_pxx x y r). fold (msum_dxx n x y r). rewrite IH.
    replace i with (2 + (i - 2))%Z at 3 by lia. rewrite (powerRZ_add x 2 (i - 2) Hx). cbn [powerRZ]. simpl pow. ring.
  Qed.

  (** g(p) = 1/(p/s) + msum_dx (p/s) y : dg/dp = (- 1/pi^2 + msum_dxx) / s *)
  Lemma is_derive_g2 (s y p : R) (l : list term3) : s <> 0 -> p / s <> 0 ->
    is_derive (fun p' => / (p' / s) + msum_dx n (p' / s) y l) p
              ((- / ((p / s) * (p / s)) + msum_dxx n (p / s) y l) / s).
  Proof.
    intros Hs Hx.
    replace ((- / (p / s * (p / s)) + msum_dxx n (p / s) y l) / s)
      with (plus (- / s / ((p / s) * (p / s))) (scal (/ s) (msum_dxx n (p / s) y l))).
    2:{ unfold plus, scal; cbn; unfold mult; cbn. field. split; [exact Hs|]. intros E. apply Hx. unfold Rdiv. rewrite E. ring. }
    apply (is_derive_plus (fun p' => / (p' / s)) (fun p' => msum_dx n (p' / s) y l) p).
    - auto_derive; [exact Hx|]. field. split; [exact Hs|]. intros E. apply Hx. unfold Rdiv. rewrite E. ring.
    - apply (is_derive_comp (fun x' => msum_dx n x' y l) (fun p' => p' / s) p).
      + apply is_derive_msum_dx_x. exact Hx.
      + auto_derive; [exact I|]. field. exact Hs.
  Qed.

  Lemma g2_mvt (s y p1 p2 : R) (l : list term3) : 0 < s -> 0 < p1 -> p1 < p2 ->
    exists q, p1 <= q <= p2 /\
      (/ (p2 / s) + msum_dx n (p2 / s) y l) - (/ (p1 / s) + msum_dx n (p1 / s) y l)
      = (msum_pxx (q / s) y l - 1) / ((q / s) * (q / s) * s) * (p2 - p1).
  Proof.
    intros Hs Hp1 Hlt.
    assert (Hnz : forall x, p1 <= x <= p2 -> x / s <> 0).
    { intros x Hx. apply Rgt_not_eq. apply Rdiv_lt_0_compat; lra. }
    pose proof (MVT_gen (fun p' => / (p' / s) + msum_dx n (p' / s) y l) p1 p2
                  (fun q => (- / ((q / s) * (q / s)) + msum_dxx n (q / s) y l) / s)) as M.
    cbv zeta in M. rewrite Rmin_left, Rmax_right in M by lra.
    destruct M as (q & Hq & E).
    - intros x Hx. apply is_derive_g2; [lra|apply Hnz; lra].
    - intros x Hx. apply continuity_pt_filterlim.
      apply (ex_derive_continuous (fun p' => / (p' / s) + msum_dx n (p' / s) y l) x).
      eexists. apply is_derive_g2; [lra|apply Hnz; lra].
    - exists q. split; [exact Hq|]. rewrite E. f_equal.
      rewrite msum_pxx_eq by (apply Hnz; exact Hq).
      field. split; [lra|]. pose proof (Hnz q Hq) as Z. intros E0. apply Z. unfold Rdiv. rewrite E0. ring.
  Qed.
End Sums3.

(** ** the coefficients of the source *)
Definition n2 : nat -> R := coefR nr2_Q.
Definition n02 : nat -> R := coefR n0r2_Q.
Definition P2 (p : R) : R := p / Q2R pstar2_Q.
Definition Y2 (tk : R) : R := Q2R tstar2_Q / tk - Q2R c0_5.
Definition g2 (tk p : R) : R := / P2 p + msum_dx n2 (P2 p) (Y2 tk) R2.terms.     (* gamma_pi *)
Definition KK (tk p : R) : R := msum_px n2 (P2 p) (Y2 tk) R2.terms.              (* pi gamma_pi - 1 *)
Definition HH (tk p : R) : R := msum_pxx n2 (P2 p) (Y2 tk) R2.terms.             (* pi^2 gamma_pipi + 1 *)

Ltac expose2 := unfold g2, KK, HH, P2, Y2; cbv - [Rplus Rmult Rminus Rdiv Ropp Rinv IZR powerRZ Rle Rlt].
