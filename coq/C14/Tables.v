(** C14 -- finite obligations over the tables regenerated from the current IAPWS97.py
    (Gen/GenIAPWS.v: literal data by AST; Gen/GenReads.v: the slots the real functions read,
    recorded by running them with an instrumented power_array). *)
From Coq Require Import ZArith QArith List Bool Lia Reals.
From Gen Require Import GenIAPWS GenReads.
From P Require Import Chain.
Import ListNotations.
Open Scope Z_scope.

(** every multiplication-chain table of the module, in the order of [GenReads.table_names] *)
Definition all_tables : list table := [pc1; tc1; tc2; pc2; tsc2; tc3; dc3; ticv; tscv; dscv].

Definition chains_ok_b : bool := forallb chain_wf all_tables.

Lemma chains_ok_true : chains_ok_b = true.
Proof. vm_compute. reflexivity. Qed.

(** each read recorded from the real functions: (function, table number, indices read) *)
Definition read_ok (r : Z * list Z) : bool :=
  match nth_error all_tables (Z.to_nat (fst r)) with
  | Some tbl => (0 <=? fst r) && forallb (fun k => zmem k (defined tbl)) (snd r)
  | None => false
  end.

Definition used_powers_defined_b : bool :=
  forallb read_ok (cowat_reads ++ supst_reads ++ super_reads ++ visc_reads).

Lemma used_powers_defined_true : used_powers_defined_b = true.
Proof. vm_compute. reflexivity. Qed.

(** zip() truncates silently: the exponent and coefficient arrays of each sum have one length *)
Definition lengths_ok_b : bool :=
  let len {A} (l : list A) := Z.of_nat (length l) in
  (len ir1 =? len jr1) && (len ir1 =? len nr1_Q) && (len ir1 =? len nr1_F)
  && (len j0r2 =? len n0r2_Q) && (len j0r2 =? len n0r2_F)
  && (len ir2 =? len jr2) && (len ir2 =? len nr2_Q) && (len ir2 =? len nr2_F)
  && (len ir3 =? len jr3) && (len ir3 =? len nr3_Q) && (len ir3 =? len nr3_F)
  && (len ivs =? len jvs) && (len ivs =? len h1v_Q) && (len ivs =? len h1v_F)
  && (4 <=? len h0v_Q) && (10 <=? len nr4_Q) && (5 <=? len nr23_Q).

Lemma lengths_ok_true : lengths_ok_b = true.
Proof. vm_compute. reflexivity. Qed.

(** ** The statements the property file closes *)

Definition chain_tables_wf : Prop := forall tbl, In tbl all_tables -> chain_wf tbl = true.

Lemma chain_tables_wf_proof : chain_tables_wf.
Proof.
  intros tbl Hin. pose proof chains_ok_true as H. unfold chains_ok_b in H.
  rewrite forallb_forall in H. apply H. exact Hin.
Qed.

(** every chain table of the current source computes true powers: for each table, each
    non-zero real x and each defined slot k, the model of power_array holds x^k there *)
Definition power_arrays_correct : Prop :=
  forall tbl, In tbl all_tables -> forall x : R, x <> 0%R ->
  exists a, power_array_model 0%R 1%R Rmult Rdiv x tbl = Some a /\
            forall k, In k (defined tbl) -> rd a k = Some (powerRZ x k).

Lemma power_arrays_correct_proof : power_arrays_correct.
Proof.
  intros tbl Hin x Hx. apply power_array_correct; [apply chain_tables_wf_proof; exact Hin | exact Hx].
Qed.

(** every slot any of cowat / supst / super / visc reads from a power array is a defined slot
    of the table that array was built from (so no sum ever reads a zero-initialised slot) *)
Definition used_powers_defined : Prop :=
  forall r, In r (cowat_reads ++ supst_reads ++ super_reads ++ visc_reads) ->
  exists tbl, nth_error all_tables (Z.to_nat (fst r)) = Some tbl /\
              forall k, In k (snd r) -> In k (defined tbl).

Lemma used_powers_defined_proof : used_powers_defined.
Proof.
  intros r Hin. pose proof used_powers_defined_true as H. unfold used_powers_defined_b in H.
  rewrite forallb_forall in H. specialize (H r Hin). unfold read_ok in H.
  destruct (nth_error all_tables (Z.to_nat (fst r))) as [tbl|]; [|discriminate].
  exists tbl. split; [reflexivity|]. apply andb_true_iff in H as [_ H].
  rewrite forallb_forall in H. intros k Hk. specialize (H k Hk).
  unfold zmem in H. rewrite existsb_exists in H. destruct H as [y [Hy E]].
  apply Z.eqb_eq in E. subst. exact Hy.
Qed.

(** non-vacuity: the tables and the recorded reads are not empty *)
Example tables_nontrivial :
  forallb (fun t : table => (2 <=? length t)%nat) all_tables = true /\
  (length (cowat_reads ++ supst_reads ++ super_reads ++ visc_reads) >= 10)%nat /\
  forallb (fun r : Z * list Z => (5 <=? length (snd r))%nat) (cowat_reads ++ supst_reads ++ super_reads ++ visc_reads) = true.
Proof. vm_compute. repeat split; auto 20. Qed.
