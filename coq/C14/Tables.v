(** C14 -- statements of the finite obligations over the tables regenerated from the current IAPWS97.py
    (Gen/GenIAPWS.v: literal data by AST; Gen/GenReads.v: the slots the real functions read,
    recorded by running them with an instrumented power_array).
    Definitions only: the obligations are discharged in TablesOk.v, so that a table that breaks
    one of them does not take the definitions (used by the correspondence case files) down. *)
From Coq Require Import ZArith QArith Qabs List Bool Lia Reals.
From Gen Require Import GenIAPWS GenReads.
From P Require Import Chain SpecTables.
Import ListNotations.
Open Scope Z_scope.

(** every multiplication-chain table of the module, in the order of [GenReads.table_names] *)
Definition all_tables : list table := [pc1; tc1; tc2; pc2; tsc2; tc3; dc3; ticv; tscv; dscv].

Definition chains_ok_b : bool := forallb chain_wf all_tables.


(** each read recorded from the real functions: (function, table number, indices read) *)
Definition read_ok (r : Z * list Z) : bool :=
  match nth_error all_tables (Z.to_nat (fst r)) with
  | Some tbl => (0 <=? fst r) && forallb (fun k => zmem k (defined tbl)) (snd r)
  | None => false
  end.

Definition used_powers_defined_b : bool :=
  forallb read_ok (cowat_reads ++ supst_reads ++ super_reads ++ visc_reads).


(** zip() truncates silently: the exponent and coefficient arrays of each sum have one length *)
Definition lengths_ok_b : bool :=
  let len {A} (l : list A) := Z.of_nat (length l) in
  (len ir1 =? len jr1) && (len ir1 =? len nr1_Q) && (len ir1 =? len nr1_F)
  && (len j0r2 =? len n0r2_Q) && (len j0r2 =? len n0r2_F)
  && (len ir2 =? len jr2) && (len ir2 =? len nr2_Q) && (len ir2 =? len nr2_F)
  && (len ir3 =? len jr3) && (len ir3 =? len nr3_Q) && (len ir3 =? len nr3_F)
  && (len ivs =? len jvs) && (len ivs =? len h1v_Q) && (len ivs =? len h1v_F)
  && (4 <=? len h0v_Q) && (10 <=? len nr4_Q) && (5 <=? len nr23_Q).


(** ** The statements the property file closes *)

Definition chain_tables_wf : Prop := forall tbl, In tbl all_tables -> chain_wf tbl = true.


(** every chain table of the current source computes true powers: for each table, each
    non-zero real x and each defined slot k, the model of power_array holds x^k there *)
Definition power_arrays_correct : Prop :=
  forall tbl, In tbl all_tables -> forall x : R, x <> 0%R ->
  exists a, power_array_model 0%R 1%R Rmult Rdiv x tbl = Some a /\
            forall k, In k (defined tbl) -> rd a k = Some (powerRZ x k).


(** every slot any of cowat / supst / super / visc reads from a power array is a defined slot
    of the table that array was built from (so no sum ever reads a zero-initialised slot) *)
Definition used_powers_defined : Prop :=
  forall r, In r (cowat_reads ++ supst_reads ++ super_reads ++ visc_reads) ->
  exists tbl, nth_error all_tables (Z.to_nat (fst r)) = Some tbl /\
              forall k, In k (snd r) -> In k (defined tbl).



(** ** Coefficients and exponents against the reference snapshot (SpecTables.v) *)
(** the double is the one nearest to the reference decimal: relative distance <= 2^-53 *)
Definition near_ref (g r : Q) : bool := Qle_bool (Qabs (g - r)) (Qabs r * (1 # 9007199254740992))%Q.
Fixpoint all2 {A B} (f : A -> B -> bool) (a : list A) (b : list B) : bool :=
  match a, b with
  | [], [] => true
  | x :: a', y :: b' => f x y && all2 f a' b'
  | _, _ => false
  end.
Definition tables_match_reference_b : bool :=
  all2 near_ref nr1_Q ref_nr1 && all2 near_ref n0r2_Q ref_n0r2 && all2 near_ref nr2_Q ref_nr2
  && all2 near_ref nr3_Q ref_nr3 && all2 near_ref nr4_Q ref_nr4 && all2 near_ref nr23_Q ref_nr23
  && all2 near_ref h0v_Q ref_h0v && all2 near_ref h1v_Q ref_h1v
  && all2 Z.eqb ir1 ref_ir1 && all2 Z.eqb jr1 ref_jr1 && all2 Z.eqb j0r2 ref_j0r2
  && all2 Z.eqb ir2 ref_ir2 && all2 Z.eqb jr2 ref_jr2 && all2 Z.eqb ir3 ref_ir3 && all2 Z.eqb jr3 ref_jr3
  && all2 Z.eqb ivs ref_ivs && all2 Z.eqb jvs ref_jvs
  && all2 near_ref [rconst_Q; tc_k_Q; tcriticalk_Q; dcritical_Q; pcritical_Q; pstar1_Q; tstar1_Q; pstar2_Q; tstar2_Q; pstar4_Q; mustar_Q;
                    dstar3_Q; tstar3_Q]
                   [ref_rconst; ref_tc_k; ref_tcriticalk; ref_dcritical; ref_pcritical; ref_pstar1; ref_tstar1; ref_pstar2; ref_tstar2; ref_pstar4; ref_mustar;
                    ref_dcritical; ref_tcriticalk].

(** which array departs (for the failure report) *)
Definition reference_mismatches : list nat :=
  let chk (k : nat) (b : bool) := if b then [] else [k] in
  chk 1%nat (all2 near_ref nr1_Q ref_nr1) ++ chk 2%nat (all2 near_ref n0r2_Q ref_n0r2) ++ chk 3%nat (all2 near_ref nr2_Q ref_nr2)
  ++ chk 4%nat (all2 near_ref nr3_Q ref_nr3) ++ chk 5%nat (all2 near_ref nr4_Q ref_nr4) ++ chk 6%nat (all2 near_ref nr23_Q ref_nr23)
  ++ chk 7%nat (all2 near_ref h0v_Q ref_h0v) ++ chk 8%nat (all2 near_ref h1v_Q ref_h1v)
  ++ chk 11%nat (all2 Z.eqb ir1 ref_ir1 && all2 Z.eqb jr1 ref_jr1)
  ++ chk 12%nat (all2 Z.eqb j0r2 ref_j0r2 && all2 Z.eqb ir2 ref_ir2 && all2 Z.eqb jr2 ref_jr2)
  ++ chk 13%nat (all2 Z.eqb ir3 ref_ir3 && all2 Z.eqb jr3 ref_jr3)
  ++ chk 14%nat (all2 Z.eqb ivs ref_ivs && all2 Z.eqb jvs ref_jvs).
