(** C14 -- end points of the saturation line and of the B23 boundary, by bit-exact PrimFloat
    evaluation of the DAGs traced from the current source ([runF]: the double computation the
    Python functions perform; + - * / sqrt and comparisons are IEEE-754 on both sides). *)
From Coq Require Import ZArith QArith List Bool PrimFloat.
From Gen Require Import GenIAPWS GenTraced.
From P Require Import Expr.
Import ListNotations.
Close Scope Q_scope.
Open Scope float_scope.
Set Warnings "-inexact-float".

Definition sat_F (t : float) : fres := runF sat_traced sat_coefs_F [t].
Definition tsat_F (p : float) : fres := runF tsat_traced tsat_coefs_F [p].
Definition b23p_F (t : float) : fres := runF b23p_traced b23p_coefs_F [t].
Definition b23t_F (p : float) : fres := runF b23t_traced b23t_coefs_F [p].

Definition t_triple : float := 0x1.47ae147ae147bp-7.      (* the double 0.01 *)
Definition tol_1e9 : float := 1e-9.
Definition tol_1e8 : float := 1e-8.
Definition p_611_213 : float := 611.213.
Definition t_350 : float := 350.
Definition t_590 : float := 590.

(** f then g on one double; [None] when either returns None / raises *)
Definition then_F (f g : float -> fres) (x : float) : option float :=
  match f x with
  | FRet [y] => match g y with FRet [z] => Some z | _ => None end
  | _ => None
  end.
Definition close_abs (x y tol : float) : bool := PrimFloat.leb (PrimFloat.abs (x - y)) tol.
Definition close_rel (x y tol : float) : bool := PrimFloat.leb (PrimFloat.abs (x - y)) (tol * PrimFloat.abs y).
Definition inverse_within (f g : float -> fres) (x tol : float) (rel : bool) : bool :=
  match then_F f g x with
  | Some z => if rel then close_rel z x tol else close_abs z x tol
  | None => false
  end.

(** lower end point of the saturation line: tsat(sat(0.01)) is defined and within 1e-9 K *)
Lemma sat_lower_endpoint : inverse_within sat_F tsat_F t_triple tol_1e9 false = true.
Proof. vm_compute. reflexivity. Qed.

(** upper end point, pressure side: sat(tsat(pcritical)) is defined and within 1e-9 relative *)
Lemma tsat_upper_endpoint_p : inverse_within tsat_F sat_F pcritical_F tol_1e9 true = true.
Proof. vm_compute. reflexivity. Qed.

(** lower end point, pressure side (611.213 Pa, the documented lower limit of tsat) *)
Lemma tsat_lower_endpoint_p : inverse_within tsat_F sat_F p_611_213 tol_1e9 true = true.
Proof. vm_compute. reflexivity. Qed.

(** B23 end points: 350 and 590 degC *)
Lemma b23_endpoint_350 : inverse_within b23p_F b23t_F t_350 tol_1e8 false = true.
Proof. vm_compute. reflexivity. Qed.
Lemma b23_endpoint_590 : inverse_within b23p_F b23t_F t_590 tol_1e8 false = true.
Proof. vm_compute. reflexivity. Qed.

Definition sat_tsat_defined_at (t : float) : Prop := exists z, then_F sat_F tsat_F t = Some z.

(** non-vacuity of the inverse clause away from the finding: an interior double *)
Example sat_tsat_interior : inverse_within sat_F tsat_F 100 1e-9 false = true /\ inverse_within sat_F tsat_F 373.9 1e-9 false = true.
Proof. split; vm_compute; reflexivity. Qed.

Lemma literals_consistent_proof :
  forallb consts_consistent [cowat_nodes; supst_nodes; super_nodes; sat_nodes; tsat_nodes; b23p_nodes; b23t_nodes; region_nodes; visc_nodes] = true.
Proof. vm_compute. reflexivity. Qed.
