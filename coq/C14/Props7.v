(** C14 -- property theorems, part 7: the saturation line, the B23 boundary and the viscosity as
    theorems over R about the functions traced from the current source ([runsR]: values AND range
    tests).  Those that depend on the coefficient values of the source use interval arithmetic
    (Coq-Interval: Flocq / Coquelicot, primitive floats and 63-bit integers -- see the
    Print Assumptions output). *)
From Coq Require Import ZArith QArith Qreals Reals List.
From Gen Require Import GenIAPWS GenTraced.
From P Require Import Expr RunR Formulas SatInv SatRange.
Import ListNotations.
Close Scope Q_scope.
Open Scope R_scope.

(** the other composition: the whole closed pressure interval, both end points included *)
Theorem sat_tsat_inverse : forall p : R, Q2R p_611_213_Q <= p <= Q2R pcritical_Q ->
  exists t, runsR tsat_traced [p] n4 (RRet [t]) /\ runsR sat_traced [t] n4 (RRet [p]).
Proof. exact sat_tsat_inverse_proof. Qed.
Print Assumptions sat_tsat_inverse.
