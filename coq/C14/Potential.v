(** C14 -- "density and energy come from one potential".

    For each of cowat / supst / super:
      1. the canonical potential (gamma_1, gamma_2, phi_3 of IAPWS-IF97) is built from the
         arrays regenerated from the source (GenIAPWS: exponents; coefficients are arbitrary
         reals [n k], so the statement is about the structure of the code);
      2. the expected summary of the traced function -- a Laurent polynomial for every cut atom
         and for the two outputs -- is written once as structured expressions ([pexp]) whose
         sums are the *termwise derivative sums* of the canonical potential;
      3. [check_dag] (vm_compute) confirms that the DAG traced from the current source
         normalises to exactly that summary; [check_sound] turns this into an equation over R;
      4. Deriv.v proves the termwise derivative sums are the partial derivatives (Coquelicot
         [Derive]) of the canonical potential.
    The theorems hold for all real arguments for which the cut atoms (kelvin temperature, the
    power_array arguments, the divisor R T gamma_pi) are non-zero. *)
From Coq Require Import ZArith QArith Qreals Reals List Bool Lia Lra.
From Coquelicot Require Import Coquelicot.
From Gen Require Import GenIAPWS GenTraced.
From P Require Import Expr Laurent Deriv.
Import ListNotations.
Close Scope Q_scope.
Open Scope R_scope.

(** literals of the function bodies, as the doubles Python reads them *)
Definition c7_1 : Q := (3996944669291315 # 562949953421312)%Q.       (* the double 7.1 *)
Definition c1_222 : Q := (2751699372323373 # 2251799813685248)%Q.    (* the double 1.222 *)
Definition c0_5 : Q := (1 # 2)%Q.

(** outputs of the value-returning path of a traced function *)
Definition ret_outs (t : traced) : list nat :=
  match filter (fun p => match p_out p with ORet _ => true | _ => false end) (t_paths t) with
  | [p] => match p_out p with ORet l => l | _ => [] end
  | _ => []
  end.
Definition outsR (t : traced) (args : list R) (coef : nat -> R) : list R :=
  let env := evalR (fun i => nth i args 0) coef (t_nodes t) in
  map (fun i => nth i env 0) (ret_outs t).

Definition terms_of (I J : list Z) : list term3 := combine (combine I J) (seq 0 (length I)).

(** generic summands, in the factor order of the code *)
Definition tm_dx (iX iY : nat) (cf : nat -> nat) (t : term3) : pexp :=
  let '(i, j, k) := t in PMul (PMul (PMul (PA (cf k)) (PC (inject_Z i))) (PP iX (i - 1))) (PP iY j).
Definition tm_dy (iX iY : nat) (cf : nat -> nat) (t : term3) : pexp :=
  let '(i, j, k) := t in PMul (PMul (PMul (PA (cf k)) (PP iX i)) (PC (inject_Z j))) (PP iY (j - 1)).
Definition tm1_dy (iY : nat) (cf : nat -> nat) (t : Z * nat) : pexp :=
  let '(j, k) := t in PMul (PMul (PA (cf k)) (PC (inject_Z j))) (PP iY (j - 1)).

Section SumLemmas.
  Variable rho : nat -> R.
  Lemma rden_sum_dx iX iY cf l :
    rden rho (psum (map (tm_dx iX iY cf) l)) = msum_dx (fun k => rho (cf k)) (rho iX) (rho iY) l.
  Proof.
    rewrite rden_psum. induction l as [|[[i j] k] r IH]; cbn [map fold_right msum_dx]; [reflexivity|].
    fold (msum_dx (fun k => rho (cf k)) (rho iX) (rho iY) r). rewrite IH.
    cbn [tm_dx rden]. rewrite Q2R_inject_Z. reflexivity.
  Qed.
  Lemma rden_sum_dy iX iY cf l :
    rden rho (psum (map (tm_dy iX iY cf) l)) = msum_dy (fun k => rho (cf k)) (rho iX) (rho iY) l.
  Proof.
    rewrite rden_psum. induction l as [|[[i j] k] r IH]; cbn [map fold_right msum_dy]; [reflexivity|].
    fold (msum_dy (fun k => rho (cf k)) (rho iX) (rho iY) r). rewrite IH.
    cbn [tm_dy rden]. rewrite Q2R_inject_Z. reflexivity.
  Qed.
  Lemma rden_sum1_dy iY cf l :
    rden rho (psum (map (tm1_dy iY cf) l)) = msum1_dy (fun k => rho (cf k)) (rho iY) l.
  Proof.
    rewrite rden_psum. induction l as [|[j k] r IH]; cbn [map fold_right msum1_dy]; [reflexivity|].
    fold (msum1_dy (fun k => rho (cf k)) (rho iY) r). rewrite IH.
    cbn [tm1_dy rden]. rewrite Q2R_inject_Z. reflexivity.
  Qed.
End SumLemmas.

Lemma Q2R_Qinv_nz q : Qeq_bool q 0 = false -> Q2R (Qinv q) = / Q2R q.
Proof. intros H. apply Q2R_inv. intros E. apply Qeq_bool_neq in H. apply H. exact E. Qed.

Lemma Some_inj {A} (x y : A) : Some x = Some y -> x = y.
Proof. congruence. Qed.

Lemma powerRZ_m1 x : powerRZ x (-1) = / x.
Proof. change (-1)%Z with (- (1))%Z. rewrite powerRZ_neg', powerRZ_1. reflexivity. Qed.

(** * Region 1: cowat *)
Module R1.
  (* atoms: 0 t, 1 p | cuts: 2 tk, 3 X = 7.1 - pi, 4 Y = tau - 1.222, 5 D = R T gamma_pi | 6.. n_k *)
  Definition nv := 2%nat. Definition nc := 4%nat.
  Definition N := (nv + nc + length nr1_Q)%nat.
  Definition cf (k : nat) := (nv + nc + k)%nat.
  Definition terms : list term3 := terms_of ir1 jr1.

  Definition e_tk := PAdd (PA 0) (PC tc_k_Q).
  Definition e_pi := PMul (PA 1) (PC (Qinv pstar1_Q)).
  Definition e_X := PSub (PC c7_1) e_pi.
  Definition e_tau := PMul (PC tstar1_Q) (PP 2 (-1)).
  Definition e_Y := PSub e_tau (PC c1_222).
  Definition e_gampi := PNeg (psum (map (tm_dx 3 4 cf) terms)).
  Definition e_gamt := psum (map (tm_dy 3 4 cf) terms).
  Definition e_rt := PMul (PC rconst_Q) e_tk.          (* the code multiplies by the expression t + tc_k, not by the atom *)
  Definition e_D := PMul e_rt e_gampi.
  Definition e_d := PMul (PC pstar1_Q) (PP 5 (-1)).
  Definition e_u := PMul e_rt (PSub (PMul e_tau e_gamt) (PMul e_pi e_gampi)).

  Definition defs_e := [e_tk; e_X; e_Y; e_D].
  Definition outs_e := [e_d; e_u].
  Definition defs := map (pden N) defs_e.
  Definition outs := combine (ret_outs cowat_traced) (map (pden N) outs_e).

  (** the DAG traced from the current source normalises to the expected summary *)
  Lemma check : check_dag nv nc N defs cowat_nodes outs = true.
  Proof. vm_compute. reflexivity. Qed.
  Notation wfe e := (pwf N (unitb_of nv nc) e = true).
  Lemma wf : wfe e_tk /\ wfe e_X /\ wfe e_Y /\ wfe e_D /\ wfe e_d /\ wfe e_u.
  Proof. vm_compute. repeat split. Qed.
  Lemma shape : ret_outs cowat_traced <> [] /\ length (ret_outs cowat_traced) = 2%nat /\ length nr1_Q = length ir1
                /\ Qeq_bool pstar1_Q 0 = false.
  Proof. vm_compute. repeat split; discriminate. Qed.

  (** the canonical potential gamma_1(pi, tau) = sum n_k (7.1 - pi)^I_k (tau - 1.222)^J_k *)
  Definition gamma (n : nat -> R) (pi tau : R) : R := msum n (Q2R c7_1 - pi) (tau - Q2R c1_222) terms.

  Section Thm.
    Variables (t p : R) (n : nat -> R).
    Let tk := t + Q2R tc_k_Q.
    Let pi := p / Q2R pstar1_Q.
    Let tau := Q2R tstar1_Q / tk.
    Let X := Q2R c7_1 - pi.
    Let Y := tau - Q2R c1_222.
    Let g_pi := - msum_dx n X Y terms.       (* termwise d gamma / d pi *)
    Let g_tau := msum_dy n X Y terms.        (* termwise d gamma / d tau *)
    Let D := Q2R rconst_Q * tk * g_pi.
    Hypothesis tk_nz : tk <> 0.
    Hypothesis X_nz : X <> 0.
    Hypothesis Y_nz : Y <> 0.
    Hypothesis D_nz : D <> 0.

    Definition rho (i : nat) : R := nth i [t; p; tk; X; Y; D] (n (i - (nv + nc))%nat).

    Lemma rho_unit i : unitb_of nv nc i = true -> rho i <> 0.
    Proof.
      unfold unitb_of, nv, nc. intros H. apply andb_true_iff in H as [H1 H2].
      apply Nat.leb_le in H1. apply Nat.ltb_lt in H2.
      destruct i as [|[|[|[|[|[|i]]]]]]; try lia.
      - exact tk_nz.
      - exact X_nz.
      - exact Y_nz.
      - exact D_nz.
    Qed.

    Lemma rho_cf k : rho (cf k) = n k.
    Proof.
      unfold rho, cf, nv, nc. replace (2 + 4 + k - (2 + 4))%nat with k by lia.
      replace (2 + 4 + k)%nat with (S (S (S (S (S (S k)))))) by lia. cbn [nth]. destruct k; reflexivity.
    Qed.

    Lemma den (e : pexp) : pwf N (unitb_of nv nc) e = true -> dpoly rho (pden N e) = rden rho e.
    Proof. intros H. apply (pden_sound N (unitb_of nv nc) rho rho_unit e H). Qed.

    Lemma r_pi : rden rho e_pi = pi.
    Proof. cbn [e_pi rden]. rewrite Q2R_Qinv_nz by (apply shape). reflexivity. Qed.
    Lemma r_tau : rden rho e_tau = tau.
    Proof. cbn [e_tau rden]. rewrite powerRZ_m1. reflexivity. Qed.
    Lemma r_gampi : rden rho e_gampi = g_pi.
    Proof.
      unfold e_gampi. cbn [rden]. rewrite rden_sum_dx. unfold g_pi.
      rewrite (msum_dx_ext _ n _ _ _ rho_cf). reflexivity.
    Qed.
    Lemma r_gamt : rden rho e_gamt = g_tau.
    Proof.
      unfold e_gamt. rewrite rden_sum_dy. unfold g_tau.
      rewrite (msum_dy_ext _ n _ _ _ rho_cf). reflexivity.
    Qed.

    Lemma rho_defs a d : nth_error defs a = Some d -> (a < nc)%nat -> rho (nv + a) = dpoly rho d.
    Proof.
      destruct wf as (W1 & W2 & W3 & W4 & W5 & W6).
      unfold defs, defs_e, nc. intros E Ha.
      destruct a as [|[|[|[|a]]]]; [| | | |lia];
        cbn [map nth_error] in E; apply Some_inj in E; subst d; rewrite den by assumption.
      - reflexivity.
      - cbn [e_X rden]. rewrite r_pi. reflexivity.
      - cbn [e_Y rden]. rewrite r_tau. reflexivity.
      - cbn [e_D e_rt rden]. rewrite r_gampi. reflexivity.
    Qed.

    (** what the traced cowat computes over the reals *)
    Theorem outputs :
      outsR cowat_traced [t; p] n =
      [ Q2R pstar1_Q / (Q2R rconst_Q * tk * g_pi);
        Q2R rconst_Q * tk * (tau * g_tau - pi * g_pi) ].
    Proof.
      destruct wf as (W1 & W2 & W3 & W4 & W5 & W6).
      assert (S : forall pos q, In (pos, q) outs ->
                nth pos (evalR (fun i => nth i [t; p] 0) n cowat_nodes) 0 = dpoly rho q).
      { apply (check_sound nv nc N defs rho (fun i => nth i [t; p] 0) n).
        - intros i Hi. unfold nv in Hi. do 2 (destruct i as [|i]; [reflexivity|]). lia.
        - intros k _. apply rho_cf.
        - exact rho_unit.
        - exact rho_defs.
        - exact check. }
      unfold outsR. change (t_nodes cowat_traced) with cowat_nodes.
      unfold outs in S.
      destruct (ret_outs cowat_traced) as [|o1 [|o2 [|? ?]]] eqn:Er;
        try (exfalso; pose proof shape as [_ [L _]]; rewrite Er in L; discriminate L).
      cbn [map]. cbn [outs_e map combine] in S.
      rewrite (S o1 _ (or_introl eq_refl)), (S o2 _ (or_intror (or_introl eq_refl))).
      rewrite !den by assumption.
      cbn [e_d e_u e_rt rden]. rewrite r_tau, r_pi, r_gampi, r_gamt, powerRZ_m1.
      change (rho 5) with D. reflexivity.
    Qed.

    (** the termwise derivative sums are the partial derivatives of gamma_1 *)
    Lemma g_pi_is_derive : is_derive (fun x => gamma n x tau) pi g_pi.
    Proof. unfold gamma, g_pi. apply is_derive_msum_x_shift. exact X_nz. Qed.
    Lemma g_tau_is_derive : is_derive (fun y => gamma n pi y) tau g_tau.
    Proof. unfold gamma, g_tau. apply is_derive_msum_y_shift. exact Y_nz. Qed.

    Theorem from_potential :
      outsR cowat_traced [t; p] n =
      [ Q2R pstar1_Q / (Q2R rconst_Q * tk * Derive (fun x => gamma n x tau) pi);
        Q2R rconst_Q * tk * (tau * Derive (fun y => gamma n pi y) tau - pi * Derive (fun x => gamma n x tau) pi) ].
    Proof.
      assert (E1 : Derive (fun x => gamma n x tau) pi = g_pi) by (apply is_derive_unique, g_pi_is_derive).
      assert (E2 : Derive (fun y => gamma n pi y) tau = g_tau) by (apply is_derive_unique, g_tau_is_derive).
      rewrite E1, E2. exact outputs.
    Qed.
  End Thm.
End R1.

(** * Region 2: supst *)
Module R2.
  (* atoms: 0 t, 1 p | cuts: 2 tk, 3 TAU = tstar2/tk, 4 PI = p/pstar2, 5 TS = tau - 0.5, 6 D | 7.. n0_k, then n_k *)
  Definition nv := 2%nat. Definition nc := 5%nat.
  Definition len0 := length n0r2_Q.
  Definition N := (nv + nc + (len0 + length nr2_Q))%nat.
  Definition cf0 (k : nat) := (nv + nc + k)%nat.
  Definition cf2 (k : nat) := (nv + nc + (len0 + k))%nat.
  Definition terms0 : list (Z * nat) := combine j0r2 (seq 0 (length j0r2)).
  Definition terms : list term3 := terms_of ir2 jr2.

  Definition e_tk := PAdd (PA 0) (PC tc_k_Q).
  Definition e_tau := PMul (PC tstar2_Q) (PP 2 (-1)).
  Definition e_pi := PMul (PA 1) (PC (Qinv pstar2_Q)).
  Definition e_TS := PSub e_tau (PC c0_5).
  Definition e_gampi0 := PMul (PC 1%Q) (PP 4 (-1)).
  Definition e_gamt0 := psum (map (tm1_dy 3 cf0) terms0).
  Definition e_gampir := psum (map (tm_dx 4 5 cf2) terms).
  Definition e_gamtr := psum (map (tm_dy 4 5 cf2) terms).
  Definition e_gampi := PAdd e_gampi0 e_gampir.
  Definition e_rt := PMul (PC rconst_Q) e_tk.
  Definition e_D := PMul e_rt e_gampi.
  Definition e_d := PMul (PC pstar2_Q) (PP 6 (-1)).
  Definition e_u := PMul e_rt (PSub (PMul e_tau (PAdd e_gamt0 e_gamtr)) (PMul e_pi e_gampi)).

  Definition defs_e := [e_tk; e_tau; e_pi; e_TS; e_D].
  Definition outs_e := [e_d; e_u].
  Definition defs := map (pden N) defs_e.
  Definition outs := combine (ret_outs supst_traced) (map (pden N) outs_e).

  Lemma check : check_dag nv nc N defs supst_nodes outs = true.
  Proof. vm_compute. reflexivity. Qed.
  Notation wfe e := (pwf N (unitb_of nv nc) e = true).
  Lemma wf : wfe e_tk /\ wfe e_tau /\ wfe e_pi /\ wfe e_TS /\ wfe e_D /\ wfe e_d /\ wfe e_u.
  Proof. vm_compute. repeat split. Qed.
  Lemma shape : length (ret_outs supst_traced) = 2%nat /\ length nr2_Q = length ir2 /\ length n0r2_Q = length j0r2
                /\ Qeq_bool pstar2_Q 0 = false.
  Proof. vm_compute. repeat split. Qed.

  (** gamma_2(pi, tau) = ln pi + sum n0_k tau^J0_k + sum n_k pi^I_k (tau - 0.5)^J_k *)
  Definition gamma (n0 n : nat -> R) (pi tau : R) : R :=
    ln pi + msum1 n0 tau terms0 + msum n pi (tau - Q2R c0_5) terms.

  Section Thm.
    Variables (t p : R) (n0 n : nat -> R).
    Let tk := t + Q2R tc_k_Q.
    Let pi := p / Q2R pstar2_Q.
    Let tau := Q2R tstar2_Q / tk.
    Let TS := tau - Q2R c0_5.
    Let g_pi := / pi + msum_dx n pi TS terms.
    Let g_tau := msum1_dy n0 tau terms0 + msum_dy n pi TS terms.
    Let D := Q2R rconst_Q * tk * g_pi.
    Hypothesis tk_nz : tk <> 0.
    Hypothesis tau_nz : tau <> 0.
    Hypothesis pi_pos : 0 < pi.
    Hypothesis TS_nz : TS <> 0.
    Hypothesis D_nz : D <> 0.

    (** coefficient valuation of the flat list n0r2 ++ nr2 *)
    Definition coef (k : nat) : R := if (k <? len0)%nat then n0 k else n (k - len0)%nat.
    Definition rho (i : nat) : R := nth i [t; p; tk; tau; pi; TS; D] (coef (i - (nv + nc))%nat).

    Lemma rho_unit i : unitb_of nv nc i = true -> rho i <> 0.
    Proof.
      unfold unitb_of, nv, nc. intros H. apply andb_true_iff in H as [H1 H2].
      apply Nat.leb_le in H1. apply Nat.ltb_lt in H2.
      destruct i as [|[|[|[|[|[|[|i]]]]]]]; try lia.
      - exact tk_nz.
      - exact tau_nz.
      - apply Rgt_not_eq. exact pi_pos.
      - exact TS_nz.
      - exact D_nz.
    Qed.
    Lemma rho_flat k : rho (nv + nc + k) = coef k.
    Proof.
      unfold rho, nv, nc. replace (2 + 5 + k - (2 + 5))%nat with k by lia.
      replace (2 + 5 + k)%nat with (S (S (S (S (S (S (S k))))))) by lia. cbn [nth]. destruct k; reflexivity.
    Qed.
    Lemma rho_cf0 k : (k < len0)%nat -> rho (cf0 k) = n0 k.
    Proof. intros H. unfold cf0. rewrite rho_flat. unfold coef. apply Nat.ltb_lt in H. rewrite H. reflexivity. Qed.
    Lemma rho_cf2 k : rho (cf2 k) = n k.
    Proof.
      unfold cf2. rewrite rho_flat. unfold coef.
      assert ((len0 + k <? len0)%nat = false) as -> by (apply Nat.ltb_ge; lia). f_equal. lia.
    Qed.

    Lemma den (e : pexp) : pwf N (unitb_of nv nc) e = true -> dpoly rho (pden N e) = rden rho e.
    Proof. intros H. apply (pden_sound N (unitb_of nv nc) rho rho_unit e H). Qed.

    Lemma r_pi : rden rho e_pi = pi.
    Proof. cbn [e_pi rden]. rewrite Q2R_Qinv_nz by (apply shape). reflexivity. Qed.
    Lemma r_tau : rden rho e_tau = tau.
    Proof. cbn [e_tau rden]. rewrite powerRZ_m1. reflexivity. Qed.
    Lemma r_gampi : rden rho e_gampi = g_pi.
    Proof.
      unfold e_gampi, e_gampi0, e_gampir. cbn [rden]. rewrite rden_sum_dx, powerRZ_m1. unfold g_pi.
      rewrite (msum_dx_ext _ n _ _ _ rho_cf2). change (rho 4) with pi. change (rho 5) with TS.
      replace (Q2R 1) with 1 by (unfold Q2R; cbn; lra). ring.
    Qed.
    (** the ideal-gas sum only reads coefficients below len0 *)
    Lemma msum1_dy_n0 y : msum1_dy (fun k => rho (cf0 k)) y terms0 = msum1_dy n0 y terms0.
    Proof.
      assert (H : forall jk, In jk terms0 -> (snd jk < len0)%nat).
      { intros [j k] Hin. unfold terms0 in Hin. apply in_combine_r in Hin. apply in_seq in Hin.
        cbn [snd]. unfold len0. destruct shape as (_ & _ & L & _). rewrite L. lia. }
      induction terms0 as [|[j k] r IH]; [reflexivity|]. cbn [msum1_dy fold_right].
      fold (msum1_dy (fun k => rho (cf0 k)) y r). fold (msum1_dy n0 y r).
      rewrite IH by (intros jk Hjk; apply H; right; exact Hjk).
      rewrite rho_cf0 by (apply (H (j, k)); left; reflexivity). reflexivity.
    Qed.
    Lemma r_gamt : rden rho (PAdd e_gamt0 e_gamtr) = g_tau.
    Proof.
      unfold e_gamt0, e_gamtr. cbn [rden]. rewrite rden_sum1_dy, rden_sum_dy. unfold g_tau.
      rewrite (msum_dy_ext _ n _ _ _ rho_cf2), msum1_dy_n0. reflexivity.
    Qed.

    Lemma rho_defs a d : nth_error defs a = Some d -> (a < nc)%nat -> rho (nv + a) = dpoly rho d.
    Proof.
      destruct wf as (W1 & W2 & W3 & W4 & W5 & W6 & W7).
      unfold defs, defs_e, nc. intros E Ha.
      destruct a as [|[|[|[|[|a]]]]]; [| | | | |lia];
        cbn [map nth_error] in E; apply Some_inj in E; subst d; rewrite den by assumption.
      - reflexivity.
      - rewrite r_tau. reflexivity.
      - rewrite r_pi. reflexivity.
      - cbn [e_TS rden]. rewrite r_tau. reflexivity.
      - cbn [e_D e_rt rden]. rewrite r_gampi. reflexivity.
    Qed.

    Theorem outputs :
      outsR supst_traced [t; p] coef =
      [ Q2R pstar2_Q / (Q2R rconst_Q * tk * g_pi);
        Q2R rconst_Q * tk * (tau * g_tau - pi * g_pi) ].
    Proof.
      destruct wf as (W1 & W2 & W3 & W4 & W5 & W6 & W7).
      assert (S : forall pos q, In (pos, q) outs ->
                nth pos (evalR (fun i => nth i [t; p] 0) coef supst_nodes) 0 = dpoly rho q).
      { apply (check_sound nv nc N defs rho (fun i => nth i [t; p] 0) coef).
        - intros i Hi. unfold nv in Hi. do 2 (destruct i as [|i]; [reflexivity|]). lia.
        - intros k _. apply rho_flat.
        - exact rho_unit.
        - exact rho_defs.
        - exact check. }
      unfold outsR. change (t_nodes supst_traced) with supst_nodes.
      unfold outs in S.
      destruct (ret_outs supst_traced) as [|o1 [|o2 [|? ?]]] eqn:Er;
        try (exfalso; pose proof shape as [L _]; rewrite Er in L; discriminate L).
      cbn [map]. cbn [outs_e map combine] in S.
      rewrite (S o1 _ (or_introl eq_refl)), (S o2 _ (or_intror (or_introl eq_refl))).
      rewrite !den by assumption.
      change e_u with (PMul e_rt (PSub (PMul e_tau (PAdd e_gamt0 e_gamtr)) (PMul e_pi e_gampi))).
      cbn [e_d e_rt rden]. rewrite r_tau, r_pi, r_gampi, powerRZ_m1.
      change (rden rho e_gamt0 + rden rho e_gamtr) with (rden rho (PAdd e_gamt0 e_gamtr)). rewrite r_gamt.
      change (rho 6) with D. reflexivity.
    Qed.

    Lemma g_pi_is_derive : is_derive (fun x => gamma n0 n x tau) pi g_pi.
    Proof.
      unfold gamma, g_pi.
      apply (is_derive_plus (fun x => ln x + msum1 n0 tau terms0) (fun x => msum n x (tau - Q2R c0_5) terms) pi (/ pi)).
      - replace (/ pi) with (plus (/ pi) 0) by (unfold plus; cbn; ring).
        apply (is_derive_plus ln (fun _ => msum1 n0 tau terms0) pi (/ pi) 0).
        + apply is_derive_ln. exact pi_pos.
        + apply (is_derive_const (msum1 n0 tau terms0) pi).
      - apply is_derive_msum_x. apply Rgt_not_eq. exact pi_pos.
    Qed.
    Lemma g_tau_is_derive : is_derive (fun y => gamma n0 n pi y) tau g_tau.
    Proof.
      unfold gamma, g_tau.
      apply (is_derive_plus (fun y => ln pi + msum1 n0 y terms0) (fun y => msum n pi (y - Q2R c0_5) terms) tau).
      - replace (msum1_dy n0 tau terms0) with (plus 0 (msum1_dy n0 tau terms0)) by (unfold plus; cbn; ring).
        apply (is_derive_plus (fun _ => ln pi) (fun y => msum1 n0 y terms0) tau 0).
        + apply (is_derive_const (ln pi) tau).
        + apply is_derive_msum1. exact tau_nz.
      - apply is_derive_msum_y_shift. exact TS_nz.
    Qed.

    Theorem from_potential :
      outsR supst_traced [t; p] coef =
      [ Q2R pstar2_Q / (Q2R rconst_Q * tk * Derive (fun x => gamma n0 n x tau) pi);
        Q2R rconst_Q * tk * (tau * Derive (fun y => gamma n0 n pi y) tau - pi * Derive (fun x => gamma n0 n x tau) pi) ].
    Proof.
      assert (E1 : Derive (fun x => gamma n0 n x tau) pi = g_pi) by (apply is_derive_unique, g_pi_is_derive).
      assert (E2 : Derive (fun y => gamma n0 n pi y) tau = g_tau) by (apply is_derive_unique, g_tau_is_derive).
      rewrite E1, E2. exact outputs.
    Qed.
  End Thm.
End R2.

(** * Region 3: super *)
Module R3.
  (* atoms: 0 d, 1 t | cuts: 2 tk, 3 TAU = tstar3/tk, 4 DEL = d/dstar3 | 5.. n_k *)
  Definition nv := 2%nat. Definition nc := 3%nat.
  Definition N := (nv + nc + length nr3_Q)%nat.
  Definition cf (k : nat) := (nv + nc + k)%nat.
  Definition terms : list term3 := terms_of ir3 jr3.

  Definition e_tk := PAdd (PA 1) (PC tc_k_Q).
  Definition e_tau := PMul (PC tstar3_Q) (PP 2 (-1)).
  Definition e_del := PMul (PA 0) (PC (Qinv dstar3_Q)).
  Definition e_phid := PAdd (PMul (PA (cf 0)) (PP 4 (-1))) (psum (map (tm_dx 4 3 cf) terms)).
  Definition e_phit := psum (map (tm_dy 4 3 cf) terms).
  Definition e_rt := PMul (PC rconst_Q) e_tk.
  Definition e_p := PMul (PMul (PMul (PA 0) e_rt) e_del) e_phid.
  Definition e_u := PMul (PMul e_rt e_tau) e_phit.

  Definition defs_e := [e_tk; e_tau; e_del].
  Definition outs_e := [e_p; e_u].
  Definition defs := map (pden N) defs_e.
  Definition outs := combine (ret_outs super_traced) (map (pden N) outs_e).

  Lemma check : check_dag nv nc N defs super_nodes outs = true.
  Proof. vm_compute. reflexivity. Qed.
  Notation wfe e := (pwf N (unitb_of nv nc) e = true).
  Lemma wf : wfe e_tk /\ wfe e_tau /\ wfe e_del /\ wfe e_p /\ wfe e_u.
  Proof. vm_compute. repeat split. Qed.
  Lemma shape : length (ret_outs super_traced) = 2%nat /\ length nr3_Q = length ir3
                /\ Qeq_bool dstar3_Q 0 = false /\ terms = (0%Z, 0%Z, 0%nat) :: tl terms.
  Proof. vm_compute. repeat split. Qed.

  (** phi_3(delta, tau) = n_0 ln delta + sum_{k >= 1} n_k delta^I_k tau^J_k *)
  Definition phi (n : nat -> R) (delta tau : R) : R := n 0%nat * ln delta + msum n delta tau (tl terms).

  Section Thm.
    Variables (d t : R) (n : nat -> R).
    Let tk := t + Q2R tc_k_Q.
    Let tau := Q2R tstar3_Q / tk.
    Let delta := d / Q2R dstar3_Q.
    Let phi_d := n 0%nat * / delta + msum_dx n delta tau terms.
    Let phi_t := msum_dy n delta tau terms.
    Hypothesis tk_nz : tk <> 0.
    Hypothesis tau_nz : tau <> 0.
    Hypothesis delta_pos : 0 < delta.

    Definition rho (i : nat) : R := nth i [d; t; tk; tau; delta] (n (i - (nv + nc))%nat).

    Lemma rho_unit i : unitb_of nv nc i = true -> rho i <> 0.
    Proof.
      unfold unitb_of, nv, nc. intros H. apply andb_true_iff in H as [H1 H2].
      apply Nat.leb_le in H1. apply Nat.ltb_lt in H2.
      destruct i as [|[|[|[|[|i]]]]]; try lia.
      - exact tk_nz.
      - exact tau_nz.
      - apply Rgt_not_eq. exact delta_pos.
    Qed.
    Lemma rho_cf k : rho (cf k) = n k.
    Proof.
      unfold rho, cf, nv, nc. replace (2 + 3 + k - (2 + 3))%nat with k by lia.
      replace (2 + 3 + k)%nat with (S (S (S (S (S k))))) by lia. cbn [nth]. destruct k; reflexivity.
    Qed.
    Lemma den (e : pexp) : pwf N (unitb_of nv nc) e = true -> dpoly rho (pden N e) = rden rho e.
    Proof. intros H. apply (pden_sound N (unitb_of nv nc) rho rho_unit e H). Qed.

    Lemma r_del : rden rho e_del = delta.
    Proof. cbn [e_del rden]. rewrite Q2R_Qinv_nz by (apply shape). reflexivity. Qed.
    Lemma r_tau : rden rho e_tau = tau.
    Proof. cbn [e_tau rden]. rewrite powerRZ_m1. reflexivity. Qed.
    Lemma r_phid : rden rho e_phid = phi_d.
    Proof.
      unfold e_phid. cbn [rden]. rewrite rden_sum_dx, powerRZ_m1, rho_cf. unfold phi_d.
      rewrite (msum_dx_ext _ n _ _ _ rho_cf). reflexivity.
    Qed.
    Lemma r_phit : rden rho e_phit = phi_t.
    Proof.
      unfold e_phit. rewrite rden_sum_dy. unfold phi_t. rewrite (msum_dy_ext _ n _ _ _ rho_cf). reflexivity.
    Qed.

    Lemma rho_defs a q : nth_error defs a = Some q -> (a < nc)%nat -> rho (nv + a) = dpoly rho q.
    Proof.
      destruct wf as (W1 & W2 & W3 & W4 & W5).
      unfold defs, defs_e, nc. intros E Ha.
      destruct a as [|[|[|a]]]; [| | |lia];
        cbn [map nth_error] in E; apply Some_inj in E; subst q; rewrite den by assumption.
      - reflexivity.
      - rewrite r_tau. reflexivity.
      - rewrite r_del. reflexivity.
    Qed.

    Theorem outputs :
      outsR super_traced [d; t] n =
      [ d * (Q2R rconst_Q * tk) * delta * phi_d;
        Q2R rconst_Q * tk * tau * phi_t ].
    Proof.
      destruct wf as (W1 & W2 & W3 & W4 & W5).
      assert (S : forall pos q, In (pos, q) outs ->
                nth pos (evalR (fun i => nth i [d; t] 0) n super_nodes) 0 = dpoly rho q).
      { apply (check_sound nv nc N defs rho (fun i => nth i [d; t] 0) n).
        - intros i Hi. unfold nv in Hi. do 2 (destruct i as [|i]; [reflexivity|]). lia.
        - intros k _. apply rho_cf.
        - exact rho_unit.
        - exact rho_defs.
        - exact check. }
      unfold outsR. change (t_nodes super_traced) with super_nodes.
      unfold outs in S.
      destruct (ret_outs super_traced) as [|o1 [|o2 [|? ?]]] eqn:Er;
        try (exfalso; pose proof shape as [L _]; rewrite Er in L; discriminate L).
      cbn [map]. cbn [outs_e map combine] in S.
      rewrite (S o1 _ (or_introl eq_refl)), (S o2 _ (or_intror (or_introl eq_refl))).
      rewrite !den by assumption.
      cbn [e_p e_u e_rt rden]. rewrite r_tau, r_del, r_phid, r_phit. reflexivity.
    Qed.

    (** the first term (I = J = 0) contributes nothing to either derivative sum *)
    Lemma dx_tail : msum_dx n delta tau terms = msum_dx n delta tau (tl terms).
    Proof.
      destruct shape as (_ & _ & _ & E). rewrite E at 1. cbn [msum_dx fold_right].
      fold (msum_dx n delta tau (tl terms)). ring.
    Qed.
    Lemma dy_tail : msum_dy n delta tau terms = msum_dy n delta tau (tl terms).
    Proof.
      destruct shape as (_ & _ & _ & E). rewrite E at 1. cbn [msum_dy fold_right].
      fold (msum_dy n delta tau (tl terms)). ring.
    Qed.

    Lemma phi_d_is_derive : is_derive (fun x => phi n x tau) delta phi_d.
    Proof.
      unfold phi, phi_d. rewrite dx_tail.
      apply (is_derive_plus (fun x => n 0%nat * ln x) (fun x => msum n x tau (tl terms)) delta).
      - apply is_derive_scal. apply is_derive_ln. exact delta_pos.
      - apply is_derive_msum_x. apply Rgt_not_eq. exact delta_pos.
    Qed.
    Lemma phi_t_is_derive : is_derive (fun y => phi n delta y) tau phi_t.
    Proof.
      unfold phi, phi_t. rewrite dy_tail.
      replace (msum_dy n delta tau (tl terms)) with (plus 0 (msum_dy n delta tau (tl terms))) by (unfold plus; cbn; ring).
      apply (is_derive_plus (fun _ => n 0%nat * ln delta) (fun y => msum n delta y (tl terms)) tau 0).
      - apply (is_derive_const (n 0%nat * ln delta) tau).
      - apply is_derive_msum_y. exact tau_nz.
    Qed.

    Theorem from_potential :
      outsR super_traced [d; t] n =
      [ d * (Q2R rconst_Q * tk) * delta * Derive (fun x => phi n x tau) delta;
        Q2R rconst_Q * tk * tau * Derive (fun y => phi n delta y) tau ].
    Proof.
      assert (E1 : Derive (fun x => phi n x tau) delta = phi_d) by (apply is_derive_unique, phi_d_is_derive).
      assert (E2 : Derive (fun y => phi n delta y) tau = phi_t) by (apply is_derive_unique, phi_t_is_derive).
      rewrite E1, E2. exact outputs.
    Qed.
  End Thm.
End R3.
