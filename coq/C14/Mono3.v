(** C14 -- region 3: pressure rises with density at fixed temperature (super).

    super's pressure is p = d (R T) delta phi_delta with delta phi_delta = n_0 + sum n_k I_k delta^I_k tau^J_k
    (Potential.R3.outputs: what the traced DAG computes), so
        dp/dd = R T M(delta, tau),   M = n_0 + sum n_k I_k (I_k + 1) delta^I_k tau^J_k
    (termwise, Coquelicot).  Where M > 0 on the segment between two densities, p strictly increases
    (mean value theorem).  Mono3Tiles*.v prove M >= 1/50 on rectangles of (T, d) by interval
    arithmetic; Mono3Thm.v assembles the theorem for the rectangles that close. *)
From Coq Require Import ZArith QArith Qreals Reals List Bool Lra Lia.
From Coquelicot Require Import Coquelicot.
From Gen Require Import GenIAPWS GenTraced.
From P Require Import Expr RunR Deriv Potential Mono1 Mono2.
Import ListNotations.
Close Scope Q_scope.
Open Scope R_scope.

Section Sums4.
  Variable n : nat -> R.
  Definition msum_m (x y : R) (l : list term3) : R :=
    fold_right (fun t acc => let '(i, j, k) := t in n k * IZR i * IZR (i + 1) * powerRZ x i * powerRZ y j + acc) 0 l.

  Lemma msum_m_eq x y l : x <> 0 -> msum_m x y l = 2 * x * msum_dx n x y l + x * x * msum_dxx n x y l.
  Proof.
    intros Hx. induction l as [|[[i j] k] r IH]; cbn [msum_m msum_dx msum_dxx fold_right]; [ring|].
    fold (msum_m x y r). fold (msum_dx n x y r). fold (msum_dxx n x y r). rewrite IH.
    assert (E1 : powerRZ x i = x * powerRZ x (i - 1)).
    { replace i with (1 + (i - 1))%Z at 1 by lia. rewrite (powerRZ_add x 1 (i - 1) Hx). cbn [powerRZ]. simpl pow. ring. }
    assert (E2 : powerRZ x i = x * x * powerRZ x (i - 2)).
    { replace i with (2 + (i - 2))%Z at 1 by lia. rewrite (powerRZ_add x 2 (i - 2) Hx). cbn [powerRZ]. simpl pow. ring. }
    replace (n k * IZR i * IZR (i + 1) * powerRZ x i * powerRZ y j)
      with (2 * (n k * IZR i * powerRZ x i * powerRZ y j) + n k * IZR i * IZR (i - 1) * powerRZ x i * powerRZ y j)
      by (rewrite plus_IZR, minus_IZR; ring).
    rewrite E1 at 1. rewrite E2 at 1. ring.
  Qed.

  (** p(d) = d b (d/s) (n0 / (d/s) + msum_dx (d/s) y):  dp/dd = b (n0 + msum_m (d/s) y) *)
  Lemma is_derive_p3 (b s n0 y d : R) (l : list term3) : s <> 0 -> d / s <> 0 ->
    is_derive (fun d' => d' * b * (d' / s) * (n0 * / (d' / s) + msum_dx n (d' / s) y l)) d
              (b * (n0 + msum_m (d / s) y l)).
  Proof.
    intros Hs Hx.
    assert (Hd : d <> 0) by (intros E; apply Hx; rewrite E; unfold Rdiv; ring).
    set (G := fun x => msum_dx n x y l).
    assert (DG : forall x, x <> 0 -> is_derive G x (msum_dxx n x y l)) by (intros x Hxx; apply is_derive_msum_dx_x; exact Hxx).
    change (is_derive (fun d' => d' * b * (d' / s) * (n0 * / (d' / s) + G (d' / s))) d (b * (n0 + msum_m (d / s) y l))).
    auto_derive.
    - split; [exact Hx|]. split; [exists (msum_dxx n (d / s) y l); apply (DG (d / s)); exact Hx|exact I].
    - unfold Rdiv in *.
      match goal with |- context [Derive ?f ?x] =>
        replace (Derive f x) with (msum_dxx n (d * / s) y l) by (symmetry; apply is_derive_unique; apply (DG _ Hx)) end.
      rewrite msum_m_eq by exact Hx. unfold G.
      field. split; assumption.
  Qed.

  Lemma p3_mvt (b s n0 y d1 d2 : R) (l : list term3) : 0 < s -> 0 < d1 -> d1 < d2 ->
    let P := fun d' => d' * b * (d' / s) * (n0 * / (d' / s) + msum_dx n (d' / s) y l) in
    exists q, d1 <= q <= d2 /\ P d2 - P d1 = b * (n0 + msum_m (q / s) y l) * (d2 - d1).
  Proof.
    intros Hs Hd1 Hlt P.
    assert (Hnz : forall x, d1 <= x <= d2 -> x / s <> 0).
    { intros x Hx. apply Rgt_not_eq. apply Rdiv_lt_0_compat; lra. }
    pose proof (MVT_gen P d1 d2 (fun q => b * (n0 + msum_m (q / s) y l))) as M.
    cbv zeta in M. rewrite Rmin_left, Rmax_right in M by lra.
    apply M.
    - intros x Hx. apply is_derive_p3; [lra|apply Hnz; lra].
    - intros x Hx. apply continuity_pt_filterlim. apply (ex_derive_continuous P x).
      eexists. apply is_derive_p3; [lra|apply Hnz; lra].
  Qed.
End Sums4.

(** ** the coefficients of the source *)
Definition n3 : nat -> R := coefR nr3_Q.
Definition D3 (d : R) : R := d / Q2R dstar3_Q.
Definition T3 (tk : R) : R := Q2R tstar3_Q / tk.
Definition MM (tk d : R) : R := n3 0%nat + msum_m n3 (D3 d) (T3 tk) R3.terms.

Ltac expose3 := unfold MM, D3, T3; cbv - [Rplus Rmult Rminus Rdiv Ropp Rinv IZR powerRZ Rle Rlt].
