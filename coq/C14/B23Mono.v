(** C14 -- the region 2/3 boundary is a strictly increasing curve in both published forms.

    [b23p] is strictly increasing in t on the whole boundary 350..590 degC and maps it into
    [16529164, 100000001] Pa; [b23t] is strictly increasing in p on 16.5..100 MPa and maps
    [16529165, 1e8] Pa into 350..590 degC.  So each form is injective on the boundary: together with
    B23.v (the compositions are within 2e-10 K / 3e-5 Pa of the identity) the two forms describe ONE
    curve, and the classifier's test  p <= b23p(t)  is equivalent to a threshold in t.
    Algebra for arbitrary coefficients:
        b23p(tk2) - b23p(tk1) = 1e6 (tk2 - tk1) (n1 + n2 (tk1 + tk2))
    and the sign conditions ( n1 + n2 s > 0 on s in 2*623.14 .. 2*863.16;  n2 > 0 ) are settled for the
    coefficients of the source by interval arithmetic (linear: no tiling). *)
From Coq Require Import ZArith QArith Qreals Reals List Bool Lra.
From Interval Require Import Tactic.
From Gen Require Import GenIAPWS GenTraced.
From P Require Import Expr RunR Formulas B23.
Import ListNotations.
Close Scope Q_scope.
Open Scope R_scope.

Section Alg.
  Variable n : nat -> R.

  Lemma b23p_diff (a b : R) :
    b23p_val n b - b23p_val n a = Q2R c1e6 * ((b - a) * (n 1 + n 2 * (a + b))).
  Proof. unfold b23p_val. ring. Qed.

  Lemma b23t_q_diff (p q : R) : n 2 <> 0 ->
    b23t_q n q - b23t_q n p = (q - p) / (Q2R c1e6 * n 2).
  Proof. intros H. unfold b23t_q. field. split; [exact H|exact c1e6_nz]. Qed.
End Alg.

Lemma c1e6_pos : 0 < Q2R c1e6.
Proof. unfold Q2R, c1e6; cbn; lra. Qed.

Lemma n23_2_pos : 0 < n23 2.
Proof. expose23. interval. Qed.

Lemma b23_slope_pos s : 124628/100 <= s <= 172632/100 -> 0 < n23 1 + n23 2 * s.
Proof. intros H. expose23. interval. Qed.

Lemma b23p_val_increasing (a b : R) :
  62314/100 <= a -> a < b -> b <= 86316/100 -> b23p_val n23 a < b23p_val n23 b.
Proof.
  intros Ha Hab Hb.
  assert (H : 0 < b23p_val n23 b - b23p_val n23 a); [|lra].
  rewrite b23p_diff.
  apply Rmult_lt_0_compat; [exact c1e6_pos|].
  apply Rmult_lt_0_compat; [lra|].
  apply b23_slope_pos. lra.
Qed.

Lemma b23p_val_nondecreasing (a b : R) :
  62314/100 <= a -> a <= b -> b <= 86316/100 -> b23p_val n23 a <= b23p_val n23 b.
Proof.
  intros Ha [Hab| ->] Hb; [|lra].
  left. apply b23p_val_increasing; assumption.
Qed.

Lemma b23p_increasing_proof (t1 t2 p1 p2 : R) :
  350 <= t1 -> t1 < t2 -> t2 <= 590 ->
  runsR b23p_traced [t1] n23 (RRet [p1]) -> runsR b23p_traced [t2] n23 (RRet [p2]) -> p1 < p2.
Proof.
  intros H1 H12 H2 R1 R2.
  apply b23p_traced_is in R1. apply b23p_traced_is in R2.
  injection R1 as ->. injection R2 as ->.
  pose proof (tk_range t1 ltac:(lra)) as K1. pose proof (tk_range t2 ltac:(lra)) as K2.
  apply b23p_val_increasing; lra.
Qed.

Lemma b23p_range_proof (t p : R) :
  350 <= t <= 590 -> runsR b23p_traced [t] n23 (RRet [p]) -> 16529164 <= p <= 100000001.
Proof.
  intros H R. apply b23p_traced_is in R. injection R as ->.
  pose proof (tk_range t H) as K.
  pose proof (tk_range 350 ltac:(lra)) as K0. pose proof (tk_range 590 ltac:(lra)) as K9.
  pose proof b23p_at_350 as E0. pose proof b23p_at_590 as E9.
  assert (L : 350 + Q2R tc_k_Q <= t + Q2R tc_k_Q) by lra.
  assert (U : t + Q2R tc_k_Q <= 590 + Q2R tc_k_Q) by lra.
  assert (A0 : 62314/100 <= 350 + Q2R tc_k_Q) by lra.
  assert (A9 : 590 + Q2R tc_k_Q <= 86316/100) by lra.
  assert (At : 62314/100 <= t + Q2R tc_k_Q <= 86316/100) by lra.
  pose proof (b23p_val_nondecreasing _ _ A0 L (proj2 At)).
  pose proof (b23p_val_nondecreasing _ _ (proj1 At) U A9).
  lra.
Qed.

(** b23t *)
Lemma b23t_q_increasing (p q : R) : p < q -> b23t_q n23 p < b23t_q n23 q.
Proof.
  intros H.
  assert (D : 0 < b23t_q n23 q - b23t_q n23 p); [|lra].
  rewrite b23t_q_diff by exact n23_2_nz.
  apply Rdiv_lt_0_compat; [lra|].
  apply Rmult_lt_0_compat; [exact c1e6_pos|exact n23_2_pos].
Qed.

Lemma b23t_val_increasing (p q : R) : 16500000 <= p -> p < q -> q <= 100000000 ->
  b23t_val n23 p < b23t_val n23 q.
Proof.
  intros Hp Hpq Hq. unfold b23t_val.
  pose proof (b23_s_bounds p ltac:(lra)) as B.
  pose proof (b23t_q_increasing p q Hpq) as I.
  assert (S : sqrt (b23t_q n23 p) < sqrt (b23t_q n23 q)) by (apply sqrt_lt_1_alt; lra).
  lra.
Qed.

Lemma b23t_val_nondecreasing (p q : R) : 16500000 <= p -> p <= q -> q <= 100000000 ->
  b23t_val n23 p <= b23t_val n23 q.
Proof.
  intros Hp [Hpq| ->] Hq; [|lra].
  left. apply b23t_val_increasing; assumption.
Qed.

Lemma b23t_increasing_proof (p1 p2 t1 t2 : R) :
  16500000 <= p1 -> p1 < p2 -> p2 <= 100000000 ->
  runsR b23t_traced [p1] n23 (RRet [t1]) -> runsR b23t_traced [p2] n23 (RRet [t2]) -> t1 < t2.
Proof.
  intros H1 H12 H2 R1 R2.
  apply b23t_traced_is in R1. apply b23t_traced_is in R2.
  injection R1 as ->. injection R2 as ->.
  apply b23t_val_increasing; assumption.
Qed.

Lemma b23t_at_low : 350 <= b23t_val n23 16529165.
Proof. expose23. interval with (i_prec 80). Qed.
Lemma b23t_at_high : b23t_val n23 100000000 <= 590.
Proof. expose23. interval with (i_prec 80). Qed.

Lemma b23t_range_proof (p t : R) :
  16529165 <= p <= 100000000 -> runsR b23t_traced [p] n23 (RRet [t]) -> 350 <= t <= 590.
Proof.
  intros H R. apply b23t_traced_is in R. injection R as ->.
  pose proof b23t_at_low as L. pose proof b23t_at_high as U.
  pose proof (b23t_val_nondecreasing 16529165 p ltac:(lra) (proj1 H) (proj2 H)).
  pose proof (b23t_val_nondecreasing p 100000000 ltac:(lra) (proj2 H) ltac:(lra)).
  lra.
Qed.

(** the hypotheses are satisfiable: both traced functions run at every argument *)
Lemma b23p_runs (t : R) : exists p, runsR b23p_traced [t] n23 (RRet [p]).
Proof. eexists. apply b23p_traced_is. reflexivity. Qed.
Lemma b23t_runs (p : R) : exists t, runsR b23t_traced [p] n23 (RRet [t]).
Proof. eexists. apply b23t_traced_is. reflexivity. Qed.
