(** C14 -- property theorems, part 10: density rises with pressure at fixed temperature in region 1
    -- PARTIAL.  Domain proved (t in degC, p in Pa; psat = what the traced sat computes):
        0 <= t <= 260:    0 <= p <= 100 MPa  (region 1 and the metastable liquid below psat)
        260 < t <= 285:   psat(t) <= p       (all of region 1)
        285 < t <= 300:   12.5 MPa <= p;  300 < t <= 312: 17.5 MPa <= p;  312 < t <= 326: 25 MPa <= p;
        326 < t <= 338:   30 MPa <= p;    338 < t <= 350: 40 MPa <= p.
    NOT proved: the strip between the saturation curve and those limits for t > 285 degC (the
    34-term sum cancels to as little as 1/9000 of its largest term there; interval bisection in two
    variables does not close); it is only sampled by the oracle. *)
From Coq Require Import ZArith QArith Qreals Reals List.
From Gen Require Import GenIAPWS GenTraced.
From P Require Import Expr RunR Formulas SatRange Potential Mono1 Mono1Thm.
Import ListNotations.
Close Scope Q_scope.
Open Scope R_scope.

Theorem density_increases_with_pressure_region1_partial : forall t p1 p2 : R,
  0 <= t <= 350 -> 0 <= p1 -> p1 < p2 <= 100000000 ->
  (260 < t <= 285 -> sat_val n4 (t + Q2R tc_k_Q) <= p1) ->
  (285 < t -> 12500000 <= p1) -> (300 < t -> 17500000 <= p1) -> (312 < t -> 25000000 <= p1) ->
  (326 < t -> 30000000 <= p1) -> (338 < t -> 40000000 <= p1) ->
  let rho p := nth 0 (outsR cowat_traced [t; p] n1) 0 in
  0 < rho p1 < rho p2.
Proof. exact density_increases_region1_partial_proof. Qed.
Print Assumptions density_increases_with_pressure_region1_partial.
