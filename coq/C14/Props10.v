(** C14 -- property theorems, part 10: density rises with pressure at fixed temperature in region 1
    -- PARTIAL: on the part of region 1 where interval arithmetic closes the sign of gamma_pipi
    (see Mono1Thm.v); the hot, near-saturation corner (t > 260 degC below 25 MPa, t > 300 degC
    below 50 MPa) is only sampled by the oracle. *)
From Coq Require Import ZArith QArith Qreals Reals List.
From Gen Require Import GenIAPWS GenTraced.
From P Require Import Expr RunR Potential Mono1 Mono1Thm.
Import ListNotations.
Close Scope Q_scope.
Open Scope R_scope.

Theorem density_increases_with_pressure_region1_partial : forall t p1 p2 : R,
  0 <= t <= 350 -> 0 <= p1 -> p1 < p2 <= 100000000 ->
  (260 < t -> 25000000 <= p1) -> (300 < t -> 50000000 <= p1) ->
  let rho p := nth 0 (outsR cowat_traced [t; p] n1) 0 in
  0 < rho p1 < rho p2.
Proof. exact density_increases_region1_partial_proof. Qed.
Print Assumptions density_increases_with_pressure_region1_partial.
