(** C14 -- property theorems, part 10: density rises with pressure at fixed temperature on ALL of
    region 1: every real 0 <= t <= 350 degC and 0 <= p1 < p2 <= 100 MPa (region 1 and the metastable
    liquid below the saturation pressure); rho is the density the traced cowat returns over R. *)
From Coq Require Import ZArith QArith Qreals Reals List.
From Gen Require Import GenIAPWS GenTraced.
From P Require Import Expr RunR Potential Mono1 Mono1Thm.
Import ListNotations.
Close Scope Q_scope.
Open Scope R_scope.

Theorem density_increases_with_pressure_region1 : forall t p1 p2 : R,
  0 <= t <= 350 -> 0 <= p1 -> p1 < p2 <= 100000000 ->
  let rho p := nth 0 (outsR cowat_traced [t; p] n1) 0 in
  0 < rho p1 < rho p2.
Proof. exact density_increases_region1_proof. Qed.
Print Assumptions density_increases_with_pressure_region1.
