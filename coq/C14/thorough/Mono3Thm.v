(** C14 -- THOROUGH TIER ONLY.  Region 3: pressure rises with density at fixed temperature (super)
    -- PARTIAL: the hottest part of region 3,
        467 <= t <= 486 degC: 253 <= d <= 586 kg/m3;   486 < t <= 506: 281 <= d <= 552;
        506 < t <= 527 degC: 306 <= d <= 517;          527 < t <= 547: 329 <= d <= 483;
        547 < t <= 567 degC: 349 <= d <= 450;          567 < t <= 590: 367 <= d <= 419
    (rectangles that contain the densities of region 3 at these temperatures according to the
    oracle's root solver -- that containment is NOT a theorem).  Colder, the sum M cancels to
    less than 1/600 of its largest term (-> 0 at the critical point) and two-variable interval
    bisection needs > 40 s CPU per 2.5 K x 50 kg/m3 rectangle (measured): not attempted. *)
From Coq Require Import ZArith QArith Qreals Reals List Bool Lra.
From Coquelicot Require Import Coquelicot.
From Interval Require Import Tactic.
From Gen Require Import GenIAPWS GenTraced.
From P Require Import Expr RunR Deriv Potential Mono1 Mono2 Mono3
  Mono3TilesA Mono3TilesB Mono3TilesC Mono3TilesD Mono3TilesE
  Mono3TilesF Mono3TilesG Mono3TilesH Mono3TilesI Mono3TilesJ Mono3TilesK Mono3TilesL Mono3TilesM.
Import ListNotations.
Close Scope Q_scope.
Open Scope R_scope.

Definition in_dom3 (tk d : R) : Prop :=
  740 <= tk <= 864 /\
  (tk <= 760 -> 253 <= d <= 586) /\ (760 < tk <= 780 -> 281 <= d <= 552) /\
  (780 < tk <= 8002/10 -> 306 <= d <= 517) /\ (8002/10 < tk <= 8202/10 -> 329 <= d <= 483) /\
  (8202/10 < tk <= 8402/10 -> 349 <= d <= 450) /\ (8402/10 < tk -> 367 <= d <= 419).

Lemma MM_pos tk d : in_dom3 tk d -> 1/50 <= MM tk d.
Proof.
  intros (Ht & Z & Y & A & B & C & D).
  destruct (Rle_dec tk 745).
  { pose proof (Z ltac:(lra)). destruct (Rle_dec d 336); [apply m3_740_745_253; lra|]. destruct (Rle_dec d 420); [apply m3_740_745_336; lra|]. destruct (Rle_dec d 503); [apply m3_740_745_420; lra|]. apply m3_740_745_503; lra. }
  destruct (Rle_dec tk 750).
  { pose proof (Z ltac:(lra)). destruct (Rle_dec d 336); [apply m3_745_750_253; lra|]. destruct (Rle_dec d 420); [apply m3_745_750_336; lra|]. destruct (Rle_dec d 503); [apply m3_745_750_420; lra|]. apply m3_745_750_503; lra. }
  destruct (Rle_dec tk 755).
  { pose proof (Z ltac:(lra)). destruct (Rle_dec d 336); [apply m3_750_755_253; lra|]. destruct (Rle_dec d 420); [apply m3_750_755_336; lra|]. destruct (Rle_dec d 503); [apply m3_750_755_420; lra|]. apply m3_750_755_503; lra. }
  destruct (Rle_dec tk 760).
  { pose proof (Z ltac:(lra)). destruct (Rle_dec d 336); [apply m3_755_760_253; lra|]. destruct (Rle_dec d 420); [apply m3_755_760_336; lra|]. destruct (Rle_dec d 503); [apply m3_755_760_420; lra|]. apply m3_755_760_503; lra. }
  destruct (Rle_dec tk 765).
  { pose proof (Y ltac:(lra)). destruct (Rle_dec d 348); [apply m3_760_765_281; lra|]. destruct (Rle_dec d 416); [apply m3_760_765_348; lra|]. destruct (Rle_dec d 484); [apply m3_760_765_416; lra|]. apply m3_760_765_484; lra. }
  destruct (Rle_dec tk 770).
  { pose proof (Y ltac:(lra)). destruct (Rle_dec d 348); [apply m3_765_770_281; lra|]. destruct (Rle_dec d 416); [apply m3_765_770_348; lra|]. destruct (Rle_dec d 484); [apply m3_765_770_416; lra|]. apply m3_765_770_484; lra. }
  destruct (Rle_dec tk 780).
  { pose proof (Y ltac:(lra)). destruct (Rle_dec d 416); [apply m3_770_780_281; lra|].
    destruct (Rle_dec tk 775); [destruct (Rle_dec d 484); [apply m3_770_775_416|apply m3_770_775_484]; lra|].
    destruct (Rle_dec d 484); [apply m3_775_780_416|apply m3_775_780_484]; lra. }
  destruct (Rle_dec tk 790).
  { pose proof (A ltac:(lra)). destruct (Rle_dec d 412); [apply m3_780_306|apply m3_780_412]; lra. }
  destruct (Rle_dec tk (8002/10)).
  { pose proof (A ltac:(lra)). destruct (Rle_dec d 412); [apply m3_790_306|apply m3_790_412]; lra. }
  destruct (Rle_dec tk (8202/10)); [pose proof (B ltac:(lra)); apply m3_800_329; lra|].
  destruct (Rle_dec tk (8402/10)); [pose proof (C ltac:(lra)); apply m3_820_349; lra|].
  pose proof (D ltac:(lra)). apply m3_840_367; lra.
Qed.

Lemma dstar3_pos : 0 < Q2R dstar3_Q.
Proof. unfold Q2R, dstar3_Q; cbn [Qnum Qden]. lra. Qed.

(** what the traced super returns as pressure *)
Definition P3 (tk d : R) : R :=
  d * (Q2R rconst_Q * tk) * (d / Q2R dstar3_Q) * (n3 0%nat * / (d / Q2R dstar3_Q) + msum_dx n3 (d / Q2R dstar3_Q) (T3 tk) R3.terms).

Lemma super_pressure t d : 0 < t + Q2R tc_k_Q -> 0 < d ->
  nth 0 (outsR super_traced [d; t] n3) 0 = P3 (t + Q2R tc_k_Q) d.
Proof.
  intros Ht Hd. pose proof dstar3_pos as Hs.
  assert (Hc : 0 < Q2R tstar3_Q) by (unfold Q2R, tstar3_Q; cbn [Qnum Qden]; lra).
  rewrite (R3.outputs d t n3).
  - reflexivity.
  - lra.
  - apply Rgt_not_eq. apply Rdiv_lt_0_compat; lra.
  - apply Rdiv_lt_0_compat; lra.
Qed.

Theorem pressure_increases_region3_partial_proof (t d1 d2 : R) :
  467 <= t <= 590 -> d1 < d2 ->
  (t <= 486 -> 253 <= d1 /\ d2 <= 586) -> (486 < t <= 506 -> 281 <= d1 /\ d2 <= 552) ->
  (506 < t <= 527 -> 306 <= d1 /\ d2 <= 517) -> (527 < t <= 547 -> 329 <= d1 /\ d2 <= 483) ->
  (547 < t <= 567 -> 349 <= d1 /\ d2 <= 450) -> (567 < t -> 367 <= d1 /\ d2 <= 419) ->
  let P d := nth 0 (outsR super_traced [d; t] n3) 0 in
  P d1 < P d2.
Proof.
  intros Ht Hd Z Y A B C D P.
  assert (Hk : t + 27314/100 <= t + Q2R tc_k_Q <= t + 27315/100) by (unfold Q2R, tc_k_Q; cbn [Qnum Qden]; lra).
  set (tk := t + Q2R tc_k_Q) in *.
  assert (Hb : 253 <= d1 /\ d2 <= 586).
  { destruct (Rle_dec t 486); [destruct (Z ltac:(lra)); lra|]. destruct (Rle_dec t 506); [destruct (Y ltac:(lra)); lra|].
    destruct (Rle_dec t 527); [destruct (A ltac:(lra)); lra|]. destruct (Rle_dec t 547); [destruct (B ltac:(lra)); lra|].
    destruct (Rle_dec t 567); [destruct (C ltac:(lra)); lra|]. destruct (D ltac:(lra)); lra. }
  assert (Hd1 : 250 <= d1) by lra.
  assert (Dq : forall q, d1 <= q <= d2 -> in_dom3 tk q).
  { intros q Hq. split; [lra|].
    (split; [intros Hh|split; [intros Hh|split; [intros Hh|split; [intros Hh|split; intros Hh]]]]);
      (destruct (Rle_dec t 486) as [L0|L0]; [destruct (Z L0); lra|]);
      (destruct (Rle_dec t 506) as [L1|L1]; [destruct (Y ltac:(lra)); lra|]);
      (destruct (Rle_dec t 527) as [L|L]; [destruct (A ltac:(lra)); lra|]);
      (destruct (Rle_dec t 547) as [L2|L2]; [destruct (B ltac:(lra)); lra|]);
      (destruct (Rle_dec t 567) as [L3|L3]; [destruct (C ltac:(lra)); lra|]);
      destruct (D ltac:(lra)); lra. }
  unfold P. rewrite (super_pressure t d1), (super_pressure t d2) by (fold tk; lra). fold tk.
  pose proof dstar3_pos as Hs.
  destruct (p3_mvt n3 (Q2R rconst_Q * tk) (Q2R dstar3_Q) (n3 0%nat) (T3 tk) d1 d2 R3.terms Hs ltac:(lra) Hd) as (q & Hq & E).
  pose proof (MM_pos tk q (Dq q Hq)) as M. unfold MM, D3 in M.
  assert (HR : 0 < Q2R rconst_Q) by (unfold Q2R, rconst_Q; cbn [Qnum Qden]; lra).
  assert (B0 : 0 < Q2R rconst_Q * tk) by (apply Rmult_lt_0_compat; lra).
  unfold P3. cbv zeta in E.
  set (b := Q2R rconst_Q * tk) in *.
  set (m := n3 0%nat + msum_m n3 (q / Q2R dstar3_Q) (T3 tk) R3.terms) in *.
  assert (K : 0 < b * m * (d2 - d1)) by (apply Rmult_lt_0_compat; [apply Rmult_lt_0_compat; lra|lra]).
  lra.
Qed.

(** non-vacuity: a supercritical state at 550 degC *)
Example pressure_increases_region3_instance :
  let P d := nth 0 (outsR super_traced [d; 550] n3) 0 in P 380 < P 400.
Proof. apply pressure_increases_region3_partial_proof; lra. Qed.
Example pressure_increases_region3_instance_480 :
  let P d := nth 0 (outsR super_traced [d; 480] n3) 0 in P 300 < P 500.
Proof. apply pressure_increases_region3_partial_proof; lra. Qed.
