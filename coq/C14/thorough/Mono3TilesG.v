(** C14 -- THOROUGH TIER ONLY (compiled when ./check C14 --tier thorough; see tools/props/C14.py).
    GENERATED ONCE by a script: M >= 1/50 on rectangles of (kelvin temperature, density) by interval
    arithmetic with bisection in both variables (M = n_0 + sum n_k I_k (I_k + 1) delta^I_k tau^J_k,
    dp/dd = R T M for super).  Mono3Thm.v assembles the theorem. *)
From Coq Require Import ZArith QArith Qreals Reals List Bool.
From Coquelicot Require Import Coquelicot.
From Interval Require Import Tactic.
From Gen Require Import GenIAPWS GenTraced.
From P Require Import Expr RunR Deriv Potential Mono1 Mono2 Mono3.
Import ListNotations.
Close Scope Q_scope.
Open Scope R_scope.

Lemma m3_740_745_336 tk d : 740 <= tk <= 745 -> 336 <= d <= 420 -> 1/50 <= MM tk d.
Proof. intros H1 H2. expose3. interval with (i_bisect tk, i_bisect d, i_depth 24). Qed.

Lemma m3_750_755_336 tk d : 750 <= tk <= 755 -> 336 <= d <= 420 -> 1/50 <= MM tk d.
Proof. intros H1 H2. expose3. interval with (i_bisect tk, i_bisect d, i_depth 24). Qed.

Lemma m3_760_765_348 tk d : 760 <= tk <= 765 -> 348 <= d <= 416 -> 1/50 <= MM tk d.
Proof. intros H1 H2. expose3. interval with (i_bisect tk, i_bisect d, i_depth 24). Qed.

Lemma m3_770_775_416 tk d : 770 <= tk <= 775 -> 416 <= d <= 484 -> 1/50 <= MM tk d.
Proof. intros H1 H2. expose3. interval with (i_bisect tk, i_bisect d, i_depth 24). Qed.
