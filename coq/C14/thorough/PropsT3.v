(** C14 -- property theorems, THOROUGH TIER ONLY: pressure rises with density at fixed temperature for
    super (region 3) -- PARTIAL, on explicit rectangles of (t, d) covering the hottest part of region 3
    (467..590 degC; colder, incl. the whole critical neighbourhood 350..467 degC, is excluded); see Mono3Thm.v for what is not proved and why. *)
From Coq Require Import ZArith QArith Qreals Reals List.
From Gen Require Import GenIAPWS GenTraced.
From P Require Import Expr RunR Potential Mono3 Mono3Thm.
Import ListNotations.
Close Scope Q_scope.
Open Scope R_scope.

Theorem pressure_increases_with_density_region3_partial : forall t d1 d2 : R,
  467 <= t <= 590 -> d1 < d2 ->
  (t <= 486 -> 253 <= d1 /\ d2 <= 586) -> (486 < t <= 506 -> 281 <= d1 /\ d2 <= 552) ->
  (506 < t <= 527 -> 306 <= d1 /\ d2 <= 517) -> (527 < t <= 547 -> 329 <= d1 /\ d2 <= 483) ->
  (547 < t <= 567 -> 349 <= d1 /\ d2 <= 450) -> (567 < t -> 367 <= d1 /\ d2 <= 419) ->
  let P d := nth 0 (outsR super_traced [d; t] n3) 0 in
  P d1 < P d2.
Proof. exact pressure_increases_region3_partial_proof. Qed.
Print Assumptions pressure_increases_with_density_region3_partial.
