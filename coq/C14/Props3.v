(** C14 -- property theorems, part 3: end points by bit-exact evaluation of the traced double
    computation, and consistency of the literals the DAGs carry. *)
From Coq Require Import ZArith QArith List Bool.
From Coq Require PrimFloat.     (* not imported: Print Assumptions then prints the primitives with their module *)
From Gen Require Import GenIAPWS GenTraced.
From P Require Import Expr Endpoints.
Import ListNotations.
Close Scope Q_scope.

Theorem sat_tsat_lower_endpoint : inverse_within sat_F tsat_F t_triple tol_1e9 false = true.
Proof. exact sat_lower_endpoint. Qed.
Print Assumptions sat_tsat_lower_endpoint.

Theorem tsat_sat_at_pcritical : inverse_within tsat_F sat_F pcritical_F tol_1e9 true = true.
Proof. exact tsat_upper_endpoint_p. Qed.
Print Assumptions tsat_sat_at_pcritical.

Theorem tsat_sat_at_611_213 : inverse_within tsat_F sat_F p_611_213 tol_1e9 true = true.
Proof. exact tsat_lower_endpoint_p. Qed.
Print Assumptions tsat_sat_at_611_213.

Theorem b23_inverse_at_350 : inverse_within b23p_F b23t_F t_350 tol_1e8 false = true.
Proof. exact b23_endpoint_350. Qed.
Print Assumptions b23_inverse_at_350.

Theorem b23_inverse_at_590 : inverse_within b23p_F b23t_F t_590 tol_1e8 false = true.
Proof. exact b23_endpoint_590. Qed.
Print Assumptions b23_inverse_at_590.

(** every literal of every traced DAG carries one number (its exact rational = its double) *)
Theorem literals_consistent :
  forallb consts_consistent [cowat_nodes; supst_nodes; super_nodes; sat_nodes; tsat_nodes; b23p_nodes; b23t_nodes; region_nodes; visc_nodes] = true.
Proof. exact literals_consistent_proof. Qed.
Print Assumptions literals_consistent.
