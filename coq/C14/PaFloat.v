(** C14 -- the power_array model on doubles, for the bit-exact correspondence with the real
    IAPWS97.power_array (cases are generated per run; see tools/props/C14.py). *)
From Coq Require Import ZArith List Bool PrimFloat.
From P Require Import Chain Expr.
Import ListNotations.

Definition pa_F (x : float) (tbl : table) : fres :=
  match power_array_model 0%float 1%float PrimFloat.mul PrimFloat.div x tbl with
  | Some a => FRet (arr_to_list a)
  | None => FRaise
  end.

(** (case id, ((table number, x), whole array returned by the real function)) *)
Definition pa_case := (Z * ((Z * float) * fres))%type.

Definition pa_case_ok (tables : list table) (c : pa_case) : bool :=
  match nth_error tables (Z.to_nat (fst (fst (snd c)))) with
  | Some tbl => fres_eqb (pa_F (snd (fst (snd c))) tbl) (snd (snd c))
  | None => false
  end.

Definition bad_pa_cases (tables : list table) (cs : list pa_case) : list Z :=
  map fst (filter (fun c => negb (pa_case_ok tables c)) cs).
