(** C14 -- region 2: the constant pressure caps of the tile columns dominate the saturation
    pressure on their columns (one-variable interval lemmas on the traced sat formula), and two
    facts about pB23 used at the seams. *)
From Coq Require Import ZArith QArith Qreals Reals List Bool Lra.
From Interval Require Import Tactic.
From Gen Require Import GenIAPWS GenTraced.
From P Require Import Expr RunR Formulas SatInv SatRange B23.
Import ListNotations.
Close Scope Q_scope.
Open Scope R_scope.

Lemma b23p_pos tk : 623 <= tk <= 862 -> 16000000 <= b23p_val n23 tk.
Proof. intros H. expose23. interval with (i_bisect tk, i_depth 12). Qed.

(** the caps dominate the saturation / B23 pressure on their columns *)
Lemma sat_cap_0 tk : 13657/50 <= tk <= 300 -> sat_val n4 tk <= 4000.
Proof. intros H. expose. interval with (i_bisect tk, i_depth 14). Qed.
Lemma sat_cap_1 tk : 300 <= tk <= 330 -> sat_val n4 tk <= 18000.
Proof. intros H. expose. interval with (i_bisect tk, i_depth 14). Qed.
Lemma sat_cap_2 tk : 330 <= tk <= 360 -> sat_val n4 tk <= 63000.
Proof. intros H. expose. interval with (i_bisect tk, i_depth 14). Qed.
Lemma sat_cap_3 tk : 360 <= tk <= 400 -> sat_val n4 tk <= 246000.
Proof. intros H. expose. interval with (i_bisect tk, i_depth 14). Qed.
Lemma sat_cap_4 tk : 400 <= tk <= 450 -> sat_val n4 tk <= 933000.
Proof. intros H. expose. interval with (i_bisect tk, i_depth 14). Qed.
Lemma sat_cap_5 tk : 450 <= tk <= 475 -> sat_val n4 tk <= 1617000.
Proof. intros H. expose. interval with (i_bisect tk, i_depth 14). Qed.
Lemma sat_cap_6 tk : 475 <= tk <= 500 -> sat_val n4 tk <= 2641000.
Proof. intros H. expose. interval with (i_bisect tk, i_depth 14). Qed.
Lemma sat_cap_7 tk : 500 <= tk <= 525 -> sat_val n4 tk <= 4104000.
Proof. intros H. expose. interval with (i_bisect tk, i_depth 14). Qed.
Lemma sat_cap_8 tk : 525 <= tk <= 550 -> sat_val n4 tk <= 6121000.
Proof. intros H. expose. interval with (i_bisect tk, i_depth 14). Qed.
Lemma sat_cap_9 tk : 550 <= tk <= 575 -> sat_val n4 tk <= 8819000.
Proof. intros H. expose. interval with (i_bisect tk, i_depth 14). Qed.
Lemma sat_cap_10 tk : 575 <= tk <= 1175/2 -> sat_val n4 tk <= 10470000.
Proof. intros H. expose. interval with (i_bisect tk, i_depth 14). Qed.
Lemma sat_cap_11 tk : 1175/2 <= tk <= 600 -> sat_val n4 tk <= 12351000.
Proof. intros H. expose. interval with (i_bisect tk, i_depth 14). Qed.
Lemma sat_cap_12 tk : 600 <= tk <= 612 -> sat_val n4 tk <= 14398000.
Proof. intros H. expose. interval with (i_bisect tk, i_depth 14). Qed.
Lemma sat_cap_13 tk : 612 <= tk <= 618 -> sat_val n4 tk <= 15520000.
Proof. intros H. expose. interval with (i_bisect tk, i_depth 14). Qed.
Lemma sat_cap_14 tk : 618 <= tk <= 12463/20 -> sat_val n4 tk <= 16538000.
Proof. intros H. expose. interval with (i_bisect tk, i_depth 14). Qed.
Lemma b23_cap_last tk : 62314/100 <= tk <= 62315/100 -> b23p_val n23 tk <= 16538000.
Proof. intros H. expose23. interval with (i_bisect tk, i_depth 12). Qed.

