(** C14 -- viscosity is positive.

    [visc] = mustar * (100 sqrt(tau) / s0) * exp(delta * s1): positive as soon as the kelvin
    temperature and the dilute-gas sum s0 = h0 + h1 x + h2 x^2 + h3 x^3 (x = 1/tau = Tc/T) are
    positive.  The first part is a sign analysis of the DAG traced from the current source
    (Sign.v, sound over R, for ARBITRARY coefficients and ANY density); the second is interval
    arithmetic on s0 with the coefficients of the source for 0 <= t <= 800 degC.

    Not covered (over R division is total, and the tracer drops values nobody reads):
    power_array's unconditional [1.0 / value] raises ZeroDivisionError when delta - 1 = 0 as a
    Python float (finding visc:critical-density); the theorem is about the value path. *)
From Coq Require Import ZArith QArith Qreals Reals List Bool Lra.
From Interval Require Import Tactic.
From Gen Require Import GenIAPWS GenTraced.
From P Require Import Expr RunR Sign.
Import ListNotations.
Close Scope Q_scope.
Open Scope R_scope.

Definition pos_tk : nat := 129.                       (* final-environment position of t + tc_k *)
Definition pos_s0 : nat := cut_pos visc_nodes 4.      (* ... of the divisor s0 *)

Definition s0_val (h : nat -> R) (tk : R) : R :=
  let x := Q2R (1 # 1) / (tk / Q2R tcriticalk_Q) in
  h 0%nat * Q2R (1 # 1) + h 1%nat * x + h 2%nat * (x * x) + h 3%nat * (x * x * x).

Notation visc_env h d t :=
  (eval_nodes 0 (fun q _ => Q2R q) Rplus Rminus Rmult Rdiv Ropp sqrt exp (fun i => nth i [d; t] 0) h [] visc_nodes).

Lemma visc_env_tk h d t : nth pos_tk (visc_env h d t) 0 = t + Q2R tc_k_Q.
Proof.
  change visc_nodes with (firstn 4 visc_nodes ++ skipn 4 visc_nodes).
  rewrite eval_nodes_app.
  change pos_tk with (length (skipn 4 visc_nodes) + 0)%nat. rewrite ev_old. reflexivity.
Qed.

Lemma visc_env_s0 h d t : nth pos_s0 (visc_env h d t) 0 = s0_val h (t + Q2R tc_k_Q).
Proof.
  change visc_nodes with (firstn 42 visc_nodes ++ skipn 42 visc_nodes).
  rewrite eval_nodes_app.
  change pos_s0 with (length (skipn 42 visc_nodes) + 0)%nat. rewrite ev_old.
  cbv [firstn visc_nodes eval_nodes eval_node get nth s0_val tc_k_Q tcriticalk_Q]. reflexivity.
Qed.

Lemma visc_sign_check : nth 0 (sign_nodes [pos_tk; pos_s0] [] visc_nodes) false = true.
Proof. vm_compute. reflexivity. Qed.

(** any coefficients, any density *)
Theorem visc_positive_if (h : nat -> R) (d t v : R) :
  0 < t + Q2R tc_k_Q -> 0 < s0_val h (t + Q2R tc_k_Q) ->
  runsR visc_traced [d; t] h (RRet [v]) -> 0 < v.
Proof.
  intros Htk Hs0 H.
  unfold runsR, envR, evalR in H. change (t_nodes visc_traced) with visc_nodes in H.
  pose proof (sign_sound [pos_tk; pos_s0] (fun i => nth i [d; t] 0) h visc_nodes) as S.
  pose proof (visc_env_tk h d t) as Etk. pose proof (visc_env_s0 h d t) as Es0.
  set (env := visc_env h d t) in *. clearbody env.
  cbv [visc_traced t_paths some_pathR p_conds condsR p_out outR map] in H.
  destruct H as [[_ E]|[]]. injection E as E. subst v.
  apply S; [|exact visc_sign_check].
  intros pos [<-|[<-|[]]]; [rewrite Etk; exact Htk|rewrite Es0; exact Hs0].
Qed.

(** the coefficients of the source: h0v ++ h1v *)
Definition hv : nat -> R := coefR (h0v_Q ++ h1v_Q).

Lemma s0_pos tk : 273 <= tk <= 1074 -> 1 <= s0_val hv tk.
Proof.
  intros H. cbv [s0_val hv coefR nth app h0v_Q h1v_Q tcriticalk_Q]. unfold Q2R; cbn [Qnum Qden].
  interval with (i_bisect tk, i_depth 12).
Qed.

Theorem visc_positive_proof (d t v : R) : 0 <= t <= 800 ->
  runsR visc_traced [d; t] hv (RRet [v]) -> 0 < v.
Proof.
  intros H.
  assert (Hk : 273 <= t + Q2R tc_k_Q <= 1074) by (unfold Q2R, tc_k_Q; cbn [Qnum Qden]; lra).
  apply visc_positive_if; [lra|]. pose proof (s0_pos _ Hk). lra.
Qed.

(** visc always takes its single path: a value is returned for every argument (over R) *)
Theorem visc_returns (h : nat -> R) (d t : R) : exists v, runsR visc_traced [d; t] h (RRet [v]).
Proof. eexists. left. split; [exact I|reflexivity]. Qed.
