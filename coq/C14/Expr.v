(** C14/C15 -- arithmetic DAGs obtained by symbolic execution of the real Python functions
    (tools/props/c14_trace.py), with their interpretations:
      - [evalF]: PrimFloat, the double computation itself (bit-exact model: + - * / sqrt and
        comparisons are IEEE-754 operations on both sides);
      - [evalR]: real numbers (sqrt, exp from the standard library).
    A DAG is a list of nodes in evaluation order; operands are de Bruijn distances back
    from the node (0 = the node just before). *)
From Coq Require Import ZArith QArith List Bool PrimFloat FloatOps SpecFloat Reals Qreals.
Import ListNotations.

Inductive node :=
| NConst (q : Q) (f : float)     (* a literal / module constant: exact value and the double *)
| NVar (i : nat)                 (* i-th argument of the traced function *)
| NCoef (k : nat)                (* k-th entry of the function's coefficient list (symbolic) *)
| NAdd (a b : nat) | NSub (a b : nat) | NMul (a b : nat) | NDiv (a b : nat)
| NNeg (a : nat) | NSqrt (a : nat) | NExp (a : nat)
| NCut (atom : nat) (a : nat).   (* same value as node a; an indeterminate for the normaliser *)

Inductive cmp := CLe | CLt.
Record cond := { c_cmp : cmp; c_a : nat; c_b : nat; c_expect : bool }.   (* positions in the final env *)
Inductive outcome := ORet (l : list nat) | ONone | ORaise.     (* values / returns None / raises *)
Record path := { p_conds : list cond; p_out : outcome }.
Record traced := { t_nodes : list node; t_paths : list path }.

Section Eval.
  Context {A : Type}.
  Variables (dflt : A) (cst : Q -> float -> A) (add sub mul div : A -> A -> A)
            (neg sqrt_ exp_ : A -> A) (var coef : nat -> A).

  Definition get (env : list A) (d : nat) : A := nth d env dflt.

  Definition eval_node (env : list A) (n : node) : A :=
    match n with
    | NConst q f => cst q f
    | NVar i => var i
    | NCoef k => coef k
    | NAdd a b => add (get env a) (get env b)
    | NSub a b => sub (get env a) (get env b)
    | NMul a b => mul (get env a) (get env b)
    | NDiv a b => div (get env a) (get env b)
    | NNeg a => neg (get env a)
    | NSqrt a => sqrt_ (get env a)
    | NExp a => exp_ (get env a)
    | NCut _ a => get env a
    end.

  (** the environment is kept newest-first *)
  Fixpoint eval_nodes (env : list A) (ns : list node) : list A :=
    match ns with
    | [] => env
    | n :: r => eval_nodes (eval_node env n :: env) r
    end.
End Eval.

(** ** PrimFloat *)
Definition evalF (vars coefs : list float) (ns : list node) : list float :=
  eval_nodes nan (fun _ f => f) PrimFloat.add PrimFloat.sub PrimFloat.mul PrimFloat.div
             PrimFloat.opp PrimFloat.sqrt (fun _ => nan)
             (fun i => nth i vars nan) (fun k => nth k coefs nan) [] ns.

Definition cond_holdsF (env : list float) (c : cond) : bool :=
  let a := nth (c_a c) env nan in let b := nth (c_b c) env nan in
  Bool.eqb (match c_cmp c with CLe => PrimFloat.leb a b | CLt => PrimFloat.ltb a b end) (c_expect c).

Fixpoint select_path (env : list float) (ps : list path) : option path :=
  match ps with
  | [] => None
  | p :: r => if forallb (cond_holdsF env) (p_conds p) then Some p else select_path env r
  end.

(** result of the traced function on doubles *)
Inductive fres := FRet (l : list float) | FNone | FRaise | FNoPath.   (* FNoPath: no recorded path applies *)
Definition runF (t : traced) (coefs vars : list float) : fres :=
  let env := evalF vars coefs (t_nodes t) in
  match select_path env (t_paths t) with
  | None => FNoPath
  | Some p => match p_out p with
              | ORet l => FRet (map (fun i => nth i env nan) l)
              | ONone => FNone
              | ORaise => FRaise
              end
  end.

(** bit equality of doubles (nan = nan, +0 <> -0) *)
Definition sf_eqb (a b : spec_float) : bool :=
  match a, b with
  | S754_zero s, S754_zero s' => Bool.eqb s s'
  | S754_infinity s, S754_infinity s' => Bool.eqb s s'
  | S754_nan, S754_nan => true
  | S754_finite s m e, S754_finite s' m' e' => Bool.eqb s s' && Pos.eqb m m' && Z.eqb e e'
  | _, _ => false
  end.
Definition feqb (a b : float) : bool := sf_eqb (Prim2SF a) (Prim2SF b).

Fixpoint flist_eqb (a b : list float) : bool :=
  match a, b with
  | [], [] => true
  | x :: a', y :: b' => feqb x y && flist_eqb a' b'
  | _, _ => false
  end.

Definition fres_eqb (a b : fres) : bool :=
  match a, b with
  | FNone, FNone => true
  | FRaise, FRaise => true
  | FRet x, FRet y => flist_eqb x y
  | _, _ => false
  end.

(** a correspondence case: (id, (arguments, result of the real function)) *)
Definition fcase := (Z * (list float * fres))%type.

Definition case_okF (t : traced) (coefs : list float) (c : fcase) : bool :=
  fres_eqb (runF t coefs (fst (snd c))) (snd (snd c)).

Definition bad_casesF (t : traced) (coefs : list float) (cs : list fcase) : list Z :=
  map fst (filter (fun c => negb (case_okF t coefs c)) cs).

(** what the model computes, as integers (sign, mantissa, exponent) -- printed for the report *)
Definition show_float (x : float) : Z * Z * Z :=
  match Prim2SF x with
  | S754_zero s => ((if s then 1 else 0), 0, 0)%Z
  | S754_infinity s => ((if s then 1 else 0), (-1), 0)%Z
  | S754_nan => (0, (-2), 0)%Z
  | S754_finite s m e => ((if s then 1 else 0), Zpos m, e)%Z
  end.

(** exact value of a finite double (0 for inf/nan; only used in the literal-consistency check) *)
Definition float_to_Q (x : float) : option Q :=
  match Prim2SF x with
  | S754_zero _ => Some 0%Q
  | S754_finite s m e =>
      let mz := if s then Zneg m else Zpos m in
      Some (if (0 <=? e)%Z then inject_Z (mz * 2 ^ e) else Qmake mz (Z.to_pos (2 ^ (- e))))
  | _ => None
  end.

(** every literal of a DAG carries the same number twice (exact rational and double) *)
Definition consts_consistent (ns : list node) : bool :=
  forallb (fun n => match n with
                    | NConst q f => match float_to_Q f with Some q' => Qeq_bool q q' | None => false end
                    | _ => true end) ns.

(** ** Reals *)
Definition evalR (var coef : nat -> R) (ns : list node) : list R :=
  eval_nodes 0%R (fun q _ => Q2R q) Rplus Rminus Rmult Rdiv Ropp sqrt exp var coef [] ns.
