(** C14 -- region 1: density rises with pressure at fixed temperature.

    cowat's density is rho = p* / (R T g) with g = gamma_pi = - sum n_k I_k X^(I_k - 1) Y^J_k,
    X = 7.1 - p/p*, Y = T*/T - 1.222 (Potential.R1.outputs: what the traced DAG computes).
    dg/dp = gpp / p* with gpp = sum n_k I_k (I_k - 1) X^(I_k - 2) Y^J_k (termwise, proved with
    Coquelicot), so by the mean value theorem: where gpp < 0 on the segment between two
    pressures, g strictly decreases; where moreover g > 0, rho strictly increases.
    Mono1Tiles.v proves gpp < 0 on rectangles covering region 1 (interval arithmetic), Mono1Thm.v
    assembles the theorem. *)
From Coq Require Import ZArith QArith Qreals Reals List Bool Lra Lia.
From Coquelicot Require Import Coquelicot.
From Gen Require Import GenIAPWS GenTraced.
From P Require Import Expr RunR Deriv Potential.
Import ListNotations.
Close Scope Q_scope.
Open Scope R_scope.

Section Sums2.
  Variable n : nat -> R.
  Definition msum_dxx (x y : R) (l : list term3) : R :=
    fold_right (fun t acc => let '(i, j, k) := t in n k * IZR i * IZR (i - 1) * powerRZ x (i - 2) * powerRZ y j + acc) 0 l.

  Lemma is_derive_msum_dx_x (x y : R) (l : list term3) : x <> 0 ->
    is_derive (fun x' => msum_dx n x' y l) x (msum_dxx x y l).
  Proof.
    intros Hx. induction l as [|[[i j] k] r IH]; cbn [msum_dx msum_dxx fold_right].
    - apply (is_derive_const 0 x).
    - apply (is_derive_plus (fun x' => n k * IZR i * powerRZ x' (i - 1) * powerRZ y j) (fun x' => msum_dx n x' y r) x); [|exact IH].
      replace (n k * IZR i * IZR (i - 1) * powerRZ x (i - 2) * powerRZ y j)
        with (n k * IZR i * powerRZ y j * (IZR (i - 1) * powerRZ x (i - 1 - 1))).
      2:{ replace (i - 1 - 1)%Z with (i - 2)%Z by lia. ring. }
      apply (is_derive_ext (fun x' => n k * IZR i * powerRZ y j * powerRZ x' (i - 1))); [intros t; cbv beta; rring|].
      apply is_derive_scal. apply is_derive_powerRZ. exact Hx.
  Qed.

  (** g(p) = - msum_dx (c - p/s) y : dg/dp = msum_dxx / s *)
  Lemma is_derive_g (c s y p : R) (l : list term3) : s <> 0 -> c - p / s <> 0 ->
    is_derive (fun p' => - msum_dx n (c - p' / s) y l) p (msum_dxx (c - p / s) y l / s).
  Proof.
    intros Hs Hx.
    replace (msum_dxx (c - p / s) y l / s) with (opp (scal (- / s) (msum_dxx (c - p / s) y l)))
      by (unfold opp, scal; cbn; unfold mult; cbn; field; exact Hs).
    apply (is_derive_opp (fun p' => msum_dx n (c - p' / s) y l) p).
    apply (is_derive_comp (fun x' => msum_dx n x' y l) (fun p' => c - p' / s) p).
    - apply is_derive_msum_dx_x. exact Hx.
    - auto_derive; [exact I|]. field. exact Hs.
  Qed.

  (** mean value theorem for g between two pressures *)
  Lemma g_mvt (c s y p1 p2 : R) (l : list term3) : s <> 0 -> p1 < p2 ->
    (forall p, p1 <= p <= p2 -> c - p / s <> 0) ->
    exists q, p1 <= q <= p2 /\
      (- msum_dx n (c - p2 / s) y l) - (- msum_dx n (c - p1 / s) y l) = msum_dxx (c - q / s) y l / s * (p2 - p1).
  Proof.
    intros Hs Hlt Hx.
    pose proof (MVT_gen (fun p' => - msum_dx n (c - p' / s) y l) p1 p2 (fun q => msum_dxx (c - q / s) y l / s)) as M.
    cbv zeta in M. rewrite Rmin_left, Rmax_right in M by lra.
    apply M.
    - intros x Hxx. apply is_derive_g; [exact Hs|apply Hx; lra].
    - intros x Hxx. apply continuity_pt_filterlim. apply (ex_derive_continuous (fun p' => - msum_dx n (c - p' / s) y l) x).
      eexists. apply is_derive_g; [exact Hs|apply Hx; lra].
  Qed.
End Sums2.

(** ** the coefficients of the source *)
Definition n1 : nat -> R := coefR nr1_Q.
Definition X1 (p : R) : R := Q2R c7_1 - p / Q2R pstar1_Q.
Definition Y1 (tk : R) : R := Q2R tstar1_Q / tk - Q2R c1_222.
Definition g1 (tk p : R) : R := - msum_dx n1 (X1 p) (Y1 tk) R1.terms.      (* gamma_pi *)
Definition gpp (tk p : R) : R := msum_dxx n1 (X1 p) (Y1 tk) R1.terms.      (* gamma_pipi *)

(** everything down to numerals, + - * / and powerRZ with literal exponents: what [interval] reads *)
Ltac expose1 := unfold g1, gpp, X1, Y1; cbv - [Rplus Rmult Rminus Rdiv Ropp Rinv IZR powerRZ Rle Rlt].
