(** C14 -- region 1, gamma_pipi regrouped so that interval arithmetic closes
    in the hot near-saturation strip too.

    In gamma_pipi = sum n_k I_k (I_k - 1) X^(I_k - 2) Y^J_k the 1/9000 cancellation is entirely inside
    the last four terms, (I, J) = (29,-38), (30,-39), (31,-40), (32,-41): they are
        X^27 Y^-38 * G(z),   z = X / Y,   G(z) = a0 + a1 z + a2 z^2 + a3 z^3,  a_k = n_k I_k (I_k - 1),
    a cubic in ONE variable whose real root (z = 6.046) lies next to the saturation corner (z = 6.09 at
    350 degC).  Re-expanding G around z0 = 6.05,
        G(z) = g0 + g1 w + g2 w^2 + g3 w^3,   w = z - z0,
    with g_k the Taylor shift of the a_k (an identity for ANY coefficients, by [field]), leaves
    constants g_k that interval arithmetic computes once, and a sum without cancellation between
    box-dependent quantities.  [tail_is] ties the grouping to the exponent tables regenerated from
    the source. *)
From Coq Require Import ZArith QArith Qreals Reals List Bool Lra Lia.
From Coquelicot Require Import Coquelicot.
From Gen Require Import GenIAPWS GenTraced.
From P Require Import Expr RunR Deriv Potential Mono1.
Import ListNotations.
Close Scope Q_scope.
Open Scope R_scope.

Definition z0 : R := 605 / 100.
Definition terms_head : list term3 := firstn 30 R1.terms.
Definition terms_tail : list term3 := skipn 30 R1.terms.

Lemma terms_split : R1.terms = terms_head ++ terms_tail.
Proof. symmetry. apply firstn_skipn. Qed.
Lemma tail_is : terms_tail = [(29, -38, 30%nat); (30, -39, 31%nat); (31, -40, 32%nat); (32, -41, 33%nat)]%Z.
Proof. vm_compute. reflexivity. Qed.

Section Regroup.
  Variable n : nat -> R.

  Lemma msum_dxx_app x y (a b : list term3) : msum_dxx n x y (a ++ b) = msum_dxx n x y a + msum_dxx n x y b.
  Proof.
    unfold msum_dxx. induction a as [|[[i j] k] r IH]; cbn [app fold_right]; [lra|].
    rewrite IH. ring.
  Qed.

  Definition ca0 : R := n 30%nat * 29 * 28.
  Definition ca1 : R := n 31%nat * 30 * 29.
  Definition ca2 : R := n 32%nat * 31 * 30.
  Definition ca3 : R := n 33%nat * 32 * 31.
  Definition cg0 : R := ca0 + ca1 * z0 + ca2 * (z0 * z0) + ca3 * (z0 * z0 * z0).
  Definition cg1 : R := ca1 + 2 * ca2 * z0 + 3 * ca3 * (z0 * z0).
  Definition cg2 : R := ca2 + 3 * ca3 * z0.
  Definition cg3 : R := ca3.
  Definition quad (x y : R) : R :=
    let w := x / y - z0 in
    powerRZ x 27 * powerRZ y (-38) * (cg0 + cg1 * w + cg2 * (w * w) + cg3 * (w * w * w)).

  Lemma tail_regroup x y : x <> 0 -> y <> 0 -> msum_dxx n x y terms_tail = quad x y.
  Proof.
    intros Hx Hy. rewrite tail_is. cbn [msum_dxx fold_right].
    change (29 - 1)%Z with 28%Z. change (30 - 1)%Z with 29%Z. change (31 - 1)%Z with 30%Z. change (32 - 1)%Z with 31%Z.
    change (29 - 2)%Z with 27%Z. change (30 - 2)%Z with (27 + 1)%Z. change (31 - 2)%Z with (27 + 2)%Z. change (32 - 2)%Z with (27 + 3)%Z.
    change (-39)%Z with (-38 + -1)%Z. change (-40)%Z with (-38 + -2)%Z. change (-41)%Z with (-38 + -3)%Z.
    rewrite !(powerRZ_add x 27) by exact Hx. rewrite !(powerRZ_add y (-38)) by exact Hy.
    set (P := powerRZ x 27). set (Q := powerRZ y (-38)).
    cbn [powerRZ]. simpl pow.
    unfold quad, cg0, cg1, cg2, cg3, ca0, ca1, ca2, ca3. fold P. fold Q. cbv zeta.
    field. exact Hy.
  Qed.

  Definition dxxR (x y : R) : R := msum_dxx n x y terms_head + quad x y.
  Lemma dxx_regroup x y : x <> 0 -> y <> 0 -> msum_dxx n x y R1.terms = dxxR x y.
  Proof. intros Hx Hy. rewrite terms_split, msum_dxx_app, tail_regroup by assumption. reflexivity. Qed.
End Regroup.

Definition gppR (tk p : R) : R := dxxR n1 (X1 p) (Y1 tk).

Ltac exposeR := unfold gppR, dxxR, quad, cg0, cg1, cg2, cg3, ca0, ca1, ca2, ca3, z0, X1, Y1;
  cbv - [Rplus Rmult Rminus Rdiv Ropp Rinv IZR powerRZ Rle Rlt].
