(** C14 -- property theorems, part 4: the saturation line, the B23 boundary and the viscosity as
    theorems over R about the functions traced from the current source ([runsR]: values AND range
    tests).  Those that depend on the coefficient values of the source use interval arithmetic
    (Coq-Interval: Flocq / Coquelicot, primitive floats and 63-bit integers -- see the
    Print Assumptions output). *)
From Coq Require Import ZArith QArith Qreals Reals List.
From Gen Require Import GenIAPWS GenTraced.
From P Require Import Expr RunR Formulas SatInv B23 Visc.
Import ListNotations.
Close Scope Q_scope.
Open Scope R_scope.

(** what the traced sat / tsat compute over R, range tests included (any coefficients);
    [tsat_upper_Q] is the constant tsat compares its argument with, read off the traced DAG
    (pcritical in the source as it stands) *)
Theorem sat_over_R : forall (n : nat -> R) (t : R) (r : rres),
  runsR sat_traced [t] n r <->
  (0 <= t <= Q2R tcritical_Q /\ r = RRet [sat_val n (t + Q2R tc_k_Q)]) \/
  (~ (0 <= t <= Q2R tcritical_Q) /\ r = RNone).
Proof. exact sat_traced_is. Qed.
Print Assumptions sat_over_R.

Theorem tsat_over_R : forall (n : nat -> R) (p : R) (r : rres),
  runsR tsat_traced [p] n r <->
  (Q2R p_611_213_Q <= p <= Q2R tsat_upper_Q /\ r = RRet [tsat_val n p]) \/
  (~ (Q2R p_611_213_Q <= p <= Q2R tsat_upper_Q) /\ r = RNone).
Proof. exact tsat_traced_is. Qed.
Print Assumptions tsat_over_R.

(** the quadratic-root algebra, for ARBITRARY real coefficients: tsat's formula undoes sat's ... *)
Theorem tsat_of_sat_exact_under_sign_conditions : forall (n : nat -> R) (tk : R),
  let th := theta_of n tk in
  let b := beta_of n th in
  tk - n 9%nat <> 0 -> 0 <= disc1 n th -> den1 n th <> 0 -> 0 <= b ->
  0 <= 2 * qE n (b * b) b * th + qF n (b * b) b -> qE n (b * b) b * th + qF n (b * b) b <> 0 ->
  0 <= n 9%nat + th - 2 * tk ->
  tsat_val n (sat_val n tk) = tk - Q2R tc_k_Q.
Proof. exact tsat_of_sat_algebra. Qed.
Print Assumptions tsat_of_sat_exact_under_sign_conditions.

(** ... and sat's formula undoes tsat's *)
Theorem sat_of_tsat_exact_under_sign_conditions : forall (n : nat -> R) (p : R),
  let b2 := sqrt (p / Q2R pstar4_Q) in
  let b := sqrt b2 in
  let d := dd_of n b2 b in
  let tk := tk_of n d in
  0 <= p -> 0 <= disc2 n b2 b -> den2 n b2 b <> 0 -> 0 <= disc3 n d -> tk - n 9%nat <> 0 ->
  2 * qA n d * b + qB n d <= 0 -> qA n d * b + qB n d <> 0 ->
  sat_val n (tsat_val n p + Q2R tc_k_Q) = p.
Proof. exact sat_of_tsat_algebra. Qed.
Print Assumptions sat_of_tsat_exact_under_sign_conditions.

(** B23: what the traced functions compute *)
Theorem b23p_over_R : forall (n : nat -> R) (t : R) (r : rres),
  runsR b23p_traced [t] n r <-> r = RRet [b23p_val n (t + Q2R tc_k_Q)].
Proof. exact b23p_traced_is. Qed.
Print Assumptions b23p_over_R.

Theorem b23t_over_R : forall (n : nat -> R) (p : R) (r : rres),
  runsR b23t_traced [p] n r <-> r = RRet [b23t_val n p].
Proof. exact b23t_traced_is. Qed.
Print Assumptions b23t_over_R.

(** viscosity: positive for ANY coefficients and ANY density once T > 0 and the dilute-gas sum is positive ... *)
Theorem visc_positive_any_coefficients : forall (h : nat -> R) (d t v : R),
  0 < t + Q2R tc_k_Q -> 0 < s0_val h (t + Q2R tc_k_Q) ->
  runsR visc_traced [d; t] h (RRet [v]) -> 0 < v.
Proof. exact visc_positive_if. Qed.
Print Assumptions visc_positive_any_coefficients.
