(** C14 -- property theorems, part 8: the saturation line, the B23 boundary and the viscosity as
    theorems over R about the functions traced from the current source ([runsR]: values AND range
    tests).  Those that depend on the coefficient values of the source use interval arithmetic
    (Coq-Interval: Flocq / Coquelicot, primitive floats and 63-bit integers -- see the
    Print Assumptions output). *)
From Coq Require Import ZArith QArith Qreals Reals List.
From Gen Require Import GenIAPWS GenTraced.
From P Require Import Expr RunR Formulas B23.
Import ListNotations.
Close Scope Q_scope.
Open Scope R_scope.

(** the two published forms are inverse to within 2e-10 K on the whole boundary 350..590 degC ... *)
Theorem b23t_of_b23p_within_2e_10_K : forall t : R, 350 <= t <= 590 ->
  0 < b23t_val n23 (b23p_val n23 (t + Q2R tc_k_Q)) - t <= 2 / 10000000000.
Proof. exact b23t_of_b23p_close. Qed.
Print Assumptions b23t_of_b23p_within_2e_10_K.


(** ... but NOT exactly: exactness over R is refuted (the IF97 coefficients are rounded independently) *)
Theorem b23_exact_inverse_refuted_over_R :
  exists t, 350 <= t <= 590 /\ b23t_val n23 (b23p_val n23 (t + Q2R tc_k_Q)) <> t.
Proof. exact b23_not_exact_proof. Qed.
Print Assumptions b23_exact_inverse_refuted_over_R.
