(** C14 -- region 1: density rises with pressure at fixed temperature -- on ALL of region 1
    (0 <= t <= 350 degC, 0 <= p <= 100 MPa: region 1 and the metastable liquid below psat).

    gamma_pipi < 0 on the whole box 273 <= T <= 624 K, 0 <= p <= 100 MPa: ONE call of interval
    arithmetic on the regrouped sum of Mono1R.v (the naive 34-term sum cancels to 1/9000 of its
    largest term near (350 degC, psat) and did not close there; after re-expanding the cubic in
    z = X/Y carried by the last four terms the box closes in 4 s).  Then the mean value theorem. *)
From Coq Require Import ZArith QArith Qreals Reals List Bool Lra.
From Coquelicot Require Import Coquelicot.
From Interval Require Import Tactic.
From Gen Require Import GenIAPWS GenTraced.
From P Require Import Expr RunR Deriv Potential Mono1 Mono1R.
Import ListNotations.
Close Scope Q_scope.
Open Scope R_scope.

Definition in_dom1 (tk p : R) : Prop := 273 <= tk <= 624 /\ 0 <= p <= 100000000.

Lemma gppR_neg tk p : 273 <= tk <= 624 -> 0 <= p <= 100000000 -> gppR tk p <= -1/100000.
Proof. intros H1 H2. exposeR. interval with (i_bisect tk, i_bisect p, i_depth 22). Qed.

Lemma X1_pos p : 0 <= p <= 100000000 -> 1 <= X1 p.
Proof. intros H. unfold X1, Q2R, c7_1, pstar1_Q; cbn [Qnum Qden]. interval. Qed.
Lemma Y1_pos tk : 273 <= tk <= 624 -> 99/100 <= Y1 tk.
Proof. intros H. unfold Y1, Q2R, tstar1_Q, c1_222; cbn [Qnum Qden]. interval. Qed.

Lemma gpp_neg tk p : in_dom1 tk p -> gpp tk p < 0.
Proof.
  intros (Ht & Hp). pose proof (X1_pos p Hp). pose proof (Y1_pos tk Ht).
  unfold gpp. rewrite dxx_regroup by lra. pose proof (gppR_neg tk p Ht Hp) as N. unfold gppR in N. lra.
Qed.

(** gamma_pi is positive on the 100 MPa edge ... *)
Lemma g1_pos_at_100MPa tk : 273 <= tk <= 624 -> 1/100 <= g1 tk 100000000.
Proof. intros H. expose1. interval with (i_bisect tk, i_depth 14). Qed.

Lemma pstar1_pos : 0 < Q2R pstar1_Q.
Proof. unfold Q2R, pstar1_Q; cbn [Qnum Qden]. lra. Qed.

(** ... and strictly decreasing in p on the domain (mean value theorem), hence positive on it *)
Lemma g1_decreasing tk p1 p2 : in_dom1 tk p1 -> p1 < p2 <= 100000000 -> g1 tk p2 < g1 tk p1.
Proof.
  intros D1 Hp. pose proof pstar1_pos as Hs.
  destruct D1 as (Ht & Hp1).
  destruct (g_mvt n1 (Q2R c7_1) (Q2R pstar1_Q) (Y1 tk) p1 p2 R1.terms ltac:(lra) ltac:(lra)) as (q & Hq & E).
  { intros p Hpp. pose proof (X1_pos p ltac:(lra)) as Q. unfold X1 in Q. lra. }
  assert (Dq : in_dom1 tk q) by (split; lra).
  pose proof (gpp_neg tk q Dq) as N. unfold gpp, X1 in N. unfold g1, X1.
  set (d := msum_dxx n1 (Q2R c7_1 - q / Q2R pstar1_Q) (Y1 tk) R1.terms) in *.
  assert (K : 0 < (- d) * / Q2R pstar1_Q * (p2 - p1)).
  { apply Rmult_lt_0_compat; [apply Rmult_lt_0_compat; [lra|apply Rinv_0_lt_compat; exact Hs]|lra]. }
  replace (d / Q2R pstar1_Q * (p2 - p1)) with (- ((- d) * / Q2R pstar1_Q * (p2 - p1))) in E by (unfold Rdiv; ring).
  lra.
Qed.

Lemma g1_pos tk p : in_dom1 tk p -> 1/100 <= g1 tk p.
Proof.
  intros D1. pose proof (g1_pos_at_100MPa tk ltac:(destruct D1; lra)) as G.
  destruct (Rlt_dec p 100000000) as [L|L].
  - pose proof (g1_decreasing tk p 100000000 D1 ltac:(lra)). lra.
  - assert (p = 100000000) by (destruct D1 as (_ & ?); lra). subst p. exact G.
Qed.

(** what the traced cowat returns as density, on the domain *)
Lemma cowat_density t p : in_dom1 (t + Q2R tc_k_Q) p ->
  nth 0 (outsR cowat_traced [t; p] n1) 0 = Q2R pstar1_Q / (Q2R rconst_Q * (t + Q2R tc_k_Q) * g1 (t + Q2R tc_k_Q) p).
Proof.
  intros D1. pose proof (g1_pos _ _ D1) as G. destruct D1 as (Ht & Hp).
  pose proof (X1_pos p ltac:(lra)) as HX. pose proof (Y1_pos _ Ht) as HY.
  assert (HR : 0 < Q2R rconst_Q) by (unfold Q2R, rconst_Q; cbn [Qnum Qden]; lra).
  rewrite (R1.outputs t p n1).
  - reflexivity.
  - lra.
  - unfold X1 in HX. lra.
  - unfold Y1 in HY. lra.
  - unfold g1, X1, Y1 in G. apply Rgt_not_eq. apply Rmult_lt_0_compat; [apply Rmult_lt_0_compat; lra|lra].
Qed.

Theorem density_increases_region1_proof (t p1 p2 : R) :
  0 <= t <= 350 -> 0 <= p1 -> p1 < p2 <= 100000000 ->
  let rho p := nth 0 (outsR cowat_traced [t; p] n1) 0 in
  0 < rho p1 < rho p2.
Proof.
  intros Ht Hp1 Hp2 rho.
  assert (Hk : 27314/100 <= t + Q2R tc_k_Q <= 62316/100) by (unfold Q2R, tc_k_Q; cbn [Qnum Qden]; lra).
  assert (D1 : in_dom1 (t + Q2R tc_k_Q) p1) by (split; lra).
  assert (D2 : in_dom1 (t + Q2R tc_k_Q) p2) by (split; lra).
  set (tk := t + Q2R tc_k_Q) in *.
  unfold rho. rewrite (cowat_density t p1 D1), (cowat_density t p2 D2). fold tk.
  pose proof (g1_pos tk p2 D2) as G2. pose proof (g1_decreasing tk p1 p2 D1 Hp2) as Gd.
  pose proof pstar1_pos as Hps.
  assert (HR : 0 < Q2R rconst_Q) by (unfold Q2R, rconst_Q; cbn [Qnum Qden]; lra).
  assert (B : 0 < Q2R rconst_Q * tk) by (apply Rmult_lt_0_compat; lra).
  set (b := Q2R rconst_Q * tk) in *. set (a := Q2R pstar1_Q) in *.
  set (x1 := g1 tk p1) in *. set (x2 := g1 tk p2) in *.
  assert (P1 : 0 < b * x1) by (apply Rmult_lt_0_compat; lra).
  assert (P2 : 0 < b * x2) by (apply Rmult_lt_0_compat; lra).
  split.
  - apply Rdiv_lt_0_compat; assumption.
  - unfold Rdiv. apply Rmult_lt_compat_l; [exact Hps|].
    apply Rinv_lt_contravar; [apply Rmult_lt_0_compat; assumption|].
    apply Rmult_lt_compat_l; assumption.
Qed.

(** non-vacuity: a liquid state at 200 degC, and saturated liquid at 349 degC *)
Example density_increases_instance :
  let rho p := nth 0 (outsR cowat_traced [200; p] n1) 0 in 0 < rho 5000000 < rho 6000000.
Proof. apply density_increases_region1_proof; lra. Qed.
Example density_increases_instance_hot :
  let rho p := nth 0 (outsR cowat_traced [349; p] n1) 0 in 0 < rho 16400000 < rho 17000000.
Proof. apply density_increases_region1_proof; lra. Qed.
