(** C14 -- region 1: density rises with pressure at fixed temperature -- PARTIAL domain.

    Proved for the part of region 1 (and of the metastable liquid below the saturation
    pressure) on which plain interval arithmetic closes the sign of gamma_pipi:
        0 <= t <= 260 degC:    0       <= p <= 100 MPa      (includes the metastable liquid below psat)
        260 < t <= 285 degC:   psat(t) <= p <= 100 MPa      (all of region 1 at these temperatures)
        285 < t <= 300 degC:   12.5 MPa <= p;   300 < t <= 312: 17.5 MPa <= p;   312 < t <= 326: 25 MPa <= p;
        326 < t <= 338 degC:   30 MPa <= p;     338 < t <= 350: 40 MPa <= p
    (39 rectangles; the lower pressure limits follow the line where the 34-term sum cancels to about
    1/200 of its largest term).  In the remaining strip between the saturation curve and those limits
    the cancellation reaches 1/9000; bisection in two variables does not close there (measured, see
    reports/C14.md); that part stays with the sampled oracle. *)
From Coq Require Import ZArith QArith Qreals Reals List Bool Lra.
From Coquelicot Require Import Coquelicot.
From Interval Require Import Tactic.
From Gen Require Import GenIAPWS GenTraced.
From P Require Import Expr RunR Deriv Potential Mono1
  Mono1TilesA Mono1TilesB Mono1TilesC Mono1TilesD Mono1TilesE Mono1TilesF Mono1TilesG Mono1TilesH
  Mono1TilesI Mono1TilesJ Mono1TilesK Mono1TilesL Mono1TilesM Mono1TilesN Formulas SatInv SatRange.
Import ListNotations.
Close Scope Q_scope.
Open Scope R_scope.

Definition plow1 (tk : R) : R :=
  if Rle_dec tk 300 then 0 else
  if Rle_dec tk 350 then 0 else
  if Rle_dec tk 400 then 0 else
  if Rle_dec tk 450 then 0 else
  if Rle_dec tk 500 then 0 else
  if Rle_dec tk 534 then 0 else
  if Rle_dec tk 545 then 4700000 else
  if Rle_dec tk 560 then 5600000 else
  if Rle_dec tk 574 then 12500000 else
  if Rle_dec tk 586 then 17500000 else
  if Rle_dec tk 600 then 25000000 else
  if Rle_dec tk 612 then 30000000 else
  40000000.

Definition in_dom1 (tk p : R) : Prop := 273 <= tk <= 624 /\ (0 <= p /\ plow1 tk <= p <= 100000000).

(** the rectangles of Mono1Tiles*.v cover the domain *)
Lemma gpp_neg tk p : in_dom1 tk p -> gpp tk p < 0.
Proof.
  intros (Ht & Hp). unfold plow1 in Hp. revert Hp.
  destruct (Rle_dec tk 300).
  { intros Hp.
    destruct (Rle_dec p 12500000); [pose proof (tile_273_300_0_125 tk p ltac:(lra) ltac:(lra)); lra|].
    destruct (Rle_dec p 25000000); [pose proof (tile_273_300_125_250 tk p ltac:(lra) ltac:(lra)); lra|].
    destruct (Rle_dec p 50000000); [pose proof (tile_273_300_250_500 tk p ltac:(lra) ltac:(lra)); lra|].
    pose proof (tile_273_300_500_1000 tk p ltac:(lra) ltac:(lra)); lra.
  }
  destruct (Rle_dec tk 350).
  { intros Hp.
    destruct (Rle_dec p 12500000); [pose proof (tile_300_350_0_125 tk p ltac:(lra) ltac:(lra)); lra|].
    destruct (Rle_dec p 25000000); [pose proof (tile_300_350_125_250 tk p ltac:(lra) ltac:(lra)); lra|].
    destruct (Rle_dec p 50000000); [pose proof (tile_300_350_250_500 tk p ltac:(lra) ltac:(lra)); lra|].
    pose proof (tile_300_350_500_1000 tk p ltac:(lra) ltac:(lra)); lra.
  }
  destruct (Rle_dec tk 400).
  { intros Hp.
    destruct (Rle_dec p 12500000); [pose proof (tile_350_400_0_125 tk p ltac:(lra) ltac:(lra)); lra|].
    destruct (Rle_dec p 25000000); [pose proof (tile_350_400_125_250 tk p ltac:(lra) ltac:(lra)); lra|].
    destruct (Rle_dec p 50000000); [pose proof (tile_350_400_250_500 tk p ltac:(lra) ltac:(lra)); lra|].
    pose proof (tile_350_400_500_1000 tk p ltac:(lra) ltac:(lra)); lra.
  }
  destruct (Rle_dec tk 450).
  { intros Hp.
    destruct (Rle_dec p 12500000); [pose proof (tile_400_450_0_125 tk p ltac:(lra) ltac:(lra)); lra|].
    destruct (Rle_dec p 25000000); [pose proof (tile_400_450_125_250 tk p ltac:(lra) ltac:(lra)); lra|].
    destruct (Rle_dec p 50000000); [pose proof (tile_400_450_250_500 tk p ltac:(lra) ltac:(lra)); lra|].
    pose proof (tile_400_450_500_1000 tk p ltac:(lra) ltac:(lra)); lra.
  }
  destruct (Rle_dec tk 500).
  { intros Hp.
    destruct (Rle_dec p 12500000); [pose proof (tile_450_500_0_125 tk p ltac:(lra) ltac:(lra)); lra|].
    destruct (Rle_dec p 25000000); [pose proof (tile_450_500_125_250 tk p ltac:(lra) ltac:(lra)); lra|].
    destruct (Rle_dec p 50000000); [pose proof (tile_450_500_250_500 tk p ltac:(lra) ltac:(lra)); lra|].
    pose proof (tile_450_500_500_1000 tk p ltac:(lra) ltac:(lra)); lra.
  }
  destruct (Rle_dec tk 534).
  { intros Hp.
    destruct (Rle_dec p 12500000); [pose proof (tile_500_534_0_125 tk p ltac:(lra) ltac:(lra)); lra|].
    destruct (Rle_dec p 25000000); [pose proof (tile_500_534_125_250 tk p ltac:(lra) ltac:(lra)); lra|].
    destruct (Rle_dec p 50000000); [pose proof (tile_500_534_250_500 tk p ltac:(lra) ltac:(lra)); lra|].
    pose proof (tile_500_534_500_1000 tk p ltac:(lra) ltac:(lra)); lra.
  }
  destruct (Rle_dec tk 545).
  { intros Hp.
    destruct (Rle_dec p 25000000); [pose proof (tile_534_545_47_250 tk p ltac:(lra) ltac:(lra)); lra|].
    destruct (Rle_dec p 50000000); [pose proof (tile_534_560_250_500 tk p ltac:(lra) ltac:(lra)); lra|].
    pose proof (tile_534_560_500_1000 tk p ltac:(lra) ltac:(lra)); lra.
  }
  destruct (Rle_dec tk 560).
  { intros Hp.
    destruct (Rle_dec p 25000000); [pose proof (tile_545_560_56_250 tk p ltac:(lra) ltac:(lra)); lra|].
    destruct (Rle_dec p 50000000); [pose proof (tile_534_560_250_500 tk p ltac:(lra) ltac:(lra)); lra|].
    pose proof (tile_534_560_500_1000 tk p ltac:(lra) ltac:(lra)); lra.
  }
  destruct (Rle_dec tk 574).
  { intros Hp.
    destruct (Rle_dec p 25000000); [pose proof (tile_560_574_125_250 tk p ltac:(lra) ltac:(lra)); lra|].
    destruct (Rle_dec p 50000000); [pose proof (tile_560_574_250_500 tk p ltac:(lra) ltac:(lra)); lra|].
    pose proof (tile_560_574_500_1000 tk p ltac:(lra) ltac:(lra)); lra.
  }
  destruct (Rle_dec tk 586).
  { intros Hp.
    destruct (Rle_dec p 27500000); [pose proof (tile_574_586_175_275 tk p ltac:(lra) ltac:(lra)); lra|].
    destruct (Rle_dec p 50000000); [pose proof (tile_574_586_275_500 tk p ltac:(lra) ltac:(lra)); lra|].
    pose proof (tile_574_600_500_1000 tk p ltac:(lra) ltac:(lra)); lra.
  }
  destruct (Rle_dec tk 600).
  { intros Hp.
    destruct (Rle_dec p 50000000); [pose proof (tile_586_600_250_500 tk p ltac:(lra) ltac:(lra)); lra|].
    pose proof (tile_574_600_500_1000 tk p ltac:(lra) ltac:(lra)); lra.
  }
  destruct (Rle_dec tk 612).
  { intros Hp.
    destruct (Rle_dec p 50000000); [pose proof (tile_600_612_300_500 tk p ltac:(lra) ltac:(lra)); lra|].
    pose proof (tile_600_612_500_1000 tk p ltac:(lra) ltac:(lra)); lra.
  }
  intros Hp.
  destruct (Rle_dec p 50000000); [pose proof (tile_612_624_400_500 tk p ltac:(lra) ltac:(lra)); lra|].
  pose proof (tile_612_624_500_1000 tk p ltac:(lra) ltac:(lra)); lra.
Qed.

(** gamma_pi is positive on the 100 MPa edge ... *)
Lemma g1_pos_at_100MPa tk : 273 <= tk <= 624 -> 1/100 <= g1 tk 100000000.
Proof. intros H. expose1. interval with (i_bisect tk, i_depth 14). Qed.

Lemma X1_pos p : 0 <= p <= 100000000 -> 1 <= X1 p.
Proof. intros H. unfold X1, Q2R, c7_1, pstar1_Q; cbn [Qnum Qden]. interval. Qed.
Lemma Y1_pos tk : 273 <= tk <= 624 -> 99/100 <= Y1 tk.
Proof. intros H. unfold Y1, Q2R, tstar1_Q, c1_222; cbn [Qnum Qden]. interval. Qed.
Lemma pstar1_pos : 0 < Q2R pstar1_Q.
Proof. unfold Q2R, pstar1_Q; cbn [Qnum Qden]. lra. Qed.

(** ... and strictly decreasing in p on the domain (mean value theorem), hence positive on it *)
Lemma g1_decreasing tk p1 p2 : in_dom1 tk p1 -> p1 < p2 <= 100000000 -> g1 tk p2 < g1 tk p1.
Proof.
  intros D1 Hp. pose proof pstar1_pos as Hs.
  destruct D1 as (Ht & Hp0 & Hp1).
  destruct (g_mvt n1 (Q2R c7_1) (Q2R pstar1_Q) (Y1 tk) p1 p2 R1.terms ltac:(lra) ltac:(lra)) as (q & Hq & E).
  { intros p Hpp. pose proof (X1_pos p ltac:(lra)) as Q. unfold X1 in Q. lra. }
  assert (Dq : in_dom1 tk q) by (split; [lra|split; lra]).
  pose proof (gpp_neg tk q Dq) as N. unfold gpp, X1 in N. unfold g1, X1.
  set (d := msum_dxx n1 (Q2R c7_1 - q / Q2R pstar1_Q) (Y1 tk) R1.terms) in *.
  assert (K : 0 < (- d) * / Q2R pstar1_Q * (p2 - p1)).
  { apply Rmult_lt_0_compat; [apply Rmult_lt_0_compat; [lra|apply Rinv_0_lt_compat; exact Hs]|lra]. }
  replace (d / Q2R pstar1_Q * (p2 - p1)) with (- ((- d) * / Q2R pstar1_Q * (p2 - p1))) in E by (unfold Rdiv; ring).
  lra.
Qed.

Lemma g1_pos tk p : in_dom1 tk p -> 1/100 <= g1 tk p.
Proof.
  intros D1. pose proof (g1_pos_at_100MPa tk ltac:(destruct D1; lra)) as G.
  destruct (Rlt_dec p 100000000) as [L|L].
  - pose proof (g1_decreasing tk p 100000000 D1 ltac:(lra)). lra.
  - assert (p = 100000000) by (destruct D1 as (_ & _ & ?); lra). subst p. exact G.
Qed.

(** what the traced cowat returns as density, on the domain *)
Lemma cowat_density t p : in_dom1 (t + Q2R tc_k_Q) p ->
  nth 0 (outsR cowat_traced [t; p] n1) 0 = Q2R pstar1_Q / (Q2R rconst_Q * (t + Q2R tc_k_Q) * g1 (t + Q2R tc_k_Q) p).
Proof.
  intros D1. pose proof (g1_pos _ _ D1) as G. destruct D1 as (Ht & Hp0 & Hp).
  pose proof (X1_pos p ltac:(lra)) as HX. pose proof (Y1_pos _ Ht) as HY.
  assert (HR : 0 < Q2R rconst_Q) by (unfold Q2R, rconst_Q; cbn [Qnum Qden]; lra).
  rewrite (R1.outputs t p n1).
  - reflexivity.
  - lra.
  - unfold X1 in HX. lra.
  - unfold Y1 in HY. lra.
  - unfold g1, X1, Y1 in G. apply Rgt_not_eq. apply Rmult_lt_0_compat; [apply Rmult_lt_0_compat; lra|lra].
Qed.

(** the saturation pressure on the two columns where the domain reaches down to it *)
Lemma sat_floor_a tk : 534 <= tk <= 545 -> 4700000 <= sat_val n4 tk.
Proof. intros H. expose. interval with (i_bisect tk, i_depth 14). Qed.
Lemma sat_floor_b tk : 545 <= tk <= 560 -> 5600000 <= sat_val n4 tk.
Proof. intros H. expose. interval with (i_bisect tk, i_depth 14). Qed.

(** the stated conditions on (t, p) put (tk, p) in the tiled domain *)
Lemma in_dom1_of_conditions t p :
  0 <= t <= 350 -> 0 <= p <= 100000000 ->
  (260 < t <= 285 -> sat_val n4 (t + Q2R tc_k_Q) <= p) ->
  (285 < t -> 12500000 <= p) -> (300 < t -> 17500000 <= p) -> (312 < t -> 25000000 <= p) ->
  (326 < t -> 30000000 <= p) -> (338 < t -> 40000000 <= p) ->
  in_dom1 (t + Q2R tc_k_Q) p.
Proof.
  intros Ht Hp Hs H1 H2 H3 H4 H5.
  assert (Hk : t + 27314/100 <= t + Q2R tc_k_Q <= t + 27315/100) by (unfold Q2R, tc_k_Q; cbn [Qnum Qden]; lra).
  set (tk := t + Q2R tc_k_Q) in *.
  split; [lra|]. split; [lra|]. split; [|lra]. unfold plow1.
  repeat (destruct (Rle_dec tk _) as [?|?]; [lra|]).
  destruct (Rle_dec tk 545).
  { pose proof (Hs ltac:(lra)). pose proof (sat_floor_a tk ltac:(lra)). lra. }
  destruct (Rle_dec tk 560).
  { destruct (Rle_dec t 285); [pose proof (Hs ltac:(lra)); pose proof (sat_floor_b tk ltac:(lra)); lra|pose proof (H1 ltac:(lra)); lra]. }
  destruct (Rle_dec tk 574); [pose proof (H1 ltac:(lra)); lra|].
  destruct (Rle_dec tk 586); [pose proof (H2 ltac:(lra)); lra|].
  destruct (Rle_dec tk 600); [pose proof (H3 ltac:(lra)); lra|].
  destruct (Rle_dec tk 612); [pose proof (H4 ltac:(lra)); lra|].
  pose proof (H5 ltac:(lra)); lra.
Qed.

Theorem density_increases_region1_partial_proof (t p1 p2 : R) :
  0 <= t <= 350 -> 0 <= p1 -> p1 < p2 <= 100000000 ->
  (260 < t <= 285 -> sat_val n4 (t + Q2R tc_k_Q) <= p1) ->
  (285 < t -> 12500000 <= p1) -> (300 < t -> 17500000 <= p1) -> (312 < t -> 25000000 <= p1) ->
  (326 < t -> 30000000 <= p1) -> (338 < t -> 40000000 <= p1) ->
  let rho p := nth 0 (outsR cowat_traced [t; p] n1) 0 in
  0 < rho p1 < rho p2.
Proof.
  intros Ht Hp1 Hp2 Hs H1 H2 H3 H4 H5 rho.
  assert (D1 : in_dom1 (t + Q2R tc_k_Q) p1) by (apply in_dom1_of_conditions; try assumption; lra).
  assert (D2 : in_dom1 (t + Q2R tc_k_Q) p2).
  { apply in_dom1_of_conditions; try lra; intros Hh;
      first [pose proof (Hs Hh); lra|pose proof (H1 Hh); lra|pose proof (H2 Hh); lra|pose proof (H3 Hh); lra
            |pose proof (H4 Hh); lra|pose proof (H5 Hh); lra]. }
  assert (Hk : 27314/100 <= t + Q2R tc_k_Q <= 62316/100) by (unfold Q2R, tc_k_Q; cbn [Qnum Qden]; lra).
  set (tk := t + Q2R tc_k_Q) in *.
  unfold rho. rewrite (cowat_density t p1 D1), (cowat_density t p2 D2). fold tk.
  pose proof (g1_pos tk p2 D2) as G2. pose proof (g1_decreasing tk p1 p2 D1 Hp2) as Gd.
  pose proof pstar1_pos as Hps.
  assert (HR : 0 < Q2R rconst_Q) by (unfold Q2R, rconst_Q; cbn [Qnum Qden]; lra).
  assert (B : 0 < Q2R rconst_Q * tk) by (apply Rmult_lt_0_compat; lra).
  set (b := Q2R rconst_Q * tk) in *. set (a := Q2R pstar1_Q) in *.
  set (x1 := g1 tk p1) in *. set (x2 := g1 tk p2) in *.
  assert (P1 : 0 < b * x1) by (apply Rmult_lt_0_compat; lra).
  assert (P2 : 0 < b * x2) by (apply Rmult_lt_0_compat; lra).
  split.
  - apply Rdiv_lt_0_compat; assumption.
  - unfold Rdiv. apply Rmult_lt_compat_l; [exact Hps|].
    apply Rinv_lt_contravar; [apply Rmult_lt_0_compat; assumption|].
    apply Rmult_lt_compat_l; assumption.
Qed.

(** non-vacuity: a liquid state at 200 degC, and one at 330 degC *)
Example density_increases_instance :
  let rho p := nth 0 (outsR cowat_traced [200; p] n1) 0 in 0 < rho 5000000 < rho 6000000.
Proof. apply density_increases_region1_partial_proof; lra. Qed.
Example density_increases_instance_hot :
  let rho p := nth 0 (outsR cowat_traced [330; p] n1) 0 in 0 < rho 30000000 < rho 31000000.
Proof. apply density_increases_region1_partial_proof; lra. Qed.
