(** C14 -- property theorems, part 9: the saturation line, the B23 boundary and the viscosity as
    theorems over R about the functions traced from the current source ([runsR]: values AND range
    tests).  Those that depend on the coefficient values of the source use interval arithmetic
    (Coq-Interval: Flocq / Coquelicot, primitive floats and 63-bit integers -- see the
    Print Assumptions output). *)
From Coq Require Import ZArith QArith Qreals Reals List.
From Gen Require Import GenIAPWS GenTraced.
From P Require Import Expr RunR Visc.
Import ListNotations.
Close Scope Q_scope.
Open Scope R_scope.

(** ... hence, with the coefficients of the source, for every density and 0 <= t <= 800 degC *)
Theorem visc_positive : forall d t v : R, 0 <= t <= 800 ->
  runsR visc_traced [d; t] hv (RRet [v]) -> 0 < v.
Proof. exact visc_positive_proof. Qed.
Print Assumptions visc_positive.
