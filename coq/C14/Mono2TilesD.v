(** C14 -- GENERATED ONCE by a script (column list in reports/C14.md).  H <= 9/10 on
      - rectangles  Ta <= tk <= Tb, 0 <= p <= cap  (cap >= psat on the column), tk <= 623.15;
      - the curvilinear strips  Ta <= tk <= Tb, p = s * pB23(tk), 0 <= s <= 1, 623.15 <= tk <= 862;
      - the rectangle 862 <= tk <= 1074, 0 <= p <= 100 MPa
    (two-variable interval bisection), and K >= -99/100 on the top edge of each (one variable).
    Mono2Thm.v proves that they cover region 2. *)
From Coq Require Import ZArith QArith Qreals Reals List Bool.
From Coquelicot Require Import Coquelicot.
From Interval Require Import Tactic.
From Gen Require Import GenIAPWS GenTraced.
From P Require Import Expr RunR Formulas B23 Deriv Potential Mono1 Mono2.
Import ListNotations.
Close Scope Q_scope.
Open Scope R_scope.

Ltac expose2b := expose2; cbv - [Rplus Rmult Rminus Rdiv Ropp Rinv IZR powerRZ Rle Rlt].

Lemma h2_9 tk p : 550 <= tk <= 575 -> 0 <= p <= 8819000 -> HH tk p <= 9/10.
Proof. intros H1 H2. expose2. interval with (i_bisect tk, i_bisect p, i_depth 22). Qed.
Lemma k2_9 tk : 550 <= tk <= 575 -> -99/100 <= KK tk 8819000.
Proof. intros H1. expose2. interval with (i_bisect tk, i_depth 22). Qed.

Lemma h2_14 tk p : 618 <= tk <= 12463/20 -> 0 <= p <= 16538000 -> HH tk p <= 9/10.
Proof. intros H1 H2. expose2. interval with (i_bisect tk, i_bisect p, i_depth 22). Qed.
Lemma k2_14 tk : 618 <= tk <= 12463/20 -> -99/100 <= KK tk 16538000.
Proof. intros H1. expose2. interval with (i_bisect tk, i_depth 22). Qed.
