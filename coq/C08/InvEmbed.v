(** C08 -- [a.embed(b, con)] returns a consistent grid (or refuses): both operands consistent and the
    connection object not one of theirs; no further precondition, because [embed] refuses operands
    with a common block name and re-resolves the connection's blocks by name in the result BEFORE
    it adds the connection. *)
From Coq Require Import Ascii String List Bool PArith NArith FMapPositive Permutation Lia.
From PTBase Require Import Exn PyStr.
From P Require Import Assoc GridEdit GridLemmas Inv InvConnAdd InvAdd.
Import ListNotations.
Open Scope list_scope.

(** [con.block = [b0, b1]] for a connection object that is not in the grid *)
Lemma inv_set_ends g j i0 i1 : Inv g -> ~ In j (clist g) ->
  Inv (set_cb1 (set_cb0 g (fset (cb0 g) j i0)) (fset (cb1 g) j i1)).
Proof.
  intros I N. set (g' := set_cb1 (set_cb0 g (fset (cb0 g) j i0)) (fset (cb1 g) j i1)).
  assert (E0 : forall x, x <> j -> c0 g' x = c0 g x) by (intros x Hx; unfold g'; gs; apply fget_fset_neq; exact Hx).
  assert (E1 : forall x, x <> j -> c1 g' x = c1 g x) by (intros x Hx; unfold g'; gs; apply fget_fset_neq; exact Hx).
  assert (Nj : forall x, In x (clist g) -> x <> j) by (intros x Hx ->; contradiction).
  assert (Ek : forall x, In x (clist g) -> ckey g' x = ckey g x).
  { intros x Hx. unfold ckey. rewrite (E0 x (Nj x Hx)), (E1 x (Nj x Hx)). reflexivity. }
  constructor; try apply I.
  - apply DL_ext with (name := ckey g); [|apply I]. exact Ek.
  - intros x Hx. change (clist g') with (clist g) in Hx. rewrite (E0 x (Nj x Hx)), (E1 x (Nj x Hx)). apply (i_ends g I). exact Hx.
  - intros i Hi k. change (cn g' i) with (cn g i). change (blist g') with (blist g) in Hi. rewrite (i_back g I i Hi k).
    change (clist g') with (clist g).
    split; intros [x [Hx [Hk Hm]]]; exists x; (split; [exact Hx|split]).
    + rewrite Ek; assumption.
    + rewrite (E0 x (Nj x Hx)), (E1 x (Nj x Hx)). exact Hm.
    + rewrite <- Ek; assumption.
    + rewrite (E0 x (Nj x Hx)), (E1 x (Nj x Hx)) in Hm. exact Hm.
Qed.

Theorem embed_inv g a b j fits r : Inv (with_view g a) -> Inv (with_view g b) ->
  ~ In j (v_clist a) -> ~ In j (v_clist b) -> (j < next g)%positive ->
  embed g a b j fits = Ok (Some r) -> Inv r.
Proof.
  intros Ia Ib Na Nb Hlt H. unfold embed in H. destruct fits; [|discriminate].
  destruct (common_name g a b) eqn:C; [discriminate|].
  destruct (grid_add g a b) as [r0|] eqn:A; cbn [bind] in H; [|discriminate].
  destruct (grid_add_spec g a b r0 Ia Ib (same_name_replaced g a b (common_name_false g a b C)) A) as [I0 [P0 [Qb [Qi Lc]]]].
  destruct (bget r0 (bn r0 (c0 r0 j))) as [i0|] eqn:E0; [|discriminate].
  destruct (bget r0 (bn r0 (c1 r0 j))) as [i1|] eqn:E1; [|discriminate].
  destruct (inv_bget r0 _ _ I0 E0) as [B0 _]. destruct (inv_bget r0 _ _ I0 E1) as [B1 _].
  match type of H with context [add_connection_obj ?G j] => destruct (add_connection_obj G j) as [r2|] eqn:R end;
    cbn [bind] in H; [|discriminate].
  inversion H; subst r; clear H.
  assert (Nj : ~ In j (clist r0)) by (intro X; apply Lc in X; tauto).
  apply (add_connection_obj_inv _ j r2 (inv_set_ends r0 j i0 i1 I0 Nj)); [exact Nj| | | |exact R]; gs.
  - rewrite (p_next _ _ P0). exact Hlt.
  - rewrite fget_fset_eq. exact B0.
  - rewrite fget_fset_eq. exact B1.
Qed.

(** a refusal builds nothing *)
Lemma embed_refused g a b j fits : fits = false \/ common_name g a b = true -> embed g a b j fits = Ok None.
Proof. unfold embed. intros [->| ->]; [reflexivity|]. destruct fits; reflexivity. Qed.
