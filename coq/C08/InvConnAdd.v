(** C08 -- add_connection preserves the invariant. *)
From Coq Require Import Ascii String List Bool PArith NArith FMapPositive Permutation Lia.
From PTBase Require Import Exn PyStr.
From P Require Import Assoc GridEdit GridLemmas Inv.
Import ListNotations.
Open Scope list_scope.

(** a fresh [t2connection] object does not disturb the grid *)
Lemma inv_new_conn g i0 i1 : Inv g -> Inv (new_conn g i0 i1).
Proof.
  intro I.
  assert (E0 : forall j, (j < next g)%positive -> c0 (new_conn g i0 i1) j = c0 g j).
  { intros j H. rewrite c0_new_conn. destruct (Pos.eqb_spec j (next g)); [lia|reflexivity]. }
  assert (E1 : forall j, (j < next g)%positive -> c1 (new_conn g i0 i1) j = c1 g j).
  { intros j H. rewrite c1_new_conn. destruct (Pos.eqb_spec j (next g)); [lia|reflexivity]. }
  assert (Ek : forall j, In j (clist g) -> ckey (new_conn g i0 i1) j = ckey g j).
  { intros j H. apply (i_cfresh g I) in H. unfold ckey. rewrite (E0 j H), (E1 j H). gs. reflexivity. }
  constructor; try apply I; gs.
  - apply DL_ext with (name := ckey g); [|apply I]. exact Ek.
  - intros j H. pose proof (i_cfresh g I j H) as L. rewrite (E0 j L), (E1 j L). apply (i_ends g I). exact H.
  - intros i H k. rewrite (i_back g I i H k).
    split; intros [j [Hj [Hk Hm]]]; exists j; pose proof (i_cfresh g I j Hj) as L; (split; [exact Hj|split]).
    + rewrite Ek; assumption.
    + rewrite (E0 j L), (E1 j L). exact Hm.
    + rewrite <- Ek; assumption.
    + rewrite (E0 j L), (E1 j L) in Hm. exact Hm.
  - intros i H. apply (i_brfresh g I) in H. lia.
  - intros i H. apply (i_rfresh g I) in H. lia.
  - intros i H. apply (i_bfresh g I) in H. lia.
  - intros i H. apply (i_cfresh g I) in H. lia.
Qed.

Lemma cn_add2 g a b k i x :
  In x (cn (cn_add (cn_add g a k) b k) i) <-> In x (cn g i) \/ (x = k /\ (i = a \/ i = b)).
Proof.
  rewrite cn_cn_add. destruct (Pos.eqb_spec i b) as [->|Nb].
  - rewrite In_set_add, cn_cn_add. destruct (Pos.eqb_spec b a) as [->|Na].
    + rewrite In_set_add. intuition.
    + intuition.
  - rewrite cn_cn_add. destruct (Pos.eqb_spec i a) as [->|Na].
    + rewrite In_set_add. intuition.
    + intuition.
Qed.

(** [add_connection(con)] for an object [j] not in the list whose two blocks are in the grid: no
    further precondition (a connection with the same key is replaced; it joined the same blocks) *)
Lemma add_connection_obj_inv g j g' : Inv g -> ~ In j (clist g) -> (j < next g)%positive ->
  In (c0 g j) (blist g) -> In (c1 g j) (blist g) -> add_connection_obj g j = Ok g' -> Inv g'.
Proof.
  intros I Hj Hlt H0 H1 H. unfold add_connection_obj in H.
  destruct (cget g (ckey g j)) as [old|] eqn:E.
  - destruct (mem old (clist g)) eqn:M; cbn [bind] in H; [|discriminate]. apply mem_In in M.
    inversion H; subst g'; clear H.
    destruct (inv_cget g _ old I E) as [_ Ko].
    assert (O0 : c0 g old = c0 g j).
    { destruct (i_ends g I old M) as [A _]. apply (inv_bn_inj g); auto. unfold ckey in Ko. congruence. }
    assert (O1 : c1 g old = c1 g j).
    { destruct (i_ends g I old M) as [_ A]. apply (inv_bn_inj g); auto. unfold ckey in Ko. congruence. }
    assert (Q : forall x, In x (lreplace (clist g) old j) <-> x = j \/ (In x (clist g) /\ x <> old)).
    { intro x. apply In_lreplace; [apply I|exact M]. }
    unfold cget in E.
    constructor; try apply I; gs.
    + apply (DL_add_replace key2_eqb key2_spec); auto. apply I.
    + intros x Hx. apply Q in Hx. destruct Hx as [->|[Hx _]]; [auto|apply (i_ends g I); exact Hx].
    + intros i Hi k. rewrite cn_add2. gs. rewrite (i_back g I i Hi k). split.
      * intros [[x [Hx [Hk Hm]]]|[-> Hm]].
        -- destruct (Pos.eq_dec x old) as [->|Nx].
           ++ exists j. split; [apply Q; left; reflexivity|]. split; [congruence|]. rewrite <- O0, <- O1. exact Hm.
           ++ exists x. split; [apply Q; right; split; assumption|]. auto.
        -- exists j. split; [apply Q; left; reflexivity|]. split; [reflexivity|]. destruct Hm; auto.
      * intros [x [Hx [Hk Hm]]]. apply Q in Hx. destruct Hx as [->|[Hx Nx]].
        -- right. split; [auto|]. destruct Hm; auto.
        -- left. exists x. auto.
    + intros x Hx. apply Q in Hx. destruct Hx as [->|[Hx _]]; [exact Hlt|apply (i_cfresh g I); exact Hx].
  - cbn [bind] in H. inversion H; subst g'; clear H. unfold cget in E.
    assert (Q : forall x, In x (clist g ++ [j]) <-> In x (clist g) \/ x = j).
    { intro x. rewrite in_app_iff. cbn. intuition. }
    constructor; try apply I; gs.
    + apply (DL_add_new key2_eqb key2_spec); auto. apply I.
    + intros x Hx. apply Q in Hx. destruct Hx as [Hx| ->]; [apply (i_ends g I); exact Hx|auto].
    + intros i Hi k. rewrite cn_add2. gs. rewrite (i_back g I i Hi k). split.
      * intros [[x [Hx [Hk Hm]]]|[-> Hm]].
        -- exists x. split; [apply Q; left; exact Hx|auto].
        -- exists j. split; [apply Q; right; reflexivity|]. split; [reflexivity|]. destruct Hm; auto.
      * intros [x [Hx [Hk Hm]]]. apply Q in Hx. destruct Hx as [Hx| ->].
        -- left. exists x. auto.
        -- right. split; [auto|]. destruct Hm; auto.
    + intros x Hx. apply Q in Hx. destruct Hx as [Hx| ->]; [apply (i_cfresh g I); exact Hx|exact Hlt].
Qed.

(** [add_connection(t2connection([grid.block[n0], grid.block[n1]]))]: no precondition *)
Theorem add_connection_inv g n0 n1 g' : Inv g -> add_connection g n0 n1 = Ok g' -> Inv g'.
Proof.
  intros I H. unfold add_connection in H.
  destruct (bget g n0) as [i0|] eqn:E0; [|discriminate]. destruct (bget g n1) as [i1|] eqn:E1; [|discriminate].
  destruct (inv_bget g n0 i0 I E0) as [B0 _]. destruct (inv_bget g n1 i1 I E1) as [B1 _].
  apply (add_connection_obj_inv (new_conn g i0 i1) (next g)); [apply inv_new_conn; exact I| | | | |exact H]; gs.
  - apply inv_next_notin_c. exact I.
  - lia.
  - rewrite Pos.eqb_refl. exact B0.
  - rewrite Pos.eqb_refl. exact B1.
Qed.
