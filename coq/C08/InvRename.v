(** C08 -- [rename_blocks] preserves the invariant, loses no block, and never raises on a
    consistent grid.

    The model follows the (fixed) Python statement order: every renamed block is first taken
    out of the dictionary, then all names and connection_name sets are rewritten, then the
    renamed blocks are filed again, and the connection dictionary is rebuilt from the list.
    Swaps and cycles of names are therefore handled: the only requirement is that the name map
    is one-to-one on the blocks of the grid ([inj_on_blocks]). *)
From Coq Require Import Ascii String List Bool PArith NArith FMapPositive Permutation Lia.
From PTBase Require Import Exn PyStr.
From P Require Import Assoc GridEdit GridLemmas Inv.
Import ListNotations. Open Scope list_scope.

(** "the name map is one-to-one on the blocks of the grid and does not collide with an
    unrenamed block" *)
Definition inj_on_blocks (g : grid) (m : list (str * str)) : Prop :=
  forall i i', In i (blist g) -> In i' (blist g) -> mapname m (bn g i) = mapname m (bn g i') -> i = i'.

(** * generic helpers *)
Lemma NoDup_map_inj {A B} (f : A -> B) l : NoDup l ->
  (forall x y, In x l -> In y l -> f x = f y -> x = y) -> NoDup (map f l).
Proof.
  induction l as [|a r IH]; cbn [map]; intros ND Inj; [constructor|].
  inversion ND as [|? ? Ha NDr]; subst. constructor.
  - intro H. apply in_map_iff in H. destruct H as [x [E Hx]]. apply Ha.
    rewrite (Inj a x); [exact Hx|left; reflexivity|right; exact Hx|symmetry; exact E].
  - apply IH; [exact NDr|]. intros x y Hx Hy. apply Inj; right; assumption.
Qed.

(** [for i in l: d[f(i)] = i] with [f] one-to-one on [l]: the entries of the result are the
    pairs [(f i, i)] for [i] in [l] and the entries of [d0] whose key is not overwritten *)
Section FoldAset.
  Context {K : Type} (eqb : K -> K -> bool).
  Hypothesis eqb_spec : forall a b, reflect (a = b) (eqb a b).
  Variable f : id -> K.
  Lemma fold_aset_spec l : forall d0, NoDup (map fst d0) -> NoDup l ->
    (forall i i', In i l -> In i' l -> f i = f i' -> i = i') ->
    NoDup (map fst (fold_left (fun d i => aset eqb d (f i) i) l d0)) /\
    forall k v, In (k, v) (fold_left (fun d i => aset eqb d (f i) i) l d0) <->
                (In v l /\ k = f v) \/ (In (k, v) d0 /\ ~ In k (map f l)).
  Proof.
    induction l as [|a r IH]; cbn [fold_left map]; intros d0 ND0 NDl Inj.
    - split; [exact ND0|]. intros k v. cbn [In]. tauto.
    - inversion NDl as [|? ? Ha NDr]; subst.
      assert (ND1 : NoDup (map fst (aset eqb d0 (f a) a))) by (apply (NoDup_keys_aset eqb eqb_spec); exact ND0).
      assert (Inj' : forall i i', In i r -> In i' r -> f i = f i' -> i = i') by (intros i i' Hi Hi'; apply Inj; right; assumption).
      destruct (IH _ ND1 NDr Inj') as [NDk Hin]. split; [exact NDk|].
      assert (Hfa : ~ In (f a) (map f r)).
      { intro H. apply in_map_iff in H. destruct H as [x [E Hx]]. apply Ha.
        rewrite (Inj a x); [exact Hx|left; reflexivity|right; exact Hx|symmetry; exact E]. }
      intros k v. rewrite Hin. rewrite (In_aset eqb eqb_spec _ _ _ _ _ ND0). cbn [In].
      split.
      + intros [[Hv Hk]|[[[Hk Hv]|[Nk Hd]] Nr]].
        * left. split; [right; exact Hv|exact Hk].
        * left. subst. split; [left; reflexivity|reflexivity].
        * right. split; [exact Hd|]. intros [E|H]; [apply Nk; symmetry; exact E|exact (Nr H)].
      + intros [[[Ev|Hv] Hk]|[Hd Nk]].
        * subst. right. split; [left; split; reflexivity|exact Hfa].
        * left. split; assumption.
        * right. split; [right; split; [intro E; apply Nk; left; symmetry; exact E|exact Hd]|].
          intro H; apply Nk; right; exact H.
  Qed.
End FoldAset.

Lemma mapname_notin m n : in_map m n = false -> mapname m n = n.
Proof. unfold in_map, mapname. destruct (aget str_eqb m n); [discriminate|reflexivity]. Qed.

Lemma set_bdict_id g : set_bdict g (bdict g) = g.
Proof. destruct g; reflexivity. Qed.

(** * the first loop: [for blk in renamed: del self.block[blk.name]] *)
Lemma del_names_spec ids : forall g0 g1, NoDup (map fst (bdict g0)) -> del_names g0 ids = Ok g1 ->
  exists d1, g1 = set_bdict g0 d1 /\ NoDup (map fst d1) /\
    forall k v, In (k, v) d1 <-> In (k, v) (bdict g0) /\ ~ In k (map (bn g0) ids).
Proof.
  induction ids as [|a r IH]; cbn [del_names map]; intros g0 g1 ND H.
  - inversion H; subst g1. exists (bdict g0). split; [symmetry; apply set_bdict_id|]. split; [exact ND|].
    intros k v. cbn [In]. tauto.
  - destruct (bget g0 (bn g0 a)) as [x|]; [|discriminate].
    apply IH in H; [|gs; apply (NoDup_keys_adel str_eqb); exact ND].
    destruct H as [d1 [E [ND1 Hin]]]. exists d1. split; [exact E|]. split; [exact ND1|].
    intros k v. rewrite Hin. gs. rewrite (In_adel str_eqb str_spec _ _ _ _ ND). cbn [In].
    split.
    + intros [[Nk Hd] Nr]. split; [exact Hd|]. intros [E'|H']; [apply Nk; symmetry; exact E'|exact (Nr H')].
    + intros [Hd Nk]. split; [split; [intro E'; apply Nk; left; symmetry; exact E'|exact Hd]|].
      intro H'; apply Nk; right; exact H'.
Qed.

Lemma del_names_total ids : forall g0, NoDup (map fst (bdict g0)) -> NoDup (map (bn g0) ids) ->
  (forall i, In i ids -> In (bn g0 i) (map fst (bdict g0))) -> exists g1, del_names g0 ids = Ok g1.
Proof.
  induction ids as [|a r IH]; cbn [del_names map]; intros g0 ND NDn Hk; [eexists; reflexivity|].
  inversion NDn as [|? ? Ha NDr]; subst.
  destruct (in_keys_aget str_eqb str_spec _ _ (Hk a (or_introl eq_refl))) as [x Hx].
  unfold bget. rewrite Hx. apply IH; gs.
  - apply (NoDup_keys_adel str_eqb); exact ND.
  - exact NDr.
  - intros i Hi. apply (in_keys_adel str_eqb str_spec); [exact ND|]. split; [|apply Hk; right; exact Hi].
    intro E. apply Ha. rewrite <- E. apply List.in_map. exact Hi.
Qed.

(** * the second loop: new names and rewritten connection_name sets *)
Lemma rename_one_shape m g a : exists X Y, rename_one m g a = set_bcn (set_bname g X) Y /\
  (forall i, fget [] X i = if Pos.eqb i a then mapname m (bn g a) else bn g i) /\
  (forall i, fget [] Y i = if Pos.eqb i a then set_of_list (map (map_key m) (cn g a)) else cn g i).
Proof.
  unfold rename_one, mapname. destruct (aget str_eqb m (bn g a)) as [nn|].
  - exists (fset (bname g) a nn), (fset (bcn g) a (set_of_list (map (map_key m) (cn g a)))).
    split; [reflexivity|]. split; intro i; apply fget_fset.
  - exists (bname g), (fset (bcn g) a (set_of_list (map (map_key m) (cn g a)))).
    split; [destruct g; reflexivity|]. split; intro i.
    + destruct (Pos.eqb_spec i a) as [E|N]; [subst i|]; reflexivity.
    + apply fget_fset.
Qed.

Lemma rename_loop m l : forall g1, NoDup l -> exists X Y,
  fold_left (rename_one m) l g1 = set_bcn (set_bname g1 X) Y /\
  (forall i, fget [] X i = if mem i l then mapname m (bn g1 i) else bn g1 i) /\
  (forall i, fget [] Y i = if mem i l then set_of_list (map (map_key m) (cn g1 i)) else cn g1 i).
Proof.
  induction l as [|a r IH]; cbn [fold_left]; intros g1 ND.
  - exists (bname g1), (bcn g1). split; [destruct g1; reflexivity|]. split; intro i; reflexivity.
  - inversion ND as [|? ? Ha NDr]; subst.
    destruct (rename_one_shape m g1 a) as [X0 [Y0 [E0 [HX0 HY0]]]]. rewrite E0.
    destruct (IH (set_bcn (set_bname g1 X0) Y0) NDr) as [X [Y [E [HX HY]]]].
    exists X, Y. split; [exact E|].
    assert (Hm : forall i, mem i (a :: r) = Pos.eqb i a || mem i r) by reflexivity.
    apply mem_false in Ha.
    split; intro i; rewrite Hm.
    + rewrite HX. gs. rewrite !HX0. destruct (Pos.eqb_spec i a) as [Eia|N]; cbn [orb]; [subst i|reflexivity].
      rewrite Ha. reflexivity.
    + rewrite HY. gs. rewrite !HY0. destruct (Pos.eqb_spec i a) as [Eia|N]; cbn [orb]; [subst i|reflexivity].
      rewrite Ha. reflexivity.
Qed.

(** * the third loop: [for blk in renamed: self.block[blk.name] = blk] *)
Lemma file_loop l : forall g2, fold_left file_block l g2 =
  set_bdict g2 (fold_left (fun d i => aset str_eqb d (bn g2 i) i) l (bdict g2)).
Proof.
  induction l as [|a r IH]; cbn [fold_left]; intro g2; [symmetry; apply set_bdict_id|].
  rewrite IH. reflexivity.
Qed.

(** * the invariant of a grid whose names, sets and dictionaries have been rewritten through [m] *)
Lemma rename_core g m X Y D CD : Inv g -> inj_on_blocks g m ->
  (forall i, In i (blist g) -> fget [] X i = mapname m (bn g i)) ->
  (forall i, In i (blist g) -> fget [] Y i = set_of_list (map (map_key m) (cn g i))) ->
  NoDup (map fst D) ->
  (forall k v, In (k, v) D <-> In v (blist g) /\ k = mapname m (bn g v)) ->
  CD = fold_left (fun acc j => aset key2_eqb acc (fget [] X (c0 g j), fget [] X (c1 g j)) j) (clist g) [] ->
  Inv (set_cdict (set_bdict (set_bcn (set_bname g X) Y) D) CD).
Proof.
  intros I J HX HY NDD HD HCD.
  pose (f := fun j => (fget [] X (c0 g j), fget [] X (c1 g j)) : key2).
  assert (Hck : forall j, In j (clist g) -> f j = map_key m (ckey g j)).
  { intros j Hj. destruct (i_ends g I j Hj) as [H0 H1]. unfold f, map_key, ckey. cbn [fst snd].
    rewrite (HX _ H0), (HX _ H1). reflexivity. }
  assert (Finj : forall j j', In j (clist g) -> In j' (clist g) -> f j = f j' -> j = j').
  { intros j j' Hj Hj' E. rewrite (Hck j Hj), (Hck j' Hj') in E. unfold map_key, ckey in E. cbn [fst snd] in E.
    inversion E as [[E0 E1]].
    destruct (i_ends g I j Hj) as [H0 H1]. destruct (i_ends g I j' Hj') as [H0' H1'].
    apply (J _ _ H0 H0') in E0. apply (J _ _ H1 H1') in E1.
    apply (inv_ckey_inj g j j' I Hj Hj'). unfold ckey. rewrite E0, E1. reflexivity. }
  destruct (fold_aset_spec key2_eqb key2_spec f (clist g) [] (NoDup_nil _) (dl_nodup _ _ _ (i_c g I)) Finj) as [NDC HC].
  change (fold_left (fun d i => aset key2_eqb d (f i) i) (clist g) []) with
    (fold_left (fun acc j => aset key2_eqb acc (fget [] X (c0 g j), fget [] X (c1 g j)) j) (clist g) []) in NDC, HC.
  rewrite <- HCD in NDC, HC.
  constructor; try apply I; gs.
  - (* blocks *) constructor.
    + apply I.
    + exact NDD.
    + intros k i H. apply HD in H. destruct H as [Hi ->]. split; [exact Hi|apply HX; exact Hi].
    + intros i Hi. apply HD. split; [exact Hi|apply HX; exact Hi].
  - (* connections *) apply DL_ext with (name := f); [intros j Hj; reflexivity|]. constructor.
    + apply I.
    + exact NDC.
    + intros k j H. apply HC in H. destruct H as [[Hj ->]|[[] _]]. split; [exact Hj|reflexivity].
    + intros j Hj. apply HC. left. split; [exact Hj|reflexivity].
  - (* connection_name sets *) intros i Hi k. rewrite (HY i Hi), In_set_of_list, in_map_iff. split.
    + intros [k0 [<- Hk0]]. apply (i_back g I i Hi) in Hk0. destruct Hk0 as [j [Hj [Ek Ends]]].
      exists j. split; [exact Hj|]. split; [|exact Ends]. change (f j = map_key m k0). rewrite <- Ek. apply Hck; exact Hj.
    + intros [j [Hj [Ek Ends]]]. exists (ckey g j). split.
      * rewrite <- Ek. symmetry. apply (Hck j Hj).
      * apply (i_back g I i Hi). exists j. auto.
Qed.

(** * the shape of the result of [rename_blocks] *)
Lemma rename_blocks_shape g m g' : Inv g -> inj_on_blocks g m -> rename_blocks g m = Ok g' ->
  exists X Y D CD, g' = set_cdict (set_bdict (set_bcn (set_bname g X) Y) D) CD /\
   (forall i, In i (blist g) -> fget [] X i = mapname m (bn g i)) /\
   (forall i, In i (blist g) -> fget [] Y i = set_of_list (map (map_key m) (cn g i))) /\
   NoDup (map fst D) /\
   (forall k v, In (k, v) D <-> In v (blist g) /\ k = mapname m (bn g v)) /\
   CD = fold_left (fun acc j => aset key2_eqb acc (fget [] X (c0 g j), fget [] X (c1 g j)) j) (clist g) [].
Proof.
  intros I J H. unfold rename_blocks in H. cbv zeta in H.
  set (R := filter (fun i => in_map m (bn g i)) (blist g)) in *.
  destruct (del_names g R) as [g1|e] eqn:E1; cbn [bind] in H; [|discriminate].
  inversion H; subst g'; clear H.
  destruct (del_names_spec R g g1 (dl_keys _ _ _ (i_b g I)) E1) as [d1 [-> [ND1 Hd1]]].
  change (blist (set_bdict g d1)) with (blist g).
  destruct (rename_loop m (blist g) (set_bdict g d1) (dl_nodup _ _ _ (i_b g I))) as [X [Y [E2 [HX HY]]]].
  rewrite E2, file_loop.
  assert (HR : forall v, In v R <-> In v (blist g) /\ in_map m (bn g v) = true) by (intro v; apply filter_In).
  assert (HXb : forall i, In i (blist g) -> fget [] X i = mapname m (bn g i)).
  { intros i Hi. rewrite HX. apply mem_In in Hi. rewrite Hi. reflexivity. }
  assert (NDR : NoDup R) by (apply NoDup_filter; apply I).
  assert (InjR : forall i i', In i R -> In i' R -> fget [] X i = fget [] X i' -> i = i').
  { intros i i' Hi Hi' E. apply HR in Hi. apply HR in Hi'. destruct Hi as [Hi _], Hi' as [Hi' _].
    rewrite (HXb i Hi), (HXb i' Hi') in E. exact (J i i' Hi Hi' E). }
  destruct (fold_aset_spec str_eqb str_spec (fget [] X) R d1 ND1 NDR InjR) as [NDD HD].
  exists X, Y, (fold_left (fun d i => aset str_eqb d (fget [] X i) i) R d1),
    (fold_left (fun acc j => aset key2_eqb acc (fget [] X (c0 g j), fget [] X (c1 g j)) j) (clist g) []).
  split; [reflexivity|]. split; [exact HXb|]. split.
  { intros i Hi. rewrite HY. apply mem_In in Hi. rewrite Hi. reflexivity. }
  split; [exact NDD|]. split; [|reflexivity].
  intros k v. rewrite HD. split.
  - intros [[Hv ->]|[Hd Nk]].
    + apply HR in Hv. destruct Hv as [Hv _]. split; [exact Hv|apply HXb; exact Hv].
    + apply Hd1 in Hd. destruct Hd as [Hd Nd]. destruct (dl_sound _ _ _ (i_b g I) _ _ Hd) as [Hv En].
      split; [exact Hv|]. rewrite mapname_notin; [symmetry; exact En|].
      destruct (in_map m (bn g v)) eqn:Em; [|reflexivity].
      exfalso. apply Nd. rewrite <- En. apply List.in_map. apply HR. split; assumption.
  - intros [Hv ->]. destruct (in_map m (bn g v)) eqn:Em.
    + left. split; [apply HR; split; assumption|symmetry; apply HXb; exact Hv].
    + right. rewrite (mapname_notin _ _ Em).
      assert (NvR : ~ In v R) by (intro H; apply HR in H; destruct H as [_ H]; congruence).
      split.
      * apply Hd1. split; [apply (dl_compl _ _ _ (i_b g I)); exact Hv|].
        intro H. apply in_map_iff in H. destruct H as [x [E Hx]]. apply NvR.
        destruct (proj1 (HR x) Hx) as [Hx' _].
        rewrite <- (inv_bn_inj g x v I Hx' Hv E). exact Hx.
      * intro H. apply in_map_iff in H. destruct H as [x [E Hx]]. apply NvR.
        destruct (proj1 (HR x) Hx) as [Hx' _].
        rewrite (HXb x Hx') in E. rewrite <- (mapname_notin _ _ Em) in E.
        rewrite <- (J x v Hx' Hv E). exact Hx.
Qed.

(** * the theorems *)
Theorem rename_blocks_inv g m g' : Inv g -> inj_on_blocks g m -> rename_blocks g m = Ok g' -> Inv g'.
Proof.
  intros I J H. destruct (rename_blocks_shape g m g' I J H) as [X [Y [D [CD [-> [HX [HY [NDD [HD HCD]]]]]]]]].
  apply (rename_core g m); assumption.
Qed.

(** no block is lost: same list, every block is found in the dictionary under its new name
    (swaps and cycles of names included) *)
Theorem rename_blocks_names g m g' : Inv g -> inj_on_blocks g m -> rename_blocks g m = Ok g' ->
  blist g' = blist g /\
  forall i, In i (blist g) -> bn g' i = mapname m (bn g i) /\ bget g' (mapname m (bn g i)) = Some i.
Proof.
  intros I J H. destruct (rename_blocks_shape g m g' I J H) as [X [Y [D [CD [-> [HX [HY [NDD [HD HCD]]]]]]]]].
  split; [reflexivity|]. intros i Hi. unfold bget. gs. split; [apply HX; exact Hi|].
  apply (In_aget str_eqb str_spec); [exact NDD|]. apply HD. split; [exact Hi|reflexivity].
Qed.

(** on a consistent grid [rename_blocks] never raises: every name to delete is a key *)
Theorem rename_blocks_total g m : Inv g -> exists g', rename_blocks g m = Ok g'.
Proof.
  intro I. unfold rename_blocks. cbv zeta.
  set (R := filter (fun i => in_map m (bn g i)) (blist g)).
  assert (HR : forall v, In v R -> In v (blist g)) by (intros v Hv; apply filter_In in Hv; apply Hv).
  destruct (del_names_total R g) as [g1 E1].
  - apply I.
  - apply NoDup_map_inj; [apply NoDup_filter; apply I|].
    intros x y Hx Hy. apply (inv_bn_inj g x y I); apply HR; assumption.
  - intros i Hi. apply (List.in_map fst _ (bn g i, i)). apply (dl_compl _ _ _ (i_b g I)). apply HR. exact Hi.
  - rewrite E1. cbn [bind]. eexists. reflexivity.
Qed.

(** a swap of two names on a grid with two connected blocks *)
Example rename_swap_ok :
  let a := s2l "a" in let b := s2l "b" in let r := s2l "rock" in
  exists g', run empty [AddRock r; AddBlock a r; AddBlock b r; AddConn a b; Rename [(a, b); (b, a)]] = Ok g' /\
    blist g' = [2; 3]%positive /\
    bdict g' = [(b, 2%positive); (a, 3%positive)] /\
    bn g' 2%positive = b /\ bn g' 3%positive = a /\
    cdict g' = [((b, a), 4%positive)] /\
    cn g' 2%positive = [(b, a)] /\ cn g' 3%positive = [(b, a)].
Proof.
  cbv zeta. eexists. split; [vm_compute; reflexivity|]. vm_compute. repeat split.
Qed.
