(** C08 -- minc (bookkeeping) preserves the invariant, for every pair of naming functions, every
    number of levels, every selection and every outcome of the volume test: no precondition.
    The refusal of a matrix block name that is already in the grid is what makes this true
    (the new block never replaces a block, so [add_block]'s precondition holds vacuously). *)
From Coq Require Import Ascii String List Bool PArith NArith FMapPositive Permutation Lia.
From PTBase Require Import Exn PyStr.
From Gen Require Import GenFlags.
From P Require Import Assoc GridEdit GridLemmas Inv InvRock InvBlock InvConnAdd.
Import ListNotations.
Open Scope list_scope.

Lemma add_rocktype_blist g n g' : add_rocktype g n = Ok g' -> blist g' = blist g.
Proof.
  unfold add_rocktype, add_rocktype_obj. destruct (rget (new_rock g n) (rn (new_rock g n) (next g))) as [old|].
  - destruct (mem old (rlist (new_rock g n))); [|discriminate]. intro H; inversion H; subst.
    unfold relink_if. destruct (add_rocktype_relinks && negb (Pos.eqb old (next g))); reflexivity.
  - intro H; inversion H; subst; reflexivity.
Qed.

Lemma duplicate_rock_inv g n g' : Inv g -> duplicate_rock g n = Ok g' -> Inv g' /\ blist g' = blist g.
Proof.
  intros I H. unfold duplicate_rock in H. destruct (rget g n).
  - inversion H; subst. auto.
  - split; [eapply add_rocktype_inv; eauto|eapply add_rocktype_blist; eauto].
Qed.

(** a block added under a name that is not in the grid goes to the end of the block list *)
Lemma add_block_new_blist g n rk g' : bget g n = None -> add_block g n rk = Ok g' -> blist g' = blist g ++ [next g].
Proof.
  intros E H. unfold add_block in H. destruct (rget g rk) as [r|]; [|discriminate].
  unfold add_block_obj in H. rewrite bn_new_block, Pos.eqb_refl in H.
  unfold bget in *. gs in H. rewrite E in H. inversion H; subst. gs. reflexivity.
Qed.

Lemma add_connection_obj_blist g j g' : add_connection_obj g j = Ok g' -> blist g' = blist g.
Proof.
  unfold add_connection_obj. destruct (cget g (ckey g j)) as [old|].
  - destruct (mem old (clist g)); cbn [bind]; [|discriminate]. intro H; inversion H; subst; reflexivity.
  - cbn [bind]. intro H; inversion H; subst; reflexivity.
Qed.

(** [blk.rocktype = self.rocktype[name]] *)
Lemma inv_set_brock g i n rj : Inv g -> rget g n = Some rj -> Inv (set_brock g (fset (brock g) i rj)).
Proof.
  intros I E. destruct (inv_rget g n rj I E) as [Hr Hn].
  constructor; try apply I; gs.
  - intros x Hx. rewrite fget_fset. destruct (Pos.eqb x i).
    + rewrite Hn. eapply (aget_Some_in str_eqb str_spec); exact E.
    + apply (i_rock g I). exact Hx.
  - intros x Hx. rewrite fget_fset. destruct (Pos.eqb x i); [apply (i_rfresh g I); exact Hr|apply (i_brfresh g I); exact Hx].
Qed.

Section MincInv.
  Variable mb : str -> nat -> str.
  Variable mr : str -> nat -> str.

  Lemma minc_level_inv blkname orock g last m g' i : Inv g -> In last (blist g) ->
    minc_level mb mr blkname orock g last m = Ok (g', i) ->
    Inv g' /\ In i (blist g') /\ forall x, In x (blist g) -> In x (blist g').
  Proof.
    intros I L H. unfold minc_level in H.
    destruct (duplicate_rock g (mr (rn g orock) m)) as [g1|] eqn:D; cbn [bind] in H; [|discriminate].
    destruct (duplicate_rock_inv _ _ _ I D) as [I1 B1].
    destruct (bget g1 (mb blkname m)) eqn:E; [discriminate|].
    destruct (add_block g1 (mb blkname m) (mr (rn g orock) m)) as [g2|] eqn:A; cbn [bind] in H; [|discriminate].
    assert (I2 : Inv g2).
    { eapply add_block_inv; [exact I1| |exact A]. intros old Ho. rewrite E in Ho. discriminate. }
    pose proof (add_block_new_blist _ _ _ _ E A) as B2.
    match type of H with context [add_connection_obj ?G ?J] => destruct (add_connection_obj G J) as [g3|] eqn:C end;
      cbn [bind] in H; [|discriminate].
    inversion H; subst g' i; clear H.
    pose proof (add_connection_obj_blist _ _ _ C) as B3. gs in B3.
    assert (L2 : In last (blist g2)) by (rewrite B2, in_app_iff, B1; left; exact L).
    assert (N2 : In (next g1) (blist g2)) by (rewrite B2, in_app_iff; right; left; reflexivity).
    split; [|split].
    - apply (add_connection_obj_inv (new_conn g2 last (next g1)) (next g2)); [apply inv_new_conn; exact I2| | | | |exact C]; gs.
      + apply inv_next_notin_c. exact I2.
      + lia.
      + rewrite Pos.eqb_refl. exact L2.
      + rewrite Pos.eqb_refl. exact N2.
    - rewrite B3. exact N2.
    - intros x Hx. rewrite B3, B2, in_app_iff, B1. left. exact Hx.
  Qed.

  Lemma minc_levels_inv blkname orock n : forall g last m g' keep, Inv g -> In last (blist g) -> In keep (blist g) ->
    minc_levels mb mr blkname orock g last m n = Ok g' -> Inv g' /\ In keep (blist g').
  Proof.
    induction n as [|n IH]; cbn [minc_levels]; intros g last m g' keep I L K H.
    - inversion H; subst. auto.
    - destruct (minc_level mb mr blkname orock g last (S m)) as [[g1 i]|] eqn:E; cbn [bind fst snd] in H; [|discriminate].
      destruct (minc_level_inv _ _ _ _ _ _ _ I L E) as [I1 [Hi Hk]].
      apply (IH g1 i (S m) g' keep); auto.
  Qed.

  Lemma minc_block_inv levels inel names0 g blkname g' : Inv g ->
    minc_block mb mr levels inel names0 g blkname = Ok g' -> Inv g'.
  Proof.
    intros I H. unfold minc_block in H.
    destruct (bget g blkname) as [blk|] eqn:E; [|discriminate].
    destruct (inv_bget g _ _ I E) as [Hb _].
    destruct (smem blkname inel); [inversion H; subst; exact I|].
    destruct (negb (smem blkname names0)); [discriminate|].
    destruct (minc_levels mb mr blkname (br g blk) g blk 0 levels) as [g1|] eqn:L; cbn [bind] in H; [|discriminate].
    destruct (minc_levels_inv _ _ _ _ _ _ _ blk I Hb Hb L) as [I1 K1].
    destruct (duplicate_rock g1 (mr (rn g1 (br g blk)) 0)) as [g2|] eqn:D; cbn [bind] in H; [|discriminate].
    destruct (duplicate_rock_inv _ _ _ I1 D) as [I2 B2].
    destruct (rget g2 (mr (rn g1 (br g blk)) 0)) as [rj|] eqn:R; [|discriminate].
    inversion H; subst g'. eapply inv_set_brock; eauto.
  Qed.

  Lemma minc_blocks_inv levels inel names0 blocks : forall g g', Inv g ->
    minc_blocks mb mr levels inel names0 g blocks = Ok g' -> Inv g'.
  Proof.
    induction blocks as [|n r IH]; cbn [minc_blocks]; intros g g' I H; [inversion H; subst; exact I|].
    destruct (minc_block mb mr levels inel names0 g n) as [g1|] eqn:E; cbn [bind] in H; [|discriminate].
    eapply IH; [eapply minc_block_inv; eauto|exact H].
  Qed.

  Theorem minc_inv levels sel inel g g' : Inv g -> minc mb mr levels sel inel g = Ok g' -> Inv g'.
  Proof.
    intros I H. unfold minc in H. destruct levels as [|l]; [discriminate|].
    destruct (match sel with [] => map (bn g) (blist g) | _ :: _ => sel end) as [|b0 bs]; [discriminate|].
    eapply minc_blocks_inv; eauto.
  Qed.
End MincInv.
