(** C08 -- property theorems only, second file (compiled in parallel with Props.v): minc, __add__, embed.  Each is closed by [exact] of a lemma proved in the other
    files of this directory and followed by Print Assumptions.
    Model: GridEdit.v (t2grid edit state machine).  Invariant: Inv.v. *)
From Coq Require Import Ascii String List Bool PArith NArith FMapPositive Permutation.
From PTBase Require Import Exn PyStr.
From Gen Require Import GenFlags.
From P Require Import Assoc GridEdit GridLemmas Inv InvRock InvBlock InvConn InvRename InvReorder InvMinc InvAdd InvEmbed InvDec InvAfter InvTotal Reach Witness.
Import ListNotations.
Open Scope list_scope.

(** adding MINC blocks: for every pair of naming functions, number of levels, selection and outcome of the
    volume test; no precondition (the refusal of a matrix block name already in the grid is what is needed) *)
Theorem minc_preserves : forall mb mr levels sel inel g g', Inv g -> minc mb mr levels sel inel g = Ok g' -> Inv g'.
Proof. exact minc_inv. Qed.
Print Assumptions minc_preserves.
(** adding two grids that live on the same objects: both consistent, and a block of the first that has the name of a
    different block of the second (the sum replaces it) has no connections -- add_block's precondition, lifted *)
Theorem grid_add_preserves : forall g a b r, Inv (with_view g a) -> Inv (with_view g b) -> replaced_blocks_unconnected g a b ->
  grid_add g a b = Ok r -> Inv r.
Proof. exact grid_add_inv. Qed.
Print Assumptions grid_add_preserves.
(** special cases of that precondition: same-named blocks of the two grids are the same object; no common block name *)
Theorem grid_add_precondition_cases : forall g a b,
  (same_name_same_block g a b -> replaced_blocks_unconnected g a b) /\
  (common_name g a b = false -> same_name_same_block g a b).
Proof. exact (fun g a b => conj (same_name_replaced g a b) (common_name_false g a b)). Qed.
Print Assumptions grid_add_precondition_cases.
(** embedding: both grids consistent, the connection object not one of theirs; nothing else *)
Theorem embed_preserves : forall g a b j fits r, Inv (with_view g a) -> Inv (with_view g b) ->
  ~ In j (v_clist a) -> ~ In j (v_clist b) -> (j < next g)%positive -> embed g a b j fits = Ok (Some r) -> Inv r.
Proof. exact embed_inv. Qed.
Print Assumptions embed_preserves.

(** rename_blocks with the default fix_blocknames = True: the map is first rewritten by fix_block_mapping (names in the
    (a3, i2) spelling become the names of the grid); then as rename_blocks, of the rewritten map *)
Theorem rename_blocks_fix_preserves : forall g m g',
  Inv g -> (forall m', fix_block_mapping m = Ok m' -> inj_on_blocks g m') -> rename_blocks_fix g m = Ok g' -> Inv g'.
Proof. exact (fun g m g' I P H => step_inv g (RenameFix m) g' I P H). Qed.
Print Assumptions rename_blocks_fix_preserves.

(** a REFUSED edit (the method raises; the caller may catch the exception and keep the grid) leaves a consistent grid:
    [after g o] is the state in which [step g o] raises *)
Theorem refused_edit_leaves_consistent_grid : forall g o e, Inv g -> pre_after g o -> step g o = Raise e -> Inv (after g o).
Proof. exact after_inv. Qed.
Print Assumptions refused_edit_leaves_consistent_grid.
(** ... and the invariant holds after every sequence of edits of which any number are refused *)
Theorem grid_inv_reachable_catching : forall ops g, Inv g -> pre_on g ops -> Inv (run_on g ops).
Proof. exact inv_reachable_on. Qed.
Print Assumptions grid_inv_reachable_catching.

(** delete_connection and delete_block are never refused on a consistent grid (a block connected with itself included) *)
Theorem delete_connection_and_block_never_raise : forall g, Inv g ->
  (forall k, exists g', delete_connection g k = Ok g') /\ (forall n, exists g', delete_block g n = Ok g').
Proof. exact (fun g I => conj (fun k => delete_connection_total g k I) (fun n => delete_block_total g n I)). Qed.
Print Assumptions delete_connection_and_block_never_raise.

(** the three preconditions cannot be dropped: the faithful model carries the listed findings *)
(** (each about the variant of the method the code under test has: GenFlags is generated from t2grids.py on every run;
    in the variant that refuses such a call the precondition is not needed, see the *_refusing_* theorems) *)
Theorem add_block_replacing_connected_block_breaks_inv : add_block_refuses = false ->
  exists g n rk g', Inv g /\ add_block g n rk = Ok g' /\ ~ Inv g'.
Proof. exact add_block_replace_refuted. Qed.
Print Assumptions add_block_replacing_connected_block_breaks_inv.
Theorem delete_rocktype_in_use_breaks_inv : delete_rocktype_refuses = false ->
  exists g n g', Inv g /\ delete_rocktype g n = Ok g' /\ ~ Inv g'.
Proof. exact delete_rocktype_in_use_refuted. Qed.
Print Assumptions delete_rocktype_in_use_breaks_inv.
Theorem rename_rocktype_with_stale_object_breaks_inv : add_rocktype_relinks = false ->
  exists g a b g', Inv g /\ rename_rocktype g a b = Ok g' /\ ~ Inv g'.
Proof. exact rename_rocktype_stale_refuted. Qed.
Print Assumptions rename_rocktype_with_stale_object_breaks_inv.

(** the hypotheses are met by a non-trivial grid: two connected blocks, renamed by a swap *)
Theorem example_pair_consistent : Inv g_pair.
Proof. exact g_pair_inv. Qed.
Print Assumptions example_pair_consistent.
Theorem example_swap_is_one_to_one : inj_on_blocks g_pair [(a1, b1); (b1, a1)].
Proof. exact swap_is_injective. Qed.
Print Assumptions example_swap_is_one_to_one.

(** ... and through __add__: the other grid has a block named like a connected block of this one *)
Theorem grid_add_overlapping_connected_name_breaks_inv : add_block_refuses = false ->
  exists g h r, Inv g /\ Inv (with_view g h) /\ grid_add g (view_of g) h = Ok r /\ ~ Inv r.
Proof. exact grid_add_overlap_refuted. Qed.
Print Assumptions grid_add_overlapping_connected_name_breaks_inv.

(** the repaired variants (proposed_fixes/C08-delete-rocktype-in-use, C08-add-block-replaces-connected): the method refuses
    the call that would break the grid, and no precondition is left *)
Theorem delete_rocktype_refusing_preserves : delete_rocktype_refuses = true ->
  forall g n g', Inv g -> delete_rocktype g n = Ok g' -> Inv g'.
Proof. exact (fun F g n g' => delete_rocktype_refusing_inv g n g' F). Qed.
Print Assumptions delete_rocktype_refusing_preserves.
Theorem add_block_refusing_preserves : add_block_refuses = true ->
  forall g n rk g', Inv g -> add_block g n rk = Ok g' -> Inv g'.
Proof. exact (fun F g n rk g' => add_block_refusing_inv g n rk g' F). Qed.
Print Assumptions add_block_refusing_preserves.
(** the variant of this run *)
Theorem method_variants_of_this_run : exists a b c, delete_rocktype_refuses = a /\ add_block_refuses = b /\ add_rocktype_relinks = c.
Proof. exact (ex_intro _ _ (ex_intro _ _ (ex_intro _ _ (conj eq_refl (conj eq_refl eq_refl))))). Qed.
Print Assumptions method_variants_of_this_run.

(** the boolean test of the invariant (used for the concrete grids below, and printed by the extracted driver next to
    every full dump, where it is compared with the verdict of the Python statement of the invariant) decides it *)
Theorem inv_test_decides : forall g, inv_b g = true <-> Inv g.
Proof. exact inv_b_iff. Qed.
Print Assumptions inv_test_decides.

(** two disjoint connected pairs on one heap meet the hypotheses of the sum; a sequence mixing minc, __add__,
    a swap rename, delete_block and embed meets [pre_all] and runs to the end *)
Theorem example_two_grids_can_be_added : pre g_ab (AddGrid h_cd false).
Proof. exact add_disjoint_pre. Qed.
Print Assumptions example_two_grids_can_be_added.
Theorem example_sum_replacing_an_unconnected_block : pre (with_view g_a2 (view_of g_pair)) (AddGrid (view_of g_a2) true).
Proof. exact add_replacing_unconnected_pre. Qed.
Print Assumptions example_sum_replacing_an_unconnected_block.
Theorem example_mixed_sequence_meets_pre : pre_all g_ab ops_mix.
Proof. exact mixed_sequence_pre. Qed.
Print Assumptions example_mixed_sequence_meets_pre.
Theorem example_mixed_sequence_runs : exists g', run g_ab ops_mix = Ok g' /\ length (blist g') = 5%nat /\ length (clist g') = 3%nat.
Proof. exact mixed_sequence_runs. Qed.
Print Assumptions example_mixed_sequence_runs.
Theorem example_minc_refuses_colliding_matrix_names :
  exists g, run empty [AddRock r1; AddBlock a1 r1; AddBlock a3n r1] = Ok g /\
            minc mb1 mr1 1 [] [] g = Raise PlainException /\ minc mb1 mr1 1 [a1] [] g <> Raise PlainException.
Proof. exact minc_colliding_matrix_names_refused. Qed.
Print Assumptions example_minc_refuses_colliding_matrix_names.
Theorem example_rename_with_unfixed_names :
  exists g', step g_fix (RenameFix [(s2l "ab1 1", s2l "cd1 1"); (ab102, s2l "ab1 1")]) = Ok g' /\
             map (bn g') (blist g') = [s2l "cd101"; ab101] /\ map fst (cdict g') = [(s2l "cd101", ab101)] /\
             cn g' 2%positive = [(s2l "cd101", ab101)] /\ inv_b g' = true.
Proof. exact rename_fix_example. Qed.
Print Assumptions example_rename_with_unfixed_names.
Theorem example_sequence_with_refused_edits_meets_pre : pre_on g_pair ops_refused.
Proof. exact refused_sequence_pre. Qed.
Print Assumptions example_sequence_with_refused_edits_meets_pre.
Theorem example_self_connection_can_be_deleted :
  inv_b g_self = true /\
  (exists g', step g_self (DelConn a1 a1) = Ok g' /\ clist g' = [] /\ cn g' 2%positive = [] /\ inv_b g' = true) /\
  (exists g', step g_self (DelBlock a1) = Ok g' /\ blist g' = [] /\ clist g' = [] /\ inv_b g' = true).
Proof. exact delete_self_connection_ok. Qed.
Print Assumptions example_self_connection_can_be_deleted.

(** WHEN an edit of a consistent grid is refused, exactly (InvTotal.v): the internal list.index / list.remove /
    set.remove / dictionary look-ups of the methods can not fail on a consistent grid, so an edit raises only
    where the Python text raises on purpose or looks up a name given by the caller.  Each holds for every
    setting of the variant flags. *)
Theorem add_rocktype_never_raises : forall g n, Inv g -> exists g', add_rocktype g n = Ok g'.
Proof. exact add_rocktype_total. Qed.
Print Assumptions add_rocktype_never_raises.
Theorem clean_rocktypes_never_raises : forall g, Inv g -> exists g', clean_rocktypes g = Ok g'.
Proof. exact clean_rocktypes_total. Qed.
Print Assumptions clean_rocktypes_never_raises.
Theorem delete_rocktype_refused_exactly_when : forall g n e, Inv g ->
  (delete_rocktype g n = Raise e <-> delete_rocktype_refuses = true /\ e = PlainException /\ rock_in_use g n).
Proof. exact delete_rocktype_raises_iff. Qed.
Print Assumptions delete_rocktype_refused_exactly_when.
Theorem rename_rocktype_refused_exactly_when : forall g a b e,
  rename_rocktype g a b = Raise e <-> e = PlainException /\ (rget g a = None \/ rget g b <> None).
Proof. exact rename_rocktype_raises_iff. Qed.
Print Assumptions rename_rocktype_refused_exactly_when.
Theorem add_connection_refused_exactly_when : forall g n0 n1 e, Inv g ->
  (add_connection g n0 n1 = Raise e <-> e = KeyError /\ (bget g n0 = None \/ bget g n1 = None)).
Proof. exact add_connection_raises_iff. Qed.
Print Assumptions add_connection_refused_exactly_when.
Theorem add_block_refused_exactly_when : forall g n rk e, Inv g ->
  (add_block g n rk = Raise e <->
   (e = KeyError /\ rget g rk = None) \/
   (e = PlainException /\ add_block_refuses = true /\ rget g rk <> None /\ replaces_connected g n)).
Proof. exact add_block_raises_iff. Qed.
Print Assumptions add_block_refused_exactly_when.
Theorem demote_block_refused_exactly_when : forall ns g e, Inv g ->
  (demote_block g ns = Raise e <-> e = TypeError /\ exists n, In n ns /\ bget g n = None).
Proof. exact demote_block_raises_iff. Qed.
Print Assumptions demote_block_refused_exactly_when.
Theorem demote_block_loses_no_block : forall ns g g', demote_block g ns = Ok g' ->
  Permutation (blist g) (blist g') /\ bdict g' = bdict g /\ bn g' = bn g.
Proof. exact demote_block_keeps_blocks. Qed.
Print Assumptions demote_block_loses_no_block.
Theorem rename_blocks_fix_refused_exactly_when : forall g m e, Inv g ->
  (rename_blocks_fix g m = Raise e <-> fix_block_mapping m = Raise e).
Proof. exact rename_blocks_fix_raises_iff. Qed.
Print Assumptions rename_blocks_fix_refused_exactly_when.
Theorem deleting_an_absent_name_changes_nothing : forall g, (forall n, rget g n = None -> delete_rocktype g n = Ok g) /\
  (forall n, bget g n = None -> delete_block g n = Ok g) /\ (forall k, cget g k = None -> delete_connection g k = Ok g).
Proof. exact delete_absent_noop. Qed.
Print Assumptions deleting_an_absent_name_changes_nothing.
