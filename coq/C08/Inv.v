(** C08 -- the invariant of the property statement, over the model state. *)
From Coq Require Import Ascii String List Bool PArith NArith FMapPositive Permutation Lia.
From PTBase Require Import Exn PyStr.
From P Require Import Assoc GridEdit GridLemmas.
Import ListNotations.
Open Scope list_scope.

(** [Inv g]:
    - [i_r], [i_b], [i_c]: for rock types, blocks and connections the by-name lookup and the
      ordered list describe the same objects, without repetition, each filed under its own
      current name (for a connection: the pair of the current names of its two blocks);
    - [i_ends]: every connection joins two blocks that are in the grid;
    - [i_back]: a block's connection_name set is exactly the set of keys of the connections
      that mention it;
    - [i_rock]: every block's rock type carries a name registered in the grid;
    - [i_*fresh]: bookkeeping of the model (ids in use are below the allocation counter). *)
Record Inv (g : grid) : Prop := {
  i_r : DL (rn g) (rlist g) (rdict g);
  i_b : DL (bn g) (blist g) (bdict g);
  i_c : DL (ckey g) (clist g) (cdict g);
  i_ends : forall j, In j (clist g) -> In (c0 g j) (blist g) /\ In (c1 g j) (blist g);
  i_back : forall i, In i (blist g) -> forall k,
      In k (cn g i) <-> exists j, In j (clist g) /\ ckey g j = k /\ (c0 g j = i \/ c1 g j = i);
  i_rock : forall i, In i (blist g) -> In (rn g (br g i)) (map fst (rdict g));
  i_brfresh : forall i, In i (blist g) -> (br g i < next g)%positive;
  i_rfresh : forall j, In j (rlist g) -> (j < next g)%positive;
  i_bfresh : forall i, In i (blist g) -> (i < next g)%positive;
  i_cfresh : forall j, In j (clist g) -> (j < next g)%positive }.

Lemma inv_init : Inv empty.
Proof.
  constructor; cbn; try apply DL_empty; try tauto.
Qed.

(** ** consequences *)
Lemma inv_bget g n i : Inv g -> bget g n = Some i -> In i (blist g) /\ bn g i = n.
Proof. intros I H. exact (DL_aget str_eqb str_spec _ _ _ _ _ (i_b g I) H). Qed.
Lemma inv_rget g n j : Inv g -> rget g n = Some j -> In j (rlist g) /\ rn g j = n.
Proof. intros I H. exact (DL_aget str_eqb str_spec _ _ _ _ _ (i_r g I) H). Qed.
Lemma inv_cget g k j : Inv g -> cget g k = Some j -> In j (clist g) /\ ckey g j = k.
Proof. intros I H. exact (DL_aget key2_eqb key2_spec _ _ _ _ _ (i_c g I) H). Qed.
Lemma inv_bn_inj g i i' : Inv g -> In i (blist g) -> In i' (blist g) -> bn g i = bn g i' -> i = i'.
Proof. intros I. exact (DL_inj str_eqb str_spec _ _ _ _ _ (i_b g I)). Qed.
Lemma inv_ckey_inj g j j' : Inv g -> In j (clist g) -> In j' (clist g) -> ckey g j = ckey g j' -> j = j'.
Proof. intros I. exact (DL_inj key2_eqb key2_spec _ _ _ _ _ (i_c g I)). Qed.
Lemma inv_next_notin_b g : Inv g -> ~ In (next g) (blist g).
Proof. intros I H. apply (i_bfresh g I) in H. lia. Qed.
Lemma inv_next_notin_r g : Inv g -> ~ In (next g) (rlist g).
Proof. intros I H. apply (i_rfresh g I) in H. lia. Qed.
Lemma inv_next_notin_c g : Inv g -> ~ In (next g) (clist g).
Proof. intros I H. apply (i_cfresh g I) in H. lia. Qed.

(** ** reordering a list keeps the invariant *)
Lemma inv_perm_blist g l : Inv g -> Permutation (blist g) l -> Inv (set_blist g l).
Proof.
  intros I P. assert (Q : forall x, In x l <-> In x (blist g)).
  { intro x. split; apply Permutation_in; [apply Permutation_sym|]; exact P. }
  constructor; try apply I; gs.
  - eapply DL_perm; [exact P|apply I].
  - intros j H. rewrite !Q. apply (i_ends g I). exact H.
  - intros i H. apply (i_back g I). apply Q. exact H.
  - intros i H. apply (i_rock g I). apply Q. exact H.
  - intros i H. apply (i_brfresh g I). apply Q. exact H.
  - intros i H. apply (i_bfresh g I). apply Q. exact H.
Qed.
Lemma inv_perm_clist g l : Inv g -> Permutation (clist g) l -> Inv (set_clist g l).
Proof.
  intros I P. assert (Q : forall x, In x l <-> In x (clist g)).
  { intro x. split; apply Permutation_in; [apply Permutation_sym|]; exact P. }
  constructor; try apply I; gs.
  - eapply DL_perm; [exact P|apply I].
  - intros j H. apply (i_ends g I). apply Q. exact H.
  - intros i H k. rewrite (i_back g I i H k). split; intros [j [Hj R]]; exists j; (split; [apply Q; exact Hj|exact R]).
  - intros j H. apply (i_cfresh g I). apply Q. exact H.
Qed.
