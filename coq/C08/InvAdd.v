(** C08 -- [a + b] (t2grid.__add__) gives a consistent grid when both operands are consistent and
    a block of [a] that has the name of a DIFFERENT block of [b] (and is therefore replaced by it in the
    sum) has no connections -- the precondition of [add_block], lifted to the sum.  Special cases: two
    blocks of the operands that carry the same name are the same object; the operands have no block
    name in common (what [embed] tests).

    The result is built by adding the operands' OWN objects to an empty grid, so while it is being
    built its blocks already carry their connection_name sets although the connections are not in
    it yet: the loop invariant [Pre] is [Inv] with the "exactly" of the back-reference clause split
    into what holds all along ([p_back], [p_cn]) and what is recovered at the end. *)
From Coq Require Import Ascii String List Bool PArith NArith FMapPositive Permutation Lia.
From PTBase Require Import Exn PyStr.
From Gen Require Import GenFlags.
From P Require Import Assoc GridEdit GridLemmas Inv.
Import ListNotations.
Open Scope list_scope.

(** ** containers: adding an object that may already be there *)
Lemma lreplace_same l x : lreplace l x x = l.
Proof. induction l as [|a r IH]; cbn; [reflexivity|]. destruct (Pos.eqb_spec x a) as [->|N]; [reflexivity|]. rewrite IH. reflexivity. Qed.

Section AddObj.
  Context {K : Type} (eqb : K -> K -> bool).
  Hypothesis eqb_spec : forall a b, reflect (a = b) (eqb a b).
  Lemma aset_same (d : list (K * id)) k v : aget eqb d k = Some v -> aset eqb d k v = d.
  Proof.
    induction d as [|[a b] r IH]; cbn; [discriminate|]. destruct (eqb_spec k a) as [->|N].
    - intro H; inversion H; reflexivity.
    - intro H. rewrite (IH H). reflexivity.
  Qed.
  (** the list after [add_xxx(obj)]: the entry filed under the object's name is replaced, else the object is appended *)
  Definition ladd (name : id -> K) (l : list id) (d : list (K * id)) (j : id) : list id :=
    match aget eqb d (name j) with Some old => lreplace l old j | None => l ++ [j] end.
  Lemma DL_add_obj name l d j : DL name l d -> DL name (ladd name l d j) (aset eqb d (name j) j).
  Proof.
    intro D. unfold ladd. destruct (aget eqb d (name j)) as [old|] eqn:E.
    - destruct (Pos.eq_dec j old) as [->|N].
      + rewrite lreplace_same, (aset_same _ _ _ E). exact D.
      + apply (DL_add_replace eqb eqb_spec); auto.
        intro Hin. apply N. pose proof (DL_aget_name eqb eqb_spec _ _ _ _ D Hin) as X. congruence.
    - apply (DL_add_new eqb eqb_spec); auto.
      intro Hin. pose proof (DL_aget_name eqb eqb_spec _ _ _ _ D Hin) as X. congruence.
  Qed.
  Lemma ladd_incl name l d j x : In x (ladd name l d j) -> In x l \/ x = j.
  Proof.
    unfold ladd. destruct (aget eqb d (name j)) as [old|].
    - intro H. apply lreplace_incl in H. destruct H; auto.
    - rewrite in_app_iff. cbn. intuition.
  Qed.
  (** what stays: everything but the replaced entry *)
  Lemma ladd_keep name l d j x : DL name l d -> In x l -> aget eqb d (name j) <> Some x -> In x (ladd name l d j).
  Proof.
    intros D Hx N. unfold ladd. destruct (aget eqb d (name j)) as [old|] eqn:E.
    - destruct (DL_aget eqb eqb_spec _ _ _ _ _ D E) as [Ho _].
      apply (In_lreplace _ _ _ _ (dl_nodup _ _ _ D) Ho). right. split; [exact Hx|congruence].
    - rewrite in_app_iff. left. exact Hx.
  Qed.
  Lemma ladd_in name l d j : DL name l d -> In j (ladd name l d j).
  Proof.
    intro D. unfold ladd. destruct (aget eqb d (name j)) as [old|] eqn:E.
    - destruct (DL_aget eqb eqb_spec _ _ _ _ _ D E) as [Ho _].
      apply (In_lreplace _ _ _ _ (dl_nodup _ _ _ D) Ho). left. reflexivity.
    - rewrite in_app_iff. right. left. reflexivity.
  Qed.
End AddObj.

(** ** accessors of a view *)
Lemma with_view_of g : with_view g (view_of g) = g.
Proof. destruct g; reflexivity. Qed.

(** two blocks of the operands that carry the same name are the same object *)
Definition same_name_same_block (g : grid) (a b : view) : Prop :=
  forall i i', In i (v_blist a) -> In i' (v_blist b) -> bn g i = bn g i' -> i = i'.
Lemma same_name_sym g a b : same_name_same_block g a b -> same_name_same_block g b a.
Proof. intros S i i' H H' E. symmetry. apply (S i' i); auto. Qed.
Lemma same_name_self g : Inv g -> same_name_same_block g (view_of g) (view_of g).
Proof. intros I i i' H H' E. exact (inv_bn_inj g i i' I H H' E). Qed.
(** a block of the first operand that is replaced in the sum (the second operand has a different block of that name) is unconnected *)
Definition replaced_blocks_unconnected (g : grid) (a b : view) : Prop :=
  forall i i', In i (v_blist a) -> In i' (v_blist b) -> bn g i = bn g i' -> i = i' \/ cn g i = [].
Lemma same_name_replaced g a b : same_name_same_block g a b -> replaced_blocks_unconnected g a b.
Proof. intros S i i' H H' E. left. apply S; auto. Qed.
(** no block name in common (what [embed] tests) is a special case *)
Lemma common_name_false g a b : common_name g a b = false -> same_name_same_block g a b.
Proof.
  intros C i i' H H' E. exfalso.
  assert (X : common_name g a b = true).
  { unfold common_name. apply existsb_exists. exists i. split; [exact H|].
    apply existsb_exists. exists i'. split; [exact H'|]. apply str_eqb_eq. exact E. }
  congruence.
Qed.

(** ** the loop invariant of [__add__], relative to the state [g0] in which it was called *)
Record Pre (g0 g : grid) : Prop := {
  p_rn : rn g = rn g0; p_bn : bn g = bn g0; p_c0 : c0 g = c0 g0; p_c1 : c1 g = c1 g0;
  (* a block's rock type object may have been exchanged for a newer one of the same name (repaired add_rocktype) *)
  p_brn : forall i, rn g0 (br g i) = rn g0 (br g0 i);
  p_brf : forall i, (br g0 i < next g0)%positive -> (br g i < next g0)%positive;
  p_next : next g = next g0;
  p_r : DL (rn g0) (rlist g) (rdict g);
  p_b : DL (bn g0) (blist g) (bdict g);
  p_c : DL (ckey g0) (clist g) (cdict g);
  p_ends : forall j, In j (clist g) -> In (c0 g0 j) (blist g) /\ In (c1 g0 j) (blist g);
  p_back : forall j, In j (clist g) -> In (ckey g0 j) (cn g (c0 g0 j)) /\ In (ckey g0 j) (cn g (c1 g0 j));
  p_cn : forall i k, In k (cn g i) ->
      In k (cn g0 i) \/ exists j, In j (clist g) /\ ckey g0 j = k /\ (c0 g0 j = i \/ c1 g0 j = i);
  p_mono : forall i k, In k (cn g0 i) -> In k (cn g i);
  p_rock : forall i, In i (blist g) -> In (rn g0 (br g0 i)) (map fst (rdict g));
  p_brfresh : forall i, In i (blist g) -> (br g0 i < next g0)%positive;
  p_rfresh : forall j, In j (rlist g) -> (j < next g0)%positive;
  p_bfresh : forall i, In i (blist g) -> (i < next g0)%positive;
  p_cfresh : forall j, In j (clist g) -> (j < next g0)%positive }.

Lemma pre_ckey g0 g : Pre g0 g -> ckey g = ckey g0.
Proof. intro P. unfold ckey. rewrite (p_bn _ _ P), (p_c0 _ _ P), (p_c1 _ _ P). reflexivity. Qed.

(** [result = t2grid()] *)
Lemma pre_init g : Pre g (with_view g view0).
Proof.
  constructor; try reflexivity; cbn; try apply DL_empty; try tauto; auto.
Qed.

(** [result.add_rocktype(rt)] *)
Lemma pre_R g0 g j g' : Pre g0 g -> (j < next g0)%positive -> add_rocktype_obj g j = Ok g' ->
  Pre g0 g' /\ blist g' = blist g /\ clist g' = clist g /\
  (forall k, In k (map fst (rdict g)) -> In k (map fst (rdict g'))) /\ In (rn g0 j) (map fst (rdict g')).
Proof.
  intros P Hlt H. unfold add_rocktype_obj, rget in H. rewrite (p_rn _ _ P) in H.
  pose proof (DL_add_obj str_eqb str_spec (rn g0) (rlist g) (rdict g) j (p_r _ _ P)) as D.
  assert (F : forall x, In x (ladd str_eqb (rn g0) (rlist g) (rdict g) j) -> (x < next g0)%positive).
  { intros x Hx. apply ladd_incl in Hx. destruct Hx as [Hx| ->]; [apply (p_rfresh _ _ P); exact Hx|exact Hlt]. }
  unfold ladd in D, F.
  set (g1 := set_rdict (set_rlist g (match aget str_eqb (rdict g) (rn g0 j) with
                                     | Some old => lreplace (rlist g) old j | None => rlist g ++ [j] end))
                        (aset str_eqb (rdict g) (rn g0 j) j)).
  assert (P1 : Pre g0 g1).
  { unfold g1. constructor; try apply P; gs; auto.
    intros i Hi. apply (in_keys_aset str_eqb str_spec). right. apply (p_rock _ _ P). exact Hi. }
  (* the repaired variant then hands the blocks of the replaced rock type to [j]: same name, below the allocation counter *)
  assert (G : g' = g1 \/ exists old, aget str_eqb (rdict g) (rn g0 j) = Some old /\ g' = relink g1 old j).
  { destruct (aget str_eqb (rdict g) (rn g0 j)) as [old|] eqn:E; [destruct (mem old (rlist g)); [|discriminate]|]; inversion H; [|left; reflexivity].
    unfold relink_if. destruct (add_rocktype_relinks && negb (Pos.eqb old j)); [right; exists old; auto|left; reflexivity]. }
  assert (R : Pre g0 g' /\ blist g' = blist g1 /\ clist g' = clist g1 /\ rdict g' = rdict g1).
  { destruct G as [->|[old [E ->]]]; [auto|]. split; [|repeat split; reflexivity].
    assert (En : rn g0 old = rn g0 j) by exact (proj2 (DL_aget str_eqb str_spec _ _ _ _ _ (p_r _ _ P) E)).
    constructor; try apply P1.
    - intro i. change (rn g0 (br (relink g1 old j) i) = rn g0 (br g0 i)). rewrite br_relink.
      destruct (mem i (blist g1) && Pos.eqb (br g1 i) old) eqn:C; [|apply (p_brn _ _ P1)].
      apply andb_true_iff in C. destruct C as [_ C]. apply Pos.eqb_eq in C. rewrite <- (p_brn _ _ P1 i), C. symmetry. exact En.
    - intros i Hi. change (br (relink g1 old j) i < next g0)%positive. rewrite br_relink.
      destruct (mem i (blist g1) && Pos.eqb (br g1 i) old); [exact Hlt|apply (p_brf _ _ P1); exact Hi]. }
  destruct R as [P' [Eb [Ec Er]]]. clear H G.
  split; [exact P'|]. rewrite Eb, Ec, Er. unfold g1. gs. repeat split; try reflexivity.
  - intros k Hk. apply (in_keys_aset str_eqb str_spec). right. exact Hk.
  - apply (in_keys_aset str_eqb str_spec). left. reflexivity.
Qed.

(** [result.add_block(blk)]: a different block that is filed under the same name (it is replaced) is not an end of
    any connection of the result *)
Lemma pre_B g0 g i g' : Pre g0 g -> (i < next g0)%positive -> (br g0 i < next g0)%positive ->
  In (rn g0 (br g0 i)) (map fst (rdict g)) ->
  (forall old, aget str_eqb (bdict g) (bn g0 i) = Some old ->
               old = i \/ forall j, In j (clist g) -> c0 g0 j <> old /\ c1 g0 j <> old) ->
  add_block_obj g i = Ok g' ->
  Pre g0 g' /\ (forall x, In x (blist g') -> In x (blist g) \/ x = i) /\ In i (blist g') /\
  (forall x, In x (blist g) -> (bn g0 x = bn g0 i -> x = i) -> In x (blist g')) /\
  rdict g' = rdict g /\ clist g' = clist g /\ cdict g' = cdict g.
Proof.
  intros P Hlt Hbr Hrk Hold H. unfold add_block_obj, bget in H. rewrite (p_bn _ _ P) in H.
  pose proof (DL_add_obj str_eqb str_spec (bn g0) (blist g) (bdict g) i (p_b _ _ P)) as D.
  set (L := ladd str_eqb (bn g0) (blist g) (bdict g) i) in *.
  assert (Li : In i L) by (apply (ladd_in str_eqb str_spec); apply P).
  assert (Lincl : forall x, In x L -> In x (blist g) \/ x = i) by (intro x; apply ladd_incl).
  (* what stays: everything but a different block of the same name *)
  assert (Lkeep : forall x, In x (blist g) -> aget str_eqb (bdict g) (bn g0 i) <> Some x \/ x = i -> In x L).
  { intros x Hx [N| ->]; [|exact Li]. apply (ladd_keep str_eqb str_spec); [apply P|exact Hx|exact N]. }
  assert (G : g' = set_bdict (set_blist g L) (aset str_eqb (bdict g) (bn g0 i) i)).
  { unfold L, ladd. destruct (aget str_eqb (bdict g) (bn g0 i)) as [old|]; [norefuse H; destruct (mem old (blist g)); [|discriminate]|]; inversion H; reflexivity. }
  subst g'. clear H.
  (* an end of a connection of the result is not replaced *)
  assert (Ends : forall j, In j (clist g) -> In (c0 g0 j) L /\ In (c1 g0 j) L).
  { intros j Hj. destruct (p_ends _ _ P j Hj) as [A B].
    split; (apply Lkeep; [assumption|]);
      (destruct (aget str_eqb (bdict g) (bn g0 i)) as [old|] eqn:E; [|left; discriminate]);
      (destruct (Hold old eq_refl) as [->|No]; [destruct (Pos.eq_dec (c0 g0 j) i), (Pos.eq_dec (c1 g0 j) i); auto; left; congruence|]);
      left; intro X; inversion X; subst old; destruct (No j Hj); contradiction. }
  split; [|gs; repeat split; try reflexivity; auto].
  - constructor; try apply P; gs; auto.
    + intros x Hx. apply Lincl in Hx. destruct Hx as [Hx| ->]; [apply (p_rock _ _ P); exact Hx|exact Hrk].
    + intros x Hx. apply Lincl in Hx. destruct Hx as [Hx| ->]; [apply (p_brfresh _ _ P); exact Hx|exact Hbr].
    + intros x Hx. apply Lincl in Hx. destruct Hx as [Hx| ->]; [apply (p_bfresh _ _ P); exact Hx|exact Hlt].
  - intros x Hx Hn. apply Lkeep; [exact Hx|].
    destruct (aget str_eqb (bdict g) (bn g0 i)) as [old|] eqn:E; [|left; discriminate].
    destruct (Pos.eq_dec x i) as [->|N]; [right; reflexivity|left]. intro X. inversion X; subst old. apply N. apply Hn.
    exact (proj2 (DL_aget str_eqb str_spec _ _ _ _ _ (p_b _ _ P) E)).
Qed.

Lemma cn_add2' g a b k i x :
  In x (cn (cn_add (cn_add g a k) b k) i) <-> In x (cn g i) \/ (x = k /\ (i = a \/ i = b)).
Proof.
  rewrite cn_cn_add. destruct (Pos.eqb_spec i b) as [->|Nb].
  - rewrite In_set_add, cn_cn_add. destruct (Pos.eqb_spec b a) as [->|Na].
    + rewrite In_set_add. intuition.
    + intuition.
  - rewrite cn_cn_add. destruct (Pos.eqb_spec i a) as [->|Na].
    + rewrite In_set_add. intuition.
    + intuition.
Qed.

(** [result.add_connection(con)]: the two blocks of the connection are in the result already *)
Lemma pre_C g0 g j g' : Pre g0 g -> (j < next g0)%positive -> In (c0 g0 j) (blist g) -> In (c1 g0 j) (blist g) ->
  add_connection_obj g j = Ok g' ->
  Pre g0 g' /\ blist g' = blist g /\ rdict g' = rdict g /\
  (forall x, In x (clist g') -> In x (clist g) \/ x = j) /\
  (forall k, In k (map fst (cdict g)) -> In k (map fst (cdict g'))) /\ In (ckey g0 j) (map fst (cdict g')).
Proof.
  intros P Hlt H0 H1 H. unfold add_connection_obj, cget in H. rewrite (pre_ckey _ _ P) in H.
  pose proof (DL_add_obj key2_eqb key2_spec (ckey g0) (clist g) (cdict g) j (p_c _ _ P)) as D.
  set (k := ckey g0 j) in *.
  set (L := ladd key2_eqb (ckey g0) (clist g) (cdict g) j) in *.
  assert (G : g' = cn_add (cn_add (set_cdict (set_clist g L) (aset key2_eqb (cdict g) k j)) (c0 g0 j) k) (c1 g0 j) k).
  { unfold L, ladd. fold k. destruct (aget key2_eqb (cdict g) k) as [old|]; [destruct (mem old (clist g)); [|discriminate]|];
      cbn [bind] in H; gs in H; rewrite (p_c0 _ _ P), (p_c1 _ _ P) in H; inversion H; reflexivity. }
  subst g'. clear H.
  (* a connection of the list that is no longer there was filed under the same key: it joined the same blocks *)
  assert (R : forall x, In x (clist g) -> In x L \/ (ckey g0 x = k /\ c0 g0 x = c0 g0 j /\ c1 g0 x = c1 g0 j)).
  { intros x Hx. destruct (aget key2_eqb (cdict g) k) as [old|] eqn:E.
    - destruct (Pos.eq_dec x old) as [->|N].
      + right. destruct (DL_aget key2_eqb key2_spec _ _ _ _ _ (p_c _ _ P) E) as [_ Ko].
        destruct (p_ends _ _ P old Hx) as [A B]. unfold k, ckey in Ko. inversion Ko as [[Ka Kb]].
        split; [exact Ko|]. split; apply (DL_inj str_eqb str_spec _ _ _ _ _ (p_b _ _ P)); auto.
      + left. apply (ladd_keep key2_eqb key2_spec); [apply P|exact Hx|]. fold k. rewrite E. congruence.
    - left. apply (ladd_keep key2_eqb key2_spec); [apply P|exact Hx|]. fold k. rewrite E. discriminate. }
  assert (Lj : In j L) by (apply (ladd_in key2_eqb key2_spec); apply P).
  split; [|gs; repeat split; try reflexivity].
  - constructor; try apply P; gs; auto.
    + intros x Hx. apply ladd_incl in Hx. destruct Hx as [Hx| ->]; [apply (p_ends _ _ P); exact Hx|auto].
    + intros x Hx. rewrite !cn_add2'. gs. apply ladd_incl in Hx. destruct Hx as [Hx| ->].
      * destruct (p_back _ _ P x Hx). auto.
      * split; right; auto.
    + intros i k' Hk. rewrite cn_add2' in Hk. gs in Hk. destruct Hk as [Hk|[-> Hm]].
      * destruct (p_cn _ _ P i k' Hk) as [Hk0|[x [Hx [Kx Mx]]]]; [left; exact Hk0|right].
        destruct (R x Hx) as [Hl|[Ek [E0 E1]]]; [exists x; auto|].
        exists j. split; [exact Lj|]. split; [rewrite <- Kx; symmetry; exact Ek|]. rewrite <- E0, <- E1. exact Mx.
      * right. exists j. split; [exact Lj|]. split; [reflexivity|]. destruct Hm; auto.
    + intros i k' Hk. rewrite cn_add2'. gs. left. apply (p_mono _ _ P). exact Hk.
    + intros x Hx. apply ladd_incl in Hx. destruct Hx as [Hx| ->]; [apply (p_cfresh _ _ P); exact Hx|exact Hlt].
  - intros x Hx. apply ladd_incl in Hx. exact Hx.
  - intros k' Hk. apply (in_keys_aset key2_eqb key2_spec). right. exact Hk.
  - apply (in_keys_aset key2_eqb key2_spec). left. reflexivity.
Qed.

(** ** the three loops over an operand's lists *)
Lemma pre_Rs g0 l : forall g g', Pre g0 g -> (forall j, In j l -> (j < next g0)%positive) ->
  add_rocktype_objs g l = Ok g' ->
  Pre g0 g' /\ blist g' = blist g /\ clist g' = clist g /\
  (forall k, In k (map fst (rdict g)) -> In k (map fst (rdict g'))) /\
  (forall j, In j l -> In (rn g0 j) (map fst (rdict g'))).
Proof.
  induction l as [|j r IH]; cbn [add_rocktype_objs]; intros g g' P F H.
  - inversion H; subst. split; [exact P|]. split; [reflexivity|]. split; [reflexivity|]. split; [auto|]. intros j [].
  - destruct (add_rocktype_obj g j) as [g1|] eqn:E; cbn [bind] in H; [|discriminate].
    destruct (pre_R _ _ _ _ P (F j (or_introl eq_refl)) E) as [P1 [B1 [C1 [M1 N1]]]].
    destruct (IH g1 g' P1 (fun x Hx => F x (or_intror Hx)) H) as [P' [B' [C' [M' N']]]].
    split; [exact P'|]. split; [congruence|]. split; [congruence|]. split; [auto|].
    intros x [<-|Hx]; auto.
Qed.

Lemma pre_Bs g0 l : forall g g', Pre g0 g ->
  (forall i, In i l -> (i < next g0)%positive /\ (br g0 i < next g0)%positive /\ In (rn g0 (br g0 i)) (map fst (rdict g))) ->
  (forall i i', In i l -> In i' l -> bn g0 i = bn g0 i' -> i = i') ->
  (forall i i', In i (blist g) -> In i' l -> bn g0 i = bn g0 i' ->
                i = i' \/ forall j, In j (clist g) -> c0 g0 j <> i /\ c1 g0 j <> i) ->
  add_block_objs g l = Ok g' ->
  Pre g0 g' /\ (forall x, In x (blist g') -> In x (blist g) \/ In x l) /\ (forall x, In x l -> In x (blist g')) /\
  (forall x, In x (blist g) -> (forall i', In i' l -> bn g0 x = bn g0 i' -> x = i') -> In x (blist g')) /\
  rdict g' = rdict g /\ clist g' = clist g /\ cdict g' = cdict g.
Proof.
  induction l as [|i r IH]; cbn [add_block_objs]; intros g g' P F U S H.
  - inversion H; subst. split; [exact P|]. split; [auto|]. split; [intros x []|]. split; [auto|]. auto.
  - destruct (add_block_obj g i) as [g1|] eqn:E; cbn [bind] in H; [|discriminate].
    destruct (F i (or_introl eq_refl)) as [F1 [F2 F3]].
    assert (O : forall old, aget str_eqb (bdict g) (bn g0 i) = Some old ->
                            old = i \/ forall j, In j (clist g) -> c0 g0 j <> old /\ c1 g0 j <> old).
    { intros old Ho. destruct (DL_aget str_eqb str_spec _ _ _ _ _ (p_b _ _ P) Ho) as [Hin Hn].
      apply S; [exact Hin|left; reflexivity|exact Hn]. }
    destruct (pre_B _ _ _ _ P F1 F2 F3 O E) as [P1 [Q1 [Qi [Qk [R1 [C1 D1]]]]]].
    assert (F' : forall x, In x r -> (x < next g0)%positive /\ (br g0 x < next g0)%positive /\ In (rn g0 (br g0 x)) (map fst (rdict g1))).
    { intros x Hx. rewrite R1. apply F. right. exact Hx. }
    assert (U' : forall x x', In x r -> In x' r -> bn g0 x = bn g0 x' -> x = x').
    { intros x x' Hx Hx'. apply U; right; assumption. }
    assert (S' : forall x x', In x (blist g1) -> In x' r -> bn g0 x = bn g0 x' ->
                              x = x' \/ forall j, In j (clist g1) -> c0 g0 j <> x /\ c1 g0 j <> x).
    { intros x x' Hx Hx' En. rewrite C1. apply Q1 in Hx. destruct Hx as [Hx| ->].
      - apply S; [exact Hx|right; exact Hx'|exact En].
      - left. apply U; [left; reflexivity|right; exact Hx'|exact En]. }
    destruct (IH g1 g' P1 F' U' S' H) as [P' [Q' [Qi' [Qk' [R' [C' D']]]]]].
    split; [exact P'|]. split; [|split; [|split; [|repeat split; congruence]]].
    + intros x Hx. apply Q' in Hx. destruct Hx as [Hx|Hx]; [apply Q1 in Hx; cbn; intuition|cbn; tauto].
    + intros x [<-|Hx]; [|apply Qi'; exact Hx].
      apply Qk'; [exact Qi|]. intros i' Hi' En. apply U; [left; reflexivity|right; exact Hi'|exact En].
    + intros x Hx Hn. apply Qk'.
      * apply Qk; [exact Hx|]. intro En. apply Hn; [left; reflexivity|exact En].
      * intros i' Hi' En. apply Hn; [right; exact Hi'|exact En].
Qed.

Lemma pre_Cs g0 l : forall g g', Pre g0 g ->
  (forall j, In j l -> (j < next g0)%positive /\ In (c0 g0 j) (blist g) /\ In (c1 g0 j) (blist g)) ->
  add_connection_objs g l = Ok g' ->
  Pre g0 g' /\ blist g' = blist g /\ rdict g' = rdict g /\
  (forall x, In x (clist g') -> In x (clist g) \/ In x l) /\
  (forall k, In k (map fst (cdict g)) -> In k (map fst (cdict g'))) /\
  (forall j, In j l -> In (ckey g0 j) (map fst (cdict g'))).
Proof.
  induction l as [|j r IH]; cbn [add_connection_objs]; intros g g' P F H.
  - inversion H; subst. split; [exact P|]. split; [reflexivity|]. split; [reflexivity|]. split; [auto|]. split; [auto|]. intros j [].
  - destruct (add_connection_obj g j) as [g1|] eqn:E; cbn [bind] in H; [|discriminate].
    destruct (F j (or_introl eq_refl)) as [F1 [F2 F3]].
    destruct (pre_C _ _ _ _ P F1 F2 F3 E) as [P1 [B1 [R1 [L1 [M1 N1]]]]].
    assert (F' : forall x, In x r -> (x < next g0)%positive /\ In (c0 g0 x) (blist g1) /\ In (c1 g0 x) (blist g1)).
    { intros x Hx. rewrite B1. apply F. right. exact Hx. }
    destruct (IH g1 g' P1 F' H) as [P' [B' [R' [L' [M' N']]]]].
    split; [exact P'|]. split; [congruence|]. split; [congruence|]. split; [|split; [auto|]].
    + intros x Hx. apply L' in Hx. destruct Hx as [Hx|Hx]; [apply L1 in Hx; cbn; intuition|cbn; tauto].
    + intros x [<-|Hx]; auto.
Qed.

(** ** one operand *)
Lemma add_grid_spec g0 r v r' : Pre g0 r -> Inv (with_view g0 v) ->
  (forall i i', In i (blist r) -> In i' (v_blist v) -> bn g0 i = bn g0 i' ->
                i = i' \/ forall j, In j (clist r) -> c0 g0 j <> i /\ c1 g0 j <> i) ->
  add_grid r v = Ok r' ->
  Pre g0 r' /\ (forall x, In x (blist r') -> In x (blist r) \/ In x (v_blist v)) /\ (forall x, In x (v_blist v) -> In x (blist r')) /\
  (forall x, In x (blist r) -> (forall i', In i' (v_blist v) -> bn g0 x = bn g0 i' -> x = i') -> In x (blist r')) /\
  (forall x, In x (clist r') -> In x (clist r) \/ In x (v_clist v)) /\
  (forall k, In k (map fst (cdict r)) -> In k (map fst (cdict r'))) /\
  (forall j, In j (v_clist v) -> In (ckey g0 j) (map fst (cdict r'))).
Proof.
  intros P Iv S H. unfold add_grid in H.
  destruct (add_rocktype_objs r (v_rlist v)) as [g1|] eqn:E1; cbn [bind] in H; [|discriminate].
  destruct (add_block_objs g1 (v_blist v)) as [g2|] eqn:E2; cbn [bind] in H; [|discriminate].
  destruct (pre_Rs g0 _ _ _ P (i_rfresh _ Iv) E1) as [P1 [B1 [C1 [M1 N1]]]].
  assert (F2 : forall i, In i (v_blist v) -> (i < next g0)%positive /\ (br g0 i < next g0)%positive /\ In (rn g0 (br g0 i)) (map fst (rdict g1))).
  { intros i Hi. split; [exact (i_bfresh _ Iv i Hi)|]. split; [exact (i_brfresh _ Iv i Hi)|].
    pose proof (i_rock _ Iv i Hi) as X. apply (DL_key_in str_eqb str_spec _ _ _ _ (i_r _ Iv)) in X.
    destruct X as [j [Hj Hn]]. cbn in Hj. change (rn g0 j = rn g0 (br g0 i)) in Hn.
    rewrite <- Hn. apply N1. exact Hj. }
  assert (U2 : forall i i', In i (v_blist v) -> In i' (v_blist v) -> bn g0 i = bn g0 i' -> i = i').
  { intros i i' Hi Hi' E. exact (inv_bn_inj _ i i' Iv Hi Hi' E). }
  assert (S2 : forall i i', In i (blist g1) -> In i' (v_blist v) -> bn g0 i = bn g0 i' ->
                            i = i' \/ forall j, In j (clist g1) -> c0 g0 j <> i /\ c1 g0 j <> i).
  { intros i i' Hi Hi' E. rewrite B1 in Hi. rewrite C1. apply (S i i'); auto. }
  destruct (pre_Bs g0 _ _ _ P1 F2 U2 S2 E2) as [P2 [Q2 [Qi2 [Qk2 [R2 [C2 D2]]]]]].
  assert (F3 : forall j, In j (v_clist v) -> (j < next g0)%positive /\ In (c0 g0 j) (blist g2) /\ In (c1 g0 j) (blist g2)).
  { intros j Hj. split; [exact (i_cfresh _ Iv j Hj)|]. destruct (i_ends _ Iv j Hj) as [A B]. split; apply Qi2; [exact A|exact B]. }
  destruct (pre_Cs g0 _ _ _ P2 F3 H) as [P3 [B3 [R3 [L3 [M3 N3]]]]].
  split; [exact P3|]. split; [|split; [|split; [|split; [|split]]]].
  - intros x Hx. rewrite B3 in Hx. apply Q2 in Hx. rewrite B1 in Hx. exact Hx.
  - intros x Hx. rewrite B3. apply Qi2. exact Hx.
  - intros x Hx Hn. rewrite B3. apply Qk2; [rewrite B1; exact Hx|exact Hn].
  - intros x Hx. apply L3 in Hx. rewrite C2, C1 in Hx. exact Hx.
  - intros k Hk. apply M3. rewrite D2. clear - Hk E1.
    (* the rock type loop leaves the connection dict alone *)
    revert r g1 Hk E1. induction (v_rlist v) as [|j l IH]; cbn [add_rocktype_objs]; intros r g1 Hk E1.
    + inversion E1; subst; exact Hk.
    + destruct (add_rocktype_obj r j) as [r1|] eqn:E; cbn [bind] in E1; [|discriminate].
      apply (IH r1 g1); [|exact E1]. unfold add_rocktype_obj in E.
      destruct (rget r (rn r j)) as [old|]; [destruct (mem old (rlist r)); [|discriminate]|]; inversion E; subst; [|exact Hk].
      unfold relink_if. destruct (add_rocktype_relinks && negb (Pos.eqb old j)); exact Hk.
  - exact N3.
Qed.

(** ** the sum *)
Theorem grid_add_spec g a b r : Inv (with_view g a) -> Inv (with_view g b) -> replaced_blocks_unconnected g a b ->
  grid_add g a b = Ok r ->
  Inv r /\ Pre g r /\ (forall x, In x (blist r) -> In x (v_blist a) \/ In x (v_blist b)) /\
  (forall x, In x (v_blist b) -> In x (blist r)) /\
  (forall x, In x (clist r) -> In x (v_clist a) \/ In x (v_clist b)).
Proof.
  intros Ia Ib S H. unfold grid_add in H.
  destruct (add_grid (with_view g view0) a) as [r1|] eqn:E1; cbn [bind] in H; [|discriminate].
  destruct (add_grid_spec g _ _ _ (pre_init g) Ia (fun i i' (X : In i []) _ _ => match X with end) E1)
    as [P1 [Q1 [Qi1 [_ [L1 [M1 N1]]]]]].
  assert (A1 : forall x, In x (blist r1) -> In x (v_blist a)) by (intros x Hx; apply Q1 in Hx; destruct Hx as [[]|Hx]; exact Hx).
  assert (Lc1 : forall x, In x (clist r1) -> In x (v_clist a)) by (intros x Hx; apply L1 in Hx; destruct Hx as [[]|Hx]; exact Hx).
  (* a block of [a] without connection names is not an end of a connection of [a] *)
  assert (Un : forall i, In i (v_blist a) -> cn g i = [] -> forall j, In j (v_clist a) -> c0 g j <> i /\ c1 g j <> i).
  { intros i Hi Hc j Hj. assert (X : (c0 g j = i \/ c1 g j = i) -> False).
    { intro M. assert (K : In (ckey g j) (cn g i)) by (apply (i_back _ Ia i Hi); exists j; auto). rewrite Hc in K. exact K. }
    split; intro Y; apply X; auto. }
  assert (S1 : forall i i', In i (blist r1) -> In i' (v_blist b) -> bn g i = bn g i' ->
                            i = i' \/ forall j, In j (clist r1) -> c0 g j <> i /\ c1 g j <> i).
  { intros i i' Hi Hi' En. destruct (S i i' (A1 i Hi) Hi' En) as [E|Hc]; [left; exact E|right].
    intros j Hj. apply (Un i (A1 i Hi) Hc j (Lc1 j Hj)). }
  destruct (add_grid_spec g _ _ _ P1 Ib S1 H) as [P2 [Q2 [Qi2 [Qk2 [L2 [M2 N2]]]]]].
  assert (Qb : forall x, In x (blist r) -> In x (v_blist a) \/ In x (v_blist b)).
  { intros x Hx. apply Q2 in Hx. destruct Hx as [Hx|Hx]; [left; apply A1; exact Hx|right; exact Hx]. }
  assert (Lc : forall x, In x (clist r) -> In x (v_clist a) \/ In x (v_clist b)).
  { intros x Hx. apply L2 in Hx. destruct Hx as [Hx|Hx]; [left; apply Lc1; exact Hx|right; exact Hx]. }
  (* an end of a connection of [a] is in the sum: it is connected, hence not replaced *)
  assert (Ka : forall ja, In ja (v_clist a) -> In (c0 g ja) (blist r) /\ In (c1 g ja) (blist r)).
  { intros ja Hja. destruct (i_ends _ Ia ja Hja) as [A B].
    change (In (c0 g ja) (v_blist a)) in A. change (In (c1 g ja) (v_blist a)) in B.
    assert (K0 : In (ckey g ja) (cn g (c0 g ja))) by (apply (i_back (with_view g a) Ia (c0 g ja) A); exists ja; auto).
    assert (K1 : In (ckey g ja) (cn g (c1 g ja))) by (apply (i_back (with_view g a) Ia (c1 g ja) B); exists ja; auto).
    split; (apply Qk2; [apply Qi1; assumption|]); intros i' Hi' En.
    - destruct (S (c0 g ja) i' A Hi' En) as [E|Hc]; [exact E|]. rewrite Hc in K0. destruct K0.
    - destruct (S (c1 g ja) i' B Hi' En) as [E|Hc]; [exact E|]. rewrite Hc in K1. destruct K1. }
  assert (Kb : forall jb, In jb (v_clist b) -> In (c0 g jb) (blist r) /\ In (c1 g jb) (blist r)).
  { intros jb Hjb. destruct (i_ends _ Ib jb Hjb) as [A B]. split; apply Qi2; assumption. }
  split; [|split; [exact P2|split; [exact Qb|split; [exact Qi2|exact Lc]]]].
  pose proof (pre_ckey _ _ P2) as Ek.
  (* every connection key recorded by a block of an operand is the key of a connection of the result that mentions it *)
  assert (W : forall v, Inv (with_view g v) ->
                        (forall j, In j (v_clist v) -> In (c0 g j) (blist r) /\ In (c1 g j) (blist r)) ->
                        (forall j, In j (v_clist v) -> In (ckey g j) (map fst (cdict r))) ->
                        forall i, In i (v_blist v) -> forall k, In k (cn g i) ->
                        exists j, In j (clist r) /\ ckey g j = k /\ (c0 g j = i \/ c1 g j = i)).
  { intros v Iv Kv Keys i Hi k Hk.
    destruct (proj1 (i_back _ Iv i Hi k) Hk) as [ja [Hja [Ka' Ma]]].
    change (ckey (with_view g v) ja) with (ckey g ja) in Ka'.
    change (c0 (with_view g v) ja) with (c0 g ja) in Ma. change (c1 (with_view g v) ja) with (c1 g ja) in Ma.
    pose proof (Keys ja Hja) as X. apply (DL_key_in key2_eqb key2_spec _ _ _ _ (p_c _ _ P2)) in X.
    destruct X as [j' [Hj' Kj']]. exists j'. split; [exact Hj'|]. split; [congruence|].
    destruct (p_ends _ _ P2 j' Hj') as [A' B']. destruct (Kv ja Hja) as [A B].
    unfold ckey in Kj'. inversion Kj' as [[K0 K1]].
    assert (E0 : c0 g j' = c0 g ja) by (apply (DL_inj str_eqb str_spec _ _ _ _ _ (p_b _ _ P2)); auto).
    assert (E1' : c1 g j' = c1 g ja) by (apply (DL_inj str_eqb str_spec _ _ _ _ _ (p_b _ _ P2)); auto).
    rewrite E0, E1'. exact Ma. }
  constructor.
  - rewrite (p_rn _ _ P2). apply (p_r _ _ P2).
  - rewrite (p_bn _ _ P2). apply (p_b _ _ P2).
  - rewrite Ek. apply (p_c _ _ P2).
  - rewrite (p_c0 _ _ P2), (p_c1 _ _ P2). apply (p_ends _ _ P2).
  - intros i Hi k. rewrite Ek, (p_c0 _ _ P2), (p_c1 _ _ P2). split.
    + intro Hk. destruct (p_cn _ _ P2 i k Hk) as [Hk0|X]; [|exact X].
      apply Qb in Hi. destruct Hi as [Hi|Hi].
      * apply (W a Ia); [exact Ka|intros j Hj; apply M2; apply N1; exact Hj|exact Hi|exact Hk0].
      * apply (W b Ib); [exact Kb|exact N2|exact Hi|exact Hk0].
    + intros [j [Hj [Kj Mj]]]. destruct (p_back _ _ P2 j Hj) as [A B]. rewrite <- Kj. destruct Mj as [<-|<-]; assumption.
  - intros i Hi. rewrite (p_rn _ _ P2), (p_brn _ _ P2). apply (p_rock _ _ P2). exact Hi.
  - intros i Hi. rewrite (p_next _ _ P2). apply (p_brf _ _ P2). apply (p_brfresh _ _ P2). exact Hi.
  - intros j Hj. rewrite (p_next _ _ P2). apply (p_rfresh _ _ P2). exact Hj.
  - intros i Hi. rewrite (p_next _ _ P2). apply (p_bfresh _ _ P2). exact Hi.
  - intros j Hj. rewrite (p_next _ _ P2). apply (p_cfresh _ _ P2). exact Hj.
Qed.

Theorem grid_add_inv g a b r : Inv (with_view g a) -> Inv (with_view g b) -> replaced_blocks_unconnected g a b ->
  grid_add g a b = Ok r -> Inv r.
Proof. intros Ia Ib S H. exact (proj1 (grid_add_spec g a b r Ia Ib S H)). Qed.
